// Package doubles provides environment doubles for drivers: a gate-controlled, logging,
// fault-injecting key-value store that implements the repository's storage interfaces.
package doubles

import (
	"encoding/json"
	"errors"
	"fmt"
	"reflect"
	"strings"
	"sync"
	"time"

	"tunnox-core/internal/core/storage/types"
	"tunnox-core/verifharness/sched"
)

// Call is one logged storage operation.
type Call struct {
	Seq   int    `json:"seq"`
	Store string `json:"store"`
	Op    string `json:"op"`
	Key   string `json:"key"`
	Arg   any    `json:"arg,omitempty"`
	TTL   string `json:"ttl,omitempty"`
	Res   any    `json:"res,omitempty"`
	Err   string `json:"err,omitempty"`
	Write bool   `json:"write"`
}

type entry struct {
	val any
	ttl time.Duration
	at  time.Time
}

// Store is a simple correct TTL-less map (lifetimes are recorded; expiry happens only when the
// driver calls Expire/ExpireWhere, or by wall clock if RealTTL is set) with gates and faults.
type Store struct {
	Name string
	S    *sched.Sched
	// Shape "raw": values are returned as stored (like the memory backend);
	// Shape "json": non-string values are JSON-encoded on write and strings come back (like Redis).
	Shape   string
	RealTTL bool
	// GateOn decides which operations park at a gate (nil = all).
	GateOn func(op, key string) bool
	// Fault, if set, is consulted before each operation executes; a non-nil error is returned to
	// the caller instead of executing it.
	Fault func(c *Call) error
	// NoCAS hides SetNX/CompareAndSwap from type assertions when wrapped with Plain().
	mu   sync.Mutex
	data map[string]*entry
	log  []Call
	seq  int
}

// NewStore creates a store double.
func NewStore(name string, s *sched.Sched) *Store {
	return &Store{Name: name, S: s, Shape: "raw", data: map[string]*entry{}}
}

var ErrInjected = errors.New("injected storage fault")

func isWrite(op string) bool {
	switch op {
	case "Get", "Exists", "GetList", "GetHash", "GetAllHash", "GetExpiration", "BatchGet", "QueryByField", "QueryByPrefix":
		return false
	}
	return true
}

func (s *Store) begin(op, key string, arg any, ttl time.Duration) (*Call, error) {
	c := &Call{Store: s.Name, Op: op, Key: key, Arg: jsonable(arg), Write: isWrite(op)}
	if ttl > 0 {
		c.TTL = ttl.String()
	}
	if s.S != nil && (s.GateOn == nil || s.GateOn(op, key)) {
		s.S.Gate(s.Name+"."+op, map[string]any{"key": key})
	}
	if s.Fault != nil {
		if err := s.Fault(c); err != nil {
			c.Err = err.Error()
			s.end(c)
			return c, err
		}
	}
	return c, nil
}

func (s *Store) end(c *Call) {
	s.mu.Lock()
	s.seq++
	c.Seq = s.seq
	s.log = append(s.log, *c)
	s.mu.Unlock()
	if s.S != nil {
		s.S.After()
	}
}

func jsonable(v any) any {
	if v == nil {
		return nil
	}
	switch x := v.(type) {
	case string, bool, int, int64, float64, []any, map[string]any:
		return x
	}
	b, err := json.Marshal(v)
	if err != nil {
		return fmt.Sprintf("%v", v)
	}
	var out any
	if json.Unmarshal(b, &out) == nil {
		return out
	}
	return string(b)
}

func (s *Store) enc(v any) any {
	if s.Shape != "json" {
		return v
	}
	switch x := v.(type) {
	case string:
		return x
	case []byte:
		return string(x)
	}
	b, err := json.Marshal(v)
	if err != nil {
		return v
	}
	return string(b)
}

func (s *Store) live(k string) *entry {
	e := s.data[k]
	if e == nil {
		return nil
	}
	if s.RealTTL && e.ttl > 0 && time.Since(e.at) > e.ttl {
		delete(s.data, k)
		return nil
	}
	return e
}

// ---- driver-side controls -------------------------------------------------------------

// Log returns a copy of the call log.
func (s *Store) Log() []Call {
	s.mu.Lock()
	defer s.mu.Unlock()
	return append([]Call(nil), s.log...)
}

// Expire drops a key as its lifetime elapsing would.
func (s *Store) Expire(key string) {
	s.mu.Lock()
	delete(s.data, key)
	s.mu.Unlock()
}

// ExpireWhere drops every key with a finite lifetime for which pred holds.
func (s *Store) ExpireWhere(pred func(key string, ttl time.Duration) bool) {
	s.mu.Lock()
	for k, e := range s.data {
		if e.ttl > 0 && pred(k, e.ttl) {
			delete(s.data, k)
		}
	}
	s.mu.Unlock()
}

// Snapshot returns the JSON-able contents (keys with prefix).
func (s *Store) Snapshot(prefix string) map[string]any {
	s.mu.Lock()
	defer s.mu.Unlock()
	out := map[string]any{}
	for k, e := range s.data {
		if strings.HasPrefix(k, prefix) {
			out[k] = jsonable(e.val)
		}
	}
	return out
}

// Peek reads without logging or gating.
func (s *Store) Peek(key string) (any, bool) {
	s.mu.Lock()
	defer s.mu.Unlock()
	e := s.live(key)
	if e == nil {
		return nil, false
	}
	return e.val, true
}

// Poke writes without logging or gating.
func (s *Store) Poke(key string, v any, ttl time.Duration) {
	s.mu.Lock()
	s.data[key] = &entry{val: s.enc(v), ttl: ttl, at: time.Now()}
	s.mu.Unlock()
}

// ---- types.Storage -------------------------------------------------------------------

func (s *Store) Set(key string, value any, ttl time.Duration) error {
	c, err := s.begin("Set", key, value, ttl)
	if err != nil {
		return err
	}
	s.mu.Lock()
	s.data[key] = &entry{val: s.enc(value), ttl: ttl, at: time.Now()}
	s.mu.Unlock()
	s.end(c)
	return nil
}

func (s *Store) Get(key string) (any, error) {
	c, err := s.begin("Get", key, nil, 0)
	if err != nil {
		return nil, err
	}
	s.mu.Lock()
	e := s.live(key)
	s.mu.Unlock()
	if e == nil {
		c.Err = "notfound"
		s.end(c)
		return nil, types.ErrKeyNotFound
	}
	c.Res = jsonable(e.val)
	s.end(c)
	return e.val, nil
}

func (s *Store) Delete(key string) error {
	c, err := s.begin("Delete", key, nil, 0)
	if err != nil {
		return err
	}
	s.mu.Lock()
	delete(s.data, key)
	s.mu.Unlock()
	s.end(c)
	return nil
}

func (s *Store) Exists(key string) (bool, error) {
	c, err := s.begin("Exists", key, nil, 0)
	if err != nil {
		return false, err
	}
	s.mu.Lock()
	ok := s.live(key) != nil
	s.mu.Unlock()
	c.Res = ok
	s.end(c)
	return ok, nil
}

func (s *Store) SetExpiration(key string, ttl time.Duration) error {
	c, err := s.begin("SetExpiration", key, nil, ttl)
	if err != nil {
		return err
	}
	s.mu.Lock()
	e := s.live(key)
	if e != nil {
		e.ttl = ttl
		e.at = time.Now()
	}
	s.mu.Unlock()
	s.end(c)
	if e == nil {
		return types.ErrKeyNotFound
	}
	return nil
}

func (s *Store) GetExpiration(key string) (time.Duration, error) {
	c, err := s.begin("GetExpiration", key, nil, 0)
	if err != nil {
		return 0, err
	}
	s.mu.Lock()
	e := s.live(key)
	s.mu.Unlock()
	s.end(c)
	if e == nil {
		return 0, types.ErrKeyNotFound
	}
	if e.ttl <= 0 {
		return 0, nil
	}
	return e.ttl - time.Since(e.at), nil
}

func (s *Store) CleanupExpired() error { return nil }
func (s *Store) Close() error          { return nil }

// ---- ListStore ----------------------------------------------------------------------

func (s *Store) SetList(key string, values []any, ttl time.Duration) error {
	c, err := s.begin("SetList", key, values, ttl)
	if err != nil {
		return err
	}
	cp := make([]any, len(values))
	for i, v := range values {
		cp[i] = s.enc(v)
	}
	s.mu.Lock()
	s.data[key] = &entry{val: cp, ttl: ttl, at: time.Now()}
	s.mu.Unlock()
	s.end(c)
	return nil
}

func (s *Store) GetList(key string) ([]any, error) {
	c, err := s.begin("GetList", key, nil, 0)
	if err != nil {
		return nil, err
	}
	s.mu.Lock()
	e := s.live(key)
	var out []any
	var bad bool
	if e != nil {
		if l, ok := e.val.([]any); ok {
			out = append([]any(nil), l...)
		} else {
			bad = true
		}
	}
	s.mu.Unlock()
	if e == nil {
		c.Err = "notfound"
		s.end(c)
		return nil, types.ErrKeyNotFound
	}
	if bad {
		c.Err = "type"
		s.end(c)
		return nil, types.ErrInvalidType
	}
	c.Res = jsonable(out)
	s.end(c)
	return out, nil
}

func (s *Store) AppendToList(key string, value any) error {
	c, err := s.begin("AppendToList", key, value, 0)
	if err != nil {
		return err
	}
	s.mu.Lock()
	e := s.live(key)
	if e == nil {
		s.data[key] = &entry{val: []any{s.enc(value)}, at: time.Now()}
	} else if l, ok := e.val.([]any); ok {
		e.val = append(append([]any(nil), l...), s.enc(value))
	} else {
		s.mu.Unlock()
		c.Err = "type"
		s.end(c)
		return types.ErrInvalidType
	}
	s.mu.Unlock()
	s.end(c)
	return nil
}

func (s *Store) RemoveFromList(key string, value any) error {
	c, err := s.begin("RemoveFromList", key, value, 0)
	if err != nil {
		return err
	}
	s.mu.Lock()
	if e := s.live(key); e != nil {
		if l, ok := e.val.([]any); ok {
			nl := make([]any, 0, len(l))
			ev := s.enc(value)
			for _, x := range l {
				if !reflect.DeepEqual(x, ev) {
					nl = append(nl, x)
				}
			}
			e.val = nl
		}
	}
	s.mu.Unlock()
	s.end(c)
	return nil
}

// ---- HashStore ----------------------------------------------------------------------

func (s *Store) SetHash(key, field string, value any) error {
	c, err := s.begin("SetHash", key, map[string]any{field: jsonable(value)}, 0)
	if err != nil {
		return err
	}
	s.mu.Lock()
	e := s.live(key)
	if e == nil {
		e = &entry{val: map[string]any{}, at: time.Now()}
		s.data[key] = e
	}
	h, ok := e.val.(map[string]any)
	if !ok {
		h = map[string]any{}
		e.val = h
	}
	h[field] = s.enc(value)
	s.mu.Unlock()
	s.end(c)
	return nil
}

func (s *Store) GetHash(key, field string) (any, error) {
	c, err := s.begin("GetHash", key, field, 0)
	if err != nil {
		return nil, err
	}
	s.mu.Lock()
	var v any
	found := false
	if e := s.live(key); e != nil {
		if h, ok := e.val.(map[string]any); ok {
			v, found = h[field]
		}
	}
	s.mu.Unlock()
	s.end(c)
	if !found {
		return nil, types.ErrKeyNotFound
	}
	return v, nil
}

func (s *Store) GetAllHash(key string) (map[string]any, error) {
	c, err := s.begin("GetAllHash", key, nil, 0)
	if err != nil {
		return nil, err
	}
	s.mu.Lock()
	var out map[string]any
	if e := s.live(key); e != nil {
		if h, ok := e.val.(map[string]any); ok {
			out = map[string]any{}
			for k, v := range h {
				out[k] = v
			}
		}
	}
	s.mu.Unlock()
	s.end(c)
	if out == nil {
		return nil, types.ErrKeyNotFound
	}
	return out, nil
}

func (s *Store) DeleteHash(key, field string) error {
	c, err := s.begin("DeleteHash", key, field, 0)
	if err != nil {
		return err
	}
	s.mu.Lock()
	if e := s.live(key); e != nil {
		if h, ok := e.val.(map[string]any); ok {
			delete(h, field)
		}
	}
	s.mu.Unlock()
	s.end(c)
	return nil
}

// ---- CounterStore -------------------------------------------------------------------

func (s *Store) Incr(key string) (int64, error) { return s.IncrBy(key, 1) }

func (s *Store) IncrBy(key string, d int64) (int64, error) {
	c, err := s.begin("IncrBy", key, d, 0)
	if err != nil {
		return 0, err
	}
	s.mu.Lock()
	e := s.live(key)
	if e == nil {
		e = &entry{val: int64(0), at: time.Now()}
		s.data[key] = e
	}
	n, _ := e.val.(int64)
	n += d
	e.val = n
	s.mu.Unlock()
	c.Res = n
	s.end(c)
	return n, nil
}

// ---- CASStore -----------------------------------------------------------------------

func (s *Store) SetNX(key string, value any, ttl time.Duration) (bool, error) {
	c, err := s.begin("SetNX", key, value, ttl)
	if err != nil {
		return false, err
	}
	s.mu.Lock()
	ok := s.live(key) == nil
	if ok {
		s.data[key] = &entry{val: s.enc(value), ttl: ttl, at: time.Now()}
	}
	s.mu.Unlock()
	c.Res = ok
	s.end(c)
	return ok, nil
}

func (s *Store) CompareAndSwap(key string, oldValue, newValue any, ttl time.Duration) (bool, error) {
	c, err := s.begin("CompareAndSwap", key, []any{jsonable(oldValue), jsonable(newValue)}, ttl)
	if err != nil {
		return false, err
	}
	s.mu.Lock()
	e := s.live(key)
	ok := false
	if e == nil {
		ok = oldValue == nil
	} else {
		ok = oldValue != nil && reflect.DeepEqual(e.val, s.enc(oldValue))
	}
	if ok {
		s.data[key] = &entry{val: s.enc(newValue), ttl: ttl, at: time.Now()}
	}
	s.mu.Unlock()
	c.Res = ok
	s.end(c)
	return ok, nil
}

// ---- WatchableStore -----------------------------------------------------------------

func (s *Store) Watch(key string, cb func(any)) error { return nil }
func (s *Store) Unwatch(key string) error             { return nil }

// QueryByPrefix lets the double stand behind code that scans keys.
func (s *Store) QueryByPrefix(prefix string, limit int) (map[string]string, error) {
	c, err := s.begin("QueryByPrefix", prefix, nil, 0)
	if err != nil {
		return nil, err
	}
	out := map[string]string{}
	s.mu.Lock()
	for k := range s.data {
		e := s.live(k)
		if e == nil || !strings.HasPrefix(k, prefix) {
			continue
		}
		if str, ok := e.val.(string); ok {
			out[k] = str
		} else if b, err := json.Marshal(e.val); err == nil {
			out[k] = string(b)
		}
		if limit > 0 && len(out) >= limit {
			break
		}
	}
	s.mu.Unlock()
	s.end(c)
	return out, nil
}

var _ types.FullStorage = (*Store)(nil)

// ---- variants -----------------------------------------------------------------------

// Plain hides every optional interface (no SetNX/CAS/list/hash/counter): only types.Storage.
type Plain struct{ types.Storage }

// NoCAS exposes everything except CASStore (for code with a non-atomic fallback path).
type NoCAS struct {
	types.Storage
	types.ListStore
	types.HashStore
	types.CounterStore
}

// AsNoCAS wraps the store hiding SetNX/CompareAndSwap.
func (s *Store) AsNoCAS() *NoCAS { return &NoCAS{Storage: s, ListStore: s, HashStore: s, CounterStore: s} }

// Pers adapts a Store to types.PersistentStorage.
type Pers struct{ St *Store }

func (p Pers) Set(key string, value any) error { return p.St.Set(key, value, 0) }
func (p Pers) Get(key string) (any, error)     { return p.St.Get(key) }
func (p Pers) Delete(key string) error         { return p.St.Delete(key) }
func (p Pers) Exists(key string) (bool, error) { return p.St.Exists(key) }
func (p Pers) BatchSet(items map[string]any) error {
	for k, v := range items {
		if err := p.St.Set(k, v, 0); err != nil {
			return err
		}
	}
	return nil
}
func (p Pers) BatchGet(keys []string) (map[string]any, error) {
	out := map[string]any{}
	for _, k := range keys {
		if v, err := p.St.Get(k); err == nil {
			out[k] = v
		}
	}
	return out, nil
}
func (p Pers) BatchDelete(keys []string) error {
	for _, k := range keys {
		if err := p.St.Delete(k); err != nil {
			return err
		}
	}
	return nil
}
func (p Pers) QueryByField(keyPrefix, fieldName string, fieldValue any) ([]string, error) {
	m, _ := p.St.QueryByPrefix(keyPrefix, 0)
	var out []string
	for _, js := range m {
		var obj map[string]any
		if json.Unmarshal([]byte(js), &obj) != nil {
			continue
		}
		if fmt.Sprint(obj[fieldName]) == fmt.Sprint(fieldValue) {
			out = append(out, js)
		}
	}
	return out, nil
}
func (p Pers) QueryByPrefix(prefix string, limit int) (map[string]string, error) {
	return p.St.QueryByPrefix(prefix, limit)
}
func (p Pers) Close() error { return nil }

var _ types.PersistentStorage = Pers{}
