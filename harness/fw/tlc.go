// Package fw is the orchestration framework shared by every property check:
// it runs TLC (exhaustive model checking, behaviour generation, trace judging),
// drives behaviours through the real tunnox-core code via a per-property driver,
// matches verdicts against known_findings.json and writes the evidence file.
package fw

import (
	"bufio"
	"bytes"
	"context"
	"encoding/json"
	"fmt"
	"io"
	"os"
	"os/exec"
	"path/filepath"
	"regexp"
	"strconv"
	"strings"
	"time"
)

// VerifRoot is the root of the verification tree (overridable for vp run snapshots).
func VerifRoot() string {
	if r := os.Getenv("VERIF_ROOT"); r != "" {
		return r
	}
	return "/verif"
}

// TLCJob describes one TLC invocation on a module of /verif/spec.
type TLCJob struct {
	Name     string            // label for evidence
	Module   string            // e.g. "KV" (KV.tla)
	Cfg      string            // e.g. "KV_mc.cfg"
	Workers  int               // 0 = auto (all cores)
	Simulate string            // non-empty => "-simulate <value>" e.g. "num=200"
	Depth    int               // for simulate
	Seed     int64             // for simulate
	Timeout  time.Duration     // default 10 min
	Files    map[string][]byte // extra files to drop in the scratch dir (e.g. trace.ndjson)
	Consts   map[string]string // text substitutions @@NAME@@ -> value applied to the cfg file
	DFS      bool              // use StateDeque (depth first) queue
	Coverage bool
	Heap     string // e.g. "8g"
	NoDeadlk bool
}

// TLCResult is the parsed outcome of a TLC run.
type TLCResult struct {
	Job        TLCJob
	Generated  int64
	Distinct   int64
	Depth      int
	Prints     []string // unquoted PrintT string lines
	OK         bool     // "No error has been found" or simulation ended w/o error
	Violation  string   // invariant/property name violated (if any)
	ErrorText  string   // first error block
	Out        string   // full output (truncated to 2 MB)
	WallS      float64
	ZeroCov    []string // actions with zero coverage (when Coverage)
	CmdLine    string
	TimedOut   bool
	ExitCode   int
	ScratchDir string
}

var (
	reStates   = regexp.MustCompile(`(\d+) states generated, (\d+) distinct states found`)
	reDepth    = regexp.MustCompile(`depth of the complete state graph search is (\d+)`)
	reInvViol  = regexp.MustCompile(`Invariant (\S+) is violated`)
	rePropViol = regexp.MustCompile(`(Temporal properties were violated|Action property \S+ .*is violated|property (\S+) is violated)`)
	reCovZero  = regexp.MustCompile(`^<(\w+) line .*>: 0:0$`)
)

// RunTLC runs one job in a fresh scratch copy of the spec directory.
func RunTLC(job TLCJob) (*TLCResult, error) {
	specDir := filepath.Join(VerifRoot(), "spec")
	scratch, err := os.MkdirTemp("", "vtlc-"+job.Module+"-")
	if err != nil {
		return nil, err
	}
	res := &TLCResult{Job: job, ScratchDir: scratch}
	defer os.RemoveAll(scratch)
	// copy *.tla and the cfg
	ents, err := os.ReadDir(specDir)
	if err != nil {
		return nil, err
	}
	for _, e := range ents {
		if e.IsDir() {
			continue
		}
		n := e.Name()
		if strings.HasSuffix(n, ".tla") || n == job.Cfg {
			b, err := os.ReadFile(filepath.Join(specDir, n))
			if err != nil {
				return nil, err
			}
			if n == job.Cfg {
				s := string(b)
				for k, v := range job.Consts {
					s = strings.ReplaceAll(s, "@@"+k+"@@", v)
				}
				b = []byte(s)
			}
			if err := os.WriteFile(filepath.Join(scratch, n), b, 0o644); err != nil {
				return nil, err
			}
		}
	}
	for n, b := range job.Files {
		if err := os.WriteFile(filepath.Join(scratch, n), b, 0o644); err != nil {
			return nil, err
		}
	}
	if job.Timeout == 0 {
		job.Timeout = 10 * time.Minute
	}
	workers := "auto"
	if job.Workers > 0 {
		workers = strconv.Itoa(job.Workers)
	}
	heap := job.Heap
	if heap == "" {
		heap = "6g"
	}
	args := []string{"-XX:+UseParallelGC", "-Xmx" + heap, "-Xss512m"}
	if job.DFS {
		args = append(args, "-Dtlc2.tool.queue.IStateQueue=StateDeque")
	}
	args = append(args, "-cp", "/opt/veriftools/tla/tla2tools.jar:/opt/veriftools/tla/CommunityModules-deps.jar", "tlc2.TLC",
		"-workers", workers, "-metadir", filepath.Join(scratch, "md"), "-config", job.Cfg)
	if job.Simulate != "" {
		args = append(args, "-simulate", job.Simulate)
		if job.Depth > 0 {
			args = append(args, "-depth", strconv.Itoa(job.Depth))
		}
		args = append(args, "-seed", strconv.FormatInt(job.Seed, 10))
	}
	if job.Coverage {
		args = append(args, "-coverage", "1")
	}
	if job.NoDeadlk {
		args = append(args, "-deadlock")
	}
	args = append(args, job.Module+".tla")
	ctx, cancel := context.WithTimeout(context.Background(), job.Timeout)
	defer cancel()
	cmd := exec.CommandContext(ctx, "java", args...)
	cmd.Dir = scratch
	cmd.Env = append(os.Environ(), "JAVA_TOOL_OPTIONS=")
	res.CmdLine = "java " + strings.Join(args, " ")
	pr, pw := io.Pipe()
	cmd.Stdout = pw
	cmd.Stderr = pw
	start := time.Now()
	if err := cmd.Start(); err != nil {
		return nil, err
	}
	var out bytes.Buffer
	done := make(chan struct{})
	go func() {
		defer close(done)
		sc := bufio.NewScanner(pr)
		sc.Buffer(make([]byte, 1<<20), 64<<20)
		for sc.Scan() {
			line := sc.Text()
			if strings.HasPrefix(line, `"`) && strings.HasSuffix(line, `"`) {
				if s, err := strconv.Unquote(line); err == nil {
					res.Prints = append(res.Prints, s)
					continue
				}
			}
			if out.Len() < 2<<20 {
				out.WriteString(line)
				out.WriteByte('\n')
			}
		}
	}()
	werr := cmd.Wait()
	pw.Close()
	<-done
	res.WallS = time.Since(start).Seconds()
	res.Out = out.String()
	if ctx.Err() == context.DeadlineExceeded {
		res.TimedOut = true
	}
	if werr != nil {
		if ee, ok := werr.(*exec.ExitError); ok {
			res.ExitCode = ee.ExitCode()
		} else {
			res.ExitCode = -1
		}
	}
	// parse
	for _, m := range reStates.FindAllStringSubmatch(res.Out, -1) {
		res.Generated, _ = strconv.ParseInt(m[1], 10, 64)
		res.Distinct, _ = strconv.ParseInt(m[2], 10, 64)
	}
	if m := reDepth.FindStringSubmatch(res.Out); m != nil {
		res.Depth, _ = strconv.Atoi(m[1])
	}
	if m := reInvViol.FindStringSubmatch(res.Out); m != nil {
		res.Violation = m[1]
	} else if m := rePropViol.FindStringSubmatch(res.Out); m != nil {
		res.Violation = m[0]
	}
	if strings.Contains(res.Out, "Deadlock reached") {
		res.Violation = "Deadlock"
	}
	if i := strings.Index(res.Out, "Error:"); i >= 0 {
		e := res.Out[i:]
		if len(e) > 3000 {
			e = e[:3000]
		}
		res.ErrorText = e
	}
	if job.Coverage {
		for _, line := range strings.Split(res.Out, "\n") {
			if m := reCovZero.FindStringSubmatch(strings.TrimSpace(line)); m != nil {
				res.ZeroCov = append(res.ZeroCov, m[1])
			}
		}
	}
	noErr := strings.Contains(res.Out, "Model checking completed. No error has been found") ||
		(job.Simulate != "" && res.ErrorText == "" && !res.TimedOut && res.ExitCode == 0)
	res.OK = noErr && res.Violation == "" && res.ErrorText == "" && !res.TimedOut
	return res, nil
}

// PrintsWithPrefix returns the payloads (prefix stripped) of PrintT lines that start with prefix.
func (r *TLCResult) PrintsWithPrefix(prefix string) []string {
	var out []string
	for _, p := range r.Prints {
		if strings.HasPrefix(p, prefix) {
			out = append(out, p[len(prefix):])
		}
	}
	return out
}

// Summary is a short one-line description for logs/evidence.
func (r *TLCResult) Summary() map[string]any {
	return map[string]any{
		"name": r.Job.Name, "module": r.Job.Module, "cfg": r.Job.Cfg,
		"generated": r.Generated, "distinct": r.Distinct, "depth": r.Depth,
		"ok": r.OK, "violation": r.Violation, "wall_s": round2(r.WallS),
		"simulate": r.Job.Simulate, "zero_coverage_actions": r.ZeroCov,
	}
}

func round2(f float64) float64 { return float64(int64(f*100)) / 100 }

// MustJSON marshals or panics (harness-internal data only).
func MustJSON(v any) []byte {
	b, err := json.Marshal(v)
	if err != nil {
		panic(fmt.Sprintf("fw: marshal: %v", err))
	}
	return b
}
