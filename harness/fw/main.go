package fw

import (
	"encoding/json"
	"flag"
	"fmt"
	"os"
	"path/filepath"
	"runtime/debug"
	"sort"
	"strconv"
	"strings"
	"sync"
	"time"
)

// Event is one line of a recorded trace. It must carry "ev" (event kind); the framework
// adds "tr" (trace id) and appends a terminating {"ev":"End"} event per trace.
type Event = map[string]any

// Behaviour is one TLC-generated (or driver-generated) case to execute on the real code.
type Behaviour struct {
	ID   int             `json:"id"`
	Src  string          `json:"src"` // which generation job produced it
	Data json.RawMessage `json:"data"`
}

// Status of a driven behaviour.
const (
	Realised     = "realised"
	Unrealisable = "unrealisable" // model finer than code here; skipped, never a verdict
	// Diverged: the real code left the model's schedule part-way (a process was not at the gate the
	// model names); the driver let everything finish free-running and recorded the observable trace.
	// It is a real execution, so the property-level judge still judges it; it counts as "not realised"
	// for the model/code-mismatch guard.
	Diverged = "diverged"
	Inconclusive = "inconclusive" // timing margin exceeded etc.; skipped, never a verdict
	DriverError  = "driver_error" // harness bug / API drift => exit 2
)

// Trace is what the driver recorded for one behaviour.
type Trace struct {
	Beh    Behaviour `json:"behaviour"`
	Status string    `json:"status"`
	Note   string    `json:"note,omitempty"`
	Events []Event   `json:"events"`
}

// Env is handed to drivers.
type Env struct {
	Tier string
	Seed int64
	Tmp  string
}

// Violation is one judged property violation on a real-code trace.
type Violation struct {
	TraceID int    `json:"trace_id"`
	Clause  string `json:"clause"`
	Detail  string `json:"detail"`
}

func (v Violation) Key() string { return v.Clause + "/" + v.Detail }

// Property wires one property check together.
type Property struct {
	ID          string
	DesignRef   string
	ModelJobs   func(env *Env) []TLCJob // exhaustive design checks; all must pass
	GenJobs     func(env *Env) []TLCJob // behaviour generation; PrintT("BEH "+json)
	MaxBeh      func(env *Env) int      // cap on generated behaviours actually driven (0 = all); sampling is seeded
	// MaxBehSrc caps per generation job (by TLCJob.Name); applied before MaxBeh. 0 = all.
	MaxBehSrc func(env *Env, src string) int
	ExtraBeh    func(env *Env) []json.RawMessage
	// Expand turns one generated behaviour into the concrete cases to drive (e.g. one per backend).
	Expand func(env *Env, src string, raw json.RawMessage) []json.RawMessage
	Drive       func(env *Env, b Behaviour) *Trace
	Parallel    int // concurrent Drive calls (<=1: sequential)
	JudgeModule string
	JudgeCfg    string
	JudgeFiles  func(env *Env) map[string][]byte
	// JudgeFor optionally selects a different judge spec per trace (returns module, cfg); "" = default.
	JudgeFor func(t *Trace) (string, string)
	NonTrivial  func(t *Trace) bool // counts distinct_nontrivial; nil => every realised trace with >1 events
	Rule        string
	Assumptions []string
	TrustedBase []string
	// SelfTest, when set, returns corrupted copies of accepted traces that the judge MUST reject
	// (guards against a vacuous judge). A self-test failure is exit 2.
	SelfTest func(env *Env, accepted []*Trace) []*Trace
	// RealisableFloor: minimal share of realisable behaviours per primary generation source (names not
	// starting with "legacy"); below it the model no longer matches the code and the run is exit 2.
	// 0 means the default (0.5); negative disables the guard.
	RealisableFloor float64
	// PostDrive lets a property inspect all traces (e.g. dead-driver handling) before judging.
	PostDrive func(env *Env, traces []*Trace) error
}

type knownFinding struct {
	Property string `json:"property"`
	Key      string `json:"key"`
	What     string `json:"what"`
	Status   string `json:"status"` // open | fixed
	Commit   string `json:"commit,omitempty"`
}

func loadFindings() ([]knownFinding, error) {
	b, err := os.ReadFile(filepath.Join(VerifRoot(), "known_findings.json"))
	if err != nil {
		if os.IsNotExist(err) {
			return nil, nil
		}
		return nil, err
	}
	var f []knownFinding
	if err := json.Unmarshal(b, &f); err != nil {
		return nil, fmt.Errorf("known_findings.json: %w", err)
	}
	return f, nil
}

func matchKey(pattern, key string) bool {
	if strings.HasSuffix(pattern, "*") {
		return strings.HasPrefix(key, strings.TrimSuffix(pattern, "*"))
	}
	return pattern == key
}

type runState struct {
	p        *Property
	env      *Env
	start    time.Time
	models   []*TLCResult
	gens     []*TLCResult
	judges   []*TLCResult
	nGen     int
	traces   []*Trace
	viols    []Violation
	notes    []string
	srcStats []string
	mismatch string
	selfTest string
}

func fail2(format string, a ...any) {
	fmt.Printf("INCONCLUSIVE: "+format+"\n", a...)
	os.Exit(2)
}

// Main is the entry point of every per-property check binary.
func Main(p *Property) {
	tier := flag.String("tier", "", "quick|thorough")
	replay := flag.String("replay", "", "replay file")
	keep := flag.Bool("keep", false, "keep traces in evidence dir for debugging")
	flag.Parse()
	if *tier == "" {
		*tier = os.Getenv("VERIF_TIER")
	}
	if *tier == "" {
		*tier = "quick"
	}
	if *tier != "quick" && *tier != "thorough" {
		fail2("bad tier %q", *tier)
	}
	seed := int64(1)
	if s := os.Getenv("VERIF_SEED"); s != "" {
		if v, err := strconv.ParseInt(s, 10, 64); err == nil {
			seed = v
		}
	}
	debug.SetGCPercent(200)
	tmp, err := os.MkdirTemp("", "vcheck-"+p.ID+"-")
	if err != nil {
		fail2("tmp: %v", err)
	}
	defer os.RemoveAll(tmp)
	env := &Env{Tier: *tier, Seed: seed, Tmp: tmp}
	rs := &runState{p: p, env: env, start: time.Now()}
	code := rs.run(*replay, *keep)
	os.RemoveAll(tmp)
	os.Exit(code)
}

func (rs *runState) run(replay string, keep bool) int {
	p, env := rs.p, rs.env
	findings, err := loadFindings()
	if err != nil {
		fail2("%v", err)
	}
	var behs []Behaviour
	if replay != "" {
		b, err := os.ReadFile(replay)
		if err != nil {
			fail2("replay: %v", err)
		}
		var rf struct {
			Behaviours []Behaviour `json:"behaviours"`
		}
		if err := json.Unmarshal(b, &rf); err != nil {
			fail2("replay: %v", err)
		}
		behs = rf.Behaviours
	} else {
		// 1. exhaustive design checks
		if p.ModelJobs != nil {
			mjobs := p.ModelJobs(env)
			mres, merr := runTLCJobs(mjobs)
			for i, job := range mjobs {
				r, err := mres[i], merr[i]
				if err != nil {
					fail2("tlc %s: %v", job.Name, err)
				}
				rs.models = append(rs.models, r)
				fmt.Printf("[model] %s: generated=%d distinct=%d depth=%d ok=%v (%.1fs)\n", job.Name, r.Generated, r.Distinct, r.Depth, r.OK, r.WallS)
				if !r.OK {
					rs.writeEvidence(2)
					fail2("model job %s failed (violation=%q timeout=%v)\n%s", job.Name, r.Violation, r.TimedOut, tail(r.Out, 4000))
				}
			}
		}
		// 2. behaviour generation
		seen := map[string]bool{}
		if p.GenJobs != nil {
			gjobs := p.GenJobs(env)
			gres, gerr := runTLCJobs(gjobs)
			for i, job := range gjobs {
				r, err := gres[i], gerr[i]
				if err != nil {
					fail2("tlc %s: %v", job.Name, err)
				}
				rs.gens = append(rs.gens, r)
				lines := r.PrintsWithPrefix("BEH ")
				fmt.Printf("[gen] %s: generated=%d distinct=%d behaviours=%d ok=%v (%.1fs)\n", job.Name, r.Generated, r.Distinct, len(lines), r.OK, r.WallS)
				if !r.OK {
					rs.writeEvidence(2)
					fail2("generation job %s failed (violation=%q timeout=%v)\n%s", job.Name, r.Violation, r.TimedOut, tail(r.Out, 4000))
				}
				for _, l := range lines {
					if seen[l] {
						continue
					}
					seen[l] = true
					if p.Expand != nil {
						for _, d := range p.Expand(env, job.Name, json.RawMessage(l)) {
							behs = append(behs, Behaviour{Src: job.Name, Data: d})
						}
						continue
					}
					behs = append(behs, Behaviour{Src: job.Name, Data: json.RawMessage(l)})
				}
			}
		}
		rs.nGen = len(behs)
		// deterministic order, then seeded sampling if capped
		sort.SliceStable(behs, func(i, j int) bool { return string(behs[i].Data) < string(behs[j].Data) })
		if p.MaxBehSrc != nil {
			bySrc := map[string][]Behaviour{}
			var srcs []string
			for _, b := range behs {
				if _, ok := bySrc[b.Src]; !ok {
					srcs = append(srcs, b.Src)
				}
				bySrc[b.Src] = append(bySrc[b.Src], b)
			}
			sort.Strings(srcs)
			behs = behs[:0:0]
			for _, src := range srcs {
				bs := bySrc[src]
				if m := p.MaxBehSrc(env, src); m > 0 && len(bs) > m {
					bs = sample(bs, m, env.Seed)
				}
				behs = append(behs, bs...)
			}
		}
		if p.MaxBeh != nil {
			if m := p.MaxBeh(env); m > 0 && len(behs) > m {
				behs = sample(behs, m, env.Seed)
			}
		}
		if p.ExtraBeh != nil {
			for _, d := range p.ExtraBeh(env) {
				behs = append(behs, Behaviour{Src: "extra", Data: d})
			}
		}
		for i := range behs {
			behs[i].ID = i + 1
		}
	}
	if len(behs) == 0 {
		rs.writeEvidence(2)
		fail2("no behaviours to drive")
	}
	// 3. drive
	rs.traces = make([]*Trace, len(behs))
	par := p.Parallel
	if par < 1 {
		par = 1
	}
	var wg sync.WaitGroup
	sem := make(chan struct{}, par)
	for i := range behs {
		wg.Add(1)
		sem <- struct{}{}
		go func(i int) {
			defer wg.Done()
			defer func() { <-sem }()
			t := safeDrive(p, env, behs[i])
			t.Beh = behs[i]
			rs.traces[i] = t
		}(i)
	}
	wg.Wait()
	if p.PostDrive != nil {
		if err := p.PostDrive(env, rs.traces); err != nil {
			rs.writeEvidence(2)
			fail2("post-drive: %v", err)
		}
	}
	var realised []*Trace
	counts := map[string]int{}
	for _, t := range rs.traces {
		counts[t.Status]++
		if t.Status == Realised || (t.Status == Diverged && len(t.Events) > 0) {
			realised = append(realised, t)
		}
		if t.Status == DriverError {
			rs.notes = append(rs.notes, fmt.Sprintf("driver error on behaviour %d: %s", t.Beh.ID, t.Note))
		}
	}
	fmt.Printf("[drive] behaviours=%d realised=%d diverged=%d unrealisable=%d inconclusive=%d driver_error=%d\n",
		len(behs), counts[Realised], counts[Diverged], counts[Unrealisable], counts[Inconclusive], counts[DriverError])
	{
		type sc struct {
			n    map[string]int
			note string
		}
		by := map[string]*sc{}
		var srcs []string
		for _, t := range rs.traces {
			c := by[t.Beh.Src]
			if c == nil {
				c = &sc{n: map[string]int{}}
				by[t.Beh.Src] = c
				srcs = append(srcs, t.Beh.Src)
			}
			c.n[t.Status]++
			if t.Status != Realised && c.note == "" {
				c.note = t.Note
				if os.Getenv("VERIF_DEBUG") != "" {
					c.note += " BEH=" + string(t.Beh.Data)
				}
			}
		}
		sort.Strings(srcs)
		for _, s := range srcs {
			c := by[s]
			line := fmt.Sprintf("[drive]   %-28s realised=%d diverged=%d unrealisable=%d inconclusive=%d", s, c.n[Realised], c.n[Diverged], c.n[Unrealisable], c.n[Inconclusive])
			if c.note != "" {
				line += "  e.g. " + c.note
			}
			fmt.Println(line)
			rs.srcStats = append(rs.srcStats, line)
		}
		floor := p.RealisableFloor
		if floor == 0 {
			floor = 0.5
		}
		if floor > 0 && replay == "" {
			for _, s := range srcs {
				c := by[s]
				tot := c.n[Realised] + c.n[Unrealisable] + c.n[Diverged]
				if strings.HasPrefix(s, "legacy") || s == "extra" || tot < 20 {
					continue
				}
				if share := float64(c.n[Realised]) / float64(tot); share < floor && rs.mismatch == "" {
					// applied after judging: a real-code violation found on the traces we do have takes precedence
					rs.mismatch = fmt.Sprintf("the model no longer matches the code: only %.0f%% of the behaviours of source %q could be realised (floor %.0f%%); e.g. %s", share*100, s, floor*100, c.note)
				}
			}
		}
	}
	if counts[DriverError] > 0 {
		rs.writeEvidence(2)
		fail2("%d driver errors, first: %s", counts[DriverError], rs.notes[0])
	}
	if len(realised) == 0 {
		rs.writeEvidence(2)
		fail2("no behaviour could be realised on the real code")
	}
	// 4. judge
	viols, jr, err := Judge(p, env, realised)
	if jr != nil {
		rs.judges = append(rs.judges, jr)
	}
	if err != nil {
		if keep {
			dumpTraces(p.ID, realised)
		}
		rs.writeEvidence(2)
		fail2("judge: %v", err)
	}
	rs.viols = viols
	if keep {
		dumpTraces(p.ID, realised)
	}
	// 5. self-test: corrupted traces must be rejected
	if p.SelfTest != nil && replay == "" {
		bad := map[int]bool{}
		for _, v := range viols {
			bad[v.TraceID] = true
		}
		var acc []*Trace
		for _, t := range realised {
			if !bad[t.Beh.ID] {
				acc = append(acc, t)
			}
		}
		corrupted := p.SelfTest(env, acc)
		if len(corrupted) > 0 {
			cv, cjr, err := Judge(p, env, corrupted)
			if cjr != nil {
				rs.judges = append(rs.judges, cjr)
			}
			rejected := map[int]bool{}
			for _, v := range cv {
				rejected[v.TraceID] = true
			}
			if err != nil {
				// a corrupted trace may also be unconsumable: that is a rejection too
				rs.selfTest = fmt.Sprintf("%d corrupted traces: judge refused to consume (%v)", len(corrupted), err)
			} else if len(rejected) != len(corrupted) {
				rs.writeEvidence(2)
				fail2("self-test: judge accepted %d of %d corrupted traces (vacuous oracle)", len(corrupted)-len(rejected), len(corrupted))
			} else {
				rs.selfTest = fmt.Sprintf("%d/%d corrupted traces rejected", len(rejected), len(corrupted))
			}
			fmt.Printf("[selftest] %s\n", rs.selfTest)
		}
	}
	// 6. verdict
	known := map[string]knownFinding{}
	var unknown []Violation
	for _, v := range viols {
		matched := false
		for _, f := range findings {
			if f.Property == p.ID && f.Status == "open" && matchKey(f.Key, v.Key()) {
				known[f.Key] = f
				matched = true
				break
			}
		}
		if !matched {
			unknown = append(unknown, v)
		}
	}
	keys := make([]string, 0, len(known))
	for k := range known {
		keys = append(keys, k)
	}
	sort.Strings(keys)
	for _, k := range keys {
		fmt.Printf("KNOWN-FINDING: property=%s %s [%s]\n", p.ID, known[k].What, k)
	}
	if len(unknown) > 0 {
		// write replay file with the offending behaviours
		byTrace := map[int][]Violation{}
		for _, v := range unknown {
			byTrace[v.TraceID] = append(byTrace[v.TraceID], v)
		}
		var rb []Behaviour
		var rt []*Trace
		for _, t := range realised {
			if _, ok := byTrace[t.Beh.ID]; ok && len(rb) < 20 {
				rb = append(rb, t.Beh)
				rt = append(rt, t)
			}
		}
		dir := filepath.Join(VerifRoot(), "replays", p.ID)
		os.MkdirAll(dir, 0o755)
		path := filepath.Join(dir, fmt.Sprintf("%s-seed%d-%d.json", env.Tier, env.Seed, time.Now().Unix()))
		os.WriteFile(path, MustJSON(map[string]any{"property": p.ID, "seed": env.Seed, "tier": env.Tier,
			"violations": unknown, "behaviours": rb, "traces": rt}), 0o644)
		rs.writeEvidence(1)
		shown := map[string]bool{}
		for _, v := range unknown {
			if !shown[v.Key()] {
				shown[v.Key()] = true
				fmt.Printf("violated clause %s (first trace %d)\n", v.Key(), v.TraceID)
			}
		}
		fmt.Printf("VIOLATION property=%s replay=%s\n", p.ID, path)
		return 1
	}
	if rs.mismatch != "" {
		rs.writeEvidence(2)
		fail2("%s", rs.mismatch)
	}
	rs.writeEvidence(0)
	fmt.Printf("OK property=%s tier=%s traces_validated=%d known_findings=%d wall=%.1fs\n", p.ID, env.Tier, len(realised), len(known), time.Since(rs.start).Seconds())
	return 0
}

// runTLCJobs runs independent TLC jobs a few at a time (JVM start dominates small jobs).
func runTLCJobs(jobs []TLCJob) ([]*TLCResult, []error) {
	res := make([]*TLCResult, len(jobs))
	errs := make([]error, len(jobs))
	sem := make(chan struct{}, 4)
	var wg sync.WaitGroup
	for i := range jobs {
		wg.Add(1)
		sem <- struct{}{}
		go func(i int) {
			defer wg.Done()
			defer func() { <-sem }()
			res[i], errs[i] = RunTLC(jobs[i])
		}(i)
	}
	wg.Wait()
	return res, errs
}

func safeDrive(p *Property, env *Env, b Behaviour) (t *Trace) {
	defer func() {
		if r := recover(); r != nil {
			t = &Trace{Status: DriverError, Note: fmt.Sprintf("driver panic: %v\n%s", r, debug.Stack())}
		}
	}()
	t = p.Drive(env, b)
	if t == nil {
		t = &Trace{Status: DriverError, Note: "driver returned nil"}
	}
	return t
}

func dumpTraces(id string, ts []*Trace) {
	dir := filepath.Join(VerifRoot(), "evidence", "debug")
	os.MkdirAll(dir, 0o755)
	os.WriteFile(filepath.Join(dir, id+"-traces.json"), MustJSON(ts), 0o644)
}

func tail(s string, n int) string {
	if len(s) > n {
		return s[len(s)-n:]
	}
	return s
}

// sample picks m behaviours deterministically from seed (keeps relative order).
func sample(b []Behaviour, m int, seed int64) []Behaviour {
	idx := make([]int, len(b))
	for i := range idx {
		idx[i] = i
	}
	r := NewRand(seed)
	r.Shuffle(len(idx), func(i, j int) { idx[i], idx[j] = idx[j], idx[i] })
	idx = idx[:m]
	sort.Ints(idx)
	out := make([]Behaviour, m)
	for i, k := range idx {
		out[i] = b[k]
	}
	return out
}
