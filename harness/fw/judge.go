package fw

import (
	"bytes"
	"encoding/json"
	"fmt"
	"math/rand"
	"strings"
	"time"
)

// NewRand returns a deterministic PRNG.
func NewRand(seed int64) *rand.Rand { return rand.New(rand.NewSource(seed)) }

type verdictLine struct {
	Tr   int `json:"tr"`
	Viol []struct {
		C string `json:"c"`
		D string `json:"d"`
	} `json:"viol"`
}

// Judge validates the recorded traces against the property-level trace specification with TLC.
// The trace spec is deterministic and total over the event alphabet: it consumes every event,
// accumulates violated clauses per trace and prints one "VERDICT {json}" line at each End event.
// If TLC cannot consume the whole file the judge itself is broken for this input => error (exit 2).
func Judge(p *Property, env *Env, traces []*Trace) ([]Violation, *TLCResult, error) {
	if p.JudgeFor == nil {
		return judgeWith(p, env, traces, p.JudgeModule, p.JudgeCfg)
	}
	type grp struct {
		mod, cfg string
		ts       []*Trace
	}
	var order []string
	groups := map[string]*grp{}
	for _, t := range traces {
		m, c := p.JudgeFor(t)
		if m == "" {
			m, c = p.JudgeModule, p.JudgeCfg
		}
		g := groups[m+"/"+c]
		if g == nil {
			g = &grp{mod: m, cfg: c}
			groups[m+"/"+c] = g
			order = append(order, m+"/"+c)
		}
		g.ts = append(g.ts, t)
	}
	var all []Violation
	var last *TLCResult
	for _, k := range order {
		g := groups[k]
		v, r, err := judgeWith(p, env, g.ts, g.mod, g.cfg)
		if r != nil {
			if last != nil {
				r.Distinct += last.Distinct
				r.Generated += last.Generated
			}
			last = r
		}
		if err != nil {
			return nil, last, err
		}
		all = append(all, v...)
	}
	return all, last, nil
}

func judgeWith(p *Property, env *Env, traces []*Trace, module, cfg string) ([]Violation, *TLCResult, error) {
	var buf bytes.Buffer
	n := 0
	for _, t := range traces {
		for _, e := range t.Events {
			ev := map[string]any{}
			for k, v := range e {
				ev[k] = v
			}
			ev["tr"] = t.Beh.ID
			b, err := json.Marshal(ev)
			if err != nil {
				return nil, nil, fmt.Errorf("trace %d: %w", t.Beh.ID, err)
			}
			buf.Write(b)
			buf.WriteByte('\n')
			n++
		}
		fmt.Fprintf(&buf, `{"ev":"End","tr":%d}`+"\n", t.Beh.ID)
		n++
	}
	files := map[string][]byte{"trace.ndjson": buf.Bytes()}
	if p.JudgeFiles != nil {
		for k, v := range p.JudgeFiles(env) {
			files[k] = v
		}
	}
	job := TLCJob{Name: "judge:" + module, Module: module, Cfg: cfg, Workers: 1, Files: files,
		Timeout: 20 * time.Minute, Heap: "8g"}
	r, err := RunTLC(job)
	if err != nil {
		return nil, nil, err
	}
	fmt.Printf("[judge] events=%d traces=%d states=%d ok=%v (%.1fs)\n", n, len(traces), r.Distinct, r.OK, r.WallS)
	if !r.OK {
		return nil, r, fmt.Errorf("trace spec could not consume the trace file (violation=%q timeout=%v):\n%s", r.Violation, r.TimedOut, tail(r.Out, 3000))
	}
	got := map[int]bool{}
	var viols []Violation
	for _, l := range r.PrintsWithPrefix("VERDICT ") {
		var v verdictLine
		if err := json.Unmarshal([]byte(l), &v); err != nil {
			return nil, r, fmt.Errorf("bad verdict line %q: %v", l, err)
		}
		if got[v.Tr] {
			continue
		}
		got[v.Tr] = true
		for _, x := range v.Viol {
			viols = append(viols, Violation{TraceID: v.Tr, Clause: x.C, Detail: x.D})
		}
	}
	if len(got) != len(traces) {
		var missing []string
		for _, t := range traces {
			if !got[t.Beh.ID] && len(missing) < 5 {
				missing = append(missing, fmt.Sprint(t.Beh.ID))
			}
		}
		return nil, r, fmt.Errorf("judge produced %d verdicts for %d traces (missing e.g. %s)", len(got), len(traces), strings.Join(missing, ","))
	}
	return viols, r, nil
}
