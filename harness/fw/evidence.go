package fw

import (
	"fmt"
	"os"
	"path/filepath"
	"time"
)

func (rs *runState) writeEvidence(exit int) {
	p, env := rs.p, rs.env
	var states, trans int64
	var models, gens, judges []any
	for _, r := range rs.models {
		states += r.Distinct
		trans += r.Generated
		models = append(models, r.Summary())
	}
	for _, r := range rs.gens {
		gens = append(gens, r.Summary())
		if len(rs.models) == 0 {
			states += r.Distinct
			trans += r.Generated
		}
	}
	for _, r := range rs.judges {
		judges = append(judges, r.Summary())
	}
	counts := map[string]int{}
	var realised []*Trace
	for _, t := range rs.traces {
		if t == nil {
			continue
		}
		counts[t.Status]++
		if t.Status == Realised || (t.Status == Diverged && len(t.Events) > 0) {
			realised = append(realised, t)
		}
	}
	// distinct non-trivial: distinct behaviours (by data) realised and non-trivial
	seen := map[string]bool{}
	nontriv := 0
	for _, t := range realised {
		k := string(t.Beh.Data)
		if seen[k] {
			continue
		}
		seen[k] = true
		if p.NonTrivial != nil {
			if p.NonTrivial(t) {
				nontriv++
			}
		} else if len(t.Events) > 1 {
			nontriv++
		}
	}
	var samples []any
	step := 1
	if len(realised) > 3 {
		step = len(realised) / 3
	}
	for i := 0; i < len(realised) && len(samples) < 3; i += step {
		t := realised[i]
		evs := t.Events
		if len(evs) > 12 {
			evs = evs[:12]
		}
		samples = append(samples, map[string]any{"behaviour": t.Beh.Data, "src": t.Beh.Src, "trace_prefix": evs, "trace_len": len(t.Events)})
	}
	if len(samples) == 0 {
		samples = append(samples, "no behaviour realised in this run")
	}
	violKeys := map[string]int{}
	for _, v := range rs.viols {
		violKeys[v.Key()]++
	}
	validated := len(realised)
	if exit == 2 {
		validated = 0
	}
	cov := map[string]any{
		"states":                        max64(states, 1),
		"transitions":                   max64(trans, 1),
		"traces_validated_against_impl": validated,
		"samples":                       samples,
		"evaluations":                   len(rs.traces),
		"distinct_nontrivial":           nontriv,
		"rule":                          p.Rule,
		"behaviours_generated":          rs.nGen,
		"behaviours_driven":             len(rs.traces),
		"realised":                      counts[Realised],
		"unrealisable":                  counts[Unrealisable],
		"diverged_but_judged":           counts[Diverged],
		"inconclusive":                  counts[Inconclusive],
		"model_runs":                    models,
		"generation_runs":               gens,
		"judge_runs":                    judges,
		"violated_clause_counts":        violKeys,
		"self_test":                     rs.selfTest,
		"checker_cmd":                   fmt.Sprintf("./check %s --tier %s", p.ID, env.Tier),
		"trusted_base":                  p.TrustedBase,
		"exhaustive":                    rs.nGen > 0 && rs.nGen == len(rs.traces),
		"exit_code":                     exit,
		"notes":                         rs.notes,
		"per_source":                    rs.srcStats,
	}
	ev := map[string]any{
		"property_id": p.ID,
		"tier":        env.Tier,
		"seed":        env.Seed,
		"level":       "model_checking",
		"coverage":    cov,
		"assumptions": p.Assumptions,
		"wall_s":      round2(time.Since(rs.start).Seconds()),
		"violations":  len(rs.viols),
	}
	dir := filepath.Join(VerifRoot(), "evidence")
	if len(p.ID) > 0 && p.ID[0] == 'X' {
		// extension specs (behaviour beyond the listed properties) keep their evidence apart
		dir = filepath.Join(dir, "extras")
	}
	os.MkdirAll(dir, 0o755)
	if err := os.WriteFile(filepath.Join(dir, p.ID+".json"), append(MustJSON(ev), '\n'), 0o644); err != nil {
		fmt.Fprintf(os.Stderr, "evidence: %v\n", err)
	}
}

func max64(a, b int64) int64 {
	if a > b {
		return a
	}
	return b
}
