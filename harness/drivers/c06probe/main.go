package main

import (
	"context"
	"encoding/json"
	"fmt"
	"time"

	"tunnox-core/internal/cloud/models"
	"tunnox-core/internal/cloud/repos"
	"tunnox-core/internal/cloud/services"
	"tunnox-core/internal/core/idgen"
	corelog "tunnox-core/internal/core/log"
	"tunnox-core/verifharness/doubles"
)

func main() {
	corelog.SetDefault(corelog.NewNopLogger())
	ctx, cancel := context.WithCancel(context.Background())
	defer cancel()
	st := doubles.NewStore("sd", nil)
	repo := repos.NewRepository(st)
	ccRepo := repos.NewConnectionCodeRepository(repo)
	pmRepo := repos.NewPortMappingRepo(repo)
	idm := idgen.NewIDManager(st, ctx)
	pms := services.NewPortMappingService(pmRepo, idm, nil, ctx)
	svc := services.NewConnectionCodeService(ccRepo, pms, pmRepo, nil, ctx)
	now := time.Now()
	code := &models.TunnelConnectionCode{ID: "conncode_c1", Code: "abc-def-123", TargetClientID: 77777777, TargetAddress: "tcp://10.0.0.5:8080",
		ActivationTTL: time.Hour, MappingDuration: time.Hour, CreatedAt: now, ActivationExpiresAt: now.Add(time.Hour), CreatedBy: "t"}
	if err := ccRepo.Create(code); err != nil {
		panic(err)
	}
	n0 := len(st.Log())
	m, err := svc.ActivateConnectionCode(&services.ActivateConnectionCodeRequest{Code: code.Code, ListenClientID: 11111111, ListenAddress: "0.0.0.0:9001"})
	fmt.Println("activate:", m != nil, err)
	for _, c := range st.Log()[n0:] {
		fmt.Printf("  %-16s %-60s w=%v err=%s\n", c.Op, c.Key, c.Write, c.Err)
	}
	n0 = len(st.Log())
	_, err = svc.ActivateConnectionCode(&services.ActivateConnectionCodeRequest{Code: code.Code, ListenClientID: 22222222, ListenAddress: "0.0.0.0:9001"})
	fmt.Println("activate2:", err)
	err = svc.RevokeConnectionCode(code.Code, "x")
	fmt.Println("revoke:", err)
	for _, c := range st.Log()[n0:] {
		fmt.Printf("  %-16s %-60s w=%v err=%s\n", c.Op, c.Key, c.Write, c.Err)
	}
	// rollback path: expire by clock
	code2 := &models.TunnelConnectionCode{ID: "conncode_c2", Code: "xyz", TargetClientID: 77777777, TargetAddress: "tcp://10.0.0.5:8080",
		ActivationTTL: 30 * time.Millisecond, MappingDuration: time.Hour, CreatedAt: now, ActivationExpiresAt: time.Now().Add(30 * time.Millisecond), CreatedBy: "t"}
	ccRepo.Create(code2)
	n0 = len(st.Log())
	st.Fault = func(c *doubles.Call) error {
		if c.Op == "AppendToList" && c.Key == "tunnox:mappings:list" {
			time.Sleep(50 * time.Millisecond)
		}
		return nil
	}
	_, err = svc.ActivateConnectionCode(&services.ActivateConnectionCodeRequest{Code: "xyz", ListenClientID: 11111111, ListenAddress: "0.0.0.0:9002"})
	fmt.Println("activate3:", err)
	for _, c := range st.Log()[n0:] {
		fmt.Printf("  %-16s %-60s w=%v err=%s\n", c.Op, c.Key, c.Write, c.Err)
	}
	b, _ := json.MarshalIndent(st.Snapshot("tunnox:port_mapping:"), "", " ")
	fmt.Println(string(b)[:600])
}
