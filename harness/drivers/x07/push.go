package main

// Push world: two srvkit nodes over one store.  Node 1 is the origin of NotifyClientUpdate; the client's control
// connection lives on node 1, node 2 or nowhere.  Between the nodes sits either the driver's bridge-manager double
// (scheduled runs: a published message stays in a per-node queue until the schedule delivers it to that node's
// processConfigPushBroadcasts loop) or the real server.BridgeAdapter over the real memory broker (free-running scenes).

import (
	"context"
	"encoding/json"
	"fmt"
	"math/rand"
	"os"
	"runtime"
	"sort"
	"strings"
	"sync"
	"sync/atomic"
	"time"

	"tunnox-core/internal/app/server"
	"tunnox-core/internal/broker"
	"tunnox-core/internal/cloud/models"
	"tunnox-core/internal/packet"
	"tunnox-core/internal/protocol/session"
	"tunnox-core/internal/verifhook"
	"tunnox-core/verifharness/fw"
	"tunnox-core/verifharness/sched"
	"tunnox-core/verifharness/srvkit"
)

const (
	hookPoint = "configpush.write"
	portBase  = 18000 // listen ports of A's mappings: portBase+1.., of B's: portBase+101..
)

var (
	noHooks    bool
	pworlds    sync.Map // client id -> *pworld (yield point -> world)
	xwGids     sync.Map // goroutine id -> true: a cross-node writer that already passed its yield point
	hookProbed atomic.Bool
)

// ---- bridge-manager double --------------------------------------------------------------------------

type hub struct {
	mu     sync.Mutex
	queue  map[int][][]byte // node -> config-push messages published and not yet delivered to that node
	chans  map[int]chan *session.BroadcastMessage
	direct bool // deliver at once
	gate   func()
}

type xbridge struct {
	h    *hub
	node int
}

func (b *xbridge) BroadcastTunnelOpen(req *packet.TunnelOpenRequest, targetClientID int64) error {
	return nil
}
func (b *xbridge) Subscribe(ctx context.Context, topic string) (<-chan *session.BroadcastMessage, error) {
	ch := make(chan *session.BroadcastMessage, 256)
	if topic == broker.TopicConfigPush {
		b.h.mu.Lock()
		b.h.chans[b.node] = ch
		b.h.mu.Unlock()
	}
	return ch, nil
}
func (b *xbridge) PublishMessage(ctx context.Context, topic string, payload []byte) error {
	if topic != broker.TopicConfigPush {
		return nil
	}
	if b.h.gate != nil {
		b.h.gate()
	}
	b.h.mu.Lock()
	defer b.h.mu.Unlock()
	for n, ch := range b.h.chans {
		if b.h.direct {
			ch <- &session.BroadcastMessage{Topic: topic, Payload: payload}
		} else {
			b.h.queue[n] = append(b.h.queue[n], payload)
		}
	}
	return nil
}
func (b *xbridge) GetNodeID() string { return fmt.Sprintf("n%d", b.node) }
func (b *xbridge) NotifyTunnelReady(ctx context.Context, tunnelID, sourceNodeID string) error {
	return nil
}
func (b *xbridge) WaitForTunnelReady(ctx context.Context, tunnelID string) (string, error) {
	<-ctx.Done()
	return "", ctx.Err()
}

// deliver hands the oldest queued message of node n to its subscription loop.
func (h *hub) deliver(n int) bool {
	h.mu.Lock()
	defer h.mu.Unlock()
	if len(h.queue[n]) == 0 || h.chans[n] == nil {
		return false
	}
	p := h.queue[n][0]
	h.queue[n] = h.queue[n][1:]
	h.chans[n] <- &session.BroadcastMessage{Topic: broker.TopicConfigPush, Payload: p}
	return true
}

func (h *hub) flush() {
	for n := range h.chans {
		for h.deliver(n) {
		}
	}
}

func (h *hub) drained() bool {
	h.mu.Lock()
	defer h.mu.Unlock()
	for n, ch := range h.chans {
		if len(h.queue[n]) > 0 || len(ch) > 0 {
			return false
		}
	}
	return true
}

// ---- cloud-control double: a seam in front of the mapping read of NotifyClientUpdate -----------------

type gateCloud struct {
	session.CloudControlAPI
	w *pworld
}

func (g *gateCloud) GetClientPortMappings(clientID int64) ([]*models.PortMapping, error) {
	g.w.s.Gate("read", nil)
	return g.CloudControlAPI.GetClientPortMappings(clientID)
}

// ---------------------------------------------------------------------------------------------

type pworld struct {
	base
	tag     string
	nodes   map[int]*srvkit.Server
	tun     *srvkit.Tunnels
	hub     *hub
	creds   map[string]*cred
	conns   map[int]*xconn
	cur     map[string]int // current control connection per client
	nconn   int
	ver     map[string]int // mappings created per client
	scanMu  sync.Mutex
	wires   []pwire
	npush   atomic.Int32
	busy    bool // free-running scene with concurrent changes: a handshake may see a mapping that is being created
	free    bool
	hooks   bool
	rng     *rand.Rand
	rngMu   sync.Mutex
	cancel  context.CancelFunc
	xwSeq   int
	spawned atomic.Int32 // writer goroutines that reached the yield point
	pushes  []*ppush
}

type pwire struct {
	c, v int
	x    string
	at   time.Time
}

type ppush struct {
	p      int
	x      string
	vlo    int
	cur    int // the client's control connection at the call (0: none)
	stable bool
	ret    bool
	called time.Time
}

func newPushWorld(free, realBroker bool, seed int64) (*pworld, error) {
	w := &pworld{tag: "push", nodes: map[int]*srvkit.Server{}, creds: map[string]*cred{}, conns: map[int]*xconn{}, cur: map[string]int{},
		ver: map[string]int{}, free: free, hooks: hooksOn, rng: rand.New(rand.NewSource(seed))}
	w.init(free)
	w.s.Watchdog = time.Millisecond
	if free {
		w.s.FreeDelay = func(string, sched.GateInfo) { w.jitter() }
	}
	// cross-node writer goroutines are the session manager's own: they are recognised by their stack
	w.s.Adopt = func(g sched.GateInfo) string {
		buf := make([]byte, 4096)
		if strings.Contains(string(buf[:runtime.Stack(buf, false)]), "handleConfigPushBroadcast") {
			return "xw"
		}
		return ""
	}
	n1, err := srvkit.NewServer(srvkit.Options{NodeID: "n1"})
	if err != nil {
		return nil, err
	}
	n2, err := srvkit.NewPeer(n1, srvkit.Options{NodeID: "n2"})
	if err != nil {
		n1.Close()
		return nil, err
	}
	w.nodes[1], w.nodes[2] = n1, n2
	w.tun = n1.EnableTunnels()
	for i, x := range []string{"A", "B"} {
		c, err := n1.NewConn(fmt.Sprintf("10.8.1.%d", i+1))
		if err != nil {
			w.destroy()
			return nil, err
		}
		id, secret, _, err := c.FirstConnect("control")
		if err != nil || id == 0 {
			w.destroy()
			return nil, fmt.Errorf("first connect of %s failed: %v", x, err)
		}
		c.Disconnect()
		w.creds[x] = &cred{id: id, secret: secret}
		if _, dup := pworlds.LoadOrStore(id, w); dup {
			w.destroy()
			return nil, fmt.Errorf("client id %d drawn twice", id)
		}
	}
	ctx, cancel := context.WithCancel(context.Background())
	w.cancel = cancel
	if realBroker {
		w.tag = "push:broker"
		mb := broker.NewMemoryBroker(ctx, "x07")
		for n, s := range w.nodes {
			s.SM.SetBridgeManager(server.NewBridgeAdapter(ctx, mb, fmt.Sprintf("n%d", n)))
		}
		// the adapter subscribes from a goroutine of its own: wait until both nodes listen
		time.Sleep(20 * time.Millisecond)
	} else {
		w.hub = &hub{queue: map[int][][]byte{}, chans: map[int]chan *session.BroadcastMessage{}, direct: free}
		w.hub.gate = func() { w.s.Gate("publish", nil) }
		for n, s := range w.nodes {
			s.SM.SetBridgeManager(&xbridge{h: w.hub, node: n})
		}
	}
	for _, s := range w.nodes {
		s.SM.SetCloudControl(&gateCloud{CloudControlAPI: session.NewCloudControlAdapter(s.Cloud), w: w})
	}
	w.log(fw.Event{"ev": "Cfg", "tag": w.tag})
	return w, nil
}

func (w *pworld) destroy() {
	defer func() { recover() }()
	w.s.Drain(finalMax)
	for _, c := range w.conns {
		c.tr.setStuck(false)
		c.tr.Close()
	}
	for _, cr := range w.creds {
		pworlds.Delete(cr.id)
	}
	if w.cancel != nil {
		w.cancel()
	}
	if s := w.nodes[2]; s != nil {
		s.Close()
	}
	if s := w.nodes[1]; s != nil {
		s.Close()
	}
}

func (w *pworld) jitter() {
	w.rngMu.Lock()
	d, n := w.rng.Intn(4), w.rng.Intn(150)
	w.rngMu.Unlock()
	if d >= 2 {
		time.Sleep(time.Duration(n) * time.Microsecond)
	}
}

// hookHandler is the process-wide verifhook handler: the yield point carries the client id, which names the world.
func hookHandler(name string, arg any) {
	if name != hookPoint {
		return
	}
	hookProbed.Store(true)
	id, _ := arg.(int64)
	v, ok := pworlds.Load(id)
	if !ok {
		return
	}
	w := v.(*pworld)
	w.spawned.Add(1)
	xwGids.Store(goid(), true)
	defer func() {
		// the goroutine ends right after its write; forget it then (ids are reused)
	}()
	w.s.Gate("xwrite", nil)
}

func (w *pworld) login(x string, node int) (*xconn, error) {
	w.mu.Lock()
	w.nconn++
	num := w.nconn
	old := w.cur[x]
	w.mu.Unlock()
	tr := newXtrans(fmt.Sprintf("c%d", num))
	tr.onStart = func(t *xtrans) {
		if _, ok := xwGids.Load(goid()); ok {
			xwGids.Delete(goid())
			return
		}
		w.s.Gate("write", map[string]any{"c": num})
	}
	c := &xconn{num: num, tr: tr, client: x, kind: "ctl", node: node}
	if old != 0 {
		w.log(fw.Event{"ev": "Gone", "c": old, "how": "replaced"})
	}
	w.mu.Lock()
	hp := w.ver["A"]+w.ver["B"] > 0 || w.busy // every mapping of the world has A and B as its two ends
	w.conns[num] = c
	w.mu.Unlock()
	w.log(fw.Event{"ev": "Login", "c": num, "x": x, "k": "ctl", "hp": hp})
	sm := w.nodes[node].SM
	sc, err := sm.AcceptConnection(tr, tr)
	if err != nil {
		return nil, err
	}
	c.id = sc.ID
	if err := loginOn(sm, c, w.creds[x], "ctl"); err != nil {
		return nil, err
	}
	w.mu.Lock()
	w.cur[x] = num
	for _, p := range w.pushes {
		if p.x == x {
			p.stable = false
		}
	}
	v := w.ver["A"] + w.ver["B"] // every mapping of the world has A and B as its two ends
	w.mu.Unlock()
	w.log(fw.Event{"ev": "Conn", "c": num})
	if old != 0 {
		w.log(fw.Event{"ev": "GoneRet", "c": old})
	}
	if v > 0 {
		// the handshake pushes the configuration itself (go pushConfigToClient): let it land before anything else happens
		waitFor(settleMax, func() bool { w.scan(); return w.wireCount(num) > 0 })
	} else if !w.busy {
		// ... and with nothing to push that goroutine must be gone before a mapping is created, or it pushes after all
		// (a goroutine that has not run yet shows only the wrapper the compiler made for the go statement)
		waitFor(settleMax, func() bool {
			st := allStacks()
			return !strings.Contains(st, "SessionManager).pushConfigToClient(") && !strings.Contains(st, "SessionManager).handleHandshake.gowrap")
		})
	}
	return c, nil
}

func (w *pworld) drop(x string) {
	w.mu.Lock()
	num := w.cur[x]
	c := w.conns[num]
	w.cur[x] = 0
	for _, p := range w.pushes {
		if p.x == x {
			p.stable = false
		}
	}
	w.mu.Unlock()
	if c == nil {
		return
	}
	w.log(fw.Event{"ev": "Gone", "c": num, "how": "drop"})
	_ = w.nodes[c.node].SM.CloseConnection(c.id)
	c.tr.Close()
	w.log(fw.Event{"ev": "GoneRet", "c": num})
}

// move: the client's control connection goes to node n (0: offline)
func (w *pworld) move(x string, n int) error {
	w.mu.Lock()
	num := w.cur[x]
	c := w.conns[num]
	w.mu.Unlock()
	if c != nil {
		// a client that reconnects elsewhere has closed (or lost) its old connection
		w.drop(x)
	}
	if n == 0 {
		return nil
	}
	_, err := w.login(x, n)
	return err
}

func (w *pworld) change(x string) error {
	w.mu.Lock()
	v := w.ver[x] + 1
	w.mu.Unlock()
	w.log(fw.Event{"ev": "ChangeCall", "x": x, "v": v})
	other := "B"
	if x == "B" {
		other = "A"
	}
	_, err := w.tun.Mappings.CreatePortMapping(&models.PortMapping{
		ListenClientID: w.creds[x].id, TargetClientID: w.creds[other].id,
		Protocol: models.ProtocolTCP, SourcePort: portBase + v + 100*int(x[0]-'A'), TargetHost: "h" + x, TargetPort: 8080,
		ListenAddress: fmt.Sprintf("0.0.0.0:%d", portBase+v+100*int(x[0]-'A')), TargetAddress: "tcp://h" + x + ":8080",
		SecretKey: srvkit.NewSecret(), Status: models.MappingStatusActive, Type: models.MappingTypeAnonymous,
	})
	if err != nil {
		return err
	}
	w.mu.Lock()
	w.ver[x] = v
	w.mu.Unlock()
	w.log(fw.Event{"ev": "Change", "x": x, "v": v})
	return nil
}

func (w *pworld) wireCount(c int) int {
	w.mu.Lock()
	defer w.mu.Unlock()
	n := 0
	for _, p := range w.wires {
		if p.c == c {
			n++
		}
	}
	return n
}

// scan logs the ConfigSet commands that appeared on any connection since the last scan.
func (w *pworld) scan() {
	w.scanMu.Lock()
	defer w.scanMu.Unlock()
	w.mu.Lock()
	nums := make([]int, 0, len(w.conns))
	for n := range w.conns {
		nums = append(nums, n)
	}
	w.mu.Unlock()
	sort.Ints(nums)
	for _, n := range nums {
		w.mu.Lock()
		c := w.conns[n]
		w.mu.Unlock()
		for _, p := range c.tr.take() {
			if p.PacketType&0x3F != packet.JsonCommand || p.CommandPacket == nil || p.CommandPacket.CommandType != packet.ConfigSet {
				continue
			}
			var body struct {
				Mappings []struct {
					LocalPort int `json:"local_port"`
				} `json:"mappings"`
			}
			_ = json.Unmarshal([]byte(p.CommandPacket.CommandBody), &body)
			// the version of a configuration = its listen-side mappings (NotifyClientUpdate sends only those; the
			// handshake's push also lists the mappings the client is the target of, with local_port 0); the listen
			// port says whose mapping it is
			x, v := "", 0
			for _, m := range body.Mappings {
				switch {
				case m.LocalPort >= portBase && m.LocalPort < portBase+100:
					x, v = "A", v+1
				case m.LocalPort >= portBase+100 && m.LocalPort < portBase+200:
					x, v = "B", v+1
				}
			}
			w.mu.Lock()
			w.wires = append(w.wires, pwire{c: n, v: v, x: x, at: time.Now()})
			w.mu.Unlock()
			w.log(fw.Event{"ev": "PWire", "c": n, "x": x, "v": v})
		}
	}
}

// push runs NotifyClientUpdate(x) on node as a goroutine body.
func (w *pworld) push(p int, x string, node int) any {
	func() {
		defer func() {
			if r := recover(); r != nil {
				w.panicEv("push", r)
			}
		}()
		w.nodes[node].SM.NotifyClientUpdate(w.creds[x].id)
	}()
	w.scan()
	w.mu.Lock()
	for _, q := range w.pushes {
		if q.p == p {
			q.ret = true
		}
	}
	w.mu.Unlock()
	w.log(fw.Event{"ev": "PRet", "p": p})
	return nil
}

func (w *pworld) pcall(p int, x string, node int) {
	w.mu.Lock()
	w.pushes = append(w.pushes, &ppush{p: p, x: x, vlo: w.ver[x], cur: w.cur[x], stable: true, called: time.Now()})
	w.mu.Unlock()
	w.log(fw.Event{"ev": "PCall", "p": p, "x": x, "nd": node})
}

// owed: a push that returned while the client kept one untouched control connection has not arrived yet
func (w *pworld) owed() bool {
	w.mu.Lock()
	defer w.mu.Unlock()
	for _, p := range w.pushes {
		if !p.stable || !p.ret || p.cur == 0 {
			continue
		}
		if c := w.conns[p.cur]; c != nil && c.tr.stuckNow() {
			continue
		}
		ok := false
		for _, x := range w.wires {
			if x.c == p.cur && x.v >= p.vlo && x.at.After(p.called) {
				ok = true
			}
		}
		if !ok {
			return true
		}
	}
	return false
}

func (t *xtrans) stuckNow() bool { t.mu.Lock(); defer t.mu.Unlock(); return t.stuck }

// quiet delivers what is still queued, lets loops and writer goroutines finish and logs Quiet.
func (w *pworld) quiet() {
	if w.hub != nil {
		w.hub.flush()
		waitFor(quietMax, w.hub.drained)
	}
	// the writer goroutines are the session manager's own: wait until nothing new has been written for a while, and
	// (much) longer while a delivery the judge will ask for is still missing
	last, since := -1, time.Now()
	waitFor(3*quietMax, func() bool {
		w.scan()
		w.mu.Lock()
		n := len(w.wires)
		w.mu.Unlock()
		if n != last {
			last, since = n, time.Now()
		}
		window := 40 * time.Millisecond
		if w.owed() {
			window = 3 * quietMax
		}
		time.Sleep(2 * time.Millisecond)
		return time.Since(since) > window
	})
	w.scan()
	w.mu.Lock()
	for _, p := range w.pushes {
		p.stable = false // settled
	}
	w.mu.Unlock()
	w.log(fw.Event{"ev": "Quiet"})
}

func (w *pworld) diag() string {
	var b strings.Builder
	for n := 1; n <= 2; n++ {
		for _, x := range []string{"A", "B"} {
			cc := w.nodes[n].SM.GetControlConnectionByClientID(w.creds[x].id)
			fmt.Fprintf(&b, " node%d/%s=%v", n, x, cc != nil)
		}
	}
	if w.hub != nil {
		w.hub.mu.Lock()
		for n, ch := range w.hub.chans {
			fmt.Fprintf(&b, " q%d=%d/%d", n, len(w.hub.queue[n]), len(ch))
		}
		w.hub.mu.Unlock()
	}
	for _, p := range w.s.Procs() {
		st, at := w.s.State(p)
		fmt.Fprintf(&b, " %s:%s@%s", p, st, at.Point)
	}
	w.mu.Lock()
	for n, c := range w.conns {
		fmt.Fprintf(&b, " c%d:closed=%v", n, c.tr.isClosed())
	}
	w.mu.Unlock()
	st := allStacks()
	fmt.Fprintf(&b, " writers=%d loops=%d", strings.Count(st, "handleConfigPushBroadcast.func"), strings.Count(st, "processConfigPushBroadcasts"))
	return b.String()
}

// needsHook: the behaviour writes a pending cross-node push before an older one of the same node
func needsHook(b *behaviour) bool {
	pend := map[int][]int{}
	for _, s := range b.Steps {
		switch s.A {
		case "Recv":
			if s.R == "spawn" {
				pend[s.V] = append(pend[s.V], s.N)
			}
		case "XWrite":
			l := pend[s.V]
			if len(l) > 0 && l[0] != s.N {
				return true
			}
			for i, id := range l {
				if id == s.N {
					pend[s.V] = append(append([]int(nil), l[:i]...), l[i+1:]...)
					break
				}
			}
		}
	}
	return false
}

// drivePush replays one behaviour of Part "push" (client A; node 1 is the origin).
func drivePush(env *fw.Env, b *behaviour) *fw.Trace {
	w, err := newPushWorld(false, false, 1)
	if err != nil {
		return &fw.Trace{Status: fw.DriverError, Note: err.Error()}
	}
	defer w.destroy()
	status, note := fw.Realised, ""
	procOf := map[int]string{} // model pusher -> process
	writer := map[int]string{} // push id -> cross-node writer goroutine
	diverge := func(f string, a ...any) {
		if status == fw.Realised {
			status, note = fw.Diverged, fmt.Sprintf(f, a...)
		}
	}
	const x = "A"
loop:
	for i, st := range b.Steps {
		switch st.A {
		case "Change":
			if err := w.change(x); err != nil {
				return &fw.Trace{Status: fw.DriverError, Note: fmt.Sprintf("step %d: %v", i, err)}
			}
		case "Move":
			if err := w.move(x, st.V); err != nil {
				return &fw.Trace{Status: fw.DriverError, Note: fmt.Sprintf("step %d: %v", i, err)}
			}
		case "PLookup":
			name := fmt.Sprintf("p%d.%d", st.P, st.N)
			procOf[st.P] = name
			p := st.N
			w.pcall(p, x, 1)
			w.s.Start(name, func() any { return w.push(p, x, 1) })
			if got := w.waitProc(name, settleMax); got != "parked" {
				diverge("step %d: pusher is %s after its look-up", i, got)
				break loop
			}
		case "PRead", "PSend":
			name := procOf[st.P]
			if got := w.waitProc(name, settleMax/60); got == "parked" {
				w.s.Step(name)
				want := st.A == "PSend"
				got = w.waitProc(name, settleMax)
				if got == "running" || (want && got != "done") {
					diverge("step %d %s: pusher is %s", i, st.A, got)
					break loop
				}
			} else if got != "done" {
				diverge("step %d %s: pusher is %s", i, st.A, got)
				break loop
			}
		case "Recv":
			before := len(w.s.Procs())
			if !w.hub.deliver(st.V) {
				diverge("step %d: nothing queued for node %d", i, st.V)
				break loop
			}
			if st.R == "spawn" {
				// the node's loop starts a writer goroutine, which parks at the yield point / its first write - unless it
				// has to wait for something a parked goroutine holds (the stream's write lock; its turn): then it shows up later
				var name string
				ok := waitFor(settleMax/60, func() bool {
					ps := w.s.Procs()
					if len(ps) > before {
						name = ps[len(ps)-1]
						s, _ := w.s.State(name)
						return s == sched.Parked
					}
					return false
				})
				if !ok {
					name = ""
				}
				writer[st.N] = name
			} else {
				waitFor(settleMax, w.hub.drained)
				time.Sleep(time.Millisecond)
			}
		case "XWrite":
			name := writer[st.N]
			if name == "" {
				// find the adopted goroutine that parked meanwhile
				for _, n := range w.s.Procs() {
					used := false
					for _, u := range writer {
						if u == n {
							used = true
						}
					}
					if s, _ := w.s.State(n); strings.HasPrefix(n, "xw#") && !used && s == sched.Parked {
						name = n
					}
				}
				if name == "" {
					diverge("step %d: writer of push %d not found", i, st.N)
					break loop
				}
				writer[st.N] = name
			}
			w.s.Step(name)
			waitFor(settleMax, func() bool { w.scan(); s, _ := w.s.State(name); return s != sched.Parked })
			time.Sleep(time.Millisecond)
		default:
			return &fw.Trace{Status: fw.DriverError, Note: "unknown step " + st.A}
		}
		w.scan()
	}
	w.s.Drain(finalMax)
	w.quiet()
	if w.owed() {
		// the judge is going to ask for this delivery: say what the world looks like
		note += " | undelivered push:" + w.diag()
	}
	return &fw.Trace{Status: status, Note: note, Events: w.snapshot()}
}

// setup: process-wide wiring (transport protocol, yield-point handler) and the probe for patch X07-0.
func setup() {
	registerTransport()
	if noHooks {
		return
	}
	verifhook.Set(hookHandler)
	// probe: one cross-node push on a throw-away world
	w, err := newPushWorld(true, false, 1)
	if err != nil {
		fmt.Printf("INCONCLUSIVE: push world: %v\n", err)
		os.Exit(2)
	}
	defer w.destroy()
	if err := w.move("A", 2); err != nil {
		fmt.Printf("INCONCLUSIVE: probe login: %v\n", err)
		os.Exit(2)
	}
	w.pcall(1, "A", 1)
	w.push(1, "A", 1)
	w.quiet()
	if w.wireCount(w.cur["A"]) == 0 {
		fmt.Println("INCONCLUSIVE: probe push over the bridge-manager double did not arrive")
		os.Exit(2)
	}
	hooksOn = hookProbed.Load()
}
