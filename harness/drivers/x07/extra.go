package main

// Scripted and free-running scenes (the code's own goroutines and timing), the end-to-end relay, SelfTest.

import (
	"context"
	"encoding/json"
	"fmt"
	"math/rand"
	"net"
	"os"
	"path/filepath"
	"runtime"
	"strings"
	"sync"
	"sync/atomic"
	"time"

	"tunnox-core/internal/client/transport"
	"tunnox-core/internal/command"
	corelog "tunnox-core/internal/core/log"
	coretypes "tunnox-core/internal/core/types"
	"tunnox-core/internal/packet"
	"tunnox-core/internal/protocol/session"
	"tunnox-core/internal/protocol/session/notification"
	"tunnox-core/internal/stream"
	"tunnox-core/verifharness/fw"
	"tunnox-core/verifharness/srvkit"
)

// capture is the process-wide logger: silent.
type capture struct{}

func (capture) Debug(args ...interface{})                                 {}
func (capture) Info(args ...interface{})                                  {}
func (capture) Warn(args ...interface{})                                  {}
func (capture) Error(args ...interface{})                                 {}
func (capture) Debugf(format string, args ...interface{})                 {}
func (capture) Infof(format string, args ...interface{})                  {}
func (capture) Warnf(format string, args ...interface{})                  {}
func (capture) Errorf(format string, args ...interface{})                 {}
func (c capture) WithField(key string, value interface{}) corelog.Logger  { return c }
func (c capture) WithFields(fields map[string]interface{}) corelog.Logger { return c }
func (c capture) WithError(err error) corelog.Logger                      { return c }
func (c capture) WithContext(ctx context.Context) corelog.Logger          { return c }

var captureLog = capture{}

func registerTransport() { transport.RegisterProtocol("x07", 1, dialX07) }

// handlerUnregisters: do the target-tunnel handlers of the checkout under test still call UnregisterTunnel themselves
// (the deferred `tunnelCancel(); c.targetTunnelManager.UnregisterTunnel(tunnelID)`)?  The driver's tunnel goroutines
// play exactly the lines the handlers have.
var handlerUnregisters = func() bool {
	repo := os.Getenv("VERIF_REPO")
	if repo == "" {
		repo = "/repo"
	}
	src, err := os.ReadFile(filepath.Join(repo, "internal/client/target_handler.go"))
	if err != nil {
		return true
	}
	return strings.Contains(string(src), "targetTunnelManager.UnregisterTunnel(")
}()

func (w *cworld) unregister(t *tgen) {
	if handlerUnregisters {
		w.ttm.UnregisterTunnel(t.tid)
	}
}

func extraBehaviours(env *fw.Env) []json.RawMessage {
	var out []json.RawMessage
	add := func(b behaviour) { out = append(out, fw.MustJSON(b)) }
	for _, v := range []string{"session", "subpkg"} {
		add(behaviour{Part: "send", Variant: v, Extra: "send:basic", Seed: env.Seed})
		add(behaviour{Part: "send", Variant: v, Extra: "resp", Seed: env.Seed})
	}
	add(behaviour{Part: "client", Extra: "client:types", Seed: env.Seed})
	add(behaviour{Part: "client", Extra: "client:dupopen", Seed: env.Seed})
	add(behaviour{Part: "push", Extra: "push:local", Seed: env.Seed, Rounds: 6})
	add(behaviour{Part: "push", Extra: "push:stuck", Seed: env.Seed})
	add(behaviour{Part: "push", Extra: "push:offline", Seed: env.Seed})
	add(behaviour{Part: "e2e", Extra: "e2e:c2c", Seed: env.Seed})
	// the schedules of the four Notify_show_*.cfg counterexamples, always driven (sampling may miss them)
	add(behaviour{Part: "send", Variant: "session", Steps: []step{{A: "Login", X: "A", C: 1, K: "ctl"}, {A: "Login", X: "B", C: 2, K: "tun"},
		{A: "BSnap", P: 1, N: 1}, {A: "BBegin", P: 1, N: 1}, {A: "BEnd", P: 1, N: 1}, {A: "BBegin", P: 1, N: 1}, {A: "BEnd", P: 1, N: 1}, {A: "BDone", P: 1, N: 1}}})
	add(behaviour{Part: "client", Steps: []step{{A: "Add", H: 1}, {A: "Add", H: 2}, {A: "Arrive", N: 1, K: "sys", T: "tx", H: 1, F: "a"},
		{A: "Rem", H: 2}, {A: "Call", N: 1, H: 2}, {A: "Call", N: 1}}})
	add(behaviour{Part: "client", Steps: []step{{A: "TReg", G: 1, T: "t1"}, {A: "TReg", G: 2, T: "t1"}, {A: "TExit", G: 1, T: "t1"},
		{A: "Arrive", N: 1, K: "closed", T: "t1"}}})
	if hooksOn {
		add(behaviour{Part: "push", Hooks: true, Steps: []step{{A: "Move", C: 1, V: 2}, {A: "PLookup", P: 1, N: 1}, {A: "PRead", P: 1, N: 1}, {A: "PSend", P: 1, N: 1, R: "cross"},
			{A: "Change", V: 1}, {A: "PLookup", P: 1, N: 2}, {A: "PRead", P: 1, N: 2, V: 1}, {A: "PSend", P: 1, N: 2, V: 1, R: "cross"},
			{A: "Recv", V: 2, N: 1, R: "spawn"}, {A: "Recv", V: 2, N: 2, R: "spawn"}, {A: "XWrite", V: 2, N: 2}, {A: "XWrite", V: 2, N: 1}}})
	}
	n, rounds := 3, 30
	if env.Tier == "thorough" {
		n, rounds = 24, 120
	}
	for i := 0; i < n; i++ {
		seed := env.Seed*1000 + int64(i)
		add(behaviour{Part: "send", Variant: []string{"session", "subpkg"}[i%2], Extra: "send:stress", Seed: seed, Rounds: rounds})
		add(behaviour{Part: "client", Extra: "client:stress", Seed: seed, Rounds: rounds})
		add(behaviour{Part: "push", Extra: "push:cross", Seed: seed, Rounds: rounds})
		add(behaviour{Part: "push", Extra: "push:broker", Seed: seed, Rounds: rounds})
		add(behaviour{Part: "push", Extra: "push:stress", Seed: seed, Rounds: rounds / 2})
	}
	return out
}

func driveExtra(env *fw.Env, b *behaviour) *fw.Trace {
	switch b.Extra {
	case "send:basic":
		return sceneSendBasic(b)
	case "send:stress":
		return sceneSendStress(b)
	case "resp":
		return sceneResp(b)
	case "client:types":
		return sceneClientTypes(b)
	case "client:dupopen":
		return sceneDupOpen(b)
	case "client:stress":
		return sceneClientStress(b)
	case "push:local", "push:cross", "push:broker":
		return scenePushSeq(b)
	case "push:stuck":
		return scenePushStuck(b)
	case "push:offline":
		return scenePushOffline(b)
	case "push:stress":
		return scenePushStress(b)
	case "e2e:c2c":
		return sceneC2C(b)
	}
	return &fw.Trace{Status: fw.DriverError, Note: "unknown scene " + b.Extra}
}

func derr(f string, a ...any) *fw.Trace {
	return &fw.Trace{Status: fw.DriverError, Note: fmt.Sprintf(f, a...)}
}

// ---------------------------------------------------------------------------------------------
// send scenes

func (w *sworld) sendNow(id int, x string) {
	w.log(fw.Event{"ev": "SCall", "id": id, "x": x})
	w.send(id, x, func(cid int64) error { return w.ns.SendToClient(cid, notif(id)) })
}

func (w *sworld) helperNow(id int, x string, how func(cid int64) error) {
	w.mu.Lock()
	w.pending = id
	w.mu.Unlock()
	w.log(fw.Event{"ev": "SCall", "id": id, "x": x})
	w.send(id, x, how)
	w.mu.Lock()
	w.pending = 0
	w.mu.Unlock()
}

func (w *sworld) bcastNow(id int) {
	w.log(fw.Event{"ev": "BCall", "id": id})
	w.broadcast(id)
}

func sceneSendBasic(b *behaviour) *fw.Trace {
	w, err := newSendWorld(b.Variant, true, b.Seed)
	if err != nil {
		return derr("%v", err)
	}
	defer w.destroy()
	id := 0
	next := func() int { id++; return id }
	w.sendNow(next(), "A") // nobody there
	a1, err := w.login("A", "ctl")
	if err != nil {
		return derr("login: %v", err)
	}
	w.sendNow(next(), "A")
	w.sendNow(next(), "B")
	// a tunnel-type connection of B: authenticated, registered, not B's control connection
	bt, err := w.login("B", "tun")
	if err != nil {
		return derr("login: %v", err)
	}
	w.sendNow(next(), "B")
	w.bcastNow(next())
	if w.variant == "session" {
		w.toTunnel(bt.num)
		w.bcastNow(next())
	}
	if _, err := w.login("B", "ctl"); err != nil {
		return derr("login: %v", err)
	}
	w.sendNow(next(), "B")
	w.bcastNow(next())
	// A reconnects: the old connection is closed by the server, the new one is the target
	if _, err := w.login("A", "ctl"); err != nil {
		return derr("login: %v", err)
	}
	if !a1.tr.isClosed() {
		w.note("the replaced control connection was left open")
	}
	w.sendNow(next(), "A")
	w.helperNow(next(), "A", func(cid int64) error { return w.ns.SendSystemMessage(cid, "t", "m", "info") })
	w.helperNow(next(), "B", func(cid int64) error {
		return w.ns.SendTunnelClosedNotification(cid, "t1", "m1", "peer", 1, 2, 3)
	})
	w.helperNow(next(), "A", func(cid int64) error {
		return w.ns.SendMappingEvent(cid, packet.NotifyTypeMappingCreated, "m1", "tcp", 1, 2, "h", "active", "")
	})
	w.drop(w.cur["A"])
	w.sendNow(next(), "A")
	w.bcastNow(next())
	w.scan()
	return &fw.Trace{Status: fw.Realised, Events: w.snapshot()}
}

func (b *base) note(string) {}

func sceneSendStress(b *behaviour) *fw.Trace {
	w, err := newSendWorld(b.Variant, true, b.Seed)
	if err != nil {
		return derr("%v", err)
	}
	defer w.destroy()
	var id atomic.Int32
	var wg sync.WaitGroup
	stop := make(chan struct{})
	// environment: clients come and go
	wg.Add(1)
	go func() {
		defer wg.Done()
		r := rand.New(rand.NewSource(b.Seed))
		for i := 0; i < b.Rounds; i++ {
			x := []string{"A", "B"}[r.Intn(2)]
			switch r.Intn(5) {
			case 0, 1:
				if _, err := w.login(x, "ctl"); err != nil {
					return
				}
			case 2:
				if c, err := w.login(x, "tun"); err == nil && w.variant == "session" && r.Intn(2) == 0 {
					w.toTunnel(c.num)
				}
			default:
				w.mu.Lock()
				n := w.cur[x]
				w.mu.Unlock()
				if n != 0 {
					w.drop(n)
				}
			}
			time.Sleep(time.Duration(r.Intn(300)) * time.Microsecond)
		}
		close(stop)
	}()
	for s := 0; s < 3; s++ {
		wg.Add(1)
		go func(s int) {
			defer wg.Done()
			r := rand.New(rand.NewSource(b.Seed*7 + int64(s)))
			for {
				select {
				case <-stop:
					return
				default:
				}
				n := int(id.Add(1))
				if r.Intn(5) == 0 {
					w.bcastNow(n)
				} else {
					w.sendNow(n, []string{"A", "B"}[r.Intn(2)])
				}
				time.Sleep(time.Duration(r.Intn(200)) * time.Microsecond)
			}
		}(s)
	}
	wg.Wait()
	w.scan()
	return &fw.Trace{Status: fw.Realised, Events: w.snapshot()}
}

// sceneResp: ResponseManager.SendResponse writes the response to exactly the connection it names.
func sceneResp(b *behaviour) *fw.Trace {
	w, err := newSendWorld("session", true, b.Seed)
	if err != nil {
		return derr("%v", err)
	}
	defer w.destroy()
	w.tag = "resp:" + b.Variant
	w.lg.events[0]["tag"] = w.tag
	type responder interface {
		SendResponse(connID string, response *command.CommandResponse) error
	}
	var rm responder
	if b.Variant == "subpkg" {
		rm = notification.NewResponseManager(w.srv.SM, w.srv.Ctx)
	} else {
		rm = session.NewResponseManager(w.srv.SM, w.srv.Ctx)
	}
	a, err := w.login("A", "ctl")
	if err != nil {
		return derr("login: %v", err)
	}
	bb, err := w.login("B", "ctl")
	if err != nil {
		return derr("login: %v", err)
	}
	id := 0
	resp := func(x string, connID string) {
		id++
		w.log(fw.Event{"ev": "SCall", "id": id, "x": x})
		n := id
		w.send(n, x, func(int64) error {
			return rm.SendResponse(connID, &command.CommandResponse{Success: true, CommandId: fmt.Sprintf("n%d", n), RequestID: "r", Data: "d"})
		})
	}
	resp("A", a.id)
	resp("B", bb.id)
	resp("A", a.id)
	w.drop(bb.num)
	resp("B", bb.id) // the connection is gone
	w.drop(a.num)
	resp("A", "no-such-connection")
	w.scan()
	return &fw.Trace{Status: fw.Realised, Events: w.snapshot()}
}

// ---------------------------------------------------------------------------------------------
// client scenes

func (w *cworld) notifyAndWait(n int, k nkind) bool {
	if err := w.sendNotif(n, k); err != nil {
		return false
	}
	ok := waitFor(settleMax, func() bool { return w.readIdle() && w.serverIdle() })
	if ok {
		w.handled(n)
	}
	return ok
}

func sceneClientTypes(b *behaviour) *fw.Trace {
	w, err := newClientWorld(true, b.Seed, true)
	if err != nil {
		return derr("%v", err)
	}
	defer w.destroy()
	w.add(1)
	w.add(2)
	w.treg(1, "t1")
	w.treg(2, "t2")
	if err := w.lopen("t1"); err != nil {
		return derr("%v", err)
	}
	if err := w.lopen("t2"); err != nil {
		return derr("%v", err)
	}
	kinds := []nkind{
		{ty: "sys"}, {ty: "sys", ack: true}, {ty: "generic", ack: true}, {ty: "sys", exp: true, ack: true}, {ty: "closed", tid: "t1", bad: true, ack: true},
		{ty: "closed", tid: "tx", ack: true}, {ty: "closed", tid: "t1", ack: true}, {ty: "closed", tid: "t1"}, {ty: "error", tid: "t2"}, {ty: "error", tid: "t2", ack: true},
		{ty: "closed", tid: "t2", exp: true}, {ty: "closed", tid: "t2"},
	}
	for i, k := range kinds {
		if i == 5 {
			w.rem(1)
		}
		if !w.notifyAndWait(i+1, k) {
			return &fw.Trace{Status: fw.Inconclusive, Note: "the read loop did not get back to its read within the margin"}
		}
		time.Sleep(2 * time.Millisecond) // a tunnel closed by a notification runs its OnClosed callback on the read loop: it is logged by now
	}
	w.poll()
	return &fw.Trace{Status: fw.Realised, Events: w.snapshot()}
}

func allStacks() string {
	buf := make([]byte, 1<<20)
	for {
		n := runtime.Stack(buf, true)
		if n < len(buf) {
			return string(buf[:n])
		}
		buf = make([]byte, 2*len(buf))
	}
}

// sceneDupOpen: the REAL target-side handler (handleTunnelOpenRequest -> handleTCPTargetTunnel) is given the same
// TunnelOpenRequest twice, then the tunnel-closed notification for that id.  Generation g = the g-th connection the
// client opens to the target service; it is "done" when the client closes that connection.
func sceneDupOpen(b *behaviour) *fw.Trace {
	w, err := newClientWorld(true, b.Seed, false)
	if err != nil {
		return derr("%v", err)
	}
	defer w.destroy()
	w.tag = "client:real"
	w.lg.events[0]["tag"] = w.tag
	ln, err := net.Listen("tcp", "127.0.0.1:0")
	if err != nil {
		return &fw.Trace{Status: fw.Inconclusive, Note: "no loopback listener: " + err.Error()}
	}
	defer ln.Close()
	var gen atomic.Int32
	go func() {
		for {
			c, err := ln.Accept()
			if err != nil {
				return
			}
			g := int(gen.Add(1))
			w.log(fw.Event{"ev": "TReg", "g": g, "t": "t1"})
			go func() {
				buf := make([]byte, 64)
				for {
					if _, err := c.Read(buf); err != nil {
						w.log(fw.Event{"ev": "TDone", "g": g})
						c.Close()
						return
					}
				}
			}()
		}
	}()
	// tunnel connections the client dials: handshake + TunnelOpen are answered, then the far end stays silent
	var srvEnds []*memConn
	var mu sync.Mutex
	w.tunDial = func() (net.Conn, error) {
		c2s, s2c := newHalf(), newHalf()
		cli := &memConn{in: s2c, out: c2s}
		srv := &memConn{in: c2s, out: s2c}
		mu.Lock()
		srvEnds = append(srvEnds, srv)
		mu.Unlock()
		go func() {
			defer func() { recover() }()
			sp := stream.NewDefaultStreamFactory(context.Background()).CreateStreamProcessor(srv, srv)
			for {
				p, _, err := sp.ReadPacket()
				if err != nil {
					return
				}
				if p == nil {
					continue
				}
				switch p.PacketType & 0x3F {
				case packet.Handshake:
					body, _ := json.Marshal(&packet.HandshakeResponse{Success: true})
					sp.WritePacket(&packet.TransferPacket{PacketType: packet.HandshakeResp, Payload: body}, false, 0)
				case packet.TunnelOpen:
					body, _ := json.Marshal(&packet.TunnelOpenAckResponse{Success: true, TunnelID: "t1"})
					sp.WritePacket(&packet.TransferPacket{PacketType: packet.TunnelOpenAck, Payload: body}, false, 0)
					return // raw data from here on: nobody sends any
				}
			}
		}()
		return cli, nil
	}
	defer func() {
		mu.Lock()
		for _, s := range srvEnds {
			s.Close()
		}
		mu.Unlock()
	}()
	port := ln.Addr().(*net.TCPAddr).Port
	open := func() error {
		body, _ := json.Marshal(map[string]any{"tunnel_id": "t1", "mapping_id": "m1", "secret_key": "k", "target_host": "127.0.0.1", "target_port": port, "protocol": "tcp"})
		_, err := w.sp.WritePacket(&packet.TransferPacket{PacketType: packet.JsonCommand,
			CommandPacket: &packet.CommandPacket{CommandType: packet.TunnelOpenRequestCmd, CommandBody: string(body)}}, true, 0)
		return err
	}
	running := func() int { return strings.Count(allStacks(), "client.(*TunnoxClient).handleTCPTargetTunnel(") }
	established := func(n int) func() bool {
		return func() bool { return strings.Count(allStacks(), "iocopy.Bidirectional(") >= n && int(gen.Load()) >= n }
	}
	w.log(fw.Event{"ev": "TRegCall", "g": 1, "t": "t1"})
	if err := open(); err != nil {
		return derr("%v", err)
	}
	if !waitFor(settleMax, established(1)) {
		return &fw.Trace{Status: fw.Inconclusive, Note: "the first target tunnel was not established within the margin"}
	}
	// the same request again (a retry, a duplicate broadcast): RegisterTunnel cancels the first tunnel.  The second
	// registration happens somewhere after this point (announced here: the first tunnel may legitimately end from now on)
	w.log(fw.Event{"ev": "TRegCall", "g": 2, "t": "t1"})
	if err := open(); err != nil {
		return derr("%v", err)
	}
	if !waitFor(settleMax, func() bool {
		return int(gen.Load()) >= 2 && running() == 1 && strings.Count(allStacks(), "iocopy.Bidirectional(") >= 1
	}) {
		return &fw.Trace{Status: fw.Inconclusive, Note: fmt.Sprintf("the second target tunnel did not replace the first within the margin (handlers running: %d)", running())}
	}
	time.Sleep(5 * time.Millisecond)
	// the listen side closes: tunnel-closed notification for t1
	n := 1
	if err := w.sendNotif(n, nkind{ty: "closed", tid: "t1"}); err != nil {
		return derr("%v", err)
	}
	if !waitFor(settleMax, func() bool { return w.readIdle() && w.serverIdle() }) {
		return &fw.Trace{Status: fw.Inconclusive, Note: "the read loop did not get back to its read within the margin"}
	}
	// the cancellation closes the target connection from a goroutine of the handler: give it the margin
	waitFor(settleMax, func() bool {
		for _, e := range w.snapshot() {
			if e["ev"] == "TDone" && e["g"] == 2 {
				return true
			}
		}
		return false
	})
	w.log(fw.Event{"ev": "Handled", "n": n})
	return &fw.Trace{Status: fw.Realised, Events: w.snapshot()}
}

func sceneClientStress(b *behaviour) *fw.Trace {
	w, err := newClientWorld(true, b.Seed, true)
	if err != nil {
		return derr("%v", err)
	}
	defer w.destroy()
	var wg sync.WaitGroup
	stop := make(chan struct{})
	// user goroutines: handlers come and go
	for u := 1; u <= 2; u++ {
		wg.Add(1)
		go func(u int) {
			defer wg.Done()
			r := rand.New(rand.NewSource(b.Seed*3 + int64(u)))
			in := false
			for {
				select {
				case <-stop:
					return
				default:
				}
				if in {
					w.rem(u)
				} else {
					w.add(u)
				}
				in = !in
				time.Sleep(time.Duration(r.Intn(300)) * time.Microsecond)
			}
		}(u)
	}
	// target-side tunnel goroutines
	var gen atomic.Int32
	wg.Add(1)
	go func() {
		defer wg.Done()
		r := rand.New(rand.NewSource(b.Seed * 5))
		var live []int
		for {
			select {
			case <-stop:
				return
			default:
			}
			if len(live) < 3 && r.Intn(2) == 0 {
				g := int(gen.Add(1))
				w.treg(g, []string{"t1", "t2"}[r.Intn(2)])
				live = append(live, g)
			} else if len(live) > 0 {
				i := r.Intn(len(live))
				w.texit(live[i])
				live = append(live[:i], live[i+1:]...)
			}
			w.poll()
			time.Sleep(time.Duration(r.Intn(300)) * time.Microsecond)
		}
	}()
	r := rand.New(rand.NewSource(b.Seed))
	status, note := fw.Realised, ""
	for n := 1; n <= b.Rounds; n++ {
		k := nkind{ty: []string{"sys", "closed", "closed", "error", "generic"}[r.Intn(5)], tid: []string{"t1", "t2", "tx"}[r.Intn(3)],
			ack: r.Intn(2) == 0, exp: r.Intn(8) == 0, bad: r.Intn(10) == 0}
		if k.ty == "sys" || k.ty == "generic" {
			k.tid = ""
		}
		if k.exp {
			k.bad = false
		}
		if !w.notifyAndWait(n, k) {
			status, note = fw.Inconclusive, "the read loop did not get back to its read within the margin"
			break
		}
	}
	close(stop)
	wg.Wait()
	w.poll()
	if status != fw.Realised {
		return &fw.Trace{Status: status, Note: note}
	}
	return &fw.Trace{Status: status, Events: w.snapshot()}
}

// ---------------------------------------------------------------------------------------------
// push scenes

func (w *pworld) pushNow(x string, node int) {
	p := int(w.npush.Add(1))
	w.pcall(p, x, node)
	w.push(p, x, node)
}

// scenePushSeq: changes and pushes issued strictly one after the other (what a management API client that creates
// mappings one by one does); local = the client sits on the origin node, cross / broker = on the other node.
func scenePushSeq(b *behaviour) *fw.Trace {
	w, err := newPushWorld(true, b.Extra == "push:broker", b.Seed)
	if err != nil {
		return derr("%v", err)
	}
	defer w.destroy()
	if b.Extra != "push:broker" {
		w.tag = b.Extra
		w.lg.events[0]["tag"] = w.tag
	}
	node := 2
	if b.Extra == "push:local" {
		node = 1
	}
	if err := w.move("A", node); err != nil {
		return derr("login: %v", err)
	}
	r := rand.New(rand.NewSource(b.Seed))
	for i := 0; i < b.Rounds; i++ {
		// bursts of 2..3 changes, each followed by its push, then a pause
		for k := 0; k < 2+r.Intn(2); k++ {
			if w.ver["A"] < 24 {
				if err := w.change("A"); err != nil {
					return derr("change: %v", err)
				}
			}
			w.pushNow("A", 1)
		}
		w.quiet()
	}
	return &fw.Trace{Status: fw.Realised, Events: w.snapshot()}
}

// scenePushStuck: a connection that does not take bytes must not keep the other client's push from arriving.
func scenePushStuck(b *behaviour) *fw.Trace {
	w, err := newPushWorld(true, false, b.Seed)
	if err != nil {
		return derr("%v", err)
	}
	defer w.destroy()
	w.tag = "push:stuck"
	w.lg.events[0]["tag"] = w.tag
	if err := w.move("A", 2); err != nil {
		return derr("login: %v", err)
	}
	if err := w.move("B", 2); err != nil {
		return derr("login: %v", err)
	}
	w.pushNow("A", 1)
	w.pushNow("B", 1)
	w.quiet()
	a := w.conns[w.cur["A"]]
	w.log(fw.Event{"ev": "Stuck", "c": a.num})
	a.tr.setStuck(true)
	if err := w.change("A"); err != nil {
		return derr("change: %v", err)
	}
	w.pushNow("A", 1) // its writer goroutine blocks
	if err := w.change("B"); err != nil {
		return derr("change: %v", err)
	}
	w.pushNow("B", 1)
	w.quiet()
	w.log(fw.Event{"ev": "Unstuck", "c": a.num})
	a.tr.setStuck(false)
	w.quiet()
	return &fw.Trace{Status: fw.Realised, Events: w.snapshot()}
}

// scenePushOffline: nobody there, on either node, and a node without bridge manager.
func scenePushOffline(b *behaviour) *fw.Trace {
	w, err := newPushWorld(true, false, b.Seed)
	if err != nil {
		return derr("%v", err)
	}
	defer w.destroy()
	w.tag = "push:offline"
	w.lg.events[0]["tag"] = w.tag
	if err := w.change("A"); err != nil {
		return derr("change: %v", err)
	}
	w.pushNow("A", 1)
	w.pushNow("A", 2)
	w.quiet()
	if err := w.move("B", 1); err != nil {
		return derr("login: %v", err)
	}
	w.pushNow("A", 1) // B's connection must stay silent
	w.pushNow("B", 1)
	w.quiet()
	if err := w.move("A", 2); err != nil {
		return derr("login: %v", err)
	}
	w.move("A", 0)
	w.pushNow("A", 2)
	w.quiet()
	return &fw.Trace{Status: fw.Realised, Events: w.snapshot()}
}

func scenePushStress(b *behaviour) *fw.Trace {
	w, err := newPushWorld(true, b.Seed%2 == 0, b.Seed)
	if err != nil {
		return derr("%v", err)
	}
	defer w.destroy()
	w.busy = true
	if err := w.move("A", 1+int(b.Seed%2)); err != nil {
		return derr("login: %v", err)
	}
	if err := w.move("B", 2); err != nil {
		return derr("login: %v", err)
	}
	var wg sync.WaitGroup
	stop := make(chan struct{})
	wg.Add(1)
	go func() { // environment: A moves, configurations change
		defer wg.Done()
		r := rand.New(rand.NewSource(b.Seed))
		for i := 0; i < b.Rounds; i++ {
			switch r.Intn(4) {
			case 0:
				if err := w.move("A", r.Intn(3)); err != nil {
					break
				}
			default:
				x := []string{"A", "B"}[r.Intn(2)]
				w.mu.Lock()
				v := w.ver[x]
				w.mu.Unlock()
				if v < 20 {
					w.change(x)
				}
			}
			time.Sleep(time.Duration(r.Intn(400)) * time.Microsecond)
		}
		close(stop)
	}()
	for s := 0; s < 2; s++ {
		wg.Add(1)
		go func(s int) {
			defer wg.Done()
			r := rand.New(rand.NewSource(b.Seed*11 + int64(s)))
			for {
				select {
				case <-stop:
					return
				default:
				}
				w.pushNow([]string{"A", "B"}[r.Intn(2)], 1+r.Intn(2))
				time.Sleep(time.Duration(r.Intn(300)) * time.Microsecond)
			}
		}(s)
	}
	wg.Wait()
	w.quiet()
	return &fw.Trace{Status: fw.Realised, Events: w.snapshot()}
}

// ---------------------------------------------------------------------------------------------
// end to end: real server (srvkit + the command package's notification handlers), two real clients; the driver
// relays every packet between a client's fake server and the client's connection on the real server.

func sceneC2C(b *behaviour) *fw.Trace {
	sw, err := newSendWorld("session", true, b.Seed)
	if err != nil {
		return derr("%v", err)
	}
	defer sw.destroy()
	sw.tag = "e2e"
	sw.lg.events[0]["tag"] = sw.tag
	cmds, err := sw.srv.EnableCommands(srvkit.CommandOptions{Library: true})
	if err != nil {
		return derr("commands: %v", err)
	}
	_ = cmds
	ca, err := newClientWorld(true, b.Seed, false) // the listen client: sends the close notification
	if err != nil {
		return derr("%v", err)
	}
	defer ca.destroy()
	cb, err := newClientWorld(true, b.Seed+1, false) // the target client: receives it
	if err != nil {
		return derr("%v", err)
	}
	defer cb.destroy()
	ca.mute = true
	cb.lg = sw.lg
	cb.lg.mu.Lock()
	cb.lg.mu.Unlock()
	sa, err := sw.login("A", "ctl")
	if err != nil {
		return derr("login: %v", err)
	}
	sb, err := sw.login("B", "ctl")
	if err != nil {
		return derr("login: %v", err)
	}
	// relay server -> client: NotifyClient commands and command responses
	relay := func(from *xconn, to *cworld) int {
		n := 0
		for _, p := range from.tr.take() {
			bt := p.PacketType & 0x3F
			if bt == packet.JsonCommand && p.CommandPacket != nil && p.CommandPacket.CommandType == packet.NotifyClient {
				var nf packet.ClientNotification
				json.Unmarshal([]byte(p.CommandPacket.CommandBody), &nf)
				sw.log(fw.Event{"ev": "Wire", "c": from.num, "id": sw.serialOf(nf.NotifyID)})
			}
			if bt == packet.JsonCommand || bt == packet.CommandResp {
				p.PacketType = bt // the flags (compression) belong to the hop the packet was read from
				to.sp.WritePacket(p, false, 0)
				n++
			}
		}
		return n
	}
	// relay client -> server
	var ids atomic.Int32
	fromClient := func(conn *xconn, x string) func(p *packet.TransferPacket) {
		return func(p *packet.TransferPacket) {
			if p.CommandPacket == nil || p.CommandPacket.CommandType != packet.SendNotifyToClient {
				return
			}
			id := int(ids.Add(1))
			var req packet.C2CNotifyRequest
			json.Unmarshal([]byte(p.CommandPacket.CommandBody), &req)
			sw.mu.Lock()
			sw.pending = id
			sw.mu.Unlock()
			sw.log(fw.Event{"ev": "SCall", "id": id, "x": sw.clientName(req.TargetClientID)})
			herr := sw.srv.SM.HandlePacket(&coretypes.StreamPacket{ConnectionID: conn.id, Packet: p, Timestamp: time.Now()})
			// the command executor answers from its own goroutine: wait for the response, relaying the notification
			// (which is on the target's connection before the handler answers) as soon as it shows up
			r := "other"
			var resp *packet.TransferPacket
			waitFor(settleMax, func() bool {
				relay(sb, cb)
				for _, q := range conn.tr.take() {
					if q.PacketType&0x3F == packet.CommandResp && q.CommandPacket != nil {
						resp = q
					}
				}
				return resp != nil
			})
			if os.Getenv("X07_DEBUG") != "" {
				fmt.Fprintf(os.Stderr, "c2c: herr=%v resp=%v\n", herr, resp != nil)
			}
			if resp != nil {
				var d struct {
					Success bool   `json:"success"`
					Error   string `json:"error"`
				}
				json.Unmarshal([]byte(resp.CommandPacket.CommandBody), &d)
				if os.Getenv("X07_DEBUG") != "" {
					fmt.Fprintf(os.Stderr, "c2c: body=%s\n", resp.CommandPacket.CommandBody)
				}
				switch {
				case d.Success:
					r = "ok"
				case strings.Contains(d.Error, "offline"):
					r = "offline"
				}
				resp.PacketType &= 0x3F
				ca.sp.WritePacket(resp, false, 0)
			}
			relay(sb, cb)
			sw.log(fw.Event{"ev": "SRet", "id": id, "r": r})
			sw.mu.Lock()
			sw.pending = 0
			sw.mu.Unlock()
		}
	}
	ca.onCmd = fromClient(sa, "A")
	// the target client runs two tunnels; the listen client closes t1
	cb.treg(1, "t1")
	cb.treg(2, "t2")
	n := 0
	closeNotify := func(tid string) bool {
		n++
		cb.curN.Store(int32(n))
		cb.log(fw.Event{"ev": "Notif", "n": n, "ty": "closed", "t": tid, "ack": false, "exp": false, "bad": false})
		before := int(ids.Load())
		if err := ca.cl.SendTunnelCloseNotify(sw.creds["B"].id, tid, "m1", "normal"); err != nil {
			return false
		}
		ok := waitFor(settleMax, func() bool {
			return int(ids.Load()) > before && cb.readIdle() && cb.serverIdle() && ca.readIdle() && sw.pendingNone()
		})
		cb.handled(n)
		return ok
	}
	if !closeNotify("t1") {
		return &fw.Trace{Status: fw.Inconclusive, Note: "the close notification did not travel within the margin"}
	}
	if !closeNotify("tx") {
		return &fw.Trace{Status: fw.Inconclusive, Note: "the close notification did not travel within the margin"}
	}
	// the target client goes away: the sender gets a clean refusal
	sw.drop(sb.num)
	n++
	before := int(ids.Load())
	ca.cl.SendTunnelCloseNotify(sw.creds["B"].id, "t2", "m1", "normal")
	if !waitFor(settleMax, func() bool { return int(ids.Load()) > before && ca.readIdle() && sw.pendingNone() }) {
		return &fw.Trace{Status: fw.Inconclusive, Note: "the close notification did not travel within the margin"}
	}
	cb.poll()
	return &fw.Trace{Status: fw.Realised, Events: sw.snapshot()}
}

func (w *sworld) pendingNone() bool { w.mu.Lock(); defer w.mu.Unlock(); return w.pending == 0 }

// ---------------------------------------------------------------------------------------------
// SelfTest: corrupted copies of accepted traces that the judge must reject

func selfTest(env *fw.Env, acc []*fw.Trace) []*fw.Trace {
	var out []*fw.Trace
	id := 1 << 20
	cnt := map[string]int{}
	take := func(kind string, t *fw.Trace, mut func(n *fw.Trace) bool) {
		if cnt[kind] >= 4 {
			return
		}
		id++
		n := cloneTrace(t, id)
		if mut(n) {
			n.Beh.Src = "selftest:" + kind
			out = append(out, n)
			cnt[kind]++
		}
	}
	defer func() {
		if p := os.Getenv("X07_SELFTEST_DUMP"); p != "" {
			os.WriteFile(p, fw.MustJSON(out), 0o644)
		}
	}()
	for _, t := range acc {
		owner := map[int]string{}
		kind := map[int]string{}
		for _, e := range t.Events {
			if e["ev"] == "Login" {
				owner[e["c"].(int)], _ = e["x"].(string)
				kind[e["c"].(int)], _ = e["k"].(string)
			}
		}
		// (1) a notification on a connection of the other client
		take("other", t, func(n *fw.Trace) bool {
			tgt := map[int]string{}
			for _, e := range n.Events {
				if e["ev"] == "SCall" {
					tgt[e["id"].(int)], _ = e["x"].(string)
				}
				if e["ev"] == "Wire" {
					for c, x := range owner {
						if want, ok := tgt[e["id"].(int)]; ok && x != want {
							e["c"] = c
							return true
						}
					}
				}
			}
			return false
		})
		// (2) the same notification twice
		take("twice", t, func(n *fw.Trace) bool {
			for i, e := range n.Events {
				if e["ev"] == "Wire" {
					d := fw.Event{}
					for k, v := range e {
						d[k] = v
					}
					n.Events = append(n.Events[:i+1:i+1], append([]fw.Event{d}, n.Events[i+1:]...)...)
					return true
				}
			}
			return false
		})
		// (3) nil returned although nothing was written
		take("lost", t, func(n *fw.Trace) bool {
			for _, e := range n.Events {
				if e["ev"] == "SRet" && e["r"] == "offline" {
					e["r"] = "ok"
					return true
				}
			}
			return false
		})
		// (4) an acknowledgement that never came
		take("noack", t, func(n *fw.Trace) bool {
			for i, e := range n.Events {
				if e["ev"] == "AckIn" && e["n"] != 0 {
					n.Events = append(n.Events[:i:i], n.Events[i+1:]...)
					return true
				}
			}
			return false
		})
		// (5) a callback for a handler whose removal had returned
		take("removed", t, func(n *fw.Trace) bool {
			for i, e := range n.Events {
				if e["ev"] == "Cb" {
					h := e["h"]
					n.Events = append(n.Events[:i:i], append([]fw.Event{{"ev": "RemCall", "h": h}, {"ev": "RemRet", "h": h}}, n.Events[i:]...)...)
					return true
				}
			}
			return false
		})
		// (6) a tunnel that survived the notification naming it
		take("survivor", t, func(n *fw.Trace) bool {
			named := map[string]bool{}
			gt := map[int]string{}
			for _, e := range n.Events {
				switch e["ev"] {
				case "TReg":
					gt[e["g"].(int)], _ = e["t"].(string)
				case "TExit":
					delete(gt, e["g"].(int))
				case "Notif":
					if e["ty"] == "closed" && e["exp"] == false && e["bad"] == false {
						named[e["t"].(string)] = true
					}
				}
			}
			_ = named
			for i, e := range n.Events {
				if e["ev"] == "TDone" {
					g := e["g"].(int)
					// only a cancellation that a notification (not an exit, not a re-registration) caused
					exit, rereg := false, false
					for _, f := range n.Events {
						if f["ev"] == "TExit" && f["g"] == g {
							exit = true
						}
						if (f["ev"] == "TReg" || f["ev"] == "TRegCall") && f["g"].(int) > g && f["t"] == gt[g] {
							rereg = true
						}
					}
					if _, ok := gt[g]; ok && !exit && !rereg {
						n.Events = append(n.Events[:i:i], n.Events[i+1:]...)
						return true
					}
				}
			}
			return false
		})
		// (7) a config push on a connection of the other client
		take("pushother", t, func(n *fw.Trace) bool {
			for _, e := range n.Events {
				if e["ev"] == "PWire" && e["x"] != "" {
					for c, x := range owner {
						if x != e["x"] && kind[c] == "ctl" {
							e["c"] = c
							return true
						}
					}
				}
			}
			return false
		})
		// (8) an older configuration written after a newer one
		take("stale", t, func(n *fw.Trace) bool {
			if n.Events[0]["tag"] != "push:local" {
				return false
			}
			var idx []int
			for i, e := range n.Events {
				if e["ev"] == "PWire" {
					idx = append(idx, i)
				}
			}
			for k := 0; k+1 < len(idx); k++ {
				a, b := n.Events[idx[k]], n.Events[idx[k+1]]
				if a["c"] == b["c"] && a["v"].(int) < b["v"].(int) && a["v"].(int) > 0 {
					a["v"], b["v"] = b["v"], a["v"]
					return true
				}
			}
			return false
		})
	}
	return out
}
