package main

// Send world: the real NotificationService over a real client registry.
//
//	variant "session": srvkit assembly (SessionManager, ServerAuthHandler, cloud control ...), the session package's
//	                   NotificationService over SessionManager.GetClientRegistry(); connections log in with the real
//	                   two-phase handshake (ConnectionType control / tunnel), are dropped with CloseConnection and
//	                   turned into tunnels with ClientRegistry.Unregister (what handleTunnelOpen does)
//	variant "subpkg":  session/notification.NotificationService over session/registry.ClientRegistry (the copies in
//	                   the sub-packages); the registry calls handleHandshake makes are made by the driver
//	                   (Register, Remove of the previous connection, UpdateAuth; a tunnel-type connection is
//	                   registered and marked authenticated without being indexed)

import (
	"context"
	"encoding/json"
	"fmt"
	"math/rand"
	"sort"
	"strconv"
	"strings"
	"sync"
	"time"

	coretypes "tunnox-core/internal/core/types"
	"tunnox-core/internal/packet"
	"tunnox-core/internal/protocol/session"
	"tunnox-core/internal/protocol/session/connection"
	"tunnox-core/internal/protocol/session/notification"
	"tunnox-core/internal/protocol/session/registry"
	"tunnox-core/internal/stream"
	"tunnox-core/verifharness/fw"
	"tunnox-core/verifharness/sched"
	"tunnox-core/verifharness/srvkit"
)

var bgCtx = context.Background()

type notifier interface {
	SendToClient(targetClientID int64, n *packet.ClientNotification) error
	BroadcastToAll(n *packet.ClientNotification) (int, int)
	SendSystemMessage(targetClientID int64, title, message, level string) error
	SendTunnelClosedNotification(targetClientID int64, tunnelID, mappingID, reason string, bytesSent, bytesRecv, durationMs int64) error
	SendMappingEvent(targetClientID int64, eventType packet.NotificationType, mappingID, protocol string, sourcePort, targetPort int, targetHost, status, message string) error
}

type xconn struct {
	num    int
	id     string
	tr     *xtrans
	client string
	kind   string
	node   int
	sp     stream.PackageStreamer // subpkg variant
}

type cred struct {
	id     int64
	secret string
}

type sworld struct {
	base
	tag     string
	variant string
	srv     *srvkit.Server
	ns      notifier
	sub     *registry.ClientRegistry
	creds   map[string]*cred
	conns   map[int]*xconn
	cur     map[string]int // current control connection per client (driver's view, for the "replaced" event)
	nconn   int
	scanMu  sync.Mutex
	alias   map[string]int // notify id text -> serial (helper methods draw their own ids)
	pending int            // serial of the helper call in flight (0 = none)
	free    bool
	rng     *rand.Rand
	rngMu   sync.Mutex
	cancel  context.CancelFunc
}

func newSendWorld(variant string, free bool, seed int64) (*sworld, error) {
	w := &sworld{tag: "send:" + variant, variant: variant, creds: map[string]*cred{}, conns: map[int]*xconn{}, cur: map[string]int{},
		alias: map[string]int{}, free: free, rng: rand.New(rand.NewSource(seed))}
	w.init(free)
	if free {
		w.s.FreeDelay = func(string, sched.GateInfo) { w.jitter() }
	}
	switch variant {
	case "session":
		srv, err := srvkit.NewServer(srvkit.Options{})
		if err != nil {
			return nil, err
		}
		w.srv = srv
		w.ns = session.NewNotificationService(srv.Ctx, srv.SM.GetClientRegistry())
		for _, x := range []string{"A", "B"} {
			c, err := srv.NewConn("10.8.0." + map[string]string{"A": "1", "B": "2"}[x])
			if err != nil {
				srv.Close()
				return nil, err
			}
			id, secret, _, err := c.FirstConnect("control")
			if err != nil || id == 0 {
				srv.Close()
				return nil, fmt.Errorf("first connect of %s failed: %v", x, err)
			}
			c.Disconnect()
			w.creds[x] = &cred{id: id, secret: secret}
		}
	case "subpkg":
		ctx, cancel := context.WithCancel(context.Background())
		w.cancel = cancel
		w.sub = registry.NewClientRegistry(nil)
		w.ns = notification.NewNotificationService(ctx, w.sub)
		w.creds["A"], w.creds["B"] = &cred{id: 70000001}, &cred{id: 70000002}
	default:
		return nil, fmt.Errorf("unknown variant %q", variant)
	}
	w.log(fw.Event{"ev": "Cfg", "tag": w.tag})
	return w, nil
}

func (w *sworld) destroy() {
	defer func() { recover() }()
	w.s.Drain(finalMax)
	for _, c := range w.conns {
		c.tr.Close()
	}
	if w.srv != nil {
		w.srv.Close()
	}
	if w.cancel != nil {
		w.cancel()
	}
}

func (w *sworld) jitter() {
	w.rngMu.Lock()
	d, n := w.rng.Intn(4), w.rng.Intn(150)
	w.rngMu.Unlock()
	if d >= 2 {
		time.Sleep(time.Duration(n) * time.Microsecond)
	}
}

func (w *sworld) clientName(id int64) string {
	for n, c := range w.creds {
		if c.id == id {
			return n
		}
	}
	return "?"
}

// handshake sends one handshake packet on c and returns the response the server wrote
func handshakeOn(sm *session.SessionManager, c *xconn, req *packet.HandshakeRequest) (*packet.HandshakeResponse, error) {
	body, _ := json.Marshal(req)
	_ = sm.HandlePacket(&coretypes.StreamPacket{ConnectionID: c.id, Packet: &packet.TransferPacket{PacketType: packet.Handshake, Payload: body}, Timestamp: time.Now()})
	var resp *packet.HandshakeResponse
	ok := waitFor(settleMax, func() bool {
		c.tr.mu.Lock()
		defer c.tr.mu.Unlock()
		for _, b := range c.tr.pkts {
			if packet.Type(b[0])&0x3F == packet.HandshakeResp {
				return true
			}
		}
		return false
	})
	if !ok {
		return nil, fmt.Errorf("no handshake response")
	}
	c.tr.mu.Lock()
	raw := append([][]byte(nil), c.tr.pkts...)
	c.tr.mu.Unlock()
	for i := len(raw) - 1; i >= 0; i-- {
		if packet.Type(raw[i][0])&0x3F == packet.HandshakeResp {
			p := decode(raw[i])
			if p == nil {
				return nil, fmt.Errorf("undecodable handshake response")
			}
			var r packet.HandshakeResponse
			if err := json.Unmarshal(p.Payload, &r); err != nil {
				return nil, err
			}
			resp = &r
			break
		}
	}
	return resp, nil
}

func decode(b []byte) *packet.TransferPacket {
	t := &xtrans{pkts: [][]byte{b}}
	out := t.take()
	if len(out) == 0 {
		return nil
	}
	return out[0]
}

// loginOn runs the client's two-phase handshake on a fresh connection of sm.
func loginOn(sm *session.SessionManager, c *xconn, cr *cred, kind string) error {
	ct := map[string]string{"ctl": "control", "tun": "tunnel"}[kind]
	req := func(resp string) *packet.HandshakeRequest {
		return &packet.HandshakeRequest{ClientID: cr.id, Version: "3.0", Protocol: "tcp", ConnectionType: ct, ChallengeResponse: resp}
	}
	r1, err := handshakeOn(sm, c, req(""))
	if err != nil {
		return err
	}
	if r1 == nil || r1.Challenge == "" {
		return fmt.Errorf("no challenge (%+v)", r1)
	}
	// forget the first response so that the second is found
	c.tr.mu.Lock()
	for i := range c.tr.pkts {
		if packet.Type(c.tr.pkts[i][0])&0x3F == packet.HandshakeResp {
			c.tr.pkts[i] = []byte{byte(packet.Heartbeat)}
		}
	}
	c.tr.mu.Unlock()
	r2, err := handshakeOn(sm, c, req(srvkit.HMAC(cr.secret, r1.Challenge)))
	if err != nil {
		return err
	}
	if r2 == nil || !r2.Success {
		return fmt.Errorf("handshake refused (%+v)", r2)
	}
	return nil
}

// login: model action Login(x, k). Events: Gone(replaced) for the connection the server is going to close, Login before,
// Conn after.
func (w *sworld) login(x, kind string) (*xconn, error) {
	w.mu.Lock()
	w.nconn++
	num := w.nconn
	old := 0
	if kind == "ctl" {
		old = w.cur[x]
	}
	w.mu.Unlock()
	tr := newXtrans(fmt.Sprintf("c%d", num))
	tr.onStart = func(t *xtrans) { w.s.Gate("write", map[string]any{"c": num}) }
	c := &xconn{num: num, tr: tr, client: x, kind: kind}
	if old != 0 {
		w.log(fw.Event{"ev": "Gone", "c": old, "how": "replaced"})
	}
	w.log(fw.Event{"ev": "Login", "c": num, "x": x, "k": kind})
	w.mu.Lock()
	w.conns[num] = c
	w.mu.Unlock()
	cr := w.creds[x]
	switch w.variant {
	case "session":
		sc, err := w.srv.SM.AcceptConnection(tr, tr)
		if err != nil {
			return nil, err
		}
		c.id = sc.ID
		if err := loginOn(w.srv.SM, c, cr, kind); err != nil {
			return nil, err
		}
	case "subpkg":
		c.id = fmt.Sprintf("sub-%d", num)
		c.sp = stream.NewDefaultStreamFactory(bgCtx).CreateStreamProcessor(tr, tr)
		cc := connection.NewControlConnection(c.id, c.sp, tr.RemoteAddr(), "tcp")
		if err := w.sub.Register(cc); err != nil {
			return nil, err
		}
		if kind == "ctl" {
			if o := w.sub.GetByClientID(cr.id); o != nil && o.ConnID != c.id {
				w.sub.Remove(o.ConnID)
			}
			if err := w.sub.UpdateAuth(c.id, cr.id, ""); err != nil {
				return nil, err
			}
		} else {
			// what the auth handler does to the connection object of a tunnel-type handshake
			cc.ClientID, cc.Authenticated = cr.id, true
		}
	}
	w.mu.Lock()
	if kind == "ctl" {
		w.cur[x] = num
	}
	w.mu.Unlock()
	w.log(fw.Event{"ev": "Conn", "c": num})
	if old != 0 {
		w.log(fw.Event{"ev": "GoneRet", "c": old})
	}
	return c, nil
}

func (w *sworld) drop(num int) {
	w.mu.Lock()
	c := w.conns[num]
	if c != nil && w.cur[c.client] == num {
		w.cur[c.client] = 0
	}
	w.mu.Unlock()
	if c == nil {
		return
	}
	w.log(fw.Event{"ev": "Gone", "c": num, "how": "drop"})
	switch w.variant {
	case "session":
		_ = w.srv.SM.CloseConnection(c.id)
	case "subpkg":
		w.sub.Remove(c.id)
	}
	c.tr.Close()
	w.log(fw.Event{"ev": "GoneRet", "c": num})
}

func (w *sworld) toTunnel(num int) bool {
	w.mu.Lock()
	c := w.conns[num]
	w.mu.Unlock()
	if c == nil || w.variant != "session" {
		return false
	}
	w.log(fw.Event{"ev": "Gone", "c": num, "how": "totun"})
	w.srv.SM.GetClientRegistry().Unregister(c.id)
	return true
}

// scan logs the NotifyClient commands that appeared on any connection since the last scan.
func (w *sworld) scan() {
	w.scanMu.Lock()
	defer w.scanMu.Unlock()
	w.mu.Lock()
	nums := make([]int, 0, len(w.conns))
	for n := range w.conns {
		nums = append(nums, n)
	}
	w.mu.Unlock()
	sort.Ints(nums)
	for _, n := range nums {
		w.mu.Lock()
		c := w.conns[n]
		w.mu.Unlock()
		for _, p := range c.tr.take() {
			if p.PacketType&0x3F == packet.CommandResp && p.CommandPacket != nil && strings.HasPrefix(p.CommandPacket.CommandId, "n") {
				// ResponseManager.SendResponse (scene resp): the response carries the command id it answers
				w.log(fw.Event{"ev": "Wire", "c": n, "id": w.serialOf(p.CommandPacket.CommandId)})
				continue
			}
			if p.PacketType&0x3F != packet.JsonCommand || p.CommandPacket == nil || p.CommandPacket.CommandType != packet.NotifyClient {
				continue
			}
			var nf packet.ClientNotification
			if err := json.Unmarshal([]byte(p.CommandPacket.CommandBody), &nf); err != nil {
				w.log(fw.Event{"ev": "Wire", "c": n, "id": 0})
				continue
			}
			w.log(fw.Event{"ev": "Wire", "c": n, "id": w.serialOf(nf.NotifyID)})
		}
	}
}

func (w *sworld) serialOf(nid string) int {
	if strings.HasPrefix(nid, "n") {
		if v, err := strconv.Atoi(nid[1:]); err == nil {
			return v
		}
	}
	w.mu.Lock()
	defer w.mu.Unlock()
	if v, ok := w.alias[nid]; ok {
		return v
	}
	if w.pending != 0 {
		w.alias[nid] = w.pending
		return w.pending
	}
	return 0
}

func notif(id int) *packet.ClientNotification {
	body, _ := json.Marshal(&packet.SystemMessagePayload{Title: "t", Message: fmt.Sprintf("m%d", id), Level: "info"})
	n := packet.NewNotification(packet.NotifyTypeSystemMessage, string(body))
	n.NotifyID = fmt.Sprintf("n%d", id)
	return n
}

// send runs SendToClient(x) as a goroutine body; the packet is looked for BEFORE the return is logged.
func (w *sworld) send(id int, x string, how func(cid int64) error) any {
	var err error
	func() {
		defer func() {
			if r := recover(); r != nil {
				w.panicEv("send", r)
				err = fmt.Errorf("panic")
			}
		}()
		err = how(w.creds[x].id)
	}()
	w.scan()
	w.log(fw.Event{"ev": "SRet", "id": id, "r": errClass(err)})
	return errClass(err)
}

func (w *sworld) broadcast(id int) any {
	ok, fail := -1, -1
	func() {
		defer func() {
			if r := recover(); r != nil {
				w.panicEv("bcast", r)
			}
		}()
		ok, fail = w.ns.BroadcastToAll(notif(id))
	}()
	w.scan()
	w.log(fw.Event{"ev": "BRet", "id": id, "ok": ok, "fail": fail})
	return ok
}

// waitProc waits until scheduler process name is parked or done; it returns "parked", "done" or "running".
func (b *base) waitProc(name string, d time.Duration) string {
	got := "running"
	waitFor(d, func() bool {
		st, _ := b.s.State(name)
		switch st {
		case sched.Done:
			got = "done"
			return true
		case sched.Parked:
			got = "parked"
			return true
		}
		return false
	})
	return got
}

// driveSend replays one behaviour of Part "send".
func driveSend(env *fw.Env, b *behaviour) *fw.Trace {
	w, err := newSendWorld(b.Variant, false, 1)
	if err != nil {
		return &fw.Trace{Status: fw.DriverError, Note: err.Error()}
	}
	defer w.destroy()
	w.s.Watchdog = time.Millisecond
	status, note := fw.Realised, ""
	procOf := map[int]string{} // model sender -> scheduler process of its current call
	holder := map[int]string{} // model connection -> process parked while holding its write lock
	conns := map[int]int{}     // model connection number -> driver connection number
	diverge := func(f string, a ...any) {
		if status == fw.Realised {
			status, note = fw.Diverged, fmt.Sprintf(f, a...)
		}
	}
	settle := func(name string, wantPark bool) string {
		// a process that has to wait for a write lock a parked process holds cannot park: do not wait long for it
		st := w.waitProc(name, settleMax/60)
		if st == "running" && wantPark {
			st = w.waitProc(name, settleMax)
		}
		return st
	}
	lockedBy := func(name string) int {
		_, at := w.s.State(name)
		if c, ok := at.Info["c"].(int); ok {
			return c
		}
		return 0
	}
loop:
	for i, st := range b.Steps {
		switch st.A {
		case "Login":
			c, err := w.login(st.X, st.K)
			if err != nil {
				return &fw.Trace{Status: fw.DriverError, Note: fmt.Sprintf("step %d login: %v", i, err)}
			}
			conns[st.C] = c.num
		case "Drop":
			w.drop(conns[st.C])
		case "ToTunnel":
			if !w.toTunnel(conns[st.C]) {
				status, note = fw.Unrealisable, "the sub-package registry has no Unregister"
				break loop
			}
		case "SLookup", "BSnap":
			name := fmt.Sprintf("s%d.%d", st.P, st.N)
			procOf[st.P] = name
			id, x := st.N, st.X
			if st.A == "SLookup" {
				w.log(fw.Event{"ev": "SCall", "id": id, "x": x})
				w.s.Start(name, func() any {
					return w.send(id, x, func(cid int64) error { return w.ns.SendToClient(cid, notif(id)) })
				})
			} else {
				w.log(fw.Event{"ev": "BCall", "id": id})
				w.s.Start(name, func() any { return w.broadcast(id) })
			}
			// expected: parked at its first write, returned, or waiting for a lock a parked process holds
			blocked := false
			for _, h := range holder {
				if h != "" {
					blocked = true
				}
			}
			if got := settle(name, !blocked); got == "parked" {
				holder[lockedBy(name)] = name
			}
		case "SBegin", "BBegin":
			name := procOf[st.P]
			got := settle(name, false)
			if got == "parked" {
				holder[lockedBy(name)] = name
				if st.R == "neterr" {
					// the model's sender found the stream closed when it took the lock; the real one took the lock earlier
					// (nothing separates look-up and lock) and fails at its write: same result, one step later
					c := lockedBy(name)
					w.mu.Lock()
					closed := w.conns[c] != nil && w.conns[c].tr.isClosed()
					w.mu.Unlock()
					if closed {
						holder[c] = ""
						w.s.Step(name)
						if g := settle(name, st.A == "SBegin"); g == "parked" {
							holder[lockedBy(name)] = name
						}
					}
				}
			}
		case "SEnd", "BEnd":
			name := procOf[st.P]
			if got := settle(name, true); got != "parked" {
				diverge("step %d %s: %s is %s, not at its write", i, st.A, name, got)
				break loop
			}
			c := lockedBy(name)
			holder[c] = ""
			w.s.Step(name)
			got := settle(name, st.A == "SEnd")
			if st.A == "SEnd" && got != "done" {
				diverge("step %d SEnd: %s did not return", i, name)
				break loop
			}
			if got == "parked" {
				holder[lockedBy(name)] = name
			}
			// whoever waited for that lock is at its own write now
			for _, other := range procOf {
				if other != name {
					if g := settle(other, false); g == "parked" {
						holder[lockedBy(other)] = other
					}
				}
			}
		case "BDone":
			name := procOf[st.P]
			got := settle(name, true)
			for n := 0; got == "parked" && n < 8; n++ {
				// writes the model had fail at the lock (connection closed meanwhile) fail at the write here
				holder[lockedBy(name)] = ""
				w.s.Step(name)
				got = settle(name, true)
			}
			if got != "done" {
				diverge("step %d BDone: %s is %s", i, name, got)
				break loop
			}
		default:
			return &fw.Trace{Status: fw.DriverError, Note: "unknown step " + st.A}
		}
		w.scan()
	}
	if !w.s.Drain(finalMax) {
		return &fw.Trace{Status: fw.Inconclusive, Note: "a sender did not return within the margin"}
	}
	w.scan()
	return &fw.Trace{Status: status, Note: note, Events: w.snapshot()}
}
