// X07 (extension): server-to-client notifications and their acknowledgements.
//
//	server  internal/protocol/session/notification_service.go, session/notification/{service.go,response.go},
//	        manager_notify.go, config_push_broadcast.go
//	client  internal/client/notify/handler.go, command_handler.go (handleNotification, sendNotificationAck),
//	        target_notification_handler.go, target_tunnel_manager.go, tunnel/manager.go, tunnel_notify.go
//
// Model: spec/Notify.tla (Notify_mc.cfg / Notify_gen.cfg templates, Notify_show_*.cfg); judge: spec/NotifyTrace.tla.
// The driver replays every generated behaviour on the REAL code:
//   - send world (send.go): the real NotificationService over the real client registry (srvkit assembly, real
//     handshakes; and the sub-package copies), senders and broadcasters parked at the first Write of their packet
//     (inside the stream's write lock), Login / Drop / ToTunnel in between;
//   - client world (client.go): a real TunnoxClient over an in-memory socket to a fake server that speaks the real
//     stream protocol; the client's own read loop runs handleNotification -> Dispatcher.Dispatch -> the built-in
//     TargetNotificationHandler / a real DefaultTunnelManager with real Tunnels / the driver's own notify.Handler
//     values (parked inside their callbacks), user goroutines add and remove handlers, target-side tunnel
//     goroutines use the TargetTunnelManager the way handleTCPTargetTunnel does;
//   - push world (push.go): two srvkit nodes over one store, the real NotifyClientUpdate / BroadcastConfigPush /
//     processConfigPushBroadcasts, a bridge-manager double (scheduled runs) or the real BridgeAdapter over the real
//     memory broker (free-running scenes);
//   - scripted end-to-end scenes (extra.go): real server and real client relayed packet by packet, the C2C
//     tunnel-closed notification, ResponseManager.SendResponse, a stuck connection, the real target-tunnel handler
//     fed the same TunnelOpenRequest twice.
//
// Without patch X07-0 (yield point configpush.write) the order of the cross-node writer goroutines cannot be forced:
// schedules that need it are skipped (reduced coverage, printed at start); free-running scenes still run.
package main

import (
	"encoding/json"
	"fmt"
	"os"
	"strings"
	"time"

	corelog "tunnox-core/internal/core/log"
	"tunnox-core/verifharness/fw"
)

var hooksOn bool

func job(name, cfg string, c map[string]string) fw.TLCJob {
	consts := map[string]string{"PART": `"send"`, "DEVS": "{}", "NS": "2", "MAXCONN": "3", "MAXSEND": "2", "MAXBCAST": "0",
		"NH": "2", "MAXNOTIF": "2", "MAXADD": "2", "NG": "2", "FLAGS": `{"ack"}`, "NP": "1", "MAXPUSH": "3", "MAXMOVE": "2", "MAXCHANGE": "2",
		"SPEC": "Spec", "PROPS": "", "INVS": "", "MINLEN": "0"}
	for k, v := range c {
		consts[k] = v
	}
	return fw.TLCJob{Name: name, Module: "Notify", Cfg: cfg, Consts: consts, Workers: 4, Timeout: 15 * time.Minute}
}

func with(ms ...map[string]string) map[string]string {
	out := map[string]string{}
	for _, m := range ms {
		for k, v := range m {
			out[k] = v
		}
	}
	return out
}

const (
	invSendFixed   = "OnlyTarget AtMostOnce CleanFail Counted LockOwned NoDeviation"
	invSendAsIs    = "OnlyTargetOrDev AtMostOnce CleanFail Counted LockOwned"
	invClientFixed = "NoCallAfterRemove OncePerHandler AckExact NoExpired EndsNamed OnlyNamed CloseOnce Registered NoDeviation"
	invClientAsIs  = "OncePerHandler AckExact NoExpired EndsNamedOrDev OnlyNamed CloseOnce Registered"
	invPushFixed   = "PushOnce PushOrder PushTarget PushDelivered NoDeviation"
	invPushAsIs    = "PushOnce PushOrderOrDev PushTarget PushDelivered"
	devSend        = `{"TunnelInBroadcast"}`
	devClient      = `{"SnapshotCall", "StaleUnregister"}`
	devPush        = `{"PushReorder"}`
)

var (
	pSend   = map[string]string{"PART": `"send"`}
	pClient = map[string]string{"PART": `"client"`}
	pPush   = map[string]string{"PART": `"push"`}
)

func main() {
	corelog.SetDefault(captureLog)
	setup()
	fmt.Printf("[x07] yield point configpush.write present: %v", hooksOn)
	if !hooksOn {
		fmt.Printf("  (patch X07-0 absent: the order of cross-node writer goroutines is not scheduled - reduced coverage)")
	}
	fmt.Println()
	fw.Main(&fw.Property{
		ID:        "X07",
		DesignRef: "DESIGN.md §12 extensions: X07 server-to-client notifications",
		ModelJobs: func(env *fw.Env) []fw.TLCJob {
			if env.Tier == "quick" {
				// one JVM round and a half: small bounds (the thorough tier has the large ones)
				return []fw.TLCJob{
					job("mc:send:fixed", "Notify_mc.cfg", with(pSend, map[string]string{"MAXCONN": "2", "MAXSEND": "1", "MAXBCAST": "1", "INVS": invSendFixed})),
					job("mc:send:asis", "Notify_mc.cfg", with(pSend, map[string]string{"DEVS": devSend, "NS": "1", "MAXCONN": "2", "MAXSEND": "1", "MAXBCAST": "1", "INVS": invSendAsIs})),
					job("mc:client:fixed", "Notify_mc.cfg", with(pClient, map[string]string{"FLAGS": `{"ack", "exp", "bad", "unknown"}`, "MAXNOTIF": "1", "INVS": invClientFixed})),
					job("mc:client:asis", "Notify_mc.cfg", with(pClient, map[string]string{"DEVS": devClient, "FLAGS": `{"ack", "listen"}`, "MAXNOTIF": "1", "INVS": invClientAsIs})),
					job("mc:push:fixed", "Notify_mc.cfg", with(pPush, map[string]string{"INVS": invPushFixed})),
					job("mc:push:asis", "Notify_mc.cfg", with(pPush, map[string]string{"DEVS": devPush, "MAXMOVE": "1", "INVS": invPushAsIs})),
					job("live:push", "Notify_mc.cfg", with(pPush, map[string]string{"DEVS": devPush, "NP": "2", "MAXPUSH": "2", "MAXMOVE": "1", "MAXCHANGE": "1", "SPEC": "LiveSpec", "PROPS": "PROPERTIES PushDrains PushersReturn"})),
				}
			}
			return []fw.TLCJob{
				job("mc:send:fixed", "Notify_mc.cfg", with(pSend, map[string]string{"MAXSEND": "1", "MAXBCAST": "1", "INVS": invSendFixed})),
				job("mc:send:unicast", "Notify_mc.cfg", with(pSend, map[string]string{"NS": "3", "MAXSEND": "3", "MAXCONN": "2", "INVS": invSendFixed})),
				job("mc:send:asis", "Notify_mc.cfg", with(pSend, map[string]string{"DEVS": devSend, "MAXSEND": "1", "MAXBCAST": "1", "INVS": invSendAsIs})),
				job("mc:client:fixed", "Notify_mc.cfg", with(pClient, map[string]string{"FLAGS": `{"ack", "exp", "bad", "unknown"}`, "INVS": invClientFixed})),
				job("mc:client:listen", "Notify_mc.cfg", with(pClient, map[string]string{"FLAGS": `{"listen", "unknown", "error"}`, "NH": "1", "MAXADD": "1", "INVS": invClientFixed})),
				job("mc:client:asis", "Notify_mc.cfg", with(pClient, map[string]string{"DEVS": devClient, "FLAGS": `{"ack"}`, "MAXADD": "3", "INVS": invClientAsIs})),
				job("mc:push:fixed", "Notify_mc.cfg", with(pPush, map[string]string{"NP": "1", "MAXPUSH": "4", "INVS": invPushFixed})),
				job("mc:push:conc", "Notify_mc.cfg", with(pPush, map[string]string{"NP": "2", "INVS": invPushFixed})),
				job("mc:push:asis", "Notify_mc.cfg", with(pPush, map[string]string{"DEVS": devPush, "NP": "2", "MAXMOVE": "1", "INVS": invPushAsIs})),
				job("live:send", "Notify_mc.cfg", with(pSend, map[string]string{"DEVS": devSend, "MAXCONN": "2", "MAXSEND": "1", "MAXBCAST": "1", "SPEC": "LiveSpec", "PROPS": "PROPERTIES SendReturns"})),
				job("live:client", "Notify_mc.cfg", with(pClient, map[string]string{"DEVS": devClient, "MAXNOTIF": "1", "MAXADD": "3", "SPEC": "LiveSpec", "PROPS": "PROPERTIES ReaderFree"})),
				job("live:push", "Notify_mc.cfg", with(pPush, map[string]string{"DEVS": devPush, "NP": "2", "MAXPUSH": "2", "MAXMOVE": "1", "MAXCHANGE": "1", "SPEC": "LiveSpec", "PROPS": "PROPERTIES PushDrains PushersReturn"})),
			}
		},
		GenJobs: func(env *fw.Env) []fw.TLCJob {
			jobs := []fw.TLCJob{
				job("gen:send", "Notify_gen.cfg", with(pSend, map[string]string{"MAXCONN": "2", "MAXSEND": "2", "MINLEN": "6"})),
				job("legacy:send", "Notify_gen.cfg", with(pSend, map[string]string{"DEVS": devSend, "NS": "2", "MAXCONN": "2", "MAXSEND": "1", "MAXBCAST": "1", "MINLEN": "9"})),
				job("gen:client", "Notify_gen.cfg", with(pClient, map[string]string{"MAXNOTIF": "1", "MINLEN": "6"})),
				job("legacy:client", "Notify_gen.cfg", with(pClient, map[string]string{"DEVS": devClient, "MAXNOTIF": "1", "MINLEN": "6"})),
				job("gen:push", "Notify_gen.cfg", with(pPush, map[string]string{"MAXPUSH": "2", "MAXCHANGE": "1", "MINLEN": "6"})),
				job("legacy:push", "Notify_gen.cfg", with(pPush, map[string]string{"DEVS": devPush, "MAXPUSH": "2", "MAXCHANGE": "1", "MINLEN": "6"})),
			}
			sim := func(name string, c map[string]string, n string) fw.TLCJob {
				j := job(name, "Notify_gen.cfg", c)
				j.Simulate, j.Depth, j.Seed = "num="+n, 30, env.Seed
				return j
			}
			n := "40"
			if env.Tier == "thorough" {
				n = "200"
				jobs = append(jobs,
					job("gen:send:bcast", "Notify_gen.cfg", with(pSend, map[string]string{"NS": "1", "MAXCONN": "3", "MAXSEND": "0", "MAXBCAST": "1", "MINLEN": "5"})),
					job("gen:client:n2", "Notify_gen.cfg", with(pClient, map[string]string{"DEVS": devClient, "NG": "1", "MAXNOTIF": "2", "FLAGS": `{"ack", "exp", "bad"}`, "MINLEN": "8"})),
					job("gen:client:listen", "Notify_gen.cfg", with(pClient, map[string]string{"NH": "1", "MAXADD": "1", "MAXNOTIF": "2", "FLAGS": `{"listen", "unknown", "error"}`, "MINLEN": "7"})),
				)
			}
			jobs = append(jobs,
				sim("gen:send:sim", with(pSend, map[string]string{"DEVS": devSend, "NS": "3", "MAXCONN": "5", "MAXSEND": "4", "MAXBCAST": "2", "MINLEN": "14"}), n),
				sim("gen:client:sim", with(pClient, map[string]string{"DEVS": devClient, "NH": "3", "MAXADD": "5", "MAXNOTIF": "4", "NG": "4", "FLAGS": `{"ack", "exp", "bad", "listen", "unknown", "error"}`, "MINLEN": "14"}), n),
				sim("gen:push:sim", with(pPush, map[string]string{"DEVS": devPush, "NP": "2", "MAXPUSH": "5", "MAXMOVE": "3", "MAXCHANGE": "4", "MINLEN": "14"}), n),
			)
			for i := range jobs {
				jobs[i].Workers = 1 // with VIEW, which history reaches a state first depends on the worker interleaving
			}
			return jobs
		},
		Expand: func(env *fw.Env, src string, raw json.RawMessage) []json.RawMessage {
			var b behaviour
			if err := json.Unmarshal(raw, &b); err != nil {
				panic(err)
			}
			switch b.Part {
			case "send":
				var out []json.RawMessage
				for _, v := range []string{"session", "subpkg"} {
					if v == "subpkg" && hasStep(&b, "ToTunnel") {
						continue
					}
					b.Variant = v
					out = append(out, fw.MustJSON(b))
				}
				return out
			case "push":
				if !hooksOn && needsHook(&b) {
					return nil
				}
				b.Hooks = hooksOn
				return []json.RawMessage{fw.MustJSON(b)}
			}
			return []json.RawMessage{raw}
		},
		MaxBehSrc: func(env *fw.Env, src string) int {
			q := env.Tier == "quick"
			switch {
			case strings.HasSuffix(src, ":sim"):
				if q {
					return 20
				}
				return 200
			case q:
				return 75
			}
			return 700
		},
		ExtraBeh:    extraBehaviours,
		Drive:       drive,
		Parallel:    10,
		JudgeModule: "NotifyTrace",
		JudgeCfg:    "NotifyTrace.cfg",
		NonTrivial: func(t *fw.Trace) bool {
			for _, e := range t.Events {
				switch e["ev"] {
				case "Wire", "Cb", "PWire", "TDone":
					return true
				}
			}
			return false
		},
		Rule: "extension X07: every TLC-generated interleaving of senders / broadcasters with logins, drops and tunnel conversions, of the client's dispatch with handler registration and target-tunnel registration, and of config pushes with moves of the client and the nodes' subscription loops is forced on the real NotificationService, the real TunnoxClient read loop / Dispatcher / tunnel managers and the real NotifyClientUpdate / config-push broadcast code; scripted end-to-end scenes and free-running scenes add the code's own goroutines; the trace of calls, packets, callbacks and tunnel fates must satisfy NotifyTrace",
		Assumptions: []string{
			"a send racing a (re)connect or drop of its target may fail or reach the connection it looked up; only sends whose target kept one untouched control connection (or none) during the whole call are held to a result",
			"concurrent NotifyClientUpdate calls and pushes in flight while the client connects may arrive in any order; only pushes issued one after the other are held to their order",
			"the production server constructs neither NotificationService nor the SendNotifyToClient / NotifyClientAck handlers; they are driven as the library they are (srvkit Library wiring)",
			"target-side tunnel goroutines are played by the driver with the three lines handleTCPTargetTunnel uses (RegisterTunnel; defer cancel + UnregisterTunnel); one scripted scene runs the real handler",
		},
		TrustedBase: []string{"TLC", "harness/fw", "harness/sched", "harness/srvkit", "fake server + in-memory socket, fake transport and bridge-manager double in drivers/x07"},
		SelfTest:    selfTest,
	})
}

func hasStep(b *behaviour, a string) bool {
	for _, s := range b.Steps {
		if s.A == a {
			return true
		}
	}
	return false
}

func drive(env *fw.Env, beh fw.Behaviour) *fw.Trace {
	var b behaviour
	if err := json.Unmarshal(beh.Data, &b); err != nil {
		return &fw.Trace{Status: fw.DriverError, Note: err.Error()}
	}
	if b.Extra != "" {
		return driveExtra(env, &b)
	}
	switch b.Part {
	case "send":
		return driveSend(env, &b)
	case "client":
		return driveClient(env, &b)
	case "push":
		return drivePush(env, &b)
	}
	return &fw.Trace{Status: fw.DriverError, Note: "unknown part " + b.Part}
}

func init() {
	if os.Getenv("X07_NOHOOKS") != "" {
		noHooks = true
	}
}
