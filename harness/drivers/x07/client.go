package main

// Client world: a real TunnoxClient whose control connection is an in-memory socket to a fake server that speaks the
// real stream protocol.  The client's own read loop runs handleNotification -> Dispatcher.Dispatch -> handlers ->
// sendNotificationAck.  Handlers: the built-in TargetNotificationHandler (registered by NewClient) over the client's
// own TargetTunnelManager, a real tunnel.DefaultTunnelManager with real Tunnels over pipes (registered the way
// mapping_manager.go registers one), and the driver's notify.Handler values, which park the read loop inside their
// callbacks.

import (
	"context"
	"encoding/json"
	"errors"
	"fmt"
	"io"
	"math/rand"
	"net"
	"sync"
	"sync/atomic"
	"time"

	"tunnox-core/internal/client"
	"tunnox-core/internal/client/notify"
	"tunnox-core/internal/client/tunnel"
	"tunnox-core/internal/packet"
	"tunnox-core/internal/stream"
	"tunnox-core/verifharness/fw"
	"tunnox-core/verifharness/sched"
)

// ---------------------------------------------------------------------------------------------
// in-memory socket

type half struct {
	mu      sync.Mutex
	cond    *sync.Cond
	buf     []byte
	closed  bool
	waiting int
}

func newHalf() *half { h := &half{}; h.cond = sync.NewCond(&h.mu); return h }

func (h *half) write(p []byte) (int, error) {
	h.mu.Lock()
	defer h.mu.Unlock()
	if h.closed {
		return 0, net.ErrClosed
	}
	h.buf = append(h.buf, p...)
	h.cond.Broadcast()
	return len(p), nil
}

func (h *half) read(p []byte) (int, error) {
	h.mu.Lock()
	defer h.mu.Unlock()
	for len(h.buf) == 0 {
		if h.closed {
			return 0, io.EOF
		}
		h.waiting++
		h.cond.Wait()
		h.waiting--
	}
	n := copy(p, h.buf)
	h.buf = h.buf[n:]
	return n, nil
}

func (h *half) close() { h.mu.Lock(); h.closed = true; h.cond.Broadcast(); h.mu.Unlock() }

// idle: nothing to read and somebody is blocked waiting for more
func (h *half) idle() bool {
	h.mu.Lock()
	defer h.mu.Unlock()
	return len(h.buf) == 0 && h.waiting > 0
}

type memConn struct{ in, out *half }

func (c *memConn) Read(p []byte) (int, error)       { return c.in.read(p) }
func (c *memConn) Write(p []byte) (int, error)      { return c.out.write(p) }
func (c *memConn) Close() error                     { c.in.close(); c.out.close(); return nil }
func (c *memConn) LocalAddr() net.Addr              { return &net.TCPAddr{IP: net.IPv4(127, 0, 0, 1), Port: 1} }
func (c *memConn) RemoteAddr() net.Addr             { return &net.TCPAddr{IP: net.IPv4(127, 0, 0, 1), Port: 2} }
func (c *memConn) SetDeadline(time.Time) error      { return nil }
func (c *memConn) SetReadDeadline(time.Time) error  { return nil }
func (c *memConn) SetWriteDeadline(time.Time) error { return nil }

// ---------------------------------------------------------------------------------------------

type tgen struct {
	g      int
	tid    string
	ctx    context.Context
	cancel context.CancelFunc
	done   bool // TDone logged
	exited bool
}

type ltun struct {
	t      *tunnel.Tunnel
	farLoc net.Conn // far ends of the two pipes
	farTun net.Conn
}

type cworld struct {
	base
	tag      string
	addr     string
	cl       *client.TunnoxClient
	cli      *memConn
	srvEnd   *memConn
	sp       stream.PackageStreamer
	ttm      *client.TargetTunnelManager
	ltm      *tunnel.DefaultTunnelManager
	handlers map[int]*uhandler
	gens     map[int]*tgen
	ltuns    map[string]*ltun
	curN     atomic.Int32
	dials    atomic.Int32
	tunDial  func() (net.Conn, error) // scripted scenes: serve tunnel dials
	onCmd    func(p *packet.TransferPacket)
	free     bool
	rng      *rand.Rand
	rngMu    sync.Mutex
	seq      atomic.Int32
}

var (
	cworlds  sync.Map // address -> *cworld
	worldSeq atomic.Int64
)

// dialX07 is the transport's dial function: the first dial of a world is its control connection; later dials are
// tunnel connections (served only in scripted scenes).
func dialX07(ctx context.Context, address string) (net.Conn, error) {
	v, ok := cworlds.Load(address)
	if !ok {
		return nil, errors.New("x07: unknown world")
	}
	w := v.(*cworld)
	if w.dials.Add(1) > 1 {
		if w.tunDial != nil {
			return w.tunDial()
		}
		return nil, errors.New("x07: no second connection")
	}
	return w.cli, nil
}

func newClientWorld(free bool, seed int64, withListen bool) (*cworld, error) {
	w := &cworld{tag: "client", handlers: map[int]*uhandler{}, gens: map[int]*tgen{}, ltuns: map[string]*ltun{}, free: free,
		rng: rand.New(rand.NewSource(seed))}
	w.init(free)
	w.s.Watchdog = time.Millisecond
	w.s.Adopt = func(sched.GateInfo) string { return "rd" }
	if free {
		w.s.FreeDelay = func(string, sched.GateInfo) { w.jitter() }
	}
	w.addr = fmt.Sprintf("w%d", worldSeq.Add(1))
	c2s, s2c := newHalf(), newHalf()
	w.cli = &memConn{in: s2c, out: c2s}
	w.srvEnd = &memConn{in: c2s, out: s2c}
	cworlds.Store(w.addr, w)
	cc := &client.ClientConfig{}
	cc.Server.Address = w.addr
	cc.Server.Protocol = "x07"
	w.cl = client.NewClient(context.Background(), cc)
	w.ttm = *(field(w.cl, "targetTunnelManager").Addr().Interface().(**client.TargetTunnelManager))
	w.sp = stream.NewDefaultStreamFactory(context.Background()).CreateStreamProcessor(w.srvEnd, w.srvEnd)
	go w.serve()
	if err := w.cl.Connect(); err != nil {
		w.destroy()
		return nil, fmt.Errorf("connect: %w", err)
	}
	if !waitFor(settleMax, w.readIdle) {
		w.destroy()
		return nil, errors.New("read loop did not start")
	}
	if withListen {
		// mapping_manager.go: the mapping handler's TunnelManager is registered with the dispatcher
		w.ltm = tunnel.NewTunnelManager(w.cl.Ctx(), tunnel.TunnelRoleListen)
		w.cl.AddNotificationHandler(w.ltm)
	}
	w.log(fw.Event{"ev": "Cfg", "tag": w.tag})
	return w, nil
}

func (w *cworld) jitter() {
	w.rngMu.Lock()
	d, n := w.rng.Intn(4), w.rng.Intn(150)
	w.rngMu.Unlock()
	if d >= 2 {
		time.Sleep(time.Duration(n) * time.Microsecond)
	}
}

func (w *cworld) readIdle() bool   { return w.cli.in.idle() }
func (w *cworld) serverIdle() bool { return w.srvEnd.in.idle() }

// serve is the fake server: handshake, then it records acknowledgements (and hands other commands to onCmd).
func (w *cworld) serve() {
	defer func() { recover() }()
	for {
		pkt, _, err := w.sp.ReadPacket()
		if err != nil {
			return
		}
		if pkt == nil {
			continue
		}
		switch pkt.PacketType & 0x3F {
		case packet.Handshake:
			b, _ := json.Marshal(&packet.HandshakeResponse{Success: true})
			if _, err := w.sp.WritePacket(&packet.TransferPacket{PacketType: packet.HandshakeResp, Payload: b}, false, 0); err != nil {
				return
			}
		case packet.JsonCommand:
			if pkt.CommandPacket == nil {
				continue
			}
			if pkt.CommandPacket.CommandType == packet.NotifyClientAck {
				var a packet.NotifyAckRequest
				n := 0
				if json.Unmarshal([]byte(pkt.CommandPacket.CommandBody), &a) == nil {
					fmt.Sscanf(a.NotifyID, "n%d", &n)
				}
				w.log(fw.Event{"ev": "AckIn", "n": n})
				continue
			}
			if w.onCmd != nil {
				w.onCmd(pkt)
			}
		}
	}
}

func (w *cworld) destroy() {
	defer func() { recover() }()
	w.s.Drain(time.Millisecond)
	done := make(chan struct{})
	go func() { defer close(done); defer func() { recover() }(); w.cl.Close() }()
	select {
	case <-done:
	case <-time.After(5 * time.Second):
	}
	w.cli.Close()
	w.srvEnd.Close()
	for _, lt := range w.ltuns {
		lt.farLoc.Close()
		lt.farTun.Close()
	}
	cworlds.Delete(w.addr)
}

// ---- user handlers (driver doubles): every callback is an event and a gate -----------------------

type uhandler struct {
	w    *cworld
	name string
}

func (h *uhandler) cb(m, t string) {
	h.w.log(fw.Event{"ev": "Cb", "n": int(h.w.curN.Load()), "h": h.name, "m": m, "t": t})
	h.w.s.Gate("cb", map[string]any{"h": h.name})
}
func (h *uhandler) OnSystemMessage(title, message, level string)               { h.cb("sys", "") }
func (h *uhandler) OnQuotaWarning(quotaType string, p float64, message string) { h.cb("other", "") }
func (h *uhandler) OnMappingEvent(t packet.NotificationType, id, st, m string) { h.cb("other", "") }
func (h *uhandler) OnTunnelOpened(tunnelID, mappingID string, peerClientID int64) {
	h.cb("other", tunnelID)
}
func (h *uhandler) OnCustomNotification(s int64, a string, d map[string]string, raw string) {
	h.cb("other", "")
}
func (h *uhandler) OnGenericNotification(n *packet.ClientNotification) { h.cb("other", "") }
func (h *uhandler) OnTunnelClosed(tunnelID, mappingID, reason string, bytesSent, bytesRecv, durationMs int64) {
	h.cb("closed", tunnelID)
}
func (h *uhandler) OnTunnelError(tunnelID, mappingID, errorCode, errorMessage string, recoverable bool) {
	h.cb("error", tunnelID)
}

var _ notify.Handler = (*uhandler)(nil)

func (w *cworld) handler(h int) *uhandler {
	w.mu.Lock()
	defer w.mu.Unlock()
	if w.handlers[h] == nil {
		w.handlers[h] = &uhandler{w: w, name: fmt.Sprintf("h%d", h)}
	}
	return w.handlers[h]
}

func (w *cworld) add(h int) {
	u := w.handler(h)
	w.log(fw.Event{"ev": "AddCall", "h": u.name})
	w.cl.AddNotificationHandler(u)
	w.log(fw.Event{"ev": "AddRet", "h": u.name})
}

func (w *cworld) rem(h int) {
	u := w.handler(h)
	w.log(fw.Event{"ev": "RemCall", "h": u.name})
	w.cl.RemoveNotificationHandler(u)
	w.log(fw.Event{"ev": "RemRet", "h": u.name})
}

// ---- notifications ------------------------------------------------------------------------------

type nkind struct {
	ty, tid       string
	ack, exp, bad bool
}

func (w *cworld) notification(n int, k nkind) *packet.ClientNotification {
	var ty packet.NotificationType
	var payload any
	switch k.ty {
	case "sys":
		ty, payload = packet.NotifyTypeSystemMessage, &packet.SystemMessagePayload{Title: "t", Message: fmt.Sprintf("n%d", n), Level: "info"}
	case "closed":
		ty, payload = packet.NotifyTypeTunnelClosed, &packet.TunnelClosedPayload{TunnelID: k.tid, MappingID: "m1", Reason: "peer", ClosedAt: time.Now().UnixMilli()}
	case "error":
		ty, payload = packet.NotifyTypeTunnelError, &packet.TunnelErrorPayload{TunnelID: k.tid, MappingID: "m1", ErrorCode: "E", ErrorMessage: "fatal", Recoverable: false}
	default:
		ty, payload = packet.NotifyTypeVersionUpdate, map[string]string{"v": "1"}
	}
	body, _ := json.Marshal(payload)
	nf := packet.NewNotification(ty, string(body))
	nf.NotifyID = fmt.Sprintf("n%d", n)
	nf.RequireAck = k.ack
	if k.exp {
		nf.ExpireAt = time.Now().Add(-time.Second).UnixMilli()
	}
	if k.bad {
		nf.Payload = `{"tunnel_id": 7, not json`
	}
	return nf
}

// sendNotif logs Notif and writes the NotifyClient command to the client.
func (w *cworld) sendNotif(n int, k nkind) error {
	w.curN.Store(int32(n))
	w.log(fw.Event{"ev": "Notif", "n": n, "ty": k.ty, "t": k.tid, "ack": k.ack, "exp": k.exp, "bad": k.bad})
	return w.writeNotif(w.notification(n, k))
}

func (w *cworld) writeNotif(nf *packet.ClientNotification) error {
	body, _ := json.Marshal(nf)
	_, err := w.sp.WritePacket(&packet.TransferPacket{PacketType: packet.JsonCommand,
		CommandPacket: &packet.CommandPacket{CommandType: packet.NotifyClient, CommandBody: string(body)}}, true, 0)
	return err
}

// rdParked: the read loop sits inside a user handler's callback
func (w *cworld) rdParked() bool {
	st, _ := w.s.State("rd#1")
	return st == sched.Parked
}

// settleReader waits until the read loop is parked in a callback or back at its read (and the fake server has consumed
// what the client wrote); it returns "parked", "idle" or "running".
func (w *cworld) settleReader() string {
	got := "running"
	waitFor(settleMax, func() bool {
		if w.rdParked() {
			got = "parked"
			return true
		}
		if w.readIdle() && w.serverIdle() {
			got = "idle"
			return true
		}
		return false
	})
	return got
}

// poll logs the contexts that were cancelled since the last look.
func (w *cworld) poll() {
	w.mu.Lock()
	var done []int
	for g := 1; g <= len(w.gens); g++ {
		if t := w.gens[g]; t != nil && !t.done && t.ctx.Err() != nil {
			t.done = true
			done = append(done, g)
		}
	}
	w.mu.Unlock()
	for _, g := range done {
		w.log(fw.Event{"ev": "TDone", "g": g})
	}
}

func (w *cworld) handled(n int) {
	w.poll()
	w.log(fw.Event{"ev": "Handled", "n": n})
}

// ---- target-side tunnel goroutines: the three lines of handleTCPTargetTunnel -----------------------

func (w *cworld) treg(g int, tid string) {
	w.log(fw.Event{"ev": "TRegCall", "g": g, "t": tid})
	ctx, cancel := w.ttm.RegisterTunnel(tid, w.cl.Ctx())
	w.mu.Lock()
	w.gens[g] = &tgen{g: g, tid: tid, ctx: ctx, cancel: cancel}
	w.mu.Unlock()
	w.log(fw.Event{"ev": "TReg", "g": g, "t": tid})
}

func (w *cworld) texit(g int) {
	w.mu.Lock()
	t := w.gens[g]
	w.mu.Unlock()
	if t == nil || t.exited {
		return
	}
	t.exited = true
	w.log(fw.Event{"ev": "TExit", "g": g})
	// defer func() { tunnelCancel(); c.targetTunnelManager.UnregisterTunnel(tunnelID) }()
	t.cancel()
	w.unregister(t)
}

// ---- listen-side tunnels ---------------------------------------------------------------------------

func (w *cworld) lopen(tid string) error {
	l1, l2 := net.Pipe()
	t1, t2 := net.Pipe()
	tn := tunnel.NewTunnel(&tunnel.TunnelConfig{ID: tid, MappingID: "m1", Role: tunnel.TunnelRoleListen, Protocol: "tcp",
		LocalConn: l1, TunnelRWC: t1, Manager: w.ltm, IdleTimeout: time.Hour,
		OnClosed: func(reason tunnel.CloseReason, err error) {
			w.log(fw.Event{"ev": "LClosed", "t": tid, "why": reason.String()})
		}})
	if err := w.ltm.RegisterTunnel(tn); err != nil {
		return err
	}
	if err := tn.Start(); err != nil {
		return err
	}
	w.mu.Lock()
	w.ltuns[tid] = &ltun{t: tn, farLoc: l2, farTun: t2}
	w.mu.Unlock()
	w.log(fw.Event{"ev": "LOpen", "t": tid})
	return nil
}

func (w *cworld) lclosedCount(tid string) int {
	n := 0
	for _, e := range w.snapshot() {
		if e["ev"] == "LClosed" && e["t"] == tid {
			n++
		}
	}
	return n
}

// lself: the local side of the tunnel ends (the application closed its connection)
func (w *cworld) lself(tid string) bool {
	w.mu.Lock()
	lt := w.ltuns[tid]
	w.mu.Unlock()
	if lt == nil {
		return false
	}
	before := w.lclosedCount(tid)
	lt.farLoc.Close()
	lt.farTun.Close() // the copy ends when both directions have ended
	return waitFor(settleMax, func() bool { return w.lclosedCount(tid) > before })
}

// ---------------------------------------------------------------------------------------------

func kindOf(st step) nkind {
	k := nkind{ty: st.K, tid: st.T}
	for _, f := range st.F {
		switch f {
		case 'a':
			k.ack = true
		case 'e':
			k.exp = true
		case 'b':
			k.bad = true
		}
	}
	if k.ty == "sys" {
		k.tid = ""
	}
	return k
}

// driveClient replays one behaviour of Part "client".
func driveClient(env *fw.Env, b *behaviour) *fw.Trace {
	listen := hasStep(b, "LOpen")
	w, err := newClientWorld(false, 1, listen)
	if err != nil {
		return &fw.Trace{Status: fw.DriverError, Note: err.Error()}
	}
	defer w.destroy()
	status, note := fw.Realised, ""
	cur := 0 // notification being dispatched (0 = reader idle)
loop:
	for i, st := range b.Steps {
		switch st.A {
		case "Add":
			w.add(st.H)
		case "Rem":
			w.rem(st.H)
		case "TReg":
			w.treg(st.G, st.T)
		case "TExit":
			w.texit(st.G)
		case "LOpen":
			if err := w.lopen(st.T); err != nil {
				return &fw.Trace{Status: fw.DriverError, Note: fmt.Sprintf("step %d: %v", i, err)}
			}
		case "LSelf":
			if !w.lself(st.T) {
				status, note = fw.Inconclusive, "a listen tunnel did not end within the margin after its local side closed"
				break loop
			}
		case "Arrive":
			if err := w.sendNotif(st.N, kindOf(st)); err != nil {
				return &fw.Trace{Status: fw.DriverError, Note: fmt.Sprintf("step %d: %v", i, err)}
			}
			switch got := w.settleReader(); {
			case got == "running":
				status, note = fw.Inconclusive, "the read loop neither reached a callback nor its read within the margin"
				break loop
			case got == "idle":
				w.handled(st.N)
				if st.H != 0 {
					status, note = fw.Diverged, fmt.Sprintf("step %d: the model expects a callback of h%d", i, st.H)
				}
			default:
				cur = st.N
				if st.H == 0 {
					status, note = fw.Diverged, fmt.Sprintf("step %d: the model expects no callback", i)
				}
			}
		case "Call":
			if !w.rdParked() {
				if status == fw.Realised {
					status, note = fw.Diverged, fmt.Sprintf("step %d: the read loop is not inside a callback", i)
				}
				continue
			}
			w.s.Step("rd#1")
			switch got := w.settleReader(); {
			case got == "running":
				status, note = fw.Inconclusive, "the read loop neither reached a callback nor its read within the margin"
				break loop
			case got == "idle":
				w.handled(cur)
				cur = 0
				if st.H != 0 && status == fw.Realised {
					status, note = fw.Diverged, fmt.Sprintf("step %d: the model expects a callback of h%d", i, st.H)
				}
			default:
				if st.H == 0 && status == fw.Realised {
					status, note = fw.Diverged, fmt.Sprintf("step %d: the model expects the dispatch to end", i)
				}
			}
		default:
			return &fw.Trace{Status: fw.DriverError, Note: "unknown step " + st.A}
		}
		w.poll()
	}
	// let a dispatch that is still under way finish
	for n := 0; cur != 0 && n < 16; n++ {
		if w.rdParked() {
			w.s.Step("rd#1")
		}
		if w.settleReader() == "idle" {
			w.handled(cur)
			cur = 0
		}
	}
	if cur != 0 {
		return &fw.Trace{Status: fw.Inconclusive, Note: "the read loop did not finish its dispatch within the margin"}
	}
	w.poll()
	return &fw.Trace{Status: status, Note: note, Events: w.snapshot()}
}
