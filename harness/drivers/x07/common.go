package main

import (
	"bytes"
	"encoding/binary"
	"fmt"
	"io"
	"net"
	"reflect"
	"runtime"
	"strconv"
	"strings"
	"sync"
	"time"
	"unsafe"

	"tunnox-core/internal/packet"
	"tunnox-core/internal/stream"
	"tunnox-core/verifharness/fw"
	"tunnox-core/verifharness/sched"
)

const (
	settleMax = 3 * time.Second  // a goroutine that should reach a gate / return gets this long (>= 1000 x the usual)
	quietMax  = 2 * time.Second  // asynchronous deliveries (broker, writer goroutines) get this long
	finalMax  = 10 * time.Second // draining a world
)

func goid() int64 {
	var buf [64]byte
	n := runtime.Stack(buf[:], false)
	b := buf[len("goroutine "):n]
	i := bytes.IndexByte(b, ' ')
	id, _ := strconv.ParseInt(string(b[:i]), 10, 64)
	return id
}

// ---------------------------------------------------------------------------------------------
// behaviours (spec/Notify.tla, Log)

type step struct {
	A string `json:"a"`
	P int    `json:"p"`
	X string `json:"x"`
	C int    `json:"c"`
	K string `json:"k"`
	N int    `json:"n"`
	H int    `json:"h"`
	T string `json:"t"`
	G int    `json:"g"`
	V int    `json:"v"`
	R string `json:"r"`
	F string `json:"f"`
}

type behaviour struct {
	Part  string `json:"part"`
	Steps []step `json:"steps"`
	// driver-side
	Variant string `json:"variant,omitempty"` // send: "session" (session.NotificationService over the SessionManager's registry) | "subpkg"
	Extra   string `json:"extra,omitempty"`   // scripted / free-running scenario
	Seed    int64  `json:"seed,omitempty"`
	Rounds  int    `json:"rounds,omitempty"`
	Hooks   bool   `json:"hooks,omitempty"`
}

// ---------------------------------------------------------------------------------------------
// event log shared by the worlds

type evlog struct {
	mu     sync.Mutex
	events []fw.Event
}

type base struct {
	s    *sched.Sched
	mu   sync.Mutex // the world's own bookkeeping
	lg   *evlog     // one mutex-ordered log per trace (end-to-end scenes share it between worlds)
	mute bool
}

func (b *base) init(free bool) {
	b.s = sched.New(free)
	b.s.Watchdog = settleMax
	b.lg = &evlog{}
}

func (b *base) log(e fw.Event) {
	if b.mute {
		return
	}
	b.lg.mu.Lock()
	b.lg.events = append(b.lg.events, e)
	b.lg.mu.Unlock()
}

func (b *base) snapshot() []fw.Event {
	b.lg.mu.Lock()
	defer b.lg.mu.Unlock()
	return append([]fw.Event(nil), b.lg.events...)
}

func (b *base) panicEv(who string, r any) {
	msg := fmt.Sprint(r)
	if len(msg) > 120 {
		msg = msg[:120]
	}
	b.log(fw.Event{"ev": "Panic", "who": who, "msg": msg})
}

// waitFor polls cond until it holds or d passed.
func waitFor(d time.Duration, cond func() bool) bool {
	dl := time.Now().Add(d)
	for i := 0; ; i++ {
		if cond() {
			return true
		}
		if time.Now().After(dl) {
			return false
		}
		if i < 50 {
			runtime.Gosched()
		} else {
			time.Sleep(100 * time.Microsecond)
		}
	}
}

// ---------------------------------------------------------------------------------------------
// fake transport of the server worlds: the socket handed to SessionManager.AcceptConnection.
// Reads block until it is closed (packets are injected through HandlePacket); writes are framed
// (type byte, 4-byte size, body) and a hook runs at the FIRST Write of every packet - that is inside
// StreamProcessor.WritePacket right after the stream's write lock was taken.

type xtrans struct {
	name    string
	mu      sync.Mutex
	cond    *sync.Cond
	buf     []byte // bytes of the packet being written
	pkts    [][]byte
	taken   int
	closed  bool
	stuck   bool
	done    chan struct{}
	onStart func(t *xtrans) // first Write of a packet (outside the lock)
	writers int
}

func newXtrans(name string) *xtrans {
	t := &xtrans{name: name, done: make(chan struct{})}
	t.cond = sync.NewCond(&t.mu)
	return t
}

func (t *xtrans) Read(p []byte) (int, error) { <-t.done; return 0, io.EOF }

func (t *xtrans) Write(p []byte) (int, error) {
	t.mu.Lock()
	first := len(t.buf) == 0
	h := t.onStart
	t.mu.Unlock()
	if first && h != nil {
		h(t)
	}
	t.mu.Lock()
	defer t.mu.Unlock()
	for t.stuck && !t.closed {
		t.cond.Wait()
	}
	if t.closed {
		return 0, net.ErrClosed
	}
	t.buf = append(t.buf, p...)
	for len(t.buf) > 0 {
		n := 1
		if !packet.Type(t.buf[0]).IsHeartbeat() {
			if len(t.buf) < 5 {
				break
			}
			n = 5 + int(binary.BigEndian.Uint32(t.buf[1:5]))
			if len(t.buf) < n {
				break
			}
		}
		t.pkts = append(t.pkts, append([]byte(nil), t.buf[:n]...))
		t.buf = t.buf[n:]
	}
	return len(p), nil
}

func (t *xtrans) Close() error {
	t.mu.Lock()
	defer t.mu.Unlock()
	if !t.closed {
		t.closed = true
		close(t.done)
		t.cond.Broadcast()
	}
	return nil
}
func (t *xtrans) LocalAddr() net.Addr              { return &net.TCPAddr{IP: net.IPv4(127, 0, 0, 1), Port: 7000} }
func (t *xtrans) RemoteAddr() net.Addr             { return &net.TCPAddr{IP: net.IPv4(10, 7, 0, 1), Port: 40000} }
func (t *xtrans) SetDeadline(time.Time) error      { return nil }
func (t *xtrans) SetReadDeadline(time.Time) error  { return nil }
func (t *xtrans) SetWriteDeadline(time.Time) error { return nil }
func (t *xtrans) isClosed() bool                   { t.mu.Lock(); defer t.mu.Unlock(); return t.closed }
func (t *xtrans) setStuck(v bool)                  { t.mu.Lock(); t.stuck = v; t.cond.Broadcast(); t.mu.Unlock() }

// take returns the complete packets written since the last call, decoded with a real StreamProcessor.
func (t *xtrans) take() []*packet.TransferPacket {
	t.mu.Lock()
	raw := t.pkts[t.taken:]
	t.taken = len(t.pkts)
	t.mu.Unlock()
	var out []*packet.TransferPacket
	for _, b := range raw {
		sp := stream.NewStreamProcessor(bytes.NewReader(b), io.Discard, bgCtx)
		if p, _, err := sp.ReadPacket(); err == nil && p != nil {
			out = append(out, p)
		}
		sp.Close()
	}
	return out
}

// ---------------------------------------------------------------------------------------------
// reading unexported state (observation only)

func field(obj any, name string) reflect.Value {
	v := reflect.ValueOf(obj)
	for v.Kind() == reflect.Ptr || v.Kind() == reflect.Interface {
		v = v.Elem()
	}
	f := v.FieldByName(name)
	if !f.IsValid() {
		panic("x07: no field " + name + " in " + v.Type().String())
	}
	return reflect.NewAt(f.Type(), unsafe.Pointer(f.UnsafeAddr())).Elem()
}

func errClass(err error) string {
	if err == nil {
		return "ok"
	}
	m := err.Error()
	switch {
	case strings.Contains(m, "not found or offline"), strings.Contains(m, "connection") && strings.Contains(m, "not found"):
		return "offline"
	case strings.Contains(m, "failed to send notification"):
		return "neterr"
	}
	return "other"
}

func cloneTrace(t *fw.Trace, id int) *fw.Trace {
	n := &fw.Trace{Beh: t.Beh, Status: t.Status}
	for _, e := range t.Events {
		c := fw.Event{}
		for k, v := range e {
			c[k] = v
		}
		n.Events = append(n.Events, c)
	}
	n.Beh.ID = id
	return n
}
