package main

// World: one in-process server assembly (harness/srvkit: the real SessionManager) with one fake control connection
// per caller (each caller's mapping points to its own client, so that a caller parked inside its WritePacket does
// not hold another caller's stream lock), the real DomainProxyModule in two configurations (request timeout 1 h and
// 1 s), and the driver in the role of the tunnox client: it reads the commands off the control connection, answers
// HTTPProxyRequest commands (scheduled: canned responses; free-running: the REAL client executor against the real
// target) through SessionManager.HandlePacket, and answers TunnelOpenRequestCmd by handing a tunnel connection (a
// TCP connection to the target behind a real StreamProcessor) to NotifyHTTPTunnelEstablished - the call nothing in
// tunnox-core makes (deviation Unwired, see spec/HttpProxy.tla).

import (
	"bytes"
	"context"
	"encoding/json"
	"fmt"
	"io"
	"net"
	"net/http"
	"net/http/httptest"
	"reflect"
	"runtime"
	"strconv"
	"strings"
	"sync"
	"sync/atomic"
	"time"
	"unsafe"
	_ "unsafe" // go:linkname

	appserver "tunnox-core/internal/app/server"
	"tunnox-core/internal/client"
	"tunnox-core/internal/cloud/models"
	coretypes "tunnox-core/internal/core/types"
	"tunnox-core/internal/httpservice"
	"tunnox-core/internal/httpservice/modules/domainproxy"
	"tunnox-core/internal/packet"
	"tunnox-core/internal/protocol/httptypes"
	"tunnox-core/internal/protocol/session"
	"tunnox-core/internal/protocol/session/httpproxy"
	"tunnox-core/internal/stream"
	"tunnox-core/verifharness/fw"
	"tunnox-core/verifharness/sched"
	"tunnox-core/verifharness/srvkit"
)

//go:linkname getTunnelWaitManager tunnox-core/internal/protocol/session.getTunnelWaitManager
func getTunnelWaitManager() *session.TunnelWaitManager

const (
	baseDomain = "x06.test"
	threshold  = 64   // CommandModeThreshold
	maxResp    = 4096 // the client executor's MaxResponseSize

	gWireBefore = "wire.before" // the control connection's BeforeNextWrite
	gWireAfter  = "wire.after"  // its AfterNextPacket
	gReqFound   = "httpproxy.handle.found"
	gReqSel     = "httpproxy.wait.selected"
	gTunFound   = "httptunnel.notify.found"
	gTunSel     = "httptunnel.wait.selected"

	settleMax = 3 * time.Second  // a goroutine that should reach a gate / return gets this long (>= 1000 x the usual)
	finalMax  = 10 * time.Second // after everything was cancelled
)

func goid() int64 {
	var buf [64]byte
	n := runtime.Stack(buf[:], false)
	b := buf[len("goroutine "):n]
	i := bytes.IndexByte(b, ' ')
	id, _ := strconv.ParseInt(string(b[:i]), 10, 64)
	return id
}

// waitFor polls cond until it holds or d passed.
func waitFor(d time.Duration, cond func() bool) bool {
	dl := time.Now().Add(d)
	for i := 0; ; i++ {
		if cond() {
			return true
		}
		if time.Now().After(dl) {
			return false
		}
		if i < 50 {
			runtime.Gosched()
		} else {
			time.Sleep(100 * time.Microsecond)
		}
	}
}

func field(obj any, name string) reflect.Value {
	v := reflect.ValueOf(obj)
	for v.Kind() == reflect.Ptr || v.Kind() == reflect.Interface {
		v = v.Elem()
	}
	f := v.FieldByName(name)
	if !f.IsValid() {
		panic("x06: no field " + name + " in " + v.Type().String())
	}
	return reflect.NewAt(f.Type(), unsafe.Pointer(f.UnsafeAddr())).Elem()
}

// keys of the process-wide tables (observation only)
func tableKeys(obj any, mapField, muField string) map[string]bool {
	mu := field(obj, muField).Addr().Interface().(*sync.RWMutex)
	mu.RLock()
	defer mu.RUnlock()
	out := map[string]bool{}
	for _, k := range field(obj, mapField).MapKeys() {
		out[k.String()] = true
	}
	return out
}

func reqTable() map[string]bool { return tableKeys(httpproxy.GetGlobalManager(), "pendingRequests", "pendingMu") }
func tunTable() map[string]bool { return tableKeys(getTunnelWaitManager(), "pendingTunnels", "mu") }

// ---------------------------------------------------------------------------------------------

type cli struct {
	p      int
	conn   *srvkit.Conn
	id     int64
	domain string
	buf    []byte // bytes the server wrote that are not yet decoded
}

type callRec struct {
	c, p   int
	name   string
	tag    string
	path   string // small | large (what the driver asked for)
	took   string // path the code took (which command came out)
	fast   bool
	id     string
	done   bool
	st, n  int
	owed   bool          // a live response for it has been handled: it must return on its own
	hdone  chan struct{} // front: the module's handler returned
	forced atomic.Bool   // the driver had to close the target's connection to free the handler
}

type fakeTunnel struct {
	session.TunnelConnectionInterface // nil: any method the code calls beyond the ones below panics visibly
	n      int
	id     string
	tcp    net.Conn
	sp     *stream.StreamProcessor
	closed atomic.Bool
	byUs   atomic.Bool
	local  string
}

func (t *fakeTunnel) GetTunnelID() string              { return t.id }
func (t *fakeTunnel) GetConnectionID() string          { return fmt.Sprintf("x06-tun-%d", t.n) }
func (t *fakeTunnel) GetStream() stream.PackageStreamer { return t.sp }
func (t *fakeTunnel) GetNetConn() net.Conn             { return t.tcp }
func (t *fakeTunnel) IsClosed() bool                   { return t.closed.Load() }
func (t *fakeTunnel) Close() error {
	if t.closed.CompareAndSwap(false, true) {
		t.sp.Close()
		return t.tcp.Close()
	}
	return nil
}

type world struct {
	s    *sched.Sched
	seq  int64
	tag  string
	free bool
	srv  *srvkit.Server // the node the clients are connected to
	cl   []*cli
	// cross-node worlds: the node a request enters (no client of its own), the target node's listener, the origin's pool
	origin *srvkit.Server
	cross  *srvkit.CrossNode
	pool   *session.CrossNodePool
	mods map[bool]*domainproxy.DomainProxyModule // fast? -> module
	reg  *httpservice.DomainRegistry
	exec *client.HTTPProxyExecutor
	user *http.Client

	mu     sync.Mutex
	events []fw.Event
	calls  []*callRec
	cur    map[int]*callRec
	byTag  map[string]*callRec
	byReq  map[int]*callRec
	nresp  int
	respID map[int]string
	respK  map[int]string
	dead   bool // Cancel or Offline was logged: nothing is owed any more
	tuns   []*fakeTunnel
	told   map[int]string
	ids    map[string]bool
	note   string

	stop    chan struct{}
	stopped atomic.Bool
	bg      sync.WaitGroup // the client loop's answer goroutines
	overrun atomic.Bool    // a settle time ran out while the machine itself was stalling: nothing is judged
	gmu     sync.Mutex
	gids    []int64
	// free-running client: what to do with the command of a request tag
	onProxy  func(c *callRec, cl *cli, cmd *packet.CommandPacket, req *httptypes.HTTPProxyRequest)
	onTunnel func(c *callRec, cl *cli, req *httptypes.HTTPTunnelRequest)
}

var (
	wseq     atomic.Int64
	gidWorld sync.Map // goroutine id -> *world
)

func newWorld(tag string, free bool, nclients int, seed int64) (*world, error) {
	return newWorldX(tag, free, nclients, seed, false)
}

func newWorldX(tag string, free bool, nclients int, seed int64, xnode bool) (*world, error) {
	w := &world{tag: tag, free: free, cur: map[int]*callRec{}, byTag: map[string]*callRec{}, byReq: map[int]*callRec{},
		respID: map[int]string{}, respK: map[int]string{}, told: map[int]string{}, ids: map[string]bool{}, stop: make(chan struct{}),
		mods: map[bool]*domainproxy.DomainProxyModule{}}
	w.seq = wseq.Add(1)
	w.s = sched.New(free)
	w.s.Watchdog = time.Millisecond // the driver polls for itself: a caller blocked in its select is at no gate
	var err error
	opt := srvkit.Options{HeartbeatTimeout: time.Hour, CleanupInterval: time.Hour, KeepLogs: true, NoConnState: !xnode}
	if xnode {
		opt.NodeID = "node-b"
	}
	if w.srv, err = srvkit.NewServer(opt); err != nil {
		return nil, err
	}
	if xnode {
		// two nodes over ONE store (the target node's) and loopback TCP: CrossNodePool -> CrossNodeListener
		if w.cross, err = w.srv.EnableCrossNode(); err != nil {
			w.srv.Close()
			return nil, err
		}
		opt.NodeID, opt.NoConnState = "node-a", true
		if w.origin, err = srvkit.NewServer(opt); err != nil {
			w.cross.Close()
			w.srv.Close()
			return nil, err
		}
		w.origin.SM.SetConnectionStateStore(session.NewConnectionStateStore(w.srv.Storage, "node-a", 5*time.Minute))
		pc := session.DefaultCrossNodePoolConfig()
		pc.MinConns, pc.MaxConns, pc.DialTimeout = 0, 4, 2*time.Second
		w.pool = session.NewCrossNodePool(w.origin.Ctx, w.srv.Storage, "node-a", pc)
		w.origin.SM.SetCrossNodePool(w.pool)
	}
	w.reg = httpservice.NewDomainRegistry([]string{baseDomain})
	for p := 1; p <= nclients; p++ {
		c, err := w.srv.NewConn(fmt.Sprintf("10.6.%d.%d", w.seq%200, p))
		if err != nil {
			w.destroy()
			return nil, err
		}
		id, _, _, err := c.FirstConnect("control")
		if err != nil || id == 0 {
			w.destroy()
			return nil, fmt.Errorf("provisioning client %d failed: %v", p, err)
		}
		c.TakeRaw()
		k := &cli{p: p, conn: c, id: id, domain: fmt.Sprintf("w%dp%d.%s", w.seq, p, baseDomain)}
		w.cl = append(w.cl, k)
		m := &models.PortMapping{ID: fmt.Sprintf("x06-map-%d-%d", w.seq, p), Protocol: models.ProtocolHTTP, Status: models.MappingStatusActive,
			HTTPSubdomain: fmt.Sprintf("w%dp%d", w.seq, p), HTTPBaseDomain: baseDomain,
			TargetClientID: id, TargetHost: tgt.host, TargetPort: tgt.port}
		if err := w.reg.Register(m); err != nil {
			w.destroy()
			return nil, err
		}
	}
	for _, fast := range []bool{false, true} {
		to := time.Hour
		if fast {
			to = time.Second
		}
		m := domainproxy.NewDomainProxyModule(w.srv.Ctx, &httpservice.DomainProxyModuleConfig{Enabled: true, BaseDomains: []string{baseDomain},
			DefaultScheme: "http", CommandModeThreshold: threshold, RequestTimeout: to})
		m.SetDependencies(&httpservice.ModuleDependencies{SessionMgr: appserver.NewSessionManagerAdapter(w.srv.SM), DomainRegistry: w.reg})
		w.mods[fast] = m
	}
	w.exec = client.NewHTTPProxyExecutor(&client.HTTPProxyConfig{Enabled: true, DefaultTimeout: 20, MaxResponseSize: maxResp})
	w.user = newUserClient()
	for _, k := range w.cl {
		frontSrv.hosts.Store(k.domain, http.HandlerFunc(w.serveFront))
	}
	w.log(fw.Event{"ev": "Cfg", "tag": tag})
	return w, nil
}

func (w *world) bind() {
	id := goid()
	gidWorld.Store(id, w)
	w.gmu.Lock()
	w.gids = append(w.gids, id)
	w.gmu.Unlock()
}

func (w *world) destroy() {
	defer func() { recover() }()
	if w.stopped.CompareAndSwap(false, true) {
		close(w.stop)
	}
	w.s.Drain(time.Millisecond)
	for _, k := range w.cl {
		frontSrv.hosts.Delete(k.domain)
	}
	w.mu.Lock()
	var tags []string
	for _, c := range w.calls {
		tags = append(tags, c.tag)
	}
	tuns := append([]*fakeTunnel(nil), w.tuns...)
	w.mu.Unlock()
	for _, t := range tuns {
		if !t.closed.Load() {
			t.byUs.Store(true)
			t.Close()
		}
	}
	tgt.forget(tags...)
	if hc, ok := field(w.exec, "httpClient").Interface().(*http.Client); ok && hc != nil {
		if tr, ok := hc.Transport.(*http.Transport); ok {
			tr.CloseIdleConnections()
		}
	}
	if tr, ok := w.user.Transport.(*http.Transport); ok {
		tr.CloseIdleConnections()
	}
	if w.pool != nil {
		w.pool.Close()
	}
	if w.cross != nil {
		w.cross.Close()
	}
	if w.origin != nil {
		w.origin.Close()
	}
	w.srv.Close()
	w.gmu.Lock()
	for _, id := range w.gids {
		gidWorld.Delete(id)
	}
	w.gmu.Unlock()
}

func (w *world) log(e fw.Event) {
	w.mu.Lock()
	if e["ev"] == "Cancel" || e["ev"] == "Offline" {
		w.dead = true
	}
	w.events = append(w.events, e)
	w.mu.Unlock()
}

func (w *world) snapshot() []fw.Event {
	w.mu.Lock()
	defer w.mu.Unlock()
	return append([]fw.Event(nil), w.events...)
}

// loadOK measures what a goroutine hand-off plus a loopback HTTP exchange with the target cost right now.  The settle
// times are >= 1000 x the usual; when one runs out although the code is not at fault this is how it shows.
func loadOK() bool {
	t0 := time.Now()
	ch := make(chan struct{})
	go func() { close(ch) }()
	<-ch
	if resp, err := pingClient.Get(fmt.Sprintf("http://%s:%d/ping", tgt.host, tgt.port)); err == nil {
		io.Copy(io.Discard, resp.Body)
		resp.Body.Close()
	}
	return time.Since(t0) < 300*time.Millisecond
}

var pingClient = &http.Client{Timeout: 5 * time.Second, Transport: &http.Transport{DisableKeepAlives: true}}

// stuck records that request c did not return within its settle time - unless the machine is stalling.
func (w *world) stuck(c *callRec) {
	if !loadOK() {
		w.overrun.Store(true)
	}
	w.log(fw.Event{"ev": "Stuck", "c": c.c})
}

// result is the trace of this world.
func (w *world) result(status string) *fw.Trace {
	if w.overrun.Load() {
		return &fw.Trace{Status: fw.Inconclusive, Note: "a settle time ran out while the machine was stalling (timing margin overrun)"}
	}
	return &fw.Trace{Status: status, Note: w.note, Events: w.snapshot()}
}

// hook is the handler of the yield points for goroutines of this world.
func (w *world) hook(name string) { w.s.Gate(name, nil) }

// ---------------------------------------------------------------------------------------------
// calls

func (w *world) newCall(p int, path string, fast bool) *callRec {
	w.mu.Lock()
	defer w.mu.Unlock()
	c := &callRec{c: len(w.calls) + 1, p: p, path: path, fast: fast, hdone: make(chan struct{})}
	c.name = fmt.Sprintf("p%d.%d", p, c.c)
	c.tag = fmt.Sprintf("w%dc%d", w.seq, c.c)
	w.calls = append(w.calls, c)
	w.cur[p] = c
	w.byTag[c.tag] = c
	w.events = append(w.events, fw.Event{"ev": "Call", "c": c.c, "p": p})
	if fast {
		// its one-second timer may fire from now on: nothing is owed to it
		w.events = append(w.events, fw.Event{"ev": "Expire", "c": c.c})
	}
	return c
}

func (w *world) ret(c *callRec, st, n int) {
	w.mu.Lock()
	c.done, c.st, c.n = true, st, n
	w.events = append(w.events, fw.Event{"ev": "Ret", "c": c.c, "st": st, "n": n})
	w.mu.Unlock()
}

func (w *world) inflight() []*callRec {
	w.mu.Lock()
	defer w.mu.Unlock()
	var out []*callRec
	for _, c := range w.calls {
		if !c.done {
			out = append(out, c)
		}
	}
	return out
}

func (w *world) isDone(c *callRec) bool {
	w.mu.Lock()
	defer w.mu.Unlock()
	return c.done
}

// answerFrom finds the response / tunnel connection an HTTP answer was made from.
func (w *world) answerFrom(h http.Header, body []byte) int {
	if v := h.Get("X-T-N"); v != "" {
		n, _ := strconv.Atoi(v)
		return n
	}
	if i := bytes.Index(body, []byte("E;n=")); i >= 0 { // http.Error(w, resp.Error, 502)
		n, _ := strconv.Atoi(strings.TrimSpace(strings.SplitN(string(body[i+4:]), ";", 2)[0]))
		return n
	}
	if v := h.Get("X-T-Via"); v != "" {
		w.mu.Lock()
		defer w.mu.Unlock()
		for _, t := range w.tuns {
			if t.local == v {
				return t.n
			}
		}
	}
	return 0
}

// request body of a call made on the driver's own goroutine (scheduled behaviours)
func directBody(c *callRec) []byte {
	if c.path == "large" {
		return pattern(c.tag, "q", 200)
	}
	return pattern(c.tag, "q", 20)
}

// doDirect runs the module's ServeHTTP for call c on the calling goroutine (a scheduler process).
func (w *world) doDirect(c *callRec) (res any) {
	w.bind()
	rec := httptest.NewRecorder()
	defer func() {
		if r := recover(); r != nil {
			w.log(fw.Event{"ev": "Panic", "c": c.c, "msg": fmt.Sprint(r)})
			w.ret(c, 0, 0)
			res = "panic"
		}
	}()
	k := w.cl[c.p-1]
	req := httptest.NewRequest(http.MethodPost, "http://"+k.domain+"/p/"+c.tag+"?q=1", bytes.NewReader(directBody(c)))
	req.RemoteAddr = fmt.Sprintf("192.0.2.%d:5555", c.p)
	w.mods[c.fast].ServeHTTP(rec, req)
	w.ret(c, rec.Code, w.answerFrom(rec.Header(), rec.Body.Bytes()))
	return "ret"
}

// serveFront is the handler the process-wide front server runs for this world's domains.
func (w *world) serveFront(rw http.ResponseWriter, r *http.Request) {
	w.bind()
	tag := strings.TrimPrefix(r.URL.Path, "/p/")
	w.mu.Lock()
	c := w.byTag[tag]
	w.mu.Unlock()
	fast := false
	if c != nil {
		fast = c.fast
		defer close(c.hdone)
		defer func() {
			if p := recover(); p != nil {
				w.log(fw.Event{"ev": "Panic", "c": c.c, "msg": fmt.Sprint(p)})
				panic(http.ErrAbortHandler) // net/http aborts the exchange, as it would for the original panic
			}
		}()
	}
	w.mods[fast].ServeHTTP(rw, r)
}

// ---------------------------------------------------------------------------------------------
// the control connection as the client sees it

// poll decodes the complete packets the server wrote to k since the last call.
func (w *world) poll(k *cli) []*packet.TransferPacket {
	k.buf = append(k.buf, k.conn.TakeRaw()...)
	if len(k.buf) == 0 {
		return nil
	}
	var out []*packet.TransferPacket
	sp := stream.NewStreamProcessor(bytes.NewReader(k.buf), io.Discard, w.srv.Ctx)
	defer sp.Close()
	used := 0
	for used < len(k.buf) {
		p, n, err := sp.ReadPacket()
		if err != nil || p == nil {
			break
		}
		out = append(out, p)
		used += n
	}
	k.buf = k.buf[used:]
	return out
}

// peek decodes every complete packet on k's wire without consuming anything (scheduled worlds: a packet is written
// with several Write calls and the transport's AfterNextPacket hook counts from an offset).
func (w *world) peek(k *cli) []*packet.TransferPacket {
	b := k.conn.T.Peek()
	var out []*packet.TransferPacket
	if len(b) == 0 {
		return nil
	}
	sp := stream.NewStreamProcessor(bytes.NewReader(b), io.Discard, w.srv.Ctx)
	defer sp.Close()
	for {
		p, _, err := sp.ReadPacket()
		if err != nil || p == nil {
			return out
		}
		out = append(out, p)
	}
}

// command finds the proxy / tunnel command of call c on its client's wire: its id and the path the code took.
func (w *world) command(c *callRec) (id, took string) {
	for _, p := range w.peek(w.cl[c.p-1]) {
		if p.CommandPacket == nil || !p.PacketType.IsJsonCommand() {
			continue
		}
		switch p.CommandPacket.CommandType {
		case packet.HTTPProxyRequest:
			var r httptypes.HTTPProxyRequest
			if json.Unmarshal([]byte(p.CommandPacket.CommandBody), &r) == nil && strings.Contains(r.URL, "/p/"+c.tag+"?") {
				return r.RequestID, "small"
			}
		case packet.TunnelOpenRequestCmd:
			var r httptypes.HTTPTunnelRequest
			if json.Unmarshal([]byte(p.CommandPacket.CommandBody), &r) == nil && strings.Contains(r.TargetURL, "/p/"+c.tag+"?") {
				return r.TunnelID, "large"
			}
		}
	}
	return "", ""
}

// sentBy waits until the command of call c is on the wire, learns its id and logs Sent.
func (w *world) sentBy(c *callRec) bool {
	if c.id != "" {
		return true
	}
	var id, took string
	if !waitFor(settleMax, func() bool { id, took = w.command(c); return id != "" }) {
		return false
	}
	w.noteSent(c, id, took)
	return true
}

func (w *world) noteSent(c *callRec, id, took string) {
	w.mu.Lock()
	if c.id == "" {
		c.id, c.took = id, took
		w.ids[id] = true
		w.events = append(w.events, fw.Event{"ev": "Sent", "c": c.c, "id": id})
	}
	w.mu.Unlock()
}

func (w *world) registered(id string) bool { return reqTable()[id] || tunTable()[id] }

// pending counts the entries of this world's requests in the two process-wide tables.
func (w *world) pending() int {
	rt, tt := reqTable(), tunTable()
	w.mu.Lock()
	defer w.mu.Unlock()
	n := 0
	for id := range w.ids {
		if rt[id] || tt[id] {
			n++
		}
	}
	return n
}

// ---------------------------------------------------------------------------------------------
// responses and tunnel connections (the client's side)

func (w *world) newResp(id, kind string) int {
	w.mu.Lock()
	defer w.mu.Unlock()
	w.nresp++
	w.respID[w.nresp] = id
	w.respK[w.nresp] = kind
	if w.dead {
		w.respK[w.nresp] = "dead"
	}
	w.events = append(w.events, fw.Event{"ev": "Resp", "n": w.nresp, "id": id, "k": kind})
	return w.nresp
}

func (w *world) handled(n int, told string) {
	w.mu.Lock()
	w.told[n] = told
	if k := w.respK[n]; (k == "ok" || k == "relay" || k == "err" || k == "noid") && told != "no" {
		for _, c := range w.calls {
			if c.id != "" && c.id == w.respID[n] && !c.done && !c.fast {
				c.owed = true
			}
		}
	}
	w.events = append(w.events, fw.Event{"ev": "Handled", "n": n, "told": told})
	w.mu.Unlock()
}

// canned builds the HTTPProxyResponse packet number n of the given kind for request id.
func canned(n int, id, kind string) *packet.TransferPacket {
	resp := &httptypes.HTTPProxyResponse{RequestID: id, StatusCode: 200, Headers: map[string]string{"X-T-N": strconv.Itoa(n), "Content-Type": "text/plain"},
		Body: []byte(fmt.Sprintf("n=%d;", n))}
	switch kind {
	case "err":
		resp = &httptypes.HTTPProxyResponse{RequestID: id, Error: fmt.Sprintf("E;n=%d;", n)}
	case "noid":
		resp.RequestID = ""
	case "st0":
		resp.StatusCode = 0
	}
	body, _ := json.Marshal(resp)
	if kind == "bad" {
		body = []byte(`{"request_id": "` + id + `", "status_code": "not a number`)
	}
	return &packet.TransferPacket{PacketType: packet.CommandResp,
		CommandPacket: &packet.CommandPacket{CommandType: packet.HTTPProxyResponse, CommandId: id, CommandBody: string(body)}}
}

// deliverPkt is what the read loop of control connection k does with a packet of the client.
func (w *world) deliverPkt(k *cli, p *packet.TransferPacket) {
	defer func() {
		if r := recover(); r != nil {
			w.log(fw.Event{"ev": "Panic", "c": 0, "msg": fmt.Sprint("reader: ", r)})
		}
	}()
	w.srv.SM.HandlePacket(&coretypes.StreamPacket{ConnectionID: k.conn.ID, Timestamp: time.Now(), Packet: p})
}

// newTunnel dials the target and wraps the connection as the tunnel connection number n for id.
func (w *world) newTunnel(n int, id string) (*fakeTunnel, error) {
	tcp, err := net.DialTimeout("tcp", fmt.Sprintf("%s:%d", tgt.host, tgt.port), 5*time.Second)
	if err != nil {
		return nil, err
	}
	t := &fakeTunnel{n: n, id: id, tcp: tcp, local: tcp.LocalAddr().String()}
	t.sp = stream.NewStreamProcessor(tcp, tcp, context.Background())
	w.mu.Lock()
	w.tuns = append(w.tuns, t)
	w.mu.Unlock()
	return t, nil
}

var tunIface = reflect.TypeOf((*session.TunnelConnectionInterface)(nil)).Elem()

// notify is the call nothing in tunnox-core makes: the packet handler handing an arrived tunnel connection over.
// It reports what Notify said: yes | no (repaired API) | void (as found: nothing).
func (w *world) notify(id string, t *fakeTunnel) (told string) {
	defer func() {
		if r := recover(); r != nil {
			w.log(fw.Event{"ev": "Panic", "c": 0, "msg": fmt.Sprint("notify: ", r)})
			told = "void"
		}
	}()
	m := reflect.ValueOf(w.srv.SM).MethodByName("NotifyHTTPTunnelEstablished")
	arg := reflect.New(tunIface).Elem()
	arg.Set(reflect.ValueOf(t))
	out := m.Call([]reflect.Value{reflect.ValueOf(id), arg})
	if len(out) == 1 && out[0].Kind() == reflect.Bool {
		if out[0].Bool() {
			return "yes"
		}
		return "no"
	}
	return "void"
}

// offer is one complete arrival of tunnel connection n for id: Resp, Notify, Handled; a refused connection is closed
// by the notifier (us).
func (w *world) offer(id, kind string) int {
	n := w.newResp(id, kind)
	t, err := w.newTunnel(n, id)
	if err != nil {
		w.handled(n, "void")
		return n
	}
	told := w.notify(id, t)
	if told == "no" {
		t.byUs.Store(true)
		t.Close()
	}
	w.handled(n, told)
	return n
}

// connStates is the end-of-trace account of every tunnel connection: used | closed | kept | open.
func (w *world) connStates() [][]any {
	w.mu.Lock()
	defer w.mu.Unlock()
	out := [][]any{}
	for _, t := range w.tuns {
		st := "open"
		switch {
		case t.byUs.Load():
			st = "kept"
		case t.closed.Load():
			st = "closed"
			for _, c := range w.calls {
				if c.done && c.n == t.n {
					st = "used"
				}
			}
		}
		out = append(out, []any{t.n, st})
	}
	return out
}

// ---------------------------------------------------------------------------------------------
// free-running client (data behaviours, scripted scenarios, stress)

func (w *world) runClient(k *cli) {
	for {
		select {
		case <-w.stop:
			return
		default:
		}
		pkts := w.poll(k)
		for _, p := range pkts {
			cp := p.CommandPacket
			if cp == nil || !p.PacketType.IsJsonCommand() {
				continue
			}
			switch cp.CommandType {
			case packet.HTTPProxyRequest:
				var r httptypes.HTTPProxyRequest
				if json.Unmarshal([]byte(cp.CommandBody), &r) != nil {
					continue
				}
				c := w.callOfURL(r.URL)
				if c == nil {
					continue
				}
				w.noteSent(c, r.RequestID, "small")
				if w.onProxy != nil {
					w.bg.Add(1)
					go func() { defer w.bg.Done(); w.onProxy(c, k, cp, &r) }()
				}
			case packet.TunnelOpenRequestCmd:
				var r httptypes.HTTPTunnelRequest
				if json.Unmarshal([]byte(cp.CommandBody), &r) != nil {
					continue
				}
				c := w.callOfURL(r.TargetURL)
				if c == nil {
					continue
				}
				w.noteSent(c, r.TunnelID, "large")
				if w.onTunnel != nil {
					w.bg.Add(1)
					go func() { defer w.bg.Done(); w.onTunnel(c, k, &r) }()
				}
			}
		}
		if len(pkts) == 0 {
			time.Sleep(300 * time.Microsecond)
		}
	}
}

func (w *world) callOfURL(u string) *callRec {
	i := strings.Index(u, "/p/")
	if i < 0 {
		return nil
	}
	tag := u[i+3:]
	if j := strings.IndexAny(tag, "?#"); j >= 0 {
		tag = tag[:j]
	}
	w.mu.Lock()
	defer w.mu.Unlock()
	return w.byTag[tag]
}

// execute is the client's handleHTTPProxyRequest: the REAL executor, then the response packet as
// sendHTTPProxyResponse builds it (command id = the command's id).  The driver adds X-T-N so that the caller's answer
// can be traced to this response.
func (w *world) execute(k *cli, cp *packet.CommandPacket, r *httptypes.HTTPProxyRequest, times int) {
	resp, err := w.exec.Execute(r)
	if err != nil {
		resp = &httptypes.HTTPProxyResponse{RequestID: cp.CommandId, Error: err.Error()}
	}
	for i := 0; i < times; i++ {
		kind := "relay" // the target's own status travels in it
		if resp.Error != "" {
			kind = "err"
		}
		n := w.newResp(r.RequestID, kind)
		cpy := *resp
		if resp.Error != "" {
			cpy.Error = fmt.Sprintf("E;n=%d; %s", n, resp.Error)
		} else {
			cpy.Headers = map[string]string{"X-T-N": strconv.Itoa(n)}
			for h, v := range resp.Headers {
				cpy.Headers[h] = v
			}
		}
		body, _ := json.Marshal(&cpy)
		w.deliverPkt(k, &packet.TransferPacket{PacketType: packet.CommandResp,
			CommandPacket: &packet.CommandPacket{CommandType: packet.HTTPProxyResponse, CommandId: cp.CommandId, CommandBody: string(body)}})
		w.handled(n, "")
	}
}

// ---------------------------------------------------------------------------------------------
// end of a trace

// owedInflight: requests that have not returned although a live response for them has been handled.
func (w *world) owedInflight() []*callRec {
	w.mu.Lock()
	defer w.mu.Unlock()
	var out []*callRec
	for _, c := range w.calls {
		if !c.done && c.owed {
			out = append(out, c)
		}
	}
	return out
}

// finish lets everything run out (cancelling what is left), and records Obs / Final.
func (w *world) finish(cancel bool) {
	w.s.Drain(time.Millisecond)
	// the client loop's answers in flight (a second tunnel connection still being dialled ...) belong to the trace
	bgDone := make(chan struct{})
	go func() { w.bg.Wait(); close(bgDone) }()
	select {
	case <-bgDone:
	case <-time.After(settleMax):
	}
	// a request that is owed its answer must return on its own; the others wait legitimately (nothing was sent to them)
	if !waitFor(settleMax, func() bool { return len(w.owedInflight()) == 0 }) {
		for _, c := range w.owedInflight() {
			w.stuck(c)
		}
	}
	if len(w.inflight()) == 0 {
		// every handler has returned: its deferred unregister ran before the answer was complete.  Across nodes the
		// entry belongs to the target node's forwarder, which may still be on its way out: a leak is an entry that STAYS
		if w.origin != nil {
			waitFor(settleMax, func() bool { return w.pending() == 0 })
		}
		w.log(fw.Event{"ev": "Obs", "pending": w.pending(), "q": true})
	}
	if len(w.inflight()) != 0 || cancel {
		w.mu.Lock()
		dead := w.dead
		w.mu.Unlock()
		if !dead || len(w.inflight()) != 0 {
			w.log(fw.Event{"ev": "Cancel"})
		}
		w.srv.Close()
		for _, c := range w.inflight() {
			tgt.drop(c.tag)
		}
		waitFor(finalMax, func() bool { return len(w.inflight()) == 0 })
	}
	open := []int{}
	for _, c := range w.inflight() {
		open = append(open, c.c)
	}
	// a connection handed over late is closed by whoever took it "soon": give the code a moment
	waitFor(300*time.Millisecond, func() bool {
		for _, x := range w.connStates() {
			if x[1] == "open" {
				return false
			}
		}
		return true
	})
	w.log(fw.Event{"ev": "Final", "pending": w.pending(), "open": open, "conns": w.connStates()})
}
