// X06 (extension): the HTTP domain proxy's request path.
//
//	server  internal/httpservice/modules/domainproxy (handler.go, request_small.go, request_large.go, tunnel_http.go,
//	        utils.go), internal/protocol/session/http_proxy.go, internal/protocol/session/httpproxy/{manager,tunnel_wait}.go,
//	        internal/protocol/session/command_integration.go (handleHTTPProxyResponsePacket)
//	client  internal/client/http_proxy_executor.go (the REAL executor answers the proxy commands in data behaviours,
//	        scripted scenarios and stress)
//
// Models: spec/HttpProxy.tla (pending tables: Variant "req" = small requests, "tun" = tunnel wait of large requests;
// HttpProxy_mc.cfg / HttpProxy_gen.cfg templates, HttpProxy_show_*.cfg) and spec/HttpProxyData.tla (what the target
// receives / the caller gets back on both paths; HttpProxyData_mc.cfg / _gen.cfg, HttpProxyData_show_*.cfg).
// Judge: spec/HttpProxyTrace.tla.
//
// The driver replays every generated behaviour on the REAL code (world.go): an srvkit server assembly, one fake
// control connection per caller, the real DomainProxyModule behind a real net/http server, a real target server;
// the driver plays the tunnox client.  Seams: the control connection's BeforeNextWrite / AfterNextPacket and the
// four yield points of patch X06-0.  Without the patch only behaviours that need no seam between a select and its
// unregister / a look-up and its send are scheduled (reduced coverage, printed at start); data behaviours, scripted
// scenarios and stress run regardless.
package main

import (
	"context"
	"encoding/json"
	"fmt"
	"io"
	"log"
	"os"
	"strings"
	"sync"
	"sync/atomic"
	"time"

	corelog "tunnox-core/internal/core/log"
	"tunnox-core/internal/verifhook"
	"tunnox-core/verifharness/fw"
)

var (
	hooksReq  bool // httpproxy.handle.found + httpproxy.wait.selected present
	hooksTun  bool // httptunnel.notify.found (or an atomic Notify) + httptunnel.wait.selected present
	tgt       *target
	frontSrv  *front
	probing   atomic.Bool
	probeSeen sync.Map
)

type nopLog struct{}

func (nopLog) Debug(args ...interface{})                                   {}
func (nopLog) Info(args ...interface{})                                    {}
func (nopLog) Warn(args ...interface{})                                    {}
func (nopLog) Error(args ...interface{})                                   {}
func (nopLog) Debugf(format string, args ...interface{})                   {}
func (nopLog) Infof(format string, args ...interface{})                    {}
func (nopLog) Warnf(format string, args ...interface{})                    {}
func (nopLog) Errorf(format string, args ...interface{})                   {}
func (l nopLog) WithField(key string, value interface{}) corelog.Logger    { return l }
func (l nopLog) WithFields(fields map[string]interface{}) corelog.Logger   { return l }
func (l nopLog) WithError(err error) corelog.Logger                        { return l }
func (l nopLog) WithContext(ctx context.Context) corelog.Logger            { return l }

func hookHandler(name string, _ any) {
	if probing.Load() {
		probeSeen.Store(name, true)
		return
	}
	switch name {
	case gReqFound, gReqSel, gTunFound, gTunSel:
		if v, ok := gidWorld.Load(goid()); ok {
			v.(*world).hook(name)
		}
	}
}

// probe runs one small and one large request free-running and notes which yield points were crossed.
func probe() {
	probing.Store(true)
	verifhook.Set(hookHandler)
	for _, name := range []string{"ok", "tun-ok"} {
		t := driveScript(&fw.Env{Tier: "quick", Seed: 1}, &behaviour{Extra: name, Seed: 1})
		ok := false
		for _, e := range t.Events {
			if e["ev"] == "Ret" && e["st"] == 200 {
				ok = true
			}
		}
		if !ok {
			fmt.Printf("INCONCLUSIVE: probe scenario %q did not end with a 200 answer: the world / fake client is broken (%s)\n", name, t.Note)
			if os.Getenv("VERIF_DEBUG") != "" {
				for _, e := range t.Events {
					fmt.Printf("  %v\n", e)
				}
			}
			os.Exit(2)
		}
	}
	probing.Store(false)
	has := func(n string) bool { _, ok := probeSeen.Load(n); return ok }
	hooksReq = has(gReqFound) && has(gReqSel)
	hooksTun = has(gTunSel)
	if os.Getenv("X06_NOHOOKS") != "" {
		// development switch: behave as if patch X06-0 were absent
		hooksReq, hooksTun = false, false
		verifhook.Set(nil)
	}
}

func job(module, name, cfg string, c map[string]string) fw.TLCJob {
	consts := map[string]string{"VARIANT": `"req"`, "NW": "2", "NR": "2", "MAXREQ": "2", "MAXMSG": "3", "MAXEXP": "2", "MAXCANCEL": "1", "MAXOFF": "1",
		"KINDS": `{"ok", "bad"}`, "UNKNOWN": "TRUE", "REGFIRST": "TRUE", "ATOMIC": "TRUE", "TOLD": "TRUE", "WIRED": "TRUE", "SPEC": "Spec", "PROPS": "",
		"INVS": "OneOutcome RightWaiter AtMostOnce NoLoss NoLeak BufOwned NoOrphan Settled NoDeviation"}
	if module == "HttpProxyData" {
		consts = map[string]string{}
	}
	for k, v := range c {
		consts[k] = v
	}
	return fw.TLCJob{Name: name, Module: module, Cfg: cfg, Consts: consts, Workers: 4, Timeout: 15 * time.Minute}
}

func with(a map[string]string, kv ...string) map[string]string {
	m := map[string]string{}
	for k, v := range a {
		m[k] = v
	}
	for i := 0; i+1 < len(kv); i += 2 {
		m[kv[i]] = kv[i+1]
	}
	return m
}

const (
	fixAll     = `{"ChunkedSmall", "Truncated", "MultiReq", "MultiResp", "RedirectFollowed", "RespTruncated", "ChunkedRaw", "StuckKeepAlive"}`
	fixPatched = `{"Truncated", "RedirectFollowed", "RespTruncated", "ChunkedRaw", "StuckKeepAlive"}`
	invsReqAs  = "OneOutcome RightWaiter AtMostOnce NoLossOrDev NoLeak BufOwned"
	invsTunAs  = "OneOutcome RightWaiter AtMostOnce NoLoss NoLeak BufOwned NoOrphanOrDev SettledOrDev"
	invsTunUn  = "OneOutcome RightWaiter AtMostOnce NoLossOrDev NoLeak BufOwned NoOrphanOrDev SettledOrDev"
)

var tunC = map[string]string{"VARIANT": `"tun"`, "KINDS": `{"ok"}`}

func main() {
	corelog.SetDefault(nopLog{})
	log.SetOutput(io.Discard)
	var err error
	if tgt, err = newTarget(); err != nil {
		fmt.Printf("INCONCLUSIVE: target server: %v\n", err)
		os.Exit(2)
	}
	if frontSrv, err = newFront(); err != nil {
		fmt.Printf("INCONCLUSIVE: front server: %v\n", err)
		os.Exit(2)
	}
	probe()
	fmt.Printf("[x06] yield points present: pending requests=%v tunnel wait=%v", hooksReq, hooksTun)
	if !hooksReq || !hooksTun {
		fmt.Printf("  (patch X06-0 absent: only behaviours that need no seam there are scheduled - reduced coverage)")
	}
	fmt.Println()
	fw.Main(&fw.Property{
		ID:        "X06",
		DesignRef: "DESIGN.md §12 extensions: X06 HTTP domain proxy request path",
		ModelJobs: func(env *fw.Env) []fw.TLCJob {
			live := map[string]string{"SPEC": "LiveSpec", "INVS": "", "PROPS": "PROPERTIES Returns ReaderFree", "NR": "1", "MAXMSG": "2", "UNKNOWN": "FALSE"}
			jobs := []fw.TLCJob{
				job("HttpProxy", "mc:req:fixed", "HttpProxy_mc.cfg", nil),
				job("HttpProxy", "mc:req:asis", "HttpProxy_mc.cfg", map[string]string{"REGFIRST": "FALSE", "INVS": invsReqAs}),
				job("HttpProxy", "mc:tun:fixed", "HttpProxy_mc.cfg", tunC),
				job("HttpProxy", "mc:tun:asis", "HttpProxy_mc.cfg", with(tunC, "ATOMIC", "FALSE", "TOLD", "FALSE", "INVS", invsTunAs)),
				job("HttpProxy", "mc:tun:unwired", "HttpProxy_mc.cfg", with(tunC, "ATOMIC", "FALSE", "TOLD", "FALSE", "WIRED", "FALSE", "INVS", invsTunUn)),
				job("HttpProxy", "live:req", "HttpProxy_mc.cfg", live),
				job("HttpProxy", "live:tun", "HttpProxy_mc.cfg", with(live, "VARIANT", `"tun"`, "KINDS", `{"ok"}`)),
				job("HttpProxyData", "data:fixed", "HttpProxyData_mc.cfg", map[string]string{"FIX": fixAll, "INVS": "SameRequest SameResponse AllFixedClean"}),
				job("HttpProxyData", "data:patched", "HttpProxyData_mc.cfg", map[string]string{"FIX": fixPatched, "INVS": "SameRequestOrOpen SameResponseOrOpen"}),
				job("HttpProxyData", "data:asis", "HttpProxyData_mc.cfg", map[string]string{"FIX": "{}", "INVS": ""}),
			}
			if env.Tier == "thorough" {
				big := map[string]string{"NW": "3", "MAXREQ": "3", "MAXMSG": "3", "NR": "2"}
				jobs = append(jobs,
					job("HttpProxy", "mc:req:fixed:n3", "HttpProxy_mc.cfg", big),
					job("HttpProxy", "mc:req:asis:n3", "HttpProxy_mc.cfg", with(big, "REGFIRST", "FALSE", "INVS", invsReqAs)),
					job("HttpProxy", "mc:tun:fixed:n3", "HttpProxy_mc.cfg", with(big, "VARIANT", `"tun"`, "KINDS", `{"ok"}`)),
					job("HttpProxy", "mc:tun:asis:n3", "HttpProxy_mc.cfg", with(big, "VARIANT", `"tun"`, "KINDS", `{"ok"}`, "ATOMIC", "FALSE", "TOLD", "FALSE", "INVS", invsTunAs)),
					job("HttpProxy", "live:req:asis", "HttpProxy_mc.cfg", with(live, "REGFIRST", "FALSE")),
					job("HttpProxy", "live:tun:asis", "HttpProxy_mc.cfg", with(live, "VARIANT", `"tun"`, "KINDS", `{"ok"}`, "ATOMIC", "FALSE", "TOLD", "FALSE")),
				)
			}
			return jobs
		},
		GenJobs: func(env *fw.Env) []fw.TLCJob {
			g := map[string]string{"MAXMSG": "2", "MAXEXP": "1"}
			gt := with(tunC, "MAXMSG", "3", "MAXEXP", "0")
			jobs := []fw.TLCJob{
				job("HttpProxy", "gen:req", "HttpProxy_gen.cfg", g),
				job("HttpProxy", "legacy:req", "HttpProxy_gen.cfg", with(g, "REGFIRST", "FALSE", "NR", "1", "MAXCANCEL", "0", "MAXOFF", "0", "UNKNOWN", "FALSE", "KINDS", `{"ok"}`)),
				job("HttpProxy", "gen:tun", "HttpProxy_gen.cfg", gt),
				job("HttpProxy", "legacy:tun", "HttpProxy_gen.cfg", with(gt, "ATOMIC", "FALSE", "TOLD", "FALSE", "MAXOFF", "0")),
				job("HttpProxyData", "gen:data", "HttpProxyData_gen.cfg", map[string]string{"FIX": "{}"}),
			}
			sim := job("HttpProxy", "gen:req:sim", "HttpProxy_gen.cfg", map[string]string{"NW": "3", "MAXREQ": "4", "MAXMSG": "5", "MAXEXP": "2"})
			sim.Simulate, sim.Depth, sim.Seed = "num=60", 30, env.Seed
			tsim := job("HttpProxy", "gen:tun:sim", "HttpProxy_gen.cfg", with(tunC, "NW", "3", "MAXREQ", "4", "MAXMSG", "5", "MAXEXP", "0"))
			tsim.Simulate, tsim.Depth, tsim.Seed = "num=60", 30, env.Seed
			if env.Tier == "thorough" {
				sim.Simulate, tsim.Simulate = "num=300", "num=300"
			}
			jobs = append(jobs, sim, tsim)
			for i := range jobs {
				jobs[i].Workers = 1 // with VIEW, which history reaches a state first depends on the worker interleaving
			}
			return jobs
		},
		Expand: func(env *fw.Env, src string, raw json.RawMessage) []json.RawMessage {
			var b behaviour
			if err := json.Unmarshal(raw, &b); err != nil {
				panic(err)
			}
			if b.Q != nil {
				return []json.RawMessage{raw}
			}
			if strings.HasSuffix(src, ":sim") && len(b.Steps) < 12 {
				return nil // -simulate prints every prefix: keep the long ones
			}
			hooks := hooksReq
			if b.Variant == "tun" {
				hooks = hooksTun
			}
			if !hooks && needsHooks(&b) {
				return nil
			}
			return []json.RawMessage{raw}
		},
		MaxBehSrc: func(env *fw.Env, src string) int {
			q := env.Tier == "quick"
			switch {
			case strings.HasSuffix(src, ":sim"):
				if q {
					return 30
				}
				return 300
			case strings.HasSuffix(src, ":data"):
				if q {
					return 110
				}
				return 1600
			case q:
				return 170
			}
			return 2500
		},
		ExtraBeh: func(env *fw.Env) []json.RawMessage {
			var out []json.RawMessage
			add := func(b behaviour) { out = append(out, fw.MustJSON(b)) }
			names := []string{"ok", "early", "dup", "unknown", "bad", "noid", "err", "st0", "late", "never", "gone", "offline", "foreign", "mixed", "same", "xnode-ok", "xnode-never",
				"tun-ok", "tun-dup", "tun-unknown", "tun-late", "tun-wired"}
			if env.Tier == "thorough" {
				names = append([]string{"tun-30s"}, names...)
			}
			for _, x := range names {
				add(behaviour{Extra: x, Seed: env.Seed})
			}
			n, rounds := 6, 12
			if env.Tier == "thorough" {
				n, rounds = 30, 40
			}
			for i := 0; i < n; i++ {
				add(behaviour{Extra: "stress", Seed: env.Seed*1000 + int64(i), N: rounds})
			}
			return out
		},
		Drive:       drive,
		Parallel:    12,
		JudgeModule: "HttpProxyTrace",
		JudgeCfg:    "HttpProxyTrace.cfg",
		NonTrivial: func(t *fw.Trace) bool {
			for _, e := range t.Events {
				if e["ev"] == "Ret" && e["n"] != 0 {
					return true
				}
			}
			return false
		},
		Rule: "extension X06: every TLC-generated interleaving of HTTP handlers (look-up, register, write, take/expire/cancel, unregister), readers (look-up, send), Cancel and Offline is forced on the real pending-request table behind handleSmallRequest and on the real tunnel-wait table behind handleLargeRequest; every (request class, answer class) pair of the data model travels through the real module, the real client executor and a real target; scripted scenarios and stress cover the code's own timers, duplicate / late / unknown / malformed responses and concurrent requests; the trace must satisfy HttpProxyTrace",
		Assumptions: []string{
			"which mapping a Host routes to is C19; every request here starts from a registered mapping",
			"a response racing with the expiry / cancellation of its request may be returned or dropped (Go's select); only responses completely handled while the request was neither expired, cancelled nor offline are demanded",
			"the tunnel of a large request is handed to NotifyHTTPTunnelEstablished by the driver (nothing in tunnox-core calls it: scenario tun-wired, deviation Unwired); the tunnel is a TCP connection to the target (the client-side relay is C02/C12)",
			"the 30 s tunnel wait is hard-coded: scheduled behaviours end waiters through the server's context, the real timer runs once in the thorough tier (tun-30s)",
			"any 5xx counts as a gateway error; which connection a response came from is not judged (ids are random)",
			"WebSocket upgrades share RequestTunnelForHTTP with large requests; the frame relay of websocket_proxy.go is not driven",
		},
		TrustedBase: []string{"TLC", "harness/fw", "harness/sched", "harness/srvkit", "net/http (front, target and user client in drivers/x06)", "loopback TCP"},
		SelfTest:    selfTest,
	})
}

func drive(env *fw.Env, beh fw.Behaviour) *fw.Trace {
	var b behaviour
	if err := json.Unmarshal(beh.Data, &b); err != nil {
		return &fw.Trace{Status: fw.DriverError, Note: err.Error()}
	}
	switch {
	case b.Extra == "stress":
		return driveStress(env, &b)
	case b.Extra != "":
		return driveScript(env, &b)
	case b.Q != nil:
		return driveData(env, &b)
	case b.Variant == "req" || b.Variant == "tun":
		return driveSched(env, &b)
	}
	return &fw.Trace{Status: fw.DriverError, Note: "unknown behaviour"}
}

// selfTest: corrupted copies of accepted traces that the judge must reject
func selfTest(env *fw.Env, acc []*fw.Trace) []*fw.Trace {
	var out []*fw.Trace
	id := 1 << 20
	clone := func(t *fw.Trace) *fw.Trace {
		n := &fw.Trace{Beh: t.Beh, Status: t.Status}
		for _, e := range t.Events {
			c := fw.Event{}
			for k, v := range e {
				c[k] = v
			}
			n.Events = append(n.Events, c)
		}
		id++
		n.Beh.ID = id
		return n
	}
	cnt := map[string]int{}
	num := func(v any) int {
		switch x := v.(type) {
		case int:
			return x
		case float64:
			return int(x)
		}
		return 0
	}
	for _, t := range acc {
		ids := map[int]string{}
		for _, e := range t.Events {
			if e["ev"] == "Resp" {
				ids[num(e["n"])], _ = e["id"].(string)
			}
		}
		for i, e := range t.Events {
			switch e["ev"] {
			case "Ret":
				n := num(e["n"])
				// (1) answered from the response of another request
				if n != 0 && cnt["wrong"] < 4 {
					for m, mid := range ids {
						if mid != ids[n] {
							c := clone(t)
							c.Events[i]["n"] = m
							out = append(out, c)
							cnt["wrong"]++
							break
						}
					}
				}
				// (2) two answers
				if cnt["twice"] < 4 {
					c := clone(t)
					d := fw.Event{}
					for k, v := range e {
						d[k] = v
					}
					c.Events = append(c.Events[:i+1:i+1], append([]fw.Event{d}, c.Events[i+1:]...)...)
					out = append(out, c)
					cnt["twice"]++
				}
				// (3) no answer at all
				if cnt["abort"] < 3 {
					c := clone(t)
					c.Events[i]["st"], c.Events[i]["n"] = 0, 0
					out = append(out, c)
					cnt["abort"]++
				}
				// (4) a client error instead of a gateway error
				if n == 0 && num(e["st"]) >= 500 && cnt["gw"] < 3 {
					c := clone(t)
					c.Events[i]["st"] = 404
					out = append(out, c)
					cnt["gw"]++
				}
				// (5) a request that was owed its response reports a timeout instead
				if n != 0 && cnt["lost"] < 4 && owedAt(t, i) {
					c := clone(t)
					c.Events[i]["st"], c.Events[i]["n"] = 504, 0
					out = append(out, c)
					cnt["lost"]++
				}
			case "Obs":
				if e["q"] == true && cnt["leak"] < 4 {
					c := clone(t)
					c.Events[i]["pending"] = num(e["pending"]) + 1
					out = append(out, c)
					cnt["leak"]++
				}
			case "Final":
				if cnt["open"] < 3 {
					c := clone(t)
					c.Events[i]["open"] = []int{1}
					out = append(out, c)
					cnt["open"]++
				}
				if conns, ok := e["conns"].([][]any); ok && len(conns) > 0 && cnt["orphan"] < 4 {
					c := clone(t)
					nc := [][]any{}
					for j, x := range conns {
						st := x[1]
						if j == 0 {
							st = "open"
						}
						nc = append(nc, []any{x[0], st})
					}
					c.Events[i]["conns"] = nc
					out = append(out, c)
					cnt["orphan"]++
				}
			case "DTgt":
				if num(e["n"]) == 1 && num(e["blen"]) > 0 && cnt["treq"] < 4 {
					c := clone(t)
					c.Events[i]["blen"] = num(e["blen"]) - 1
					out = append(out, c)
					cnt["treq"]++
				}
				if num(e["n"]) == 1 && cnt["twice-at-target"] < 3 {
					c := clone(t)
					c.Events[i]["n"] = 2
					out = append(out, c)
					cnt["twice-at-target"]++
				}
			case "DUsr":
				st := num(e["st"])
				if st >= 200 && st < 500 && st != 413 && cnt["uresp"] < 4 {
					c := clone(t)
					c.Events[i]["multi"] = num(e["multi"]) + 1
					out = append(out, c)
					cnt["uresp"]++
				}
				if st >= 200 && st < 500 && st != 413 && num(e["blen"]) > 0 && cnt["ubody"] < 4 {
					c := clone(t)
					c.Events[i]["bok"] = false
					out = append(out, c)
					cnt["ubody"]++
				}
			}
		}
	}
	return out
}

// owedAt: the Ret at index i of t answers a request whose response was sent after the command and handled before,
// with no Expire / Cancel / Offline in between.
func owedAt(t *fw.Trace, i int) bool {
	c := t.Events[i]["c"]
	var id any
	sent, handled := false, map[any]bool{}
	for _, e := range t.Events[:i] {
		switch e["ev"] {
		case "Sent":
			if e["c"] == c {
				id, sent = e["id"], true
			}
		case "Expire":
			if e["c"] == c {
				return false
			}
		case "Cancel", "Offline":
			return false
		case "Resp":
			if sent && e["id"] == id && (e["k"] == "ok" || e["k"] == "relay" || e["k"] == "err" || e["k"] == "noid") {
				handled[e["n"]] = false
			}
		case "Handled":
			if _, ok := handled[e["n"]]; ok {
				handled[e["n"]] = true
			}
		}
	}
	for _, h := range handled {
		if h {
			return true
		}
	}
	return false
}
