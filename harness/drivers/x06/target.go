package main

// The target: one real net/http server on loopback for the whole process - the intranet service the mapping points
// to.  It records what arrives for every request tag (/p/<tag>) and answers as scripted for that tag.
// The front: one real net/http server on loopback whose handler is the DomainProxyModule of the world that owns
// the request's Host - the public side of the domain proxy (data behaviours, scripted scenarios and stress use it;
// scheduled behaviours call ServeHTTP on their own goroutine).

import (
	"context"
	"crypto/sha256"
	"encoding/hex"
	"fmt"
	"io"
	"net"
	"net/http"
	"strconv"
	"strings"
	"sync"
	"time"
)

type script struct {
	St    int
	Blen  int
	Frame string // cl | chunked
	KA    bool   // keep the connection alive after the answer
	Multi bool   // Set-Cookie twice
	Hop   bool   // Proxy-Authenticate + Keep-Alive
	Redir bool   // 302 to /other/<tag>
}

type seen struct {
	N     int
	M     string
	URI   string
	Multi int
	Hop   bool
	Blen  int
	Bsum  string
	Host  string
	Fwd   bool
	Via   string // remote address of the connection the request came in on
}

type target struct {
	ln   net.Listener
	srv  *http.Server
	host string
	port int

	mu      sync.Mutex
	scripts map[string]*script
	got     map[string]*seen
	conns   map[string]net.Conn // tag -> server side of the connection it arrived on
}

type connKey struct{}

func sum(b []byte) string { h := sha256.Sum256(b); return hex.EncodeToString(h[:8]) }

// pattern is the body of length n that belongs to tag (request bodies: salt "q", answers: salt "a").
func pattern(tag, salt string, n int) []byte {
	b := make([]byte, n)
	seed := tag + "|" + salt + "|"
	for i := range b {
		b[i] = 'a' + byte((i*7+int(seed[i%len(seed)]))%26)
	}
	return b
}

func newTarget() (*target, error) {
	ln, err := net.Listen("tcp", "127.0.0.1:0")
	if err != nil {
		return nil, err
	}
	t := &target{ln: ln, scripts: map[string]*script{}, got: map[string]*seen{}, conns: map[string]net.Conn{}}
	a := ln.Addr().(*net.TCPAddr)
	t.host, t.port = "127.0.0.1", a.Port
	t.srv = &http.Server{
		Handler:     http.HandlerFunc(t.serve),
		ConnContext: func(ctx context.Context, c net.Conn) context.Context { return context.WithValue(ctx, connKey{}, c) },
	}
	go t.srv.Serve(ln)
	return t, nil
}

func (t *target) script(tag string, s *script) {
	t.mu.Lock()
	t.scripts[tag] = s
	t.mu.Unlock()
}

func (t *target) seen(tag string) seen {
	t.mu.Lock()
	defer t.mu.Unlock()
	if s := t.got[tag]; s != nil {
		return *s
	}
	return seen{}
}

// drop closes the target's side of the connection request tag arrived on (a stuck tunnel-mode handler is freed).
func (t *target) drop(tag string) {
	t.mu.Lock()
	c := t.conns[tag]
	t.mu.Unlock()
	if c != nil {
		c.Close()
	}
}

func (t *target) forget(tags ...string) {
	t.mu.Lock()
	for _, tag := range tags {
		delete(t.scripts, tag)
		delete(t.got, tag)
		delete(t.got, "other:"+tag)
		delete(t.conns, tag)
	}
	t.mu.Unlock()
}

func (t *target) serve(w http.ResponseWriter, r *http.Request) {
	body, _ := io.ReadAll(r.Body)
	var tag string
	other := false
	switch {
	case strings.HasPrefix(r.URL.Path, "/p/"):
		tag = strings.TrimPrefix(r.URL.Path, "/p/")
	case strings.HasPrefix(r.URL.Path, "/other/"):
		tag, other = strings.TrimPrefix(r.URL.Path, "/other/"), true
	default:
		http.NotFound(w, r)
		return
	}
	key := tag
	if other {
		key = "other:" + tag
	}
	t.mu.Lock()
	s := t.got[key]
	if s == nil {
		s = &seen{}
		t.got[key] = s
	}
	s.N++
	s.M, s.URI, s.Blen, s.Bsum, s.Host, s.Via = r.Method, r.RequestURI, len(body), sum(body), r.Host, r.RemoteAddr
	s.Multi = len(r.Header.Values("X-T-Multi"))
	if len(s.URI) > 0 && strings.HasPrefix(s.URI, "http://") { // absolute-form request target: keep path + query
		if i := strings.Index(s.URI[len("http://"):], "/"); i >= 0 {
			s.URI = s.URI[len("http://")+i:]
		}
	}
	s.Hop = r.Header.Get("Proxy-Authorization") != "" || r.Header.Get("Keep-Alive") != ""
	s.Fwd = r.Header.Get("X-Forwarded-Host") != "" && r.Header.Get("X-Forwarded-For") != "" && r.Header.Get("X-Forwarded-Proto") != ""
	sc := t.scripts[tag]
	if c, ok := r.Context().Value(connKey{}).(net.Conn); ok {
		t.conns[key] = c
	}
	t.mu.Unlock()
	w.Header().Set("X-T-Via", r.RemoteAddr)
	if other {
		w.Header().Set("Connection", "close")
		io.WriteString(w, "followed")
		return
	}
	if sc == nil {
		sc = &script{St: 200, Blen: 12, Frame: "cl"}
	}
	if !sc.KA {
		w.Header().Set("Connection", "close")
	}
	if sc.Multi {
		w.Header().Add("Set-Cookie", "a=1; Path=/")
		w.Header().Add("Set-Cookie", "b=2; Path=/")
	}
	if sc.Hop {
		w.Header().Set("Proxy-Authenticate", `Basic realm="x06"`)
		w.Header().Set("Keep-Alive", "timeout=5")
	}
	w.Header().Set("Content-Type", "application/octet-stream")
	if sc.Redir {
		w.Header().Set("Location", fmt.Sprintf("http://%s:%d/other/%s", t.host, t.port, tag))
		w.WriteHeader(http.StatusFound)
		return
	}
	b := pattern(tag, "a", sc.Blen)
	if sc.Frame == "chunked" && len(b) > 0 && r.Method != http.MethodHead {
		w.WriteHeader(sc.St)
		f, _ := w.(http.Flusher)
		third := (len(b) + 2) / 3
		for len(b) > 0 {
			n := third
			if n > len(b) {
				n = len(b)
			}
			w.Write(b[:n])
			b = b[n:]
			if f != nil {
				f.Flush()
			}
		}
		return
	}
	w.Header().Set("Content-Length", strconv.Itoa(len(b)))
	w.WriteHeader(sc.St)
	if r.Method != http.MethodHead {
		w.Write(b)
	}
}

// ---------------------------------------------------------------------------------------------
// front

type front struct {
	ln    net.Listener
	srv   *http.Server
	addr  string
	hosts sync.Map // domain -> http.Handler
}

func newFront() (*front, error) {
	ln, err := net.Listen("tcp", "127.0.0.1:0")
	if err != nil {
		return nil, err
	}
	f := &front{ln: ln, addr: ln.Addr().String()}
	f.srv = &http.Server{
		Handler: http.HandlerFunc(func(w http.ResponseWriter, r *http.Request) {
			host := r.Host
			if i := strings.IndexByte(host, ':'); i >= 0 {
				host = host[:i]
			}
			if h, ok := f.hosts.Load(host); ok {
				h.(http.Handler).ServeHTTP(w, r)
				return
			}
			http.Error(w, "x06: no world for host "+r.Host, http.StatusTeapot)
		}),
		ErrorLog: nil,
	}
	go f.srv.Serve(ln)
	return f, nil
}

// user is one HTTP client of the public side; connections are not reused (every exchange ends visibly).
func newUserClient() *http.Client {
	return &http.Client{
		Timeout:       60 * time.Second,
		Transport:     &http.Transport{DisableKeepAlives: true, DisableCompression: true},
		CheckRedirect: func(*http.Request, []*http.Request) error { return http.ErrUseLastResponse },
	}
}
