package main

// Scheduled behaviours of spec/HttpProxy.tla (Variant "req" and "tun"): every step is forced on the real code.
//
//	model state of a caller     where its goroutine is
//	built                       parked in the control connection's BeforeNextWrite (inside WritePacket, nothing written)
//	wrote  (as-found order)     parked in its AfterNextPacket (the command is on the wire, WritePacket has not returned)
//	wait                        the command is on the wire and the id is in the table (the goroutine runs into / sits in its select)
//	took                        parked at httpproxy.wait.selected / httptunnel.wait.selected (patch X06-0), else already returned
//	idle                        the HTTP exchange is over (Ret logged)
//	reader checked              parked at httpproxy.handle.found / httptunnel.notify.found (patch X06-0)

import (
	"fmt"
	"time"

	"tunnox-core/verifharness/fw"
	"tunnox-core/verifharness/sched"
)

type wake struct {
	P  int    `json:"p"`
	St string `json:"st"`
	R  string `json:"r"`
	N  int    `json:"n"`
}

type step struct {
	A  string `json:"a"`
	P  int    `json:"p"`
	ID int    `json:"id"`
	K  string `json:"k"`
	St string `json:"st"`
	R  string `json:"r"`
	N  int    `json:"n"`
	Wk []wake `json:"wk"`
	C  string `json:"c"`
}

type dataQ struct {
	M     string `json:"m"`
	Body  string `json:"body"`
	Frame string `json:"frame"`
	Multi bool   `json:"multi"`
	Hop   bool   `json:"hop"`
}

type dataA struct {
	St    int    `json:"st"`
	Body  string `json:"body"`
	Frame string `json:"frame"`
	KA    bool   `json:"ka"`
	Multi bool   `json:"multi"`
	Hop   bool   `json:"hop"`
}

type behaviour struct {
	Variant string `json:"variant,omitempty"`
	First   bool   `json:"first,omitempty"`
	Atomic  bool   `json:"atomic,omitempty"`
	Told    bool   `json:"told,omitempty"`
	Wired   bool   `json:"wired,omitempty"`
	Steps   []step `json:"steps,omitempty"`
	// data behaviours (spec/HttpProxyData.tla)
	Q    *dataQ `json:"q,omitempty"`
	A    *dataA `json:"a,omitempty"`
	Path string `json:"path,omitempty"`
	// driver-made scenarios
	Extra string `json:"extra,omitempty"`
	Seed  int64  `json:"seed,omitempty"`
	N     int    `json:"n,omitempty"`
}

// needsHooks: a step of another goroutine happens while a caller sits between its select and its unregister, or a
// reader between its look-up and its send - only a yield point can hold them there.
func needsHooks(b *behaviour) bool {
	open := map[string]bool{}
	for _, s := range b.Steps {
		who := ""
		switch s.A {
		case "Start", "Write", "WriteFail", "Reg", "Expire", "Unreg", "Take":
			who = fmt.Sprintf("p%d", s.P)
		case "Arrive", "Send":
			who = fmt.Sprintf("r%d", s.P)
		}
		for q, o := range open {
			if o && q != who {
				return true
			}
		}
		if who != "" {
			open[who] = s.St == "took" || s.St == "checked"
		}
		for _, k := range s.Wk {
			if k.St == "took" {
				open[fmt.Sprintf("p%d", k.P)] = true
			}
		}
	}
	return false
}

// expires: the call caller p starts at step i ends through its timer
func expires(b *behaviour, i int) bool {
	p := b.Steps[i].P
	for _, s := range b.Steps[i+1:] {
		if s.P == p && s.A == "Start" {
			return false
		}
		if s.P == p && s.A == "Expire" {
			return true
		}
	}
	return false
}

func (w *world) procState(name string) (string, string) {
	st, at := w.s.State(name)
	return st, at.Point
}

// waitProc waits until scheduler process name is parked or done; it returns "parked:<gate>", "done" or "running".
func (w *world) waitProc(name string, d time.Duration) string {
	var got string
	waitFor(d, func() bool {
		st, at := w.procState(name)
		switch st {
		case sched.Done:
			got = "done"
			return true
		case sched.Parked:
			got = "parked:" + at
			return true
		}
		got = "running"
		return false
	})
	return got
}

func driveSched(env *fw.Env, b *behaviour) *fw.Trace {
	n := 1
	for _, s := range b.Steps {
		if s.P > n {
			n = s.P
		}
	}
	tun := b.Variant == "tun"
	hooks := hooksReq
	selGate, foundGate, path := gReqSel, gReqFound, "small"
	if tun {
		hooks, selGate, foundGate, path = hooksTun, gTunSel, gTunFound, "large"
	}
	w, err := newWorld(b.Variant, false, n, 1)
	if err != nil {
		return &fw.Trace{Status: fw.Inconclusive, Note: err.Error()}
	}
	defer w.destroy()
	status := fw.Realised
	diverge := func(format string, a ...any) {
		status = fw.Diverged
		w.note = fmt.Sprintf(format, a...)
	}
	// took: the caller has left its select (parked at the yield point, or - without it - already back)
	took := func(c *callRec, d time.Duration) bool {
		got := w.waitProc(c.name, d)
		return got == "parked:"+selGate || got == "done"
	}
	idle := func(c *callRec) bool {
		// the handler may cross further yield points on its way out (none today); step it through
		for i := 0; i < 4; i++ {
			switch got := w.waitProc(c.name, settleMax); {
			case got == "done":
				return true
			case got == "running":
				return false
			default:
				w.s.Step(c.name)
			}
		}
		return false
	}
	waiting := func(c *callRec) bool {
		if !w.sentBy(c) {
			return false
		}
		return waitFor(settleMax, func() bool { return w.registered(c.id) })
	}
	wakes := func(i int, s step) bool {
		for _, k := range s.Wk {
			c := w.cur[k.P]
			if c == nil || !took(c, settleMax) {
				diverge("step %d %s: caller %d did not wake", i, s.A, k.P)
				return false
			}
		}
		return true
	}
	rdName := map[int]string{}
	cancelled := false
steps:
	for i, s := range b.Steps {
		switch s.A {
		case "Start":
			k := w.cl[s.P-1]
			if s.R != "offline" {
				k.conn.T.BeforeNextWrite(func() { w.s.Gate(gWireBefore, nil) })
			}
			c := w.newCall(s.P, path, !tun && expires(b, i))
			w.byReq[s.ID] = c
			w.s.Start(c.name, func() any { return w.doDirect(c) })
			got := w.waitProc(c.name, settleMax)
			if s.R == "offline" {
				if got != "done" {
					diverge("step %d Start: caller %d did not return at once although its client is offline (%s)", i, s.P, got)
					break steps
				}
			} else if got != "parked:"+gWireBefore {
				diverge("step %d Start: caller %d is not about to write (%s)", i, s.P, got)
				break steps
			}
		case "Write":
			c := w.cur[s.P]
			k := w.cl[s.P-1]
			if s.St == "wrote" {
				k.conn.T.AfterNextPacket(func() { w.s.Gate(gWireAfter, nil) })
			}
			w.s.Step(c.name)
			if s.St == "wrote" {
				if got := w.waitProc(c.name, settleMax); got != "parked:"+gWireAfter {
					diverge("step %d Write: caller %d is not at the end of its write (%s)", i, s.P, got)
					break steps
				}
				if !w.sentBy(c) {
					diverge("step %d Write: the command of caller %d is not on the wire", i, s.P)
					break steps
				}
			} else if !waiting(c) {
				diverge("step %d Write: caller %d is not waiting", i, s.P)
				break steps
			}
		case "WriteFail":
			c := w.cur[s.P]
			w.s.Step(c.name)
			if s.St == "idle" || !hooks {
				if !idle(c) {
					diverge("step %d WriteFail: caller %d did not return", i, s.P)
					break steps
				}
			} else if !took(c, settleMax) {
				diverge("step %d WriteFail: caller %d did not fail", i, s.P)
				break steps
			}
		case "Reg":
			c := w.cur[s.P]
			w.s.Step(c.name)
			if !waiting(c) {
				diverge("step %d Reg: caller %d is not waiting", i, s.P)
				break steps
			}
		case "Expire":
			c := w.cur[s.P]
			if !c.fast {
				return &fw.Trace{Status: fw.DriverError, Note: "Expire of a call that was not started on the one-second module"}
			}
			if !took(c, time.Second+settleMax) {
				diverge("step %d Expire: the timer of caller %d did not fire", i, s.P)
				break steps
			}
		case "Cancel":
			w.log(fw.Event{"ev": "Cancel"})
			cancelled = true
			w.srv.Close()
			if !wakes(i, s) {
				break steps
			}
		case "Offline":
			w.log(fw.Event{"ev": "Offline"})
			for _, k := range w.cl {
				k.conn.Disconnect()
			}
		case "Unreg":
			c := w.cur[s.P]
			if !idle(c) {
				diverge("step %d Unreg: caller %d did not return", i, s.P)
				break steps
			}
		case "Arrive":
			kind := s.K
			id := fmt.Sprintf("x06-nobody-%d-%d", w.seq, s.N)
			if s.ID != 0 {
				c := w.byReq[s.ID]
				if c == nil || c.id == "" {
					return &fw.Trace{Status: fw.DriverError, Note: fmt.Sprintf("step %d Arrive: no id known for request %d", i, s.ID)}
				}
				id = c.id
			} else if kind == "ok" {
				kind = "unknown"
			}
			k := w.cl[(s.P-1)%len(w.cl)]
			name := fmt.Sprintf("r%d.%d", s.P, i)
			rdName[s.P] = name
			w.s.Start(name, func() any {
				w.bind()
				if tun {
					w.offer(id, kind)
					return nil
				}
				n := w.newResp(id, kind)
				w.deliverPkt(k, canned(n, id, kind))
				w.handled(n, "")
				return nil
			})
			got := w.waitProc(name, settleMax)
			switch {
			case s.St == "checked" && got != "parked:"+foundGate && hooks:
				diverge("step %d Arrive: reader %d is not between look-up and send (%s)", i, s.P, got)
				break steps
			case s.St == "checked" && !hooks:
				// no yield point: look-up and send ran together (the behaviour needs no seam there)
				if got != "done" {
					diverge("step %d Arrive: reader %d did not finish (%s)", i, s.P, got)
					break steps
				}
			case s.St == "idle" && got == "parked:"+foundGate:
				// the model sends inside the look-up's section (repaired), this tree still has the seam: walk through it
				w.s.Step(name)
				if got = w.waitProc(name, settleMax); got != "done" {
					diverge("step %d Arrive: reader %d did not finish (%s)", i, s.P, got)
					break steps
				}
			case s.St == "idle" && got != "done":
				diverge("step %d Arrive: reader %d did not finish (%s)", i, s.P, got)
				break steps
			}
			if !wakes(i, s) {
				break steps
			}
		case "Send":
			name := rdName[s.P]
			if st, _ := w.procState(name); st != sched.Done {
				w.s.Step(name)
				if got := w.waitProc(name, settleMax); got != "done" {
					diverge("step %d Send: reader %d did not finish (%s)", i, s.P, got)
					break steps
				}
			}
			if !wakes(i, s) {
				break steps
			}
		case "Take":
			// generation uses Eager = TRUE: Take never appears on its own
			return &fw.Trace{Status: fw.DriverError, Note: "Take step in a generated behaviour"}
		default:
			return &fw.Trace{Status: fw.DriverError, Note: "unknown action " + s.A}
		}
	}
	w.finish(!cancelled)
	return w.result(status)
}
