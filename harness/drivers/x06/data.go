package main

// Data behaviours (spec/HttpProxyData.tla), scripted scenarios and free-running stress: requests travel through the
// process-wide front server (a real net/http server in front of the module), the driver's client loop answers with the
// REAL client executor against the real target, tunnel connections are TCP connections to that target.

import (
	"bytes"
	"fmt"
	"io"
	"math/rand"
	"net/http"
	"strings"
	"sync"
	"time"

	"tunnox-core/internal/packet"
	"tunnox-core/internal/protocol/httptypes"
	"tunnox-core/verifharness/fw"
)

type userReq struct {
	m     string
	body  []byte
	frame string
	multi bool
	hop   bool
}

type userRes struct {
	st   int
	h    http.Header
	body []byte
	berr bool
}

const query = "?q=1&z=2"

// doUser is one exchange of an HTTP user with the public side of the proxy.
func (w *world) doUser(c *callRec, u userReq) userRes {
	k := w.cl[c.p-1]
	var body io.Reader
	if u.body != nil {
		body = bytes.NewReader(u.body)
		if u.frame == "chunked" {
			body = struct{ io.Reader }{body}
		}
	}
	req, err := http.NewRequest(u.m, "http://"+frontSrv.addr+"/p/"+c.tag+query, body)
	if err != nil {
		return userRes{}
	}
	req.Host = k.domain
	if u.body != nil && u.frame == "chunked" {
		req.ContentLength = -1
	}
	if u.multi {
		req.Header.Add("X-T-Multi", "one")
		req.Header.Add("X-T-Multi", "two")
	}
	if u.hop {
		req.Header.Set("Proxy-Authorization", "Basic eDp5")
		req.Header.Set("Keep-Alive", "timeout=9")
	}
	resp, err := w.user.Do(req)
	if err != nil {
		return userRes{}
	}
	defer resp.Body.Close()
	b, rerr := io.ReadAll(resp.Body)
	return userRes{st: resp.StatusCode, h: resp.Header, body: b, berr: rerr != nil}
}

func sizeOf(class string) int {
	switch class {
	case "small":
		return 20
	case "edge":
		return threshold
	case "big":
		return 200
	case "some":
		return 300
	case "over":
		return maxResp + 904
	}
	return 0
}

// exchange runs one user request of world w to its end and records the data events.
func (w *world) exchange(c *callRec, u userReq, sc *script) userRes {
	tgt.script(c.tag, sc)
	blen := 0
	if u.body != nil {
		blen = len(u.body)
	}
	w.log(fw.Event{"ev": "DReq", "c": c.c, "m": u.m, "blen": blen, "frame": u.frame, "multi": u.multi, "hop": u.hop, "lim": threshold})
	w.log(fw.Event{"ev": "DAns", "c": c.c, "st": sc.St, "blen": sc.Blen, "frame": sc.Frame, "ka": sc.KA, "multi": sc.Multi, "hop": sc.Hop, "redir": sc.Redir})
	resc := make(chan userRes, 1)
	go func() { resc <- w.doUser(c, u) }()
	var res userRes
	free := func() {
		// the handler is still reading from a target that keeps the connection open: close the target's side
		if !loadOK() {
			w.overrun.Store(true)
		}
		c.forced.Store(true)
		tgt.drop(c.tag)
	}
	select {
	case res = <-resc:
	case <-time.After(settleMax):
		free()
		select {
		case res = <-resc:
		case <-time.After(finalMax):
		}
	}
	select {
	case <-c.hdone:
	case <-time.After(settleMax):
		if c.id != "" || res.st != 0 {
			free()
			select {
			case <-c.hdone:
			case <-time.After(finalMax):
			}
		}
	}
	w.ret(c, res.st, w.answerFrom(res.h, res.body))
	w.dataEvents(c, u, sc, res)
	return res
}

func (w *world) dataEvents(c *callRec, u userReq, sc *script, res userRes) {
	s := tgt.seen(c.tag)
	w.mu.Lock()
	path := c.took
	w.mu.Unlock()
	if path == "" {
		path = "none"
	}
	refused := s.N == 0 && (res.st == 413 || res.st >= 500)
	var qb []byte
	if u.body != nil {
		qb = u.body
	}
	w.log(fw.Event{"ev": "DTgt", "c": c.c, "n": s.N, "m": s.M, "uri": s.URI == "/p/"+c.tag+query, "multi": s.Multi, "hop": s.Hop,
		"blen": s.Blen, "bok": s.Bsum == sum(qb), "host": s.Host == fmt.Sprintf("%s:%d", tgt.host, tgt.port), "fwd": s.Fwd, "path": path, "refused": refused, "st": res.st})
	want := sc.Blen
	if u.m == http.MethodHead || sc.Redir {
		want = 0
	}
	hop := false
	multi := 0
	if res.h != nil {
		hop = res.h.Get("Proxy-Authenticate") != "" || res.h.Get("Keep-Alive") != ""
		multi = len(res.h.Values("Set-Cookie"))
	}
	w.log(fw.Event{"ev": "DUsr", "c": c.c, "st": res.st, "multi": multi, "hop": hop, "blen": len(res.body),
		"bok": !res.berr && sum(res.body) == sum(pattern(c.tag, "a", want)), "done": !(c.forced.Load() && path == "large"), "path": path, "refused": refused})
}

// freeClient makes the driver's client loop answer like a real client: executor for proxy commands, a tunnel
// connection for tunnel commands.
func (w *world) freeClient() {
	w.onProxy = func(c *callRec, k *cli, cp *packet.CommandPacket, r *httptypes.HTTPProxyRequest) { w.execute(k, cp, r, 1) }
	w.onTunnel = func(c *callRec, k *cli, r *httptypes.HTTPTunnelRequest) { w.offer(r.TunnelID, "relay") }
}

func (w *world) startClients() {
	for _, k := range w.cl {
		go w.runClient(k)
	}
}

func driveData(env *fw.Env, b *behaviour) *fw.Trace {
	w, err := newWorld("data", true, 1, 1)
	if err != nil {
		return &fw.Trace{Status: fw.Inconclusive, Note: err.Error()}
	}
	defer w.destroy()
	w.freeClient()
	w.startClients()
	c := w.newCall(1, b.Path, false)
	u := userReq{m: b.Q.M, frame: b.Q.Frame, multi: b.Q.Multi, hop: b.Q.Hop}
	if b.Q.M == http.MethodPost {
		u.body = pattern(c.tag, "q", sizeOf(b.Q.Body))
	}
	sc := &script{St: b.A.St, Blen: sizeOf(b.A.Body), Frame: b.A.Frame, KA: b.A.KA, Multi: b.A.Multi, Hop: b.A.Hop, Redir: b.A.St == 302}
	w.exchange(c, u, sc)
	status := fw.Realised
	w.mu.Lock()
	if c.took != "" && b.Path != "" && c.took != b.Path {
		// the code routed the request differently from the model variant that generated the behaviour (another
		// set of repairs): still a real execution, judged like any other
		status, w.note = fw.Diverged, fmt.Sprintf("the code took the %s path, the model the %s path", c.took, b.Path)
	}
	w.mu.Unlock()
	w.finish(false)
	return w.result(status)
}

// ---------------------------------------------------------------------------------------------
// scripted scenarios

func driveScript(env *fw.Env, b *behaviour) *fw.Trace {
	name := b.Extra
	ncl := 1
	if name == "foreign" || name == "mixed" {
		ncl = 2
	}
	w, err := newWorldX("script:"+name, true, ncl, b.Seed, strings.HasPrefix(name, "xnode"))
	if err != nil {
		return &fw.Trace{Status: fw.Inconclusive, Note: err.Error()}
	}
	defer w.destroy()
	w.freeClient()
	small := userReq{m: http.MethodPost, body: []byte("hello x06"), frame: "cl"}
	large := func(c *callRec) userReq { return userReq{m: http.MethodPost, body: pattern(c.tag, "q", 200), frame: "cl"} }
	plain := &script{St: 200, Blen: 40, Frame: "cl"}
	deliver := func(k *cli, id, kind string) {
		n := w.newResp(id, kind)
		w.deliverPkt(k, canned(n, id, kind))
		w.handled(n, "")
	}
	// simple: one request whose command the client treats with `on`
	simple := func(fast bool, on func(c *callRec, k *cli, cp *packet.CommandPacket, r *httptypes.HTTPProxyRequest)) {
		w.onProxy = on
		w.startClients()
		c := w.newCall(1, "small", fast)
		tgt.script(c.tag, plain)
		res := w.doUserBounded(c, small)
		w.ret(c, res.st, w.answerFrom(res.h, res.body))
	}
	cancel := false
	switch name {
	case "ok":
		w.startClients()
		c := w.newCall(1, "small", false)
		w.exchange(c, small, plain)
	case "early":
		// the client answers while the server is still inside the WritePacket that sent the command
		k := w.cl[0]
		c := w.newCall(1, "small", false)
		k.conn.T.AfterNextPacket(func() {
			id, took := w.command(c)
			if id == "" {
				return
			}
			w.noteSent(c, id, took)
			deliver(k, id, "ok")
		})
		res := w.doUserBounded(c, small)
		w.ret(c, res.st, w.answerFrom(res.h, res.body))
	case "dup":
		simple(false, func(c *callRec, k *cli, cp *packet.CommandPacket, r *httptypes.HTTPProxyRequest) { w.execute(k, cp, r, 2) })
	case "unknown":
		simple(false, func(c *callRec, k *cli, cp *packet.CommandPacket, r *httptypes.HTTPProxyRequest) {
			deliver(k, fmt.Sprintf("x06-nobody-%d", w.seq), "unknown")
			w.execute(k, cp, r, 1)
		})
	case "bad":
		simple(false, func(c *callRec, k *cli, cp *packet.CommandPacket, r *httptypes.HTTPProxyRequest) {
			deliver(k, r.RequestID, "bad")
			w.execute(k, cp, r, 1)
		})
	case "noid", "err", "st0":
		simple(false, func(c *callRec, k *cli, cp *packet.CommandPacket, r *httptypes.HTTPProxyRequest) { deliver(k, r.RequestID, name) })
	case "late":
		simple(true, func(c *callRec, k *cli, cp *packet.CommandPacket, r *httptypes.HTTPProxyRequest) {
			waitFor(finalMax, func() bool { return w.isDone(c) })
			w.execute(k, cp, r, 1)
		})
	case "never":
		simple(true, func(c *callRec, k *cli, cp *packet.CommandPacket, r *httptypes.HTTPProxyRequest) {})
	case "gone":
		simple(true, func(c *callRec, k *cli, cp *packet.CommandPacket, r *httptypes.HTTPProxyRequest) {
			w.log(fw.Event{"ev": "Offline"})
			k.conn.Disconnect()
		})
	case "offline":
		w.log(fw.Event{"ev": "Offline"})
		w.cl[0].conn.Disconnect()
		c := w.newCall(1, "small", false)
		res := w.doUserBounded(c, small)
		w.ret(c, res.st, w.answerFrom(res.h, res.body))
	case "foreign":
		// the response comes in on ANOTHER client's control connection (accepted: ids are random, see the spec header)
		w.onProxy = func(c *callRec, k *cli, cp *packet.CommandPacket, r *httptypes.HTTPProxyRequest) { w.execute(w.cl[1], cp, r, 1) }
		w.startClients()
		c := w.newCall(1, "small", false)
		w.exchange(c, small, plain)
	case "mixed", "same":
		// two requests in flight (mixed: on two mappings, same: on ONE mapping and control connection), answered in the
		// opposite order
		var mu sync.Mutex
		var held []func()
		w.onProxy = func(c *callRec, k *cli, cp *packet.CommandPacket, r *httptypes.HTTPProxyRequest) {
			mu.Lock()
			held = append(held, func() { w.execute(k, cp, r, 1) })
			both := len(held) == 2
			mu.Unlock()
			if both {
				held[1]()
				held[0]()
			}
		}
		w.startClients()
		var wg sync.WaitGroup
		for p := 1; p <= 2; p++ {
			c := w.newCall(1+(p-1)%ncl, "small", false)
			wg.Add(1)
			go func() {
				defer wg.Done()
				w.exchange(c, userReq{m: http.MethodPost, body: pattern(c.tag, "q", 50), frame: "cl"}, &script{St: 200, Blen: 80, Frame: "cl"})
			}()
		}
		wg.Wait()
	case "xnode-ok", "xnode-never":
		// the request enters on node A, the client is connected to node B: sendHTTPProxyRequestCrossNode ->
		// CrossNodeListener.handleHTTPProxy -> sendHTTPProxyRequestLocal on B (session level: the module itself only
		// looks for the client on its own node)
		if name == "xnode-never" {
			w.onProxy = func(c *callRec, k *cli, cp *packet.CommandPacket, r *httptypes.HTTPProxyRequest) {}
		}
		w.startClients()
		c := w.newCall(1, "small", name == "xnode-never")
		tgt.script(c.tag, plain)
		req := &httptypes.HTTPProxyRequest{RequestID: fmt.Sprintf("x06-xnode-%d-%d", w.seq, c.c), Method: http.MethodPost,
			URL:     fmt.Sprintf("http://%s:%d/p/%s%s", tgt.host, tgt.port, c.tag, query),
			Headers: map[string]string{"Content-Type": "text/plain"}, Body: small.body, Timeout: 3600}
		if c.fast {
			req.Timeout = 1
		}
		done := make(chan struct{})
		go func() {
			defer close(done)
			st, n := 0, 0
			resp, err := w.origin.SM.SendHTTPProxyRequest(w.cl[0].id, req)
			switch {
			case err != nil:
				st = 504
			case resp == nil:
				st = 500
			case resp.Error != "":
				st, n = 502, w.answerFrom(nil, []byte(resp.Error))
			default:
				st = resp.StatusCode
				h := http.Header{}
				for k, v := range resp.Headers {
					h.Set(k, v)
				}
				n = w.answerFrom(h, resp.Body)
			}
			w.ret(c, st, n)
		}()
		wait := settleMax
		if c.fast {
			wait += time.Second
		}
		select {
		case <-done:
		case <-time.After(wait):
			w.stuck(c)
			w.log(fw.Event{"ev": "Cancel"})
			w.origin.Close()
			w.srv.Close()
			select {
			case <-done:
			case <-time.After(finalMax):
			}
		}
	case "tun-ok":
		w.startClients()
		c := w.newCall(1, "large", false)
		w.exchange(c, large(c), plain)
	case "tun-dup":
		w.onTunnel = func(c *callRec, k *cli, r *httptypes.HTTPTunnelRequest) {
			w.offer(r.TunnelID, "relay")
			w.offer(r.TunnelID, "relay")
		}
		w.startClients()
		c := w.newCall(1, "large", false)
		w.exchange(c, large(c), plain)
	case "tun-unknown":
		w.onTunnel = func(c *callRec, k *cli, r *httptypes.HTTPTunnelRequest) {
			w.offer(fmt.Sprintf("x06-nobody-%d", w.seq), "unknown")
			w.offer(r.TunnelID, "relay")
		}
		w.startClients()
		c := w.newCall(1, "large", false)
		w.exchange(c, large(c), plain)
	case "tun-late", "tun-30s":
		// the tunnel connection arrives after the waiter has given up (cancelled server / the real 30 s)
		got := make(chan string, 1)
		w.onTunnel = func(c *callRec, k *cli, r *httptypes.HTTPTunnelRequest) { got <- r.TunnelID }
		w.startClients()
		c := w.newCall(1, "large", false)
		resc := make(chan userRes, 1)
		go func() { resc <- w.doUser(c, large(c)) }()
		var id string
		select {
		case id = <-got:
		case <-time.After(settleMax):
			return &fw.Trace{Status: fw.Inconclusive, Note: "no tunnel command within the settle time"}
		}
		w.log(fw.Event{"ev": "Expire", "c": c.c})
		wait := settleMax
		if name == "tun-late" {
			w.log(fw.Event{"ev": "Cancel"})
			w.srv.Close()
			cancel = true
		} else {
			wait = 30*time.Second + finalMax
		}
		select {
		case res := <-resc:
			w.ret(c, res.st, w.answerFrom(res.h, res.body))
		case <-time.After(wait):
			w.stuck(c)
		}
		w.offer(id, "relay")
	case "tun-wired":
		// what the REAL client does with the tunnel command: it dials a tunnel connection and sends TunnelOpen with the
		// tunnel id; nothing on the server connects that to the waiter (deviation Unwired)
		w.srv.EnableTunnels()
		w.onTunnel = func(c *callRec, k *cli, r *httptypes.HTTPTunnelRequest) {
			n := w.newResp(r.TunnelID, "ok")
			told := "void"
			if tc, err := w.srv.NewConn(fmt.Sprintf("10.6.%d.99", w.seq%200)); err == nil {
				tc.TunnelOpen(&packet.TunnelOpenRequest{MappingID: r.MappingID, TunnelID: r.TunnelID})
			}
			w.handled(n, told)
		}
		w.startClients()
		c := w.newCall(1, "large", false)
		res := w.doUserBounded(c, large(c))
		w.ret(c, res.st, w.answerFrom(res.h, res.body))
	default:
		return &fw.Trace{Status: fw.DriverError, Note: "unknown scenario " + name}
	}
	w.finish(cancel)
	return w.result(fw.Realised)
}

// doUserBounded is doUser for scenarios in which the answer may never come: after the settle time the request is
// reported stuck and the server cancelled (the answer then is the gateway error of a cancelled request).
func (w *world) doUserBounded(c *callRec, u userReq) userRes {
	resc := make(chan userRes, 1)
	go func() { resc <- w.doUser(c, u) }()
	wait := settleMax
	if c.fast {
		wait += time.Second
	}
	select {
	case res := <-resc:
		return res
	case <-time.After(wait):
	}
	w.stuck(c)
	w.log(fw.Event{"ev": "Cancel"})
	w.srv.Close()
	tgt.drop(c.tag)
	select {
	case res := <-resc:
		return res
	case <-time.After(finalMax):
		return userRes{}
	}
}

// ---------------------------------------------------------------------------------------------
// free-running stress: concurrent requests on several mappings, duplicate / unknown responses, small and large

func driveStress(env *fw.Env, b *behaviour) *fw.Trace {
	const ncl = 3
	w, err := newWorld("stress", true, ncl, b.Seed)
	if err != nil {
		return &fw.Trace{Status: fw.Inconclusive, Note: err.Error()}
	}
	defer w.destroy()
	var rmu sync.Mutex
	rng := rand.New(rand.NewSource(b.Seed))
	rnd := func(n int) int { rmu.Lock(); defer rmu.Unlock(); return rng.Intn(n) }
	w.onProxy = func(c *callRec, k *cli, cp *packet.CommandPacket, r *httptypes.HTTPProxyRequest) {
		if d := rnd(12); d >= 8 {
			time.Sleep(time.Duration(rnd(3000)) * time.Microsecond)
		}
		times := 1
		switch rnd(10) {
		case 0:
			times = 2
		case 1:
			id := fmt.Sprintf("x06-nobody-%d-%d", w.seq, rnd(1<<30))
			n := w.newResp(id, "unknown")
			w.deliverPkt(k, canned(n, id, "ok"))
			w.handled(n, "")
		}
		w.execute(w.cl[rnd(ncl)], cp, r, times)
	}
	w.onTunnel = func(c *callRec, k *cli, r *httptypes.HTTPTunnelRequest) {
		w.offer(r.TunnelID, "relay")
		if rnd(8) == 0 {
			w.offer(r.TunnelID, "relay")
		}
	}
	w.startClients()
	var wg sync.WaitGroup
	for p := 1; p <= ncl; p++ {
		wg.Add(1)
		go func(p int) {
			defer wg.Done()
			for i := 0; i < b.N; i++ {
				var u userReq
				// any mapping: several requests are in flight on one mapping (and its control connection) at a time
				c := w.newCall(1+rnd(ncl), "small", false)
				switch rnd(5) {
				case 0:
					u = userReq{m: http.MethodGet, frame: "cl"}
				case 1:
					u = userReq{m: http.MethodPost, body: pattern(c.tag, "q", 200), frame: "cl"} // tunnel mode
				default:
					u = userReq{m: http.MethodPost, body: pattern(c.tag, "q", 1+rnd(threshold)), frame: "cl", hop: rnd(2) == 0}
				}
				w.exchange(c, u, &script{St: []int{200, 200, 404}[rnd(3)], Blen: rnd(600), Frame: "cl", Hop: rnd(2) == 0})
			}
		}(p)
	}
	wg.Wait()
	w.finish(false)
	return w.result(fw.Realised)
}
