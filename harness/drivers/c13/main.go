// C13 driver: replays TLC-generated operation histories of the reference TTL key-value store
// (spec/KV.tla) on the real in-memory backend and on the real Redis backend (over miniredis),
// recording every result in normalised form for the judge (spec/KVTrace.tla).
package main

import (
	"bytes"
	"context"
	"encoding/json"
	"errors"
	"fmt"
	"os"
	"os/exec"
	"runtime"
	"sort"
	"strings"
	"sync"
	"sync/atomic"
	"time"

	"github.com/alicebob/miniredis/v2"

	"tunnox-core/internal/core/storage/memory"
	redisstore "tunnox-core/internal/core/storage/redis"
	"tunnox-core/internal/core/storage/types"
	"tunnox-core/verifharness/fw"
)

const (
	shortTTL   = 120 * time.Millisecond
	tickSleep  = 200 * time.Millisecond // > shortTTL with margin
	segBudget  = 50 * time.Millisecond  // a tick-free segment must finish well inside shortTTL
	longTTL    = time.Hour
	redisShort = 2 * time.Second // miniredis time is virtual (FastForward): no sleeping
	redisTick  = 3 * time.Second
)

type step map[string]any

type backend interface {
	types.Storage
	types.ListStore
	types.HashStore
	types.CounterStore
	types.CASStore
}

var concrete = map[string]string{"a": "va-plain", "b": `{"x":"b","n":2}`}
var abstractOf = map[string]string{"va-plain": "a", `{"x":"b","n":2}`: "b"}

func conc(v any) string { return concrete[v.(string)] }
func abst(v any) any {
	switch x := v.(type) {
	case string:
		if a, ok := abstractOf[x]; ok {
			return a
		}
		return "?" + x
	case []byte:
		return abst(string(x))
	default:
		return fmt.Sprintf("?%T:%v", v, v)
	}
}

func res(t string, v any) map[string]any { return map[string]any{"t": t, "v": v} }
func errRes(err error) map[string]any {
	if errors.Is(err, types.ErrKeyNotFound) {
		return res("nf", "")
	}
	return res("err", err.Error())
}

type clockCtl struct {
	redis    *miniredis.Miniredis
	short    time.Duration
	segStart time.Time
	held     []heldAnswer
	bg       bool // the memory backend's StartCleanup ticker is running: a Sweep step waits for it instead of calling CleanupExpired
}

const (
	bgInterval = 1 * time.Millisecond
	bgWait     = 5 * time.Millisecond // several ticker periods (if the ticker goroutine is starved the sweep simply has not happened yet)
)

// heldAnswer: a list / hash answer as received (got: the very object the backend returned) and a deep copy
// taken at that moment; compared again after all later operations (Held event).
type heldAnswer struct {
	what string
	got  any
	snap string
}

func (c *clockCtl) hold(what string, got any) {
	c.held = append(c.held, heldAnswer{what: what, got: got, snap: fmt.Sprintf("%#v", got)})
}

func (c *clockCtl) ttl(class any) time.Duration {
	switch class.(string) {
	case "0":
		return 0
	case "S":
		return c.short
	default:
		return longTTL
	}
}

func runOp(st backend, c *clockCtl, o step) map[string]any {
	k, _ := o["k"].(string)
	switch o["op"].(string) {
	case "Set":
		if err := st.Set(k, conc(o["v"]), c.ttl(o["ttl"])); err != nil {
			return errRes(err)
		}
		return res("ok", "")
	case "Get":
		v, err := st.Get(k)
		if err != nil {
			return errRes(err)
		}
		return res("val", abst(v))
	case "Delete":
		if err := st.Delete(k); err != nil {
			return errRes(err)
		}
		return res("ok", "")
	case "Exists":
		b, err := st.Exists(k)
		if err != nil {
			return errRes(err)
		}
		return res("bool", b)
	case "SetNX":
		b, err := st.SetNX(k, conc(o["v"]), c.ttl(o["ttl"]))
		if err != nil {
			return errRes(err)
		}
		return res("bool", b)
	case "CAS":
		var old any
		if o["old"].(string) != "nil" {
			old = conc(o["old"])
		}
		b, err := st.CompareAndSwap(k, old, conc(o["v"]), c.ttl(o["ttl"]))
		if err != nil {
			return errRes(err)
		}
		return res("bool", b)
	case "SetExp":
		if err := st.SetExpiration(k, c.ttl(o["ttl"])); err != nil {
			return errRes(err)
		}
		return res("ok", "")
	case "GetExp":
		d, err := st.GetExpiration(k)
		if err != nil {
			return errRes(err)
		}
		switch {
		case d <= 0:
			return res("ttl", "never")
		case d <= c.short:
			return res("ttl", "S")
		default:
			return res("ttl", "L")
		}
	case "SetList":
		vs := []any{}
		for _, x := range o["vs"].([]any) {
			vs = append(vs, conc(x))
		}
		if err := st.SetList(k, vs, c.ttl(o["ttl"])); err != nil {
			return errRes(err)
		}
		return res("ok", "")
	case "GetList":
		l, err := st.GetList(k)
		if err != nil {
			if errors.Is(err, types.ErrKeyNotFound) {
				return res("list", []any{}) // Appendix B: a missing list reads as the empty list
			}
			return errRes(err)
		}
		c.hold("GetList", l)
		out := []any{}
		for _, x := range l {
			out = append(out, abst(x))
		}
		return res("list", out)
	case "Append":
		if err := st.AppendToList(k, conc(o["v"])); err != nil {
			return errRes(err)
		}
		return res("ok", "")
	case "Remove":
		if err := st.RemoveFromList(k, conc(o["v"])); err != nil {
			return errRes(err)
		}
		return res("ok", "")
	case "SetHash":
		if err := st.SetHash(k, o["f"].(string), conc(o["v"])); err != nil {
			return errRes(err)
		}
		return res("ok", "")
	case "GetHash":
		v, err := st.GetHash(k, o["f"].(string))
		if err != nil {
			return errRes(err)
		}
		return res("val", abst(v))
	case "GetAllHash":
		h, err := st.GetAllHash(k)
		if err != nil {
			if errors.Is(err, types.ErrKeyNotFound) {
				return res("pairs", []any{})
			}
			return errRes(err)
		}
		c.hold("GetAllHash", h)
		fs := make([]string, 0, len(h))
		for f := range h {
			fs = append(fs, f)
		}
		sort.Strings(fs)
		out := []any{}
		for _, f := range fs {
			out = append(out, []any{f, abst(h[f])})
		}
		return res("pairs", out)
	case "DelHash":
		if err := st.DeleteHash(k, o["f"].(string)); err != nil {
			return errRes(err)
		}
		return res("ok", "")
	case "IncrBy":
		n, err := st.IncrBy(k, int64(o["n"].(float64)))
		if err != nil {
			return errRes(err)
		}
		return res("int", n)
	case "Sweep":
		// the expiry sweep: an explicit CleanupExpired (a no-op on Redis), or - bg - the storage's own ticker goroutine
		if c.bg {
			time.Sleep(bgWait)
			return res("ok", "")
		}
		if err := st.CleanupExpired(); err != nil {
			return errRes(err)
		}
		return res("ok", "")
	}
	panic(fmt.Sprintf("unknown op %v", o))
}

type behaviour struct {
	Backend  string      `json:"backend"`
	Steps    []step      `json:"steps,omitempty"`
	Prog     [][]step    `json:"prog,omitempty"` // concurrent program: one script per client goroutine
	Rep      int         `json:"rep,omitempty"`
	Hammer   string      `json:"hammer,omitempty"` // "hash": tight concurrent loops on one hash key (no per-op events)
	Race     string      `json:"race,omitempty"`   // SetNX | CAS | IncrBy | Append: Racers callers per round on one fresh key
	Racers   int         `json:"racers,omitempty"`
	Rounds   int         `json:"rounds,omitempty"`
	BudgetMs int         `json:"budget_ms,omitempty"`
	Bg       bool        `json:"bg,omitempty"`    // sequential behaviour with the StartCleanup ticker running (memory backend)
	Sweep    *sweepBatch `json:"sweep,omitempty"` // sweep-race batch (sweep.go)
}

// ---- concurrent part: runs in a child process so that a fatal runtime error ("concurrent map
// read and map write" cannot be recovered) is observed by the parent instead of killing the check.

func childMain() {
	var beh behaviour
	if err := json.NewDecoder(os.Stdin).Decode(&beh); err != nil {
		fmt.Fprintln(os.Stderr, "child: bad input:", err)
		os.Exit(3)
	}
	ctx, cancel := context.WithCancel(context.Background())
	defer cancel()
	if beh.Sweep != nil {
		childSweep(beh.Sweep)
		return
	}
	m := memory.New(ctx)
	c := &clockCtl{short: shortTTL}
	if beh.Race != "" {
		childRace(m, beh)
		return
	}
	var seq atomic.Int64
	type rec struct {
		seq int64
		ev  fw.Event
	}
	n := len(beh.Prog)
	if beh.Hammer != "" {
		n = 4
	}
	bufs := make([][]rec, n)
	start := make(chan struct{})
	var wg sync.WaitGroup
	for p := 0; p < n; p++ {
		wg.Add(1)
		go func(p int) {
			defer wg.Done()
			name := fmt.Sprintf("p%d", p+1)
			<-start
			if beh.Hammer == "hash" {
				deadline := time.Now().Add(120 * time.Millisecond)
				for i := 0; time.Now().Before(deadline); i++ {
					switch p {
					case 0:
						m.SetHash("h1", fmt.Sprintf("f%d", i%64), "x")
					case 1:
						m.DeleteHash("h1", fmt.Sprintf("f%d", i%64))
					case 2:
						m.GetAllHash("h1")
					case 3:
						m.GetHash("h1", "f1")
					}
				}
				return
			}
			for _, o := range beh.Prog[p] {
				s1 := seq.Add(1)
				bufs[p] = append(bufs[p], rec{s1, fw.Event{"ev": "Call", "p": name, "o": o}})
				r := runOp(m, c, o)
				s2 := seq.Add(1)
				bufs[p] = append(bufs[p], rec{s2, fw.Event{"ev": "Ret", "p": name, "o": o, "res": r, "be": "memory"}})
			}
		}(p)
	}
	close(start)
	wg.Wait()
	var all []rec
	for _, b := range bufs {
		all = append(all, b...)
	}
	sort.Slice(all, func(i, j int) bool { return all[i].seq < all[j].seq })
	enc := json.NewEncoder(os.Stdout)
	for _, r := range all {
		enc.Encode(r.ev)
	}
	fmt.Println(`{"ev":"ChildDone"}`)
}

// childRace: Rounds rounds; in each, Racers persistent goroutines are released together by a spin
// barrier and issue the same kind of operation on one fresh key. Rounds with the same outcome are
// aggregated into one Race event (with a count).
func childRace(m *memory.Storage, beh behaviour) {
	enc := json.NewEncoder(os.Stdout)
	n := beh.Racers
	bools := make([]bool, n)
	ints := make([]int64, n)
	var gen, done, curRound, spin atomic.Int64
	var key atomic.Value
	key.Store("")
	stop := false
	for i := 0; i < n; i++ {
		go func(i int) {
			last := int64(0)
			for {
				for gen.Load() == last {
					runtime.Gosched()
				}
				last = gen.Load()
				if stop {
					return
				}
				k := key.Load().(string)
				switch beh.Race {
				case "SetNX":
					bools[i], _ = m.SetNX(k, fmt.Sprintf("v%d", i), 0)
				case "CAS":
					bools[i], _ = m.CompareAndSwap(k, nil, fmt.Sprintf("v%d", i), 0)
				case "IncrBy":
					ints[i], _ = m.IncrBy(k, 1)
				case "Append":
					m.AppendToList(k, fmt.Sprintf("m%d", i))
				case "GetMut":
					ok := true
					for j := 0; j < 24; j++ {
						switch i % 4 {
						case 0: // lifetime flips between never and long: the entry is rewritten in place
							if j%2 == 0 {
								m.SetExpiration(k, time.Hour)
							} else {
								m.SetExpiration(k, 0)
							}
						case 1:
							var ttl time.Duration
							if j%2 == 0 {
								ttl = time.Hour
							}
							m.CompareAndSwap(k, "live", "live", ttl) // the renew-lease pattern
						case 2:
							if _, err := m.Get(k); err != nil {
								ok = false
							}
						case 3:
							if ex, err := m.Exists(k); err != nil || !ex {
								ok = false
							}
						}
					}
					bools[i] = ok
				case "ExpSet":
					switch i % 4 {
					case 0:
						// let the readers' expiry checks go first: the window is "reader saw the entry expired,
						// writer Sets, reader evicts"; vary the writer's delay by a few hundred nanoseconds
						rd := int(curRound.Load())
						for j := 0; j < (rd%8)*40; j++ {
							spin.Add(1)
						}
						// every operation that writes over an expired entry (spec/MemImpl.tla: each is one write-locked section)
						switch (rd / 8) % 6 {
						case 0:
							m.Set(k, "fresh", 0)
						case 1:
							m.SetNX(k, "fresh", 0)
						case 2:
							m.CompareAndSwap(k, nil, "fresh", 0)
						case 3:
							m.IncrBy(k, 1)
						case 4:
							m.SetHash(k, "f", "fresh")
						case 5:
							m.AppendToList(k, "fresh")
						}
					case 1:
						m.GetExpiration(k)
					case 2:
						m.GetHash(k, "f")
					case 3:
						m.GetAllHash(k)
					}
					if i == 7 { // one racer in eight also takes the read paths that only answer today (lazy deletion there would race the same way)
						switch int(curRound.Load()) % 3 {
						case 0:
							m.Get(k)
						case 1:
							m.Exists(k)
						case 2:
							m.GetList(k)
						}
					}
				}
				done.Add(1)
			}
		}(i)
	}
	type outcome struct {
		trues    int
		distinct bool
		final    int64
	}
	counts := map[outcome]int{}
	// time-boxed: on a loaded machine fewer rounds are run rather than blowing the check's budget
	deadline := time.Now().Add(time.Duration(beh.BudgetMs) * time.Millisecond)
	for round := 0; round < beh.Rounds && (round%64 != 0 || time.Now().Before(deadline)); round++ {
		k := fmt.Sprintf("race:%d", round)
		if beh.Race == "ExpSet" {
			// an expired entry that the sweeper has not removed yet
			m.Set(k, "old", 150*time.Microsecond)
			time.Sleep(250 * time.Microsecond)
		}
		if beh.Race == "GetMut" {
			m.Set(k, "live", 0)
		}
		key.Store(k)
		curRound.Store(int64(round))
		done.Store(0)
		gen.Add(1)
		for done.Load() < int64(n) {
			runtime.Gosched()
		}
		o := outcome{distinct: true}
		seen := map[int64]bool{}
		for i := 0; i < n; i++ {
			if bools[i] {
				o.trues++
			}
			if seen[ints[i]] {
				o.distinct = false
			}
			seen[ints[i]] = true
		}
		switch beh.Race {
		case "IncrBy":
			o.final, _ = m.IncrBy(k, 0)
		case "Append":
			l, _ := m.GetList(k)
			o.final = int64(len(l))
		case "ExpSet":
			// whatever the writers' operation was, the key is live afterwards (Set / SetNX / CAS(nil) / IncrBy / SetHash / Append
			// on an expired entry all create it anew; the second writer finds it live and leaves it live)
			if ex, err := m.Exists(k); err == nil && ex {
				o.final = 1
			}
		}
		m.Delete(k)
		counts[o]++
	}
	stop = true
	gen.Add(1)
	for o, c := range counts {
		enc.Encode(fw.Event{"ev": "Race", "be": "memory", "kind": beh.Race, "n": n, "trues": o.trues, "distinct": o.distinct, "final": o.final, "count": c})
	}
	fmt.Println(`{"ev":"ChildDone"}`)
}

// raceSem: spin-barrier race children need real CPUs (9 spinning goroutines each); more than a few
// at once starve each other and the race windows are no longer hit.
var raceSem = make(chan struct{}, 3)

// sweep-race batches: four writers, a sweeper and the ticker goroutine each, in short bursts
var sweepSem = make(chan struct{}, 4)

func driveConc(beh behaviour, raw []byte) *fw.Trace {
	if beh.Race != "" {
		raceSem <- struct{}{}
		defer func() { <-raceSem }()
	}
	if beh.Sweep != nil {
		sweepSem <- struct{}{}
		defer func() { <-sweepSem }()
	}
	exe, err := os.Executable()
	if err != nil {
		return &fw.Trace{Status: fw.DriverError, Note: err.Error()}
	}
	ctx, cancel := context.WithTimeout(context.Background(), 180*time.Second)
	defer cancel()
	cmd := exec.CommandContext(ctx, exe, "--child")
	cmd.Stdin = bytes.NewReader(raw)
	var out, errb bytes.Buffer
	cmd.Stdout, cmd.Stderr = &out, &errb
	runErr := cmd.Run()
	t := &fw.Trace{Status: fw.Realised}
	done := false
	for _, line := range bytes.Split(out.Bytes(), []byte("\n")) {
		if len(bytes.TrimSpace(line)) == 0 {
			continue
		}
		var e fw.Event
		if json.Unmarshal(line, &e) != nil {
			continue
		}
		if e["ev"] == "ChildDone" {
			done = true
			if r, ok := e["rounds"].(float64); ok && r == 0 && runErr == nil {
				return &fw.Trace{Status: fw.Inconclusive, Note: "every sweep-race round exceeded its timing budget"}
			}
			continue
		}
		t.Events = append(t.Events, e)
	}
	if done && runErr == nil {
		return t
	}
	stderr := errb.String()
	// DESIGN.md §5 C13: the Go runtime's own report of an unsynchronised map access is the one
	// driver death that is a verdict (atomicity clause); anything else is a harness failure.
	for _, what := range []string{"concurrent map read and map write", "concurrent map writes", "concurrent map iteration and map write"} {
		if strings.Contains(stderr, "fatal error: "+what) {
			// keep only complete call/return pairs seen before the crash out of the trace: the judge needs none
			t.Events = []fw.Event{{"ev": "Fatal", "what": strings.ReplaceAll(what, " ", "-"), "be": "memory"}}
			return t
		}
	}
	if len(stderr) > 600 {
		stderr = stderr[:600]
	}
	return &fw.Trace{Status: fw.DriverError, Note: fmt.Sprintf("child failed: %v: %s", runErr, stderr)}
}

// The driver-made concurrent cases (hammer, race rounds, sweep-race batches) are time-boxed children that mostly wait
// for their own clocks; the framework drives them last. They are started when they are made (ExtraBeh) so that they
// run alongside the sequential behaviours instead of after them; Drive then only collects the trace. (A replay has no
// ExtraBeh call: Drive runs the child itself.)
var pre struct {
	sync.Mutex
	m map[string]chan *fw.Trace
}

func prestart(data json.RawMessage) {
	var beh behaviour
	if json.Unmarshal(data, &beh) != nil {
		return
	}
	ch := make(chan *fw.Trace, 1)
	pre.Lock()
	if pre.m == nil {
		pre.m = map[string]chan *fw.Trace{}
	}
	pre.m[string(data)] = ch
	pre.Unlock()
	go func() {
		defer func() {
			if r := recover(); r != nil {
				ch <- &fw.Trace{Status: fw.DriverError, Note: fmt.Sprint("prestarted child: ", r)}
			}
		}()
		ch <- driveConc(beh, data)
	}()
}

func prestarted(data json.RawMessage) *fw.Trace {
	pre.Lock()
	ch := pre.m[string(data)]
	delete(pre.m, string(data))
	pre.Unlock()
	if ch == nil {
		return nil
	}
	return <-ch
}

func drive(env *fw.Env, b fw.Behaviour) *fw.Trace {
	var beh behaviour
	if err := json.Unmarshal(b.Data, &beh); err != nil {
		return &fw.Trace{Status: fw.DriverError, Note: err.Error()}
	}
	if t := prestarted(b.Data); t != nil {
		return t
	}
	if beh.Prog != nil || beh.Hammer != "" || beh.Race != "" || beh.Sweep != nil {
		return driveConc(beh, b.Data)
	}
	ctx, cancel := context.WithCancel(context.Background())
	defer cancel()
	var st backend
	c := &clockCtl{short: shortTTL}
	switch beh.Backend {
	case "memory":
		m := memory.New(ctx)
		defer m.Close()
		st = m
		if beh.Bg {
			// the ticker goroutine, restarted once (a StartCleanup after a StopCleanup must sweep too)
			m.StartCleanup(time.Hour)
			m.StopCleanup()
			m.StartCleanup(bgInterval)
			c.bg = true
		}
	case "redis":
		mr, err := miniredis.Run()
		if err != nil {
			return &fw.Trace{Status: fw.DriverError, Note: err.Error()}
		}
		defer mr.Close()
		r, err := redisstore.New(ctx, &redisstore.Config{Addr: mr.Addr()})
		if err != nil {
			return &fw.Trace{Status: fw.DriverError, Note: err.Error()}
		}
		defer r.Close()
		st = r
		c.redis = mr
		c.short = redisShort
	default:
		return &fw.Trace{Status: fw.DriverError, Note: "backend?"}
	}
	t := &fw.Trace{Status: fw.Realised}
	c.segStart = time.Now()
	for _, s := range beh.Steps {
		if s["op"] == "Tick" {
			if c.redis == nil && time.Since(c.segStart) > segBudget {
				return &fw.Trace{Status: fw.Inconclusive, Note: "segment exceeded timing budget"}
			}
			if c.redis != nil {
				c.redis.FastForward(redisTick)
			} else {
				time.Sleep(tickSleep)
			}
			c.segStart = time.Now()
			t.Events = append(t.Events, fw.Event{"ev": "Tick"})
			continue
		}
		if s["op"] == "Evict" { // generator bookkeeping of spec/MemImpl.tla: the second section of the read before it
			continue
		}
		o := clean(s)
		r := runOp(st, c, o)
		t.Events = append(t.Events, fw.Event{"ev": "Op", "o": o, "res": r, "be": beh.Backend})
		// a read of the touched key after every mutating step: the generated behaviours are shortest paths of
		// mutating operations, so without this no answer is ever given before a later mutation (reads are pure in the
		// reference: judged like any other operation, and held for the Held comparison at the end)
		if k, ok := o["k"].(string); ok {
			var rd step
			switch {
			case o["op"] == "GetList" || o["op"] == "GetAllHash" || o["op"] == "Get" || o["op"] == "Exists" || o["op"] == "GetExp":
			case k[0] == 'l':
				rd = step{"op": "GetList", "k": k}
			case k[0] == 'h':
				rd = step{"op": "GetAllHash", "k": k}
			}
			if rd != nil {
				t.Events = append(t.Events, fw.Event{"ev": "Op", "o": rd, "res": runOp(st, c, rd), "be": beh.Backend, "mid": true})
			}
		}
	}
	for _, o := range probes(beh.Steps) {
		if beh.Backend == "redis" && o["op"] == "GetExp" && o["k"].(string)[0] != 's' && o["k"].(string)[0] != 'c' {
			continue
		}
		r := runOp(st, c, o)
		t.Events = append(t.Events, fw.Event{"ev": "Op", "o": o, "res": r, "be": beh.Backend, "probe": true})
	}
	if c.redis == nil && time.Since(c.segStart) > segBudget {
		return &fw.Trace{Status: fw.Inconclusive, Note: "segment exceeded timing budget"}
	}
	// answers given earlier must still be what they were
	bad := map[string]bool{}
	for _, h := range c.held {
		if fmt.Sprintf("%#v", h.got) != h.snap {
			bad[h.what] = true
		}
	}
	for _, what := range []string{"GetList", "GetAllHash"} {
		t.Events = append(t.Events, fw.Event{"ev": "Held", "be": beh.Backend, "what": what, "same": !bad[what]})
	}
	return t
}

// inRedisScope restricts the cross-backend clause to "the operations and value shapes the
// repositories use" (statement of C13). Redis has no empty lists/hashes (an emptied container
// is an absent key and loses its TTL), so container-existence questions and empty/short-lived
// SetList are outside that table; they stay in scope for the memory backend.
func inRedisScope(steps []step) bool {
	for _, s := range steps {
		k, _ := s["k"].(string)
		container := len(k) > 0 && (k[0] == 'l' || k[0] == 'h')
		switch s["op"] {
		case "Exists":
			if container {
				return false
			}
		case "SetList":
			if len(s["vs"].([]any)) == 0 || s["ttl"] == "S" {
				return false
			}
		case "SetExp":
			if container {
				return false
			}
		}
	}
	return true
}

// probes observe the state the last operation left behind (result + remaining-lifetime class).
func probes(steps []step) []step {
	keys := map[string]bool{}
	var order []string
	for _, s := range steps {
		if k, ok := s["k"].(string); ok && !keys[k] {
			keys[k] = true
			order = append(order, k)
		}
	}
	sort.Strings(order)
	var out []step
	for _, k := range order {
		switch k[0] {
		case 's':
			out = append(out, step{"op": "Get", "k": k}, step{"op": "GetExp", "k": k})
		case 'l':
			out = append(out, step{"op": "GetList", "k": k}, step{"op": "GetExp", "k": k})
		case 'h':
			out = append(out, step{"op": "GetAllHash", "k": k}, step{"op": "GetExp", "k": k})
		case 'c':
			out = append(out, step{"op": "GetExp", "k": k}, step{"op": "IncrBy", "k": k, "n": float64(0)})
		}
	}
	return out
}

// showDeviations: under each named deviation of spec/MemImpl.tla TLC must exhibit the violated clause
// (MemImpl_show_*.cfg) - the model really contains the mechanism and the invariants are not vacuous.
var showResult chan error

func showDeviations(env *fw.Env) error {
	type show struct{ cfg, inv string }
	shows := []show{{"MemImpl_show_sweepnorecheck.cfg", "StoresAgree"}, {"MemImpl_show_evictnorecheck.cfg", "StoresAgree"}, {"MemImpl_show_sweepptr.cfg", "StoresAgree"}}
	if env.Tier == "thorough" {
		shows = append(shows, show{"MemImpl_show_sweepnaive.cfg", "StoresAgree"}, show{"MemImpl_show_lazyreads.cfg", "StoresAgree"},
			show{"MemImpl_show_oldcas.cfg", "AnswersAgree"}, show{"MemImpl_show_oldsetexp.cfg", "StoresAgree"})
	}
	errs := make([]error, len(shows))
	var wg sync.WaitGroup
	sem := make(chan struct{}, 3)
	for i, sh := range shows {
		wg.Add(1)
		go func(i int, sh show) {
			defer wg.Done()
			sem <- struct{}{}
			defer func() { <-sem }()
			r, err := fw.RunTLC(fw.TLCJob{Name: "show:" + sh.cfg, Module: "MemImpl", Cfg: sh.cfg, Workers: 1})
			if err != nil {
				errs[i] = err
			} else if r.OK || !strings.Contains(r.Violation, sh.inv) {
				errs[i] = fmt.Errorf("spec/%s no longer exhibits %s violated (ok=%v violation=%q)", sh.cfg, sh.inv, r.OK, r.Violation)
			}
		}(i, sh)
	}
	wg.Wait()
	for _, err := range errs {
		if err != nil {
			return err
		}
	}
	fmt.Printf("[model] %d named deviations of spec/MemImpl.tla: TLC exhibits the violated clause for each (expected)\n", len(shows))
	return nil
}

func main() {
	if len(os.Args) > 1 && os.Args[1] == "--child" {
		childMain()
		return
	}
	fw.Main(&fw.Property{
		ID:        "C13",
		DesignRef: "DESIGN.md §5 C13",
		ModelJobs: func(env *fw.Env) []fw.TLCJob {
			// implementation-shaped model of the memory backend, section by section (two clients, the explicit and the ticker
			// sweeper, clock ticks anywhere), refines the reference: all reachable maps x all operations, also mid-sweep
			showResult = make(chan error, 1)
			go func() { showResult <- showDeviations(env) }()
			fams := []string{`{"s1"}`, `{"l1"}`, `{"h1"}`, `{"c1"}`}
			if env.Tier == "thorough" {
				fams = append(fams, `{"s1", "s2"}`, `{"s1", "l1"}`, `{"h1", "c1"}`)
			}
			mk := func(name, keys, sweep, lazy string) fw.TLCJob {
				return fw.TLCJob{Name: name, Module: "MemImpl", Cfg: "MemImpl.cfg", Workers: 4,
					Consts: map[string]string{"KEYS": keys, "OLDCAS": "FALSE", "OLDSETEXP": "FALSE", "PROCS": `{"p1", "p2"}`, "SWEEPERS": `{"ex", "bg"}`,
						"SWEEP": sweep, "LAZY": lazy}}
			}
			var jobs []fw.TLCJob
			for i, k := range fams {
				jobs = append(jobs, mk(fmt.Sprintf("mc:MemImpl:%d", i), k, `"locked"`, "FALSE"))
			}
			if env.Tier == "thorough" {
				// the correct variants: a two-section sweep that tests again before deleting; lazy deletion on every read path with the re-test
				for i, k := range append(fams[:4:4], `{"s1", "s2"}`, `{"h1", "c1"}`) {
					jobs = append(jobs, mk(fmt.Sprintf("mc:MemImpl:scan_recheck+lazy:%d", i), k, `"scan_recheck"`, "TRUE"))
				}
			}
			return jobs
		},
		GenJobs: func(env *fw.Env) []fw.TLCJob {
			cfgs := []string{"KV_str1.cfg", "KV_list.cfg", "KV_hash.cfg", "KV_ctr.cfg"}
			if env.Tier == "thorough" {
				cfgs = append(cfgs, "KV_str2.cfg")
			}
			var jobs []fw.TLCJob
			for _, c := range cfgs {
				jobs = append(jobs, fw.TLCJob{Name: "gen:" + c, Module: "KV", Cfg: c, Consts: map[string]string{"EMIT": "TRUE"}, Workers: 4})
			}
			// the sweep from every reachable (map, reference, clock) of the implementation-shaped model, and every operation
			// that can land between the scan and the delete of a sweep (sweep.go)
			for i, k := range []string{`{"s1"}`, `{"l1"}`, `{"h1"}`, `{"c1"}`} {
				jobs = append(jobs, fw.TLCJob{Name: fmt.Sprintf("gen:MemImpl:%d", i), Module: "MemImpl", Cfg: "MemImpl_gen.cfg", Workers: 1,
					Consts: map[string]string{"KEYS": k}})
			}
			// concurrent programs (3 clients x 3 operations per key-type family), drawn by TLC simulation
			num := "num=12"
			if env.Tier == "thorough" {
				num = "num=150"
			}
			for i, keys := range []string{`{"s1"}`, `{"l1"}`, `{"h1"}`, `{"c1"}`, `{"s1", "s2"}`} {
				jobs = append(jobs, fw.TLCJob{Name: fmt.Sprintf("prog:%d", i), Module: "KVProg", Cfg: "KVProg.cfg", Workers: 1,
					Simulate: num, Depth: 12, Seed: env.Seed + int64(i),
					Consts: map[string]string{"KEYS": keys, "NP": "3", "NOPS": "3"}})
			}
			return jobs
		},
		Expand: func(env *fw.Env, src string, raw json.RawMessage) []json.RawMessage {
			var out []json.RawMessage
			if strings.HasPrefix(src, "prog:") {
				var prog [][]step
				if err := json.Unmarshal(raw, &prog); err != nil {
					panic(err)
				}
				reps := 4
				if env.Tier == "thorough" {
					reps = 10
				}
				for r := 0; r < reps; r++ {
					out = append(out, fw.MustJSON(behaviour{Backend: "memory", Prog: prog, Rep: r + 1}))
				}
				return out
			}
			var steps []step
			if err := json.Unmarshal(raw, &steps); err != nil {
				panic(err)
			}
			if strings.HasPrefix(src, "gen:MemImpl") {
				if steps[len(steps)-1]["op"] != "Sweep" {
					addRecipe(env, src, steps) // an operation landing between scan and delete: driven in batches (ExtraBeh)
					return nil
				}
				// [path, Sweep]: with an explicit CleanupExpired, with the storage's own ticker goroutine, and on Redis (no sweep)
				steps = seqSteps(steps)
				out = append(out, fw.MustJSON(map[string]any{"backend": "memory", "steps": steps, "bg": true}))
			}
			out = append(out, fw.MustJSON(map[string]any{"backend": "memory", "steps": steps}))
			if inRedisScope(steps) {
				out = append(out, fw.MustJSON(map[string]any{"backend": "redis", "steps": steps}))
			}
			return out
		},
		ExtraBeh: func(env *fw.Env) []json.RawMessage {
			n := 6
			if env.Tier == "thorough" {
				n = 40
			}
			out := sweepBatches(env)
			for i := 0; i < n; i++ {
				out = append(out, fw.MustJSON(behaviour{Backend: "memory", Hammer: "hash", Rep: i + 1}))
			}
			rounds, reps, budget := 30000, 2, 2500
			if env.Tier == "thorough" {
				rounds, reps, budget = 300000, 4, 20000
			}
			for _, kind := range []string{"SetNX", "CAS", "IncrBy", "Append", "ExpSet", "GetMut"} {
				n := reps
				if kind == "ExpSet" || kind == "GetMut" {
					n = reps * 3 // the window (expiry check under the read lock, eviction under the write lock) is hit in <1% of rounds
				}
				for r := 0; r < n; r++ {
					out = append(out, fw.MustJSON(behaviour{Backend: "memory", Race: kind, Racers: 8, Rounds: rounds, BudgetMs: budget, Rep: r + 1}))
				}
			}
			for _, d := range out {
				prestart(d)
			}
			return out
		},
		SelfTest: func(env *fw.Env, acc []*fw.Trace) []*fw.Trace {
			// flip one recorded result per trace: found<->not-found, true<->false, n<->n+1
			var out []*fw.Trace
			id := 1 << 24
			// sweep-race batches first (a flipped answer after `Racing` must be rejected under NotAtomic like any other)
			sort.SliceStable(acc, func(i, j int) bool {
				return bytes.Contains(acc[i].Beh.Data, []byte(`"sweep":`)) && !bytes.Contains(acc[j].Beh.Data, []byte(`"sweep":`))
			})
			for _, t := range acc {
				if len(out) >= 60 {
					break
				}
				idx := -1
				for i, e := range t.Events {
					if r, ok := e["res"].(map[string]any); ok && e["ev"] == "Op" { // sequential traces only: a flipped result of a concurrent history can still be linearizable
						if r["t"] == "bool" || r["t"] == "int" || r["t"] == "val" {
							idx = i
						}
					}
				}
				if idx < 0 {
					continue
				}
				c := &fw.Trace{Status: fw.Realised, Beh: t.Beh}
				id++
				c.Beh.ID = id
				for i, e := range t.Events {
					ne := fw.Event{}
					for k, v := range e {
						ne[k] = v
					}
					if i == idx {
						r := e["res"].(map[string]any)
						nr := map[string]any{"t": r["t"], "v": r["v"]}
						switch r["t"] {
						case "bool":
							nr["v"] = !(r["v"].(bool))
						case "int":
							switch n := r["v"].(type) {
							case int64:
								nr["v"] = n + 1
							case float64:
								nr["v"] = n + 1
							}
						case "val":
							nr["t"], nr["v"] = "nf", ""
						}
						ne["res"] = nr
					}
					c.Events = append(c.Events, ne)
				}
				out = append(out, c)
			}
			return out
		},
		PostDrive: func(env *fw.Env, _ []*fw.Trace) error {
			if showResult == nil { // replay
				return nil
			}
			return <-showResult
		},
		JudgeFor: func(t *fw.Trace) (string, string) {
			var beh behaviour
			json.Unmarshal(t.Beh.Data, &beh)
			if beh.Prog != nil || beh.Hammer != "" || beh.Race != "" {
				return "KVConcTrace", "KVConcTrace.cfg"
			}
			return "", ""
		},
		Drive:       drive,
		Parallel:    64,
		JudgeModule: "KVTrace",
		JudgeCfg:    "KVTrace.cfg",
		Rule:        "one behaviour per transition (state, operation) of the reference KV state graph per key-type family, replayed on each backend; one per (state, Sweep) of the implementation-shaped model; one sweep-race recipe per (state with a sweep between scan and delete, operation); non-trivial = realised trace with at least 2 operations",
		Assumptions: []string{"short TTL 120ms / tick 200ms realise the model's discrete clock on the memory backend (600ms / 900ms in the sweep-race batches); behaviours and rounds that overran the margin are discarded as inconclusive",
			"miniredis stands in for Redis; its clock is advanced virtually",
			"there is no seam inside the mutex sections of the memory backend: what races (callers, evicting reads, the sweep) runs free, many keys and rounds per recipe; a window that was never hit is not reported"},
		TrustedBase: []string{"TLC", "spec/KVRef.tla as the reading of 'simple sequential map with expiry'", "result normalisation in drivers/c13"},
	})
}
