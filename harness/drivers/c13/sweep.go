// C13 - the expiry sweep (CleanupExpired, explicit or from the StartCleanup ticker) racing client operations.
//
// spec/MemImpl.tla (generator configuration MemImpl_gen.cfg, Sweep = "scan_recheck": the finest section structure a
// sweep can have) prints one behaviour per (state with a sweep between its scan and its delete, client operation):
// a sequential prefix that leaves the key expired-but-unswept, the scan, and the operations that land before the
// delete. There is no seam inside the mutex sections of the memory backend, so the part after the scan is run
// free-running: per recipe a handful of keys, writers applying the racing operations while sweepers sweep the same map,
// then every key is read back. Each key's history is sequential (one writer per key) and the sweep is not an
// operation of the reference, so it is judged by KVTrace like any sequential history (clause NotAtomic after `Racing`).
package main

import (
	"context"
	"encoding/json"
	"fmt"
	"os"
	"runtime"
	"sort"
	"sync"
	"sync/atomic"
	"time"

	"tunnox-core/internal/core/storage/memory"
	"tunnox-core/verifharness/fw"
)

const (
	// the race children have their own, wider clock: a round is one burst of a few thousand operations on a loaded machine
	raceShort = 600 * time.Millisecond
	raceTick  = 900 * time.Millisecond
	raceSeg   = 120 * time.Millisecond // a prefix segment; the last one + the race + the read-back together: 2 x raceSeg (margin 2.5 to raceShort)
)

type recipe struct {
	Setup []step `json:"setup"` // sequential prefix (operations and Ticks) - ends with the key in the state the scan sees
	Race  []step `json:"race"`  // operations of the one client that land between scan and delete
}

type sweepBatch struct {
	Recipes  []recipe `json:"recipes"`
	Keys     int      `json:"keys"`   // keys per recipe and round
	Rounds   int      `json:"rounds"` // upper bound; time-boxed by BudgetMs
	BudgetMs int      `json:"budget_ms"`
}

// recipeOf splits a generated behaviour at its last SweepScan. Steps of the prefix: client operations, Tick,
// completed earlier sweeps (SweepDel -> a Sweep operation); Evict markers belong to the read before them.
func recipeOf(steps []step) (recipe, bool) {
	cut := -1
	for i, s := range steps {
		if s["op"] == "SweepScan" {
			cut = i
		}
	}
	if cut < 0 {
		return recipe{}, false
	}
	var r recipe
	for i, s := range steps {
		if i == cut {
			continue
		}
		switch s["op"] {
		case "Evict", "SweepScan", "StartCleanup", "StopCleanup":
			continue
		case "SweepDel":
			s = step{"op": "Sweep"}
		}
		if i < cut {
			r.Setup = append(r.Setup, clean(s))
		} else {
			r.Race = append(r.Race, clean(s))
		}
	}
	return r, len(r.Race) > 0
}

// clean drops the generator's bookkeeping (expected result, process / sweeper name) from a step.
func clean(s step) step {
	o := step{}
	for k, v := range s {
		if k != "exp" && k != "p" && k != "s" {
			o[k] = v
		}
	}
	return o
}

func raceClass(r recipe) string {
	b, _ := json.Marshal(r.Race)
	return string(b)
}

func ticksIn(steps []step) int {
	n := 0
	for _, s := range steps {
		if s["op"] == "Tick" {
			n++
		}
	}
	return n
}

// withKey returns the step with its model key replaced by the concrete key of this (recipe, slot).
func withKey(s step, key string) step {
	o := step{}
	for k, v := range s {
		o[k] = v
	}
	if _, ok := o["k"]; ok {
		o["k"] = key
	}
	return o
}

// childSweep runs a batch; output: one Op/Tick/Racing history per (recipe, distinct outcome), separated by Reset.
func childSweep(b *sweepBatch) {
	enc := json.NewEncoder(os.Stdout)
	type slot struct {
		r, j int
		key  string
		segs [][]step // setup operations per clock segment (aligned to the end: every recipe races at the same instant)
		res  []map[string]any
		c    *clockCtl
	}
	maxT := 0
	for _, r := range b.Recipes {
		if t := ticksIn(r.Setup); t > maxT {
			maxT = t
		}
	}
	outcomes := make([]map[string]int, len(b.Recipes)) // recipe -> outcome (JSON of the result vector) -> rounds*keys
	modes := make([]map[string]string, len(b.Recipes)) // outcome -> sweep mode it was first seen under
	for i := range outcomes {
		outcomes[i] = map[string]int{}
		modes[i] = map[string]string{}
	}
	deadline := time.Now().Add(time.Duration(b.BudgetMs) * time.Millisecond)
	done, discarded := 0, 0
	for round := 0; round < b.Rounds && (round == 0 || time.Now().Before(deadline)); round++ {
		ctx, cancel := context.WithCancel(context.Background())
		m := memory.New(ctx)
		var slots []*slot
		for j := 0; j < b.Keys; j++ { // slot-major order: the keys of one recipe are spread over the whole burst
			for ri, r := range b.Recipes {
				mk, _ := firstKey(r)
				s := &slot{r: ri, j: j, key: fmt.Sprintf("%s:%d:%d:%d", mk, round, ri, j), c: &clockCtl{short: raceShort}}
				s.segs = make([][]step, maxT+1)
				seg := maxT - ticksIn(r.Setup)
				for _, st := range r.Setup {
					if st["op"] == "Tick" {
						seg++
						continue
					}
					s.segs[seg] = append(s.segs[seg], st)
				}
				slots = append(slots, s)
			}
		}
		ok := true
		// sequential prefix, segment by segment
		var tLast time.Time // start of the last prefix segment: what it writes with the short lifetime must still be live at the read-back
		for seg := 0; seg <= maxT && ok; seg++ {
			t0 := time.Now()
			tLast = t0
			for _, s := range slots {
				for _, st := range s.segs[seg] {
					s.res = append(s.res, runOp(m, s.c, withKey(st, s.key)))
				}
			}
			if time.Since(t0) > raceSeg {
				ok = false
			}
			if seg < maxT {
				time.Sleep(raceTick)
			}
		}
		// the race: writers walk over the slots while the sweepers run
		mode := []string{"explicit", "ticker", "both"}[round%3]
		if ok {
			const writers = 4
			var start, stop atomic.Bool
			var wg, swg sync.WaitGroup
			off := (round * 7) % len(slots)
			for w := 0; w < writers; w++ {
				wg.Add(1)
				go func(w int) {
					defer wg.Done()
					for !start.Load() {
						runtime.Gosched()
					}
					for i := w; i < len(slots); i += writers {
						s := slots[(i+off)%len(slots)]
						for _, st := range b.Recipes[s.r].Race {
							s.res = append(s.res, runOp(m, s.c, withKey(st, s.key)))
						}
					}
				}(w)
			}
			if mode != "ticker" {
				swg.Add(1)
				go func() {
					defer swg.Done()
					for !start.Load() {
						runtime.Gosched()
					}
					for !stop.Load() {
						m.CleanupExpired()
					}
				}()
			}
			if mode != "explicit" {
				// the ticker goroutine of the storage itself (restarted once: a second StartCleanup after StopCleanup must sweep too)
				m.StartCleanup(time.Hour)
				m.StopCleanup()
				m.StartCleanup(20 * time.Microsecond)
			}
			start.Store(true)
			wg.Wait()
			stop.Store(true)
			swg.Wait()
			if mode != "explicit" {
				m.StopCleanup()
			}
			// read every key back
			for _, s := range slots {
				r := b.Recipes[s.r]
				for _, p := range probes(append(append([]step{}, r.Setup...), r.Race...)) {
					s.res = append(s.res, runOp(m, s.c, withKey(p, s.key)))
				}
			}
			if time.Since(tLast) > 2*raceSeg {
				ok = false
			}
		}
		m.Close()
		cancel()
		if !ok {
			discarded++
			continue
		}
		done++
		for _, s := range slots {
			raw, _ := json.Marshal(s.res)
			if _, seen := modes[s.r][string(raw)]; !seen {
				modes[s.r][string(raw)] = mode
			}
			outcomes[s.r][string(raw)]++
		}
	}
	for ri, r := range b.Recipes {
		var outs []string
		for o := range outcomes[ri] {
			outs = append(outs, o)
		}
		sort.Strings(outs)
		mk, _ := firstKey(r)
		for _, o := range outs {
			var res []map[string]any
			json.Unmarshal([]byte(o), &res)
			i := 0
			emit := func(st step, extra string) {
				e := fw.Event{"ev": "Op", "o": withKey(st, mk), "res": res[i], "be": "memory"}
				if extra != "" {
					e[extra] = true
				}
				enc.Encode(e)
				i++
			}
			for t := ticksIn(r.Setup); t < maxT; t++ {
				enc.Encode(fw.Event{"ev": "Tick"})
			}
			for _, st := range r.Setup {
				if st["op"] == "Tick" {
					enc.Encode(fw.Event{"ev": "Tick"})
					continue
				}
				emit(st, "")
			}
			enc.Encode(fw.Event{"ev": "Racing", "with": "sweep", "mode": modes[ri][o], "count": outcomes[ri][o], "recipe": ri})
			for _, st := range r.Race {
				emit(st, "")
			}
			for _, p := range probes(append(append([]step{}, r.Setup...), r.Race...)) {
				emit(p, "probe")
			}
			enc.Encode(fw.Event{"ev": "Reset"})
		}
	}
	fmt.Printf(`{"ev":"ChildDone","rounds":%d,"discarded":%d}`+"\n", done, discarded)
}

func firstKey(r recipe) (string, bool) {
	for _, s := range append(append([]step{}, r.Setup...), r.Race...) {
		if k, ok := s["k"].(string); ok {
			return k, true
		}
	}
	return "", false
}

// ---- collecting the generated recipes into batches (Expand -> ExtraBeh) ---------------------------------

var sweepRecipes struct {
	sync.Mutex
	byFam map[string][]recipe
	seen  map[string]bool
}

// addRecipe keeps the behaviour of a race generation job for the batches built by sweepBatches.
// Quick tier: one recipe per distinct racing sequence of at most two operations (the prefix - which value the expired
// entry held - varies in the thorough tier, which keeps everything).
func addRecipe(env *fw.Env, src string, steps []step) {
	r, ok := recipeOf(steps)
	if !ok {
		return
	}
	sweepRecipes.Lock()
	defer sweepRecipes.Unlock()
	if sweepRecipes.byFam == nil {
		sweepRecipes.byFam = map[string][]recipe{}
		sweepRecipes.seen = map[string]bool{}
	}
	if env.Tier != "thorough" {
		if len(r.Race) > 2 {
			return
		}
		cl := src + raceClass(r)
		if sweepRecipes.seen[cl] {
			return
		}
		sweepRecipes.seen[cl] = true
	}
	sweepRecipes.byFam[src] = append(sweepRecipes.byFam[src], r)
}

func sweepBatches(env *fw.Env) []json.RawMessage {
	sweepRecipes.Lock()
	defer sweepRecipes.Unlock()
	var fams []string
	for f := range sweepRecipes.byFam {
		fams = append(fams, f)
	}
	sort.Strings(fams)
	var all []recipe
	for _, f := range fams {
		rs := sweepRecipes.byFam[f]
		sort.SliceStable(rs, func(i, j int) bool {
			a, _ := json.Marshal(rs[i])
			b, _ := json.Marshal(rs[j])
			return string(a) < string(b)
		})
		all = append(all, rs...)
	}
	// batches mix the key-type families (one map holds strings, lists, hashes and counters, as in the server)
	per, keys, rounds, budget := 160, 6, 4, 5000
	if env.Tier == "thorough" {
		per, keys, rounds, budget = 200, 8, 12, 20000
	}
	nb := (len(all) + per - 1) / per
	var out []json.RawMessage
	for bi := 0; bi < nb; bi++ {
		var rs []recipe
		for i := bi; i < len(all); i += nb { // interleaved: every batch gets every family
			rs = append(rs, all[i])
		}
		out = append(out, fw.MustJSON(behaviour{Backend: "memory", Sweep: &sweepBatch{Recipes: rs, Keys: keys, Rounds: rounds, BudgetMs: budget}}))
	}
	return out
}

// seqSteps: a generated path as a sequential behaviour (a completed two-section sweep is one Sweep step).
func seqSteps(steps []step) []step {
	var out []step
	for _, s := range steps {
		switch s["op"] {
		case "Evict", "SweepScan", "StartCleanup", "StopCleanup":
			continue
		case "SweepDel":
			s = step{"op": "Sweep"}
		}
		out = append(out, clean(s))
	}
	return out
}
