package main

// Scene "auto": Connect() without a configured server runs the automatic end-point detection
// (auto_connector.go): every compiled-in protocol is dialled concurrently at the public addresses, the first
// completed handshake wins.  In a child process the four protocol names are re-registered with dial functions
// that lead to this world's scripted server (the addresses are constants of the client, the world is found
// through the goroutine's ancestry).

import (
	"context"
	"errors"
	"net"
	"time"

	"tunnox-core/internal/client"
	"tunnox-core/internal/client/transport"
)

var autoW *world

func newAutoWorld(tmp string, b *behaviour) *world {
	works := map[string]bool{}
	for _, p := range b.Eps {
		works[p] = true
	}
	for i, p := range []string{"websocket", "quic", "tcp", "kcp"} {
		proto := p
		transport.RegisterProtocol(proto, 10*(i+1), func(ctx context.Context, address string) (net.Conn, error) {
			w := autoW
			if w == nil {
				return nil, errors.New("x05: no auto world")
			}
			if !works[proto] {
				return w.dialWith(ctx, "fail")
			}
			return w.dialWith(ctx, "")
		})
	}
	w := &world{tmp: tmp, dialRes: map[string]string{}, inflight: map[string]string{}, notes: map[string]int{}, freeCh: make(chan struct{}), anon: b.Anon}
	w.t0 = time.Now()
	w.id = "auto"
	worlds.Store(w.id, w)
	cc := &client.ClientConfig{ClientID: 4711, SecretKey: "k"}
	if b.Anon {
		cc = &client.ClientConfig{}
	}
	gids.Store(goid(), &ginfo{w: w, role: "drv"})
	w.cl = client.NewClientWithCLIFlags(context.Background(), cc, false, false, w.cfgFile())
	autoW = w
	return w
}
