package main

import (
	"encoding/json"
	"fmt"
	"os"
	"strings"

	"tunnox-core/verifharness/fw"
)

func rep(s string, n int) string {
	out := make([]string, n)
	for i := range out {
		out[i] = s
	}
	return strings.Join(out, ",")
}

// extraBeh: driver-made life cycles - free-running in this process (the in-process ReconnectConfig) and scenes
// in child processes (other configurations, process exit, auto-detection).
func extraBeh(env *fw.Env) []json.RawMessage {
	var out []json.RawMessage
	add := func(b behaviour) { out = append(out, fw.MustJSON(b)) }
	free := func(tag string, script ...string) { add(behaviour{Scene: "free", Tag: tag, Script: script}) }
	rounds := 2
	if env.Tier == "thorough" {
		rounds = 12
	}
	rng := fw.NewRand(env.Seed)
	for i := 0; i < rounds; i++ {
		how := []string{"rst", "eof"}[i%2]
		free("drop", "connect", "drop:"+how, "waitconn:4000")
		free("fails", "connect", "plan:fail,fail,other,fail", "drop:"+how, "waitconn:6000")
		// the user connects by hand while the loop is waiting (CLI `connect`): still one connection afterwards
		free("uconnect", "connect", "plan:"+rep("fail", 3), "drop:"+how, "waitdials:4", "uconnect", "sleep:400")
		free("stop-backoff", "connect", "plan:"+rep("fail", 8), "drop:"+how, "waitdials:3", "stop", "sleep:200")
		free("stop-handshake", "connect", "plan:silent", "drop:"+how, "waitdials:2", "sleep:20", "stop", "sleep:100")
		free("stop-connected", "connect", "stop", "sleep:100")
		free("kick", "connect", "kick", "sleep:300")
		free("reconnect-api", "connect", "reconnect", "waitconn:3000", "sleep:200")
		free("disconnect", "connect", "disconnect", "waitconn:3000", "sleep:100")
		free("silent", "connect", "plan:silent", "drop:"+how, "waitdials:2", "sleep:700", "waitconn:3000")
		free("stop-race", "connect", "drop:"+how, fmt.Sprintf("sleep:%d", 15+rng.Intn(40)), "stop", "sleep:200")
		// churn
		var sc []string
		sc = append(sc, "connect")
		for j := 0; j < 6; j++ {
			switch rng.Intn(6) {
			case 0:
				sc = append(sc, "drop:rst")
			case 1:
				sc = append(sc, "drop:eof")
			case 2:
				sc = append(sc, "plan:"+rep("fail", 1+rng.Intn(2)), "drop:rst")
			case 3:
				sc = append(sc, "plan:other", "drop:eof")
			case 4:
				sc = append(sc, "disconnect")
			case 5:
				sc = append(sc, "reconnect")
			}
			sc = append(sc, fmt.Sprintf("sleep:%d", rng.Intn(120)), "waitconn:4000")
		}
		if rng.Intn(2) == 0 {
			sc = append(sc, "stop", "sleep:150")
		}
		free("churn", sc...)
	}
	free("hb", "connect", "hbwait", "drop:rst", "waitconn:4000", "hbwait", "sleep:50")
	// child processes
	child := func(tag string, c rcfg, script ...string) {
		add(behaviour{Scene: "child", Tag: tag, Cfg: &c, Script: script})
	}
	def := rcfg{InitMs: 30, MaxMs: 120, Bo: 2, Jit: 30, Enabled: true}
	child("auth", def, "connect", "plan:auth", "drop:rst", "sleep:1500")
	child("auth-later", def, "connect", "plan:fail,other,auth", "drop:eof", "sleep:2500")
	child("maxatt", rcfg{InitMs: 20, MaxMs: 80, Bo: 2, Jit: 30, MaxAtt: 3, Enabled: true}, "connect", "plan:"+rep("fail", 12), "drop:rst", "sleep:1500")
	child("breaker", rcfg{InitMs: 20, MaxMs: 40, Bo: 2, Jit: 30, BrkN: 2, BrkMs: 400, Enabled: true}, "connect", "plan:"+rep("fail", 4), "drop:rst", "waitconn:8000")
	child("backoff", rcfg{InitMs: 60, MaxMs: 500, Bo: 2, Jit: 30, Enabled: true}, "connect", "plan:"+rep("fail", 5), "drop:eof", "waitconn:9000")
	child("backoff3", rcfg{InitMs: 10, MaxMs: 300, Bo: 3, Jit: 50, Enabled: true}, "connect", "plan:"+rep("fail", 5), "drop:eof", "waitconn:9000")
	child("disabled", rcfg{InitMs: 20, MaxMs: 80, Bo: 2, Jit: 30, Enabled: false}, "connect", "drop:rst", "sleep:500")
	// automatic end-point detection
	auto := func(tag string, anon bool, eps ...string) {
		add(behaviour{Scene: "auto", Tag: tag, Cfg: &def, Anon: anon, Eps: eps, Script: []string{"connect", "sleep:800", "waitconn:3000", "sleep:200"}})
	}
	auto("auto:tcp", false, "tcp")
	auto("auto:all", false, "websocket", "quic", "tcp", "kcp")
	auto("auto:anon1", true, "quic")
	auto("auto:anon", true, "websocket", "quic", "tcp", "kcp")
	auto("auto:none", false)
	return out
}

// selfTest: corrupted copies of accepted traces that the judge must reject
func selfTest(env *fw.Env, acc []*fw.Trace) []*fw.Trace {
	var out []*fw.Trace
	id := 1 << 20
	clone := func(t *fw.Trace) *fw.Trace {
		n := &fw.Trace{Beh: t.Beh, Status: t.Status}
		for _, e := range t.Events {
			c := fw.Event{}
			for k, v := range e {
				c[k] = v
			}
			n.Events = append(n.Events, c)
		}
		id++
		n.Beh.ID = id
		return n
	}
	cnt := map[string]int{}
	const per = 4
	for _, t := range acc {
		if len(t.Events) == 0 {
			continue
		}
		fi := len(t.Events) - 1
		fin := t.Events[fi]
		if fin["ev"] != "Final" {
			continue
		}
		stopRet, stopCall, kick, hsOK, drops := -1, -1, -1, 0, 0
		for i, e := range t.Events {
			switch {
			case e["ev"] == "Ret" && e["op"] == "Stop":
				stopRet = i
			case e["ev"] == "Call" && e["op"] == "Stop":
				stopCall = i
			case e["ev"] == "Kick":
				kick = i
			case e["ev"] == "Hs" && e["r"] == "ok":
				hsOK++
			case e["ev"] == "Drop":
				drops++
			}
		}
		estab, _ := fin["estab"].([]int)
		open, _ := fin["open"].([]int)
		// (1) a second established connection at rest
		if len(estab) == 1 && cnt["onelive"] < per {
			n := clone(t)
			n.Events[fi]["estab"] = []int{estab[0], estab[0] + 50}
			n.Events[fi]["open"] = append(append([]int{}, open...), estab[0]+50)
			out = append(out, n)
			n.Note = "onelive"
			cnt["onelive"]++
		}
		// (2) a reconnect loop left after Stop
		if stopRet >= 0 && t.Events[0]["cal"] == true && cnt["stopclean"] < per {
			n := clone(t)
			n.Events[fi]["rc"] = 1
			out = append(out, n)
			n.Note = "stopclean"
			cnt["stopclean"]++
		}
		// (3) a socket left open after Stop returned
		if stopRet >= 0 && cnt["stopopen"] < per {
			n := clone(t)
			n.Events[fi]["open"] = append(append([]int{}, open...), 77)
			out = append(out, n)
			n.Note = "stopopen"
			cnt["stopopen"]++
		}
		// (4) at rest, disconnected, although nothing released the client
		if stopCall < 0 && kick < 0 && hsOK >= 1 && fin["connected"] == true && len(estab) == 1 && cnt["recovers"] < per && t.Events[0]["enabled"] == true {
			relErr := false
			for _, e := range t.Events {
				if (e["ev"] == "Ret" && e["op"] == "Reconnect" && e["r"] == "err") || e["ev"] == "GaveUp" || (e["ev"] == "Hs" && e["r"] == "auth") {
					relErr = true
				}
			}
			if !relErr {
				n := clone(t)
				n.Events[fi]["connected"] = false
				n.Events[fi]["estab"] = []int{}
				n.Events[fi]["open"] = []int{}
				out = append(out, n)
				n.Note = "recovers"
				cnt["recovers"]++
			}
		}
		// (5) the loop dials at the moment it armed its timer
		if cnt["backoff"] < per {
			for i, e := range t.Events {
				if e["ev"] == "Wait" {
					for j := i + 1; j < len(t.Events); j++ {
						f := t.Events[j]
						if f["ev"] == "Wait" {
							break
						}
						if f["ev"] == "Dial" && f["by"] == "rc" {
							n := clone(t)
							n.Events[j]["t"] = e["t"]
							out = append(out, n)
							n.Note = "backoff"
							cnt["backoff"]++
							break
						}
					}
					break
				}
			}
		}
		// (6) the drop that explains a close is removed: the client closed a healthy connection
		if drops > 0 && stopCall < 0 && cnt["spurious"] < per {
			for i, e := range t.Events {
				if e["ev"] != "Drop" {
					continue
				}
				c := e["c"]
				est, closedLater, userAct := false, false, false
				for j, f := range t.Events {
					if f["ev"] == "Hs" && f["r"] == "ok" && f["c"] == c && j < i {
						est = true
					}
					if f["ev"] == "Closed" && f["c"] == c && j > i {
						closedLater = true
					}
					if f["ev"] == "Call" && (f["op"] == "Disconnect" || f["op"] == "Reconnect") {
						userAct = true
					}
					if f["ev"] == "Kick" {
						userAct = true
					}
				}
				if est && closedLater && !userAct {
					n := clone(t)
					n.Events = append(n.Events[:i:i], n.Events[i+1:]...)
					out = append(out, n)
					n.Note = "spurious"
					cnt["spurious"]++
				}
				break
			}
		}
		// (7) connected at rest without a read loop
		if t.Events[0]["cal"] == true && stopCall < 0 && kick < 0 && fin["connected"] == true && len(estab) == 1 && cnt["served"] < per {
			n := clone(t)
			n.Events[fi]["rl"] = 0
			out = append(out, n)
			n.Note = "served"
			cnt["served"]++
		}
	}
	if f := os.Getenv("X05_STDEBUG"); f != "" {
		var buf []byte
		for _, t := range out {
			for _, e := range t.Events {
				c := fw.Event{"tr": t.Beh.ID}
				for k, v := range e {
					c[k] = v
				}
				buf = append(append(buf, fw.MustJSON(c)...), '\n')
			}
			buf = append(append(buf, fw.MustJSON(fw.Event{"ev": "End", "tr": t.Beh.ID, "kind": t.Note})...), '\n')
		}
		os.WriteFile(f, buf, 0o644)
	}
	return out
}
