package main

// Execution of behaviours on the real client:
//   - scheduled: a TLC-generated schedule of spec/CtrlConn.tla, step by step (one goroutine moves per step);
//   - free: a seeded script of user calls and server faults, everything free-running;
//   - child: a free script in a child process with its own ReconnectConfig (MaxAttempts, circuit breaker,
//     larger delays) or one that ends in os.Exit (authentication failure), or the auto-detection scene.

import (
	"bufio"
	"encoding/json"
	"fmt"
	"os"
	"os/exec"
	"runtime"
	"strconv"
	"strings"
	"sync"
	"time"

	"tunnox-core/internal/client"
	"tunnox-core/verifharness/fw"
)

type step struct {
	P string `json:"p"`
	A string `json:"a"`
	X string `json:"x"`
	C int    `json:"c"`
	M string `json:"m"`
	R string `json:"r"`
}

type rcfg struct {
	InitMs  int  `json:"init"`
	MaxMs   int  `json:"max"`
	Bo      int  `json:"bo"`
	Jit     int  `json:"jit"` // percent
	MaxAtt  int  `json:"maxAtt"`
	BrkN    int  `json:"brkN"`
	BrkMs   int  `json:"brkMs"`
	Enabled bool `json:"enabled"`
}

type behaviour struct {
	Fixed     bool   `json:"fixed"`
	MaxAtt    int    `json:"maxAtt"`
	Init      bool   `json:"init"`
	Steps     []step `json:"steps"`
	SceneName string `json:"sn,omitempty"`

	Scene  string   `json:"scene,omitempty"` // "" scheduled | free | child | auto
	Script []string `json:"script,omitempty"`
	Cfg    *rcfg    `json:"cfg,omitempty"`
	Tag    string   `json:"tag,omitempty"`
	Anon   bool     `json:"anon,omitempty"`
	Eps    []string `json:"eps,omitempty"` // auto scene: protocols whose end-point works
}

// the in-process configuration of the reconnect loop (one per process: DefaultReconnectConfig is a package variable)
var procCfg = rcfg{InitMs: 30, MaxMs: 120, Bo: 2, Jit: 30, MaxAtt: 0, BrkN: 0, BrkMs: 0, Enabled: true}

func applyCfg(c rcfg) {
	procCfg = c
	client.DefaultReconnectConfig = client.ReconnectConfig{
		Enabled: c.Enabled, InitialDelay: time.Duration(c.InitMs) * time.Millisecond, MaxDelay: time.Duration(c.MaxMs) * time.Millisecond,
		MaxAttempts: c.MaxAtt, Backoff: float64(c.Bo), JitterFactor: float64(c.Jit) / 100,
		CircuitBreakerEnabled: c.BrkN > 0, CircuitBreakerThreshold: c.BrkN, CircuitBreakerTimeout: time.Duration(c.BrkMs) * time.Millisecond,
	}
}

func (w *world) logCfg(tag string) {
	c := procCfg
	w.log(fw.Event{"ev": "Cfg", "tag": tag, "init": c.InitMs, "max": c.MaxMs, "bo": c.Bo, "jit": c.Jit, "maxAtt": c.MaxAtt,
		"brkN": c.BrkN, "brkMs": c.BrkMs, "enabled": c.Enabled, "cal": calibrated, "hooks": hooksOn, "dl": hsDeadline, "auto": w.id == "auto"})
}

const (
	stepWait = 1200 * time.Millisecond // a released goroutine reaches its next seam (>= 10x what it takes on an idle machine)
	tickWait = 6500 * time.Millisecond // the 5 s heart-beat ticker
)

type runner struct {
	w     *world
	calls map[string]*callRec
	note  string
}

func (r *runner) fail(f string, a ...any) bool {
	r.note = fmt.Sprintf(f, a...) + " parked=" + strings.Join(r.w.parkedList(), ",")
	return false
}

// prefix: Connect() to an established connection (the initial state of the model when InitConn).
func (r *runner) prefix() bool {
	w := r.w
	cr := w.call("u0", "Connect")
	pg := w.waitParked(stepWait, "dl", "dial", -1, "u0")
	if pg == nil {
		return r.fail("prefix: no dial")
	}
	w.release(pg)
	if hooksOn {
		pg = w.waitParked(stepWait, "u0", "dialed", -1, "")
		if pg == nil {
			return r.fail("prefix: Connect did not come back from the dial")
		}
		w.release(pg)
	}
	if !waitFor(stepWait, func() bool { c := w.conn(1); return c != nil && c.hsRequests() >= 1 }) {
		return r.fail("prefix: no handshake")
	}
	w.conn(1).decide <- "ok"
	if !cr.wait(stepWait) || cr.r != "ok" {
		return r.fail("prefix: Connect %q", cr.r)
	}
	return r.rlReading(1)
}

func (c *fconn) hsRequests() int {
	c.mu.Lock()
	defer c.mu.Unlock()
	return c.hsReq
}

func (r *runner) rlReading(c int) bool {
	fc := r.w.conn(c)
	if fc == nil {
		return r.fail("no connection %d", c)
	}
	if !waitFor(stepWait, func() bool {
		for _, role := range fc.blocked() {
			if role == "rl" {
				return true
			}
		}
		return false
	}) {
		return r.fail("read loop is not reading connection %d", c)
	}
	return true
}

// outcome waits for what follows the return of Connect() of caller x.
func (r *runner) connectOutcome(x string, res string, before map[string]int) bool {
	w := r.w
	if x != "rc" {
		cr := r.calls[x]
		if cr == nil {
			return r.fail("%s has no call", x)
		}
		if !cr.wait(stepWait) {
			return r.fail("%s: call did not return", x)
		}
		if cr.r != res {
			return r.fail("%s: call returned %s, model says %s", x, cr.r, res)
		}
		delete(r.calls, x)
		return true
	}
	// the loop: success ends it, failure leads to the next wait (or to its end: stopped / gave up)
	if res == "ok" {
		if w.waitParked(stepWait, "rc", "rc.done", -1, "") == nil {
			return r.fail("rc: the loop did not report success")
		}
		return true
	}
	if !waitFor(stepWait, func() bool {
		return w.noted("rc.failed") > before["rc.failed"]
	}) {
		return r.fail("rc: attempt did not fail")
	}
	// next wait or gone
	waitFor(20*time.Millisecond, func() bool { return w.find("rc", "rc.wait", -1, "") != nil })
	return true
}

func (w *world) notesSnapshot() map[string]int {
	w.mu.Lock()
	defer w.mu.Unlock()
	m := map[string]int{}
	for k, v := range w.notes {
		m[k] = v
	}
	return m
}

// exec executes one model step; false = the code did not follow (diverged).
func (r *runner) exec(i int, s step) bool {
	w := r.w
	before := w.notesSnapshot()
	switch s.A {
	case "Connect", "Reconnect":
		cr := w.call(s.P, s.A)
		r.calls[s.P] = cr
		if s.R != "" { // returns at once (stopped / reconnect already in progress)
			return r.connectOutcome(s.P, s.R, before)
		}
		if w.waitParked(stepWait, "dl", "dial", -1, s.P) == nil {
			return r.fail("step %d %s: %s did not reach the dialer", i, s.A, s.P)
		}
	case "Disconnect", "Stop":
		cr := w.call(s.P, s.A)
		if !cr.wait(stepWait) {
			return r.fail("step %d %s did not return", i, s.A)
		}
		if s.A == "Stop" {
			// a Connect() waiting for its dial returns at once with the context's error
			for u, pc := range r.calls {
				if w.find("dl", "dial", -1, u) != nil {
					if !pc.wait(stepWait) || pc.r != "err" {
						return r.fail("step %d Stop: the Connect of %s did not return the context's error", i, u)
					}
					delete(r.calls, u)
				}
			}
		}
	case "DialOK", "DialFail":
		pg := w.find("dl", "dial", -1, s.X)
		if pg == nil {
			return r.fail("step %d %s: no dial of %s in flight", i, s.A, s.X)
		}
		res := "ok"
		if s.A == "DialFail" {
			res = "fail"
		} else if s.M == "silent" {
			res = "silent"
		}
		w.mu.Lock()
		w.dialRes[s.X] = res
		w.mu.Unlock()
		w.release(pg)
		if s.A == "DialFail" {
			return r.connectOutcome(s.X, "err", before)
		}
		if hooksOn {
			if w.waitParked(stepWait, s.X, "dialed", -1, "") == nil {
				return r.fail("step %d DialOK: %s did not come back from the dial", i, s.X)
			}
		} else if !waitFor(stepWait, func() bool { c := w.conn(s.C); return c != nil && c.hsRequests() >= 1 }) {
			return r.fail("step %d DialOK: no handshake request on connection %d", i, s.C)
		}
	case "Install":
		if !hooksOn {
			break // merged into DialOK
		}
		pg := w.find(s.X, "dialed", -1, "")
		if pg == nil {
			return r.fail("step %d Install: %s is not between dial and installation", i, s.X)
		}
		w.release(pg)
		if s.R == "err" { // repaired: the client was stopped meanwhile
			return r.connectOutcome(s.X, "err", before)
		}
		if !waitFor(stepWait, func() bool { c := w.conn(s.C); return c != nil && c.hsRequests() >= 1 }) {
			return r.fail("step %d Install: no handshake request on connection %d", i, s.C)
		}
	case "HsOK", "HsRej":
		fc := w.conn(s.C)
		if fc == nil || fc.hsRequests() == 0 {
			return r.fail("step %d %s: connection %d has no handshake pending", i, s.A, s.C)
		}
		if s.A == "HsOK" {
			fc.decide <- "ok"
		} else {
			fc.decide <- s.M
		}
		res := "ok"
		if s.A == "HsRej" {
			res = "err"
		}
		if !r.connectOutcome(s.X, res, before) {
			return false
		}
		if s.A == "HsOK" {
			waitFor(20*time.Millisecond, func() bool { return len(fc.blocked()) > 0 })
		}
	case "HsErr":
		if s.M == "ctx" {
			if fc := w.conn(s.C); fc != nil {
				fc.decide <- "ok" // a reply arrives; the cancelled context makes the client fail
			}
		} else {
			pg := w.waitParked(stepWait, s.X, "read.err", s.C, "")
			if pg == nil {
				return r.fail("step %d HsErr: %s is not at the failed read of connection %d", i, s.X, s.C)
			}
			w.release(pg)
		}
		return r.connectOutcome(s.X, "err", before)
	case "HsTimeout":
		return r.connectOutcome(s.X, "err", before)
	case "RLErr":
		if w.waitParked(stepWait, "rl", "read.err", s.C, "") == nil {
			return r.fail("step %d RLErr: read loop is not at the failed read of connection %d", i, s.C)
		}
	case "RLCleanup":
		pg := w.find("rl", "read.err", s.C, "")
		if pg == nil {
			return r.fail("step %d RLCleanup: read loop of %d not at its seam", i, s.C)
		}
		w.release(pg)
		if hooksOn {
			if w.waitParked(stepWait, "rl", "rl.exiting", s.C, "") == nil {
				return r.fail("step %d RLCleanup: read loop did not reach its exit", i)
			}
		} else {
			time.Sleep(2 * time.Millisecond)
		}
		if s.M == "spawn" {
			if w.waitParked(stepWait, "rc", "rc.wait", -1, "") == nil {
				return r.fail("step %d RLCleanup: no reconnect loop appeared", i)
			}
		}
	case "RLExit":
		if hooksOn {
			pg := w.find("rl", "rl.exiting", s.C, "")
			if pg == nil {
				return r.fail("step %d RLExit: read loop of %d not at its exit", i, s.C)
			}
			w.release(pg)
			time.Sleep(2 * time.Millisecond)
		}
	case "RLKick":
		fc := w.conn(s.C)
		if fc == nil {
			return r.fail("step %d RLKick: no connection %d", i, s.C)
		}
		w.log(fw.Event{"ev": "Kick", "c": s.C, "t": w.ms()})
		fc.kick()
		if hooksOn {
			if w.waitParked(stepWait, "rl", "rl.exiting", s.C, "") == nil {
				return r.fail("step %d RLKick: read loop did not reach its exit", i)
			}
		} else if !waitFor(stepWait, func() bool { return !fc.isOpen() }) {
			return r.fail("step %d RLKick: connection not closed", i)
		}
	case "HBTick":
		switch s.M {
		case "write":
			if w.waitParked(tickWait, "hb", "hb.write", s.C, "") == nil {
				return r.fail("step %d HBTick: no heart-beat write on connection %d", i, s.C)
			}
		case "nil":
			if w.waitParked(tickWait, "hb", "hb.failed", -1, "") == nil {
				return r.fail("step %d HBTick: heart-beat loop did not fail", i)
			}
		}
	case "HBWrite":
		pg := w.find("hb", "hb.write", s.C, "")
		if pg == nil {
			return r.fail("step %d HBWrite: heart-beat loop not at its write on %d", i, s.C)
		}
		fc := w.conn(s.C)
		seen := fc.hbCount()
		w.release(pg)
		if s.M == "ok" {
			if !waitFor(stepWait, func() bool { return fc.hbCount() > seen }) {
				return r.fail("step %d HBWrite: heart-beat did not arrive", i)
			}
		} else if w.waitParked(stepWait, "hb", "hb.failed", -1, "") == nil {
			return r.fail("step %d HBWrite: heart-beat loop did not fail", i)
		}
	case "HBExit":
		pg := w.find("hb", "hb.failed", -1, "")
		if pg == nil {
			return r.fail("step %d HBExit: heart-beat loop not at its exit", i)
		}
		w.release(pg)
		time.Sleep(2 * time.Millisecond)
	case "HBStop":
		// the loop sees the cancelled context by itself
	case "RCFire":
		pg := w.find("rc", "rc.wait", -1, "")
		if pg == nil {
			return r.fail("step %d RCFire: reconnect loop not at its wait", i)
		}
		w.release(pg)
		switch s.M {
		case "dial":
			var pg *pgate
			waitFor(stepWait, func() bool {
				pg = w.find("dl", "dial", -1, "rc")
				return pg != nil || w.find("rc", "rc.done", -1, "") != nil // (the repaired Connect returns at once when connected)
			})
			if pg == nil {
				return r.fail("step %d RCFire: the loop did not dial", i)
			}
		case "already":
			if w.waitParked(stepWait, "rc", "rc.done", -1, "") == nil {
				return r.fail("step %d RCFire: the loop did not end", i)
			}
		default:
			time.Sleep(3 * time.Millisecond)
		}
	case "DialLate":
		// the dial of a Connect() that has given up returns: an error, or a connection established just before the cancellation
		pg := w.find("dl", "dial", -1, "")
		if pg == nil {
			return r.fail("step %d DialLate: no abandoned dial", i)
		}
		res := "fail"
		if s.M != "err" {
			res = "late"
		}
		w.mu.Lock()
		w.dialRes[pg.g.caller] = res
		w.mu.Unlock()
		w.release(pg)
		if s.M == "err" {
			time.Sleep(2 * time.Millisecond)
			break
		}
		var fc *fconn
		if !waitFor(stepWait, func() bool { fc = w.conn(s.C); return fc != nil }) {
			return r.fail("step %d DialLate: the dialer returned no connection", i)
		}
		closed := waitFor(map[bool]time.Duration{true: stepWait, false: 20 * time.Millisecond}[s.M == "close"], func() bool { return !fc.isOpen() })
		if closed != (s.M == "close") {
			return r.fail("step %d DialLate: connection %d closed=%v, model says %s", i, s.C, closed, s.M)
		}
	case "RCDone":
		pg := w.find("rc", "rc.done", -1, "")
		if pg == nil {
			return r.fail("step %d RCDone: the loop is not at its end", i)
		}
		w.release(pg)
		if s.M == "respawn" {
			if w.waitParked(stepWait, "rc", "rc.wait", -1, "") == nil {
				return r.fail("step %d RCDone: no new reconnect loop", i)
			}
		} else {
			time.Sleep(2 * time.Millisecond)
		}
	case "SrvDrop":
		fc := w.conn(s.C)
		if fc == nil {
			return r.fail("step %d SrvDrop: no connection %d", i, s.C)
		}
		w.log(fw.Event{"ev": "Drop", "c": s.C, "how": "rst", "t": w.ms()})
		fc.drop("rst")
	default:
		r.note = "unknown step " + s.A
		return false
	}
	return true
}

func (c *fconn) hbCount() int {
	c.mu.Lock()
	defer c.mu.Unlock()
	return c.hbSeen
}

func hasHB(b *behaviour) bool {
	for _, s := range b.Steps {
		if strings.HasPrefix(s.A, "HB") && s.A != "HBStop" {
			return true
		}
	}
	return false
}

// needsHooks: some step is scheduled while a read loop sits between its clean-up and its flag reset
func needsHooks(b *behaviour) bool {
	exiting, dialed := 0, 0
	for _, s := range b.Steps {
		switch s.A {
		case "RLCleanup", "RLKick":
			if dialed > 0 {
				return true
			}
			exiting++
		case "RLExit":
			exiting--
		case "DialOK":
			if exiting > 0 {
				return true
			}
			dialed++
		case "Install":
			dialed--
		default:
			if exiting > 0 || dialed > 0 {
				return true
			}
		}
	}
	return false
}

func driveSched(env *fw.Env, b *behaviour) *fw.Trace {
	w := newWorld(env.Tmp, false)
	defer w.destroy()
	w.hbGates = hasHB(b)
	w.logCfg("sched")
	r := &runner{w: w, calls: map[string]*callRec{}}
	status := fw.Realised
	ok := true
	if b.Init {
		ok = r.prefix()
	}
	if ok {
		for i, s := range b.Steps {
			if !r.exec(i, s) {
				ok = false
				break
			}
		}
	}
	if !ok {
		status = fw.Diverged
	} else {
		w.observe("Obs")
	}
	if !finish(w, 10*time.Second) {
		if f := os.Getenv("X05_DUMP"); f != "" {
			buf := make([]byte, 4<<20)
			n := runtime.Stack(buf, true)
			evs, _ := json.Marshal(w.snapshot())
			os.WriteFile(fmt.Sprintf("%s.%d", f, os.Getpid()), append(append(evs, '\n'), buf[:n]...), 0o644)
		}
		return &fw.Trace{Status: fw.Inconclusive, Note: "did not come to rest: " + r.note}
	}
	return &fw.Trace{Status: status, Note: r.note, Events: w.snapshot()}
}

func (w *world) snapshot() []fw.Event {
	w.mu.Lock()
	defer w.mu.Unlock()
	return append([]fw.Event(nil), w.events...)
}

// finish opens every gate and waits until the client has come to rest; then records the Final observation.
// At rest: no dial in flight, no reconnect loop alive (it would dial again), no user call in flight - except
// goroutines blocked for good on a silent server without any deadline.
func finish(w *world, limit time.Duration) bool {
	w.setFree()
	quiet := 0
	last := -1
	ok := waitFor(limit, func() bool {
		cs := w.census()
		w.mu.Lock()
		dials := w.dialsIn
		nev := len(w.events)
		infl := len(w.inflight)
		conns := append([]*fconn(nil), w.conns...)
		w.mu.Unlock()
		hung := 0
		rlBlocked := 0
		for _, c := range conns {
			c.mu.Lock()
			for _, role := range c.readers {
				if role == "rl" && !c.cclosed && c.sclosed == "" {
					rlBlocked++
				}
				if role != "rl" && c.silent && c.rdl.IsZero() && !c.cclosed {
					hung++
				}
			}
			c.mu.Unlock()
		}
		rest := dials == 0 && cs.Dl == 0 && cs.Rl <= rlBlocked && (hung > 0 || (cs.Rc == 0 && infl == 0 && cs.Cn == 0))
		if rest && nev == last {
			quiet++
		} else {
			quiet = 0
		}
		last = nev
		if quiet >= 4 {
			return true
		}
		time.Sleep(2 * time.Millisecond)
		return false
	})
	if !ok {
		return false
	}
	w.observe("Final")
	return true
}

// ---------------------------------------------------------------------------------------------
// free-running scripts

func (w *world) current() *fconn {
	w.mu.Lock()
	defer w.mu.Unlock()
	for i := len(w.conns) - 1; i >= 0; i-- {
		c := w.conns[i]
		c.mu.Lock()
		ok := c.estab && !c.cclosed && c.sclosed == ""
		c.mu.Unlock()
		if ok {
			return c
		}
	}
	return nil
}

func runScript(w *world, script []string) (string, string) {
	var pending []*callRec
	for _, op := range script {
		arg := ""
		if i := strings.IndexByte(op, ':'); i >= 0 {
			op, arg = op[:i], op[i+1:]
		}
		n, _ := strconv.Atoi(arg)
		switch op {
		case "connect", "uconnect":
			if op == "uconnect" && w.cl.IsConnected() {
				continue // a user connects only when he sees the client disconnected
			}
			cr := w.call("u1", "Connect")
			if !cr.wait(8 * time.Second) {
				pending = append(pending, cr)
			}
		case "aconnect": // asynchronous
			pending = append(pending, w.call("u2", "Connect"))
		case "reconnect":
			cr := w.call("u1", "Reconnect")
			if !cr.wait(8 * time.Second) {
				pending = append(pending, cr)
			}
		case "disconnect":
			w.call("u1", "Disconnect").wait(5 * time.Second)
		case "stop":
			cr := w.call("u1", "Stop")
			if !cr.wait(8 * time.Second) {
				return fw.Inconclusive, "Stop did not return"
			}
		case "astop":
			pending = append(pending, w.call("u2", "Stop"))
		case "drop":
			if c := w.current(); c != nil {
				w.log(fw.Event{"ev": "Drop", "c": c.id, "how": arg, "t": w.ms()})
				c.drop(arg)
			}
		case "kick":
			if c := w.current(); c != nil {
				w.log(fw.Event{"ev": "Kick", "c": c.id, "t": w.ms()})
				c.kick()
			}
		case "plan": // outcomes of the next dials, comma separated
			w.mu.Lock()
			w.autoDial = append(w.autoDial, strings.Split(arg, ",")...)
			w.mu.Unlock()
		case "sleep":
			time.Sleep(time.Duration(n) * time.Millisecond)
		case "waitconn": // until an established connection exists (bounded; the judge decides at Final)
			waitFor(time.Duration(n)*time.Millisecond, func() bool { return w.current() != nil && w.cl.IsConnected() })
		case "waitdials": // until n dials have been made
			waitFor(20*time.Second, func() bool { w.mu.Lock(); defer w.mu.Unlock(); return w.dialSeq >= n })
		case "hbwait":
			c := w.current()
			if c != nil {
				seen := c.hbCount()
				waitFor(tickWait, func() bool { return c.hbCount() > seen })
			}
		}
	}
	for _, cr := range pending {
		cr.wait(3 * time.Second)
	}
	return fw.Realised, ""
}

func driveFree(env *fw.Env, b *behaviour) *fw.Trace {
	w := newWorld(env.Tmp, b.Anon)
	defer w.destroy()
	w.setFree()
	w.logCfg(b.Tag)
	st, note := runScript(w, b.Script)
	if st != fw.Realised {
		return &fw.Trace{Status: st, Note: note}
	}
	if !finish(w, 10*time.Second) {
		return &fw.Trace{Status: fw.Inconclusive, Note: "did not come to rest"}
	}
	return &fw.Trace{Status: fw.Realised, Events: w.snapshot()}
}

// ---------------------------------------------------------------------------------------------
// child processes

func driveChild(env *fw.Env, b *behaviour) *fw.Trace {
	raw, _ := json.Marshal(b)
	cmd := exec.Command(os.Args[0])
	cmd.Env = append(os.Environ(), "X05_CHILD="+string(raw), "X05_TMP="+env.Tmp,
		fmt.Sprintf("X05_FLAGS=%v,%v,%v,%v", hooksOn, logSeams, calibrated, hsDeadline))
	out, err := cmd.StdoutPipe()
	if err != nil {
		return &fw.Trace{Status: fw.DriverError, Note: err.Error()}
	}
	errBuf := &tailBuf{}
	cmd.Stderr = errBuf
	if err := cmd.Start(); err != nil {
		return &fw.Trace{Status: fw.DriverError, Note: err.Error()}
	}
	var evs []fw.Event
	status := ""
	done := make(chan struct{})
	go func() {
		defer close(done)
		sc := bufio.NewScanner(out)
		sc.Buffer(make([]byte, 1<<20), 16<<20)
		for sc.Scan() {
			line := sc.Text()
			if strings.HasPrefix(line, "EV ") {
				var e map[string]any
				if json.Unmarshal([]byte(line[3:]), &e) == nil {
					evs = append(evs, normalise(e))
				}
			} else if strings.HasPrefix(line, "STATUS ") {
				status = line[7:]
			}
		}
	}()
	timer := time.AfterFunc(60*time.Second, func() { cmd.Process.Kill() })
	<-done
	werr := cmd.Wait()
	timer.Stop()
	code := 0
	if werr != nil {
		if ee, ok := werr.(*exec.ExitError); ok {
			code = ee.ExitCode()
		} else {
			code = -1
		}
	}
	if code == 2 && status == "" {
		// a Go panic: an observation if it was raised in a goroutine of tunnox-core, else a harness failure
		tail := errBuf.String()
		if i := strings.Index(tail, "panic: "); i >= 0 && strings.Contains(tail[i:], "tunnox-core/internal/") && !strings.Contains(firstFrames(tail[i:]), "verifharness") {
			msg := tail[i:]
			if j := strings.IndexByte(msg, '\n'); j >= 0 {
				msg = msg[:j]
			}
			evs = append(evs, fw.Event{"ev": "Panic", "p": "process", "op": "crash", "site": crashSite(tail[i:]), "msg": msg})
			return &fw.Trace{Status: fw.Realised, Note: "the client crashed the process: " + msg, Events: evs}
		}
	}
	if code == -1 || code == 2 || code == 3 {
		tail := errBuf.String()
		if len(tail) > 400 {
			tail = tail[len(tail)-400:]
		}
		return &fw.Trace{Status: fw.Inconclusive, Note: fmt.Sprintf("child ended with %d (%s) %s", code, status, tail)}
	}
	if status != "" && status != fw.Realised {
		return &fw.Trace{Status: fw.Inconclusive, Note: "child: " + status}
	}
	if len(evs) == 0 {
		return &fw.Trace{Status: fw.DriverError, Note: "child produced no events"}
	}
	if status == "" {
		// the process ended inside the script: os.Exit of the client
		evs = append(evs, fw.Event{"ev": "Exit", "code": code})
	}
	return &fw.Trace{Status: fw.Realised, Events: evs}
}

// normalise turns JSON numbers back into ints
func normalise(e map[string]any) fw.Event {
	out := fw.Event{}
	for k, v := range e {
		switch x := v.(type) {
		case float64:
			out[k] = int(x)
		case []any:
			l := []int{}
			for _, y := range x {
				if f, ok := y.(float64); ok {
					l = append(l, int(f))
				}
			}
			out[k] = l
		default:
			out[k] = v
		}
	}
	return out
}

var (
	childOut  *bufio.Writer
	childMu   sync.Mutex
	streaming bool // worker process: every event is written out as it happens
)

// childMain runs one free script in this process and streams its events.
func childMain(raw string) {
	var b behaviour
	if err := json.Unmarshal([]byte(raw), &b); err != nil {
		fmt.Println("STATUS bad behaviour")
		os.Exit(3)
	}
	parseFlags(os.Getenv("X05_FLAGS"))
	setup()
	if b.Cfg != nil {
		applyCfg(*b.Cfg)
	}
	tmp := os.Getenv("X05_TMP")
	if tmp == "" {
		tmp = os.TempDir()
	}
	childOut = bufio.NewWriter(os.Stdout)
	var w *world
	if b.Scene == "auto" {
		w = newAutoWorld(tmp, &b)
	} else {
		w = newWorld(tmp, b.Anon)
	}
	w.stream = true
	w.setFree()
	w.logCfg(b.Tag)
	st, _ := runScript(w, b.Script)
	if st == fw.Realised && !finish(w, 15*time.Second) {
		st = "did not come to rest"
	}
	w.flush()
	fmt.Fprintln(childOut, "STATUS "+st)
	childOut.Flush()
	os.Exit(0)
}
