package main

// The environment of one client under test: an in-memory transport (fconn) whose far end is a scripted
// tunnox server speaking the real stream protocol, a logger double and the goroutine bookkeeping that lets
// the driver hold the client's own goroutines (read loop, heart-beat loop, reconnect loop, dial goroutine)
// at the seams of the model.

import (
	"context"
	"encoding/json"
	"errors"
	"fmt"
	"io"
	"net"
	"os"
	"regexp"
	"runtime"
	"runtime/debug"
	"sort"
	"strconv"
	"strings"
	"sync"
	"sync/atomic"
	"time"

	"tunnox-core/internal/client"
	corelog "tunnox-core/internal/core/log"
	"tunnox-core/internal/packet"
	"tunnox-core/internal/stream"
	"tunnox-core/verifharness/fw"
)

// ---------------------------------------------------------------------------------------------
// goroutine bookkeeping

type ginfo struct {
	w      *world
	role   string // u1|u2|... (driver-started API call), rl, hb, rc, dl, "" (other)
	caller string // dl: whose Connect() it belongs to (u1|u2|rc)
	conn   int    // last connection this goroutine read from / wrote to
}

var gids sync.Map // goroutine id -> *ginfo (ids are never reused)

func goid() int64 {
	var buf [64]byte
	n := runtime.Stack(buf[:], false)
	b := buf[len("goroutine "):n]
	i := 0
	for i < len(b) && b[i] != ' ' {
		i++
	}
	id, _ := strconv.ParseInt(string(b[:i]), 10, 64)
	return id
}

var reCreated = regexp.MustCompile(`created by (\S+) in goroutine (\d+)`)

// classify names the role of a goroutine of the client from its own frames (the "created by" line excluded).
func classify(frames string) string {
	switch {
	case strings.Contains(frames, "(*TunnoxClient).readLoop"):
		return "rl"
	case strings.Contains(frames, "(*TunnoxClient).heartbeatLoop"), strings.Contains(frames, "(*TunnoxClient).sendHeartbeat"):
		return "hb"
	case strings.Contains(frames, "(*TunnoxClient).reconnect("):
		return "rc"
	case strings.Contains(frames, "(*TunnoxClient).Connect.func"), strings.Contains(frames, "(*TunnoxClient).dialControl"):
		return "dl"
	}
	return ""
}

func splitCreated(stack string) (frames string, parent int64) {
	if m := reCreated.FindStringSubmatchIndex(stack); m != nil {
		parent, _ = strconv.ParseInt(stack[m[4]:m[5]], 10, 64)
		return stack[:m[0]], parent
	}
	return stack, 0
}

// identify returns the record of the calling goroutine; a goroutine seen for the first time is attributed to
// the world of the goroutine that created it.
func identify() *ginfo {
	id := goid()
	if v, ok := gids.Load(id); ok {
		return v.(*ginfo)
	}
	buf := make([]byte, 16<<10)
	n := runtime.Stack(buf, false)
	frames, parent := splitCreated(string(buf[:n]))
	g := &ginfo{role: classify(frames)}
	if pv, ok := gids.Load(parent); ok {
		pg := pv.(*ginfo)
		g.w = pg.w
		if g.role == "dl" || g.role == "" {
			if pg.role == "rc" || strings.HasPrefix(pg.role, "u") {
				g.caller = pg.role
			} else {
				g.caller = pg.caller
			}
		}
	}
	gids.Store(id, g)
	return g
}

// ---------------------------------------------------------------------------------------------
// world

type pgate struct {
	g     *ginfo
	role  string
	point string
	conn  int
	ch    chan struct{}
}

type world struct {
	id  string
	cl  *client.TunnoxClient
	t0  time.Time
	tmp string

	mu       sync.Mutex
	events   []fw.Event
	conns    []*fconn
	parked   []*pgate
	dialRes  map[string]string // caller -> result of its next dial in scheduled mode
	autoDial []string          // free mode: outcome of the next dials (ok|fail|silent|auth|other); then "ok"
	inflight map[string]string // user -> op in flight
	notes    map[string]int    // things learnt from the log
	dialSeq  int
	dialsIn  int // dial calls in flight
	hbGates  bool
	anon     bool
	stream   bool
	over     bool

	free   atomic.Bool
	freeCh chan struct{}
}

var (
	worlds   sync.Map // address -> *world
	worldSeq atomic.Int64
)

func newWorld(tmp string, anon bool) *world {
	w := &world{t0: time.Now(), tmp: tmp, dialRes: map[string]string{}, inflight: map[string]string{}, notes: map[string]int{}, freeCh: make(chan struct{}), anon: anon}
	w.id = fmt.Sprintf("w%d", worldSeq.Add(1))
	worlds.Store(w.id, w)
	cc := &client.ClientConfig{ClientID: 4711, SecretKey: "k"}
	if anon {
		cc = &client.ClientConfig{}
	}
	cc.Server.Address = w.id
	cc.Server.Protocol = "x05"
	gids.Store(goid(), &ginfo{w: w, role: "drv"})
	os.Remove(w.cfgFile())
	w.cl = client.NewClientWithCLIFlags(context.Background(), cc, false, false, w.cfgFile())
	return w
}

// cfgFile: the client saves its configuration after every handshake (and reads an existing file back into its
// in-memory configuration): one private file per process and world
func (w *world) cfgFile() string { return fmt.Sprintf("%s/x05-%d-%s.yaml", w.tmp, os.Getpid(), w.id) }

func (w *world) ms() int { return int(time.Since(w.t0) / time.Millisecond) }

func (w *world) log(e fw.Event) {
	w.mu.Lock()
	w.add(e)
	w.mu.Unlock()
}

// add appends an event (w.mu held); in a child process it is written out at once (the process may end in os.Exit).
func (w *world) add(e fw.Event) {
	if w.over {
		return // the trace ended with its Final observation; what follows is the driver tearing the world down
	}
	w.events = append(w.events, e)
	if (w.stream || streaming) && childOut != nil {
		childMu.Lock()
		childOut.WriteString("EV ")
		childOut.Write(fw.MustJSON(e))
		childOut.WriteByte('\n')
		childOut.Flush()
		childMu.Unlock()
	}
}

func (w *world) flush() {
	if childOut != nil {
		childOut.Flush()
	}
}

func (w *world) note(k string) {
	w.mu.Lock()
	w.notes[k]++
	w.mu.Unlock()
}

func (w *world) noted(k string) int {
	w.mu.Lock()
	defer w.mu.Unlock()
	return w.notes[k]
}

// gate parks the calling goroutine until the driver releases it (scheduled mode only).
func (w *world) gate(g *ginfo, role, point string, conn int) {
	if w == nil || w.free.Load() {
		return
	}
	pg := &pgate{g: g, role: role, point: point, conn: conn, ch: make(chan struct{})}
	w.mu.Lock()
	if w.free.Load() {
		w.mu.Unlock()
		return
	}
	w.parked = append(w.parked, pg)
	w.mu.Unlock()
	<-pg.ch
}

// find returns the parked goroutine matching role/point (conn < 0 and caller "" are wildcards).
func (w *world) find(role, point string, conn int, caller string) *pgate {
	w.mu.Lock()
	defer w.mu.Unlock()
	for _, pg := range w.parked {
		if pg.role == role && pg.point == point && (conn < 0 || pg.conn == conn) && (caller == "" || pg.g.caller == caller) {
			return pg
		}
	}
	return nil
}

func (w *world) release(pg *pgate) {
	w.mu.Lock()
	for i, q := range w.parked {
		if q == pg {
			w.parked = append(w.parked[:i], w.parked[i+1:]...)
			break
		}
	}
	w.mu.Unlock()
	close(pg.ch)
}

func (w *world) parkedList() []string {
	w.mu.Lock()
	defer w.mu.Unlock()
	var out []string
	for _, pg := range w.parked {
		out = append(out, fmt.Sprintf("%s@%s:%d", pg.role, pg.point, pg.conn))
	}
	return out
}

// setFree ends the scheduled part: every gate is open from now on, the server answers by itself.
func (w *world) setFree() {
	w.mu.Lock()
	if w.free.Load() {
		w.mu.Unlock()
		return
	}
	w.free.Store(true)
	close(w.freeCh)
	ps := w.parked
	w.parked = nil
	w.mu.Unlock()
	for _, pg := range ps {
		close(pg.ch)
	}
}

func waitFor(d time.Duration, pred func() bool) bool {
	dl := time.Now().Add(d)
	for {
		if pred() {
			return true
		}
		if time.Now().After(dl) {
			return false
		}
		time.Sleep(150 * time.Microsecond)
	}
}

func (w *world) waitParked(d time.Duration, role, point string, conn int, caller string) *pgate {
	var pg *pgate
	waitFor(d, func() bool { pg = w.find(role, point, conn, caller); return pg != nil })
	return pg
}

func (w *world) conn(id int) *fconn {
	w.mu.Lock()
	defer w.mu.Unlock()
	if id < 1 || id > len(w.conns) {
		return nil
	}
	return w.conns[id-1]
}

// ---------------------------------------------------------------------------------------------
// API calls of the user

type callRec struct {
	done chan struct{}
	r    string
}

func (w *world) call(u, op string) *callRec {
	cr := &callRec{done: make(chan struct{})}
	w.mu.Lock()
	w.inflight[u] = op
	w.add(fw.Event{"ev": "Call", "p": u, "op": op, "t": w.ms()})
	w.mu.Unlock()
	ready := make(chan struct{})
	go func() {
		gids.Store(goid(), &ginfo{w: w, role: u})
		close(ready)
		r := "ok"
		func() {
			defer func() {
				if p := recover(); p != nil {
					r = "panic"
					w.log(fw.Event{"ev": "Panic", "p": u, "op": op, "site": panicSite(string(debug.Stack())), "msg": fmt.Sprint(p)})
				}
			}()
			var err error
			switch op {
			case "Connect":
				err = w.cl.Connect()
			case "Reconnect":
				err = w.cl.Reconnect()
			case "Disconnect":
				err = w.cl.Disconnect()
			case "Stop":
				w.cl.Stop()
			}
			if err != nil {
				r = "err"
			}
		}()
		cr.r = r
		w.mu.Lock()
		delete(w.inflight, u)
		w.add(fw.Event{"ev": "Ret", "p": u, "op": op, "r": r, "t": w.ms()})
		w.mu.Unlock()
		close(cr.done)
	}()
	<-ready
	return cr
}

func (cr *callRec) wait(d time.Duration) bool {
	select {
	case <-cr.done:
		return true
	case <-time.After(d):
		return false
	}
}

// ---------------------------------------------------------------------------------------------
// transport double

type addr string

func (a addr) Network() string { return "x05" }
func (a addr) String() string  { return string(a) }

type timeoutErr struct{}

func (timeoutErr) Error() string   { return "i/o timeout" }
func (timeoutErr) Timeout() bool   { return true }
func (timeoutErr) Temporary() bool { return true }

type fconn struct {
	w  *world
	id int

	mu       sync.Mutex
	cv       *sync.Cond
	in       []byte // server -> client
	out      []byte // client -> server
	cclosed  bool   // the client closed its end
	sclosed  string // the server closed its end: "", "eof", "rst"
	silent   bool   // the server accepts and never answers the handshake
	plan     string // free mode: answer to the handshake (ok|auth|other)
	rdl      time.Time
	everDl   bool
	readers  map[int64]string // goroutines blocked in Read: role
	hsReq    int
	hsAns    string
	estab    bool
	anonReq  bool
	hbSeen   int
	discMsg  bool
	decide   chan string
	lost     bool // handed to nobody: the dial returned it after the caller had gone away
	timedOut bool // a read ran into the client's deadline
}

func (w *world) newConn(silent bool, plan string) *fconn {
	c := &fconn{w: w, silent: silent, plan: plan, readers: map[int64]string{}, decide: make(chan string, 1)}
	c.cv = sync.NewCond(&c.mu)
	w.mu.Lock()
	w.conns = append(w.conns, c)
	c.id = len(w.conns)
	w.mu.Unlock()
	return c
}

func (c *fconn) Read(b []byte) (int, error) {
	g := identify()
	if g.w == nil {
		g.w = c.w
	}
	g.conn = c.id
	c.mu.Lock()
	for {
		if len(c.in) > 0 && !c.cclosed {
			n := copy(b, c.in)
			c.in = c.in[n:]
			c.mu.Unlock()
			return n, nil
		}
		var err error
		switch {
		case c.cclosed:
			err = fmt.Errorf("read x05 %d: use of closed network connection", c.id)
		case c.sclosed == "rst":
			err = fmt.Errorf("read x05 %d: connection reset by peer", c.id)
		case c.sclosed == "eof":
			err = io.EOF
		case !c.rdl.IsZero() && !time.Now().Before(c.rdl):
			err = timeoutErr{}
			c.timedOut = true
		}
		if err != nil {
			c.mu.Unlock()
			// seam: the failed read returns when the driver says so
			if g.w == c.w && (g.role == "rl" || g.role == "rc" || strings.HasPrefix(g.role, "u")) {
				c.w.gate(g, roleOf(g), "read.err", c.id)
			}
			return 0, err
		}
		id := goid()
		c.readers[id] = roleOf(g)
		if !c.rdl.IsZero() {
			d := time.Until(c.rdl)
			t := time.AfterFunc(d, func() { c.mu.Lock(); c.cv.Broadcast(); c.mu.Unlock() })
			c.cv.Wait()
			t.Stop()
		} else {
			c.cv.Wait()
		}
		delete(c.readers, id)
	}
}

// roleOf: Connect() callers are named by who they are (u1, rc); loops by their role.
func roleOf(g *ginfo) string {
	if g.role == "dl" {
		return "dl"
	}
	return g.role
}

func (c *fconn) Write(b []byte) (int, error) {
	g := identify()
	if g.w == nil {
		g.w = c.w
	}
	g.conn = c.id
	if g.role == "hb" && g.w == c.w {
		c.w.mu.Lock()
		hold := c.w.hbGates
		c.w.mu.Unlock()
		if hold {
			c.w.gate(g, "hb", "hb.write", c.id)
		}
	}
	c.mu.Lock()
	defer c.mu.Unlock()
	if c.cclosed {
		return 0, fmt.Errorf("write x05 %d: use of closed network connection", c.id)
	}
	if c.sclosed != "" {
		return 0, fmt.Errorf("write x05 %d: broken pipe", c.id)
	}
	c.out = append(c.out, b...)
	c.cv.Broadcast()
	return len(b), nil
}

func (c *fconn) Close() error {
	c.mu.Lock()
	first := !c.cclosed
	c.cclosed = true
	to := c.timedOut
	c.cv.Broadcast()
	c.mu.Unlock()
	if first {
		g := identify()
		c.w.log(fw.Event{"ev": "Closed", "c": c.id, "by": roleOf(g), "to": to, "t": c.w.ms()})
	}
	return nil
}

func (c *fconn) LocalAddr() net.Addr  { return addr(fmt.Sprintf("%s/c%d", c.w.id, c.id)) }
func (c *fconn) RemoteAddr() net.Addr { return addr(c.w.id + "/srv") }
func (c *fconn) SetDeadline(t time.Time) error {
	return c.SetReadDeadline(t)
}
func (c *fconn) SetReadDeadline(t time.Time) error {
	c.mu.Lock()
	c.rdl = t
	if !t.IsZero() {
		c.everDl = true
	}
	c.cv.Broadcast()
	c.mu.Unlock()
	return nil
}
func (c *fconn) SetWriteDeadline(t time.Time) error { return nil }

func (c *fconn) isOpen() bool {
	c.mu.Lock()
	defer c.mu.Unlock()
	return !c.cclosed
}

// blocked reports the roles of the goroutines blocked in Read on this connection.
func (c *fconn) blocked() []string {
	c.mu.Lock()
	defer c.mu.Unlock()
	var out []string
	for _, r := range c.readers {
		out = append(out, r)
	}
	sort.Strings(out)
	return out
}

// the server's end
type sconn struct{ c *fconn }

func (s sconn) Read(b []byte) (int, error) {
	c := s.c
	c.mu.Lock()
	defer c.mu.Unlock()
	for {
		if len(c.out) > 0 {
			n := copy(b, c.out)
			c.out = c.out[n:]
			return n, nil
		}
		if c.cclosed || c.sclosed != "" {
			return 0, io.EOF
		}
		c.cv.Wait()
	}
}

func (s sconn) Write(b []byte) (int, error) {
	c := s.c
	c.mu.Lock()
	defer c.mu.Unlock()
	if c.cclosed || c.sclosed != "" {
		return 0, errors.New("x05 server: connection gone")
	}
	c.in = append(c.in, b...)
	c.cv.Broadcast()
	return len(b), nil
}

// drop: the server closes (eof) or resets (rst) the connection.
func (c *fconn) drop(how string) {
	c.mu.Lock()
	if c.sclosed == "" {
		c.sclosed = how
	}
	c.cv.Broadcast()
	c.mu.Unlock()
}

var anonSeq atomic.Int64

// serve is the scripted server behind one connection.
func (c *fconn) serve() {
	gids.Store(goid(), &ginfo{w: c.w, role: "srv"})
	sp := stream.NewDefaultStreamFactory(context.Background()).CreateStreamProcessor(sconn{c}, sconn{c})
	defer func() { recover() }()
	for {
		pkt, _, err := sp.ReadPacket()
		if err != nil {
			return
		}
		if pkt == nil {
			continue
		}
		switch pkt.PacketType & 0x3F {
		case packet.Handshake:
			var req packet.HandshakeRequest
			json.Unmarshal(pkt.Payload, &req)
			c.mu.Lock()
			c.hsReq++
			c.anonReq = req.ClientID == 0
			c.mu.Unlock()
			ans := c.answer()
			if ans == "" {
				continue // silent
			}
			resp := &packet.HandshakeResponse{}
			switch ans {
			case "ok":
				resp.Success = true
				if req.ClientID == 0 {
					resp.ClientID = 9000 + anonSeq.Add(1)
					resp.SecretKey = fmt.Sprintf("sk-%d", resp.ClientID)
				}
			case "auth":
				resp.Error = "authentication failed: invalid token"
			default:
				resp.Error = "server overloaded, try again later"
			}
			c.mu.Lock()
			c.hsAns = ans
			gone := c.cclosed || c.sclosed != ""
			if ans == "ok" && !gone {
				c.estab = true
			}
			c.mu.Unlock()
			if gone {
				continue
			}
			id := resp.ClientID
			if id == 0 {
				id = req.ClientID // an existing client keeps the identity it presented
			}
			c.w.log(fw.Event{"ev": "Hs", "c": c.id, "r": ans, "id": int(id), "t": c.w.ms()})
			b, _ := json.Marshal(resp)
			sp.WritePacket(&packet.TransferPacket{PacketType: packet.HandshakeResp, Payload: b}, false, 0)
		case packet.Heartbeat:
			c.mu.Lock()
			c.hbSeen++
			c.mu.Unlock()
		case packet.JsonCommand:
			if pkt.CommandPacket != nil && pkt.CommandPacket.CommandType == packet.Disconnect {
				c.mu.Lock()
				c.discMsg = true
				c.mu.Unlock()
			}
		}
	}
}

// answer decides the reply to a handshake request: the driver's decision in scheduled mode, the plan otherwise.
func (c *fconn) answer() string {
	if c.silent {
		return ""
	}
	if !c.w.free.Load() {
		select {
		case a := <-c.decide:
			return a
		case <-c.w.freeCh:
		}
		select {
		case a := <-c.decide:
			return a
		default:
		}
	}
	if c.plan != "" {
		return c.plan
	}
	return "ok"
}

func (c *fconn) kick() {
	sp := stream.NewDefaultStreamFactory(context.Background()).CreateStreamProcessor(sconn{c}, sconn{c})
	sp.WritePacket(&packet.TransferPacket{PacketType: packet.JsonCommand, CommandPacket: &packet.CommandPacket{
		CommandType: packet.KickClient, CommandId: "kick-1", CommandBody: `{"reason":"removed by administrator","code":"ADMIN"}`}}, false, 0)
}

// dialX05 is the transport's dial function (registered as protocol "x05"; the address names the world).
func dialX05(ctx context.Context, address string) (net.Conn, error) {
	v, ok := worlds.Load(address)
	if !ok {
		return nil, errors.New("x05: unknown world " + address)
	}
	return v.(*world).dial(ctx)
}

func (w *world) dial(ctx context.Context) (net.Conn, error) { return w.dialWith(ctx, "") }

func (w *world) dialWith(ctx context.Context, forced string) (net.Conn, error) {
	g := identify()
	if g.w == nil {
		g.w = w
	}
	by := g.caller
	if by == "" {
		by = g.role
	}
	w.mu.Lock()
	w.dialSeq++
	n := w.dialSeq
	w.dialsIn++
	w.add(fw.Event{"ev": "Dial", "n": n, "by": by, "t": w.ms()})
	w.mu.Unlock()
	w.gate(g, "dl", "dial", 0)
	w.mu.Lock()
	res := forced
	if res == "" {
		res = w.dialRes[by]
		delete(w.dialRes, by)
	}
	if res == "" {
		if len(w.autoDial) > 0 {
			res = w.autoDial[0]
			w.autoDial = w.autoDial[1:]
		} else {
			res = "ok"
		}
	}
	w.mu.Unlock()
	ret := func(ok bool, c int, why string) {
		w.mu.Lock()
		w.dialsIn--
		w.add(fw.Event{"ev": "DialRet", "n": n, "by": by, "ok": ok, "c": c, "why": why, "t": w.ms()})
		w.mu.Unlock()
	}
	if err := ctx.Err(); err != nil && res != "late" {
		ret(false, 0, "ctx")
		return nil, err
	}
	if res == "fail" {
		ret(false, 0, "net")
		return nil, errors.New("x05: connection refused")
	}
	plan := ""
	if res == "auth" || res == "other" {
		plan = res
	}
	c := w.newConn(res == "silent", plan)
	ret(true, c.id, "")
	go c.serve()
	return c, nil
}

// ---------------------------------------------------------------------------------------------
// logger double: the log calls of the client are seams and sources of (unjudged) progress notes

type gateLogger struct{ corelog.NopLogger }

func (gateLogger) Debugf(f string, a ...interface{}) { onLog(f, a) }
func (gateLogger) Infof(f string, a ...interface{})  { onLog(f, a) }
func (gateLogger) Warnf(f string, a ...interface{})  { onLog(f, a) }
func (gateLogger) Errorf(f string, a ...interface{}) { onLog(f, a) }

const (
	logWait     = "Client: waiting %v before reconnect attempt"
	logHbFailed = "Client: failed to send heartbeat"
	logConnDone = "Client: control connection established successfully"
	logRcDone   = "Client: reconnect successful"
	logRcFailed = "Client: reconnect attempt %d failed"
	logRlSkip   = "Client: readLoop already running"
	logGiveUp   = "Client: max reconnect attempts"
	logBreaker  = "Client: circuit breaker is open"
)

func onLog(f string, a []interface{}) {
	switch {
	case strings.HasPrefix(f, logWait):
		g := identify()
		if g.w == nil {
			return
		}
		att := 0
		if len(a) >= 2 {
			if v, ok := a[1].(int); ok {
				att = v
			}
		}
		g.w.note("rc.wait")
		g.w.gate(g, "rc", "rc.wait", 0)
		// the timer is armed right after this call returns
		g.w.log(fw.Event{"ev": "Wait", "att": att, "t": g.w.ms()})
	case strings.HasPrefix(f, logHbFailed):
		g := identify()
		if g.w == nil {
			return
		}
		g.w.note("hb.failed")
		g.w.mu.Lock()
		hold := g.w.hbGates
		g.w.mu.Unlock()
		if hold {
			g.w.gate(g, "hb", "hb.failed", g.conn)
		}
	case strings.HasPrefix(f, logConnDone):
		if g := identify(); g.w != nil {
			g.w.note("connect.done")
		}
	case strings.HasPrefix(f, logRcDone):
		// seam: Connect has returned nil, the loop has not yet released its flag
		if g := identify(); g.w != nil {
			g.w.note("rc.done")
			g.w.gate(g, "rc", "rc.done", 0)
		}
	case strings.HasPrefix(f, logRcFailed):
		if g := identify(); g.w != nil {
			g.w.note("rc.failed")
		}
	case strings.HasPrefix(f, logRlSkip):
		if g := identify(); g.w != nil {
			g.w.note("rl.skipped")
		}
	case strings.HasPrefix(f, logGiveUp):
		if g := identify(); g.w != nil {
			g.w.note("rc.gaveup")
			g.w.log(fw.Event{"ev": "GaveUp", "t": g.w.ms()})
		}
	case strings.HasPrefix(f, logBreaker):
		if g := identify(); g.w != nil {
			g.w.note("rc.breaker")
		}
	}
}

// hookPoint is the handler of the yield points (patch X05-0).
func hookPoint(name string, _ any) {
	switch name {
	case hookRlExit:
		g := identify()
		if g.w == nil {
			return
		}
		g.w.note("hook." + name)
		g.w.gate(g, "rl", "rl.exiting", g.conn)
	case hookDialed:
		// Connect has received the dialled connection and has not installed it yet
		g := identify()
		if g.w == nil {
			return
		}
		g.w.note("hook." + name)
		g.w.gate(g, g.role, "dialed", 0)
	}
}

const (
	hookRlExit = "client.readloop.exiting"
	hookDialed = "client.connect.dialed"
)

// ---------------------------------------------------------------------------------------------
// census: the goroutines of this world's client, by role, from a dump of all stacks

type census struct {
	Rl, Hb, Rc, Dl, Cn int
}

var (
	censusMu   sync.Mutex
	censusAt   time.Time
	censusData map[*world]*census
	reGoHeader = regexp.MustCompile(`^goroutine (\d+) \[`)
)

func takeCensus() map[*world]*census {
	censusMu.Lock()
	defer censusMu.Unlock()
	if censusData != nil && time.Since(censusAt) < 2*time.Millisecond {
		return censusData
	}
	buf := make([]byte, 8<<20)
	n := runtime.Stack(buf, true)
	out := map[*world]*census{}
	type rec struct {
		frames string
		parent int64
	}
	recs := map[int64]*rec{}
	for _, blk := range strings.Split(string(buf[:n]), "\n\n") {
		m := reGoHeader.FindStringSubmatch(blk)
		if m == nil {
			continue
		}
		id, _ := strconv.ParseInt(m[1], 10, 64)
		frames, parent := splitCreated(blk)
		recs[id] = &rec{frames: frames, parent: parent}
	}
	worldOf := func(id int64) *world {
		for hops := 0; hops < 6 && id != 0; hops++ {
			if v, ok := gids.Load(id); ok {
				if w := v.(*ginfo).w; w != nil {
					return w
				}
			}
			r := recs[id]
			if r == nil {
				return nil
			}
			id = r.parent
		}
		return nil
	}
	for id, r := range recs {
		role := classify(r.frames)
		inConnect := strings.Contains(r.frames, "(*TunnoxClient).Connect(") || strings.Contains(r.frames, "(*TunnoxClient).connectWithAutoDetection(")
		if role == "" && !inConnect {
			continue
		}
		w := worldOf(id)
		if w == nil {
			continue
		}
		c := out[w]
		if c == nil {
			c = &census{}
			out[w] = c
		}
		switch role {
		case "rl":
			c.Rl++
		case "hb":
			c.Hb++
		case "rc":
			c.Rc++
		case "dl":
			c.Dl++
		}
		if inConnect {
			c.Cn++
		}
	}
	censusData, censusAt = out, time.Now()
	return out
}

func (w *world) census() census {
	if c := takeCensus()[w]; c != nil {
		return *c
	}
	return census{}
}

// observe records a standstill (kind Obs) or the end of the trace (kind Final).
func (w *world) observe(kind string) {
	cs := w.census()
	w.mu.Lock()
	conns := append([]*fconn(nil), w.conns...)
	q := len(w.inflight) == 0
	dials := w.dialsIn
	w.mu.Unlock()
	open, estab, hang := []int{}, []int{}, []int{}
	for _, c := range conns {
		c.mu.Lock()
		if !c.cclosed && !c.lost {
			open = append(open, c.id)
			if c.estab && c.sclosed == "" {
				estab = append(estab, c.id)
			}
			if c.silent && c.rdl.IsZero() && len(c.readers) > 0 {
				hang = append(hang, c.id)
			}
		}
		c.mu.Unlock()
	}
	w.log(fw.Event{"ev": kind, "open": open, "estab": estab, "hang": hang, "connected": w.cl.IsConnected(), "id": int(w.cl.GetClientID()),
		"rl": cs.Rl, "hb": cs.Hb, "rc": cs.Rc, "dl": cs.Dl, "cn": cs.Cn, "dials": dials, "q": q, "t": w.ms()})
}

func (w *world) destroy() {
	defer func() { recover() }()
	w.mu.Lock()
	w.over = true
	w.mu.Unlock()
	w.setFree()
	w.cl.Close()
	w.mu.Lock()
	conns := append([]*fconn(nil), w.conns...)
	w.mu.Unlock()
	for _, c := range conns {
		c.mu.Lock()
		c.cclosed = true
		c.cv.Broadcast()
		c.mu.Unlock()
	}
	worlds.Delete(w.id)
	os.Remove(w.cfgFile())
}

// panicSite names the innermost tunnox-core function of a panicking goroutine ("stream.(*StreamProcessor).WritePacket").
func panicSite(stack string) string {
	if i := strings.Index(stack, "\npanic("); i >= 0 {
		stack = stack[i+1:]
	}
	for _, l := range strings.Split(stack, "\n") {
		if strings.HasPrefix(l, "tunnox-core/internal/") {
			if j := strings.LastIndexByte(l, '('); j > 0 {
				l = l[:j]
			}
			return strings.TrimPrefix(l, "tunnox-core/internal/")
		}
	}
	return "?"
}
