// X05 (extension): life cycle of the client's control connection - connect, handshake, keep-alive,
// read-loop failure, kick, reconnect with back-off, Stop (internal/client: control_connection*.go,
// reconnect.go, auto_connector.go, client_core.go).
//
// Model: spec/CtrlConn.tla (+CtrlConn_mc.cfg / CtrlConn_gen.cfg templates, CtrlConn_show_*.cfg);
// judge: spec/CtrlConnTrace.tla.  The driver runs the REAL TunnoxClient:
//   - transport "x05" (transport.RegisterProtocol): the dial function is a seam; it returns an in-memory
//     net.Conn whose far end is a scripted server speaking the real stream protocol (handshake replies ok /
//     refused / silent, drop, kick); a failed Read returns when the driver says so (seam), the heart-beat's
//     Write is a seam;
//   - the logger (corelog.SetDefault) is a double: the calls "waiting %v before reconnect attempt" and
//     "failed to send heartbeat" are seams of the reconnect loop and the heart-beat loop;
//   - two yield points (patch X05-0): client.readloop.exiting separates the read loop's clean-up from its end,
//     client.connect.dialed the return of the dial from the installation of the connection; without them the
//     schedules that need these seams are not driven (stated in the output);
//   - the client's own goroutines are attributed to their world and role through runtime.Stack (function
//     names, "created by ... in goroutine N"); the same dump gives the census of goroutines at a standstill;
//   - behaviours run in worker child processes (pool.go): an unrecovered panic in a goroutine of the client
//     ends the process and is an observation (Panic{crash}), not the end of the check;
//   - ReconnectConfig: client.DefaultReconnectConfig (package variable) is set to millisecond delays; other
//     configurations (MaxAttempts, circuit breaker, disabled) and scenes that end in os.Exit (authentication
//     failure) or use the automatic end-point detection run in child processes.
package main

import (
	"encoding/json"
	"fmt"
	"os"
	"strings"
	"time"
	_ "unsafe"

	"tunnox-core/internal/client/transport"
	corelog "tunnox-core/internal/core/log"
	"tunnox-core/internal/verifhook"
	"tunnox-core/verifharness/fw"
)

// the handshake deadline of the repaired client (patch X05-3); absent in the code as found (then this is a
// variable of our own and stays zero)
//
//go:linkname hsTimeoutVar tunnox-core/internal/client.ControlHandshakeTimeout
var hsTimeoutVar time.Duration

// the handshake deadline used in this process: longer than any wait of the scheduled driver (a held handshake must not expire)
const hsTimeout = 3 * time.Second

var (
	hooksOn    bool // yield point client.readloop.exiting present
	calibrated bool // the goroutine census recognises read loop, heart-beat loop, reconnect loop
	hsDeadline bool // the client bounds the handshake
	logSeams   bool // the log seams are where the driver expects them
)

func setup() {
	corelog.SetDefault(gateLogger{})
	transport.RegisterProtocol("x05", 1, dialX05)
	verifhook.Set(hookPoint)
	applyCfg(procCfg)
	if hsTimeoutVar > 0 {
		hsDeadline = true
		hsTimeoutVar = hsTimeout
	}
}

// probe: a free-running life cycle on a private world; learns what the driver can see.
func probe(tmp string) {
	w := newWorld(tmp, false)
	w.setFree()
	fail := func(f string, a ...any) {
		fmt.Printf("INCONCLUSIVE: probe: "+f+"\n", a...)
		os.Exit(2)
	}
	if cr := w.call("u1", "Connect"); !cr.wait(10*time.Second) || cr.r != "ok" {
		fail("Connect failed (%s): transport / scripted server broken", cr.r)
	}
	if !waitFor(5*time.Second, func() bool { c := w.census(); return c.Rl == 1 && c.Hb == 1 }) {
		c := w.census()
		fmt.Printf("[x05] census does not see the loops of a connected client (rl=%d hb=%d): goroutine clauses disabled\n", c.Rl, c.Hb)
	} else {
		calibrated = true
	}
	w.mu.Lock()
	w.autoDial = []string{"fail", "fail"}
	w.mu.Unlock()
	w.conn(1).drop("rst")
	sawRc := waitFor(5*time.Second, func() bool { return w.census().Rc == 1 })
	if !waitFor(10*time.Second, func() bool { return w.current() != nil && w.cl.IsConnected() }) {
		fail("the client did not reconnect after a drop")
	}
	calibrated = calibrated && sawRc
	waitFor(2*time.Second, func() bool { return w.noted("rc.done") >= 1 && w.noted("connect.done") >= 2 })
	logSeams = w.noted("rc.wait") >= 1 && w.noted("rc.done") >= 1 && w.noted("rc.failed") >= 1 && w.noted("connect.done") >= 2
	hooksOn = w.noted("hook."+hookRlExit) >= 1 && w.noted("hook."+hookDialed) >= 1
	if os.Getenv("VERIF_DEBUG") != "" {
		fmt.Printf("[x05] probe notes: %v\n", w.notesSnapshot())
	}
	w.call("u1", "Stop").wait(10 * time.Second)
	w.destroy()
}

func job(name, cfg string, fixed bool, c map[string]string) fw.TLCJob {
	consts := map[string]string{
		"MAXCONN": "3", "SCENES": "McQuick", "REJKINDS": `{"auth","other"}`, "MAXATT": "0", "FIXED": "FALSE", "SPEC": "Spec", "PROPS": "",
		"INVS":   "OneLiveOrDev NoOrphanOrDev ServedOrDev OneReconnector OneReadLoop NoSpuriousOrDev StopCleanOrDev",
		"QPROPS": "QuietAfterStopOrDev QuietAfterKick",
	}
	if fixed {
		consts["FIXED"] = "TRUE"
		consts["QPROPS"] = "QuietAfterStop QuietAfterKick"
		consts["INVS"] = "OneLive NoOrphan Served OneReconnector NoSpurious StopClean NoDeviation"
	}
	for k, v := range c {
		consts[k] = v
	}
	return fw.TLCJob{Name: name, Module: "CtrlConn", Cfg: cfg, Consts: consts, Workers: 4, Timeout: 15 * time.Minute, Heap: "3g"}
}

func modelJobs(env *fw.Env) []fw.TLCJob {
	live := map[string]string{"SPEC": "FairSpec", "PROPS": "Recovers Terminates", "SCENES": "LiveQuick"}
	att := map[string]string{"SPEC": "FairSpec", "PROPS": "Recovers Terminates", "SCENES": "AttScenes", "MAXATT": "2"}
	jobs := []fw.TLCJob{
		job("mc:fixed", "CtrlConn_mc.cfg", true, nil),
		job("mc:asis", "CtrlConn_mc.cfg", false, nil),
		job("mc:live", "CtrlConn_mc.cfg", true, live),
	}
	if env.Tier == "thorough" {
		jobs = append(jobs, job("mc:maxatt", "CtrlConn_mc.cfg", true, att))
		big := map[string]string{"MAXCONN": "4", "SCENES": "McBig"}
		live2 := map[string]string{"SPEC": "FairSpec", "PROPS": "Recovers Terminates", "SCENES": "LiveBig"}
		jobs = append(jobs, job("mc:fixed:big", "CtrlConn_mc.cfg", true, big), job("mc:asis:big", "CtrlConn_mc.cfg", false, big),
			job("mc:live:2", "CtrlConn_mc.cfg", true, live2))
	}
	return jobs
}

func genJobs(env *fw.Env) []fw.TLCJob {
	// in-process schedules never contain an authentication failure (the client ends the process)
	g := map[string]string{"REJKINDS": `{"other"}`, "SCENES": "GenQuick"}
	sm := map[string]string{"REJKINDS": `{"other"}`, "SCENES": "SimScenes", "MAXCONN": "4"}
	sim := job("gen:sim", "CtrlConn_gen.cfg", true, sm)
	lsim := job("legacy:sim", "CtrlConn_gen.cfg", false, sm)
	n := "num=60"
	if env.Tier == "thorough" {
		n = "num=400"
	}
	sim.Simulate, sim.Depth, sim.Seed, sim.Workers = n, 30, env.Seed, 1
	lsim.Simulate, lsim.Depth, lsim.Seed, lsim.Workers = n, 30, env.Seed, 1
	return []fw.TLCJob{job("gen", "CtrlConn_gen.cfg", true, g), job("legacy", "CtrlConn_gen.cfg", false, g), sim, lsim}
}

func maxBehSrc(env *fw.Env, src string) int {
	quick := env.Tier == "quick"
	switch {
	case strings.HasSuffix(src, ":sim"):
		if quick {
			return 24
		}
		return 300
	case strings.HasPrefix(src, "legacy"):
		if quick {
			return 100
		}
		return 1500
	}
	if quick {
		return 260
	}
	return 3000
}

func hash32(b []byte) uint32 {
	h := uint32(2166136261)
	for _, c := range b {
		h = (h ^ uint32(c)) * 16777619
	}
	return h
}

func expand(env *fw.Env, src string, raw json.RawMessage) []json.RawMessage {
	var b behaviour
	if err := json.Unmarshal(raw, &b); err != nil {
		panic(err)
	}
	if strings.HasSuffix(src, ":sim") && len(b.Steps) < 12 {
		return nil // -simulate prints every prefix
	}
	if b.SceneName == "hb" {
		// only schedules that use the heart-beat loop (the others are covered by scene api); each waits for the
		// 5 s ticker, so only a seeded sample is driven
		if !hasHB(&b) {
			return nil
		}
		div := uint32(40)
		if env.Tier == "thorough" {
			div = 5
		}
		if (hash32(raw)+uint32(env.Seed))%div != 0 {
			return nil
		}
	}
	if !hooksOn && needsHooks(&b) {
		return nil
	}
	if !logSeams {
		for _, s := range b.Steps {
			if s.P == "rc" || s.X == "rc" || s.M == "spawn" {
				return nil
			}
		}
	}
	return []json.RawMessage{raw}
}

func drive(env *fw.Env, beh fw.Behaviour) *fw.Trace {
	var b behaviour
	if err := json.Unmarshal(beh.Data, &b); err != nil {
		return &fw.Trace{Status: fw.DriverError, Note: err.Error()}
	}
	var t *fw.Trace
	began := time.Now()
	defer func() {
		if d := time.Since(began); d > 20*time.Second {
			fmt.Printf("[x05] behaviour %d (%s %s%s) took %.0f s\n", beh.ID, beh.Src, b.Scene, b.Tag, d.Seconds())
		}
	}()
	switch b.Scene {
	case "", "free":
		t = driveWorker(env, beh.Data)
	default:
		t = driveChild(env, &b)
	}
	if t.Status == fw.Inconclusive {
		n := t.Note
		if len(n) > 300 {
			n = n[:300]
		}
		fmt.Printf("[x05] behaviour %d (%s) inconclusive: %s\n", beh.ID, beh.Src, strings.ReplaceAll(n, "\n", " | "))
	}
	return t
}

func main() {
	if raw := os.Getenv("X05_CHILD"); raw != "" {
		childMain(raw)
		return
	}
	if flags := os.Getenv("X05_WORKER"); flags != "" {
		workerMain(flags)
		return
	}
	setup()
	tmp, err := os.MkdirTemp("", "x05-probe-")
	if err != nil {
		fmt.Println("INCONCLUSIVE:", err)
		os.Exit(2)
	}
	probe(tmp)
	os.RemoveAll(tmp)
	fmt.Printf("[x05] yield points present: %v; log seams: %v; goroutine census calibrated: %v; handshake deadline: %v\n", hooksOn, logSeams, calibrated, hsDeadline)
	if !hooksOn {
		fmt.Println("[x05] reduced coverage: schedules that hold the read loop between its clean-up and its end, or a Connect between dial and installation, are not driven (patch X05-0 absent)")
	}
	if !logSeams {
		fmt.Println("[x05] reduced coverage: the log calls used as seams of the reconnect loop were not seen; schedules of the loop are not driven")
	}
	fw.Main(&fw.Property{
		ID:          "X05",
		DesignRef:   "DESIGN.md §12 extensions: X05 control-connection life cycle",
		ModelJobs:   modelJobs,
		GenJobs:     genJobs,
		Expand:      expand,
		MaxBehSrc:   maxBehSrc,
		ExtraBeh:    extraBeh,
		Drive:       drive,
		Parallel:    16,
		JudgeModule: "CtrlConnTrace",
		JudgeCfg:    "CtrlConnTrace.cfg",
		NonTrivial: func(t *fw.Trace) bool {
			n := 0
			for _, e := range t.Events {
				if e["ev"] == "Hs" && e["r"] == "ok" {
					n++
				}
			}
			return n >= 2
		},
		Rule: "extension X05: every TLC-generated schedule of connect / handshake / read-loop failure / heart-beat / reconnect / Stop steps is forced on the real TunnoxClient over an in-memory transport with a scripted server; seeded free-running life cycles and child-process scenes (MaxAttempts, circuit breaker, authentication failure, auto-detection) in addition; the trace of calls, dials, handshakes, closes and standstill observations must satisfy CtrlConnTrace",
		Assumptions: []string{
			"the user calls Connect only when IsConnected() is false and no other user call is connecting; Reconnect/Disconnect/Stop at any time",
			"a dialer honours its context (no connection is returned after cancellation)",
			"Disconnect() followed by an automatic reconnect, a failed user Reconnect() leaving no loop, jitter above MaxDelay: contract silent, accepted",
			"the goroutine census identifies the client's loops by function name (calibrated at start; clauses disabled if it cannot)",
		},
		TrustedBase: []string{"TLC", "harness/fw", "in-memory transport and scripted server in drivers/x05", "runtime.Stack goroutine attribution"},
		SelfTest:    selfTest,
		// legacy schedules and schedules of the repaired design diverge on the other tree by construction
		RealisableFloor: 0.3,
	})
}
