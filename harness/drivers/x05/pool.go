package main

// Scheduled and free-running behaviours are executed in worker child processes, one behaviour at a time per
// worker: an unrecovered panic in a goroutine of the client (on the code as found: the reconnect loop running
// into a stream that a stale clean-up closed under it) ends the process.  A worker that dies of a Go panic
// raised in tunnox-core is the observation Panic{crash}; any other death is a harness failure.

import (
	"bufio"
	"bytes"
	"encoding/json"
	"fmt"
	"io"
	"os"
	"os/exec"
	"strings"
	"sync"
	"time"

	"tunnox-core/verifharness/fw"
)

type worker struct {
	cmd    *exec.Cmd
	in     io.WriteCloser
	out    *bufio.Reader
	errBuf *tailBuf
}

type tailBuf struct {
	mu sync.Mutex
	b  []byte
}

func (t *tailBuf) Write(p []byte) (int, error) {
	t.mu.Lock()
	t.b = append(t.b, p...)
	if len(t.b) > 64<<10 {
		t.b = t.b[len(t.b)-(48<<10):]
	}
	t.mu.Unlock()
	return len(p), nil
}

func (t *tailBuf) String() string {
	t.mu.Lock()
	defer t.mu.Unlock()
	return string(t.b)
}

var idle = make(chan *worker, 64)

func spawnWorker(tmp string) (*worker, error) {
	cmd := exec.Command(os.Args[0])
	flags := fmt.Sprintf("%v,%v,%v,%v", hooksOn, logSeams, calibrated, hsDeadline)
	cmd.Env = append(os.Environ(), "X05_WORKER="+flags, "X05_TMP="+tmp)
	in, err := cmd.StdinPipe()
	if err != nil {
		return nil, err
	}
	out, err := cmd.StdoutPipe()
	if err != nil {
		return nil, err
	}
	w := &worker{cmd: cmd, in: in, out: bufio.NewReaderSize(out, 1<<20), errBuf: &tailBuf{}}
	cmd.Stderr = w.errBuf
	if err := cmd.Start(); err != nil {
		return nil, err
	}
	return w, nil
}

func (w *worker) kill() {
	w.in.Close()
	w.cmd.Process.Kill()
	w.cmd.Wait()
}

// driveWorker runs one behaviour in a worker process.
func driveWorker(env *fw.Env, raw []byte) *fw.Trace {
	var w *worker
	select {
	case w = <-idle:
	default:
		var err error
		if w, err = spawnWorker(env.Tmp); err != nil {
			return &fw.Trace{Status: fw.DriverError, Note: "worker: " + err.Error()}
		}
	}
	line := append(bytes.ReplaceAll(raw, []byte("\n"), []byte(" ")), '\n')
	if _, err := w.in.Write(line); err != nil {
		w.kill()
		return &fw.Trace{Status: fw.Inconclusive, Note: "worker gone before the behaviour: " + err.Error()}
	}
	var evs []fw.Event
	status, note := "", ""
	timer := time.AfterFunc(45*time.Second, func() { w.cmd.Process.Kill() })
	defer timer.Stop()
	for {
		l, err := w.out.ReadString('\n')
		l = strings.TrimRight(l, "\n")
		switch {
		case strings.HasPrefix(l, "EV "):
			var e map[string]any
			if json.Unmarshal([]byte(l[3:]), &e) == nil {
				evs = append(evs, normalise(e))
			}
		case strings.HasPrefix(l, "STATUS "):
			parts := strings.SplitN(l[7:], "\t", 2)
			status = parts[0]
			if len(parts) > 1 {
				note = parts[1]
			}
		}
		if status != "" {
			select {
			case idle <- w:
			default:
				w.kill()
			}
			return &fw.Trace{Status: status, Note: note, Events: evs}
		}
		if err != nil {
			break
		}
	}
	// the worker died inside the behaviour
	w.in.Close()
	w.cmd.Wait()
	tail := w.errBuf.String()
	if i := strings.Index(tail, "panic: "); i >= 0 && strings.Contains(tail[i:], "tunnox-core/internal/") && !strings.Contains(firstFrames(tail[i:]), "verifharness") {
		msg := tail[i:]
		if j := strings.IndexByte(msg, '\n'); j >= 0 {
			msg = msg[:j]
		}
		where := crashSite(tail[i:])
		evs = append(evs, fw.Event{"ev": "Panic", "p": "process", "op": "crash", "site": where, "msg": msg})
		return &fw.Trace{Status: fw.Diverged, Note: "the client crashed the process: " + msg + " @ " + where, Events: evs}
	}
	if len(tail) > 600 {
		tail = tail[len(tail)-600:]
	}
	return &fw.Trace{Status: fw.Inconclusive, Note: "worker died: " + tail}
}

// firstFrames: the frames of the panicking goroutine (up to the first blank line)
func firstFrames(s string) string {
	if i := strings.Index(s, "\n\ngoroutine "); i >= 0 {
		s = s[i+2:]
	}
	if i := strings.Index(s, "\n\n"); i >= 0 {
		s = s[:i]
	}
	return s
}

// crashSite: the innermost tunnox-core function of the panicking goroutine
func crashSite(s string) string {
	for _, l := range strings.Split(firstFrames(s), "\n") {
		if strings.HasPrefix(l, "tunnox-core/internal/") {
			if j := strings.LastIndexByte(l, '('); j > 0 {
				l = l[:j]
			}
			return strings.TrimPrefix(l, "tunnox-core/internal/")
		}
	}
	return "?"
}

// workerMain: the loop of a worker process.
func workerMain(flags string) {
	parseFlags(flags)
	setup()
	tmp := os.Getenv("X05_TMP")
	if tmp == "" {
		tmp = os.TempDir()
	}
	in := bufio.NewReaderSize(os.Stdin, 1<<20)
	env := &fw.Env{Tmp: tmp}
	// warm-up: the first life cycle of a process pays for lazy initialisation (not recorded)
	{
		w := newWorld(tmp, false)
		w.setFree()
		w.call("u1", "Connect").wait(10 * time.Second)
		w.call("u1", "Stop").wait(10 * time.Second)
		w.destroy()
	}
	childOut = bufio.NewWriterSize(os.Stdout, 1<<16)
	for {
		line, err := in.ReadBytes('\n')
		if len(bytes.TrimSpace(line)) > 0 {
			var b behaviour
			if jerr := json.Unmarshal(line, &b); jerr != nil {
				fmt.Fprintln(os.Stderr, "worker: bad behaviour:", jerr)
				os.Exit(3)
			}
			streaming = true
			var t *fw.Trace
			if b.Scene == "free" {
				t = driveFree(env, &b)
			} else {
				t = driveSched(env, &b)
			}
			childMu.Lock()
			fmt.Fprintf(childOut, "STATUS %s\t%s\n", t.Status, strings.ReplaceAll(t.Note, "\n", " "))
			childOut.Flush()
			childMu.Unlock()
		}
		if err != nil {
			os.Exit(0)
		}
	}
}

// parseFlags: what the parent learnt in its probe (yield point, log seams, census, handshake deadline)
func parseFlags(flags string) {
	f := strings.Split(flags, ",")
	if len(f) == 4 {
		hooksOn, logSeams, calibrated, hsDeadline = f[0] == "true", f[1] == "true", f[2] == "true", f[3] == "true"
	}
}
