// C18 driver: replays TLC-generated histories and schedules of spec/BruteForce.tla on the real
// security.BruteForceProtector / IPManager / RateLimiter behind the real
// server.ServerAuthHandler.HandleHandshake, with a real (millisecond-scale) clock, and records every
// answer with monotonic timestamps for the judge (spec/BruteForceTrace.tla).
//
// Environment replaced: the credential store (a three-method double of managers.CloudControlAPI that
// counts calls and is a scheduling seam between the gates and the verdict), the connection object
// (only its remote address and pending challenge matter) and - by sleeping - the clock.
// The asynchronous paths (`go UnbanIP`, `go RemoveFromBlacklist`) and the gap between
// RecordFailure's two critical sections are parked at verifhook points and released in TLC's order
// through the gate scheduler; hook calls are routed to the behaviour that owns the calling goroutine
// (or the goroutine that created it), so behaviours run in parallel although verifhook.Set is global.
package main

import (
	"bytes"
	"context"
	"crypto/sha256"
	"encoding/base64"
	"encoding/json"
	"errors"
	"fmt"
	"net"
	"os"
	"runtime"
	"sort"
	"strconv"
	"strings"
	"sync"
	"sync/atomic"
	"time"

	"tunnox-core/internal/app/server"
	"tunnox-core/internal/cloud/managers"
	"tunnox-core/internal/cloud/models"
	"tunnox-core/internal/core/idgen"
	corelog "tunnox-core/internal/core/log"
	"tunnox-core/internal/core/storage"
	"tunnox-core/internal/packet"
	"tunnox-core/internal/protocol/session"
	"tunnox-core/internal/security"
	"tunnox-core/internal/stream"
	"tunnox-core/internal/verifhook"
	"tunnox-core/verifharness/fw"
	"tunnox-core/verifharness/sched"
)

// ---- time line -------------------------------------------------------------------------------
// One model tick = tickD of real time. A duration of n model ticks is configured as (n - 1/2) ticks
// (spec/BruteForce.tla, "Time"), every step of a tick must complete inside the first part of
// the tick (opBudget = a third of it): then a timestamp taken k ticks earlier is at least a sixth of
// a tick (41 ms) away from every window / ban boundary - more than the margin the judge uses.
const (
	tickD       = 250 * time.Millisecond
	opBudget    = tickD / 3
	marginEnd   = 30 // ms: "must refuse" only if the call ended this long before the ban was due to end
	marginStart = 1  // ms: ... and started this long after the failing handshake returned
	stepGap     = 2 * time.Millisecond
	rateSlack   = 250 // milli-tokens allowed on top of burst + rate*dt (millisecond rounding of the brackets)
	knownClient = int64(40000001)
)

func dur(ticks int) time.Duration { return time.Duration(ticks)*tickD - tickD/2 }

type mcfg struct {
	Thr    int  `json:"thr"`
	Perm   int  `json:"perm"`
	Win    int  `json:"win"`
	Ban    int  `json:"ban"`
	Bld    int  `json:"bld"`
	Burst  int  `json:"burst"`
	Refill int  `json:"refill"` // milli-tokens per tick
	Atomic bool `json:"atomic"`
	Fixed  int  `json:"fixed"`
}

type mstep struct {
	A    string `json:"a"`
	P    string `json:"p,omitempty"`
	IP   string `json:"ip,omitempty"`
	Kind string `json:"kind,omitempty"`
	Res  string `json:"res,omitempty"`
	Bl   bool   `json:"bl,omitempty"`
	Ban  bool   `json:"ban,omitempty"`
	Live bool   `json:"live,omitempty"`
	Form string `json:"form,omitempty"`  // black-/whitelist entry: ip (the address) | net (range containing it) | other (range elsewhere)
	N    int    `json:"n,omitempty"`     // Idle: ticks; Flood: number of AllowIP calls
	Adm  int    `json:"adm,omitempty"`   // Flood: admissions the model expects
	Flt  bool   `json:"fault,omitempty"` // the storage write behind this operator action fails
}

type behaviour struct {
	C     mcfg    `json:"c"`
	S     []mstep `json:"s"`
	Bad   string  `json:"bad,omitempty"`   // how a failed authentication is produced: unknown | hmac | nochal
	FltAt string  `json:"fltAt,omitempty"` // which storage call fails under a fault: set | list
	Free  *freeP  `json:"free,omitempty"`  // free-running variant
}

type freeP struct {
	Seed int `json:"seed"`
	Perm int `json:"perm"`
	Ms   int `json:"ms"`
}

// ---- process-wide fixtures -------------------------------------------------------------------
var (
	fixOnce   sync.Once
	fixErr    error
	sharedSM  *session.SessionManager
	keys      *security.SecretKeyManager
	secretKey = "c18-secret-key"
	encSecret string
)

func fixtures() error {
	fixOnce.Do(func() {
		corelog.SetDefault(seamLogger{})
		ctx := context.Background()
		st := storage.NewMemoryStorage(ctx)
		sharedSM = session.NewSessionManager(idgen.NewIDManager(st, ctx), ctx)
		sharedSM.SetNodeID("node-c18")
		mk := sha256.Sum256([]byte("c18-master-key"))
		keys, fixErr = security.NewSecretKeyManager(&security.SecretKeyConfig{MasterKey: base64.StdEncoding.EncodeToString(mk[:])})
		if fixErr != nil {
			return
		}
		encSecret, fixErr = keys.Encrypt(secretKey)
		verifhook.Set(hook)
		probeHooks()
	})
	return fixErr
}

// hookSeen records every yield point that has ever called the handler. probeHooks exercises each
// planned point once on throw-away objects, so that afterwards "this point never parks anything"
// means "the hook patch is not applied to this tree" rather than "be patient".
var hookSeen sync.Map

func hookPresent(point string) bool { _, ok := hookSeen.Load(point); return ok }

func probeHooks() {
	ctx, cancel := context.WithCancel(context.Background())
	defer cancel()
	const ip = "192.0.2.1"
	p := security.NewBruteForceProtector(&security.BruteForceConfig{MaxFailures: 1, TimeWindow: time.Second, BanDuration: time.Millisecond,
		PermanentBanAt: 1000, CleanupInterval: time.Hour}, ctx)
	p.RecordFailure(ip) // banIP: bf.ban.enter, on this goroutine
	m := security.NewIPManager(storage.NewMemoryStorage(ctx), ctx)
	m.AddToBlacklist(ip, time.Millisecond, "probe", "c18")
	time.Sleep(5 * time.Millisecond)
	p.IsBanned(ip)  // expired: spawns the lazy unban (bf.unban.enter)
	m.IsAllowed(ip) // expired: spawns the lazy removal (ip.unblacklist.enter)
	deadline := time.Now().Add(3 * time.Second)
	for time.Now().Before(deadline) && (len(p.GetBannedIPs()) > 0 || len(m.GetBlacklist()) > 0) {
		time.Sleep(200 * time.Microsecond) // both goroutines have run once their (expired) records are gone
	}
}

// ---- goroutine identity and hook routing ------------------------------------------------------
func curGid() int64 {
	var buf [64]byte
	b := buf[:runtime.Stack(buf[:], false)]
	b = b[len("goroutine "):]
	id, _ := strconv.ParseInt(string(b[:bytes.IndexByte(b, ' ')]), 10, 64)
	return id
}

// creatorGid parses "created by ... in goroutine N" from the current goroutine's stack.
func creatorGid() int64 {
	buf := make([]byte, 16<<10)
	b := buf[:runtime.Stack(buf, false)]
	i := bytes.LastIndex(b, []byte("created by "))
	if i < 0 {
		return -1
	}
	b = b[i:]
	if j := bytes.IndexByte(b, '\n'); j >= 0 {
		b = b[:j]
	}
	k := bytes.LastIndex(b, []byte(" in goroutine "))
	if k < 0 {
		return -1
	}
	id, err := strconv.ParseInt(strings.TrimSpace(string(b[k+len(" in goroutine "):])), 10, 64)
	if err != nil {
		return -1
	}
	return id
}

var stackPool = sync.Pool{New: func() any { b := make([]byte, 1<<20); return &b }}

func goroutineAlive(gid int64) bool {
	bp := stackPool.Get().(*[]byte)
	defer stackPool.Put(bp)
	for {
		n := runtime.Stack(*bp, true)
		if n < len(*bp) {
			return bytes.Contains((*bp)[:n], []byte("goroutine "+strconv.FormatInt(gid, 10)+" ["))
		}
		nb := make([]byte, 2*len(*bp))
		*bp = nb
	}
}

func waitGone(gid int64, timeout time.Duration) bool {
	deadline := time.Now().Add(timeout)
	for i := 0; ; i++ {
		if i < 3 {
			runtime.Gosched()
		} else {
			time.Sleep(100 * time.Microsecond)
		}
		if !goroutineAlive(gid) {
			return true
		}
		if time.Now().After(deadline) {
			return false
		}
	}
}

type routeEnt struct {
	w     *world
	main  bool // the behaviour's driving goroutine: its own calls are never gated
	clean bool // a clean-up pass of the protector running as a scheduled process: its log lines are a seam
}

// seamLogger is the process-wide logger: silent, except that the protector's clean-up pass - which has no
// storage behind it and no yield point inside - reports every expired ban it has removed with one debug line;
// for a pass that runs as a scheduled process that line is a gate (the pass parks AFTER the delete).
type seamLogger struct{ corelog.NopLogger }

const expiredBanLine = "BruteForce: IP %s unbanned (expired)"

func (seamLogger) Debugf(format string, args ...interface{}) {
	if format != expiredBanLine || len(args) == 0 {
		return
	}
	gid := curGid()
	router.mu.Lock()
	e := router.byGid[gid]
	router.mu.Unlock()
	if e == nil || !e.clean {
		return
	}
	e.w.s.Gate("log.bf.expired", map[string]any{"ip": fmt.Sprint(args[0]), "gid": gid})
}
func (l seamLogger) WithField(string, interface{}) corelog.Logger     { return l }
func (l seamLogger) WithFields(map[string]interface{}) corelog.Logger { return l }
func (l seamLogger) WithError(error) corelog.Logger                   { return l }
func (l seamLogger) WithContext(context.Context) corelog.Logger       { return l }

func (w *world) registerClean() {
	router.mu.Lock()
	router.byGid[curGid()] = &routeEnt{w: w, clean: true}
	router.mu.Unlock()
}

// banLockHeld: is the protector's ban lock held right now (by a pass parked at its log line)? A look-up of
// an address nobody uses either returns or is seen waiting for the lock.
func (w *world) banLockHeld() bool {
	done := make(chan struct{})
	var gid atomic.Int64
	go func() {
		gid.Store(curGid())
		w.bf.IsBanned("192.0.2.99")
		close(done)
	}()
	deadline := time.Now().Add(2 * time.Second)
	for time.Now().Before(deadline) {
		select {
		case <-done:
			return false
		default:
		}
		if g := gid.Load(); g != 0 && lockWaiting(g) {
			select {
			case <-done:
				return false
			default:
				return true
			}
		}
		time.Sleep(200 * time.Microsecond)
	}
	return true
}

func (w *world) modelIP(real string) string {
	if real == w.realIP("b") {
		return "b"
	}
	return "a"
}

var router = struct {
	mu    sync.Mutex
	byGid map[int64]*routeEnt
}{byGid: map[int64]*routeEnt{}}

func (w *world) register(main bool) {
	router.mu.Lock()
	router.byGid[curGid()] = &routeEnt{w: w, main: main}
	router.mu.Unlock()
}

func (w *world) unregisterAll() {
	router.mu.Lock()
	for g, e := range router.byGid {
		if e.w == w {
			delete(router.byGid, g)
		}
	}
	router.mu.Unlock()
}

// hook is the process-wide verifhook handler.
func hook(name string, _ any) {
	hookSeen.LoadOrStore(name, true)
	gid := curGid()
	router.mu.Lock()
	e := router.byGid[gid]
	router.mu.Unlock()
	if e == nil {
		parent := creatorGid()
		router.mu.Lock()
		pe := router.byGid[parent]
		if pe != nil {
			e = &routeEnt{w: pe.w}
			router.byGid[gid] = e
		}
		router.mu.Unlock()
		if e == nil {
			return
		}
	} else if e.main {
		return
	}
	e.w.gateSeen.Store(true)
	e.w.s.Gate(name, map[string]any{"gid": gid})
}

// ---- doubles ---------------------------------------------------------------------------------
type fakeCloud struct {
	managers.CloudControlAPI // every method the handshake does not need panics (nil interface) => driver error
	w                        *world
	mu                       sync.Mutex
	byGid                    map[int64]int
	anonSeq                  atomic.Int64
}

func (c *fakeCloud) credCall() {
	c.mu.Lock()
	c.byGid[curGid()]++
	c.mu.Unlock()
	c.w.s.Gate("cloud.cred", nil) // parks handshakes started through the scheduler; passes otherwise
}

func (c *fakeCloud) callsOf(gid int64) int {
	c.mu.Lock()
	defer c.mu.Unlock()
	return c.byGid[gid]
}

func (c *fakeCloud) GetClientConfig(id int64) (*models.ClientConfig, error) {
	c.credCall()
	if id == knownClient {
		return &models.ClientConfig{ID: id, Name: "c18", SecretKeyEncrypted: encSecret, SecretKeyVersion: 1}, nil
	}
	return nil, errors.New("client not found")
}

func (c *fakeCloud) GenerateAnonymousCredentials() (*models.Client, error) {
	c.credCall()
	return &models.Client{ID: 50000000 + c.anonSeq.Add(1), SecretKeyPlaintext: "anon-secret"}, nil
}

func (c *fakeCloud) ConnectClient(clientID int64, nodeID, connID, ipAddress, protocol, version string) error {
	return nil
}

type fakeConn struct {
	remote  net.Addr
	mu      sync.Mutex
	pending string
	client  int64
	auth    bool
}

func (c *fakeConn) GetConnID() string                 { return "conn-c18" }
func (c *fakeConn) GetStream() stream.PackageStreamer { return nil }
func (c *fakeConn) GetRemoteAddr() net.Addr           { return c.remote }
func (c *fakeConn) Close() error                      { return nil }
func (c *fakeConn) GetClientID() int64                { c.mu.Lock(); defer c.mu.Unlock(); return c.client }
func (c *fakeConn) SetClientID(id int64)              { c.mu.Lock(); c.client = id; c.mu.Unlock() }
func (c *fakeConn) GetUserID() string                 { return "" }
func (c *fakeConn) SetUserID(string)                  {}
func (c *fakeConn) IsAuthenticated() bool             { c.mu.Lock(); defer c.mu.Unlock(); return c.auth }
func (c *fakeConn) SetAuthenticated(a bool)           { c.mu.Lock(); c.auth = a; c.mu.Unlock() }
func (c *fakeConn) GetProtocol() string               { return "tcp" }
func (c *fakeConn) UpdateActivity()                   {}
func (c *fakeConn) SetPendingChallenge(s string)      { c.mu.Lock(); c.pending = s; c.mu.Unlock() }
func (c *fakeConn) GetPendingChallenge() string       { c.mu.Lock(); defer c.mu.Unlock(); return c.pending }
func (c *fakeConn) ClearPendingChallenge()            { c.mu.Lock(); c.pending = ""; c.mu.Unlock() }

// ---- one behaviour's world ---------------------------------------------------------------------
type world struct {
	beh      *behaviour
	cancel   context.CancelFunc
	bf       *security.BruteForceProtector
	ipm      *security.IPManager
	ipmStop  context.CancelFunc
	ctx      context.Context
	store    storage.Storage // what the IPManager persists to: survives a Reload
	faults   *faultStore     // the same storage, as fault injector
	rl       *security.RateLimiter
	auth     *server.ServerAuthHandler
	cloud    *fakeCloud
	s        *sched.Sched
	net3     string // "10.<x>.<y>" prefix of this world's addresses
	start    time.Time
	evMu     sync.Mutex
	events   []fw.Event
	gateSeen atomic.Bool
}

var worldSeq atomic.Int64

func newWorld(beh *behaviour, free bool, win, ban time.Duration, rate int) *world {
	ctx, cancel := context.WithCancel(context.Background())
	n := worldSeq.Add(1)
	w := &world{beh: beh, cancel: cancel, s: sched.New(free), net3: fmt.Sprintf("10.%d.%d", (n/250)%250+1, n%250+1)}
	w.s.Watchdog = 2 * time.Second
	w.s.Adopt = func(g sched.GateInfo) string {
		switch g.Point {
		case "bf.unban.enter":
			return "unban"
		case "ip.unblacklist.enter":
			return "unbl"
		}
		return "" // cloud.cred / bf.ban.enter reached outside a scheduled handshake: not gated
	}
	w.bf = security.NewBruteForceProtector(&security.BruteForceConfig{MaxFailures: beh.C.Thr, TimeWindow: win, BanDuration: ban,
		PermanentBanAt: beh.C.Perm, CleanupInterval: time.Hour}, ctx)
	w.ctx = ctx
	w.faults = &faultStore{Storage: storage.NewMemoryStorage(ctx)}
	w.faults.lists, _ = w.faults.Storage.(storage.ListStore)
	w.store = w.faults
	w.newIPManager()
	w.rl = security.NewRateLimiter(&security.RateLimitConfig{Rate: rate, Burst: beh.C.Burst, TTL: time.Hour}, nil, ctx)
	w.cloud = &fakeCloud{w: w, byGid: map[int64]int{}}
	w.auth = server.NewServerAuthHandler(w.cloud, sharedSM, w.bf, w.ipm, w.rl, keys)
	w.start = time.Now()
	return w
}

// faultStore is the memory storage with an injectable write fault (a Redis / remote-storage outage):
// while `fail` is "set" every Set fails, while it is "list" every AppendToList fails.
type faultStore struct {
	storage.Storage
	lists storage.ListStore
	fail  atomic.Value // string
}

var errInjected = errors.New("c18: injected storage fault")

func (f *faultStore) failing(what string) bool { v, _ := f.fail.Load().(string); return v == what }
func (f *faultStore) Set(key string, value any, ttl time.Duration) error {
	if f.failing("set") {
		return errInjected
	}
	return f.Storage.Set(key, value, ttl)
}
func (f *faultStore) SetList(key string, values []any, ttl time.Duration) error {
	return f.lists.SetList(key, values, ttl)
}
func (f *faultStore) GetList(key string) ([]any, error) { return f.lists.GetList(key) }
func (f *faultStore) AppendToList(key string, value any) error {
	if f.failing("list") {
		return errInjected
	}
	return f.lists.AppendToList(key, value)
}
func (f *faultStore) RemoveFromList(key string, value any) error {
	return f.lists.RemoveFromList(key, value)
}

// newIPManager (re)creates the IPManager over the world's storage, as a restart of the server (or a
// second node sharing the storage) does: NewIPManager loads the persisted lists.
func (w *world) newIPManager() {
	if w.ipmStop != nil {
		w.ipmStop() // the previous instance's clean-up task ends with it
	}
	ictx, stop := context.WithCancel(w.ctx)
	w.ipmStop = stop
	w.ipm = security.NewIPManager(w.store, ictx)
	if w.cloud != nil {
		w.auth = server.NewServerAuthHandler(w.cloud, sharedSM, w.bf, w.ipm, w.rl, keys)
	}
}

func (w *world) close() {
	w.s.Drain(200 * time.Millisecond) // from now on every gate passes: nothing arriving late stays parked
	w.cancel()
	w.unregisterAll()
}

func (w *world) realIP(ip string) string {
	if ip == "b" {
		return w.net3 + ".8"
	}
	return w.net3 + ".7"
}

// entryKey is the list entry of the given form for model address ip: the address itself, a CIDR range
// containing it (and nothing else the behaviours use), or a range elsewhere in the same /24.
func (w *world) entryKey(ip, form string) string {
	switch form {
	case "net":
		if ip == "b" {
			return w.net3 + ".8/31"
		}
		return w.net3 + ".6/31"
	case "net2": // a wider range around the same addresses: overlaps "net", independent lifetime
		return w.net3 + ".0/28"
	case "other":
		return w.net3 + ".64/30"
	}
	return w.realIP(ip)
}

func (w *world) ms0() int64 { return int64(time.Since(w.start) / time.Millisecond) }   // rounded down
func (w *world) ms1() int64 { return int64(time.Since(w.start)/time.Millisecond) + 1 } // rounded up

func (w *world) log(e fw.Event) {
	w.evMu.Lock()
	w.events = append(w.events, e)
	w.evMu.Unlock()
}

// handshake performs one HandleHandshake call and classifies the response.
func (w *world) handshake(ip, kind string) (res string, cred int) {
	conn := &fakeConn{remote: &net.TCPAddr{IP: net.ParseIP(w.realIP(ip)), Port: 40000}}
	req := &packet.HandshakeRequest{Version: "3", Protocol: "tcp", ConnectionType: "control"}
	switch kind {
	case "Anon": // the two request shapes handleFirstConnection treats as a registration ...
		req.Token = "new-client"
	case "Anon2":
		req.Token = fmt.Sprintf("anonymous:c18-%d", w.cloud.anonSeq.Load())
	case "Zero": // ... and a ClientID-0 request that is none (no registration; it fails the credential check)
		req.Token = ""
	case "Good":
		req.ClientID = knownClient
		conn.pending = "challenge-" + ip
		req.ChallengeResponse = keys.ComputeResponse(secretKey, conn.pending)
	case "Bad":
		switch w.beh.Bad {
		case "hmac":
			req.ClientID = knownClient
			conn.pending = "challenge-" + ip
			req.ChallengeResponse = keys.ComputeResponse("wrong-key", conn.pending)
		case "nochal":
			req.ClientID = knownClient
			req.ChallengeResponse = "deadbeef"
		default:
			req.ClientID = 47110815 // no such client
		}
	}
	gid := curGid()
	before := w.cloud.callsOf(gid)
	resp, err := w.auth.HandleHandshake(conn, req)
	cred = w.cloud.callsOf(gid) - before
	switch {
	case resp == nil:
		res = "err:nil-response"
	case resp.Success:
		res = "ok"
	case resp.Error == "Access denied":
		res = "bl"
	case strings.HasPrefix(resp.Error, "Access denied: too many failed"):
		res = "ban"
	case strings.HasPrefix(resp.Error, "Rate limit exceeded"):
		res = "rate"
	case resp.Error == "Client not found" || resp.Error == "Invalid credentials" || strings.HasPrefix(resp.Error, "No pending challenge"):
		res = "fail"
	default:
		res = "err:" + resp.Error
	}
	if (res == "ok") != (err == nil) {
		res = "err:error/success mismatch: " + res
	}
	return res, cred
}

// ---- model agreement statistics (informational; the judge alone decides) ----------------------
var agree = struct {
	mu     sync.Mutex
	ok, no map[string]int
	first  map[string]string
}{ok: map[string]int{}, no: map[string]int{}, first: map[string]string{}}

func noteAgree(src string, same bool, what string) {
	agree.mu.Lock()
	if same {
		agree.ok[src]++
	} else {
		agree.no[src]++
		if agree.first[src] == "" {
			agree.first[src] = what
		}
	}
	agree.mu.Unlock()
}

// ---- scheduled / sequential replay --------------------------------------------------------------
type hsCall struct {
	name, ip, kind string
	t0             int64
}

type hsOut struct {
	res  string
	cred int
}

func drive(env *fw.Env, b fw.Behaviour) *fw.Trace {
	if err := fixtures(); err != nil {
		return &fw.Trace{Status: fw.DriverError, Note: err.Error()}
	}
	if isListsBeh(b.Data) { // schedules of spec/BruteForceLists.tla: lists.go
		return driveLists(env, b)
	}
	var beh behaviour
	if err := json.Unmarshal(b.Data, &beh); err != nil {
		return &fw.Trace{Status: fw.DriverError, Note: err.Error()}
	}
	if beh.Free != nil {
		return driveFree(env, &beh)
	}
	if beh.C.Refill%int(tickD/time.Millisecond) != 0 {
		return &fw.Trace{Status: fw.DriverError, Note: "refill per tick is not an integral rate per second"}
	}
	rate := beh.C.Refill / int(tickD/time.Millisecond) // tokens per second
	// behaviours run in parallel: stagger them so that their ticks do not all fall on the same instants
	time.Sleep(time.Duration((b.ID*37)%250) * time.Millisecond)
	w := newWorld(&beh, false, dur(beh.C.Win), dur(beh.C.Ban), rate)
	defer w.close()
	w.register(true)
	w.log(fw.Event{"ev": "Cfg", "thr": beh.C.Thr, "perm": beh.C.Perm, "win": int(dur(beh.C.Win) / time.Millisecond),
		"ban": int(dur(beh.C.Ban) / time.Millisecond), "bld": int(dur(beh.C.Bld) / time.Millisecond), "burst": beh.C.Burst, "rate": rate,
		"mS": marginStart, "mE": marginEnd, "slack": rateSlack, "aTol": 0})

	tick := 0
	tickStart := func() time.Time { return w.start.Add(time.Duration(tick) * tickD) }
	overrun := ""
	// Offsets inside the tick only grow from tick to tick (each tick's steps begin later inside their
	// tick than the previous tick's steps ended inside theirs): the real time between two steps that
	// are n ticks apart in the model is then never LESS than n ticks, so exact model boundaries
	// ("the bucket holds exactly one token again") fall on the same side in reality.
	maxOff := time.Duration(0)
	budget := opBudget
	timed := false
	for _, st := range beh.S {
		timed = timed || st.A == "Tick" || st.A == "Idle"
	}
	if !timed {
		// nothing in the history depends on a tick boundary, no expectation depends on how long the steps took;
		// the judge works on the measured brackets with its own margins whatever the load
		budget = time.Hour
	}
	checkBudget := func(i int) {
		d := time.Since(tickStart())
		if d > maxOff {
			maxOff = d
		}
		if d > budget && overrun == "" {
			overrun = fmt.Sprintf("step %d ended %v into its tick (budget %v)", i, d.Round(time.Millisecond), budget)
		}
	}
	unreal := func(note string) *fw.Trace {
		w.drain()
		return &fw.Trace{Status: fw.Unrealisable, Note: note}
	}
	// The judge demands a refusal only from calls that began marginStart after the call that created
	// the demand returned: put a small gap between such a call and the next observation.
	needGap := false
	gap := func() {
		if needGap {
			time.Sleep(stepGap)
			needGap = false
		}
	}
	cur := map[string]*hsCall{}
	nClean, cleanName, cleanT0 := 0, "", int64(0) // a clean-up pass running as its own process (CleanScan .. CleanDel)
	cleanAhead := map[string]bool{}               // addresses whose expired ban the parked pass has removed before the model's CleanDel
	diverged := ""
	concN := 0 // > 0: the history has a ConcFirst step; the same step is repeated for many more fresh addresses at the end
	nCalls := map[string]int{}
	released := map[string]int{}
	logHs := func(c *hsCall, out hsOut, exp string) *fw.Trace {
		if strings.HasPrefix(out.res, "err:") {
			return &fw.Trace{Status: fw.DriverError, Note: "handshake: " + out.res}
		}
		w.log(fw.Event{"ev": "Hs", "ip": c.ip, "kind": c.kind, "res": out.res, "cred": out.cred, "t0": c.t0, "t1": w.ms1()})
		needGap = needGap || out.res == "fail"
		if exp != "" && exp != "pass" && exp != "toban" { // "pass"/"toban": the history ends inside this handshake
			noteAgree(b.Src, exp == out.res, fmt.Sprintf("beh %d: handshake %s answered %s, model %s", b.ID, c.kind, out.res, exp))
		}
		return nil
	}
	query := func(ip string, probe bool, st *mstep) {
		gap()
		settle := w.ungatedSpawns(ip)
		t0 := w.ms0()
		allowed, _ := w.ipm.IsAllowed(w.realIP(ip))
		banned, _ := w.bf.IsBanned(w.realIP(ip))
		w.log(fw.Event{"ev": "Query", "ip": ip, "bl": !allowed, "ban": banned, "probe": probe, "t0": t0, "t1": w.ms1()})
		settle()
		w.queryMany(ip)
		if st != nil {
			noteAgree(b.Src, st.Bl == !allowed && st.Ban == banned, fmt.Sprintf("beh %d: query answered bl=%v ban=%v, model bl=%v ban=%v", b.ID, !allowed, banned, st.Bl, st.Ban))
		}
	}
	ips := map[string]bool{}
	for i := 0; i < len(beh.S); i++ {
		st := beh.S[i]
		if st.IP != "" {
			ips[st.IP] = true
		}
		switch st.A {
		case "Tick", "Idle":
			n := 1
			if st.A == "Idle" {
				n = st.N
			}
			tick += n
			if d := time.Until(tickStart().Add(maxOff + time.Millisecond)); d > 0 {
				time.Sleep(d)
			}
			w.log(fw.Event{"ev": "Tick"})
			continue
		case "Flood": // st.N AllowIP calls back to back, straight at the limiter
			got := 0
			for k := 0; k < st.N; k++ {
				t0 := w.ms0()
				ok := w.rl.AllowIP(w.realIP(st.IP))
				w.log(fw.Event{"ev": "Take", "ip": st.IP, "ok": ok, "t0": t0, "t1": w.ms1()})
				if ok {
					got++
				}
			}
			noteAgree(b.Src, got == st.Adm, fmt.Sprintf("beh %d: flood of %d admitted %d, model %d", b.ID, st.N, got, st.Adm))
		case "ConcFirst": // st.N AllowIP calls released together for an address that has no bucket yet
			oks, t0s, t1s := w.concurrentFirst(w.realIP(st.IP), st.N)
			got := 0
			for k := range oks {
				w.log(fw.Event{"ev": "Take", "ip": st.IP, "ok": oks[k], "t0": t0s[k], "t1": t1s[k]})
				if oks[k] {
					got++
				}
			}
			concN = st.N
			noteAgree(b.Src, got == st.Adm, fmt.Sprintf("beh %d: %d concurrent first calls admitted %d, model %d", b.ID, st.N, got, st.Adm))
		case "FloodHs": // st.N registration handshakes back to back through the real HandleHandshake
			gap()
			got := 0
			for k := 0; k < st.N; k++ {
				c := &hsCall{ip: st.IP, kind: st.Kind, t0: w.ms0()}
				res, cred := w.handshake(st.IP, st.Kind)
				if t := logHs(c, hsOut{res, cred}, ""); t != nil {
					return t
				}
				if res == "ok" {
					got++
				}
			}
			noteAgree(b.Src, got == st.Adm, fmt.Sprintf("beh %d: flood of %d %s handshakes granted %d, model %d", b.ID, st.N, st.Kind, got, st.Adm))
		case "CleanScan":
			// deviation "split clean-up": the pass runs as its own process. Seams: a pass that deletes through
			// UnbanIP after its scan parks at bf.unban.enter BEFORE each delete; a pass that deletes inline reports
			// each removed ban with a debug line and parks there AFTER the delete (seamLogger) - if it holds the ban
			// lock at that point the whole pass is one critical section (the code as it stands) and is let run to its end
			c, ok := any(w.bf).(interface{ VerifCleanup() })
			if !ok {
				return unreal(fmt.Sprintf("step %d: clean-up export shim absent (hook patch not applied)", i))
			}
			nClean++
			cleanName, cleanT0 = fmt.Sprintf("clean.%d", nClean), w.ms0()
			cleanAhead = map[string]bool{}
			w.log(fw.Event{"ev": "CleanStart", "what": "bf", "t0": cleanT0, "t1": w.ms1()})
			state := w.s.Start(cleanName, func() any { w.registerClean(); c.VerifCleanup(); return true })
			if _, at := w.s.State(cleanName); state == sched.Parked && at.Point == "log.bf.expired" {
				if w.banLockHeld() {
					for state == sched.Parked {
						state, _ = w.s.Step(cleanName)
					}
				} else {
					cleanAhead[w.modelIP(fmt.Sprint(at.Info["ip"]))] = true
				}
			}
			if state == sched.Done {
				w.log(fw.Event{"ev": "Clean", "what": "bf", "t0": cleanT0, "t1": w.ms1()})
				cleanName = ""
			} else if state != sched.Parked {
				return unreal(fmt.Sprintf("step %d: clean-up pass is %s", i, state))
			} else {
				// the pass is parked inside its ban section: its first section - failure records whose window is
				// empty are dropped, and the lifetime count with them - is over. The judge must know that now, not
				// when the pass ends (a second Clean event then carries the bracket of the whole pass)
				w.log(fw.Event{"ev": "Clean", "what": "bf", "part": "records", "t0": cleanT0, "t1": w.ms1()})
			}
		case "CleanDel":
			if cleanName == "" {
				// one critical section: the scan already removed what it found expired. The rest of the history
				// is still a real execution - it is run and judged, but counted as diverged from the model.
				if diverged == "" {
					diverged = fmt.Sprintf("step %d: the clean-up pass removed its expired bans inside the scan (one critical section): nothing is left to schedule", i)
				}
				break
			}
			if cleanAhead[st.IP] {
				delete(cleanAhead, st.IP) // the pass stands behind this delete already (log-line seam)
				break
			}
			ns, _ := w.s.Step(cleanName)
			if _, at := w.s.State(cleanName); ns == sched.Parked && at.Point == "log.bf.expired" {
				if got := w.modelIP(fmt.Sprint(at.Info["ip"])); got != st.IP && diverged == "" {
					diverged = fmt.Sprintf("step %d: the clean-up pass removed the ban of %s, the model removes %s's now (map iteration order)", i, got, st.IP)
					cleanAhead[got] = true
				}
			}
			if ns == sched.Done {
				w.log(fw.Event{"ev": "Clean", "what": "bf", "t0": cleanT0, "t1": w.ms1()})
				cleanName = ""
			} else if ns != sched.Parked {
				return unreal(fmt.Sprintf("step %d: clean-up pass is %s after its delete", i, ns))
			}
		case "Reload":
			t0 := w.ms0()
			w.newIPManager()
			w.log(fw.Event{"ev": "Reload", "t0": t0, "t1": w.ms1()})
		case "Hs":
			gap()
			c := &hsCall{ip: st.IP, kind: st.Kind, t0: w.ms0()}
			if beh.C.Atomic {
				// the whole handshake runs inline; its Cred / Ban steps follow in the history
				settle := w.ungatedSpawns(st.IP)
				res, cred := w.handshake(st.IP, st.Kind)
				settle()
				exp := st.Res
				for i+1 < len(beh.S) && (beh.S[i+1].A == "Cred" || beh.S[i+1].A == "Ban") && beh.S[i+1].P == st.P {
					i++
					exp = beh.S[i].Res
				}
				if t := logHs(c, hsOut{res, cred}, exp); t != nil {
					return t
				}
				break
			}
			nCalls[st.P]++
			c.name = fmt.Sprintf("%s.%d", st.P, nCalls[st.P])
			cur[st.P] = c
			state := w.s.Start(c.name, func() any {
				w.register(false)
				res, cred := w.handshake(c.ip, c.kind)
				return hsOut{res, cred}
			})
			switch {
			case st.Res == "pass" && state == sched.Parked:
			case st.Res != "pass" && state == sched.Done:
				if t := logHs(c, w.s.Result(c.name).(hsOut), st.Res); t != nil {
					return t
				}
				delete(cur, st.P)
			default:
				return unreal(fmt.Sprintf("step %d: handshake %s is %s after its gates, model expects %q", i, c.name, state, st.Res))
			}
		case "Cred", "Ban":
			c := cur[st.P]
			if c == nil {
				return &fw.Trace{Status: fw.DriverError, Note: fmt.Sprintf("step %d: %s without a running handshake", i, st.A)}
			}
			want := map[string]string{"Cred": "cloud.cred", "Ban": "bf.ban.enter"}[st.A]
			if st.A == "Ban" && !hookPresent(want) {
				return unreal(fmt.Sprintf("step %d: yield point %s absent (hook patch not applied)", i, want))
			}
			if s0, at := w.s.State(c.name); s0 != sched.Parked || at.Point != want {
				return unreal(fmt.Sprintf("step %d: %s is %s at %q, model expects it parked at %s", i, c.name, s0, at.Point, want))
			}
			ns, _ := w.s.Step(c.name)
			switch {
			case st.Res == "toban" && ns == sched.Parked:
			case st.Res != "toban" && ns == sched.Done:
				if t := logHs(c, w.s.Result(c.name).(hsOut), st.Res); t != nil {
					return t
				}
				delete(cur, st.P)
			default:
				return unreal(fmt.Sprintf("step %d: %s is %s after %s, model expects %q (hook bf.ban.enter absent?)", i, c.name, ns, st.A, st.Res))
			}
		case "Query":
			query(st.IP, false, &st)
		case "Unban", "Unbl":
			base := map[string]string{"Unban": "unban", "Unbl": "unbl"}[st.A]
			if pt := map[string]string{"Unban": "bf.unban.enter", "Unbl": "ip.unblacklist.enter"}[st.A]; !hookPresent(pt) {
				return unreal(fmt.Sprintf("step %d: yield point %s absent (hook patch not applied): the spawned goroutine cannot be scheduled", i, pt))
			}
			released[base]++
			name := fmt.Sprintf("%s#%d", base, released[base])
			if !w.s.WaitAdopted(name) {
				return unreal(fmt.Sprintf("step %d: no asynchronous %s goroutine parked at its yield point (none was spawned)", i, base))
			}
			t0 := w.ms0()
			if note := w.releaseAsync(name); note != "" {
				return &fw.Trace{Status: fw.Inconclusive, Note: fmt.Sprintf("step %d: %s", i, note)}
			}
			w.log(fw.Event{"ev": "Async", "what": base, "ip": st.IP, "t0": t0, "t1": w.ms1()})
		case "MUnban":
			t0 := w.ms0()
			w.bf.UnbanIP(w.realIP(st.IP))
			w.log(fw.Event{"ev": "MUnban", "ip": st.IP, "t0": t0, "t1": w.ms1()})
		case "Blk", "BlkP":
			t0 := w.ms0()
			d := dur(beh.C.Bld)
			if st.A == "BlkP" {
				d = 0
			}
			if st.Flt {
				at := beh.FltAt
				if at == "" {
					at = "set"
				}
				w.faults.fail.Store(at)
			}
			err := w.ipm.AddToBlacklist(w.entryKey(st.IP, st.Form), d, "c18", "operator")
			w.faults.fail.Store("")
			if err != nil && !st.Flt { // under a fault an error for the operator is a legitimate answer
				return &fw.Trace{Status: fw.DriverError, Note: err.Error()}
			}
			w.log(fw.Event{"ev": "Blk", "ip": st.IP, "perm": st.A == "BlkP", "form": st.Form, "fault": st.Flt, "t0": t0, "t1": w.ms1()})
			needGap = true
		case "MUnbl":
			t0 := w.ms0()
			w.ipm.RemoveFromBlacklist(w.entryKey(st.IP, st.Form))
			w.log(fw.Event{"ev": "MUnbl", "ip": st.IP, "form": st.Form, "t0": t0, "t1": w.ms1()})
		case "Wl", "UnWl":
			t0 := w.ms0()
			if st.A == "Wl" {
				if err := w.ipm.AddToWhitelist(w.entryKey(st.IP, st.Form), "c18", "operator"); err != nil {
					return &fw.Trace{Status: fw.DriverError, Note: err.Error()}
				}
			} else {
				w.ipm.RemoveFromWhitelist(w.entryKey(st.IP, st.Form))
			}
			w.log(fw.Event{"ev": "Wl", "ip": st.IP, "on": st.A == "Wl", "form": st.Form, "t0": t0, "t1": w.ms1()})
			needGap = true
		case "Clean", "CleanL":
			var obj any = w.bf
			what := "bf"
			if st.A == "CleanL" {
				obj, what = w.ipm, "ip"
			}
			c, ok := obj.(interface{ VerifCleanup() })
			if !ok {
				return unreal(fmt.Sprintf("step %d: clean-up export shim absent (hook patch not applied)", i))
			}
			t0 := w.ms0()
			c.VerifCleanup()
			w.log(fw.Event{"ev": "Clean", "what": what, "t0": t0, "t1": w.ms1()})
		default:
			return &fw.Trace{Status: fw.DriverError, Note: "unknown step " + st.A}
		}
		checkBudget(i)
	}
	// what the history left behind: ask before and after everything still pending has run
	if len(ips) == 0 {
		ips["a"] = true
	}
	var order []string
	for ip := range ips {
		order = append(order, ip)
	}
	sort.Strings(order)
	for _, ip := range order {
		query(ip, true, nil)
	}
	checkBudget(len(beh.S))
	if pendingHs := len(cur) > 0; pendingHs || len(w.parkedAsync()) > 0 || cleanName != "" {
		// the asynchronous removals still parked run now, one after the other (each is an event) ...
		for _, name := range w.parkedAsync() {
			t0 := w.ms0()
			if note := w.releaseAsync(name); note != "" {
				return &fw.Trace{Status: fw.Inconclusive, Note: "final drain: " + note}
			}
			w.log(fw.Event{"ev": "Async", "what": name[:strings.Index(name, "#")], "ip": order[0], "t0": t0, "t1": w.ms1()})
		}
		// ... then the handshakes still in flight finish (whatever they spawn runs freely)
		if !w.drain() {
			return &fw.Trace{Status: fw.DriverError, Note: "processes did not finish after drain"}
		}
		if cleanName != "" {
			w.log(fw.Event{"ev": "Clean", "what": "bf", "t0": cleanT0, "t1": w.ms1()})
		}
		for _, p := range sortedKeys(cur) {
			c := cur[p]
			if out, ok := w.s.Result(c.name).(hsOut); ok {
				if t := logHs(c, out, ""); t != nil {
					return t
				}
			}
		}
		for _, ip := range order {
			query(ip, true, nil)
		}
	}
	if concN > 0 {
		// the race between first requests is a matter of microseconds: the same abstract step - concN calls
		// at once for an address without a bucket - is realised for many more fresh addresses (outside the
		// timed part of the history; each is judged on its own bracket)
		for j := 0; j < freshAddrs; j++ {
			ip := fmt.Sprintf("198.%d.%d.%d", 18+int(worldSeq.Load()/60000)%2, (int(b.ID)*7+j/250)%250, j%250+1)
			oks, t0s, t1s := w.concurrentFirst(ip, concN)
			got, lo, hi := 0, t0s[0], t1s[0]
			for k := range oks {
				if oks[k] {
					got++
				}
				if t0s[k] < lo {
					lo = t0s[k]
				}
				if t1s[k] > hi {
					hi = t1s[k]
				}
			}
			w.log(fw.Event{"ev": "TakeBatch", "ip": st0ip(beh.S), "n": concN, "ok": got, "t0": lo, "t1": hi})
		}
	}
	if overrun != "" {
		return &fw.Trace{Status: fw.Inconclusive, Note: overrun}
	}
	if diverged != "" {
		return &fw.Trace{Status: fw.Diverged, Note: diverged, Events: w.events}
	}
	return &fw.Trace{Status: fw.Realised, Events: w.events}
}

const freshAddrs = 160

func st0ip(steps []mstep) string {
	for _, s := range steps {
		if s.IP != "" {
			return s.IP
		}
	}
	return "a"
}

// concurrentFirst makes n goroutines call AllowIP(ip) at the same instant (spin barrier) and returns each
// call's answer and bracket.
func (w *world) concurrentFirst(ip string, n int) (oks []bool, t0s, t1s []int64) {
	oks, t0s, t1s = make([]bool, n), make([]int64, n), make([]int64, n)
	var ready, goFlag atomic.Int32
	var wg sync.WaitGroup
	for k := 0; k < n; k++ {
		wg.Add(1)
		go func(k int) {
			defer wg.Done()
			ready.Add(1)
			for spins := 0; goFlag.Load() == 0; spins++ {
				if spins%2000 == 1999 {
					runtime.Gosched()
				}
			}
			t0s[k] = w.ms0()
			oks[k] = w.rl.AllowIP(ip)
			t1s[k] = w.ms1()
		}(k)
	}
	for spins := 0; int(ready.Load()) < n; spins++ {
		if spins%2000 == 1999 {
			runtime.Gosched()
		}
	}
	goFlag.Store(1)
	wg.Wait()
	return
}

func sortedKeys(m map[string]*hsCall) []string {
	var ks []string
	for k := range m {
		ks = append(ks, k)
	}
	sort.Strings(ks)
	return ks
}

// queryMany: when the address is covered by more than one blacklisted range, which range the look-up
// meets first follows Go's randomised map iteration - one answer says little. The same state is
// therefore asked manyQueries times in one bracket and every answer is judged (event QueryN).
// Skipped while an expired exact entry exists: every look-up would spawn its lazy removal.
const manyQueries = 240

func (w *world) queryMany(ip string) {
	ranges := 0
	now := time.Now()
	for _, r := range w.ipm.GetBlacklist() {
		if r.IP == w.entryKey(ip, "net") || r.IP == w.entryKey(ip, "net2") {
			ranges++
		}
		if r.IP == w.realIP(ip) && !r.ExpiresAt.IsZero() && now.After(r.ExpiresAt) {
			return
		}
	}
	if ranges < 2 {
		return
	}
	t0, no := w.ms0(), 0
	for k := 0; k < manyQueries; k++ {
		if allowed, _ := w.ipm.IsAllowed(w.realIP(ip)); allowed {
			no++
		}
	}
	w.log(fw.Event{"ev": "QueryN", "ip": ip, "n": manyQueries, "no": no, "t0": t0, "t1": w.ms1()})
}

// ungatedSpawns handles a tree without the yield points: the lazy removals a gate look-up spawns
// cannot be parked there, they run at once and on their own. The only schedule such a tree lets the
// driver realise is "the spawned removal runs before the next step": if the look-up about to be
// made will find an expired record (and so spawn its removal), the returned function waits until
// that record is gone. With the yield points present both are no-ops.
func (w *world) ungatedSpawns(ip string) func() {
	waitBan, waitBl := false, false
	now := time.Now()
	if !hookPresent("bf.unban.enter") {
		for _, r := range w.bf.GetBannedIPs() {
			waitBan = waitBan || (r.IP == w.realIP(ip) && !r.ExpiresAt.IsZero() && now.After(r.ExpiresAt))
		}
	}
	if !hookPresent("ip.unblacklist.enter") {
		for _, r := range w.ipm.GetBlacklist() {
			waitBl = waitBl || (r.IP == w.realIP(ip) && !r.ExpiresAt.IsZero() && now.After(r.ExpiresAt)) // exact entries only: the removal is keyed by the address
		}
	}
	if !waitBan && !waitBl {
		return func() {}
	}
	return func() {
		deadline := time.Now().Add(300 * time.Millisecond)
		for time.Now().Before(deadline) {
			left := false
			if waitBan {
				for _, r := range w.bf.GetBannedIPs() {
					left = left || (r.IP == w.realIP(ip) && !r.ExpiresAt.IsZero() && now.After(r.ExpiresAt))
				}
			}
			if waitBl {
				for _, r := range w.ipm.GetBlacklist() {
					left = left || (r.IP == w.realIP(ip) && !r.ExpiresAt.IsZero() && now.After(r.ExpiresAt))
				}
			}
			if !left {
				return
			}
			time.Sleep(100 * time.Microsecond)
		}
	}
}

// releaseAsync lets the parked asynchronous goroutine `name` run to its end. The hook point is at
// the start of the spawned function, so "it has finished" is observed as "the goroutine is gone";
// a watcher then reports the completed operation to the scheduler (Step returns Idle).
func (w *world) releaseAsync(name string) string {
	_, at := w.s.State(name)
	gid, _ := at.Info["gid"].(int64)
	if gid == 0 {
		return "no goroutine id recorded for " + name
	}
	gone := make(chan bool, 1)
	go func() {
		ok := waitGone(gid, 3*time.Second)
		w.s.Alias(name)
		w.s.After()
		gone <- ok
	}()
	st, _ := w.s.Step(name)
	if ok := <-gone; !ok || (st != sched.Idle && st != sched.Done) {
		return fmt.Sprintf("asynchronous goroutine %s did not finish in time (%s)", name, st)
	}
	return ""
}

func (w *world) parkedAsync() []string {
	var out []string
	for _, p := range w.s.Procs() {
		if strings.Contains(p, "#") {
			if st, _ := w.s.State(p); st == sched.Parked {
				out = append(out, p)
			}
		}
	}
	return out
}

// drain releases everything still parked and waits until the released asynchronous goroutines are gone.
func (w *world) drain() bool {
	var gids []int64
	for _, p := range w.s.Procs() {
		if strings.Contains(p, "#") {
			if st, at := w.s.State(p); st == sched.Parked {
				if g, ok := at.Info["gid"].(int64); ok {
					gids = append(gids, g)
				}
			}
		}
	}
	ok := w.s.Drain(3 * time.Second)
	for _, g := range gids {
		ok = waitGone(g, 3*time.Second) && ok
	}
	// goroutines spawned during the drain (by handshakes that were released) run freely: give them a moment
	time.Sleep(2 * time.Millisecond)
	return ok
}

// ---- free-running variant ------------------------------------------------------------------------
// Several attackers, a registrant, an observer and an operator hammer one address for a while with
// seeded random pauses; the hook points only inject seeded jitter. Events are logged under one
// mutex with their own call brackets; the judge's demands are interval-based, so any logging order
// is sound.
func driveFree(env *fw.Env, beh *behaviour) *fw.Trace {
	const win, ban, bld = 60 * time.Millisecond, 100 * time.Millisecond, 90 * time.Millisecond
	beh.C = mcfg{Thr: 2, Perm: beh.Free.Perm, Burst: 3}
	rate := 40
	w := newWorld(beh, true, win, ban, rate)
	defer w.close()
	rnd := fw.NewRand(env.Seed*7919 + int64(beh.Free.Seed))
	var rmu sync.Mutex
	draw := func(n int) int { rmu.Lock(); defer rmu.Unlock(); return rnd.Intn(n) }
	w.s.FreeDelay = func(name string, g sched.GateInfo) {
		switch g.Point {
		case "bf.unban.enter", "ip.unblacklist.enter":
			time.Sleep(time.Duration(draw(4000)) * time.Microsecond)
			what := map[string]string{"bf.unban.enter": "unban", "ip.unblacklist.enter": "unbl"}[g.Point]
			w.log(fw.Event{"ev": "Async", "what": what, "ip": "a", "t0": w.ms0(), "t1": w.ms1()}) // it runs right after this
		case "bf.ban.enter":
			if draw(3) == 0 {
				time.Sleep(time.Duration(draw(800)) * time.Microsecond)
			}
		}
	}
	w.log(fw.Event{"ev": "Cfg", "thr": 2, "perm": beh.Free.Perm, "win": int(win / time.Millisecond), "ban": int(ban / time.Millisecond),
		"bld": int(bld / time.Millisecond), "burst": 3, "rate": rate, "mS": marginStart, "mE": 12, "slack": rateSlack, "aTol": 6})
	stop := time.Now().Add(time.Duration(beh.Free.Ms) * time.Millisecond)
	var wg sync.WaitGroup
	run := func(f func()) {
		wg.Add(1)
		go func() {
			defer wg.Done()
			w.register(false)
			for time.Now().Before(stop) {
				f()
			}
		}()
	}
	bad := ""
	var badMu sync.Mutex
	hs := func(kind string) {
		t0 := w.ms0()
		res, cred := w.handshake("a", kind)
		if strings.HasPrefix(res, "err:") {
			badMu.Lock()
			bad = res
			badMu.Unlock()
			return
		}
		w.log(fw.Event{"ev": "Hs", "ip": "a", "kind": kind, "res": res, "cred": cred, "t0": t0, "t1": w.ms1()})
	}
	for a := 0; a < 3; a++ {
		run(func() { hs("Bad"); time.Sleep(time.Duration(draw(12000)) * time.Microsecond) })
	}
	run(func() {
		t0 := w.ms0()
		allowed, _ := w.ipm.IsAllowed(w.realIP("a"))
		banned, _ := w.bf.IsBanned(w.realIP("a"))
		w.log(fw.Event{"ev": "Query", "ip": "a", "bl": !allowed, "ban": banned, "probe": false, "t0": t0, "t1": w.ms1()})
		time.Sleep(time.Duration(500+draw(3000)) * time.Microsecond)
	})
	run(func() { // anonymous registrations straight at the limiter, from two goroutines' worth of pressure
		t0 := w.ms0()
		ok := w.rl.AllowIP(w.realIP("a"))
		w.log(fw.Event{"ev": "Take", "ip": "a", "ok": ok, "t0": t0, "t1": w.ms1()})
		time.Sleep(time.Duration(draw(9000)) * time.Microsecond)
	})
	if beh.Free.Seed%2 == 1 {
		run(func() { // operator: temporary blacklist orders now and then
			time.Sleep(time.Duration(40+draw(120)) * time.Millisecond)
			if !time.Now().Before(stop) {
				return
			}
			t0 := w.ms0()
			w.ipm.AddToBlacklist(w.realIP("a"), bld, "c18", "operator")
			w.log(fw.Event{"ev": "Blk", "ip": "a", "perm": false, "form": "ip", "t0": t0, "t1": w.ms1()})
		})
	}
	done := make(chan struct{})
	go func() { wg.Wait(); close(done) }()
	select {
	case <-done:
	case <-time.After(time.Duration(beh.Free.Ms)*time.Millisecond + 10*time.Second):
		return &fw.Trace{Status: fw.DriverError, Note: "free-running goroutines did not finish"}
	}
	if bad != "" {
		return &fw.Trace{Status: fw.DriverError, Note: "handshake: " + bad}
	}
	time.Sleep(5 * time.Millisecond)
	w.evMu.Lock()
	defer w.evMu.Unlock()
	return &fw.Trace{Status: fw.Realised, Events: w.events}
}

// ---- self-test: corrupted copies of accepted traces ----------------------------------------------
func num(v any) int64 {
	switch x := v.(type) {
	case int64:
		return x
	case int:
		return int64(x)
	case float64:
		return int64(x)
	}
	return 0
}

func cloneTrace(t *fw.Trace, id int) *fw.Trace {
	c := &fw.Trace{Status: fw.Realised, Beh: t.Beh}
	c.Beh.ID = id
	for _, e := range t.Events {
		ne := fw.Event{}
		for k, v := range e {
			ne[k] = v
		}
		c.Events = append(c.Events, ne)
	}
	return c
}

func selfTest(env *fw.Env, acc []*fw.Trace) []*fw.Trace {
	var out []*fw.Trace
	next := 1 << 20
	quota := map[string]int{"ban": 8, "bl": 8, "rate": 6, "gate": 6, "spur": 6, "lists": 10}
	for _, t := range acc {
		if len(t.Events) == 0 || t.Events[0]["ev"] != "Cfg" {
			continue
		}
		if isListsBeh(t.Beh.Data) {
			// (6) schedules of the IP manager's clean-up against operator calls: a refusal demanded by a permanent
			// order that returned before the look-up began (and was not withdrawn, address never whitelisted) is
			// turned into "allowed"
			if c := corruptLists(t, next+1); c != nil && quota["lists"] > 0 {
				next++
				out = append(out, c)
				quota["lists"]--
			}
			continue
		}
		cfg := t.Events[0]
		simple := true // sequential shape the re-computation below understands
		nFail := 0
		lastEnd := int64(-1)
		for _, e := range t.Events {
			switch e["ev"] {
			case "MUnban", "Clean", "Wl", "MUnbl", "Take":
				simple = false
			case "Blk":
				if e["fault"] == true {
					simple = false
				}
			case "Hs":
				if e["res"] == "fail" {
					nFail++
				}
				if num(e["t0"]) < lastEnd {
					simple = false // overlapping handshakes: the judge's rules for them are not re-computed here
				}
				lastEnd = num(e["t1"])
			}
		}
		if !simple {
			continue
		}
		// (1) a demanded refusal is turned into "not banned"
		if quota["ban"] > 0 {
			var fails [][2]int64
			done := false
			for i, e := range t.Events {
				if e["ev"] == "Hs" && e["res"] == "ok" {
					fails = nil
				}
				if e["ev"] == "Hs" && e["res"] == "fail" {
					fails = append(fails, [2]int64{num(e["t0"]), num(e["t1"])})
				}
				if e["ev"] != "Query" || e["ban"] != true || done {
					continue
				}
				q0, q1 := num(e["t0"]), num(e["t1"])
				for j, f := range fails {
					n := 0
					for _, g := range fails[:j+1] {
						if f[1]-g[0] < num(cfg["win"])-num(cfg["mE"]) {
							n++
						}
					}
					if n >= int(num(cfg["thr"])) && f[1]+num(cfg["mS"]) <= q0 && q1 <= f[0]+num(cfg["ban"])-num(cfg["mE"]) {
						next++
						c := cloneTrace(t, next)
						c.Events[i]["ban"] = false
						out = append(out, c)
						quota["ban"]--
						done = true
						break
					}
				}
			}
		}
		// (2) a demanded blacklist refusal is turned into "allowed"
		if quota["bl"] > 0 {
			type order struct {
				b0, b1 int64
				perm   bool
			}
			latest := map[string]order{} // per entry form that covers the address
			for i, e := range t.Events {
				if e["ev"] == "Blk" && e["form"] != "other" {
					latest[fmt.Sprint(e["form"])] = order{num(e["t0"]), num(e["t1"]), e["perm"] == true}
				}
				binding := false
				for _, o := range latest {
					binding = binding || (o.b1+num(cfg["mS"]) <= num(e["t0"]) && (o.perm || num(e["t1"]) <= o.b0+num(cfg["bld"])-num(cfg["mE"])))
				}
				if e["ev"] == "Query" && e["bl"] == true && binding {
					next++
					c := cloneTrace(t, next)
					c.Events[i]["bl"] = false
					out = append(out, c)
					quota["bl"]--
					break
				}
			}
		}
		// (3) more registrations admitted at one instant than the bucket can hold
		if quota["rate"] > 0 {
			for i, e := range t.Events {
				if e["ev"] == "Hs" && e["kind"] == "Anon" && e["res"] == "ok" {
					next++
					c := cloneTrace(t, next)
					var extra []fw.Event
					// enough copies to exceed burst + rate * (length of this call's bracket) + slack
					for k := 0; k < int(num(cfg["burst"])+2+num(cfg["rate"])*(num(e["t1"])-num(e["t0"]))/1000); k++ {
						d := fw.Event{}
						for kk, v := range e {
							d[kk] = v
						}
						extra = append(extra, d)
					}
					c.Events = append(c.Events[:i+1:i+1], append(extra, c.Events[i+1:]...)...)
					out = append(out, c)
					quota["rate"]--
					break
				}
			}
		}
		// (4) a handshake refused at a gate is given a credential-store call
		if quota["gate"] > 0 {
			for i, e := range t.Events {
				if e["ev"] == "Hs" && (e["res"] == "ban" || e["res"] == "bl") {
					next++
					c := cloneTrace(t, next)
					c.Events[i]["cred"] = 1
					out = append(out, c)
					quota["gate"]--
					break
				}
			}
		}
		// (5) an address that never failed is reported banned
		if quota["spur"] > 0 && nFail == 0 {
			for i, e := range t.Events {
				if e["ev"] == "Query" && e["ban"] == false {
					next++
					c := cloneTrace(t, next)
					c.Events[i]["ban"] = true
					out = append(out, c)
					quota["spur"]--
					break
				}
			}
		}
	}
	return out
}

func corruptLists(t *fw.Trace, id int) *fw.Trace {
	cfg := t.Events[0]
	type ord struct {
		perm bool
		t1   int64
	}
	latest := map[string]map[string]*ord{"a": {}, "b": {}}
	wl := map[string]bool{}
	for _, e := range t.Events {
		if e["ev"] == "Wl" {
			wl[fmt.Sprint(e["ip"])] = true
		}
	}
	for i, e := range t.Events {
		ip := fmt.Sprint(e["ip"])
		switch e["ev"] {
		case "Blk":
			latest[ip][fmt.Sprint(e["form"])] = &ord{e["perm"] == true, num(e["t1"])}
		case "MUnbl":
			delete(latest[ip], fmt.Sprint(e["form"]))
		case "Query":
			if e["bl"] != true || wl[ip] {
				continue
			}
			for _, o := range latest[ip] {
				if o.perm && o.t1+num(cfg["mS"]) <= num(e["t0"]) {
					c := cloneTrace(t, id)
					c.Events[i]["bl"] = false
					return c
				}
			}
		}
	}
	return nil
}

// ---- wiring ----------------------------------------------------------------------------------------
const (
	actsBan  = `{"Bad", "Query", "Tick", "Unban"}`
	actsSeq  = `{"Bad", "Good", "Query", "Tick", "Unban", "Clean", "MUnban"}`
	actsBl   = `{"Blk", "BlkP", "BlkO", "MUnbl", "Wl", "WlO", "UnWl", "Query", "Tick", "Unbl", "CleanL", "Reload"}`
	actsRate = `{"Anon", "Tick", "Idle", "Flood"}`
	actsRtHs = `{"Anon", "Anon2", "Zero", "Tick", "Idle", "FloodHs"}` // the limiter as seen through HandleHandshake
	actsSplt = `{"Bad", "Query", "Tick", "CleanScan", "CleanDel"}`    // deviation: clean-up that scans, then deletes
	actsGate = `{"Blk", "Bad", "Good", "Anon", "Query", "Tick"}`
	actsAll  = `{"Bad", "Good", "Anon", "Query", "Tick", "Unban", "Unbl", "Clean", "CleanL", "MUnban", "Blk", "BlkP", "MUnbl", "Wl", "Reload", "Flood", "Anon2"}`
	fixHead  = `{"unban", "unbl", "order"}` // patches C18-1..3
	fixAll   = `{"unban", "unbl", "order", "shadow"}`
	allSteps = `{"Hs", "Cred", "Ban", "Query", "Tick", "Unban", "Unbl", "Clean", "CleanL", "MUnban", "Blk", "BlkP", "MUnbl", "Wl", "UnWl", "Reload", "Idle", "Flood", "FloodHs", "CleanScan", "CleanDel"}`
	allStDev = `{"Hs", "Cred", "Ban", "Query", "Tick", "Unban", "Unbl", "Clean", "CleanL", "MUnban", "Blk", "BlkP", "MUnbl", "Wl", "UnWl", "Reload", "Idle", "Flood", "FloodHs", "CleanScan", "CleanDel", "dev"}`
)

// tm = time constants of a model configuration: threshold, permanent threshold, window, ban (ticks), clock bound
type tm struct{ thr, perm, win, ban, clock int }

func (t tm) consts() map[string]string {
	return map[string]string{"THR": strconv.Itoa(t.thr), "PERMAT": strconv.Itoa(t.perm), "WIN": strconv.Itoa(t.win), "BAN": strconv.Itoa(t.ban),
		"MAXCLOCK": strconv.Itoa(t.clock), "MAXTOTAL": strconv.Itoa(t.perm + 1), "MAXADM": "4", "BLFORMS": `{"ip", "net"}`, "IPS": `{"a"}`}
}

func mcJob(name, procs, acts, atomic, fixed, invs string, t tm) fw.TLCJob {
	c := t.consts()
	c["PROCS"], c["ACTS"], c["ATOMIC"], c["FIXED"], c["INVS"] = procs, acts, atomic, fixed, invs
	return fw.TLCJob{Name: name, Module: "BruteForce", Cfg: "BruteForce_mc.cfg", Workers: 8, Timeout: 12 * time.Minute, Consts: c}
}

func genJob(name, procs, acts, atomic, fixed, emit string, t tm) fw.TLCJob {
	c := t.consts()
	c["PROCS"], c["ACTS"], c["ATOMIC"], c["FIXED"], c["EMITACTS"], c["MAXHIST"], c["VIEW"], c["XCON"] = procs, acts, atomic, fixed, emit, "999", "VIEW view", ""
	return fw.TLCJob{Name: name, Module: "BruteForce", Cfg: "BruteForce_gen.cfg", Workers: 4, Timeout: 10 * time.Minute, Consts: c}
}

func reloadClock(env *fw.Env) int {
	if env.Tier == "thorough" {
		return 2
	}
	return 0
}

func genRecycle(env *fw.Env) fw.TLCJob {
	// Which record a new address's record is built from depends on the ORDER of releases and first
	// failures, not on the model state they lead to: ALL histories up to the bound are enumerated
	// (hist in the fingerprint), each ending with the query of an address that is not banned but would
	// be over PermAt had its record inherited what was released before it was created.
	maxHist := "11" // 5 handshakes + the query
	if env.Tier == "thorough" {
		maxHist = "13"
	}
	j := genJob("gen:recycle", `{"h1"}`, `{"Bad", "Good", "Query"}`, "TRUE", fixAll, `{"inherit"}`, tm{2, 3, 2, 2, 0})
	j.Consts["IPS"], j.Consts["VIEW"], j.Consts["MAXHIST"], j.Consts["XCON"] = `{"a", "b"}`, "", maxHist, "QueryLast"
	return j
}

func genFault(env *fw.Env) fw.TLCJob {
	acts, mc := `{"Blk", "BlkP", "BlkF", "Query"}`, 0
	if env.Tier == "thorough" {
		acts, mc = `{"Blk", "BlkP", "BlkF", "MUnbl", "Tick", "Query"}`, 2
	}
	return genJob("gen:fault", `{"h1"}`, acts, "TRUE", fixAll, `{"fault"}`, tm{2, 3, 2, 2, mc})
}

func genRateHs(env *fw.Env) fw.TLCJob {
	mc := 5
	if env.Tier == "thorough" {
		mc = 8
	}
	j := genJob("gen:rate-hs", `{"h1"}`, actsRtHs, "TRUE", fixAll, `{"FloodHs"}`, tm{2, 3, 2, 2, mc})
	j.Consts["MAXADM"] = "10"
	return j
}

func genRanges(env *fw.Env) fw.TLCJob {
	acts, forms, mc := `{"Blk", "BlkP", "Tick", "Query"}`, `{"net", "net2"}`, 3
	if env.Tier == "thorough" {
		acts, forms, mc = `{"Blk", "BlkP", "MUnbl", "Wl", "Tick", "Query", "Reload", "CleanL"}`, `{"ip", "net", "net2"}`, 4
	}
	j := genJob("gen:ranges", `{"h1"}`, acts, "TRUE", fixAll, `{"mixed"}`, tm{2, 3, 2, 2, mc})
	j.Consts["BLFORMS"] = forms
	return j
}

func genRate(env *fw.Env) fw.TLCJob {
	mc := 6
	if env.Tier == "thorough" {
		mc = 9
	}
	j := genJob("gen:rate", `{"h1"}`, actsRate, "TRUE", fixAll, `{"Hs", "Cred", "Flood"}`, tm{2, 3, 2, 2, mc})
	j.Consts["MAXADM"] = "10"
	return j
}

// listsJob: one TLC run of spec/BruteForceLists.tla (the IPManager at lock / storage-call granularity).
// nets = addresses that also have a range entry; emit = {} for a pure model check.
func listsJob(name, variants, addrs, nets, ops, emit, invs string, maxCalls, maxWait int) fw.TLCJob {
	return fw.TLCJob{Name: name, Module: "BruteForceLists", Cfg: "BruteForceLists.cfg", Workers: 4, Timeout: 12 * time.Minute, Consts: map[string]string{
		"ADDRS": addrs, "NETOF": nets, "OPS": "{1, 2}", "INITKINDS": `{"none", "exp", "perm"}`, "OPKINDS": ops, "VARIANTS": variants,
		"MAXPASS": "1", "MAXCALLS": strconv.Itoa(maxCalls), "MAXEPOCH": "1", "MAXEXP": "2", "MAXWAIT": strconv.Itoa(maxWait),
		"ACTS": `{"Query", "Reload"}`, "EMIT": emit, "INVS": invs}}
}

const (
	listsOps   = `{"BlkP", "Blk", "Wl", "UnWl", "MUnbl"}`
	listsInvs  = "BlacklistHolds MemKeeps StoreKeeps NoDeviation"
	listsDevs  = `{"split", "norecheck", "stunlocked", "norecheck+stunlocked"}` // a correct per-key locking and the three deviations
	listsDevs3 = `{"norecheck", "stunlocked", "norecheck+stunlocked"}`
	listsAsIs  = `{"locked"}`
	listsBoth  = `{"locked", "split"}`
	listsNoNet = "{}"
)

// deviation "split clean-up" of the protector: every delete of a scanned address, every recorded deviation; two
// addresses (the log-line seam lets the driver in only after the pass's first delete)
func genCleanSplit(env *fw.Env) fw.TLCJob {
	mc := 2
	if env.Tier == "thorough" {
		mc = 3
	}
	j := genJob("legacy:clean-split", `{"h1"}`, actsSplt, "TRUE", fixAll, `{"CleanDel", "dev"}`, tm{2, 3, 2, 2, mc})
	j.Consts["IPS"] = `{"a", "b"}`
	return j
}

func genClean(env *fw.Env) fw.TLCJob {
	if env.Tier == "thorough" {
		return listsJob("gen:clean", listsAsIs, `{"a", "b"}`, `{"a"}`, listsOps, `{"cend", "ret"}`, listsInvs, 2, 1)
	}
	return listsJob("gen:clean", listsAsIs, `{"a"}`, `{"a"}`, listsOps, `{"cend", "ret"}`, listsInvs, 2, 1)
}

// thorough: temporary entries that are live at first and run out while calls and (two) passes are under way
func genCleanEpochs() fw.TLCJob {
	j := listsJob("gen:clean:epochs", listsAsIs, `{"a", "b"}`, listsNoNet, `{"BlkP", "Blk", "MUnbl"}`, `{"cend", "ret"}`, listsInvs, 2, 1)
	j.Consts["INITKINDS"], j.Consts["MAXEPOCH"], j.Consts["MAXPASS"], j.Consts["ACTS"] = `{"none", "exp", "live", "perm"}`, "2", "2", `{"Query", "Reload", "Expire"}`
	return j
}

func genCleanVariants(env *fw.Env) fw.TLCJob {
	if env.Tier == "thorough" {
		j := listsJob("legacy:clean-variants", listsDevs, `{"a", "b"}`, `{"a"}`, `{"BlkP", "Blk", "MUnbl"}`, `{"dev", "cend"}`, "", 2, 1)
		j.Consts["MAXEXP"] = "3" // three expired entries: a call that waits for the per-key lock gets it before the third
		return j
	}
	return listsJob("legacy:clean-variants", listsDevs3, `{"a", "b"}`, listsNoNet, `{"BlkP", "Blk", "Wl", "MUnbl"}`, `{"dev", "cend"}`, "", 2, 1)
}

// only (developer knob C18_ONLY=<substring>): run just the TLC jobs whose name contains the substring
func only(jobs []fw.TLCJob) []fw.TLCJob {
	f := os.Getenv("C18_ONLY")
	if f == "" {
		return jobs
	}
	var out []fw.TLCJob
	for _, j := range jobs {
		if strings.Contains(j.Name, f) {
			out = append(out, j)
		}
	}
	return out
}

func main() {
	const asIs = "BanHoldsOrKnown BlacklistHoldsOrKnown"
	const strict = "BanHolds BlacklistHolds NoDeviation"
	one, two := `{"h1"}`, `{"h1", "h2"}`
	race := `{"Bad", "Query", "Tick", "Unban", "MUnban"}`
	modelJobs := func(env *fw.Env) []fw.TLCJob {
		if env.Tier == "quick" {
			lists := `{"Blk", "BlkP", "MUnbl", "Wl", "Query", "Tick", "Unbl", "Reload", "CleanL"}`
			rate := mcJob("mc:rate", one, `{"Anon", "Anon2", "Zero", "Tick", "Idle", "Flood", "FloodHs", "ConcFirst"}`, "TRUE", fixAll, strict, tm{2, 3, 2, 2, 8})
			rate.Consts["MAXADM"] = "8"
			recycle := mcJob("mc:recycle", one, `{"Bad", "Good", "Query", "Tick", "Clean"}`, "TRUE", fixAll, strict, tm{2, 3, 2, 2, 2})
			recycle.Consts["IPS"] = `{"a", "b"}` // two addresses: released failure records belong to nobody
			// the quick tier merges sub-systems whose state graphs are small into one TLC run each (a JVM start
			// costs more than these graphs); the thorough tier checks them separately and larger
			return []fw.TLCJob{
				rate, recycle,
				mcJob("mc:race:as-is", two, race, "FALSE", "{}", asIs, tm{2, 3, 2, 2, 4}),
				// repaired design, plus the deviation "split clean-up" (scan, then delete): with every repair
				// in place the only excuse BanHoldsOrKnown can still use is cleanLive
				mcJob("mc:race:repaired+clean-split", two, `{"Bad", "Query", "Tick", "Unban", "MUnban", "CleanScan", "CleanDel"}`, "FALSE", fixAll, "BanHoldsOrKnown BlacklistHolds", tm{2, 3, 2, 2, 4}),
				mcJob("mc:seq:as-is", one, `{"Bad", "Good", "Query", "Tick", "Unban", "CleanF", "CleanB", "Clean", "MUnban"}`, "FALSE", "{}", asIs, tm{2, 3, 2, 2, 5}),
				mcJob("mc:lists:as-is", one, lists, "TRUE", "{}", asIs, tm{2, 3, 2, 2, 4}),
				mcJob("mc:lists:repaired+fault", one, `{"Blk", "BlkP", "BlkF", "MUnbl", "Wl", "Query", "Tick", "Unbl", "Reload", "CleanL"}`, "TRUE", fixAll, strict, tm{2, 3, 2, 2, 3}),
			}
		}
		full := `{"Bad", "Good", "Query", "Tick", "Unban", "CleanF", "CleanB", "MUnban"}`
		lists := `{"Blk", "BlkP", "BlkO", "MUnbl", "Wl", "WlO", "UnWl", "Query", "Tick", "Unbl", "CleanL", "Reload"}`
		listsHs := `{"Blk", "BlkP", "MUnbl", "Wl", "Query", "Tick", "Unbl", "Reload", "Anon", "Bad"}` // lists in front of the other gates
		rate := mcJob("mc:rate", one, `{"Anon", "Anon2", "Zero", "Tick", "Idle", "Flood", "FloodHs", "ConcFirst"}`, "TRUE", fixAll, strict, tm{2, 3, 2, 2, 9})
		rate.Consts["MAXADM"] = "10"
		l3a := mcJob("mc:lists3:as-is", one, `{"Blk", "BlkP", "MUnbl", "Wl", "Query", "Tick", "Unbl", "Reload", "CleanL"}`, "TRUE", "{}", asIs, tm{2, 3, 2, 2, 4})
		l3r := mcJob("mc:lists3:repaired", one, `{"Blk", "BlkP", "MUnbl", "Wl", "Query", "Tick", "Unbl", "Reload", "CleanL"}`, "TRUE", fixAll, strict, tm{2, 3, 2, 2, 4})
		l3a.Consts["BLFORMS"], l3r.Consts["BLFORMS"] = `{"ip", "net", "net2"}`, `{"ip", "net", "net2"}`
		// (clock <= 2: with clock <= 3 this graph has > 1.5e7 states and does not finish inside the tier's budget)
		recycle := mcJob("mc:recycle", two, `{"Bad", "Good", "Query", "Tick", "Clean", "Unban"}`, "FALSE", fixAll, strict, tm{2, 3, 2, 2, 2})
		recycle.Consts["IPS"] = `{"a", "b"}`
		return []fw.TLCJob{
			rate, l3a, l3r, recycle,
			mcJob("mc:lists:fault", one, `{"Blk", "BlkP", "BlkF", "MUnbl", "Wl", "UnWl", "Query", "Tick", "Unbl", "CleanL"}`, "TRUE", fixAll, strict, tm{2, 3, 2, 2, 4}),
			mcJob("mc:clean-split", two, `{"Bad", "Query", "Tick", "CleanScan", "CleanDel", "MUnban"}`, "FALSE", fixAll, "BanHoldsOrKnown BlacklistHolds", tm{2, 3, 2, 2, 4}),
			mcJob("mc:lists:head", one, lists, "TRUE", fixHead, "BanHolds BlacklistHoldsOrKnown", tm{2, 3, 2, 2, 5}),
			mcJob("mc:lists+hs:as-is", one, listsHs, "TRUE", "{}", asIs, tm{2, 3, 2, 2, 3}),
			mcJob("mc:lists+hs:repaired", one, listsHs, "TRUE", fixAll, strict, tm{2, 3, 2, 2, 3}),
			mcJob("mc:race-full:as-is", two, full, "FALSE", "{}", asIs, tm{2, 3, 2, 2, 4}),
			mcJob("mc:race-full:repaired", two, full, "FALSE", fixAll, strict, tm{2, 3, 2, 2, 4}),
			mcJob("mc:race-ban3:as-is", two, race, "FALSE", "{}", asIs, tm{2, 3, 2, 3, 6}),
			mcJob("mc:race-ban3:repaired", two, race, "FALSE", fixAll, strict, tm{2, 3, 2, 3, 6}),
			mcJob("mc:race-thr3:as-is", two, race, "FALSE", "{}", asIs, tm{3, 4, 3, 2, 5}),
			mcJob("mc:race-thr3:repaired", two, race, "FALSE", fixAll, strict, tm{3, 4, 3, 2, 5}),
			mcJob("mc:lists:as-is", one, lists, "TRUE", "{}", asIs, tm{2, 3, 2, 2, 5}),
			mcJob("mc:lists:repaired", one, lists, "TRUE", fixAll, strict, tm{2, 3, 2, 2, 5}),
			// the IPManager at lock / storage-call granularity: the clean-up as it stands and a correct per-key locking
			// (the quick tier checks the invariants of the clean-up as it stands in its generation job gen:clean)
			listsJob("mc:clean:as-is+split", listsBoth, `{"a", "b"}`, `{"a"}`, listsOps, "{}", listsInvs, 2, 2),
		}
	}
	genJobs := func(env *fw.Env) []fw.TLCJob {
		mc := 4
		if env.Tier == "thorough" {
			mc = 5
		}
		jobs := []fw.TLCJob{
			// every placement of the asynchronous unban in the graph of two racing handshakes, and every
			// step at which the as-is model records a deviation / a violation (TLC's counterexamples)
			genJob("gen:ban:as-is", two, actsBan, "FALSE", "{}", `{"Unban", "dev"}`, tm{2, 3, 2, 2, mc}),
			genJob("gen:ban:repaired", two, actsBan, "FALSE", fixAll, `{"Unban", "Ban"}`, tm{2, 3, 2, 2, mc}),
			// sequential histories over the whole protector alphabet: one behaviour per transition
			genJob("gen:seq", one, actsSeq, "TRUE", "{}", allSteps, tm{2, 3, 2, 2, mc}),
			genJob("gen:lists:as-is", one, actsBl, "TRUE", "{}", allStDev, tm{2, 3, 2, 2, 3}),
			// a restart from every combination of exact / range black- and whitelist entries (then the probe)
			genJob("gen:reload", one, `{"Blk", "BlkP", "BlkO", "MUnbl", "Wl", "WlO", "UnWl", "Query", "Tick", "Reload"}`, "TRUE", fixAll, `{"Reload"}`, tm{2, 3, 2, 2, reloadClock(env)}),
			genJob("gen:gate", one, actsGate, "TRUE", "{}", `{"Hs", "Cred", "Ban", "Query"}`, tm{2, 3, 2, 2, 2}),
			// rate-limiter histories: take(s), idle for a whole refill period, flood - one per transition
			genRate(env),
			// ... and the same through HandleHandshake, over every request shape that is a registration
			genRateHs(env),
			// two overlapping blacklisted ranges with independent lifetimes: every query made while an
			// expired and a live entry coexist (the driver asks each such state many times)
			genRanges(env),
			// deviation "split clean-up": every delete of a scanned address, every recorded deviation
			genCleanSplit(env),
			// several addresses fail and succeed (their failure records are released), then another address
			// fails: every query of an address that would be over PermAt had it inherited the released counts
			genRecycle(env),
			// blacklist orders given while the storage write fails, over every state of the two entry forms
			genFault(env),
			// concurrent first AllowIP calls of an address without a bucket (repeated by the driver for many addresses)
			genJob("gen:conc-first", one, `{"Anon", "Tick", "ConcFirst", "Flood"}`, "TRUE", fixAll, `{"ConcFirst"}`, tm{2, 3, 2, 2, 4}),
			// the clean-up pass of the IP manager against operator calls, storage call by storage call: every end of a
			// pass and every return of a call during a pass (all invariants checked; quick: one address with an exact
			// and a range entry, thorough: two addresses)
			genClean(env),
			// the same under the clean-up variants that shorten the critical section: every step at which a deviation
			// (cleanupNoRecheck, cleanupStorageUnlocked) or a violation is recorded, every end of a pass
			genCleanVariants(env),
		}
		if env.Tier == "thorough" {
			jobs = append(jobs,
				genJob("gen:lists:repaired", one, actsBl, "TRUE", fixAll, `{"Unbl", "Query"}`, tm{2, 3, 2, 2, 3}),
				genJob("gen:seq:ban3", one, actsSeq, "TRUE", "{}", allSteps, tm{2, 4, 2, 3, 6}),
				genJob("gen:seq:thr3", one, actsSeq, "TRUE", "{}", allSteps, tm{3, 4, 3, 2, 5}),
				genJob("gen:ban3:as-is", one, actsBan, "FALSE", "{}", `{"Unban", "dev"}`, tm{2, 3, 2, 3, 6}),
				genJob("gen:thr3:as-is", two, actsBan, "FALSE", "{}", `{"dev"}`, tm{3, 4, 3, 2, 5}),
				genJob("legacy:clean-split:1", one, actsSplt, "TRUE", fixAll, `{"CleanDel", "dev"}`, tm{2, 3, 2, 2, 4}),
				genCleanEpochs())
		}
		num := "num=40"
		if env.Tier == "thorough" {
			num = "num=400"
		}
		if v := os.Getenv("C18_SIM"); v != "" { // developer knob: more simulated histories in the quick tier
			num = "num=" + v
		}
		for i, fixed := range []string{"{}", fixAll} {
			if i == 0 && env.Tier == "quick" {
				continue // histories of the code before the repairs: thorough tier only
			}
			j := genJob(fmt.Sprintf("sim:%d", i), two, actsAll, "FALSE", fixed, `{"end"}`, tm{2, 3, 2, 2, 6})
			j.Consts["MAXHIST"] = "28"
			j.Consts["VIEW"] = ""
			j.Simulate, j.Depth, j.Seed, j.Workers = num, 30, env.Seed+int64(i), 1
			jobs = append(jobs, j)
		}
		return jobs
	}
	fw.Main(&fw.Property{
		ID:        "C18",
		DesignRef: "DESIGN.md §5 C18",
		ModelJobs: func(env *fw.Env) []fw.TLCJob { return only(modelJobs(env)) },
		GenJobs:   func(env *fw.Env) []fw.TLCJob { return only(genJobs(env)) },
		Expand: func(env *fw.Env, src string, raw json.RawMessage) []json.RawMessage {
			if isListsBeh(raw) {
				return []json.RawMessage{raw}
			}
			var beh behaviour
			if err := json.Unmarshal(raw, &beh); err != nil {
				panic(err)
			}
			h := 0
			for _, c := range raw {
				h = h*31 + int(c)
				h &= 0xffffff
			}
			beh.Bad = []string{"unknown", "hmac", "nochal"}[h%3]
			beh.FltAt = []string{"set", "list"}[(h/3)%2]
			return []json.RawMessage{fw.MustJSON(beh)}
		},
		ExtraBeh: func(env *fw.Env) []json.RawMessage {
			n, ms := 8, 700
			if env.Tier == "thorough" {
				n, ms = 60, 1500
			}
			var out []json.RawMessage
			nl := 8 // free-running clean-up / operators / observer on one IP manager (lists.go)
			if env.Tier == "thorough" {
				nl = 30
			}
			for i := 0; i < nl; i++ {
				out = append(out, fw.MustJSON(listsBeh{L: &listsHdr{V: "free", Free: i + 1, Ms: 400}}))
			}
			if f := os.Getenv("C18_ONLY"); f != "" && !strings.Contains("free", f) {
				if strings.Contains("clean", f) {
					return out
				}
				return nil
			}
			for i := 0; i < n; i++ {
				perm := 1000000
				if i%4 == 3 {
					perm = 6
				}
				out = append(out, fw.MustJSON(behaviour{Free: &freeP{Seed: i, Perm: perm, Ms: ms}}))
			}
			return out
		},
		MaxBehSrc: func(env *fw.Env, src string) int {
			if env.Tier == "thorough" {
				if strings.HasPrefix(src, "gen:seq") {
					return 1500
				}
				if strings.HasPrefix(src, "gen:clean") || src == "legacy:clean-variants" {
					return 400
				}
				return 800
			}
			switch {
			case strings.HasPrefix(src, "gen:ban"):
				return 45
			case strings.HasPrefix(src, "sim:"):
				if v, err := strconv.Atoi(os.Getenv("C18_SIM")); err == nil && v > 0 {
					return v
				}
				return 15
			case src == "gen:seq":
				return 60
			}
			return 40
		},
		Drive:    drive,
		Parallel: 40,
		PostDrive: func(env *fw.Env, traces []*fw.Trace) error {
			agree.mu.Lock()
			defer agree.mu.Unlock()
			var srcs []string
			for s := range agree.ok {
				srcs = append(srcs, s)
			}
			for s := range agree.no {
				if _, ok := agree.ok[s]; !ok {
					srcs = append(srcs, s)
				}
			}
			sort.Strings(srcs)
			for _, s := range srcs {
				line := fmt.Sprintf("[bind] %-22s answers agreeing with the model that generated the behaviour: %d of %d", s, agree.ok[s], agree.ok[s]+agree.no[s])
				if agree.first[s] != "" && os.Getenv("VERIF_DEBUG") != "" {
					line += "  e.g. " + agree.first[s]
				}
				fmt.Println(line)
			}
			return nil
		},
		SelfTest:    selfTest,
		JudgeModule: "BruteForceTrace",
		JudgeCfg:    "BruteForceTrace.cfg",
		NonTrivial: func(t *fw.Trace) bool {
			n := 0
			for _, e := range t.Events {
				if e["ev"] == "Hs" || e["ev"] == "Async" || e["ev"] == "Blk" {
					n++
				}
			}
			return n >= 2
		},
		Rule: "behaviours are printed by TLC from spec/BruteForce.tla: one per transition (state, step) of the sequential graphs, every placement of the asynchronous unban/un-blacklist and every step at which the as-is model records a deviation or violation in the graph of two racing handshakes, plus -simulate histories; each is replayed on the real objects behind the real HandleHandshake with a real clock. From spec/BruteForceLists.tla: every end of a clean-up pass of the IP manager and every return of an operator call during a pass, storage call by storage call (gate-controlled storage), under the clean-up as it stands and under its lock-shortening variants (every recorded deviation / violation), plus free-running clean-up / operators / observer. non-trivial = realised with at least two handshakes / asynchronous removals / blacklist orders",
		Assumptions: []string{
			fmt.Sprintf("one model tick = %v of real time; durations of n ticks are configured as (n-1/2) ticks; a behaviour whose steps left the first third of their tick is discarded as inconclusive", tickD),
			"the judge evaluates every timed predicate on measured call brackets (monotonic clock, ms) with margins: its demands are sound whatever the load, the margins only bound what it can demand",
			"the credential store and the connection object are doubles; SessionManager is real but only asked for its node id",
			"lifetime failure count = as kept with the failure record (dropped on success and when a clean-up finds its window empty)",
			"IP manager schedules: the storage double (the repository's memory storage behind gates) is the only seam; 'waits for the manager's lock' is read from the goroutine's wait reason; a blacklist order counts from the return of AddToBlacklist (nil), a withdrawal from the call of RemoveFromBlacklist, whitelisting from the call of AddToWhitelist to the return of RemoveFromWhitelist; a restart happens only when no call is in flight",
		},
		TrustedBase: []string{"TLC", "spec/BruteForceTrace.tla as the reading of C18", "harness/sched gate scheduler", "goroutine-creator routing of verifhook calls (runtime.Stack)", "goroutine wait reasons (runtime.Stack) as evidence of a lock wait", "monotonic clock of the Go runtime"},
	})
}
