// C18 driver, part 2: schedules of spec/BruteForceLists.tla - the IPManager's lists at lock /
// storage-call granularity - on the real security.IPManager.
//
// The seam is the storage: the manager persists to a gate-controlled wrapper around the repository's
// memory storage, every Set / AppendToList / Delete / RemoveFromList of a scheduled process (an operator
// call, a clean-up pass) parks at a gate and is released in TLC's order. There is no yield point inside
// cleanup() and none is needed: between two storage calls the code under test does whatever its locking
// lets it do, and "waits for the manager's lock" is observed from outside (the goroutine's wait reason).
// A schedule step names a process; the driver releases that process by one gate WHATEVER gate it is at:
// when the code is not where the model of the behaviour's clean-up variant says (the variant is not the
// one this tree implements), the rest of the schedule still runs - the adds, removals, restarts and
// queries still happen in the same order around the same storage calls - and the execution is judged as
// fw.Diverged.
package main

import (
	"bytes"
	"context"
	"encoding/json"
	"fmt"
	"runtime"
	"strconv"
	"strings"
	"sync"
	"time"

	"tunnox-core/internal/core/storage"
	"tunnox-core/internal/security"
	"tunnox-core/verifharness/fw"
	"tunnox-core/verifharness/sched"
)

const (
	expLife   = 40 * time.Millisecond   // lifetime of an initially expired entry
	expWait   = 25 * time.Millisecond   // ... and how long after its end the schedule begins
	liveLife  = 20 * time.Second        // lifetime of a temporary entry that stays live for the whole behaviour
	epochLife = 1200 * time.Millisecond // ... when the behaviour has Expire steps: every temporary entry lives this long
	listsMarE = 30                      // ms: judge margin before the end of a temporary order
	clProc    = 99                      // the cleaner's process number in BruteForceLists.tla
	patience  = 120 * time.Millisecond  // how long "waits for the lock" must last before it contradicts a model that has the lock free
)

type lkey struct {
	Ad string `json:"ad"`
	F  string `json:"f"`
}

type lnx struct {
	To string `json:"to"` // del | rem | end | wait
	Ad string `json:"ad"`
	F  string `json:"f"`
}

type linit struct {
	Ad   string `json:"ad"`
	F    string `json:"f"`
	Kind string `json:"kind"` // none | exp | live | perm
}

type lstep struct {
	A   string  `json:"a"`
	P   int     `json:"p,omitempty"`
	Op  string  `json:"op,omitempty"`
	Ad  string  `json:"ad,omitempty"`
	F   string  `json:"f,omitempty"`
	G   string  `json:"g,omitempty"`
	Got bool    `json:"got,omitempty"`
	Ret bool    `json:"ret,omitempty"`
	V   string  `json:"v,omitempty"`
	Ord []lkey  `json:"ord,omitempty"`
	Nx  *lnx    `json:"nx,omitempty"`
	St  []linit `json:"st,omitempty"`
	Bl  bool    `json:"bl,omitempty"`
}

type listsHdr struct {
	V    string `json:"v"`              // clean-up variant of the model that generated the schedule
	Free int    `json:"free,omitempty"` // > 0: free-running variant, seed
	Ms   int    `json:"ms,omitempty"`
}

type listsBeh struct {
	L *listsHdr `json:"lists"`
	S []lstep   `json:"s"`
}

func isListsBeh(raw json.RawMessage) bool {
	var probe struct {
		L *json.RawMessage `json:"lists"`
	}
	return json.Unmarshal(raw, &probe) == nil && probe.L != nil
}

// ---- the storage seam ------------------------------------------------------------------------------
type gateStore struct {
	storage.Storage
	lists storage.ListStore
	s     *sched.Sched
}

func splitKey(key string, val any) (list, entry string) {
	const p = "tunnox:security:ip:"
	rest := strings.TrimPrefix(key, p)
	i := strings.IndexByte(rest, ':')
	if i < 0 {
		return rest, ""
	}
	list, entry = rest[:i], rest[i+1:]
	if entry == "index" && val != nil {
		entry = fmt.Sprint(val)
	}
	return
}

func (g *gateStore) gate(op, key string, val any) {
	list, entry := splitKey(key, val)
	g.s.Gate("st."+op, map[string]any{"list": list, "entry": entry})
}

func (g *gateStore) Set(key string, value any, ttl time.Duration) error {
	g.gate("Set", key, nil)
	defer g.s.After()
	return g.Storage.Set(key, value, ttl)
}
func (g *gateStore) Delete(key string) error {
	g.gate("Delete", key, nil)
	defer g.s.After()
	return g.Storage.Delete(key)
}
func (g *gateStore) SetList(key string, values []any, ttl time.Duration) error {
	return g.lists.SetList(key, values, ttl)
}
func (g *gateStore) GetList(key string) ([]any, error) { return g.lists.GetList(key) }
func (g *gateStore) AppendToList(key string, value any) error {
	g.gate("Append", key, value)
	defer g.s.After()
	return g.lists.AppendToList(key, value)
}
func (g *gateStore) RemoveFromList(key string, value any) error {
	g.gate("Remove", key, value)
	defer g.s.After()
	return g.lists.RemoveFromList(key, value)
}

// ---- goroutine wait reasons -------------------------------------------------------------------------
// lockWaiting reports whether goroutine gid is parked inside a sync lock acquisition (the manager's
// RWMutex): "blocked on the lock" is observed, not inferred from a timeout.
func lockWaiting(gid int64) bool {
	bp := stackPool.Get().(*[]byte)
	defer stackPool.Put(bp)
	var dump []byte
	for {
		n := runtime.Stack(*bp, true)
		if n < len(*bp) {
			dump = (*bp)[:n]
			break
		}
		nb := make([]byte, 2*len(*bp))
		*bp = nb
	}
	hdr := []byte("goroutine " + strconv.FormatInt(gid, 10) + " [")
	i := bytes.Index(dump, hdr)
	if i < 0 {
		return false
	}
	rest := dump[i+len(hdr):]
	for _, reason := range []string{"sync.RWMutex.", "sync.Mutex.", "semacquire"} {
		if bytes.HasPrefix(rest, []byte(reason)) {
			return true
		}
	}
	return false
}

// ---- one behaviour's world ---------------------------------------------------------------------------
type lworld struct {
	s      *sched.Sched
	ctx    func() // cancel
	stop   func()
	store  *gateStore
	ipm    *security.IPManager
	net3   string
	start  time.Time
	evMu   sync.Mutex
	events []fw.Event
	gidMu  sync.Mutex
	gids   map[string]int64
	mkIPM  func() *security.IPManager
	qwg    sync.WaitGroup
	tempD  time.Duration
}

func (w *lworld) ms0() int64 { return int64(time.Since(w.start) / time.Millisecond) }
func (w *lworld) ms1() int64 { return int64(time.Since(w.start)/time.Millisecond) + 1 }
func (w *lworld) log(e fw.Event) {
	w.evMu.Lock()
	w.events = append(w.events, e)
	w.evMu.Unlock()
}

func (w *lworld) addr(ad string) string {
	if ad == "b" {
		return w.net3 + ".8"
	}
	return w.net3 + ".7"
}

func (w *lworld) key(ad, f string) string {
	if f == "net" {
		if ad == "b" {
			return w.net3 + ".8/31"
		}
		return w.net3 + ".6/31"
	}
	return w.addr(ad)
}

// modelKey: the model's name of a real entry
func (w *lworld) modelKey(entry string) (lkey, bool) {
	for _, ad := range []string{"a", "b"} {
		for _, f := range []string{"ip", "net"} {
			if w.key(ad, f) == entry {
				return lkey{ad, f}, true
			}
		}
	}
	return lkey{}, false
}

func (w *lworld) setGid(name string) {
	w.gidMu.Lock()
	w.gids[name] = curGid()
	w.gidMu.Unlock()
}
func (w *lworld) gid(name string) int64 {
	w.gidMu.Lock()
	defer w.gidMu.Unlock()
	return w.gids[name]
}

// settle lets a process that was released (or started) run until it parks at its next gate, finishes, or
// waits for a lock. It returns "parked", "done", "blocked" or "running" (none of these within the limit).
func (w *lworld) settle(name string, limit time.Duration, expectBlocked bool) (string, sched.GateInfo) {
	deadline := time.Now().Add(limit)
	// a goroutine seen waiting for the lock may be about to get it (the holder has just released it and the
	// runtime has not run the waiter yet): unless the model expects it to wait, look again for a while
	var blockedSince time.Time
	for i := 0; ; i++ {
		st, at := w.s.State(name)
		if st == sched.Parked || st == sched.Done {
			return st, at
		}
		if i >= 4 {
			if g := w.gid(name); g != 0 && lockWaiting(g) {
				// parked for the lock - unless it got it just now
				if st, at = w.s.State(name); st == sched.Parked || st == sched.Done {
					return st, at
				}
				if blockedSince.IsZero() {
					blockedSince = time.Now()
				}
				if expectBlocked || time.Since(blockedSince) > patience {
					return sched.Blocked, sched.GateInfo{}
				}
			}
		}
		if time.Now().After(deadline) {
			return sched.Running, sched.GateInfo{}
		}
		if i < 4 {
			runtime.Gosched()
		} else {
			time.Sleep(150 * time.Microsecond)
		}
	}
}

func atKey(at sched.GateInfo) (op, list, entry string) {
	op = strings.TrimPrefix(at.Point, "st.")
	list, _ = at.Info["list"].(string)
	entry, _ = at.Info["entry"].(string)
	return
}

type errRetry struct{ note string }

func driveLists(env *fw.Env, b fw.Behaviour) *fw.Trace {
	if err := fixtures(); err != nil {
		return &fw.Trace{Status: fw.DriverError, Note: err.Error()}
	}
	var beh listsBeh
	if err := json.Unmarshal(b.Data, &beh); err != nil {
		return &fw.Trace{Status: fw.DriverError, Note: err.Error()}
	}
	if beh.L.Free > 0 {
		return driveListsFree(env, &beh)
	}
	note := ""
	for try := 0; try < 5; try++ {
		t, retry := runLists(env, b, &beh)
		if retry == nil {
			return t
		}
		note = retry.note
	}
	return &fw.Trace{Status: fw.Unrealisable, Note: "map iteration order of the clean-up pass: " + note}
}

func newLWorld(free bool) *lworld {
	n := worldSeq.Add(1)
	w := &lworld{s: sched.New(free), net3: fmt.Sprintf("10.%d.%d", (n/250)%250+1, n%250+1), gids: map[string]int64{}}
	w.s.Watchdog = 300 * time.Microsecond // "not parked yet" is refined by settle()
	w.s.Adopt = func(sched.GateInfo) string { return "" }
	ctx, cancel := context.WithCancel(context.Background())
	w.ctx = cancel
	mem := storage.NewMemoryStorage(ctx)
	w.store = &gateStore{Storage: mem, s: w.s}
	w.store.lists, _ = mem.(storage.ListStore)
	w.mkIPM = func() *security.IPManager {
		if w.stop != nil {
			w.stop()
		}
		ictx, stop := context.WithCancel(ctx)
		w.stop = stop
		return security.NewIPManager(w.store, ictx)
	}
	w.ipm = w.mkIPM()
	w.start = time.Now()
	return w
}

func (w *lworld) close() {
	w.s.Drain(200 * time.Millisecond)
	w.ctx()
}

// query asks IsAllowed on its own goroutine (on a tree whose locking differs from the model's the call
// may have to wait for the lock) and logs the answer when it arrives; it returns whether the answer
// arrived within the limit.
func (w *lworld) query(ad string, probe bool, limit time.Duration) (answered bool, refused bool) {
	done := make(chan bool, 1)
	m := w.ipm
	w.qwg.Add(1)
	go func() {
		defer w.qwg.Done()
		t0 := w.ms0()
		allowed, _ := m.IsAllowed(w.addr(ad))
		w.log(fw.Event{"ev": "Query", "ip": ad, "bl": !allowed, "ban": false, "probe": probe, "t0": t0, "t1": w.ms1()})
		done <- !allowed
	}()
	select {
	case r := <-done:
		return true, r
	case <-time.After(limit):
		return false, false
	}
}

// lazySettled waits until no expired exact entry of the address is left in the manager (a look-up that
// found one has spawned its removal); false if it is still there after the limit. The manager is asked
// from a goroutine of its own: the calling goroutine is the one that releases the gates, it must never
// wait for the manager's lock itself.
func (w *lworld) lazySettled(ad string, limit time.Duration) bool {
	m := w.ipm
	res := make(chan bool, 1)
	w.qwg.Add(1)
	go func() {
		defer w.qwg.Done()
		deadline := time.Now().Add(limit)
		for {
			left := false
			now := time.Now()
			for _, r := range m.GetBlacklist() {
				left = left || (r.IP == w.addr(ad) && !r.ExpiresAt.IsZero() && now.After(r.ExpiresAt))
			}
			if !left || time.Now().After(deadline) {
				res <- !left
				return
			}
			time.Sleep(200 * time.Microsecond)
		}
	}()
	select {
	case ok := <-res:
		return ok
	case <-time.After(limit + 50*time.Millisecond):
		return false
	}
}

func runLists(env *fw.Env, b fw.Behaviour, beh *listsBeh) (*fw.Trace, *errRetry) {
	w := newLWorld(false)
	defer w.close()
	hasExpire := false
	for _, st := range beh.S {
		hasExpire = hasExpire || st.A == "Expire"
	}
	w.tempD = liveLife
	if hasExpire {
		w.tempD = epochLife
	}
	w.log(fw.Event{"ev": "Cfg", "thr": 1000, "perm": 1000000, "win": 1000, "ban": 1000, "bld": int(w.tempD / time.Millisecond), "burst": 1000, "rate": 1000,
		"mS": marginStart, "mE": listsMarE, "slack": rateSlack, "aTol": 0})
	diverged := ""
	div := func(i int, format string, a ...any) {
		if diverged == "" {
			diverged = fmt.Sprintf("step %d: ", i) + fmt.Sprintf(format, a...)
		}
	}
	// ---- the initial state: entries in the order the schedule's (first) clean-up pass meets them -----
	if len(beh.S) == 0 || beh.S[0].A != "Init" {
		return &fw.Trace{Status: fw.DriverError, Note: "lists behaviour without Init"}, nil
	}
	kind := map[lkey]string{}
	for _, e := range beh.S[0].St {
		kind[lkey{e.Ad, e.F}] = e.Kind
	}
	var order []lkey
	seen := map[lkey]bool{}
	for _, st := range beh.S {
		for _, k := range st.Ord {
			if !seen[k] && kind[k] == "exp" {
				order, seen[k] = append(order, k), true
			}
		}
	}
	for _, e := range beh.S[0].St {
		if k := (lkey{e.Ad, e.F}); !seen[k] {
			order, seen[k] = append(order, k), true
		}
	}
	var lastExp time.Time
	var tempEnd time.Time // when the last temporary entry that is meant to be live runs out
	blk := func(k lkey, d time.Duration) error {
		t0 := w.ms0()
		err := w.ipm.AddToBlacklist(w.key(k.Ad, k.F), d, "c18", "operator")
		w.log(fw.Event{"ev": "Blk", "ip": k.Ad, "perm": d == 0, "form": k.F, "fault": false, "dur": int(d / time.Millisecond), "t0": t0, "t1": w.ms1()})
		return err
	}
	for _, k := range order {
		var err error
		switch kind[k] {
		case "exp":
			err = blk(k, expLife)
			lastExp = time.Now()
		case "live":
			err = blk(k, w.tempD)
			tempEnd = time.Now().Add(w.tempD)
		case "perm":
			err = blk(k, 0)
		}
		if err != nil {
			return &fw.Trace{Status: fw.DriverError, Note: err.Error()}, nil
		}
	}
	if !lastExp.IsZero() {
		time.Sleep(time.Until(lastExp.Add(expLife + expWait)))
	}
	time.Sleep(stepGap)

	// ---- the schedule -------------------------------------------------------------------------------
	started := map[string]bool{}
	cur := map[int]string{}         // operator process -> scheduler name of its current call
	inflight := map[string]string{} // scheduler name of a call that may not have returned yet -> its entry
	lazyPending := false
	startProc := func(name string, fn func()) {
		started[name] = true
		w.s.Start(name, func() any { w.setGid(name); fn(); return true })
	}
	expectOp := func(i int, name string, st lstep, first string) {
		state, at := w.settle(name, 2*time.Second, st.A == "Call" && !st.Got)
		switch {
		case state == sched.Running:
			div(i, "%s neither parked, finished nor waiting for a lock", name)
		case !st.Got && st.A == "Call":
			if state != sched.Blocked {
				div(i, "%s is %s, the model has it wait for the lock", name, state)
			}
		case st.Ret:
			if state != sched.Done {
				div(i, "%s is %s, the model has the call return", name, state)
			}
		default:
			op, _, entry := atKey(at)
			if state != sched.Parked || (first != "" && op != first) || entry != w.key(st.Ad, st.F) {
				div(i, "%s is %s at %s(%s), the model has it before %s(%s)", name, state, op, entry, first, w.key(st.Ad, st.F))
			}
		}
	}
	clName := "cl" // scheduler name of the current clean-up pass
	// expectCl compares the cleaner's position with the model's; a different key out of the same collected
	// set is Go's map iteration order: the behaviour is tried again
	var collected map[string]bool
	expectCl := func(i int, st lstep) *errRetry {
		state, at := w.settle(clName, 2*time.Second, st.Nx != nil && st.Nx.To == "wait")
		if st.Nx == nil {
			return nil
		}
		switch st.Nx.To {
		case "wait":
			if state != sched.Blocked {
				div(i, "clean-up pass is %s, the model has it wait for the lock", state)
			}
		case "end":
			if state != sched.Done {
				div(i, "clean-up pass is %s, the model has it end", state)
			}
		default:
			op, _, entry := atKey(at)
			want := map[string]string{"del": "Delete", "rem": "Remove"}[st.Nx.To]
			if state == sched.Parked && op == want && entry != w.key(st.Nx.Ad, st.Nx.F) && collected[entry] && collected[w.key(st.Nx.Ad, st.Nx.F)] && diverged == "" {
				return &errRetry{fmt.Sprintf("step %d: the pass is at %s, the schedule wants %s first", i, entry, w.key(st.Nx.Ad, st.Nx.F))}
			}
			if state != sched.Parked || op != want || entry != w.key(st.Nx.Ad, st.Nx.F) {
				div(i, "clean-up pass is %s at %s(%s), the model has it before %s(%s)", state, op, entry, want, w.key(st.Nx.Ad, st.Nx.F))
			}
		}
		return nil
	}
	nPass := 0
	for i := 1; i < len(beh.S); i++ {
		st := beh.S[i]
		name := clName
		switch st.A {
		case "Call":
			k := lkey{st.Ad, st.F}
			key := w.key(st.Ad, st.F)
			op := st.Op
			m := w.ipm
			// one order per entry (and per operator process) at a time: on a tree whose locking differs from the
			// model's an earlier call may still be waiting - a second, concurrent order for the same entry would
			// make "the operator's latest order" ambiguous, so it is not given
			conflict := ""
			for n, kk := range inflight {
				if s0, _ := w.s.State(n); s0 == sched.Done {
					delete(inflight, n)
				} else if kk == key || n == cur[st.P] {
					conflict = n
				}
			}
			if conflict != "" {
				div(i, "%s has not returned: the call %s(%s) is not made", conflict, op, key)
				cur[st.P] = ""
				break
			}
			name = fmt.Sprintf("o%d.%d", st.P, i)
			cur[st.P] = name
			inflight[name] = key
			first := map[string]string{"BlkP": "Set", "Blk": "Set", "Wl": "Set", "MUnbl": "Delete", "UnWl": "Delete"}[op]
			startProc(name, func() {
				t0 := w.ms0()
				switch op {
				case "BlkP", "Blk":
					d := time.Duration(0)
					if op == "Blk" {
						d = w.tempD
					}
					err := m.AddToBlacklist(key, d, "c18", "operator")
					if err == nil { // the order is given once AddToBlacklist has returned nil
						w.log(fw.Event{"ev": "Blk", "ip": k.Ad, "perm": d == 0, "form": k.F, "fault": false, "dur": int(d / time.Millisecond), "t0": t0, "t1": w.ms1()})
					}
				case "MUnbl": // the order is withdrawn by the call
					w.log(fw.Event{"ev": "MUnbl", "ip": k.Ad, "form": k.F, "t0": t0, "t1": w.ms1()})
					m.RemoveFromBlacklist(key)
				case "Wl": // whitelisted (the statement is silent) from the call on
					w.log(fw.Event{"ev": "Wl", "ip": k.Ad, "on": true, "form": k.F, "t0": t0, "t1": w.ms1()})
					m.AddToWhitelist(key, "c18", "operator")
				case "UnWl": // ... until the removal has returned
					m.RemoveFromWhitelist(key)
					w.log(fw.Event{"ev": "Wl", "ip": k.Ad, "on": false, "form": k.F, "t0": t0, "t1": w.ms1()})
				}
			})
			if op == "Blk" {
				tempEnd = time.Now().Add(w.tempD)
			}
			expectOp(i, name, st, first)
		case "Acq":
			if st.P == clProc {
				if len(st.Ord) > 0 {
					collected = map[string]bool{}
					for _, k := range st.Ord {
						collected[w.key(k.Ad, k.F)] = true
					}
				}
				if r := expectCl(i, st); r != nil {
					return nil, r
				}
				break
			}
			name = cur[st.P]
			state, _ := w.settle(name, 2*time.Second, false)
			if (st.Ret && state != sched.Done) || (!st.Ret && state != sched.Parked) {
				div(i, "%s is %s after the lock was released, the model has it %s", name, state, map[bool]string{true: "return", false: "at its first storage call"}[st.Ret])
			}
		case "St":
			if st.P != clProc {
				name = cur[st.P]
			}
			state, at := w.s.State(name)
			op, _, entry := atKey(at)
			if state != sched.Parked || op != st.G || entry != w.key(st.Ad, st.F) {
				div(i, "%s is %s at %s(%s), the model has it before %s(%s)", name, state, op, entry, st.G, w.key(st.Ad, st.F))
			}
			if state != sched.Parked {
				break // nothing to release: it waits for a lock, has finished, or was never started
			}
			w.s.Step(name)
			if st.P == clProc {
				if r := expectCl(i, st); r != nil {
					return nil, r
				}
			} else if ns, _ := w.settle(name, 2*time.Second, false); (st.Ret && ns != sched.Done) || (!st.Ret && ns != sched.Parked) {
				div(i, "%s is %s after %s, the model has it %s", name, ns, st.G, map[bool]string{true: "return", false: "at its next storage call"}[st.Ret])
			}
		case "CStart":
			c, ok := any(w.ipm).(interface{ VerifCleanup() })
			if !ok {
				return &fw.Trace{Status: fw.Unrealisable, Note: fmt.Sprintf("step %d: clean-up export shim absent (hook patch not applied)", i)}, nil
			}
			nPass++
			if nPass > 1 {
				if s0, _ := w.s.State(clName); s0 != sched.Done {
					div(i, "the previous clean-up pass has not ended: no second one is started")
					break
				}
				clName = fmt.Sprintf("cl.%d", nPass)
			}
			startProc(clName, func() {
				t0 := w.ms0()
				w.log(fw.Event{"ev": "CleanStart", "what": "ip", "t0": t0, "t1": w.ms1()})
				c.VerifCleanup()
				w.log(fw.Event{"ev": "Clean", "what": "ip", "t0": t0, "t1": w.ms1()})
			})
			collected = map[string]bool{}
			for _, k := range st.Ord {
				collected[w.key(k.Ad, k.F)] = true
			}
			if r := expectCl(i, st); r != nil {
				return nil, r
			}
		case "Query":
			limit := 40 * time.Millisecond
			if diverged != "" {
				limit = 15 * time.Millisecond
			}
			answered, refused := w.query(st.Ad, false, limit)
			if !answered {
				div(i, "the look-up waits for the lock, the model has the lock free")
			} else {
				noteAgree(b.Src, refused == st.Bl, fmt.Sprintf("beh %d: query answered bl=%v, model bl=%v", b.ID, refused, st.Bl))
				if !refused && !w.lazySettled(st.Ad, 20*time.Millisecond) {
					lazyPending = true
				}
			}
		case "Reload":
			quiet := !lazyPending
			for p := range started {
				if s0, _ := w.s.State(p); s0 != sched.Done {
					quiet = false
				}
			}
			if !quiet {
				div(i, "a call or a clean-up pass is still in flight: no restart")
				break
			}
			t0 := w.ms0()
			w.ipm = w.mkIPM()
			w.log(fw.Event{"ev": "Reload", "t0": t0, "t1": w.ms1()})
		case "Expire":
			if d := time.Until(tempEnd.Add(expWait)); d > 0 {
				time.Sleep(d)
			}
			w.log(fw.Event{"ev": "Tick"})
		default:
			return &fw.Trace{Status: fw.DriverError, Note: "unknown lists step " + st.A}, nil
		}
	}
	// ---- what the schedule left behind -----------------------------------------------------------------
	if !w.s.Drain(3 * time.Second) {
		return &fw.Trace{Status: fw.DriverError, Note: "lists: processes did not finish after drain"}, nil
	}
	qdone := make(chan struct{})
	go func() { w.qwg.Wait(); close(qdone) }()
	select {
	case <-qdone:
	case <-time.After(3 * time.Second):
		return &fw.Trace{Status: fw.DriverError, Note: "lists: a look-up did not return after drain"}, nil
	}
	time.Sleep(stepGap)
	ads := []string{"a", "b"}
	probe := func() bool {
		for _, ad := range ads {
			if ok, refused := w.query(ad, true, 2*time.Second); !ok {
				return false
			} else if !refused {
				w.lazySettled(ad, 200*time.Millisecond)
			}
		}
		return true
	}
	if !probe() {
		return &fw.Trace{Status: fw.DriverError, Note: "lists: probe look-up did not return"}, nil
	}
	t0 := w.ms0()
	w.ipm = w.mkIPM()
	w.log(fw.Event{"ev": "Reload", "t0": t0, "t1": w.ms1()})
	if !probe() {
		return &fw.Trace{Status: fw.DriverError, Note: "lists: probe look-up did not return"}, nil
	}
	if hasExpire && time.Since(w.start) > 6*epochLife {
		return &fw.Trace{Status: fw.Inconclusive, Note: "lists: behaviour took too long for its temporary entries"}, nil
	}
	w.evMu.Lock()
	defer w.evMu.Unlock()
	if diverged != "" {
		return &fw.Trace{Status: fw.Diverged, Note: diverged, Events: w.events}, nil
	}
	return &fw.Trace{Status: fw.Realised, Events: w.events}, nil
}

// ---- free-running variant ----------------------------------------------------------------------------
// A clean-up loop, one operator per entry (temporary order - wait until it has run out - permanent or
// long temporary order - withdraw, again and again) and an observer hammer one manager for a while; the
// storage calls only inject seeded delays. Every event is logged by the goroutine that made the call:
// an order when AddToBlacklist has returned, a withdrawal before RemoveFromBlacklist is called.
func driveListsFree(env *fw.Env, beh *listsBeh) *fw.Trace {
	w := newLWorld(true)
	defer w.close()
	rnd := fw.NewRand(env.Seed*104729 + int64(beh.L.Free))
	var rmu sync.Mutex
	draw := func(n int) int { rmu.Lock(); defer rmu.Unlock(); return rnd.Intn(n) }
	w.s.FreeDelay = func(string, sched.GateInfo) { time.Sleep(time.Duration(draw(500)) * time.Microsecond) }
	const short, long = 6 * time.Millisecond, 150 * time.Millisecond
	w.log(fw.Event{"ev": "Cfg", "thr": 1000, "perm": 1000000, "win": 1000, "ban": 1000, "bld": int(long / time.Millisecond), "burst": 1000, "rate": 1000,
		"mS": marginStart, "mE": listsMarE, "slack": rateSlack, "aTol": 0})
	c, ok := any(w.ipm).(interface{ VerifCleanup() })
	if !ok {
		return &fw.Trace{Status: fw.Unrealisable, Note: "clean-up export shim absent (hook patch not applied)"}
	}
	stop := time.Now().Add(time.Duration(beh.L.Ms) * time.Millisecond)
	var wg sync.WaitGroup
	run := func(f func()) {
		wg.Add(1)
		go func() {
			defer wg.Done()
			for time.Now().Before(stop) {
				f()
			}
		}()
	}
	var bad error
	var badMu sync.Mutex
	blk := func(k lkey, d time.Duration) {
		t0 := w.ms0()
		if err := w.ipm.AddToBlacklist(w.key(k.Ad, k.F), d, "c18", "operator"); err != nil {
			badMu.Lock()
			bad = err
			badMu.Unlock()
			return
		}
		w.log(fw.Event{"ev": "Blk", "ip": k.Ad, "perm": d == 0, "form": k.F, "fault": false, "dur": int(d / time.Millisecond), "t0": t0, "t1": w.ms1()})
	}
	run(func() {
		t0 := w.ms0()
		w.log(fw.Event{"ev": "CleanStart", "what": "ip", "t0": t0, "t1": w.ms1()})
		c.VerifCleanup()
		w.log(fw.Event{"ev": "Clean", "what": "ip", "t0": t0, "t1": w.ms1()})
		time.Sleep(time.Duration(draw(1500)) * time.Microsecond)
	})
	for _, k := range []lkey{{"a", "ip"}, {"b", "ip"}, {"a", "net"}} {
		k := k
		run(func() {
			blk(k, short)
			time.Sleep(short + time.Duration(2000+draw(6000))*time.Microsecond) // it has run out; not necessarily removed
			if draw(2) == 0 {
				blk(k, 0)
			} else {
				blk(k, long)
			}
			time.Sleep(time.Duration(3000+draw(9000)) * time.Microsecond)
			t0 := w.ms0()
			w.log(fw.Event{"ev": "MUnbl", "ip": k.Ad, "form": k.F, "t0": t0, "t1": w.ms1()})
			w.ipm.RemoveFromBlacklist(w.key(k.Ad, k.F))
		})
	}
	run(func() {
		for _, ad := range []string{"a", "b"} {
			t0 := w.ms0()
			allowed, _ := w.ipm.IsAllowed(w.addr(ad))
			w.log(fw.Event{"ev": "Query", "ip": ad, "bl": !allowed, "ban": false, "probe": false, "t0": t0, "t1": w.ms1()})
		}
		time.Sleep(time.Duration(700+draw(1500)) * time.Microsecond)
	})
	done := make(chan struct{})
	go func() { wg.Wait(); close(done) }()
	select {
	case <-done:
	case <-time.After(time.Duration(beh.L.Ms)*time.Millisecond + 10*time.Second):
		return &fw.Trace{Status: fw.DriverError, Note: "lists: free-running goroutines did not finish"}
	}
	if bad != nil {
		return &fw.Trace{Status: fw.DriverError, Note: bad.Error()}
	}
	time.Sleep(3 * time.Millisecond)
	w.evMu.Lock()
	defer w.evMu.Unlock()
	return &fw.Trace{Status: fw.Realised, Events: w.events}
}
