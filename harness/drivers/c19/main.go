// C19 driver: forces TLC-generated interleavings (spec/Domain.tla, storage-operation granularity)
// of CreateMapping / DeleteMapping / UpdateMapping and host lookups on the real
// repos.HTTPDomainMappingRepository, the real command handlers + server adapter, and the real
// domainproxy.DomainProxyModule (ServeHTTP -> lookupMapping -> extractDomain, with the real
// httpservice.DomainRegistry), and records call/return events and the quiescent store for the judge
// (spec/DomainTrace.tla).
//
// Two storage tiers under the repository, both gated at the repository<->storage seam (gstore):
//
//	store   one doubles.Store shared by two repository instances (two nodes over one store)
//	hybrid  two real hybrid.Storage instances (two nodes, each with its own local cache double) over
//	        one shared-cache double and one persistent double; ids come from the hybrid Incr
//
// What a request is routed to is observed where the proxy hands it to the session manager
// (SendHTTPProxyRequest(clientID, request with the target URL)): the session manager is a double.
package main

import (
	"bufio"
	"context"
	"encoding/json"
	"errors"
	"fmt"
	"net/http"
	"net/http/httptest"
	"net/url"
	"regexp"
	"runtime"
	"sort"
	"strconv"
	"strings"
	"sync"
	"sync/atomic"
	"time"

	"tunnox-core/internal/app/server"
	"tunnox-core/internal/cloud/managers"
	"tunnox-core/internal/cloud/models"
	"tunnox-core/internal/cloud/repos"
	"tunnox-core/internal/command"
	corelog "tunnox-core/internal/core/log"
	"tunnox-core/internal/core/storage/hybrid"
	"tunnox-core/internal/core/storage/types"
	"tunnox-core/internal/httpservice"
	"tunnox-core/internal/httpservice/modules/domainproxy"
	"tunnox-core/internal/protocol/httptypes"
	"tunnox-core/verifharness/doubles"
	"tunnox-core/verifharness/fw"
	"tunnox-core/verifharness/sched"
)

const baseDomain = "tunnox.net"

var subOf = map[string]string{"n1": "app1", "n2": "app2"}
var cidOf = map[string]int64{"c1": 101, "c2": 102}

func fullOf(n string) string { return subOf[n] + "." + baseDomain }

// ---- gated storage seam ------------------------------------------------------------------------

// gstore parks the calling process at a gate before each storage operation the repository issues on
// a key of the HTTP domain family, can make one operation fail, and delegates to the real storage.
type gstore struct {
	types.FullStorage
	name  string
	s     *sched.Sched
	fault func(op, key string) error
}

func keyKind(key string) string {
	switch {
	case strings.HasPrefix(key, repos.KeyPrefixHTTPDomainIndex):
		return "idx"
	case strings.HasPrefix(key, repos.KeyPrefixHTTPDomainMapping):
		return "rec"
	case strings.HasPrefix(key, repos.KeyPrefixHTTPDomainClient):
		return "cl"
	case key == repos.KeyHTTPDomainNextID:
		return "ctr"
	case strings.HasPrefix(key, "tunnox:http_domain:lock:"):
		return "lock"
	}
	return "" // the global list and everything else: not modelled, passes ungated
}

func (g *gstore) pre(op, key string) error {
	k := keyKind(key)
	if k == "" {
		return nil
	}
	g.s.Gate(g.name+"."+op, map[string]any{"key": key, "class": k + "." + op})
	if g.fault != nil {
		if err := g.fault(op, key); err != nil {
			g.s.After()
			return err
		}
	}
	return nil
}
func (g *gstore) post(key string) {
	if keyKind(key) != "" {
		g.s.After()
	}
}

func (g *gstore) Get(key string) (any, error) {
	if err := g.pre("Get", key); err != nil {
		return nil, err
	}
	defer g.post(key)
	return g.FullStorage.Get(key)
}
func (g *gstore) Set(key string, v any, ttl time.Duration) error {
	if err := g.pre("Set", key); err != nil {
		return err
	}
	defer g.post(key)
	return g.FullStorage.Set(key, v, ttl)
}
func (g *gstore) Delete(key string) error {
	if err := g.pre("Delete", key); err != nil {
		return err
	}
	defer g.post(key)
	return g.FullStorage.Delete(key)
}
func (g *gstore) Exists(key string) (bool, error) {
	if err := g.pre("Exists", key); err != nil {
		return false, err
	}
	defer g.post(key)
	return g.FullStorage.Exists(key)
}
func (g *gstore) SetNX(key string, v any, ttl time.Duration) (bool, error) {
	if err := g.pre("SetNX", key); err != nil {
		return false, err
	}
	defer g.post(key)
	return g.FullStorage.SetNX(key, v, ttl)
}
func (g *gstore) Incr(key string) (int64, error) {
	if err := g.pre("Incr", key); err != nil {
		return 0, err
	}
	defer g.post(key)
	return g.FullStorage.Incr(key)
}
func (g *gstore) AppendToList(key string, v any) error {
	if err := g.pre("AppendToList", key); err != nil {
		return err
	}
	defer g.post(key)
	return g.FullStorage.AppendToList(key, v)
}
func (g *gstore) RemoveFromList(key string, v any) error {
	if err := g.pre("RemoveFromList", key); err != nil {
		return err
	}
	defer g.post(key)
	return g.FullStorage.RemoveFromList(key, v)
}
func (g *gstore) GetList(key string) ([]any, error) {
	if err := g.pre("GetList", key); err != nil {
		return nil, err
	}
	defer g.post(key)
	return g.FullStorage.GetList(key)
}

// gate the model expects a process to be parked at before each model action
var gateOf = map[string]string{
	"NextId": "ctr.Incr", "ChkIndex": "idx.Exists", "ClaimIndex": "idx.SetNX", "PutRec": "rec.Set",
	"AddList": "cl.AppendToList", "RbRec": "rec.Delete", "RbIdx": "idx.Delete",
	"UpdGet": "rec.Get", "UpdSet": "rec.Set",
	"DelGet": "rec.Get", "DelIdx": "idx.Delete", "DelRec": "rec.Delete", "DelList": "cl.RemoveFromList",
	"DelLock": "lock.SetNX", "DelGet2": "rec.Get", "DelIdxGet": "idx.Get", "DelUnlock": "lock.Delete",
	"RbLock": "lock.SetNX", "RbGet": "rec.Get", "RbIdxGet": "idx.Get", "RbList": "cl.RemoveFromList", "RbUnlock": "lock.Delete",
	"L_idx": "idx.Get", "L_rec": "rec.Get",
	"ListGet": "cl.GetList", "ListRec": "rec.Get", "ListPrune": "cl.RemoveFromList",
	"DelCUnlock": "lock.Delete", "L_clean": "idx.Delete", "ListHeal": "idx.SetNX", "UpdHeal": "idx.SetNX", // deviation models only
}

// ---- environment doubles of the proxy ----------------------------------------------------------

type route struct {
	c  int64
	tp int
}

// smDouble is the session manager the proxy hands a routed request to.
type smDouble struct {
	mu   sync.Mutex
	seen map[string]route // X-Verif-Call -> where the request was sent
}

type connStub struct{}

func (connStub) GetConnID() string     { return "conn-verif" }
func (connStub) GetRemoteAddr() string { return "198.51.100.7:40000" }

func (m *smDouble) GetControlConnectionInterface(clientID int64) httpservice.ControlConnectionAccessor {
	return connStub{}
}
func (m *smDouble) BroadcastConfigPush(clientID int64, configBody string) error { return nil }
func (m *smDouble) GetNodeID() string                                           { return "node-verif" }
func (m *smDouble) NotifyClientUpdate(clientID int64)                           {}
func (m *smDouble) RequestTunnelForHTTP(clientID int64, mappingID string, targetURL string, method string) (httpservice.TunnelConnectionInterface, error) {
	return nil, errors.New("not used")
}
func (m *smDouble) SendHTTPProxyRequest(clientID int64, req *httptypes.HTTPProxyRequest) (*httptypes.HTTPProxyResponse, error) {
	tp := 0
	if u, err := url.Parse(req.URL); err == nil {
		tp, _ = strconv.Atoi(u.Port())
	}
	m.mu.Lock()
	m.seen[req.Headers["X-Verif-Call"]] = route{c: clientID, tp: tp}
	m.mu.Unlock()
	return &httptypes.HTTPProxyResponse{RequestID: req.RequestID, StatusCode: 200, Headers: map[string]string{}, Body: []byte("ok")}, nil
}

// ccDouble is the cloud control the proxy falls back to (only GetPortMappingByDomain is ever called).
type ccDouble struct {
	managers.CloudControlAPI
	mu sync.Mutex
	m  map[string]*models.PortMapping
}

func (c *ccDouble) GetPortMappingByDomain(fullDomain string) (*models.PortMapping, error) {
	c.mu.Lock()
	defer c.mu.Unlock()
	if pm := c.m[fullDomain]; pm != nil {
		cp := *pm
		return &cp, nil
	}
	return nil, errors.New("mapping not found for domain: " + fullDomain)
}

// ---- rig ---------------------------------------------------------------------------------------

type node struct {
	st   *gstore
	repo *repos.HTTPDomainMappingRepository
	ch   *command.HTTPDomainCreateHandler
	dh   *command.HTTPDomainDeleteHandler
	ad   *server.HTTPDomainRepositoryAdapter
}

type rig struct {
	s      *sched.Sched
	tier   string
	nodes  [2]*node
	raw    []*doubles.Store // stores whose contents make up the reader's view, most authoritative first
	reg    *httpservice.DomainRegistry
	cc     *ccDouble
	sm     *smDouble
	mod    *domainproxy.DomainProxyModule
	cancel context.CancelFunc

	fmu   sync.Mutex
	armed string // gate class whose next operation fails once

	emu    sync.Mutex
	events []fw.Event
	tpSeq  int
	lkSeq  int
	legTP  map[int]string // legacy id -> full domain
}

var quiet sync.Once

func newRig(tier string, free bool) *rig {
	quiet.Do(func() { corelog.SetDefault(corelog.NewNopLogger()) })
	r := &rig{s: sched.New(free), tier: tier, legTP: map[int]string{}}
	r.s.Watchdog = 500 * time.Millisecond
	ctx, cancel := context.WithCancel(context.Background())
	r.cancel = cancel
	faultFn := func(op, key string) error {
		r.fmu.Lock()
		defer r.fmu.Unlock()
		if r.armed != "" && r.armed == keyKind(key)+"."+op {
			r.armed = ""
			return doubles.ErrInjected
		}
		return nil
	}
	mk := func(i int, in types.FullStorage) *node {
		g := &gstore{FullStorage: in, name: fmt.Sprintf("n%d", i), s: r.s, fault: faultFn}
		repo := repos.NewHTTPDomainMappingRepository(repos.NewRepository(g), []string{baseDomain})
		ad := server.NewHTTPDomainRepositoryAdapter(repo)
		return &node{st: g, repo: repo, ch: command.NewHTTPDomainCreateHandler(ad, ad), dh: command.NewHTTPDomainDeleteHandler(ad), ad: ad}
	}
	if tier == "store" {
		base := doubles.NewStore("base", nil)
		r.raw = []*doubles.Store{base}
		r.nodes[0], r.nodes[1] = mk(0, base), mk(1, base)
	} else {
		shared := doubles.NewStore("shared", nil)
		pers := doubles.NewStore("pers", nil)
		r.raw = []*doubles.Store{shared, pers}
		for i := 0; i < 2; i++ {
			cfg := hybrid.DefaultConfig()
			cfg.EnablePersistent = true
			h := hybrid.NewWithSharedCache(ctx, doubles.NewStore(fmt.Sprintf("cache%d", i), nil), shared, doubles.Pers{St: pers}, cfg)
			r.nodes[i] = mk(i, h)
		}
	}
	r.reg = httpservice.NewDomainRegistry([]string{baseDomain})
	r.cc = &ccDouble{m: map[string]*models.PortMapping{}}
	r.sm = &smDouble{seen: map[string]route{}}
	r.mod = domainproxy.NewDomainProxyModule(ctx, &httpservice.DomainProxyModuleConfig{
		Enabled: true, BaseDomains: []string{baseDomain}, DefaultScheme: "http",
		CommandModeThreshold: 1 << 20, RequestTimeout: 5 * time.Second})
	r.mod.SetDependencies(&httpservice.ModuleDependencies{
		SessionMgr: r.sm, CloudControl: r.cc, DomainRegistry: r.reg, HTTPDomainMappingRepo: r.nodes[0].repo})
	return r
}

func (r *rig) close() { r.cancel() }

func (r *rig) log(e fw.Event) {
	r.emu.Lock()
	r.events = append(r.events, e)
	r.emu.Unlock()
}

func (r *rig) armedNow() string {
	r.fmu.Lock()
	defer r.fmu.Unlock()
	return r.armed
}

func (r *rig) arm(class string) {
	r.fmu.Lock()
	r.armed = class
	r.fmu.Unlock()
}

// ---- API calls ---------------------------------------------------------------------------------

type res struct {
	ok     bool
	id     string
	err    string
	routed bool
	c      int64
	tp     int
	code   int
	exp    int64 // expiry time (unix seconds) the create response acknowledged; 0 = none
}

func errStr(err error) string {
	if err == nil {
		return ""
	}
	return err.Error()
}

func (r *rig) doCreate(n *node, api string, c int64, sub string, tp int) res {
	return r.doCreateTTL(n, api, c, sub, tp, 0)
}

func (r *rig) doCreateTTL(n *node, api string, c int64, sub string, tp int, ttl int) res {
	if api == "cmd" {
		req := map[string]any{"target_url": fmt.Sprintf("http://127.0.0.1:%d", tp), "subdomain": sub, "base_domain": baseDomain}
		if ttl > 0 {
			req["mapping_ttl"] = ttl
		}
		body, _ := json.Marshal(req)
		resp, err := n.ch.Handle(&command.CommandContext{ConnectionID: "conn", RequestID: "rq", CommandId: "cmd", ClientID: c, IsAuthenticated: true, RequestBody: string(body), Context: context.Background()})
		if err != nil || resp == nil {
			return res{err: "handler: " + errStr(err)}
		}
		var out struct {
			Success   bool   `json:"success"`
			MappingID string `json:"mapping_id"`
			ExpiresAt string `json:"expires_at"`
			Error     string `json:"error"`
		}
		if json.Unmarshal([]byte(resp.Data), &out) != nil {
			return res{err: "unparsable response " + resp.Data}
		}
		var exp int64
		if t, err := time.Parse(time.RFC3339, out.ExpiresAt); err == nil {
			exp = t.Unix()
		}
		return res{ok: out.Success && resp.Success, id: out.MappingID, err: out.Error, exp: exp}
	}
	m, err := n.repo.CreateMapping(context.Background(), c, sub, baseDomain, "127.0.0.1", tp)
	if err != nil {
		return res{err: err.Error()}
	}
	return res{ok: true, id: m.ID}
}

func (r *rig) doDelete(n *node, api string, c int64, id string) res {
	if api == "cmd" {
		body, _ := json.Marshal(map[string]any{"mapping_id": id})
		resp, err := n.dh.Handle(&command.CommandContext{ConnectionID: "conn", RequestID: "rq", CommandId: "cmd", ClientID: c, IsAuthenticated: true, RequestBody: string(body), Context: context.Background()})
		if err != nil || resp == nil {
			return res{err: "handler: " + errStr(err)}
		}
		var out struct {
			Success bool   `json:"success"`
			Error   string `json:"error"`
		}
		if json.Unmarshal([]byte(resp.Data), &out) != nil {
			return res{err: "unparsable response " + resp.Data}
		}
		return res{ok: out.Success && resp.Success, err: out.Error}
	}
	err := n.repo.DeleteMapping(context.Background(), id, c)
	return res{ok: err == nil, err: errStr(err)}
}

// doList lists the client's mappings (GetMappingsByClientID; through the server adapter for the command path)
func (r *rig) doList(n *node, api string, c int64) res {
	if api == "cmd" {
		l, err := n.ad.ListHTTPDomainMappings(c)
		return res{ok: err == nil, err: errStr(err), code: len(l)}
	}
	l, err := n.repo.GetMappingsByClientID(context.Background(), c)
	return res{ok: err == nil, err: errStr(err), code: len(l)}
}

// peek reads the record as the caller of UpdateMapping would hold it (ungated, before the call)
func (r *rig) peek(n *node, id string) *repos.HTTPDomainMapping {
	v, err := n.st.FullStorage.Get(repos.HTTPDomainMappingKey(id))
	m := &repos.HTTPDomainMapping{ID: id}
	if err == nil {
		if s, ok := v.(string); ok {
			_ = json.Unmarshal([]byte(s), m)
		}
	}
	return m
}

// doUpdate calls UpdateMapping with the record as its caller holds it and exactly ONE field changed (st names it);
// otherSub is the subdomain of another name for the fields whose new value is a name.
func (r *rig) doUpdate(n *node, m *repos.HTTPDomainMapping, st, otherSub string) res {
	cp := *m
	switch st {
	case "expired":
		cp.ExpiresAt = time.Now().Unix() - 3600
	case "inactive":
		cp.Status = repos.HTTPDomainMappingStatusInactive
	case "target": // mutable; the port is what the judge identifies a mapping by, so only the host changes
		cp.TargetHost = "127.0.0.2"
	case "desc":
		cp.Description = "updated"
	case "created":
		cp.CreatedAt -= 1000
	case "client": // immutable fields from here on
		if cp.ClientID == cidOf["c1"] {
			cp.ClientID = cidOf["c2"]
		} else {
			cp.ClientID = cidOf["c1"]
		}
	case "sub":
		cp.Subdomain = otherSub
	case "base":
		cp.BaseDomain = "example.org"
	case "full":
		cp.FullDomain = otherSub + "." + baseDomain
	default:
		return res{err: "unknown update field " + st}
	}
	err := n.repo.UpdateMapping(context.Background(), &cp)
	return res{ok: err == nil, err: errStr(err)}
}

// doLookup sends one HTTP request with the given Host header through the real proxy module.
func (r *rig) doLookup(call, host string) res {
	rawReq := "GET /x HTTP/1.1\r\nHost: " + host + "\r\nX-Verif-Call: " + call + "\r\n\r\n"
	req, err := http.ReadRequest(bufio.NewReader(strings.NewReader(rawReq)))
	if err != nil {
		return res{code: 400, err: err.Error()}
	}
	req.RemoteAddr = "203.0.113.9:50000"
	w := httptest.NewRecorder()
	r.mod.ServeHTTP(w, req)
	r.sm.mu.Lock()
	rt, ok := r.sm.seen[call]
	r.sm.mu.Unlock()
	if ok {
		return res{routed: true, c: rt.c, tp: rt.tp, code: w.Code}
	}
	return res{code: w.Code}
}

// ---- spellings ---------------------------------------------------------------------------------

type spelling struct {
	sp   string
	host string
	name string // canonical domain name the spelling denotes ("" = not a domain name)
}

func spellingsOf(full string) []spelling {
	up := strings.ToUpper(full)
	mixed := strings.ToUpper(full[:1]) + full[1:]
	return []spelling{
		{"plain", full, full}, {"port", full + ":8080", full}, {"upper", up, full}, {"upper-port", up + ":443", full},
		spellingFor("upper", full),
		{"mixed", mixed, full}, {"dot", full + ".", full}, {"dot-port", full + ".:80", full}, {"empty-port", full + ":", full},
		{"v6", "[::1]", ""}, {"v6-port", "[::1]:8080", ""}, {"v6-full-port", "[2001:db8::1]:443", ""},
	}
}

func (r *rig) lookupEvent(p string, s spelling) res {
	r.emu.Lock()
	r.lkSeq++
	call := fmt.Sprintf("%s-%d", p, r.lkSeq)
	r.events = append(r.events, fw.Event{"ev": "Call", "p": call, "op": "Lookup", "host": s.host, "name": s.name, "sp": s.sp, "now": time.Now().Unix()})
	r.emu.Unlock()
	out := r.doLookup(call, s.host)
	r.log(fw.Event{"ev": "Ret", "p": call, "op": "Lookup", "routed": out.routed, "c": out.c, "tp": out.tp, "code": out.code})
	return out
}

// ---- quiescent store ---------------------------------------------------------------------------

func (r *rig) finalEvent() fw.Event {
	view := map[string]any{}
	for i := len(r.raw) - 1; i >= 0; i-- { // less authoritative first, overwritten by what a reader sees first
		for k, v := range r.raw[i].Snapshot("tunnox:http_domain:") {
			view[k] = v
		}
	}
	keys := make([]string, 0, len(view))
	for k := range view {
		keys = append(keys, k)
	}
	sort.Strings(keys)
	index, recs, lists := []any{}, []any{}, []any{}
	for _, k := range keys {
		v := view[k]
		switch keyKind(k) {
		case "idx":
			index = append(index, []any{strings.ToLower(strings.TrimPrefix(k, repos.KeyPrefixHTTPDomainIndex)), fmt.Sprint(v)})
		case "rec":
			var m repos.HTTPDomainMapping
			if s, ok := v.(string); ok && json.Unmarshal([]byte(s), &m) == nil {
				recs = append(recs, []any{m.ID, m.ClientID, strings.ToLower(m.FullDomain), m.TargetPort})
			} else {
				recs = append(recs, []any{strings.TrimPrefix(k, repos.KeyPrefixHTTPDomainMapping), 0, "?", 0})
			}
		case "cl":
			c, _ := strconv.ParseInt(strings.TrimPrefix(k, repos.KeyPrefixHTTPDomainClient), 10, 64)
			var l []any
			switch x := v.(type) {
			case []any:
				l = x
			case string:
				_ = json.Unmarshal([]byte(x), &l)
			}
			for _, id := range l {
				lists = append(lists, []any{c, fmt.Sprint(id)})
			}
		}
	}
	return fw.Event{"ev": "Final", "index": index, "recs": recs, "lists": lists}
}

// ---- scheduled behaviours ------------------------------------------------------------------------

type step struct {
	P, A string
	F    bool
	R    string
	Op   string
	C    string
	N    string
	ID   int
	St   string
	Sp   string // spelling of the subdomain (Create) / Host header (Lookup)
}

func parseStep(s string) (step, error) {
	f := strings.Split(s, "|")
	if len(f) != 4 && len(f) != 10 {
		return step{}, fmt.Errorf("bad step %q", s)
	}
	st := step{P: f[0], A: f[1], F: f[2] == "1", R: f[3]}
	if len(f) == 10 {
		st.Op, st.C, st.N, st.St, st.Sp = f[4], f[5], f[6], f[8], f[9]
		st.ID, _ = strconv.Atoi(f[7])
	}
	return st, nil
}

// spellingFor concretises a spelling class of the model's table for a full domain
func spellingFor(sp, full string) spelling {
	switch sp {
	case "port":
		return spelling{"port", full + ":8080", full}
	case "upper":
		// the spelling under which a subdomain can also be claimed: upper-case label, base domain as configured
		i := strings.Index(full, ".")
		return spelling{"upper-sub", strings.ToUpper(full[:i]) + full[i:], full}
	case "dot":
		return spelling{"dot", full + ".", full}
	case "v6":
		return spelling{"v6", "[::1]", ""}
	case "v6port":
		return spelling{"v6-port", "[::1]:8080", ""}
	}
	return spelling{"plain", full, full}
}

type behaviour struct {
	Kind   string   `json:"kind"`           // sched | free | spell
	Tier   string   `json:"tier"`           // store | hybrid
	API    string   `json:"api"`            // repo | cmd (free / spell behaviours)
	Cmd    []string `json:"cmd,omitempty"`  // scheduled behaviours: processes whose calls go through the command handlers
	Late   bool     `json:"late,omitempty"` // storage operations the code has beyond the model's end of a call run at the very end, not at once
	Pre    bool     `json:"pre"`
	Legacy bool     `json:"legacy"` // generated from the model of the unrepaired DeleteMapping
	Steps  []string `json:"steps,omitempty"`
	Seed   int      `json:"seed,omitempty"`
	Procs  int      `json:"procs,omitempty"`
	Ops    int      `json:"ops,omitempty"`
}

var nodeOfProc = map[string]int{"p1": 0, "p2": 1, "p3": 1, "p4": 0, "lk": 0}

type active struct {
	name    string
	op      string
	done    bool
	pending string // gate class of this call's storage operation that is to fail once (armed whenever the call is released)
	faulted bool   // the fault has fired inside this call
}

func (r *rig) createPre() error {
	r.tpSeq++
	tp := 8000 + r.tpSeq
	r.log(fw.Event{"ev": "Call", "p": "setup", "op": "Create", "c": cidOf["c1"], "name": fullOf("n1"), "raw": fullOf("n1"), "tp": tp})
	out := r.doCreate(r.nodes[0], "repo", cidOf["c1"], subOf["n1"], tp)
	r.log(fw.Event{"ev": "Ret", "p": "setup", "op": "Create", "ok": out.ok, "id": out.id, "err": out.err, "faulted": false, "exp": out.exp})
	if !out.ok || out.id != "hdm_1" {
		return fmt.Errorf("setup create: ok=%v id=%q err=%s", out.ok, out.id, out.err)
	}
	return nil
}

func (r *rig) logRet(a *active) {
	if a.done {
		return
	}
	a.done = true
	out, _ := r.s.Result(a.name).(res)
	switch a.op {
	case "Create":
		r.log(fw.Event{"ev": "Ret", "p": a.name, "op": "Create", "ok": out.ok, "id": out.id, "err": out.err, "faulted": a.faulted, "exp": out.exp})
	case "Lookup":
		r.log(fw.Event{"ev": "Ret", "p": a.name, "op": "Lookup", "routed": out.routed, "c": out.c, "tp": out.tp, "code": out.code})
	default:
		r.log(fw.Event{"ev": "Ret", "p": a.name, "op": a.op, "ok": out.ok, "err": out.err})
	}
}

func expectOK(a *active, out res, want string) bool {
	switch {
	case want == "ok":
		return out.ok
	case want == "fail":
		return !out.ok && !out.routed
	case want == "reject":
		return !out.routed
	case strings.HasPrefix(want, "route:"):
		return out.routed && out.tp < 9000
	case strings.HasPrefix(want, "leg:"):
		return out.routed && out.tp >= 9000
	}
	return false
}

func drive(env *fw.Env, b fw.Behaviour) *fw.Trace {
	var beh behaviour
	if err := json.Unmarshal(b.Data, &beh); err != nil {
		return &fw.Trace{Status: fw.DriverError, Note: err.Error()}
	}
	switch beh.Kind {
	case "free":
		return driveFree(env, beh)
	case "spell":
		return driveSpell(beh)
	case "regrace":
		return driveRegRace(beh)
	case "ttl":
		return driveTTL(beh)
	}
	r := newRig(beh.Tier, false)
	defer r.close()
	if beh.Pre {
		if err := r.createPre(); err != nil {
			return &fw.Trace{Status: fw.DriverError, Note: err.Error()}
		}
	}
	steps := make([]step, len(beh.Steps))
	probes := true
	for i, s := range beh.Steps {
		st, err := parseStep(s)
		if err != nil {
			return &fw.Trace{Status: fw.DriverError, Note: err.Error()}
		}
		steps[i] = st
		if st.P == "adm" {
			probes = false // lookups cache legacy mappings into the registry: only the modelled ones may run
		}
	}
	apiOf := func(p string) string {
		for _, q := range beh.Cmd {
			if q == p {
				return "cmd"
			}
		}
		return "repo"
	}
	cur := map[string]*active{}
	var started []*active
	nCalls := map[string]int{}
	// The schedule is followed as far as the real code allows. Where the code leaves it (a process is not at
	// the gate the model names, has extra storage operations, returns earlier / later / something else) the
	// first such point is noted, the rest of the schedule is still followed best-effort (same processes in the
	// same order; a call the model believes finished is run to its end as extra steps of that process) and the
	// execution is finished and judged as fw.Diverged: it is a real execution of the real code.
	diverged := ""
	note := func(format string, a ...any) {
		if diverged == "" {
			diverged = fmt.Sprintf(format, a...)
		}
	}
	probe := func() {
		if !probes {
			return
		}
		for _, n := range []string{"n1", "n2"} {
			if _, ok := subOf[n]; ok && (n == "n1" || r.usesN2(steps)) {
				r.lookupEvent("probe", spelling{"plain", fullOf(n), fullOf(n)})
			}
		}
	}
	for i, st := range steps {
		switch {
		case st.P == "adm":
			full := fullOf(st.N)
			if st.A == "LegCreate" {
				pm := &models.PortMapping{ID: fmt.Sprintf("pm_%d", st.ID), TargetClientID: cidOf[st.C], TargetHost: "127.0.0.1", TargetPort: 9000 + st.ID,
					Protocol: models.ProtocolHTTP, HTTPSubdomain: subOf[st.N], HTTPBaseDomain: baseDomain, Status: models.MappingStatusActive}
				legSt := st.Sp
				switch legSt { // the three ways a legacy mapping is not to be served
				case "inactive":
					pm.Status = models.MappingStatusInactive
				case "revoked":
					pm.IsRevoked = true
				case "expired":
					past := time.Now().Add(-time.Hour)
					pm.ExpiresAt = &past
				default:
					legSt = "active"
				}
				if st.St == "here" {
					// management API on the proxy node: availability check + registration in its registry
					if !r.reg.IsSubdomainAvailable(subOf[st.N], baseDomain) {
						note("step %d: legacy create refused by the registry", i)
						continue
					}
					if err := r.reg.Register(pm); err != nil {
						note("step %d: legacy register: %v", i, err)
						continue
					}
				}
				r.cc.mu.Lock()
				r.cc.m[full] = pm
				r.cc.mu.Unlock()
				r.legTP[st.ID] = full
				r.log(fw.Event{"ev": "LegCreate", "lid": st.ID, "c": cidOf[st.C], "name": full, "tp": 9000 + st.ID, "here": st.St == "here", "st": legSt})
			} else {
				r.cc.mu.Lock()
				delete(r.cc.m, full)
				r.cc.mu.Unlock()
				if st.St == "here" {
					r.reg.UnregisterByMappingID(fmt.Sprintf("pm_%d", st.ID))
				}
				r.log(fw.Event{"ev": "LegDelete", "lid": st.ID, "here": st.St == "here"})
			}
		case st.A == "Call":
			if prev := cur[st.P]; prev != nil && !prev.done {
				// the previous call of this process is still in flight (code beyond the model's end of the call): it ends first
				for k := 0; k < 60 && !prev.done; k++ {
					if state, _ := r.s.State(prev.name); state != sched.Parked {
						break
					}
					if stepCall(r, prev) == sched.Done {
						r.logRet(prev)
					}
				}
			}
			nCalls[st.P]++
			a := &active{name: fmt.Sprintf("%s.%d", st.P, nCalls[st.P]), op: st.Op}
			n := r.nodes[nodeOfProc[st.P]]
			var fn func() any
			switch st.Op {
			case "Create":
				r.tpSeq++
				tp := 8000 + r.tpSeq
				c, sub := cidOf[st.C], subOf[st.N]
				if st.Sp == "upper" {
					sub = strings.ToUpper(sub)
				}
				r.log(fw.Event{"ev": "Call", "p": a.name, "op": "Create", "c": c, "name": fullOf(st.N), "raw": sub + "." + baseDomain, "tp": tp})
				fn = func() any { return r.doCreate(n, apiOf(st.P), c, sub, tp) }
			case "Delete":
				c, id := cidOf[st.C], fmt.Sprintf("hdm_%d", st.ID)
				r.log(fw.Event{"ev": "Call", "p": a.name, "op": "Delete", "c": c, "id": id})
				fn = func() any { return r.doDelete(n, apiOf(st.P), c, id) }
			case "Update":
				id := fmt.Sprintf("hdm_%d", st.ID)
				m := r.peek(n, id)
				stt, other := st.St, subOf[st.N]
				r.log(fw.Event{"ev": "Call", "p": a.name, "op": "Update", "id": id, "st": stt})
				fn = func() any { return r.doUpdate(n, m, stt, other) }
			case "List":
				c := cidOf[st.C]
				r.log(fw.Event{"ev": "Call", "p": a.name, "op": "List", "c": c})
				fn = func() any { return r.doList(n, apiOf(st.P), c) }
			case "Lookup":
				sp := spellingFor(st.Sp, fullOf(st.N))
				if st.Sp == "plain" && i%2 == 1 {
					sp = spellingFor("port", fullOf(st.N)) // same index key in the model's table; vary the concrete spelling
				}
				r.log(fw.Event{"ev": "Call", "p": a.name, "op": "Lookup", "host": sp.host, "name": sp.name, "sp": sp.sp, "now": time.Now().Unix()})
				fn = func() any { return r.doLookup(a.name, sp.host) }
			default:
				return &fw.Trace{Status: fw.DriverError, Note: "unknown op " + st.Op}
			}
			cur[st.P] = a
			started = append(started, a)
			if state := r.s.Start(a.name, fn); state != sched.Parked {
				note("step %d: call %s did not reach its first storage gate (%s)", i, a.name, state)
				if state == sched.Done {
					r.logRet(a)
				}
			}
		default:
			a := cur[st.P]
			if a == nil {
				return &fw.Trace{Status: fw.DriverError, Note: "step before call"}
			}
			want, known := gateOf[st.A]
			if !known {
				return &fw.Trace{Status: fw.DriverError, Note: "unknown action " + st.A}
			}
			state, at := r.s.State(a.name)
			cls, _ := at.Info["class"].(string)
			if state == sched.Done {
				r.logRet(a)
			}
			if state != sched.Parked {
				note("step %d: %s is %s, model expects %s at %s", i, a.name, state, st.A, want)
				break
			}
			if cls != want {
				note("step %d: %s is at %q, model expects %s at %s", i, a.name, cls, st.A, want)
				// re-align schedule and code, so that the rest of the schedule (the other processes' steps, the fault, the
				// retry) still happens at the points the model means:
				//  - the code is at an operation that a LATER model step of this call names: the code does not have the
				//    model's operation here (e.g. a guard read that was dropped) - the model step is skipped;
				//  - otherwise the code has an operation the model does not have here: it runs as an extra step of the call
				if st.F {
					a.pending = want
				}
				skipStep := false
				for k := 0; k < 6 && cls != want; k++ {
					if laterGate(steps, i, cls) {
						skipStep = true
						break
					}
					ns := stepCall(r, a)
					if ns != sched.Parked {
						if ns == sched.Done {
							r.logRet(a)
						}
						skipStep = true
						break
					}
					cls = atClass(r, a.name)
				}
				if skipStep {
					probe()
					continue
				}
			}
			if st.F {
				// the storage operation the model names is to fail once; if the code issues it at another point
				// of the call (diverged), the fault stays pending for this call until that operation comes
				a.pending = want
			}
			ns := stepCall(r, a)
			if st.R != "-" && ns == sched.Parked {
				// the model's call returns here, the code has further storage operations (e.g. a lookup or a listing
				// that writes, a clean-up on a refused path): they are extra steps of this call, run at once - or,
				// in "late" behaviours, left pending while the schedule goes on (they run before the process's next
				// call or when the schedule is over), so that both placements of the extra operations are explored
				note("step %d: %s continues after %s (at %v), model expects it to return %s", i, a.name, st.A, atClass(r, a.name), st.R)
				for k := 0; !beh.Late && k < 40 && ns == sched.Parked; k++ {
					ns = stepCall(r, a)
				}
			}
			if ns == sched.Done {
				r.logRet(a)
			}
			switch {
			case ns == sched.Blocked:
				note("step %d: %s blocked after %s", i, a.name, st.A)
			case st.R == "-" && ns != sched.Parked:
				note("step %d: %s returned after %s, model expects it to continue", i, a.name, st.A)
			case st.R != "-" && ns == sched.Parked:
				// late extras: the call is still in flight
			case st.R != "-" && ns == sched.Done:
				out, _ := r.s.Result(a.name).(res)
				if !expectOK(a, out, st.R) {
					note("step %d: %s returned %+v after %s, model expects %s", i, a.name, out, st.A, st.R)
				}
			}
		}
		probe()
	}
	// the schedule is over: calls still in flight are finished one after the other (in call order), each run
	// to its end step by step - deterministic, and no two calls ever run inside the storage at once (what
	// hybrid.Storage does when two NODES update one list concurrently is C14's subject, not this check's)
	for _, a := range started {
		for k := 0; k < 60 && !a.done; k++ {
			state, _ := r.s.State(a.name)
			if state == sched.Done {
				r.logRet(a)
				break
			}
			if state != sched.Parked {
				break
			}
			if stepCall(r, a) == sched.Done {
				r.logRet(a)
			}
		}
	}
	if !r.s.Drain(3 * time.Second) {
		return &fw.Trace{Status: fw.DriverError, Note: "processes did not finish after drain"}
	}
	for _, a := range started {
		r.logRet(a)
	}
	// quiescent observations: every name through two spellings, then the store
	for _, n := range []string{"n1", "n2"} {
		if n == "n1" || r.usesN2(steps) {
			r.lookupEvent("final", spelling{"plain", fullOf(n), fullOf(n)})
			r.lookupEvent("final", spelling{"port", fullOf(n) + ":8080", fullOf(n)})
		}
	}
	for _, n := range []string{"n1", "n2"} {
		if n == "n1" || r.usesN2(steps) {
			r.claimProbe(n)
		}
	}
	r.log(r.finalEvent())
	if diverged != "" {
		return &fw.Trace{Status: fw.Diverged, Note: diverged, Events: r.events}
	}
	return &fw.Trace{Status: fw.Realised, Events: r.events}
}

// claimProbe: at quiescence a fresh client claims the name and, if that is acknowledged, gives it back - a name
// nobody owns any more must be claimable again (judged by the Claimable clause: a refusal needs a possible owner)
func (r *rig) claimProbe(n string) {
	r.tpSeq++
	tp := 8000 + r.tpSeq
	p := "claim-" + n
	r.log(fw.Event{"ev": "Call", "p": p, "op": "Create", "c": int64(109), "name": fullOf(n), "raw": fullOf(n), "tp": tp})
	out := r.doCreate(r.nodes[0], "repo", 109, subOf[n], tp)
	r.log(fw.Event{"ev": "Ret", "p": p, "op": "Create", "ok": out.ok, "id": out.id, "err": out.err, "faulted": false, "exp": out.exp})
	if out.ok {
		r.log(fw.Event{"ev": "Call", "p": p + "-undo", "op": "Delete", "c": int64(109), "id": out.id})
		d := r.doDelete(r.nodes[0], "repo", 109, out.id)
		r.log(fw.Event{"ev": "Ret", "p": p + "-undo", "op": "Delete", "ok": d.ok, "err": d.err})
	}
}

// stepCall releases the call from its gate; a pending fault of the call is armed only while it runs (the
// driver's own lookups between steps never consume it).
func stepCall(r *rig, a *active) string {
	if a.pending != "" {
		r.arm(a.pending)
	}
	ns, _ := r.s.Step(a.name)
	if a.pending != "" {
		if r.armedNow() == "" {
			a.pending, a.faulted = "", true
		}
		r.arm("")
	}
	return ns
}

// laterGate: does a later step of the same call of process steps[i].P (up to its next Call) wait at gate class cls?
func laterGate(steps []step, i int, cls string) bool {
	for j := i + 1; j < len(steps); j++ {
		if steps[j].P != steps[i].P {
			continue
		}
		if steps[j].A == "Call" {
			return false
		}
		if gateOf[steps[j].A] == cls {
			return true
		}
	}
	return false
}

func atClass(r *rig, name string) string {
	_, at := r.s.State(name)
	c, _ := at.Info["class"].(string)
	return c
}

func (r *rig) usesN2(steps []step) bool {
	for _, s := range steps {
		if s.N == "n2" {
			return true
		}
	}
	return false
}

// ---- sequential host-spelling sweep ---------------------------------------------------------------

func driveSpell(beh behaviour) *fw.Trace {
	r := newRig(beh.Tier, true)
	defer r.close()
	n0, n1 := r.nodes[0], r.nodes[1]
	seq := 0
	create := func(n *node, c int64, sub string) res {
		seq++
		r.tpSeq++
		tp := 8000 + r.tpSeq
		p := fmt.Sprintf("s.%d", seq)
		full := sub + "." + baseDomain
		r.log(fw.Event{"ev": "Call", "p": p, "op": "Create", "c": c, "name": strings.ToLower(full), "raw": full, "tp": tp})
		out := r.doCreate(n, beh.API, c, sub, tp)
		r.log(fw.Event{"ev": "Ret", "p": p, "op": "Create", "ok": out.ok, "id": out.id, "err": out.err, "faulted": false, "exp": out.exp})
		return out
	}
	del := func(n *node, c int64, id string) res {
		seq++
		p := fmt.Sprintf("s.%d", seq)
		r.log(fw.Event{"ev": "Call", "p": p, "op": "Delete", "c": c, "id": id})
		out := r.doDelete(n, beh.API, c, id)
		r.log(fw.Event{"ev": "Ret", "p": p, "op": "Delete", "ok": out.ok, "err": out.err})
		return out
	}
	upd := func(n *node, id, st string, other ...string) res {
		seq++
		p := fmt.Sprintf("s.%d", seq)
		m := r.peek(n, id)
		o := ""
		if len(other) > 0 {
			o = other[0]
		}
		r.log(fw.Event{"ev": "Call", "p": p, "op": "Update", "id": id, "st": st})
		out := r.doUpdate(n, m, st, o)
		r.log(fw.Event{"ev": "Ret", "p": p, "op": "Update", "ok": out.ok, "err": out.err})
		return out
	}
	sweep := func(full string) {
		for _, s := range spellingsOf(full) {
			r.lookupEvent("sw", s)
		}
	}
	a := create(n0, 101, "app1")
	bb := create(n1, 102, "app2")
	if !a.ok || !bb.ok {
		return &fw.Trace{Status: fw.DriverError, Note: "spell setup: creates failed: " + a.err + " / " + bb.err}
	}
	sweep("app1.tunnox.net")
	create(n1, 102, "APP1") // the same DNS name in another spelling, claimed by another client
	create(n0, 101, "App2")
	sweep("app1.tunnox.net")
	sweep("app2.tunnox.net")
	del(n1, 102, a.id) // not the owner
	sweep("app1.tunnox.net")
	// UpdateMapping with every field of the record as the only changed one; the immutable ones with values that collide
	// with the other client's mapping (its subdomain / full domain / client id) and with a free name: whatever the call
	// answers, who owns and serves which name stays as it is
	for _, f := range []string{"target", "desc", "created", "client", "sub", "base", "full"} {
		upd(n0, a.id, f, "app2")
		sweep("app1.tunnox.net")
		sweep("app2.tunnox.net")
	}
	upd(n0, a.id, "full", "app9")
	upd(n1, bb.id, "sub", "app9")
	sweep("app1.tunnox.net")
	sweep("app2.tunnox.net")
	upd(n0, a.id, "inactive")
	sweep("app1.tunnox.net")
	upd(n1, bb.id, "expired")
	sweep("app2.tunnox.net")
	del(n0, 101, a.id) // the owner
	sweep("app1.tunnox.net")
	c := create(n1, 102, "app1") // claimable again
	sweep("app1.tunnox.net")
	if c.ok {
		del(n0, 101, c.id) // the previous owner is not the owner of the new mapping
		del(n0, 101, a.id) // deleting the old mapping again must not touch the new owner's
		sweep("app1.tunnox.net")
	}
	r.log(r.finalEvent())
	return &fw.Trace{Status: fw.Realised, Events: r.events}
}

// ---- expiry by the clock ----------------------------------------------------------------------------

// driveTTL: a mapping created through the command handler with a TTL of one second (the response acknowledges
// expires_at) is requested before and after that instant in every Host spelling; then the name - still owned, not
// routed - is refused to another client, given back by its owner and claimed by the other client. The judge compares
// the acknowledged expiry with the driver's clock at each lookup call (same clock as the code's time.Now()).
func driveTTL(beh behaviour) *fw.Trace {
	r := newRig(beh.Tier, true)
	defer r.close()
	n0, n1 := r.nodes[0], r.nodes[1]
	seq := 0
	create := func(n *node, c int64, sub string, ttl int) res {
		seq++
		r.tpSeq++
		tp := 8000 + r.tpSeq
		p := fmt.Sprintf("t.%d", seq)
		full := sub + "." + baseDomain
		r.log(fw.Event{"ev": "Call", "p": p, "op": "Create", "c": c, "name": strings.ToLower(full), "raw": full, "tp": tp})
		out := r.doCreateTTL(n, "cmd", c, sub, tp, ttl)
		r.log(fw.Event{"ev": "Ret", "p": p, "op": "Create", "ok": out.ok, "id": out.id, "err": out.err, "faulted": false, "exp": out.exp})
		return out
	}
	del := func(n *node, c int64, id string) res {
		seq++
		p := fmt.Sprintf("t.%d", seq)
		r.log(fw.Event{"ev": "Call", "p": p, "op": "Delete", "c": c, "id": id})
		out := r.doDelete(n, "cmd", c, id)
		r.log(fw.Event{"ev": "Ret", "p": p, "op": "Delete", "ok": out.ok, "err": out.err})
		return out
	}
	sweep := func(full string) {
		for _, s := range spellingsOf(full) {
			r.lookupEvent("sw", s)
		}
	}
	faulted := false
	if beh.Seed == 1 {
		r.arm("rec.Get") // the expiry update of the create fails (its GetMapping): the first record read of the call
	}
	a := create(n0, 101, "app1", 1)
	if beh.Seed == 1 {
		faulted = r.armedNow() == ""
		r.arm("")
		if !faulted {
			return &fw.Trace{Status: fw.DriverError, Note: "ttl: the create read no record (fault not consumed)"}
		}
		// the Ret line above said faulted = false: correct it (the judge excuses a refusal of a faulted create only)
		r.events[len(r.events)-1]["faulted"] = true
	}
	if !a.ok && !faulted {
		return &fw.Trace{Status: fw.DriverError, Note: "ttl setup: create failed: " + a.err}
	}
	sweep("app1.tunnox.net")
	if a.ok && a.exp != 0 {
		deadline := time.Now().Add(4 * time.Second)
		for time.Now().Unix() <= a.exp && time.Now().Before(deadline) {
			time.Sleep(40 * time.Millisecond)
		}
	}
	sweep("app1.tunnox.net")
	if a.ok {
		create(n1, 102, "app1", 3600) // the expired mapping still owns the name
		del(n0, 101, a.id)
	}
	c := create(n1, 102, "app1", 3600) // claimable again (after the owner's delete, or after the rolled-back create)
	sweep("app1.tunnox.net")
	if c.ok {
		del(n1, 102, c.id)
	}
	r.log(r.finalEvent())
	return &fw.Trace{Status: fw.Realised, Events: r.events}
}

// ---- free-running stress ----------------------------------------------------------------------------

// driveFree: Procs goroutines (two per client, spread over the two nodes) issue Ops random calls each
// on two names; every storage gate injects a seeded delay. Call lines are logged before the API is
// invoked and Ret lines after it returned, under one mutex: file order is sound real-time order.
func driveFree(env *fw.Env, beh behaviour) *fw.Trace {
	r := newRig(beh.Tier, true)
	defer r.close()
	rnd := fw.NewRand(env.Seed*7919 + int64(beh.Seed))
	var rmu sync.Mutex
	r.s.FreeDelay = func(name string, g sched.GateInfo) {
		rmu.Lock()
		k := rnd.Intn(10)
		rmu.Unlock()
		switch {
		case k < 4:
			runtime.Gosched()
		case k < 7:
			time.Sleep(time.Duration(10+k*15) * time.Microsecond)
		}
	}
	type opn struct {
		kind string
		n    string
		pick int
		sp   int
	}
	scripts := make([][]opn, beh.Procs)
	kinds := []string{"Create", "Create", "Create", "Delete", "Delete", "DeleteAny", "Lookup", "Lookup", "List", "Expire"}
	for p := range scripts {
		for o := 0; o < beh.Ops; o++ {
			scripts[p] = append(scripts[p], opn{kind: kinds[rnd.Intn(len(kinds))], n: []string{"n1", "n1", "n2"}[rnd.Intn(3)], pick: rnd.Intn(1000), sp: rnd.Intn(8)})
		}
	}
	type known struct {
		id string
		c  int64
	}
	var kmu sync.Mutex
	var ids []known
	var wg sync.WaitGroup
	for p := 0; p < beh.Procs; p++ {
		wg.Add(1)
		go func(p int) {
			defer wg.Done()
			c := int64(101 + p/2) // two goroutines per client: the same identity acts twice at once
			// both on one node, neighbouring clients on different nodes: hybrid.Storage serialises the
			// read-modify-write of a client's list only inside one instance (cross-node list races are C14's subject)
			n := r.nodes[(p/2)%2]
			for k, o := range scripts[p] {
				call := fmt.Sprintf("f%d.%d", p, k)
				switch o.kind {
				case "Create":
					r.emu.Lock()
					r.tpSeq++
					tp := 8000 + r.tpSeq
					r.events = append(r.events, fw.Event{"ev": "Call", "p": call, "op": "Create", "c": c, "name": fullOf(o.n), "raw": fullOf(o.n), "tp": tp})
					r.emu.Unlock()
					out := r.doCreate(n, beh.API, c, subOf[o.n], tp)
					r.log(fw.Event{"ev": "Ret", "p": call, "op": "Create", "ok": out.ok, "id": out.id, "err": out.err, "faulted": false, "exp": out.exp})
					if out.ok {
						kmu.Lock()
						ids = append(ids, known{out.id, c})
						kmu.Unlock()
					}
				case "Delete", "DeleteAny":
					kmu.Lock()
					var cand []known
					for _, x := range ids {
						if o.kind == "DeleteAny" || x.c == c {
							cand = append(cand, x)
						}
					}
					kmu.Unlock()
					if len(cand) == 0 {
						continue
					}
					x := cand[len(cand)-1-o.pick%min(len(cand), 2)] // the newest ones: so that the two goroutines of a client collide
					r.log(fw.Event{"ev": "Call", "p": call, "op": "Delete", "c": c, "id": x.id})
					out := r.doDelete(n, beh.API, c, x.id)
					r.log(fw.Event{"ev": "Ret", "p": call, "op": "Delete", "ok": out.ok, "err": out.err})
				case "Lookup":
					r.lookupEvent(call, spellingsOf(fullOf(o.n))[o.sp])
				case "List": // the client lists its own mappings while its other goroutine creates / deletes
					r.log(fw.Event{"ev": "Call", "p": call, "op": "List", "c": c})
					out := r.doList(n, beh.API, c)
					r.log(fw.Event{"ev": "Ret", "p": call, "op": "List", "ok": out.ok, "err": out.err})
				case "Expire": // the owner's side makes its newest mapping inactive / expired
					kmu.Lock()
					var mine []known
					for _, x := range ids {
						if x.c == c {
							mine = append(mine, x)
						}
					}
					kmu.Unlock()
					if len(mine) == 0 {
						continue
					}
					x := mine[len(mine)-1]
					st := []string{"inactive", "expired"}[o.pick%2]
					m := r.peek(n, x.id)
					r.log(fw.Event{"ev": "Call", "p": call, "op": "Update", "id": x.id, "st": st})
					out := r.doUpdate(n, m, st, "")
					r.log(fw.Event{"ev": "Ret", "p": call, "op": "Update", "ok": out.ok, "err": out.err})
				}
			}
		}(p)
	}
	done := make(chan struct{})
	go func() { wg.Wait(); close(done) }()
	select {
	case <-done:
	case <-time.After(20 * time.Second):
		return &fw.Trace{Status: fw.DriverError, Note: "free-running processes did not finish"}
	}
	for _, n := range []string{"n1", "n2"} {
		r.lookupEvent("final", spelling{"plain", fullOf(n), fullOf(n)})
		r.claimProbe(n)
	}
	r.log(r.finalEvent())
	return &fw.Trace{Status: fw.Realised, Events: r.events}
}

// ---- parallel legacy claims ----------------------------------------------------------------------

// driveRegRace: Ops rounds; in each, Procs persistent goroutines (one legacy mapping of a different client
// each) are released together by a spin barrier and call the real DomainRegistry.Register for one fresh full
// domain - the step the management API acknowledges a legacy HTTP mapping with. No storage gate lies inside
// Register, so this window is exercised by truly parallel calls, many rounds. Every acknowledged claim is
// logged (LegCreate), then the name is requested through the real proxy (repository miss -> registry).
func driveRegRace(beh behaviour) *fw.Trace {
	r := newRig("store", true)
	defer r.close()
	k := beh.Procs
	acks := make([]bool, k)
	var gen, arrived, finished atomic.Int64
	var stop atomic.Bool
	for i := 0; i < k; i++ {
		go func(i int) {
			last := int64(0)
			for {
				for gen.Load() == last {
					runtime.Gosched()
				}
				last = gen.Load()
				if stop.Load() {
					return
				}
				rd := int(last - 1)
				pm := &models.PortMapping{ID: fmt.Sprintf("pm_%d_%d", rd, i), TargetClientID: int64(201 + i), TargetHost: "127.0.0.1", TargetPort: 9000 + rd*k + i,
					Protocol: models.ProtocolHTTP, HTTPSubdomain: fmt.Sprintf("r%d", rd), HTTPBaseDomain: baseDomain, Status: models.MappingStatusActive}
				// spin barrier: nobody calls Register before all racers of this round are here
				arrived.Add(1)
				for n := 0; arrived.Load() < last*int64(k); n++ {
					if n%4096 == 4095 {
						runtime.Gosched()
					}
				}
				acks[i] = r.reg.Register(pm) == nil
				finished.Add(1)
			}
		}(i)
	}
	deadline := time.Now().Add(6 * time.Second)
	for rd := 0; rd < beh.Ops && time.Now().Before(deadline); rd++ {
		for i := range acks {
			acks[i] = false
		}
		gen.Add(1)
		for finished.Load() < int64(rd+1)*int64(k) {
			runtime.Gosched()
		}
		full := fmt.Sprintf("r%d.%s", rd, baseDomain)
		for i, ok := range acks {
			if ok {
				r.log(fw.Event{"ev": "LegCreate", "lid": rd*k + i + 1, "c": int64(201 + i), "name": full, "tp": 9000 + rd*k + i, "here": true, "st": "active"})
			}
		}
		r.lookupEvent("rr", spelling{"plain", full, full})
	}
	stop.Store(true)
	gen.Add(1)
	r.log(r.finalEvent())
	return &fw.Trace{Status: fw.Realised, Events: r.events}
}

// ---- jobs ------------------------------------------------------------------------------------------

type mcfg struct {
	p1, p2, names, kinds            string
	maxOps, maxLook, faults, maxLeg int
	pre, guess, serial, fix         bool
	spell                           string // "" = {"plain"}
	nofold                          bool
	onlyDel, onlyCre, deviate       string // "" = {}
	delFaults                       bool
	creFaults                       bool
	readFaults                      bool
	legStatus                       string // "" = {"active"}
	updFields                       string // "" = {"inactive", "expired"}
	onlyList, handler               string // handler: "" = {"p2"}
	lp                              string // lookup processes ("" = one)
	emit                            bool
	invs                            string
}

const allSpell = `{"plain", "port", "upper", "dot", "v6", "v6port"}`

func spellOf(c mcfg) string {
	if c.spell == "" {
		return `{"plain"}`
	}
	return c.spell
}

func handlerOf(c mcfg) string {
	if c.handler == "" {
		return `{"p2"}`
	}
	return c.handler
}

func setOf(s string) string {
	if s == "" {
		return "{}"
	}
	return s
}

const allUpdFields = `{"inactive", "expired", "target", "desc", "created", "client", "sub", "base", "full"}`

func updFieldsOf(c mcfg) string {
	if c.updFields == "" {
		return `{"inactive", "expired"}`
	}
	return c.updFields
}

func legStatusOf(c mcfg) string {
	if c.legStatus == "" {
		return `{"active"}`
	}
	return c.legStatus
}

func lpOf(c mcfg) string {
	if c.maxLook == 0 {
		return "{}"
	}
	return `{"lk"}`
}

func tf(b bool) string {
	if b {
		return "TRUE"
	}
	return "FALSE"
}

const commonInvs = "OwnerOnly LockHeld OnlyHolderUnlocks LookupPure ListPure UpdateClaimsNothing UpdateKeepsIdentity RegisterAtomic Consistent Claimable NoIndexTheft NoShadow LegacyInactiveRejects"
const allInvs = "OneOwner RouteOK " + commonInvs
const excusedInvs = "OneOwnerX RouteOKX " + commonInvs

// ttlRollback probes the code under test once: does a create through the command handler whose expiry update
// (UpdateMapping) fails get rolled back and refused (the C19-3 repair of adapter.CreateHTTPDomainMapping, model
// constant TTLRollback = TRUE), or is it acknowledged with an expires_at that was never stored (the code as found)?
// The probe only selects the model variant the schedules are generated from; what either code does is judged on
// the traces (driveTTL with Seed = 1, and every gen:opf behaviour whose fault hits the expiry update).
var ttlProbe struct {
	once  sync.Once
	fixed bool
}

func ttlRollback() bool {
	ttlProbe.once.Do(func() {
		r := newRig("store", true)
		defer r.close()
		r.arm("rec.Get") // the first record read of a create is UpdateMapping's
		out := r.doCreateTTL(r.nodes[0], "cmd", 101, "probe", 8999, 60)
		consumed := r.armedNow() == ""
		r.arm("")
		ttlProbe.fixed = consumed && !out.ok
	})
	return ttlProbe.fixed
}

func job(name string, c mcfg) fw.TLCJob {
	if ttlRollback() && c.invs != "" {
		c.invs += " ExpiryStored"
	}
	return fw.TLCJob{Name: name, Module: "Domain", Cfg: "Domain.cfg", Workers: 8, Timeout: 14 * time.Minute,
		Consts: map[string]string{"P1": c.p1, "P2": c.p2, "LP": lpOf(c), "NAMES": c.names, "MAXOPS": strconv.Itoa(c.maxOps),
			"MAXLOOK": strconv.Itoa(c.maxLook), "KINDS": c.kinds, "PRE": tf(c.pre), "FAULTS": strconv.Itoa(c.faults), "GUESS": tf(c.guess),
			"HANDLER": handlerOf(c), "ONLYLIST": setOf(c.onlyList), "CREFAULTS": tf(c.creFaults), "READFAULTS": tf(c.readFaults), "TTLROLLBACK": tf(ttlRollback()), "UPDFIELDS": updFieldsOf(c), "LEGSTATUS": legStatusOf(c), "SEQ": tf(c.serial), "MAXLEG": strconv.Itoa(c.maxLeg), "FIX": tf(c.fix), "EMIT": tf(c.emit), "INVS": c.invs,
			"SPELL": spellOf(c), "FOLD": tf(!c.nofold), "ONLYDEL": setOf(c.onlyDel), "ONLYCRE": setOf(c.onlyCre), "DEVIATE": setOf(c.deviate), "DELFAULTS": tf(c.delFaults)}}
}

const cd = `{"Create", "Delete"}`
const cdu = `{"Create", "Delete", "Update"}`

// the configurations (see spec/Domain.cfg); fix selects the model of the repaired / unrepaired code.
// In every configuration p2 (client c2) creates through the command handler, p1 / p3 (client c1) call the repository.
func conc3(fix, emit bool, ops, looks, faults int) mcfg {
	return mcfg{p1: `{"p1", "p3"}`, p2: `{"p2"}`, names: `{"n1"}`, kinds: cd, maxOps: ops, maxLook: looks, faults: faults, pre: true, fix: fix, emit: emit}
}
func conc2(fix, emit bool, names string, looks, faults int) mcfg {
	return mcfg{p1: `{"p1"}`, p2: `{"p2"}`, names: names, kinds: cd, maxOps: 2, maxLook: looks, faults: faults, pre: true, fix: fix, emit: emit}
}
func seqCfg(fix, emit bool, kinds string, ops, looks, faults, leg int) mcfg {
	return mcfg{p1: `{"p1"}`, p2: `{"p2"}`, names: `{"n1"}`, kinds: kinds, maxOps: ops, maxLook: looks, faults: faults, maxLeg: leg, serial: true, fix: fix, emit: emit}
}

func with(c mcfg, invs string) mcfg { c.invs = invs; return c }

// spellCfg: sequential histories over the whole Host / subdomain spelling table
func spellCfg(fix, emit bool, ops, looks int) mcfg {
	c := seqCfg(fix, emit, cd, ops, looks, 0, 0)
	c.spell = allSpell
	return c
}

// del3: three delete calls of the owner (two overlapping + a retry) and one claimant of the same name
func del3(emit bool, looks int) mcfg {
	return mcfg{p1: `{"p1", "p3", "p4"}`, p2: `{"p2"}`, names: `{"n1"}`, kinds: cd, maxOps: 1, maxLook: looks, pre: true, fix: true, emit: emit,
		onlyDel: `{"p1", "p3", "p4"}`, onlyCre: `{"p2"}`}
}

// opFault: sequential histories of both clients creating / deleting (incl. the owner's retry and the other client's
// re-claim) in which any one storage operation of a create or a delete fails once; p1 = client c1 through the command
// handlers, p2 = client c2 through the repository (so that a contender reaches the index SetNX of an owned name)
func opFault(emit bool) mcfg {
	return mcfg{p1: `{"p1"}`, p2: `{"p2"}`, names: `{"n1"}`, kinds: cd, maxOps: 2, maxLook: 1, faults: 1, pre: true, serial: true, fix: true, emit: emit,
		delFaults: true, creFaults: true, handler: `{"p1"}`}
}

// listing: the owner lists its mappings while it deletes one (another call of the same client) and another client claims
func listing(emit bool) mcfg {
	return mcfg{p1: `{"p1", "p3"}`, p2: `{"p2"}`, names: `{"n1"}`, kinds: `{"Create", "Delete", "List"}`, maxOps: 1, maxLook: 1, pre: true, fix: true, emit: emit,
		onlyList: `{"p1"}`, onlyDel: `{"p3"}`, onlyCre: `{"p2"}`}
}

// shadow: sequential histories of one repository owner (created, made inactive / expired) and one legacy mapping of
// the same name, with lookups: the three lookup sources against each other
func shadow(emit bool) mcfg {
	return mcfg{p1: `{"p1"}`, p2: `{}`, names: `{"n1"}`, kinds: `{"Create", "Update"}`, maxOps: 2, maxLook: 1, maxLeg: 1, serial: true, fix: true, emit: emit, handler: `{}`}
}

// updating: the owner updates a mapping (inactive / expired) while another call of the same client deletes it and
// another client claims the name
func updating(emit bool, looks int) mcfg {
	return mcfg{p1: `{"p1", "p3"}`, p2: `{"p2"}`, names: `{"n1"}`, kinds: cdu, maxOps: 1, maxLook: looks, pre: true, fix: true, emit: emit,
		onlyDel: `{"p3"}`, onlyCre: `{"p2"}`}
}

// updFields: sequential histories over two names in which client c1 (p1) creates / updates / deletes and client c2 (p2)
// claims; an update changes exactly one field of the record - every field in turn, the immutable ones too (client,
// subdomain, base domain, full domain; the name-valued ones take the other name)
func updFields(emit bool, looks int) mcfg {
	return mcfg{p1: `{"p1"}`, p2: `{"p2"}`, names: `{"n1", "n2"}`, kinds: cdu, maxOps: 2, maxLook: looks, pre: true, serial: true, fix: true, emit: emit,
		onlyCre: `{"p2"}`, handler: `{}`, updFields: allUpdFields}
}

// readFault: sequential histories of both clients (create, delete, list, update; lookups) in which any one storage
// operation of a READ path - a listing, a host lookup, a stand-alone update - fails once
func readFault(emit bool) mcfg {
	return mcfg{p1: `{"p1"}`, p2: `{"p2"}`, names: `{"n1"}`, kinds: `{"Create", "Delete", "List", "Update"}`, maxOps: 2, maxLook: 1, faults: 1, pre: true, serial: true,
		fix: true, emit: emit, readFaults: true}
}

// shadowFault: the shadow histories with legacy mappings of every status (inactive / expired / revoked ones must not
// route) and one failing storage operation of the lookup / the update
func shadowFault(emit bool) mcfg {
	c := shadow(emit)
	c.legStatus = `{"active", "inactive", "expired", "revoked"}`
	c.readFaults, c.faults = true, 1
	return c
}

// retrying: sequential histories in which client c1 (p1, repository) creates / deletes twice and client c2 (p2) claims
// in between, with any ONE failing storage operation of a create or a delete: the retry of a call that returned an
// error, after the other client's operations (Del(fails at operation k) ; Create by c2 ; Del again, and the create twin)
func retrying(emit bool) mcfg {
	return mcfg{p1: `{"p1"}`, p2: `{"p2"}`, names: `{"n1"}`, kinds: cd, maxOps: 2, maxLook: 0, faults: 1, pre: true, serial: true, fix: true, emit: emit,
		delFaults: true, creFaults: true, onlyCre: `{"p2"}`, handler: `{}`}
}

// deviating: schedules of code that has one of the named deviations the present code does not have
func deviating(c mcfg, dev string) mcfg { c.deviate = dev; return c }

// claim2: two claimants of one free name, one call each
func claim2(emit bool, looks int) mcfg {
	return mcfg{p1: `{"p1"}`, p2: `{"p2"}`, names: `{"n1"}`, kinds: cd, maxOps: 1, maxLook: looks, fix: true, emit: emit}
}

// unrepaired: neither the DeleteMapping repair nor the case-insensitive index key
func unrepaired(c mcfg, spell string) mcfg { c.fix = false; c.nofold = true; c.spell = spell; return c }

type genJob struct {
	name string
	c    mcfg
}

var procNames = regexp.MustCompile(`p[0-9]`)

// genTable: the generation jobs of a tier, in order (see spec/Domain.cfg).
// "legacy:" jobs follow the model of the code before the DeleteMapping repair (Fix = FALSE) or of code with a named
// deviation: on the present code they leave the schedule at the first differing step (fw.Diverged, still judged), on
// code that has the deviation they are the ones that realise
func genTable(env *fw.Env) []genJob {
	looks2f := 0
	if env.Tier == "thorough" {
		looks2f = 1
	}
	t := []genJob{
		{"gen:conc3", with(conc3(true, true, 1, 1, 0), allInvs)},
		{"gen:seq", with(seqCfg(true, true, cdu, 2, 1+looks2f, 0, 1), excusedInvs)}, // two lookups (stale registry cache) in thorough; quick has gen:shadow + extra
		{"gen:del3", with(del3(true, looks2f), allInvs)},
		{"gen:opf", with(opFault(true), allInvs)},
		{"gen:retry", with(retrying(true), allInvs)},
		{"gen:list", with(listing(true), allInvs)},
		{"gen:upd", with(updating(true, looks2f), allInvs)}, // quick: the lookups are the driver's probes after every step
		{"gen:updf", with(updFields(true, looks2f), allInvs)},
		{"gen:rdf", with(readFault(true), allInvs)},
		{"gen:shadow", with(shadow(true), excusedInvs)},
		{"gen:shadowf", with(shadowFault(true), excusedInvs)},
		{"legacy:dev:conflict-unlock", deviating(del3(true, 0), `{"conflictUnlock"}`)},
	}
	if env.Tier == "thorough" {
		listf := listing(true)
		listf.readFaults, listf.faults = true, 1
		t = append(t,
			genJob{"gen:conc2f", with(conc2(true, true, `{"n1"}`, 1, 1), allInvs)},
			genJob{"legacy:conc3", unrepaired(conc3(false, true, 1, 1, 0), "")},
			genJob{"gen:spell", with(spellCfg(true, true, 2, 2), allInvs)},
			genJob{"legacy:dev:lazy-clean", deviating(claim2(true, 1), `{"lazyClean"}`)},
			genJob{"legacy:seq", unrepaired(seqCfg(false, true, cd, 2, 1, 1, 0), `{"plain", "upper"}`)},
			genJob{"gen:conc3f", with(conc3(true, true, 1, 1, 1), allInvs)},
			genJob{"gen:conc2:2names", with(conc2(true, true, `{"n1", "n2"}`, 1, 0), allInvs)},
			genJob{"gen:seqleg", with(seqCfg(true, true, cd, 1, 3, 0, 2), excusedInvs)},
			genJob{"gen:seqf", with(seqCfg(true, true, cdu, 2, 1, 1, 0), allInvs)},
			genJob{"gen:listf", with(listf, allInvs)},
			genJob{"legacy:conc2f", unrepaired(conc2(false, true, `{"n1"}`, 1, 1), "")},
			// schedules of code with the round-3 deviations (spec/Domain_show_*.cfg are the same models with the invariants on)
			genJob{"legacy:dev:nx-release", deviating(opFault(true), `{"nxErrRelease", "nxTakenRelease"}`)},
			genJob{"legacy:dev:fall-through", deviating(shadowFault(true), `{"expiredFallsThrough", "inactiveFallsThrough", "errFallsThrough", "legacyStatusIgnored"}`)},
			genJob{"legacy:dev:list-heals", deviating(listf, `{"listHeals", "listErrPrunes"}`)},
			genJob{"legacy:dev:update-heals", deviating(updating(true, 1), `{"updateHeals"}`)},
			genJob{"legacy:dev:update-relabels", deviating(updFields(true, 0), `{"updateRelabelsDomain", "updateMovesClient"}`)},
			genJob{"legacy:dev:unguarded-delete", deviating(retrying(true), `{"unguardedIndexDelete"}`)})
	}
	return t
}

func main() {
	fw.Main(&fw.Property{
		ID:        "C19",
		DesignRef: "DESIGN.md §5 C19",
		ModelJobs: func(env *fw.Env) []fw.TLCJob {
			// exhaustive checks that are not also generation jobs (every generation job explores its whole
			// state graph - VIEW without hist - and carries the invariants itself)
			if env.Tier != "thorough" {
				return nil
			}
			guess := conc2(true, false, `{"n1"}`, 1, 1)
			guess.guess = true
			return []fw.TLCJob{
				job("mc:guess", with(guess, allInvs)),
				job("mc:conc3x2", with(conc3(true, false, 2, 0, 0), allInvs)),
				job("mc:conc2:2names", with(conc2(true, false, `{"n1", "n2"}`, 1, 1), allInvs)),
				job("mc:seq:3ops", with(seqCfg(true, false, cdu, 3, 2, 1, 0), allInvs)),
				job("mc:spell:3ops", with(spellCfg(true, false, 3, 2), allInvs)),
			}
		},
		GenJobs: func(env *fw.Env) []fw.TLCJob {
			// "legacy:" jobs follow the model of the code before the DeleteMapping repair (Fix = FALSE): on the
			// repaired code they stop being realisable at the first delete, on the unrepaired code they are the
			// ones that realise
			var jobs []fw.TLCJob
			for _, g := range genTable(env) {
				jobs = append(jobs, job(g.name, g.c))
			}
			return jobs
		},
		Expand: func(env *fw.Env, src string, raw json.RawMessage) []json.RawMessage {
			var steps []string
			if err := json.Unmarshal(raw, &steps); err != nil {
				panic(err)
			}
			var g genJob
			for _, x := range genTable(env) {
				if x.name == src {
					g = x
				}
			}
			// the pre-existing mapping, and which processes call through the command handlers, are the model's
			pre := g.c.pre
			legacy := strings.HasPrefix(src, "legacy:")
			var out []json.RawMessage
			cmd := procNames.FindAllString(handlerOf(g.c), -1)
			for ti, tier := range []string{"store", "hybrid"} {
				out = append(out, fw.MustJSON(behaviour{Kind: "sched", Tier: tier, Cmd: cmd, Late: (len(steps)+ti)%2 == 1, Pre: pre, Legacy: legacy, Steps: steps}))
			}
			return out
		},
		ExtraBeh: func(env *fw.Env) []json.RawMessage {
			var out []json.RawMessage
			nfree, nrace := 30, 400
			if env.Tier == "thorough" {
				nfree, nrace = 400, 4000
			}
			for i := 0; i < 3; i++ { // parallel legacy claims (DomainRegistry.Register), see driveRegRace
				out = append(out, fw.MustJSON(behaviour{Kind: "regrace", Tier: "store", API: "repo", Procs: 8, Ops: nrace, Seed: i}))
				out = append(out, fw.MustJSON(behaviour{Kind: "regrace", Tier: "store", API: "repo", Procs: 3, Ops: nrace, Seed: i}))
			}
			for _, tier := range []string{"store", "hybrid"} {
				out = append(out, fw.MustJSON(behaviour{Kind: "ttl", Tier: tier, API: "cmd"}))
				out = append(out, fw.MustJSON(behaviour{Kind: "ttl", Tier: tier, API: "cmd", Seed: 1})) // the expiry update of the create fails
				for _, api := range []string{"repo", "cmd"} {
					out = append(out, fw.MustJSON(behaviour{Kind: "spell", Tier: tier, API: api}))
					for i := 0; i < nfree; i++ {
						out = append(out, fw.MustJSON(behaviour{Kind: "free", Tier: tier, API: api, Procs: 6, Ops: 5, Seed: i}))
					}
				}
			}
			return out
		},
		MaxBehSrc: func(env *fw.Env, src string) int {
			if env.Tier == "quick" {
				if strings.HasPrefix(src, "legacy:") {
					return 400
				}
				if src == "gen:opf" || src == "gen:retry" || src == "gen:updf" {
					return 1500
				}
				return 600
			}
			// thorough: 16 generation jobs + 9 legacy / deviation jobs; the caps keep the whole tier (TLC, ~28k behaviours
			// on two storage tiers held in memory, one judge run over ~1.3M events) inside the 15 min budget and a few GB of memory
			switch {
			case strings.HasPrefix(src, "legacy:"):
				return 400
			case src == "gen:opf":
				return 3000
			}
			return 1500
		},
		Drive:    drive,
		Parallel: 16,
		NonTrivial: func(t *fw.Trace) bool {
			calls := 0
			for _, e := range t.Events {
				if e["ev"] == "Call" && e["op"] != "Lookup" {
					calls++
				}
			}
			return calls >= 2
		},
		SelfTest:    selfTest,
		JudgeModule: "DomainTrace",
		JudgeCfg:    "DomainTrace.cfg",
		Rule: "one behaviour per (state, storage-step) transition of Domain.tla (create/delete/update/lookup processes of two clients, " +
			"<=1 failing write, legacy mappings in the sequential configuration), forced through gates at the repository<->storage seam on the real " +
			"repository, command handlers and domain proxy, over a store double and over two real hybrid.Storage nodes; an atomic lookup of every name " +
			"after every step; a dedicated three-deleters-one-claimant job (gen:del3); schedules of code with named deviations (legacy:dev:*: a Conflict " +
			"that removes the holder's delete marker, a lookup that deletes index entries) and of the code before the repairs (legacy:*); where the real code " +
			"leaves a schedule it is still followed best-effort, finished and judged (fw.Diverged); plus a sequential Host-spelling sweep and seeded " +
			"free-running stress (create / delete / list / update / lookup); round 3: any one failing storage operation of a create or delete (gen:opf) and of " +
			"a listing, lookup or update (gen:rdf), listing and update racing the owner's delete (gen:list, gen:upd), the three lookup sources against each " +
			"other with legacy mappings of every status (gen:shadow, gen:shadowf), and expiry by the clock (a create with mapping_ttl = 1 s, requests before " +
			"and after the acknowledged expires_at, with and without a failing expiry update); non-trivial = realised with >= 2 non-lookup calls",
		Assumptions: []string{
			"the session manager, cloud control (GetPortMappingByDomain only) and the storage tiers below hybrid.Storage are doubles; tier doubles are correct maps",
			"interleavings are forced at the granularity of the repository's storage operations; interleavings inside one hybrid.Storage operation are C14's subject",
			"cache-TTL expiry and restarts of the shared cache are outside the behaviours; ids named in Delete calls were returned by a create (Guess = TRUE is model-checked only)",
			"legacy (management API) mappings are created/deleted by the driver with the registry/cloud-control effects of handlers_mapping.go",
			"storage faults are injected at the repository<->storage seam as an error return of an operation that was NOT applied; at most one per behaviour",
			"the model variant TTLRollback (adapter.CreateHTTPDomainMapping undoes a create whose expiry update failed, fix C19-3) is selected by probing the code under test; both variants are judged by the same trace clauses",
		},
		TrustedBase: []string{"TLC", "spec/DomainTrace.tla as the reading of C19", "harness/sched gate scheduler", "harness/doubles store double", "gstore seam and proxy doubles in drivers/c19"},
	})
}

// selfTest: corrupted copies of accepted traces that the judge must reject.
func selfTest(env *fw.Env, acc []*fw.Trace) []*fw.Trace {
	var out []*fw.Trace
	nextID := 1 << 20
	cp := func(t *fw.Trace) *fw.Trace {
		c := &fw.Trace{Status: fw.Realised, Beh: t.Beh}
		nextID++
		c.Beh.ID = nextID
		for _, e := range t.Events {
			ne := fw.Event{}
			for k, v := range e {
				ne[k] = v
			}
			c.Events = append(c.Events, ne)
		}
		return c
	}
	kinds := map[string]int{}
	for _, t := range acc {
		if len(out) >= 60 {
			break
		}
		// (a) a routed lookup now reaches the other client
		for i, e := range t.Events {
			if e["ev"] == "Ret" && e["op"] == "Lookup" && e["routed"] == true && kinds["a"] < 15 {
				c := cp(t)
				if c.Events[i]["c"] == int64(101) {
					c.Events[i]["c"] = int64(102)
				} else {
					c.Events[i]["c"] = int64(101)
				}
				out = append(out, c)
				kinds["a"]++
				break
			}
		}
		// (b) a refused second claim of an owned name is reported as success
		for i, e := range t.Events {
			if e["ev"] == "Ret" && e["op"] == "Create" && e["ok"] == false && kinds["b"] < 15 && strings.Contains(fmt.Sprint(e["err"]), "in use") && noDeleteBefore(t, i) && ownedBefore(t, i) {
				c := cp(t)
				c.Events[i]["ok"] = true
				c.Events[i]["id"] = "hdm_99"
				out = append(out, c)
				kinds["b"]++
				break
			}
		}
		// (c) a live mapping loses its index entry in the final store
		last := t.Events[len(t.Events)-1]
		if idx, ok := last["index"].([]any); ok && len(idx) > 0 && kinds["c"] < 15 && noDeleteBefore(t, len(t.Events)) {
			c := cp(t)
			c.Events[len(c.Events)-1]["index"] = []any{}
			out = append(out, c)
			kinds["c"]++
		}
		// (d) a lookup after the owner's delete returned still routes to the deleted mapping
		if kinds["d"] < 15 {
			if c := routeAfterDelete(t, cp); c != nil {
				out = append(out, c)
				kinds["d"]++
			}
		}
	}
	// (e) a request made after the acknowledged expiry time is routed to the expired mapping
	// (f) a request for a name with a repository owner is served by the legacy mapping of that name
	// (g) a legacy mapping that is not active routes
	for _, t := range acc {
		for _, k := range []string{"e", "f", "g"} {
			if kinds[k] < 6 {
				if c := flipRejected(t, cp, k); c != nil {
					out = append(out, c)
					kinds[k]++
				}
			}
		}
	}
	return out
}

// flipRejected: turn one rejected lookup of the trace into a routed one that the clause of `kind` forbids.
func flipRejected(t *fw.Trace, cp func(*fw.Trace) *fw.Trace, kind string) *fw.Trace {
	num := func(v any) int64 {
		switch x := v.(type) {
		case int64:
			return x
		case int:
			return int64(x)
		case float64:
			return int64(x)
		}
		return 0
	}
	type owner struct {
		c, tp any
		exp   int64
		ret   int // line of the create's Ret
	}
	creates := map[any]fw.Event{} // call -> Call event
	owners := map[any]owner{}    // name -> acknowledged repository owner
	legs := map[any]fw.Event{}    // name -> LegCreate
	calls := map[any]fw.Event{}   // lookup call -> Call event
	callAt := map[any]int{}
	for i, e := range t.Events {
		switch {
		case e["ev"] == "Call" && (e["op"] == "Delete" || e["op"] == "Update"):
			if kind != "g" {
				return nil // keep it simple: histories without deletes / updates only (kind e, f)
			}
		case e["ev"] == "LegDelete":
			return nil
		case e["ev"] == "Call" && e["op"] == "Create":
			creates[e["p"]] = e
		case e["ev"] == "Ret" && e["op"] == "Create" && e["ok"] == true:
			ce := creates[e["p"]]
			owners[ce["name"]] = owner{ce["c"], ce["tp"], num(e["exp"]), i}
		case e["ev"] == "LegCreate":
			legs[e["name"]] = e
		case e["ev"] == "Call" && e["op"] == "Lookup":
			calls[e["p"]] = e
			callAt[e["p"]] = i
		case e["ev"] == "Ret" && e["op"] == "Lookup" && e["routed"] == false:
			q := calls[e["p"]]
			name := q["name"]
			o, owned := owners[name]
			owned = owned && o.ret < callAt[e["p"]]
			lg, hasLeg := legs[name]
			route := func(c, tp any) *fw.Trace {
				n := cp(t)
				n.Events[i]["routed"], n.Events[i]["c"], n.Events[i]["tp"] = true, c, tp
				return n
			}
			switch kind {
			case "e":
				if owned && o.exp != 0 && num(q["now"]) > o.exp {
					return route(o.c, o.tp)
				}
			case "f":
				if owned && hasLeg {
					return route(lg["c"], lg["tp"])
				}
			case "g":
				if !owned && hasLeg && lg["st"] != "active" && lg["st"] != nil {
					return route(lg["c"], lg["tp"])
				}
			}
		}
	}
	return nil
}

// ownedBefore: the name claimed by the create that returns at line i is owned by a create that had
// already returned success (single-name traces only, so that the names need not be compared)
func ownedBefore(t *fw.Trace, i int) bool {
	names := map[any]bool{}
	okBefore := false
	for j, e := range t.Events {
		if e["ev"] == "Call" && e["op"] == "Create" {
			names[e["name"]] = true
		}
		if j < i && e["ev"] == "Ret" && e["op"] == "Create" && e["ok"] == true {
			okBefore = true
		}
	}
	return okBefore && len(names) == 1
}

func noDeleteBefore(t *fw.Trace, i int) bool {
	for _, e := range t.Events[:i] {
		if e["ev"] == "Call" && e["op"] == "Delete" {
			return false
		}
	}
	return true
}

// routeAfterDelete: find create(ok) ... delete(ok, by the owner, wholly after) ... rejected lookup of that
// name afterwards, with no other create of the name in the trace; make the lookup route to the deleted mapping.
func routeAfterDelete(t *fw.Trace, cp func(*fw.Trace) *fw.Trace) *fw.Trace {
	type cinfo struct {
		c    any
		name any
		tp   any
	}
	calls := map[any]cinfo{}
	nCreates := 0
	var victim *cinfo
	var vid any
	delCall := map[any]any{}
	delBy := map[any]any{}
	createRet := -1
	for i, e := range t.Events {
		switch {
		case e["ev"] == "Call" && e["op"] == "Create":
			calls[e["p"]] = cinfo{e["c"], e["name"], e["tp"]}
			nCreates++
		case e["ev"] == "Ret" && e["op"] == "Create" && e["ok"] == true && victim == nil:
			ci := calls[e["p"]]
			victim, vid = &ci, e["id"]
			createRet = i
		case e["ev"] == "Call" && e["op"] == "Delete":
			if createRet >= 0 { // only deletes called after the create had returned count as surely effective
				delCall[e["p"]] = e["id"]
				delBy[e["p"]] = e["c"]
			}
		case e["ev"] == "Ret" && e["op"] == "Delete" && e["ok"] == true && victim != nil && delCall[e["p"]] == vid && delBy[e["p"]] == victim.c && nCreates == 1:
			for j := i + 1; j < len(t.Events); j++ {
				f := t.Events[j]
				if f["ev"] == "Call" && f["op"] == "Create" {
					return nil
				}
				if f["ev"] == "Ret" && f["op"] == "Lookup" && f["routed"] == false {
					// its Call line must come after the delete returned
					for k := j - 1; k > i; k-- {
						if t.Events[k]["ev"] == "Call" && t.Events[k]["p"] == f["p"] && t.Events[k]["name"] == victim.name {
							c := cp(t)
							c.Events[j]["routed"] = true
							c.Events[j]["c"] = victim.c
							c.Events[j]["tp"] = victim.tp
							return c
						}
					}
				}
			}
		}
	}
	return nil
}
