// C03 driver: replays TLC-generated handshake message sequences (spec/Session.tla,
// Session_c03*.cfg: first-connect, phase 1 for any id, phase 2 with valid-latest / valid-stale /
// foreign-key / empty-key / superseded-key / garbage responses, control and tunnel connection
// types, bans, black- and whitelist entries of every shape, the IPManager re-created from the
// shared storage, undecryptable and reset stored secrets, credential expiry) on the real
// ServerAuthHandler + SessionManager + BuiltinCloudControl assembled by srvkit. The driver keeps the secrets handed out by first-connect and computes
// real HMACs to realise every response class; after every message it logs the handshake
// response read back from the connection, IsAuthenticated()/GetClientID() of every connection
// and GetControlConnectionByClientID of every client for the judge (spec/SessionTrace.tla).
package main

import (
	"encoding/json"
	"fmt"
	"hash/fnv"
	"net"
	"reflect"
	"runtime"
	"sort"
	"strconv"
	"strings"
	"sync"
	"sync/atomic"
	"time"

	"tunnox-core/internal/packet"
	"tunnox-core/internal/security"
	"tunnox-core/internal/verifhook"
	"tunnox-core/verifharness/fw"
	"tunnox-core/verifharness/srvkit"
)

const maxFail = 3 // Session_c03*.cfg MaxFail: failures before the brute-force protector bans an address

type expT struct {
	Auth map[string]string `json:"auth"`
	Idx  map[string]string `json:"idx"`
	Reg  []string          `json:"reg"`
	Sess []string          `json:"sess"`
	Tcl  []string          `json:"tcl"`
	Bf   struct {          // protector configuration of the modelled server
		Max  int `json:"max"`  // MaxFailures
		Perm int `json:"perm"` // PermanentBanAt (0 = out of reach)
	} `json:"bf"`
}

// bfConfig is the protector configuration a behaviour asks for (its first projection carries it); the clean-up
// ticker never fires on its own inside a behaviour - the model's Cleanup action runs the pass.
func bfConfig(e *expT) *security.BruteForceConfig {
	c := &security.BruteForceConfig{MaxFailures: maxFail, TimeWindow: time.Hour, BanDuration: time.Hour,
		PermanentBanAt: 1000, CleanupInterval: time.Hour}
	if e != nil && e.Bf.Max > 0 {
		c.MaxFailures = e.Bf.Max
	}
	if e != nil && e.Bf.Perm > 0 {
		c.PermanentBanAt = e.Bf.Perm
	}
	return c
}

// banRecord is the protector's own record for ip (nil if it has none), read without side effects.
func banRecord(s *srvkit.Server, ip string) *security.BanRecord {
	for _, r := range s.Brute.GetBannedIPs() {
		if r.IP == ip {
			return r
		}
	}
	return nil
}

// newBan tells whether the protector declared ip banned between the two readings: "perm" (no expiry date), "temp"
// (an expiry date well beyond the behaviour), "none" (no new record, or one that does not outlast the behaviour).
func newBan(before, after *security.BanRecord) string {
	if after == nil || (before != nil && before.BannedAt.Equal(after.BannedAt) && before.ExpiresAt.Equal(after.ExpiresAt)) {
		return "none"
	}
	if after.ExpiresAt.IsZero() {
		return "perm"
	}
	if time.Until(after.ExpiresAt) > 10*time.Minute {
		return "temp"
	}
	return "none"
}

type opT struct {
	Op   string `json:"op"`
	C    string `json:"c"`
	K    string `json:"k"`
	ID   string `json:"id"`
	Resp string `json:"resp"`
	Type string `json:"type"`
	Out  string `json:"out"`
	How  string `json:"how"` // Blacklist: "temp" | "perm" | "cidr"; Whitelist: "exact" | "cidr"; Corrupt: record shape; Reload: store shape
	Exp  *expT  `json:"exp"`
}

func keys(m map[string]string) []string {
	out := make([]string, 0, len(m))
	for k := range m {
		out = append(out, k)
	}
	sort.Strings(out)
	return out
}

var bindingMismatch, bindingSteps atomic.Int64

type runner struct {
	w      *srvkit.World
	nonces map[string][]string // per connection: challenges received, in order (index = position + 1)
	oldKey map[string]string   // per client: the secret that a reset replaced (the first holder still has it)
	form   string              // peer address form of the behaviour's transports ("" = "v4")
}

// peer is the address the transport of the i-th connection reports, and the plain address list / ban entries name.
func peer(form string, i int) (net.Addr, string) {
	port := 40000 + i
	switch form {
	case "v6":
		ip := fmt.Sprintf("2001:db8::%x", i+1)
		return &net.TCPAddr{IP: net.ParseIP(ip), Port: port}, ip
	case "v6zone":
		ip := fmt.Sprintf("fe80::%x", i+1)
		return &net.TCPAddr{IP: net.ParseIP(ip), Port: port, Zone: "eth0"}, ip
	case "v4mapped":
		ip := fmt.Sprintf("10.9.0.%d", i+1)
		return &net.TCPAddr{IP: net.ParseIP("::ffff:" + ip), Port: port}, ip
	case "udp4":
		ip := fmt.Sprintf("10.9.0.%d", i+1)
		return &net.UDPAddr{IP: net.ParseIP(ip).To4(), Port: port}, ip
	case "udp6zone":
		ip := fmt.Sprintf("fe80::%x", i+1)
		return &net.UDPAddr{IP: net.ParseIP(ip), Port: port, Zone: "eth0"}, ip
	}
	ip := fmt.Sprintf("10.9.0.%d", i+1)
	return &net.TCPAddr{IP: net.ParseIP(ip), Port: port}, ip
}

// ip is the plain address of the named connection (what the operator puts on a list); rangeOf a range covering just it.
func (r *runner) ip(name string) string {
	for i, n := range r.w.ConnNames {
		if n == name {
			_, ip := peer(r.form, i)
			return ip
		}
	}
	return "10.9.250.1"
}

func rangeOf(ip string) string {
	if strings.Contains(ip, ":") {
		return ip + "/128"
	}
	return ip + "/32"
}

func (r *runner) nonceIndex(c, ch string) int {
	for i, n := range r.nonces[c] {
		if n == ch {
			return i + 1 // the server re-issued an old challenge: same nonce, same index
		}
	}
	r.nonces[c] = append(r.nonces[c], ch)
	return len(r.nonces[c])
}

func (r *runner) post() map[string]any {
	w := r.w
	conns := map[string]any{}
	for _, n := range w.ConnNames {
		v := w.S.View(w.Conn(n))
		cid := "none"
		if v.InControl {
			cid = w.ClientName(v.ClientID)
		}
		// rawcid: the identity the connection object carries whether or not it is authenticated (what consumers of
		// GetClientID / GetClientIDByConnectionID see)
		raw := "none"
		if v.ClientID != 0 {
			raw = w.ClientName(v.ClientID)
		} else if v.ClientOf != 0 {
			raw = w.ClientName(v.ClientOf)
		}
		conns[n] = map[string]any{"authd": v.Authd, "cid": cid, "rawcid": raw}
	}
	lookup := map[string]any{}
	for _, x := range w.ClientNames {
		lv := w.S.LookupView(w.ClientID(x))
		lookup[x] = w.ConnName(lv.ConnID)
	}
	return map[string]any{"conns": conns, "lookup": lookup}
}

// binding: does the real state equal the state the implementation-shaped model predicts?
func (r *runner) binding(o opT, outClass string, post map[string]any) bool {
	if o.Exp == nil {
		return true
	}
	if o.Op == "Msg" && o.Out != outClass {
		return false
	}
	conns := post["conns"].(map[string]any)
	for c, want := range o.Exp.Auth {
		m := conns[c].(map[string]any)
		got := "none"
		if m["authd"].(bool) {
			got = m["cid"].(string)
		}
		if got != want {
			return false
		}
	}
	for x, want := range o.Exp.Idx {
		if post["lookup"].(map[string]any)[x].(string) != want {
			return false
		}
	}
	var reg, sess, tcl []string
	for _, n := range r.w.ConnNames {
		v := r.w.S.View(r.w.Conn(n))
		if v.InControl {
			reg = append(reg, n)
		}
		if v.InSession {
			sess = append(sess, n)
		}
		if v.Closed {
			tcl = append(tcl, n)
		}
	}
	eq := func(a, b []string) bool {
		a, b = append([]string{}, a...), append([]string{}, b...)
		sort.Strings(a)
		sort.Strings(b)
		return reflect.DeepEqual(a, b)
	}
	return eq(reg, o.Exp.Reg) && eq(sess, o.Exp.Sess) && eq(tcl, o.Exp.Tcl)
}

const garbage = "00112233445566778899aabbccddeeff00112233445566778899aabbccddeeff"

// msg sends one handshake message of the given class; ev == nil: not realisable in the real state.
func (r *runner) msg(o opT) (fw.Event, string, string) {
	w := r.w
	c := w.Conn(o.C)
	if c == nil {
		return nil, "", "unknown connection " + o.C
	}
	if c.Closed() {
		return nil, "", "the server closed " + o.C + " earlier than the model expects"
	}
	ev := fw.Event{"ev": "Msg", "c": o.C, "k": o.K, "id": o.ID, "type": o.Type, "key": "garbage", "over": 0}
	banBefore := banRecord(w.S, r.ip(o.C))
	var resp *packet.HandshakeResponse
	var err error
	newid := "none"
	switch o.K {
	case "FC":
		var id int64
		var secret string
		id, secret, resp, err = c.FirstConnect(o.Type)
		if err == nil && id != 0 {
			newid = w.AddClient(id, secret)
		}
	case "P1":
		_, resp, err = c.Phase1(w.ClientID(o.ID), o.Type)
	case "P2":
		n := len(r.nonces[o.C])
		response := garbage
		switch o.Resp {
		case "ValidLatest", "ValidStale":
			cred := w.Cred(o.ID)
			over := n
			if o.Resp == "ValidStale" {
				over = n - 1
			}
			if cred == nil || over < 1 {
				return nil, "", "response class " + o.Resp + " needs an issued identity and enough challenges (model and server disagree)"
			}
			response = srvkit.HMAC(cred.Secret, r.nonces[o.C][over-1])
			ev["key"], ev["over"] = o.ID, over
		case "ForeignKey":
			other := ""
			for _, x := range w.ClientNames {
				if x != o.ID && w.Cred(x) != nil {
					other = x
					break
				}
			}
			if other == "" || n < 1 {
				return nil, "", "no foreign key / challenge available (model and server disagree)"
			}
			response = srvkit.HMAC(w.Cred(other).Secret, r.nonces[o.C][n-1])
			ev["key"], ev["over"] = other, n
		case "OldKey":
			// the key that was handed out first and has been reset since: not the stored secret any more
			old := r.oldKey[o.ID]
			if old == "" || n < 1 {
				return nil, "", "no superseded key / challenge available (model and server disagree)"
			}
			response = srvkit.HMAC(old, r.nonces[o.C][n-1])
			ev["key"], ev["over"] = "old", n
		case "EmptyKey":
			// what anybody who saw the challenge can compute: the HMAC under the empty key
			if n < 1 {
				return nil, "", "no challenge available (model and server disagree)"
			}
			response = srvkit.HMAC("", r.nonces[o.C][n-1])
			ev["key"], ev["over"] = "empty", n
		}
		resp, err = c.Phase2(w.ClientID(o.ID), response, o.Type)
	default:
		return nil, "", "unknown message kind " + o.K
	}
	if err != nil {
		return nil, "", err.Error()
	}
	out := map[string]any{"got": resp != nil, "success": false, "need": false, "newid": newid, "nonce": 0}
	class := "fail"
	if resp != nil {
		out["success"], out["need"] = resp.Success, resp.NeedResponse && !resp.Success
		if resp.Challenge != "" {
			out["nonce"] = r.nonceIndex(o.C, resp.Challenge)
		}
		if resp.Success {
			class = "ok"
		} else if resp.NeedResponse {
			class = "chal"
		}
	}
	ev["out"] = out
	ev["newban"] = newBan(banBefore, banRecord(w.S, r.ip(o.C))) // did the protector ban the address on this message?
	w.S.Reap()
	ev["post"] = r.post()
	return ev, class, ""
}

// shapeOf picks the value shape of the shared store for a behaviour that does not name one: half
// of the behaviours see byte values, half string values (stable per behaviour).
func shapeOf(data []byte) string {
	h := fnv.New32a()
	h.Write(data)
	if h.Sum32()%2 == 0 {
		return "bytes"
	}
	return "string"
}

func drive(env *fw.Env, b fw.Behaviour) *fw.Trace {
	if len(b.Data) > 0 && b.Data[0] == '{' {
		return driveCleanupRace(env, b)
	}
	var ops []opT
	if err := json.Unmarshal(b.Data, &ops); err != nil {
		return &fw.Trace{Status: fw.DriverError, Note: err.Error()}
	}
	if len(ops) == 0 || ops[0].Exp == nil {
		return &fw.Trace{Status: fw.DriverError, Note: "behaviour without model projection"}
	}
	s, err := srvkit.NewServer(srvkit.Options{HeartbeatTimeout: time.Hour, CleanupInterval: time.Hour, BruteForce: bfConfig(ops[0].Exp)})
	if err != nil {
		return &fw.Trace{Status: fw.DriverError, Note: err.Error()}
	}
	defer s.Close()
	r := &runner{w: srvkit.NewWorld(s, keys(ops[0].Exp.Auth), keys(ops[0].Exp.Idx)), nonces: map[string][]string{}, oldKey: map[string]string{}}
	if ops[0].Op == "Form" { // the address form is chosen before the connections exist
		r.form = ops[0].How
	}
	for i, n := range r.w.ConnNames { // Session_c03*.cfg: PreAccept = TRUE
		addr, ip := peer(r.form, i)
		if _, err := r.w.AcceptAddr(n, addr, ip); err != nil {
			return &fw.Trace{Status: fw.DriverError, Note: err.Error()}
		}
	}
	t := &fw.Trace{Status: fw.Realised}
	mism := 0
	for i, o := range ops {
		var ev fw.Event
		class := ""
		switch o.Op {
		case "Msg":
			var why string
			ev, class, why = r.msg(o)
			if ev == nil {
				t.Note = fmt.Sprintf("stopped before step %d (%s %s): %s", i+1, o.K, o.Resp, why)
			}
		case "Ban":
			// the operator's BanIP: temporary (outlasts the behaviour), permanent (duration 0), or a temporary ban
			// that has run out by the time anything else happens (nobody asks IsBanned in between: the record stays)
			how := o.How
			switch how {
			case "", "temp":
				how = "temp"
				s.Ban(r.ip(o.C), time.Hour)
			case "perm":
				s.Ban(r.ip(o.C), 0)
			case "lapsed":
				const brief = 30 * time.Millisecond
				s.Ban(r.ip(o.C), brief)
				time.Sleep(3 * brief)
				if rec := banRecord(s, r.ip(o.C)); rec != nil && !time.Now().After(rec.ExpiresAt) {
					return &fw.Trace{Status: fw.DriverError, Note: "a 30 ms ban is still running after 90 ms"}
				}
			default:
				return &fw.Trace{Status: fw.DriverError, Note: "unknown ban kind " + how}
			}
			ev = fw.Event{"ev": "Env", "k": "Ban", "c": o.C, "id": "none", "how": how}
		case "Unban":
			s.Brute.UnbanIP(r.ip(o.C))
			ev = fw.Event{"ev": "Env", "k": "Unban", "c": o.C, "id": "none"}
		case "Cleanup":
			// one tick of the two background clean-ups (what their one-minute tickers run)
			s.Brute.VerifCleanup()
			s.IPs.VerifCleanup()
			ev = fw.Event{"ev": "Env", "k": "Cleanup", "c": "none", "id": "none"}
		case "Blacklist":
			// temporary entry (does not run out within the behaviour), permanent entry (duration 0),
			// permanent range entry covering exactly this address
			ip, d := r.ip(o.C), time.Duration(0)
			switch o.How {
			case "temp", "":
				d = time.Hour
			case "cidr":
				ip = rangeOf(ip)
			}
			if err := s.Blacklist(ip, d); err != nil {
				return &fw.Trace{Status: fw.DriverError, Note: err.Error()}
			}
			ev = fw.Event{"ev": "Env", "k": "Blacklist", "c": o.C, "id": "none", "how": o.How}
		case "Form":
			if i != 0 {
				return &fw.Trace{Status: fw.DriverError, Note: "Form is not the first operation"}
			}
			ev = fw.Event{"ev": "Env", "k": "Form", "c": "none", "id": "none", "how": o.How}
		case "Whitelist":
			ip := r.ip(o.C)
			if o.How == "cidr" {
				ip = rangeOf(ip)
			}
			if err := s.Whitelist(ip); err != nil {
				return &fw.Trace{Status: fw.DriverError, Note: err.Error()}
			}
			ev = fw.Event{"ev": "Env", "k": "Whitelist", "c": o.C, "id": "none", "how": o.How}
		case "Reload":
			// restart / another node: the IPManager is re-created from the shared storage, which hands
			// the records back as written (memory backend) or as strings (Redis-like backend)
			shape := o.How
			if shape == "" {
				shape = shapeOf(b.Data)
			}
			if err := s.ReloadIPManagerShape(shape); err != nil {
				return &fw.Trace{Status: fw.DriverError, Note: err.Error()}
			}
			ev = fw.Event{"ev": "Env", "k": "Reload", "c": "none", "id": "none", "how": shape}
		case "Corrupt":
			cred := r.w.Cred(o.ID)
			if cred == nil {
				t.Note = fmt.Sprintf("stopped before step %d: Corrupt of an identity the server never issued", i+1)
				break
			}
			if err := s.CorruptStoredSecretAs(cred.ID, o.How); err != nil {
				return &fw.Trace{Status: fw.DriverError, Note: err.Error()}
			}
			ev = fw.Event{"ev": "Env", "k": "Corrupt", "c": "none", "id": o.ID, "how": o.How}
		case "Rekey":
			cred := r.w.Cred(o.ID)
			if cred == nil {
				t.Note = fmt.Sprintf("stopped before step %d: Rekey of an identity the server never issued", i+1)
				break
			}
			fresh, err := s.ResetSecret(cred.ID)
			if err != nil || fresh == "" {
				return &fw.Trace{Status: fw.DriverError, Note: fmt.Sprintf("Rekey: %v", err)}
			}
			r.oldKey[o.ID] = r.w.SetSecret(o.ID, fresh)
			ev = fw.Event{"ev": "Env", "k": "Rekey", "c": "none", "id": o.ID}
		case "Delete":
			cred := r.w.Cred(o.ID)
			if cred == nil {
				t.Note = fmt.Sprintf("stopped before step %d: Delete of an identity the server never issued", i+1)
				break
			}
			if err := s.DeleteClient(cred.ID); err != nil {
				return &fw.Trace{Status: fw.DriverError, Note: "Delete: " + err.Error()}
			}
			ev = fw.Event{"ev": "Env", "k": "Delete", "c": "none", "id": o.ID}
		case "Expire", "Bind":
			cred := r.w.Cred(o.ID)
			if cred == nil {
				t.Note = fmt.Sprintf("stopped before step %d: %s of an identity the server never issued", i+1, o.Op)
				break
			}
			// through the real client service: ExtendExpiration with a negative number of days puts
			// the stored expiry date into the past (bound and unbound clients alike); BindToUser
			// binds the client to a user and clears the date
			var err error
			if o.Op == "Expire" {
				err = s.ExtendExpiration(cred.ID, -2)
			} else {
				err = s.BindToUser(cred.ID, "user-"+o.ID)
			}
			if err != nil {
				return &fw.Trace{Status: fw.DriverError, Note: o.Op + ": " + err.Error()}
			}
			_, past, err := s.CredentialState(cred.ID)
			if err != nil {
				return &fw.Trace{Status: fw.DriverError, Note: err.Error()}
			}
			ev = fw.Event{"ev": "Env", "k": o.Op, "c": "none", "id": o.ID, "isexp": past}
		default:
			return &fw.Trace{Status: fw.DriverError, Note: "unknown operation " + o.Op}
		}
		if ev == nil {
			break
		}
		bindingSteps.Add(1)
		post, _ := ev["post"].(map[string]any)
		if post == nil {
			post = r.post()
		}
		if !r.binding(o, class, post) {
			mism++
		}
		t.Events = append(t.Events, ev)
	}
	if mism > 0 {
		bindingMismatch.Add(1)
		t.Note += fmt.Sprintf(" [binding: %d steps differ from the model]", mism)
	}
	if len(t.Events) == 0 {
		return &fw.Trace{Status: fw.Unrealisable, Note: t.Note}
	}
	return t
}

// ---------------------------------------------------------------------------------------------
// the protector's periodic clean-up pass interleaved with a fresh ban (DESIGN.md C18 shares the
// yield point): "clean-up scanned . address banned again . clean-up removes" and then a handshake
// from that address, which the statement says must be refused.

var (
	gateArmed atomic.Int32
	gates     sync.Map // goroutine id -> *gate
)

type gate struct {
	parked  chan struct{}
	release chan struct{}
	once    sync.Once
}

func curGid() int64 {
	var buf [64]byte
	n := runtime.Stack(buf[:], false)
	f := strings.Fields(string(buf[:n])) // "goroutine 123 [running]:"
	if len(f) < 2 {
		return -1
	}
	id, _ := strconv.ParseInt(f[1], 10, 64)
	return id
}

// hook is the process-wide verifhook handler: only goroutines that registered a gate park, and only
// at the entry of the unban (the protector's lazy unban and the clean-up pass go through it).
func hook(name string, _ any) {
	if name != "bf.unban.enter" || gateArmed.Load() == 0 {
		return
	}
	if g, ok := gates.Load(curGid()); ok {
		gt := g.(*gate)
		gt.once.Do(func() { close(gt.parked) })
		<-gt.release
	}
}

type raceT struct {
	Race  string `json:"race"`
	Order string `json:"order"` // "interleaved": ban lands between scan and removal; "sequential": after the pass
	Kind  string `json:"kind"`  // handshake that follows: "FC" or "P2"
}

func driveCleanupRace(env *fw.Env, b fw.Behaviour) *fw.Trace {
	var rc raceT
	if err := json.Unmarshal(b.Data, &rc); err != nil {
		return &fw.Trace{Status: fw.DriverError, Note: err.Error()}
	}
	s, err := srvkit.NewServer(srvkit.Options{HeartbeatTimeout: time.Hour, CleanupInterval: time.Hour,
		BruteForce: &security.BruteForceConfig{MaxFailures: maxFail, TimeWindow: time.Hour, BanDuration: time.Hour,
			PermanentBanAt: 1000, CleanupInterval: time.Hour}})
	if err != nil {
		return &fw.Trace{Status: fw.DriverError, Note: err.Error()}
	}
	defer s.Close()
	r := &runner{w: srvkit.NewWorld(s, []string{"c1", "c2"}, []string{"A", "B"}), nonces: map[string][]string{}, oldKey: map[string]string{}}
	for _, n := range r.w.ConnNames {
		if _, err := r.w.Accept(n); err != nil {
			return &fw.Trace{Status: fw.DriverError, Note: err.Error()}
		}
	}
	t := &fw.Trace{Status: fw.Realised}
	add := func(ev fw.Event, why string) bool {
		if ev == nil {
			t.Status, t.Note = fw.DriverError, why
			return false
		}
		t.Events = append(t.Events, ev)
		return true
	}
	// an identity for the challenge-response variant, issued on c2 (another address)
	if ev, _, why := r.msg(opT{Op: "Msg", C: "c2", K: "FC", ID: "none", Type: "control"}); !add(ev, why) {
		return t
	}
	ip := r.ip("c1")
	// an old temporary ban of c1's address whose duration has run out; nobody asked IsBanned since,
	// so the record is still in the table (3x margin on the duration)
	const oldBan = 40 * time.Millisecond
	s.Ban(ip, oldBan)
	time.Sleep(3 * oldBan)
	// the clean-up pass on its own goroutine, stopped at the entry of the removal (if it gets there:
	// a pass that removes expired entries under the scan's own lock never does)
	g := &gate{parked: make(chan struct{}), release: make(chan struct{})}
	done := make(chan struct{})
	gateArmed.Add(1)
	defer gateArmed.Add(-1)
	go func() {
		defer close(done)
		gid := curGid()
		gates.Store(gid, g)
		defer gates.Delete(gid)
		s.Brute.VerifCleanup()
	}()
	released := false
	release := func() {
		if !released {
			released = true
			close(g.release)
		}
	}
	defer release()
	if rc.Order == "interleaved" {
		select {
		case <-g.parked:
		case <-done:
		case <-time.After(5 * time.Second):
			return &fw.Trace{Status: fw.Inconclusive, Note: "clean-up pass neither parked nor finished"}
		}
	} else {
		release()
		select {
		case <-done:
		case <-time.After(5 * time.Second):
			return &fw.Trace{Status: fw.Inconclusive, Note: "clean-up pass did not finish"}
		}
	}
	t.Events = append(t.Events, fw.Event{"ev": "Env", "k": "CleanupScanned", "c": "c1", "id": "none"})
	// the address is banned again (operator ban / threshold reached): in force from now on
	s.Ban(ip, time.Hour)
	t.Events = append(t.Events, fw.Event{"ev": "Env", "k": "Ban", "c": "c1", "id": "none", "how": "temp"})
	release()
	select {
	case <-done:
	case <-time.After(5 * time.Second):
		return &fw.Trace{Status: fw.Inconclusive, Note: "clean-up pass did not finish"}
	}
	t.Events = append(t.Events, fw.Event{"ev": "Env", "k": "CleanupDone", "c": "c1", "id": "none"})
	// handshakes from the banned address
	if rc.Kind == "FC" {
		ev, _, why := r.msg(opT{Op: "Msg", C: "c1", K: "FC", ID: "none", Type: "control"})
		add(ev, why)
		return t
	}
	if ev, _, why := r.msg(opT{Op: "Msg", C: "c1", K: "P1", ID: "A", Type: "control"}); !add(ev, why) {
		return t
	}
	if len(r.nonces["c1"]) > 0 { // only a server that (wrongly) issued a challenge can be answered
		ev, _, why := r.msg(opT{Op: "Msg", C: "c1", K: "P2", ID: "A", Resp: "ValidLatest", Type: "control"})
		add(ev, why)
	}
	return t
}

func raceBehaviours(env *fw.Env) []json.RawMessage {
	var out []json.RawMessage
	for _, o := range []string{"interleaved", "sequential"} {
		for _, k := range []string{"FC", "P2"} {
			out = append(out, fw.MustJSON(raceT{Race: "cleanup-vs-ban", Order: o, Kind: k}))
		}
	}
	return out
}

func clone(t *fw.Trace, id int) *fw.Trace {
	var evs []fw.Event
	if err := json.Unmarshal(fw.MustJSON(t.Events), &evs); err != nil {
		panic(err)
	}
	return &fw.Trace{Beh: fw.Behaviour{ID: id, Src: "selftest", Data: t.Beh.Data}, Status: fw.Realised, Events: evs}
}

// selfTest corrupts accepted traces; every corruption contradicts the C03 statement.
func selfTest(env *fw.Env, acc []*fw.Trace) []*fw.Trace {
	var out []*fw.Trace
	id := 9000000
	count := map[int]int{}
	add := func(kind int, t *fw.Trace, f func(evs []fw.Event) []fw.Event) {
		if count[kind] >= 6 {
			return
		}
		count[kind]++
		id++
		c := clone(t, id)
		c.Events = f(c.Events)
		out = append(out, c)
	}
	for _, t := range acc {
		done := map[int]bool{}
		bl, wl := map[string]bool{}, map[string]bool{} // addresses on the blacklist / on the whitelist so far
		ban := map[string]bool{}                       // addresses with a ban in force (made by the operator or by the protector itself)
		for i, e := range t.Events {
			if e["ev"] == "Env" {
				c, _ := e["c"].(string)
				switch e["k"] {
				case "Blacklist":
					bl[c] = true
				case "Whitelist":
					wl[c] = true
				case "Ban":
					if e["how"] != "lapsed" {
						ban[c] = true
					}
				case "Unban":
					delete(ban, c)
				}
			}
			if e["ev"] != "Msg" {
				continue
			}
			// 8. a refused message leaves an identity nobody proved on an unauthenticated connection
			if !done[8] && !e["out"].(map[string]any)["success"].(bool) {
				for cn, v := range e["post"].(map[string]any)["conns"].(map[string]any) {
					if m := v.(map[string]any); m["authd"] == false && m["rawcid"] == "none" {
						done[8] = true
						add(8, t, func(evs []fw.Event) []fw.Event {
							evs[i]["post"].(map[string]any)["conns"].(map[string]any)[cn].(map[string]any)["rawcid"] = "Z"
							return evs
						})
						break
					}
				}
			}
			// 7. a legal re-handshake of an authenticated connection (phase 1 for its own id, then the right response)
			// turned into a phase 2 that names another known client under that client's own key: the connection
			// flips to that client and becomes its control channel
			if post, _ := e["post"].(map[string]any); !done[7] && post != nil && e["out"].(map[string]any)["success"].(bool) && e["k"] == "P2" && e["key"] == e["id"] && i > 0 {
				c, _ := e["c"].(string)
				x, _ := e["id"].(string)
				prev, _ := t.Events[i-1]["post"].(map[string]any)
				y := ""
				for n := range post["lookup"].(map[string]any) {
					if n != x && issuedBefore(t.Events[:i], n) {
						y = n
					}
				}
				if prev != nil && y != "" && authedAs(prev, c, x) && challengeFor(t.Events[:i], c, e["over"], x) {
					done[7] = true
					add(7, t, func(evs []fw.Event) []fw.Event {
						evs[i]["id"], evs[i]["key"] = y, y
						p := evs[i]["post"].(map[string]any)
						p["conns"].(map[string]any)[c].(map[string]any)["cid"] = y
						p["lookup"].(map[string]any)[y] = c
						return evs
					})
				}
			}
			// 6. a handshake from a banned address (whatever made the ban, before or after a clean-up tick) reported
			// as successful
			if c, _ := e["c"].(string); !done[6] && ban[c] && !e["out"].(map[string]any)["success"].(bool) {
				done[6] = true
				add(6, t, func(evs []fw.Event) []fw.Event {
					evs[i]["out"].(map[string]any)["success"] = true
					return evs
				})
			}
			if nb, _ := e["newban"].(string); nb == "temp" || nb == "perm" {
				ban[e["c"].(string)] = true
			}
			// 5. a handshake from a blacklisted address (whatever the shape of the entry, before or after a
			// restart) reported as successful
			if c, _ := e["c"].(string); !done[5] && bl[c] && !wl[c] && !e["out"].(map[string]any)["success"].(bool) {
				done[5] = true
				add(5, t, func(evs []fw.Event) []fw.Event {
					evs[i]["out"].(map[string]any)["success"] = true
					return evs
				})
			}
			o := e["out"].(map[string]any)
			post := e["post"].(map[string]any)
			succ := o["success"].(bool)
			// 1. a refused wrong-key / garbage response reported as accepted
			if !done[1] && !succ && e["k"] == "P2" && e["key"] != e["id"] {
				done[1] = true
				add(1, t, func(evs []fw.Event) []fw.Event {
					evs[i]["out"].(map[string]any)["success"] = true
					return evs
				})
			}
			// 2. a connection shows up authenticated as somebody nobody proved
			if !done[2] && !succ {
				done[2] = true
				add(2, t, func(evs []fw.Event) []fw.Event {
					for _, v := range evs[i]["post"].(map[string]any)["conns"].(map[string]any) {
						m := v.(map[string]any)
						m["authd"], m["cid"] = true, "Z"
						break
					}
					return evs
				})
			}
			// 3. a failed message installs another connection as a client's control channel
			if !done[3] && !succ {
				for x, v := range post["lookup"].(map[string]any) {
					if v == "none" {
						done[3] = true
						add(3, t, func(evs []fw.Event) []fw.Event {
							other := "c1"
							if evs[i]["c"] == "c1" {
								other = "c2"
							}
							evs[i]["post"].(map[string]any)["lookup"].(map[string]any)[x] = other
							return evs
						})
						break
					}
				}
			}
			// 4. the challenge a successful response answered was never issued (event dropped)
			if !done[4] && succ && e["k"] == "P2" {
				for j := i - 1; j >= 0; j-- {
					pj, _ := t.Events[j]["out"].(map[string]any)
					if pj != nil && t.Events[j]["c"] == e["c"] && pj["nonce"] == e["over"] {
						done[4] = true
						add(4, t, func(evs []fw.Event) []fw.Event { return append(evs[:j:j], evs[j+1:]...) })
						break
					}
				}
			}
		}
		if len(out) >= 48 {
			break
		}
	}
	return out
}

// helpers of selfTest over recorded events
func issuedBefore(evs []fw.Event, name string) bool {
	for _, e := range evs {
		if o, _ := e["out"].(map[string]any); o != nil && o["newid"] == name {
			return true
		}
	}
	return false
}

func authedAs(post map[string]any, c, x string) bool {
	m, _ := post["conns"].(map[string]any)[c].(map[string]any)
	return m != nil && m["authd"] == true && m["cid"] == x
}

func challengeFor(evs []fw.Event, c string, over any, x string) bool {
	for _, e := range evs {
		if o, _ := e["out"].(map[string]any); o != nil && e["k"] == "P1" && e["c"] == c && e["id"] == x && fmt.Sprint(o["nonce"]) == fmt.Sprint(over) {
			return true
		}
	}
	return false
}

func withTimeout(d time.Duration, jobs []fw.TLCJob) []fw.TLCJob {
	for i := range jobs {
		jobs[i].Timeout = d
	}
	return jobs
}

func main() {
	verifhook.Set(hook)
	fixes := `{"oneIdentity", "atomicEvict"}` // the tree the model describes (patches/C07-1, C07-2); C03's invariants hold without them too
	fw.Main(&fw.Property{
		ID:        "C03",
		DesignRef: "DESIGN.md §5 C03",
		ModelJobs: func(env *fw.Env) []fw.TLCJob {
			job := func(name, cfg, level string, workers int) fw.TLCJob {
				return fw.TLCJob{Name: name, Module: "Session", Cfg: cfg, Workers: workers,
					Consts: map[string]string{"FIXES": fixes, "LEVEL": level, "EMIT": `"no"`}}
			}
			if env.Tier == "thorough" {
				return withTimeout(40*time.Minute, []fw.TLCJob{
					job("handshake 2x2 depth 8, patched tree", "Session_c03.cfg", "8", 0),
					{Name: "handshake 2x2 depth 7, unpatched tree", Module: "Session", Cfg: "Session_c03.cfg",
						Consts: map[string]string{"FIXES": "{}", "LEVEL": "7", "EMIT": `"no"`}},
					job("handshake 3x3 depth 6, patched tree", "Session_c03t.cfg", "6", 0),
					job("addresses (lists, restart) depth 8", "Session_c03addr.cfg", "8", 0),
					job("stored secrets (undecryptable, reset) depth 9", "Session_c03key.cfg", "9", 0),
					job("protector life-cycle (ban kinds, clean-up tick) depth 8", "Session_c03ban.cfg", "8", 0),
					job("credential lifetime (expiry, binding, deletion) depth 10", "Session_c03cred.cfg", "10", 0),
					job("messages alone, both types, depth 9", "Session_c03msg.cfg", "9", 0),
					job("messages alone, three connections, depth 7", "Session_c03msg3.cfg", "7", 0),
					job("peer address forms depth 7", "Session_c03form.cfg", "7", 0),
					job("all environment actions depth 6", "Session_c03env.cfg", "6", 0),
				})
			}
			return []fw.TLCJob{
				job("handshake 2x2 depth 6", "Session_c03.cfg", "6", 4),
				job("addresses (lists, restart) depth 6", "Session_c03addr.cfg", "6", 4),
				job("stored secrets (undecryptable, reset) depth 7", "Session_c03key.cfg", "7", 4),
				job("protector life-cycle (ban kinds, clean-up tick) depth 6", "Session_c03ban.cfg", "6", 4),
			}
		},
		GenJobs: func(env *fw.Env) []fw.TLCJob {
			gen := func(name, cfg, level string) fw.TLCJob {
				// one worker: with several, TLC's breadth-first search is not level-synchronous and the depth bound
				// (TLCGet("level")) cuts a different frontier in every run
				return fw.TLCJob{Name: name, Module: "Session", Cfg: cfg, Workers: 1,
					Consts: map[string]string{"FIXES": fixes, "LEVEL": level, "EMIT": `"all"`}}
			}
			if env.Tier == "thorough" {
				return withTimeout(40*time.Minute, []fw.TLCJob{
					gen("gen:addr", "Session_c03addr.cfg", "5"),
					gen("gen:key", "Session_c03key.cfg", "6"),
					gen("gen:ban", "Session_c03ban.cfg", "5"),
					gen("gen:cred", "Session_c03cred.cfg", "7"),
					gen("gen:msg", "Session_c03msg.cfg", "5"),
					gen("gen:msg3", "Session_c03msg3.cfg", "5"),
					gen("gen:form", "Session_c03form.cfg", "5"),
					gen("gen:transitions 2x2", "Session_c03.cfg", "6"),
					gen("gen:transitions 3x3", "Session_c03t.cfg", "4"),
					{Name: "gen:simulate env", Module: "Session", Cfg: "Session_c03env.cfg", Workers: 4, Simulate: "num=4000", Depth: 15, Seed: env.Seed,
						Consts: map[string]string{"FIXES": fixes, "LEVEL": "14", "EMIT": `"last"`}},
				})
			}
			return []fw.TLCJob{ // the environment graphs first: identical lines of later jobs are dropped, not these
				gen("gen:addr", "Session_c03addr.cfg", "4"),
				gen("gen:key", "Session_c03key.cfg", "5"),
				gen("gen:ban", "Session_c03ban.cfg", "4"),
				gen("gen:cred", "Session_c03cred.cfg", "5"), // small: driven completely (also model-checked to that depth by the same run)
				gen("gen:msg", "Session_c03msg.cfg", "4"),   // likewise: every message class on fresh and on authenticated connections
				gen("gen:msg3", "Session_c03msg3.cfg", "4"), // likewise: three connections (a fresh one beside two authenticated ones)
				gen("gen:form", "Session_c03form.cfg", "4"),
				gen("gen:transitions 2x2", "Session_c03.cfg", "5"),
				{Name: "gen:simulate env", Module: "Session", Cfg: "Session_c03env.cfg", Workers: 4, Simulate: "num=600", Depth: 11, Seed: env.Seed,
					Consts: map[string]string{"FIXES": fixes, "LEVEL": "10", "EMIT": `"last"`}},
			}
		},
		// the short environment graphs are driven completely in the thorough tier; the big graphs are sampled
		MaxBehSrc: func(env *fw.Env, src string) int {
			if env.Tier == "thorough" {
				return map[string]int{"gen:ban": 30000, "gen:form": 30000, "gen:transitions 2x2": 30000, "gen:transitions 3x3": 12000, "gen:simulate env": 30000}[src]
			}
			return map[string]int{"gen:addr": 3000, "gen:key": 2500, "gen:ban": 3000, "gen:form": 3000, "gen:transitions 2x2": 2000, "gen:simulate env": 1500}[src]
		},
		// thorough: every behaviour that re-creates the address manager is driven over both value shapes of the store
		Expand: func(env *fw.Env, src string, d json.RawMessage) []json.RawMessage {
			const mark = `{"op":"Reload",`
			if env.Tier != "thorough" || !strings.Contains(string(d), mark) {
				return []json.RawMessage{d}
			}
			return []json.RawMessage{
				json.RawMessage(strings.ReplaceAll(string(d), mark, `{"op":"Reload","how":"bytes",`)),
				json.RawMessage(strings.ReplaceAll(string(d), mark, `{"op":"Reload","how":"string",`)),
			}
		},
		ExtraBeh:    raceBehaviours,
		Drive:       drive,
		Parallel:    48,
		JudgeModule: "SessionTrace",
		JudgeCfg:    "SessionTrace.cfg",
		SelfTest:    selfTest,
		PostDrive: func(env *fw.Env, ts []*fw.Trace) error {
			fmt.Printf("[binding] %d of %d behaviours left the model's predicted state at some step (%d steps compared)\n",
				bindingMismatch.Load(), len(ts), bindingSteps.Load())
			return nil
		},
		NonTrivial: func(t *fw.Trace) bool { return len(t.Events) >= 3 },
		Rule: "one behaviour per transition (state, message) of the Session handshake state graph to the depth bound (seeded sample when capped) plus random deep message sequences, " +
			"each replayed on the real ServerAuthHandler/SessionManager; non-trivial = at least 3 messages/environment actions",
		Assumptions: []string{
			"peer address forms: the fake transports report *net.TCPAddr (IPv4, IPv6, IPv6 with zone eth0, IPv4-mapped IPv6) or *net.UDPAddr (IPv4, IPv6 with zone); list and ban entries name the plain address or a /32 resp. /128 range over it",
			"every connection has its own remote address; bans and list entries are applied through BruteForceProtector.BanIP / IPManager.AddToBlacklist / AddToWhitelist (temporary = 1 h, permanent, /32 range)",
			"a restart / another node is the IPManager re-created on the same storage (as SecurityComponent.Initialize does) and a new auth handler around it; the other components keep running; the store hands the persisted records back as bytes or as strings",
			"an address on both lists is not 'blacklisted' for the judge (the statement is silent; the code lets the whitelist win); a ban of the protector bars it all the same",
			"undecryptable stored secrets are written through the client configuration repository (sealed under another master key, noise, not base64, too short, empty); a secret reset is CloudControl.ResetClientCredentials, after which the first holder's key counts as nobody's key; a deleted client (Service.DeleteClient) is an unknown client from then on",
			"credential expiry = Service.ExtendExpiration with a negative number of days, on anonymous clients and on clients bound to a user (Service.BindToUser); the judge takes 'expired' from the stored record (expiry date in the past)",
			"time does not pass inside a behaviour except where the model says so: temporary bans and list entries last 1 h, a 'lapsed' ban is a 30 ms ban followed by a 90 ms sleep, the clean-up tickers (1 h) never fire on their own - the model's Cleanup action runs BruteForceProtector.VerifCleanup and IPManager.VerifCleanup (build tag verif)",
			"the protector's threshold configuration comes from the model (MaxFailures = MaxFail; PermanentBanAt = MaxFailures in the ban configuration, out of reach elsewhere); a ban the protector's own table shows right after a message (no expiry date, or one beyond the behaviour) makes the address banned for the judge",
			"the protector's clean-up pass is run with VerifCleanup and stopped at the yield point bf.unban.enter (build tag verif) to place a fresh ban between its scan and its removal",
			"the brute-force threshold is configured to 3 failures (model constant MaxFail) so that organic bans occur inside short behaviours",
			"the driver's classification of its own responses (whose key, over which challenge) is trusted",
		},
		TrustedBase: []string{"TLC", "spec/SessionTrace.tla as the reading of the C03 statement", "srvkit fake transport, HMAC helper and name mapping"},
	})
}
