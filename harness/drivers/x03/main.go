// X03 (extension): the client's pool of reusable tunnel connections
// (internal/client/tunnel_pool.go, tunnel_pool_conn.go).
//
// Model: spec/TunnelPool.tla (+TunnelPool.cfg template); judge: spec/TunnelPoolTrace.tla.
// The driver replays every generated behaviour on the REAL TunnelPool of a real TunnoxClient:
//   - the client dials through a transport registered for this check ("x03", transport.RegisterProtocol):
//     the dial function is a gate of the scheduler (step Create|Dial of the model, DialFail = injected
//     error) and then connects over loopback TCP to a fake tunnel server that speaks the real stream
//     protocol (handshake, TunnelOpen/TunnelOpenAck) - so pooled connections are real *net.TCPConn and
//     the pool's health check (1 ms read) really runs;
//   - yield points tunnelpool.get.idlemiss / tunnelpool.get.create / tunnelpool.put.checked (patch X03-0)
//     are gates too; without them only behaviours that need no such seam are driven;
//   - a blocked Get is recognised by the scheduler's watchdog (state "wait" of the model);
//   - Evict calls the body of the 30 s cleanup loop (cleanupIdleConns, go:linkname);
//   - Expire sleeps > 3 x IdleTimeout, Kill half-closes the server's end of a connection;
//   - whether a socket is open is read synchronously off the client-side *net.TCPConn.
// A free-running seeded stress variant (ExtraBeh) uses the same world and the same judge.
package main

import (
	"bytes"
	"context"
	"encoding/json"
	"errors"
	"fmt"
	"math/rand"
	"net"
	"os"
	"runtime"
	"sort"
	"strconv"
	"strings"
	"sync"
	"sync/atomic"
	"time"
	_ "unsafe" // go:linkname

	"tunnox-core/internal/client"
	"tunnox-core/internal/client/transport"
	corelog "tunnox-core/internal/core/log"
	"tunnox-core/internal/packet"
	"tunnox-core/internal/stream"
	"tunnox-core/internal/verifhook"
	"tunnox-core/verifharness/fw"
	"tunnox-core/verifharness/sched"
)

// body of TunnelPool.cleanupLoop's tick (the ticker period of 30 s is hard-coded)
//
//go:linkname cleanupIdleConns tunnox-core/internal/client.(*TunnelPool).cleanupIdleConns
func cleanupIdleConns(p *client.TunnelPool)

const (
	gIdleMiss = "tunnelpool.get.idlemiss"
	gCreate   = "tunnelpool.get.create"
	gPutChk   = "tunnelpool.put.checked"
	gDial     = "dial"

	idleTimeout = 600 * time.Millisecond  // only in behaviours with an Expire step (else 1 h)
	expireSleep = 2000 * time.Millisecond // > 3 x idleTimeout
)

// ---------------------------------------------------------------------------------------------
// fake tunnel server (shared by all worlds)

type server struct {
	ln  net.Listener
	ctx context.Context
	mu  sync.Mutex
	by  map[string]*net.TCPConn // client-side local address -> server-side connection
}

func newServer() *server {
	ln, err := net.Listen("tcp", "127.0.0.1:0")
	if err != nil {
		fmt.Printf("INCONCLUSIVE: listen: %v\n", err)
		os.Exit(2)
	}
	s := &server{ln: ln, ctx: context.Background(), by: map[string]*net.TCPConn{}}
	go s.accept()
	return s
}

func (s *server) accept() {
	for {
		c, err := s.ln.Accept()
		if err != nil {
			return
		}
		tc := c.(*net.TCPConn)
		s.mu.Lock()
		s.by[tc.RemoteAddr().String()] = tc
		s.mu.Unlock()
		go s.serve(tc)
	}
}

func (s *server) serve(c *net.TCPConn) {
	defer func() {
		recover()
		c.Close()
		s.mu.Lock()
		delete(s.by, c.RemoteAddr().String())
		s.mu.Unlock()
	}()
	sp := stream.NewDefaultStreamFactory(s.ctx).CreateStreamProcessor(c, c)
	defer sp.Close()
	for {
		pkt, _, err := sp.ReadPacket()
		if err != nil {
			return
		}
		if pkt == nil {
			continue
		}
		switch pkt.PacketType & 0x3F {
		case packet.Handshake:
			b, _ := json.Marshal(&packet.HandshakeResponse{Success: true})
			if _, err := sp.WritePacket(&packet.TransferPacket{PacketType: packet.HandshakeResp, Payload: b}, false, 0); err != nil {
				return
			}
		case packet.TunnelOpen:
			var req packet.TunnelOpenRequest
			json.Unmarshal(pkt.Payload, &req)
			b, _ := json.Marshal(&packet.TunnelOpenAckResponse{TunnelID: req.TunnelID, Success: true})
			if _, err := sp.WritePacket(&packet.TransferPacket{PacketType: packet.TunnelOpenAck, TunnelID: req.TunnelID, Payload: b}, false, 0); err != nil {
				return
			}
		}
	}
}

// kill closes the server's sending direction of the connection whose client end is `local`:
// the client reads EOF from now on; the server keeps reading until the client closes.
func (s *server) kill(local string) bool {
	deadline := time.Now().Add(2 * time.Second)
	for {
		s.mu.Lock()
		c := s.by[local]
		s.mu.Unlock()
		if c != nil {
			return c.CloseWrite() == nil
		}
		if time.Now().After(deadline) {
			return false
		}
		time.Sleep(time.Millisecond)
	}
}

var (
	srv      *server
	worlds   sync.Map // address -> *world
	gidWorld sync.Map // goroutine id -> *world
	worldSeq atomic.Int64
	hooksOn  bool
)

func goid() int64 {
	var buf [64]byte
	n := runtime.Stack(buf[:], false)
	b := buf[len("goroutine "):n]
	i := bytes.IndexByte(b, ' ')
	id, _ := strconv.ParseInt(string(b[:i]), 10, 64)
	return id
}

// ---------------------------------------------------------------------------------------------
// world = one client + one pool + one scheduler

type connRec struct {
	id    int
	tcp   *net.TCPConn
	local string
}

type world struct {
	addr string
	s    *sched.Sched
	cl   *client.TunnoxClient
	pool *client.TunnelPool
	cfg  *client.TunnelPoolConfig

	mu       sync.Mutex
	events   []fw.Event
	conns    []*connRec
	byConn   map[net.Conn]int
	pooled   map[int]*client.PooledTunnelConn
	seenPC   map[*client.PooledTunnelConn]bool
	inflight int
	failNext atomic.Bool
	rng      *rand.Rand
	rngMu    sync.Mutex
}

type bcfg struct {
	Hc      bool `json:"hc"`
	MaxIdle int  `json:"maxIdle"`
	MaxAct  int  `json:"maxAct"`
}

func (c bcfg) tag() string {
	h := 0
	if c.Hc {
		h = 1
	}
	return fmt.Sprintf("hc%d:idle%d:max%d", h, c.MaxIdle, c.MaxAct)
}

func newWorld(cfg bcfg, free bool, expiring bool, dialTimeout time.Duration, seed int64) *world {
	w := &world{byConn: map[net.Conn]int{}, pooled: map[int]*client.PooledTunnelConn{}, seenPC: map[*client.PooledTunnelConn]bool{}}
	w.addr = fmt.Sprintf("w%d", worldSeq.Add(1))
	w.s = sched.New(free)
	w.s.Watchdog = 300 * time.Millisecond
	w.rng = rand.New(rand.NewSource(seed))
	if free {
		w.s.FreeDelay = func(string, sched.GateInfo) {
			w.rngMu.Lock()
			d := w.rng.Intn(4)
			n := w.rng.Intn(300)
			w.rngMu.Unlock()
			switch d {
			case 0:
			case 1:
				runtime.Gosched()
			default:
				time.Sleep(time.Duration(n) * time.Microsecond)
			}
		}
	}
	worlds.Store(w.addr, w)
	cc := &client.ClientConfig{ClientID: 4711, SecretKey: "k"}
	cc.Server.Address = w.addr
	cc.Server.Protocol = "x03"
	w.cl = client.NewClient(context.Background(), cc)
	it := time.Hour
	if expiring {
		it = idleTimeout
	}
	w.cfg = &client.TunnelPoolConfig{MaxIdleConns: cfg.MaxIdle, MaxConnsPerMapping: cfg.MaxAct, IdleTimeout: it,
		DialTimeout: dialTimeout, HealthCheckOnGet: cfg.Hc, Enabled: true}
	w.pool = client.NewTunnelPool(w.cl, w.cfg)
	w.log(fw.Event{"ev": "Cfg", "hc": cfg.Hc, "maxIdle": cfg.MaxIdle, "maxAct": cfg.MaxAct, "tag": cfg.tag()})
	return w
}

func (w *world) destroy() {
	defer func() { recover() }()
	w.mu.Lock()
	cs := append([]*connRec(nil), w.conns...)
	w.mu.Unlock()
	w.pool.Shutdown()
	w.cl.Close()
	for _, c := range cs {
		c.tcp.Close()
	}
	worlds.Delete(w.addr)
}

func (w *world) log(e fw.Event) {
	w.mu.Lock()
	w.events = append(w.events, e)
	w.mu.Unlock()
}

// dialX03 is the transport's dial function: the seam between createNewConn's active.Add(1) and the new connection.
func dialX03(ctx context.Context, address string) (net.Conn, error) {
	v, ok := worlds.Load(address)
	if !ok {
		return nil, errors.New("x03: unknown world")
	}
	w := v.(*world)
	w.s.Gate(gDial, nil)
	if w.failNext.CompareAndSwap(true, false) {
		return nil, errors.New("x03: injected dial failure")
	}
	if err := ctx.Err(); err != nil {
		return nil, err
	}
	d := &net.Dialer{Timeout: 10 * time.Second}
	c, err := d.DialContext(ctx, "tcp", srv.ln.Addr().String())
	if err != nil {
		return nil, err
	}
	tc := c.(*net.TCPConn)
	w.mu.Lock()
	rec := &connRec{id: len(w.conns) + 1, tcp: tc, local: tc.LocalAddr().String()}
	w.conns = append(w.conns, rec)
	w.byConn[tc] = rec.id
	w.mu.Unlock()
	return tc, nil
}

func isClosed(tc *net.TCPConn) bool {
	rc, err := tc.SyscallConn()
	if err != nil {
		return true
	}
	return rc.Control(func(uintptr) {}) != nil
}

// open sockets right now (ids, ascending)
func (w *world) openNow() []int {
	w.mu.Lock()
	cs := append([]*connRec(nil), w.conns...)
	w.mu.Unlock()
	out := []int{}
	for _, c := range cs {
		if !isClosed(c.tcp) {
			out = append(out, c.id)
		}
	}
	return out
}

func (w *world) enter(p int, op string, c int) {
	gidWorld.Store(goid(), w)
	w.mu.Lock()
	w.inflight++
	w.events = append(w.events, fw.Event{"ev": "Call", "p": p, "op": op, "c": c})
	w.mu.Unlock()
}

func (w *world) leave(p int, op, r string, c int, closed bool, open []int) {
	if open == nil {
		open = []int{}
	}
	w.mu.Lock()
	w.inflight--
	w.events = append(w.events, fw.Event{"ev": "Ret", "p": p, "op": op, "r": r, "c": c, "closed": closed, "open": open})
	w.mu.Unlock()
	gidWorld.Delete(goid())
}

type result struct {
	R string
	C int
}

func (w *world) guard(p int, op string, res *result) {
	if r := recover(); r != nil {
		w.mu.Lock()
		w.inflight--
		w.events = append(w.events, fw.Event{"ev": "Panic", "p": p, "op": op, "msg": fmt.Sprint(r)})
		w.mu.Unlock()
		*res = result{R: "panic"}
	}
}

func (w *world) doGet(p int) (res result) {
	defer w.guard(p, "Get", &res)
	w.enter(p, "Get", 0)
	pc, err := w.pool.Get("m1", "sk")
	if err != nil || pc == nil {
		w.leave(p, "Get", "err", 0, false, nil)
		return result{R: "err"}
	}
	w.mu.Lock()
	id := w.byConn[pc.GetConn()]
	kind := "reused"
	if !w.seenPC[pc] {
		w.seenPC[pc] = true
		kind = "new"
	}
	w.pooled[id] = pc
	var tc *net.TCPConn
	if id > 0 {
		tc = w.conns[id-1].tcp
	}
	w.mu.Unlock()
	closed := tc == nil || isClosed(tc)
	w.leave(p, "Get", kind, id, closed, nil)
	return result{R: kind, C: id}
}

func (w *world) pooledConn(c int) *client.PooledTunnelConn {
	w.mu.Lock()
	defer w.mu.Unlock()
	return w.pooled[c]
}

func (w *world) doPut(p, c int) (res result) {
	defer w.guard(p, "Put", &res)
	pc := w.pooledConn(c)
	w.enter(p, "Put", c)
	w.pool.Put(pc)
	w.leave(p, "Put", "ok", c, false, nil)
	return result{R: "ok"}
}

func (w *world) doClose(p, c int) (res result) {
	defer w.guard(p, "Close", &res)
	pc := w.pooledConn(c)
	w.enter(p, "Close", c)
	w.pool.Close(pc)
	w.leave(p, "Close", "ok", c, false, nil)
	return result{R: "ok"}
}

func (w *world) doEvict(p int) (res result) {
	defer w.guard(p, "Evict", &res)
	w.enter(p, "Evict", 0)
	cleanupIdleConns(w.pool)
	w.leave(p, "Evict", "ok", 0, false, nil)
	return result{R: "ok"}
}

func (w *world) doShutdown(p int) (res result) {
	defer w.guard(p, "Shutdown", &res)
	w.enter(p, "Shutdown", 0)
	w.pool.Shutdown()
	w.leave(p, "Shutdown", "ok", 0, false, w.openNow())
	return result{R: "ok"}
}

// obs records a standstill: open sockets and the pool's own numbers
func (w *world) obs() {
	st := w.pool.Stats()
	act, idle := 0, 0
	if st != nil {
		if ms, ok := st.Pools["m1"]; ok {
			act, idle = int(ms.Active), ms.Idle
		}
	}
	open := w.openNow()
	w.mu.Lock()
	q := w.inflight == 0
	w.events = append(w.events, fw.Event{"ev": "Obs", "open": open, "active": act, "idle": idle, "q": q})
	w.mu.Unlock()
}

// ---------------------------------------------------------------------------------------------
// behaviours

type wake struct {
	P  int    `json:"p"`
	St string `json:"st"`
	R  string `json:"r"`
	Rc int    `json:"rc"`
}

type step struct {
	P  int    `json:"p"`
	A  string `json:"a"`
	C  int    `json:"c"`
	St string `json:"st"`
	R  string `json:"r"`
	Rc int    `json:"rc"`
	Wk []wake `json:"wk"`
}

type behaviour struct {
	Cfg    bcfg   `json:"cfg"`
	Fixed  bool   `json:"fixed"`
	Steps  []step `json:"steps"`
	Stress int    `json:"stress,omitempty"` // >0: free-running variant, number of caller goroutines
	Seed   int64  `json:"seed,omitempty"`
	Shut   bool   `json:"shut,omitempty"`
}

// needsHooks: some other step lies between two steps of one call that only a yield point can separate
func needsHooks(b *behaviour) bool {
	open := map[int]bool{} // process is between a hook-separated pair
	for _, s := range b.Steps {
		// a step of another process (or the environment) while some call sits at a yield point
		for q := range open {
			if q != s.P && open[q] {
				return true
			}
		}
		if s.P == 0 {
			continue
		}
		switch s.St {
		case "mid", "mid2", "put2":
			open[s.P] = true
		default:
			open[s.P] = false
		}
		for _, k := range s.Wk {
			if k.St == "mid" || k.St == "mid2" {
				open[k.P] = true
			}
		}
	}
	return false
}

func gateOf(st string) string {
	switch st {
	case "mid":
		return gIdleMiss
	case "mid2":
		return gCreate
	case "dial":
		return gDial
	case "put2":
		return gPutChk
	}
	return ""
}

type runner struct {
	w     *world
	name  map[int]string // current call of each process
	calls int
	note  string
}

// settle waits until process p is where the model says (st), tolerating slowness; false = the code went elsewhere
func (r *runner) settle(p int, st string, last string) bool {
	name := r.name[p]
	if name == "" {
		r.note = fmt.Sprintf("process %d has no call", p)
		return false
	}
	want := gateOf(st)
	unverifiable := !hooksOn && (want == gIdleMiss || want == gCreate || want == gPutChk)
	// a call that should reach a gate or return gets 2 s (>= 6 watchdog periods) before it counts as "went elsewhere"
	// (a wrong guess only turns the behaviour into a diverged - still judged - one)
	deadline := time.Now().Add(2 * time.Second)
	for {
		cur, at := r.w.s.State(name)
		switch cur {
		case sched.Done:
			if st == "idle" || unverifiable {
				return true
			}
			r.note = fmt.Sprintf("p%d returned, model says %s", p, st)
			return false
		case sched.Parked:
			if at.Point == want || unverifiable {
				return true
			}
			if at.Point == gCreate && want == gDial {
				// repaired code / merged step: the yield point before the dial is not a stop of this path
				last, _ = r.w.s.Step(name)
				continue
			}
			r.note = fmt.Sprintf("p%d parked at %s, model says %s", p, at.Point, st)
			return false
		default: // running: blocked or slow
			if last == sched.Blocked && (st == "wait" || unverifiable) {
				return true
			}
			if time.Now().After(deadline) {
				r.note = fmt.Sprintf("p%d still running, model says %s", p, st)
				return false
			}
			last = r.w.s.Await(name)
		}
	}
}

func (r *runner) start(p int, fn func() result) string {
	r.calls++
	n := fmt.Sprintf("p%d.%d", p, r.calls)
	r.name[p] = n
	return r.w.s.Start(n, func() any { return fn() })
}

func hasExpire(b *behaviour) bool {
	for _, s := range b.Steps {
		if s.A == "Expire" {
			return true
		}
	}
	return false
}

func drive(env *fw.Env, beh fw.Behaviour) *fw.Trace {
	var b behaviour
	if err := json.Unmarshal(beh.Data, &b); err != nil {
		return &fw.Trace{Status: fw.DriverError, Note: err.Error()}
	}
	if b.Stress > 0 {
		return stress(env, &b)
	}
	expiring := hasExpire(&b)
	w := newWorld(b.Cfg, false, expiring, time.Hour, 1)
	defer w.destroy()
	r := &runner{w: w, name: map[int]string{}}
	status := fw.Realised
steps:
	for i, s := range b.Steps {
		ok := true
		last := ""
		switch s.A {
		case "Get":
			last = r.start(s.P, func() result { return w.doGet(s.P) })
		case "Put":
			c := s.C
			last = r.start(s.P, func() result { return w.doPut(s.P, c) })
		case "Close":
			c := s.C
			last = r.start(s.P, func() result { return w.doClose(s.P, c) })
		case "Evict":
			last = r.start(s.P, func() result { return w.doEvict(s.P) })
		case "Shutdown":
			last = r.start(s.P, func() result { return w.doShutdown(s.P) })
		case "Check", "Create", "Dial", "PutIns", "DialFail":
			n := r.name[s.P]
			hookStep := s.A == "Check" || s.A == "Create" || s.A == "PutIns"
			if hookStep && !hooksOn {
				break // no yield points: the call ran through this step already (needsHooks filtered the rest)
			}
			from := map[string]string{"Check": gIdleMiss, "Create": gCreate, "Dial": gDial, "DialFail": gDial, "PutIns": gPutChk}[s.A]
			cur, at := w.s.State(n)
			if cur == sched.Parked && at.Point == gCreate && from == gDial {
				w.s.Step(n)
				cur, at = w.s.State(n)
			}
			if cur != sched.Parked || at.Point != from {
				ok = false
				r.note = fmt.Sprintf("step %d %s: p%d is %s at %q", i, s.A, s.P, cur, at.Point)
				break
			}
			if s.A == "DialFail" {
				w.failNext.Store(true)
			}
			last, _ = w.s.Step(n)
		case "Expire":
			// everything idle now is older than 3 x IdleTimeout afterwards (the other direction - "still fresh" -
			// is never demanded by the judge: a slow run only makes the code discard more, i.e. diverge)
			time.Sleep(expireSleep)
			w.log(fw.Event{"ev": "Expire"})
			continue
		case "Kill":
			w.mu.Lock()
			local := w.conns[s.C-1].local
			w.mu.Unlock()
			if !srv.kill(local) {
				// the model thinks the connection is open, the code has closed it: an earlier step went differently
				status = fw.Diverged
				r.note = fmt.Sprintf("step %d Kill: connection %d is gone", i, s.C)
				break steps
			}
			time.Sleep(20 * time.Millisecond) // FIN over loopback
			w.log(fw.Event{"ev": "Kill", "c": s.C})
			continue
		default:
			return &fw.Trace{Status: fw.DriverError, Note: "unknown step " + s.A}
		}
		if ok {
			ok = r.settle(s.P, s.St, last)
		}
		if ok {
			for _, k := range s.Wk {
				if !r.settle(k.P, k.St, "") {
					ok = false
					break
				}
				if k.St == "idle" {
					if res, _ := w.s.Result(r.name[k.P]).(result); res.R != k.R || (k.R == "reused" && res.C != k.Rc) {
						ok = false
						r.note = fmt.Sprintf("step %d: woken p%d returned %v, model says %s/%d", i, k.P, res, k.R, k.Rc)
					}
				}
			}
		}
		if ok && s.St == "idle" && s.R != "" {
			if res, _ := w.s.Result(r.name[s.P]).(result); res.R != s.R || (s.Rc != 0 && res.C != s.Rc) {
				ok = false
				r.note = fmt.Sprintf("step %d %s: p%d returned %v, model says %s/%d", i, s.A, s.P, res, s.R, s.Rc)
			}
		}
		if !ok {
			status = fw.Diverged
			break
		}
		w.obs()
	}
	if !finish(w) {
		return &fw.Trace{Status: fw.Inconclusive, Note: "calls did not return: " + r.note}
	}
	w.mu.Lock()
	evs := append([]fw.Event(nil), w.events...)
	w.mu.Unlock()
	return &fw.Trace{Status: status, Note: r.note, Events: evs}
}

// finish lets every call in flight return (free-running; blocked Gets are released by a logged Shutdown of caller 0),
// then records the final standstill.
func finish(w *world) bool {
	quiet := func(d time.Duration) bool {
		dl := time.Now().Add(d)
		for {
			w.mu.Lock()
			n := w.inflight
			w.mu.Unlock()
			if n == 0 {
				return true
			}
			if time.Now().After(dl) {
				return false
			}
			time.Sleep(200 * time.Microsecond)
		}
	}
	w.s.Drain(time.Millisecond) // free-running from here on
	if !quiet(400 * time.Millisecond) {
		// Gets blocked at the maximum: nothing but a Shutdown (or their timeout) ends them
		done := make(chan struct{})
		go func() { w.doShutdown(0); close(done) }()
		select {
		case <-done:
		case <-time.After(10 * time.Second):
			return false
		}
		if !quiet(10 * time.Second) {
			return false
		}
	}
	w.obs()
	w.log(fw.Event{"ev": "Final", "open": w.openNow()})
	return true
}

// ---------------------------------------------------------------------------------------------
// free-running stress: n callers, each: Get, hold briefly, Put or Close; an evictor; optionally a Shutdown in the middle

func stress(env *fw.Env, b *behaviour) *fw.Trace {
	w := newWorld(b.Cfg, true, false, 300*time.Millisecond, b.Seed)
	defer w.destroy()
	var wg sync.WaitGroup
	rounds := 40
	var stop atomic.Bool
	for p := 1; p <= b.Stress; p++ {
		wg.Add(1)
		go func(p int) {
			defer wg.Done()
			rng := rand.New(rand.NewSource(b.Seed*131 + int64(p)))
			for i := 0; i < rounds && !stop.Load(); i++ {
				res := w.doGet(p)
				if res.R == "panic" {
					return
				}
				if res.R == "err" {
					continue
				}
				if rng.Intn(3) == 0 {
					time.Sleep(time.Duration(rng.Intn(200)) * time.Microsecond)
				}
				if rng.Intn(5) == 0 {
					w.doClose(p, res.C)
				} else {
					w.doPut(p, res.C)
				}
			}
		}(p)
	}
	wg.Add(1)
	go func() {
		defer wg.Done()
		rng := rand.New(rand.NewSource(b.Seed*733 + 99))
		for i := 0; i < 10 && !stop.Load(); i++ {
			time.Sleep(time.Duration(rng.Intn(2000)) * time.Microsecond)
			w.doEvict(90)
		}
	}()
	if b.Shut {
		wg.Add(1)
		go func() {
			defer wg.Done()
			rng := rand.New(rand.NewSource(b.Seed*977 + 5))
			time.Sleep(time.Duration(2000+rng.Intn(12000)) * time.Microsecond)
			w.doShutdown(91)
		}()
	}
	ch := make(chan struct{})
	go func() { wg.Wait(); close(ch) }()
	select {
	case <-ch:
	case <-time.After(60 * time.Second):
		stop.Store(true)
		return &fw.Trace{Status: fw.Inconclusive, Note: "stress did not finish"}
	}
	w.obs()
	w.log(fw.Event{"ev": "Final", "open": w.openNow()})
	w.mu.Lock()
	evs := append([]fw.Event(nil), w.events...)
	w.mu.Unlock()
	return &fw.Trace{Status: fw.Realised, Events: evs}
}

// ---------------------------------------------------------------------------------------------

func probeHooks() bool {
	seen := map[string]bool{}
	var mu sync.Mutex
	verifhook.Set(func(name string, _ any) {
		mu.Lock()
		seen[name] = true
		mu.Unlock()
	})
	w := newWorld(bcfg{MaxIdle: 1, MaxAct: 1}, true, false, time.Second, 1)
	res := w.doGet(1)
	if res.R == "new" {
		w.doPut(1, res.C)
	}
	w.destroy()
	verifhook.Set(nil)
	if res.R != "new" {
		fmt.Printf("INCONCLUSIVE: probe Get failed (%v): fake server / transport broken\n", res)
		os.Exit(2)
	}
	return seen[gIdleMiss] && seen[gCreate] && seen[gPutChk]
}

func job(name string, fixed bool, c map[string]string) fw.TLCJob {
	consts := map[string]string{"NP": "3", "MAXCONN": "3", "MAXOPS": "5", "HCS": "{TRUE, FALSE}", "MAXIDLES": "{1, 2}", "MAXACTS": "{1, 2}",
		"MAXEXP": "1", "MAXKILL": "1", "MAXFAIL": "1", "EMIT": "FALSE", "FIXED": "FALSE",
		"INVS": "Exclusive NoDupIdle HandoutOKOrDev IdleBound MaxLiveOrDev NoLeakOrDev ShutdownClosedIdle"}
	if fixed {
		consts["FIXED"] = "TRUE"
		consts["INVS"] = "Exclusive NoDupIdle HandoutOK IdleOpen MaxLive IdleBound CounterExact NoLeak ShutdownClosedIdle NoDeviation"
	}
	for k, v := range c {
		consts[k] = v
	}
	return fw.TLCJob{Name: name, Module: "TunnelPool", Cfg: "TunnelPool.cfg", Consts: consts, Workers: 4, Timeout: 15 * time.Minute}
}

func main() {
	corelog.SetDefault(corelog.NewNopLogger())
	srv = newServer()
	transport.RegisterProtocol("x03", 1, dialX03)
	hooksOn = probeHooks()
	verifhook.Set(func(name string, _ any) {
		if name != gIdleMiss && name != gCreate && name != gPutChk {
			return
		}
		if v, ok := gidWorld.Load(goid()); ok {
			v.(*world).s.Gate(name, nil)
		}
	})
	fmt.Printf("[x03] yield points present: %v\n", hooksOn)
	fw.Main(&fw.Property{
		ID:        "X03",
		DesignRef: "DESIGN.md §10 extensions: X03 TunnelPool",
		ModelJobs: func(env *fw.Env) []fw.TLCJob {
			if env.Tier == "quick" {
				return []fw.TLCJob{
					job("mc:fixed", true, nil),
					job("mc:asis", false, map[string]string{"NP": "2"}),
				}
			}
			return []fw.TLCJob{
				job("mc:fixed", true, map[string]string{"MAXOPS": "6"}),
				job("mc:asis", false, nil),
			}
		},
		GenJobs: func(env *fw.Env) []fw.TLCJob {
			e := map[string]string{"EMIT": "TRUE", "NP": "2", "MAXOPS": "5"}
			el := e
			if env.Tier == "quick" {
				el = map[string]string{"EMIT": "TRUE", "NP": "2", "MAXOPS": "4"}
			}
			jobs := []fw.TLCJob{
				job("gen", true, e),
				job("legacy", false, el),
			}
			sim := job("gen:sim", true, map[string]string{"EMIT": "TRUE", "MAXOPS": "8", "MAXCONN": "4"})
			sim.Simulate, sim.Depth, sim.Seed, sim.Workers = "num=60", 24, env.Seed, 1
			lsim := job("legacy:sim", false, map[string]string{"EMIT": "TRUE", "MAXOPS": "8", "MAXCONN": "4"})
			lsim.Simulate, lsim.Depth, lsim.Seed, lsim.Workers = "num=60", 24, env.Seed, 1
			if env.Tier == "thorough" {
				sim.Simulate, lsim.Simulate = "num=300", "num=300"
				e3 := map[string]string{"EMIT": "TRUE", "NP": "3", "MAXOPS": "5"}
				jobs = append(jobs, job("gen:n3", true, e3), job("legacy:n3", false, e3))
			}
			return append(jobs, sim, lsim)
		},
		Expand: func(env *fw.Env, src string, raw json.RawMessage) []json.RawMessage {
			var b behaviour
			if err := json.Unmarshal(raw, &b); err != nil {
				panic(err)
			}
			if strings.HasSuffix(src, ":sim") {
				// -simulate prints every prefix: keep the long ones
				if len(b.Steps) < 10 {
					return nil
				}
			}
			if !hooksOn && needsHooks(&b) {
				return nil
			}
			return []json.RawMessage{raw}
		},
		MaxBehSrc: func(env *fw.Env, src string) int {
			if env.Tier == "quick" {
				if strings.HasSuffix(src, ":sim") {
					return 40
				}
				return 220
			}
			if strings.HasSuffix(src, ":sim") {
				return 400
			}
			return 2500
		},
		ExtraBeh: func(env *fw.Env) []json.RawMessage {
			var out []json.RawMessage
			n := 12
			if env.Tier == "thorough" {
				n = 60
			}
			rng := fw.NewRand(env.Seed)
			for i := 0; i < n; i++ {
				b := behaviour{Cfg: bcfg{Hc: rng.Intn(2) == 0, MaxIdle: 1 + rng.Intn(2), MaxAct: 1 + rng.Intn(3)},
					Stress: 2 + rng.Intn(3), Seed: env.Seed*1000 + int64(i), Shut: i%2 == 0}
				out = append(out, fw.MustJSON(b))
			}
			return out
		},
		Drive:       drive,
		Parallel:    16,
		JudgeModule: "TunnelPoolTrace",
		JudgeCfg:    "TunnelPoolTrace.cfg",
		NonTrivial: func(t *fw.Trace) bool {
			for _, e := range t.Events {
				if e["ev"] == "Ret" && e["r"] == "reused" {
					return true
				}
			}
			return false
		},
		Rule: "extension X03: every TLC-generated interleaving of Get/Put/Close/Evict/Shutdown (at critical-section granularity) is forced on the real TunnelPool over real loopback sockets; the trace of calls, results and socket states must satisfy TunnelPoolTrace",
		Assumptions: []string{
			"one mapping id, Enabled = true; the disabled pass-through mode is not modelled",
			"callers follow the API: a borrowed connection is given back at most once (Put or Close), by its borrower",
			"Go's channel hand-off to a blocked Get is modelled as part of the Put step that sends the token (FIFO among blocked Gets)",
			"Get called after Shutdown returned is outside the contract (accepted whatever it does)",
		},
		TrustedBase: []string{"TLC", "harness/fw", "harness/sched", "fake tunnel server in drivers/x03", "loopback TCP"},
		SelfTest:    selfTest,
	})
}

// selfTest: corrupted copies of accepted traces that the judge must reject
func selfTest(env *fw.Env, acc []*fw.Trace) []*fw.Trace {
	var out []*fw.Trace
	id := 1 << 20
	clone := func(t *fw.Trace) *fw.Trace {
		n := &fw.Trace{Beh: t.Beh, Status: t.Status}
		for _, e := range t.Events {
			c := fw.Event{}
			for k, v := range e {
				c[k] = v
			}
			n.Events = append(n.Events, c)
		}
		id++
		n.Beh.ID = id
		return n
	}
	cnt := map[string]int{}
	for _, t := range acc {
		// (1) a reused connection reported as already closed
		for i, e := range t.Events {
			if e["ev"] == "Ret" && e["op"] == "Get" && e["r"] == "reused" && cnt["closed"] < 5 {
				n := clone(t)
				n.Events[i]["closed"] = true
				out = append(out, n)
				cnt["closed"]++
				break
			}
		}
		// (2) the pool's counter off by one at a standstill before any Shutdown
		for i, e := range t.Events {
			if e["ev"] == "Call" && e["op"] == "Shutdown" {
				break
			}
			if e["ev"] == "Obs" && e["q"] == true && cnt["stats"] < 5 {
				n := clone(t)
				n.Events[i]["active"] = e["active"].(int) + 1
				out = append(out, n)
				cnt["stats"]++
				break
			}
		}
		// (3) the Put that preceded a reuse is dropped: the connection is handed out while still borrowed
		if cnt["excl"] < 5 {
		scan:
			for i, e := range t.Events {
				if e["ev"] == "Call" && e["op"] == "Put" {
					for j := i + 1; j < len(t.Events); j++ {
						f := t.Events[j]
						if f["ev"] == "Call" && (f["op"] == "Put" || f["op"] == "Close") && f["c"] == e["c"] {
							break
						}
						if f["ev"] == "Ret" && f["op"] == "Get" && f["r"] == "reused" && f["c"] == e["c"] {
							n := clone(t)
							n.Events = append(n.Events[:i:i], n.Events[i+1:]...)
							out = append(out, n)
							cnt["excl"]++
							break scan
						}
					}
				}
			}
		}
		// (4) after Shutdown a connection nobody holds is reported open at the end
		if cnt["leak"] < 5 {
			sd, held := false, map[any]bool{}
			maxc := 0
			for _, e := range t.Events {
				if e["ev"] == "Ret" && e["op"] == "Shutdown" {
					sd = true
				}
				if e["ev"] == "Ret" && e["op"] == "Get" && (e["r"] == "new" || e["r"] == "reused") {
					held[e["c"]] = true
					if c := e["c"].(int); c > maxc {
						maxc = c
					}
				}
				if e["ev"] == "Call" && (e["op"] == "Put" || e["op"] == "Close") {
					delete(held, e["c"])
				}
			}
			last := t.Events[len(t.Events)-1]
			if sd && last["ev"] == "Final" {
				n := clone(t)
				open := append([]int{}, last["open"].([]int)...)
				open = append(open, maxc+7)
				sort.Ints(open)
				n.Events[len(n.Events)-1]["open"] = open
				out = append(out, n)
				cnt["leak"]++
			}
		}
	}
	return out
}
