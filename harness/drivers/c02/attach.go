// attach.go: the other two ways a target end gets attached to a bridge on a server.
//
//	pkt   - the target's tunnel connection arrives through the packet path of the SessionManager:
//	        AcceptConnection, Handshake (connection_type "tunnel"), TunnelOpen -> handleTunnelOpen ->
//	        handleExistingBridge -> SetTargetConnection. The server side of the connection is served by
//	        the adapter's read loop in miniature (ReadPacket -> HandlePacket until the mode switch).
//	xnode - the target sits on another node: its node dials the source node's CrossNodeListener, sends
//	        the TargetReady frame and the same TCP connection then carries the raw tunnel bytes
//	        (handleConnection -> handleTargetReady -> runBridgeForward). What the target had already
//	        written travels in the same segment as the frame.
package main

import (
	"bytes"
	"context"
	"encoding/json"
	"errors"
	"net"
	"sync/atomic"
	"time"
	_ "unsafe" // go:linkname

	coreerrors "tunnox-core/internal/core/errors"
	"tunnox-core/internal/core/types"
	"tunnox-core/internal/packet"
	"tunnox-core/internal/protocol/session"
	"tunnox-core/internal/stream"
	"tunnox-core/verifharness/doubles"
	"tunnox-core/verifharness/fw"
)

// nilConnCalls counts method calls on a nil *fakeConn: the code under test handed a typed-nil
// connection around (a torn read of an interface field). Reported as an observation, not a crash.
var nilConnCalls atomic.Int64

var errNilConn = errors.New("scripted: call on a nil connection")

// handleConnection is the real, unexported entry of the cross-node listener (cross_node_listener.go),
// bound by symbol name like startSourceBridge.
//
//go:linkname crossNodeHandleConnection tunnox-core/internal/protocol/session.(*CrossNodeListener).handleConnection
func crossNodeHandleConnection(l *session.CrossNodeListener, ctx context.Context, conn net.Conn)

// ---- pkt ------------------------------------------------------------------------------------------

type stubAuth struct{}

func (stubAuth) HandleHandshake(conn session.ControlConnectionInterface, req *packet.HandshakeRequest) (*packet.HandshakeResponse, error) {
	conn.SetClientID(req.ClientID)
	conn.SetAuthenticated(true)
	return &packet.HandshakeResponse{Success: true, ClientID: req.ClientID}, nil
}
func (stubAuth) GetClientConfig(session.ControlConnectionInterface) (string, error) { return "{}", nil }

type stubTunnelHandler struct{}

func (stubTunnelHandler) HandleTunnelOpen(session.ControlConnectionInterface, *packet.TunnelOpenRequest) error {
	return nil
}

// hsClient is the client's view of a fake connection while the tunnel connection is still in
// packet mode: it writes packets into the connection and reads the server's replies.
type hsClient struct{ c *fakeConn }

func (h hsClient) Write(p []byte) (int, error) {
	w := h.c.w
	w.mu.Lock()
	h.c.in = append(h.c.in, append([]byte(nil), p...))
	w.cond.Broadcast()
	w.mu.Unlock()
	return len(p), nil
}

func (h hsClient) Read(p []byte) (int, error) {
	w := h.c.w
	deadline := time.Now().Add(watchdog)
	for {
		w.mu.Lock()
		if len(h.c.hsOut) > 0 {
			n := copy(p, h.c.hsOut)
			h.c.hsOut = h.c.hsOut[n:]
			w.mu.Unlock()
			return n, nil
		}
		closed := h.c.closed
		w.mu.Unlock()
		if closed {
			return 0, errClosed
		}
		if time.Now().After(deadline) {
			return 0, timeoutErr{}
		}
		time.Sleep(200 * time.Microsecond)
	}
}

// attachPkt opens the target's tunnel connection the way a target client does.
func (r *run) attachPkt() error {
	c, _ := r.targetConn()
	return r.openPkt(c, dstClient, func() {
		r.w.log(fw.Event{"ev": "Attach", "k": r.b.kindOfAttach()})
		r.w.attachAt = time.Now()
	})
}

// openPkt brings a client's tunnel connection to the server through the packet path: AcceptConnection,
// Handshake (connection_type "tunnel"), TunnelOpen. shaken (optional) runs under the world lock once the
// handshake is through.
func (r *run) openPkt(c *fakeConn, clientID int64, shaken func()) error {
	w := r.w
	w.mu.Lock()
	held := c.in // a client writes tunnel bytes only once the tunnel is open
	c.in, c.hs = nil, true
	w.mu.Unlock()

	sc, err := r.sm.AcceptConnection(c, c)
	if err != nil {
		return err
	}
	go func() { // BaseAdapter.handleConnection in miniature
		for {
			pkt, _, err := sc.Stream.ReadPacket()
			if err != nil {
				return
			}
			err = r.sm.HandlePacket(&types.StreamPacket{ConnectionID: sc.ID, Packet: pkt, Timestamp: time.Now()})
			if err != nil && coreerrors.IsCode(err, coreerrors.CodeTunnelModeSwitch) {
				return // the connection now belongs to the tunnel
			}
		}
	}()
	cs := stream.NewStreamProcessor(hsClient{c}, hsClient{c}, r.ctx)
	call := func(pt packet.Type, req any, want packet.Type, resp any) error {
		body, _ := json.Marshal(req)
		if _, err := cs.WritePacket(&packet.TransferPacket{PacketType: pt, Payload: body}, false, 0); err != nil {
			return err
		}
		pkt, _, err := cs.ReadPacket()
		if err != nil {
			return err
		}
		if pkt.PacketType&0x3F != want {
			return errors.New("unexpected reply packet type")
		}
		return json.Unmarshal(pkt.Payload, resp)
	}
	var hs packet.HandshakeResponse
	if err := call(packet.Handshake, &packet.HandshakeRequest{ClientID: clientID, Version: "verif", Protocol: "tcp", ConnectionType: "tunnel"},
		packet.HandshakeResp, &hs); err != nil || !hs.Success {
		return errors.New("handshake of the tunnel connection failed")
	}
	if shaken != nil {
		w.mu.Lock()
		shaken()
		w.mu.Unlock()
	}
	var ack packet.TunnelOpenAckResponse
	if err := call(packet.TunnelOpen, &packet.TunnelOpenRequest{MappingID: mappingID, TunnelID: tunnelID, SecretKey: "k"},
		packet.TunnelOpenAck, &ack); err != nil || !ack.Success {
		return errors.New("tunnel open of the tunnel connection failed")
	}
	w.mu.Lock()
	c.hs = false
	if len(c.hsOut) > 0 {
		// the server started copying as soon as it had attached the connection: what it wrote behind
		// the acknowledgement is tunnel data
		c.deliver(c.hsOut)
		c.hsOut = nil
	}
	c.in = append(c.in, held...)
	w.cond.Broadcast()
	w.mu.Unlock()
	return nil
}

// ---- xnode ----------------------------------------------------------------------------------------

type xnode struct {
	ln       net.Listener
	cli, srv *net.TCPConn
}

func (x *xnode) shut() {
	if x == nil {
		return
	}
	if x.cli != nil {
		x.cli.Close()
	}
	if x.srv != nil {
		x.srv.Close()
	}
	if x.ln != nil {
		x.ln.Close()
	}
}

// attachXnode plays the target's node: one TCP connection to the source node's cross-node listener,
// the TargetReady frame and - in the same write - everything the target has written so far.
// The target end keeps its fake connection as its books (what it wrote, what it received, whether it
// saw end-of-stream); two pumps move the bytes between those books and the TCP connection.
func (r *run) attachXnode() error {
	c, _ := r.targetConn()
	w := r.w
	ln, err := net.Listen("tcp", "127.0.0.1:0")
	if err != nil {
		return err
	}
	x := &xnode{ln: ln}
	r.xn = x
	acc := make(chan net.Conn, 1)
	go func() {
		s, err := ln.Accept()
		if err == nil {
			acc <- s
		} else {
			close(acc)
		}
	}()
	cc, err := net.Dial("tcp", ln.Addr().String())
	if err != nil {
		return err
	}
	x.cli = cc.(*net.TCPConn)
	s, ok := <-acc
	if !ok {
		return errors.New("accept failed")
	}
	x.srv = s.(*net.TCPConn)

	id, _ := session.TunnelIDFromString(tunnelID)
	var first bytes.Buffer
	if err := session.WriteFrameToWriter(&first, id, session.FrameTypeTargetReady, session.EncodeTargetReadyMessage(tunnelID, "node-T")); err != nil {
		return err
	}
	w.mu.Lock()
	for _, chunk := range c.in {
		first.Write(chunk)
	}
	c.in = nil
	w.log(fw.Event{"ev": "Attach", "k": "xnode"})
	w.attachAt = time.Now()
	w.mu.Unlock()
	l := session.NewCrossNodeListener(r.sm, 0)
	if r.b.Frag {
		// the frame arrives in two segments: the listener is already reading when the rest comes
		if _, err := x.cli.Write(first.Bytes()[:7]); err != nil {
			return err
		}
		go crossNodeHandleConnection(l, r.ctx, x.srv)
		time.Sleep(3 * time.Millisecond)
		if _, err := x.cli.Write(first.Bytes()[7:]); err != nil {
			return err
		}
	} else {
		if _, err := x.cli.Write(first.Bytes()); err != nil {
			return err
		}
		go crossNodeHandleConnection(l, r.ctx, x.srv)
	}

	r.pumps(c, x.cli)
	return nil
}

// pumps: an end whose connection to the server is a real TCP connection keeps its fake connection as
// its books (what it wrote, what it received, whether it saw end-of-stream); two pumps move the bytes
// between those books and the TCP connection.
func (r *run) pumps(c *fakeConn, tcp *net.TCPConn) {
	w := r.w
	// end -> node connection
	go func() {
		for {
			w.mu.Lock()
			for len(c.in) == 0 && !c.inEOF && !c.failed && !c.closed && !w.seal {
				w.cond.Wait()
			}
			var chunk []byte
			if len(c.in) > 0 && !c.failed {
				chunk, c.in = c.in[0], c.in[1:]
			}
			eof, failed, stop := c.inEOF, c.failed, c.closed || w.seal
			w.mu.Unlock()
			switch {
			case chunk != nil:
				if _, err := tcp.Write(chunk); err != nil {
					return
				}
			case failed, eof:
				if failed {
					tcp.SetLinger(0) // connection reset
				}
				tcp.Close()
				w.mu.Lock()
				if !c.closed {
					c.closed, c.closeT = true, time.Now() // (the end's own doing; only the other end's closure is judged)
				}
				w.mu.Unlock()
				return
			case stop:
				return
			}
		}
	}()
	// node connection -> end
	go func() {
		buf := make([]byte, copyBuf)
		for {
			n, err := tcp.Read(buf)
			w.mu.Lock()
			if n > 0 && !c.inEOF && !c.failed {
				c.deliver(buf[:n])
			}
			if err != nil {
				if !c.closed && !c.inEOF && !c.failed {
					// end-of-stream from the server: the end observes closure - and does what a peer
					// node does then, it closes its side
					c.closed, c.closeT = true, time.Now()
				}
				w.cond.Broadcast()
				w.mu.Unlock()
				tcp.Close()
				return
			}
			w.mu.Unlock()
		}
	}()
}

// ---- fwd ------------------------------------------------------------------------------------------
// The server in the OTHER cross-node role: it is the target's node. The bridge lives on the source's node
// (played by the driver: a TCP listener); the target's tunnel connection arrives through the packet path,
// handleTunnelOpen finds the tunnel in the routing table (source node = another node) and
// forwardToSourceNode acknowledges, dials the source node through the TunnelConnectionManager, sends the
// TargetReady frame and runCrossNodeDataForwardDedicated splices the target's connection and that TCP
// connection with two io.Copy loops. For this server the source end IS the TCP connection; "the server
// forgets the tunnel" = the TunnelConnectionManager has no connection for it any more.

const (
	srcNode = "node-S"
	ownNode = "node-T"
	idleFor = 400 * time.Millisecond // IdleTimeout of the TunnelConnectionManager in scripts with a hold step (real: 5 min, swept every 30 s)
)

// cleanupIdleConnections is what the manager's 30 s ticker calls; a hold step lets that tick happen.
//
//go:linkname tcmCleanupIdle tunnox-core/internal/protocol/session.(*TunnelConnectionManager).cleanupIdleConnections
func tcmCleanupIdle(m *session.TunnelConnectionManager)

// setupFwd: routing table with the waiting tunnel of the source's node, the connection manager, and the
// source node's listener. The first frame on an accepted connection must be TargetReady for this tunnel;
// from then on the connection carries the source end's bytes.
func (r *run) setupFwd(hasHold bool) error {
	ln, err := net.Listen("tcp", "127.0.0.1:0")
	if err != nil {
		return err
	}
	x := &xnode{ln: ln}
	r.xn = x
	r.sm.SetNodeID(ownNode)
	rt := session.NewTunnelRoutingTable(doubles.NewStore("route", nil), 0)
	if err := rt.RegisterWaitingTunnel(r.ctx, &session.TunnelWaitingState{TunnelID: tunnelID, MappingID: mappingID, SecretKey: "k",
		SourceNodeID: srcNode, SourceClientID: srcClient, TargetClientID: dstClient}); err != nil {
		return err
	}
	r.sm.SetTunnelRoutingTable(rt)
	cfg := session.DefaultTunnelConnectionManagerConfig()
	if hasHold {
		cfg.IdleTimeout = idleFor
	}
	r.tcm = session.NewTunnelConnectionManager(func(node string) (string, error) {
		if node != srcNode {
			return "", errors.New("unknown node " + node)
		}
		return ln.Addr().String(), nil
	}, cfg)
	r.sm.SetTunnelConnectionManager(r.tcm)
	sc, _ := r.newConn("S") // the source end's books
	go func() {
		s, err := ln.Accept()
		if err != nil {
			return
		}
		tcp := s.(*net.TCPConn)
		r.w.mu.Lock()
		x.srv = tcp
		r.w.mu.Unlock()
		id, ft, data, err := session.ReadFrame(tcp)
		full, _, derr := session.DecodeTargetReadyMessage(data)
		if err != nil || derr != nil || ft != session.FrameTypeTargetReady || session.TunnelIDToString(id) == "" || full != tunnelID {
			r.w.mu.Lock()
			r.late = "the source node did not get a TargetReady frame for the tunnel"
			r.w.mu.Unlock()
			tcp.Close()
			return
		}
		r.pumps(sc, tcp)
	}()
	return nil
}

// busyHold: the tunnel outlives the heartbeat / idle timeouts while both ends keep talking (a byte each
// every 100 ms); then the connection manager's sweep ticks.
func (r *run) busyHold(d time.Duration) {
	w := r.w
	for t0 := time.Now(); time.Since(t0) < d; time.Sleep(100 * time.Millisecond) {
		w.mu.Lock()
		for _, e := range []string{"S", "T"} {
			en := w.ends[e]
			if len(en.conns) == 0 || w.ended != "none" {
				continue
			}
			if c := en.cur(); !c.inEOF && !c.failed {
				// (a write into a connection the server has just closed by itself still goes out: see "send")
				dir := outOf(e)
				w.log(fw.Event{"ev": "Send", "e": e, "dir": dir, "n": 1})
				if !c.closed {
					c.in = append(c.in, fill(tagOf(dir), en.sendOff, 1))
				}
				en.sendOff++
			}
		}
		w.cond.Broadcast()
		w.mu.Unlock()
	}
	if r.tcm != nil {
		// the sweep ticks right behind moving bytes: wait until the last round has arrived (a starved
		// process must not make a busy tunnel look idle)
		r.poll(2*time.Second, func() bool {
			s, t := w.ends["S"], w.ends["T"]
			return (s.recvOff == t.sendOff && t.recvOff == s.sendOff) || w.ended != "none" || r.bridgeGone()
		})
		tcmCleanupIdle(r.tcm)
	}
}
