// C02 driver: a tunnel is a transparent, ordered, loss-free byte pipe between its ends.
//
// Behaviours come from spec/Bridge.tla (TLC, transition coverage + random simulation): scripts of
// environment steps (an end writes a chunk of a size class around the 32 KiB copy buffer, the
// target attaches, an end closes / fails / fails inside a write / has a transient read timeout -
// with or without bytes coming together with the timeout, EOF or error -, the source reconnects,
// a third party closes the bridge, an end goes away while a chunk is being paced out at 1 KiB/s) interleaved with the Read and Write
// steps of the two copy loops, per bandwidth-limit class. Each script is executed on the real
// code the way the server runs a tunnel: a real session.SessionManager, the real (unexported,
// bound by go:linkname) SessionManager.startSourceBridge - which builds the real tunnel.Bridge,
// registers it in the tunnel map and starts runBridgeLifecycle / Bridge.Start - and
// Bridge.SetTargetConnection / SetSourceConnection exactly as handleTargetBridge /
// handleExistingBridge call them. Only the environment is replaced: the two client connections
// are scripted net.Conn fakes (world.go) whose Read / Write calls are the gates at which the
// model's copier steps are released (gated mode), or which run freely (free mode); the mapping
// (bandwidth limit) comes from a scripted CloudControlAPI.
// The two legs of a tunnel arrive in every way the server knows (attach.go): the source by a call of
// startSourceBridge or through the packet path (Handshake, TunnelOpen -> handleSourceBridge); the target by
// SetTargetConnection, through the packet path (-> handleExistingBridge), from another node through the
// CrossNodeListener ("xnode"), or - the other cross-node role - at THIS server while the bridge lives on the
// source's node ("fwd": forwardToSourceNode / runCrossNodeDataForwardDedicated; the driver plays the source's
// node). Scripts with a hold step let the tunnel outlive the heartbeat timeout / the connection manager's
// idle timeout; statstall makes the statistics backend (cloud control) hang.
// The payload is a counter stream per direction, so every write of the bridge to an end is a
// Deliver(dir, offset, len, equal) observation. Recorded traces are judged by spec/BridgeTrace.tla.
package main

import (
	"encoding/json"
	"fmt"
	"hash/fnv"
	"net"
	"os"
	"sync"
	"time"
	_ "unsafe" // go:linkname

	corelog "tunnox-core/internal/core/log"
	"tunnox-core/internal/packet"
	"tunnox-core/internal/protocol/session"
	"tunnox-core/internal/stream"
	"tunnox-core/verifharness/fw"
)

// startSourceBridge is the real, unexported method of package session (server_bridge.go) that the
// packet handler calls when the source client's tunnel connection arrives. It is bound by symbol
// name, so no export shim / hook patch in tunnox-core is needed; if it is renamed or its signature
// changes the driver stops linking and the check reports INCONCLUSIVE (exit 2), never a verdict.
// The empty.s file in this directory allows the body-less declaration.
//
//go:linkname startSourceBridge tunnox-core/internal/protocol/session.(*SessionManager).startSourceBridge
func startSourceBridge(s *session.SessionManager, req *packet.TunnelOpenRequest, sourceConn net.Conn, sourceStream stream.PackageStreamer) error

func h64(seed int64, s string) uint64 {
	h := fnv.New64a()
	fmt.Fprintf(h, "%d|%s", seed, s)
	return h.Sum64()
}

const raceLoops = 200

type genLine struct {
	Lim   string `json:"lim"`
	Steps []step `json:"steps"`
	Src   string `json:"src,omitempty"` // how the source leg arrived: "" (= direct: startSourceBridge called) | "pkt"
}

// (the field order of genLine / step is the canonical form that is hashed)

func endsWithEnding(g *genLine) bool {
	n := len(g.Steps)
	return n > 0 && (g.Steps[n-1].A == "close" || g.Steps[n-1].A == "error")
}

func onlyClasses(g *genLine, cs ...string) bool {
	for _, st := range g.Steps {
		if st.A == "send" {
			ok := false
			for _, c := range cs {
				ok = ok || st.C == c
			}
			if !ok {
				return false
			}
		}
	}
	return true
}

func reads(c string) int {
	if c == "Bp1" || c == "big" {
		return 2
	}
	return 1
}

// shape classifies a generated script.
type shape struct {
	nR, nW, want      int // gate steps, and the reads needed to take in everything that was sent
	ending, fault     bool
	replace, timeout  bool
	attach            bool
	sendS, sendT      bool
	lastGate, hasGate bool
	endBeforeAttach   bool // an end closed or failed before the target was attached
	dataErr           bool // a read returns bytes together with an error (timeout / EOF / connection error), and
	dataErrLast       bool // ... the script ends with the first Read of that end's direction after the fault was set up
	paceClose         bool // an end closes / fails while a chunk read from the other end is being paced out
	routeFail         bool // the routing store fails deletes
	statCase          bool // the statistics backend stalls, and the end that then closes has sent before
	errX              bool // an end fails for good with an error that says Timeout() or Temporary() about itself
	sErrX             bool // ... the source end does
	statFlow          bool // a chunk is written while the statistics backend does not answer (the bytes must still get through)
	hold              bool // the tunnel outlives the heartbeat timeout
	tFault            bool // a fault on the target's connection that only a fake connection can play
	stallCase         bool // an end stops draining, the other end has sent and then closes / fails
	plain             bool // nothing but sends, attach, one fault step, gates and one plain close / error
}

func shapeOf(g *genLine) shape {
	var s shape
	faultDir, readsAfter, sent, pacing := "", 0, map[string]bool{}, false
	stalledEnd, statStalled := "", false
	s.plain = true
	for i, st := range g.Steps {
		s.lastGate = false
		switch st.A {
		case "statstall":
			statStalled = true
		case "statresume":
			statStalled, s.plain = false, false
		case "hold":
			s.hold = true
		case "routefail":
			s.routeFail = true
		case "stall":
			stalledEnd = st.E
		case "unstall":
			stalledEnd, s.plain = "", false
		case "close", "error":
			if stalledEnd != "" && st.E == other(stalledEnd) && sent[outOf(st.E)] {
				s.stallCase = true
			}
			if statStalled && sent[outOf(st.E)] {
				s.statCase = true
			}
			if st.W == "data" {
				s.plain = false
				s.tFault = s.tFault || st.E == "T"
			}
			if st.X != "" {
				s.errX, s.sErrX = true, s.sErrX || st.E == "S"
				s.tFault = s.tFault || st.E == "T"
			}
		case "arm", "glitch", "replace", "closeold", "extclose", "timeout":
			s.plain = false
			s.tFault = s.tFault || ((st.A == "arm" || st.A == "glitch") && st.E == "T")
		}
		if st.K == "tn" || st.W == "data" {
			s.dataErr, faultDir = true, outOf(st.E)
		}
		switch {
		case st.A == "send":
			sent[outOf(st.E)] = true
		case st.A == "R" && sent[st.D]:
			pacing = true
			if st.D == faultDir {
				readsAfter++
				s.dataErrLast = readsAfter == 1 && i == len(g.Steps)-1
			}
		case st.A == "W":
			pacing = false
			s.statFlow = s.statFlow || statStalled
		case (st.A == "close" || st.A == "error") && pacing:
			s.paceClose = true
		}
		switch st.A {
		case "R":
			s.nR++
			s.hasGate, s.lastGate = true, i == len(g.Steps)-1
		case "W":
			s.nW++
			s.hasGate, s.lastGate = true, i == len(g.Steps)-1
		case "send":
			s.want += reads(st.C)
			if st.E == "S" {
				s.sendS = true
			} else {
				s.sendT = true
			}
		case "attach":
			s.attach = true
		case "close", "error", "extclose":
			s.ending = true
			if !s.attach && st.A != "extclose" {
				s.endBeforeAttach = true
			}
		case "arm", "glitch", "stall", "unstall", "routefail", "statstall", "statresume":
			s.fault = true
			s.tFault = s.tFault || ((st.A == "stall" || st.A == "unstall") && st.E == "T")
		case "replace", "closeold":
			s.replace = true
		case "timeout":
			s.timeout = true
		}
	}
	return s
}

// withStatStall: the same script with the statistics backend going down just before the first end closes
// or fails (a step the model allows there: StatStall changes nothing a copier does). Only for scripts in
// which the target is attached by then and bytes have moved (there is a last traffic report to make).
func withStatStall(g *genLine) ([]step, bool) {
	attached, sent := false, false
	for i, st := range g.Steps {
		switch st.A {
		case "attach":
			attached = true
		case "send":
			sent = true
		case "statstall", "statresume", "extclose", "timeout":
			return nil, false
		case "close", "error":
			if !attached || !sent {
				return nil, false
			}
			out := append(append(append([]step{}, g.Steps[:i]...), step{A: "statstall"}), g.Steps[i:]...)
			return out, true
		}
	}
	return nil, false
}

// keepPermille: share of the enumerated scripts outside the core set that is driven (seeded choice).
func keepPermille(env *fw.Env, src string) uint64 {
	q := map[string]uint64{"gen:errc": 4, "gen:S1": 6, "gen:S2": 10, "gen:repl": 30, "gen:S2full": 10, "gen:slow": 1000}[src]
	if q == 0 {
		return 1000 // simulation output is driven entirely
	}
	if env.Tier == "thorough" {
		return q * 6
	}
	return q
}

var (
	seenMu sync.Mutex
	seen   = map[string]bool{}
)

func expand(env *fw.Env, src string, raw json.RawMessage) []json.RawMessage {
	var g genLine
	if err := json.Unmarshal(raw, &g); err != nil {
		panic(err)
	}
	if g.Src == "direct" {
		g.Src = "" // (the canonical form of the scripts that existed before source kinds is unchanged)
	}
	for i := range g.Steps {
		if g.Steps[i].A == "error" && g.Steps[i].X == "plain" {
			g.Steps[i].X = "" // (likewise: an error that says nothing about itself is the error there always was)
		}
	}
	// TLC's ToJson does not fix the order of record fields: hash (and de-duplicate) the canonical form
	canon := string(fw.MustJSON(g))
	seenMu.Lock()
	dup := seen[src+canon]
	seen[src+canon] = true
	seenMu.Unlock()
	if dup {
		return nil
	}
	h := h64(env.Seed, canon)
	s := shapeOf(&g)
	// several small generation jobs share one TLC run (a JVM start costs seconds); sort them out again
	switch src {
	case "gen:S1f":
		src = "gen:S1"
	case "gen:paced":
		src = map[bool]string{true: "gen:slow", false: "gen:bidi"}[g.Lim == "slow"]
	case "gen:attach":
		k := []string{"pkt", "xnode"}[(h>>14)%2] // a script that leaves the attach to the finishing phase
		if (h>>16)%3 == 0 {
			k = "fwd"
		}
		for _, st := range g.Steps {
			if st.A == "attach" {
				k = st.K
			}
		}
		src = "gen:" + k
		if k == "fwd" && g.Src != "" {
			return nil // (no source leg on the target's node)
		}
	}
	if s.timeout {
		// Start's 30 s wait for the target: one script, thorough tier only
		if env.Tier != "thorough" || len(g.Steps) != 1 || g.Lim != "none" {
			return nil
		}
	}
	// core set, always driven: one end or both send, the target attaches, every chunk is read (and,
	// where the model's limiter lets it, written): the plain "everything arrives" scripts of every
	// limit class, size class and direction, gate by gate
	core := !s.ending && !s.fault && !s.replace && !s.timeout && s.attach && s.want > 0 && s.nR == s.want && s.lastGate &&
		len(g.Steps) <= 8 && src == "gen:S1"
	if g.Lim == "slow" {
		// 1 KiB/s: only the scripts this class exists for - an end goes away while a 32 KiB chunk of the
		// other end is being paced out (30 s). A few of them in the quick tier, all in the thorough tier.
		endsThere := len(g.Steps) > 0 && (g.Steps[len(g.Steps)-1].A == "close" || g.Steps[len(g.Steps)-1].A == "error")
		if !s.paceClose || s.want != 1 || (env.Tier != "thorough" && !endsThere) {
			return nil
		}
	} else if src == "gen:bidi" {
		// both directions pacing at once under one limiter: free running only, one script per order of
		// the environment steps (the gates of four paced chunks would take the pacing apart)
		if !(s.sendS && s.sendT && s.attach && !s.ending && !s.fault && s.want >= 3) {
			return nil
		}
		var env []step
		for _, st := range g.Steps {
			if st.A != "R" && st.A != "W" {
				env = append(env, st)
			}
		}
		key := "bidi-env:" + string(fw.MustJSON(env))
		seenMu.Lock()
		dup := seen[key]
		seen[key] = true
		seenMu.Unlock()
		if dup || len(env) != 3 {
			return nil
		}
		b := beh{Lim: g.Lim, Steps: env, Mode: "free", Via: []string{"conn", "stream"}[(h>>8)%2],
			FinE: []string{"S", "T"}[(h>>9)%2], FinK: "close", Big: 2 * copyBuf}
		return []json.RawMessage{fw.MustJSON(b)}
	} else if src == "gen:xnode" || src == "gen:fwd" {
		// the target on another node / this server as the target's node: free running only (one end is a
		// TCP connection), one script per order of the environment steps, nothing a real socket cannot be told to do
		if s.tFault || s.replace || s.timeout || !s.attach || s.fault || (src == "gen:fwd" && s.sErrX) {
			return nil
		}
		var steps []step
		for _, st := range g.Steps {
			if st.A != "R" && st.A != "W" {
				steps = append(steps, st)
			}
		}
		key := src + g.Src + "-env:" + string(fw.MustJSON(steps))
		if src == "gen:xnode" && g.Src == "" {
			key = "xnode-env:" + string(fw.MustJSON(steps))
		}
		seenMu.Lock()
		dup := seen[key]
		seen[key] = true
		seenMu.Unlock()
		if dup || (env.Tier != "thorough" && len(steps) > 4) {
			return nil
		}
		b := beh{Lim: g.Lim, Steps: steps, Mode: "free", Via: []string{"conn", "stream"}[(h>>8)%2], AttachK: src[4:], Src: g.Src,
			FinE: []string{"S", "T"}[(h>>9)%2], FinK: []string{"close", "error"}[(h>>10)%2], Drain: (h>>11)%2 == 0, Big: 2 * copyBuf,
			Frag: src == "gen:xnode" && (h>>18)%2 == 0}
		out := []json.RawMessage{fw.MustJSON(b)}
		if st, ok := withStatStall(&genLine{Steps: steps}); ok && (h>>17)%2 == 0 {
			b.Steps = st
			out = append(out, fw.MustJSON(b))
		}
		return out
	} else if src == "gen:pkt" || src == "gen:srcpkt" {
		// the target (gen:pkt) / the source (gen:srcpkt; both when the script says src = pkt) through the
		// packet path; the scripts that outlive the heartbeat timeout always (they cost a second each), a
		// share of the others
		if s.timeout || (!s.hold && h%1000 >= 150) || (s.errX && len(g.Steps) > 5 && h%1000 >= 40) || (s.hold && env.Tier != "thorough" && (len(g.Steps) > 5 || s.ending)) ||
			(s.hold && env.Tier == "thorough" && len(g.Steps) > 5 && h%1000 >= 50) {
			return nil
		}
	} else if src == "gen:S1" && s.plain && endsWithEnding(&g) && (g.Lim == "none" || env.Tier == "thorough") &&
		((s.routeFail && s.want == 0 && !s.hasGate) ||
			(s.statCase && len(g.Steps) <= 6 && (env.Tier == "thorough" || onlyClasses(&g, "one", "Bp1"))) ||
			(s.stallCase && len(g.Steps) <= 5 && (env.Tier == "thorough" || onlyClasses(&g, "one", "Bp1")))) {
		// the minimal scripts of two environment faults, always: the routing store refuses deletes when
		// the tunnel is torn down; an end that does not drain while the other end sends and goes away
	} else if src == "gen:errc" {
		// the classes of permanent errors: only the scripts in which an end fails with one; the minimal
		// ones (the failure with the other end idle / having sent / before the attach) always
		minimal := len(g.Steps) <= 5 && !s.fault && (g.Lim == "none" || env.Tier == "thorough")
		if !s.errX || s.timeout || (!minimal && h%1000 >= keepPermille(env, src)) {
			return nil
		}
	} else if src == "gen:S1" && s.statFlow && s.attach && !s.ending && s.lastGate && s.nR == s.want && len(g.Steps) <= 6 &&
		(g.Lim == "none" || env.Tier == "thorough") && onlyClasses(&g, "one", "Bp1") {
		// the statistics backend does not answer while bytes flow: the pipe must not depend on it. Gated as
		// generated, and free running with the write blown up to 1 MiB + 32 KiB + 1 (the copy loop's batch counters)
		bigger := beh{Lim: g.Lim, Mode: "free", Via: []string{"conn", "stream"}[(h>>8)%2], FinE: []string{"S", "T"}[(h>>9)%2],
			FinK: "close", Drain: true, Big: 1 << 20, Src: g.Src}
		bigger.Steps = []step{{A: "statstall"}} // (free running: the backend is down before the bytes start to flow)
		for _, st := range g.Steps {
			switch st.A {
			case "send":
				st.C = "big"
				bigger.Steps = append(bigger.Steps, st)
				st.C = "Bp1" // ... and more behind it: the thresholds are crossed in mid-stream
				bigger.Steps = append(bigger.Steps, st)
			case "attach":
				bigger.Steps = append([]step{st}, bigger.Steps...) // (a stalled backend before the attach delays the set-up, which is not judged)
			case "statstall", "R", "W":
			default:
				bigger.Steps = append(bigger.Steps, st)
			}
		}
		gated := beh{Lim: g.Lim, Steps: g.Steps, Mode: "gated", Via: bigger.Via, FinE: bigger.FinE, FinK: "close", Drain: true, Big: 2 * copyBuf, Src: g.Src}
		return []json.RawMessage{fw.MustJSON(gated), fw.MustJSON(bigger)}
	} else if s.dataErr && s.dataErrLast && src == "gen:S1" && len(g.Steps) <= 5 {
		// reads that return bytes together with an error: the minimal scripts (one write, the fault,
		// the read that takes the bytes) at a higher rate
		if env.Tier != "thorough" && h%1000 >= 50 {
			return nil
		}
	} else if !core && !s.timeout && h%1000 >= keepPermille(env, src) {
		return nil
	}
	paced := g.Lim == "tiny" || g.Lim == "edge" || g.Lim == "slow"
	mk := func(mode string, salt uint64) json.RawMessage {
		b := beh{Lim: g.Lim, Steps: g.Steps, Mode: mode, Route: s.routeFail || (h>>13)%4 == 0, Src: g.Src,
			AttachK: map[string]string{"gen:pkt": "pkt"}[src],
			Via:     []string{"conn", "stream"}[(h>>8+salt)%2],
			FinE:    []string{"S", "T"}[(h>>9+salt)%2],
			FinK:    []string{"close", "error"}[(h>>10)%2],
			Drain:   (h>>11)%2 == 0,
			Big:     2 * copyBuf}
		if mode == "free" && !paced {
			b.Big = 1 << 20
		}
		return fw.MustJSON(b)
	}
	out := []json.RawMessage{mk("gated", 0)}
	if st, ok := withStatStall(&g); ok && (src == "gen:pkt" || src == "gen:srcpkt") && (h>>17)%2 == 0 {
		var b beh
		json.Unmarshal(out[0], &b)
		b.Steps = st
		out = append(out, fw.MustJSON(b))
	}
	// the same script without gates (the copiers race the script), for a share of them
	if core || (h>>12)%3 == 0 || g.Lim == "slow" || (src == "gen:errc" && len(g.Steps) <= 5 && !s.fault) {
		out = append(out, mk("free", 1))
		// Scripts in which an end is already closed / failed when the target attaches make one copier
		// finish (and Bridge.Close run) while the other goroutine is still starting: a scheduling race
		// no gate can pin down. They are executed raceLoops times (cheap: unpaced, ~1 ms each).
		if s.endBeforeAttach && !paced && src != "gen:pkt" && src != "gen:srcpkt" && src != "gen:errc" {
			var b beh
			json.Unmarshal(out[len(out)-1], &b)
			b.Loops = raceLoops
			out[len(out)-1] = fw.MustJSON(b)
		}
	}
	return out
}

// ---- self-test: corrupted copies of accepted traces must be rejected --------------------------

func cloneTrace(t *fw.Trace, id int) *fw.Trace {
	c := &fw.Trace{Beh: t.Beh, Status: t.Status}
	c.Beh.ID = id
	for _, e := range t.Events {
		ne := fw.Event{}
		for k, v := range e {
			ne[k] = v
		}
		c.Events = append(c.Events, ne)
	}
	return c
}

func selfTest(env *fw.Env, accepted []*fw.Trace) []*fw.Trace {
	var out []*fw.Trace
	id := 10_000_000
	next := func(t *fw.Trace) *fw.Trace { id++; return cloneTrace(t, id) }
	find := func(t *fw.Trace, ev string, pred func(fw.Event) bool) int {
		for i, e := range t.Events {
			if e["ev"] == ev && (pred == nil || pred(e)) {
				return i
			}
		}
		return -1
	}
	done := 0
	for _, t := range accepted {
		if done >= 3 {
			break
		}
		// a trace with a delivery, a successful drain and a judged ending
		i := find(t, "Deliver", nil)
		d := find(t, "Drain", func(e fw.Event) bool { return e["ok"] == true })
		ce := find(t, "CloseEnd", func(e fw.Event) bool { return e["kind"] == "close" || e["kind"] == "error" })
		if i < 0 || d < 0 || ce < d || find(t, "Env", func(e fw.Event) bool { return e["a"] == "replace" }) >= 0 {
			continue
		}
		ender := t.Events[ce]["e"].(string)
		cl := find(t, "Closure", func(e fw.Event) bool { return e["e"] == other(ender) })
		fg := find(t, "Forgot", nil)
		if cl < 0 || fg < 0 {
			continue
		}
		done++
		c := next(t) // corrupted content
		c.Events[i]["eq"] = false
		out = append(out, c)
		c = next(t) // a chunk is lost (the next one leaves a gap, or the drain count is short)
		c.Events = append(c.Events[:i:i], c.Events[i+1:]...)
		out = append(out, c)
		c = next(t) // a chunk is delivered twice
		c.Events = append(c.Events[:i+1:i+1], append([]fw.Event{cloneTrace(t, 0).Events[i]}, c.Events[i+1:]...)...)
		out = append(out, c)
		c = next(t) // bytes nobody sent
		c.Events[i]["len"] = c.Events[i]["len"].(int) + 1<<21
		out = append(out, c)
		c = next(t) // the server process died
		c.Events = append(c.Events[:d:d], append([]fw.Event{{"ev": "Crash", "fn": "selftest"}}, c.Events[d:]...)...)
		out = append(out, c)
		c = next(t) // the other end never saw the closure
		c.Events[cl]["seen"] = false
		out = append(out, c)
		c = next(t) // the server kept the tunnel
		c.Events[fg]["n"] = 1
		out = append(out, c)
	}
	// clause (b): a graceful close after the last write whose tail is cut
	for _, t := range accepted {
		ce := find(t, "CloseEnd", nil)
		if ce < 0 || t.Events[ce]["kind"] != "close" || find(t, "Drain", nil) >= 0 ||
			find(t, "Env", func(e fw.Event) bool { return e["a"] == "replace" }) >= 0 {
			continue
		}
		ender := t.Events[ce]["e"].(string)
		last := -1
		for i, e := range t.Events {
			if e["ev"] == "Deliver" && e["dir"] == outOf(ender) {
				last = i
			}
			if (e["ev"] == "Send" && e["e"] != ender) || (e["ev"] == "CloseEnd" && i != ce) {
				last = -1
				break
			}
		}
		if last < ce {
			continue
		}
		c := next(t)
		c.Events = append(c.Events[:last:last], c.Events[last+1:]...)
		out = append(out, c)
		break
	}
	return out
}

// limiterSplits probes the real code: does a read larger than the limiter's burst end the tunnel
// (as found) or is the wait split? Used only to pick the generator's model variant.
func limiterSplits(env *fw.Env) bool {
	probe := beh{Lim: "tiny", Mode: "free", Via: "conn", FinE: "S", FinK: "close", Big: 2 * copyBuf,
		Steps: []step{{A: "attach"}, {A: "send", E: "S", C: "B"}}}
	t := drive(env, fw.Behaviour{Data: fw.MustJSON(probe)})
	for _, e := range t.Events {
		if e["ev"] == "Drain" {
			return e["ok"] == true
		}
	}
	return false
}

func main() {
	corelog.SetDefault(corelog.NewNopLogger())
	if len(os.Args) > 1 && os.Args[1] == "--worker" {
		workerMain()
		return
	}
	all := `{"none", "tiny", "edge", "large"}`
	cls := `{"one", "Bm1", "B", "Bp1", "big"}`
	fw.Main(&fw.Property{
		ID:        "C02",
		DesignRef: "DESIGN.md §5 C02",
		ModelJobs: func(env *fw.Env) []fw.TLCJob {
			mc := func(name, cfg, maxs, repl, faults, c string) fw.TLCJob {
				return fw.TLCJob{Name: name, Module: "Bridge", Cfg: cfg, Timeout: 14 * time.Minute,
					Consts: map[string]string{"MAXS": maxs, "REPL": repl, "FAULTS": faults, "CLS": c, "AK": `{"local"}`, "HOLD": "FALSE", "SK": `{"direct"}`,
						"EC": `{"plain"}`, "LIMS": all, "POLL": "FALSE"}}
			}
			// every class of permanent error (what it says about itself: nothing / Timeout() / Temporary())
			// ... and polling transports (every idle Read returns a temporary timeout)
			classes := func(j fw.TLCJob) fw.TLCJob {
				j.Consts["EC"], j.Consts["POLL"] = `{"plain", "tmo", "tmp"}`, "TRUE"
				return j
			}
			tmo := func(j fw.TLCJob) fw.TLCJob { j.Consts["EC"], j.Consts["POLL"] = `{"plain", "tmo"}`, "TRUE"; return j }
			// the limit class is chosen once, in Init: the state space is the disjoint union over the classes, a
			// large job is split along them so that each part stays well inside its timeout on a loaded machine
			split := func(j fw.TLCJob, parts ...string) []fw.TLCJob {
				var out []fw.TLCJob
				for _, l := range parts {
					p := j
					p.Consts = map[string]string{}
					for k, v := range j.Consts {
						p.Consts[k] = v
					}
					p.Consts["LIMS"] = l
					p.Name = j.Name[:len(j.Name)-1] + ",lim " + l + ")"
					out = append(out, p)
				}
				return out
			}
			kinds := func(j fw.TLCJob) fw.TLCJob { // every way the two legs arrive, tunnels that outlive the heartbeat / idle timeouts
				j.Consts["AK"], j.Consts["HOLD"], j.Consts["SK"] = `{"local", "pkt", "xnode", "fwd"}`, "TRUE", `{"direct", "pkt"}`
				if env.Tier != "thorough" || j.Cfg == "Bridge_live.cfg" || j.Cfg == "Bridge_live_fixed.cfg" {
					j.Consts["SK"] = `{"pkt"}` // (with no leg left registered the source kind changes nothing: one of them)
				}
				return j
			}
			cov := func(j fw.TLCJob) fw.TLCJob { j.Coverage = true; return j } // action coverage (vacuity guard) in the evidence
			small := `{"one", "Bp1"}`
			// as-found = the code as it was found (the three named deviations modelled, clauses in their
			// "or the deviation happened" form); as-needed = limiter waits split, forwarder snapshot,
			// replaced source closed (strict clauses, nothing excused)
			if env.Tier == "thorough" {
				// (three writes: without the "large" class - a limiter that never waits, the no-limit state space once more with
				// one step added per chunk; it stays in every job with fewer writes)
				jobs := split(mc("mc:as-found(S=3)", "Bridge_mc.cfg", "3", "FALSE", "TRUE", cls), `{"none"}`, `{"tiny", "edge"}`)
				jobs = append(jobs, split(mc("mc:as-found(S=2,replace)", "Bridge_mc.cfg", "2", "TRUE", "TRUE", cls), `{"none", "large"}`, `{"tiny", "edge"}`)...)
				return append(jobs,
					cov(mc("mc:as-needed(S=2,replace)", "Bridge_fixed.cfg", "2", "TRUE", "TRUE", cls)),
					classes(mc("mc:as-found(S=1,replace,error classes)", "Bridge_mc.cfg", "1", "TRUE", "TRUE", cls)),
					classes(mc("mc:as-needed(S=1,replace,error classes)", "Bridge_fixed.cfg", "1", "TRUE", "TRUE", cls)),
					classes(mc("live:as-needed(S=1,error classes,{1,32K+1})", "Bridge_live_fixed.cfg", "1", "FALSE", "TRUE", small)),
					classes(kinds(mc("mc:as-needed(S=1,attach kinds,error classes,{1,32K+1})", "Bridge_fixed.cfg", "1", "FALSE", "TRUE", small))),
					mc("live:as-found(S=1,replace,{1,32K+1})", "Bridge_live.cfg", "1", "TRUE", "TRUE", small),
					mc("live:as-found(S=2,{1,32K+1})", "Bridge_live.cfg", "2", "FALSE", "TRUE", small),
					mc("live:as-needed(S=1,replace)", "Bridge_live_fixed.cfg", "1", "TRUE", "TRUE", cls),
					mc("live:as-needed(S=2,{1,32K+1})", "Bridge_live_fixed.cfg", "2", "FALSE", "TRUE", small),
					kinds(mc("mc:as-found(S=1,attach kinds)", "Bridge_mc.cfg", "1", "FALSE", "TRUE", cls)),
					kinds(mc("mc:as-needed(S=1,attach kinds)", "Bridge_fixed.cfg", "1", "TRUE", "TRUE", cls)),
					kinds(mc("live:as-needed(S=1,attach kinds,{1,32K+1})", "Bridge_live_fixed.cfg", "1", "FALSE", "TRUE", small)),
				)
			}
			return []fw.TLCJob{
				classes(mc("mc:as-found(S=2,replace,{1,32K+1},no faults)", "Bridge_mc.cfg", "2", "TRUE", "FALSE", small)),
				tmo(kinds(mc("mc:as-needed(S=1,attach kinds,{32K+1})", "Bridge_fixed.cfg", "1", "FALSE", "TRUE", `{"Bp1"}`))),
				tmo(mc("live:as-found(S=1,replace,{1,32K+1},no faults)", "Bridge_live.cfg", "1", "TRUE", "FALSE", small)),
			}
		},
		GenJobs: func(env *fw.Env) []fw.TLCJob {
			// The scripts carry the copier steps the model predicts; after a read that exceeds the
			// limiter's burst the as-found model ends the tunnel, the split-wait model goes on to Write.
			// A probe on the real code decides which of the two (both are model-checked above) the
			// generator follows, so that gated scripts stay in step with the code they run on.
			devlim := "TRUE"
			if limiterSplits(env) {
				devlim = "FALSE"
			}
			gen := func(name, maxs, lims, c, faults, repl, ext string) fw.TLCJob {
				return fw.TLCJob{Name: name, Module: "Bridge", Cfg: "Bridge_gen.cfg", Workers: 1, // one worker: breadth-first order (and so the script chosen per state) is reproducible
					Consts: map[string]string{"MAXS": maxs, "LIMS": lims, "CLS": c, "FAULTS": faults, "REPL": repl, "EXT": ext, "DEVLIM": devlim, "MAXSLOW": "5", "AK": `{"local"}`, "HOLD": "FALSE", "SK": `{"direct"}`, "EC": `{"plain"}`, "POLL": "TRUE"}}
			}
			sim := func(n int) fw.TLCJob {
				j := gen("sim:S3", "3", all, cls, "TRUE", "FALSE", "TRUE")
				j.Workers, j.Simulate, j.Depth, j.Seed = 1, fmt.Sprintf("num=%d", n), 30, env.Seed
				return j
			}
			// quick: the one-write scripts without the "large" limit class (a limiter that never waits) and
			// without third-party closes; both are in gen:S2 / sim and in the thorough tier
			s1lims, s1ext := `{"none", "tiny", "edge"}`, "FALSE"
			if env.Tier == "thorough" {
				s1lims, s1ext = all, "TRUE"
			}
			jobs := []fw.TLCJob{
				gen("gen:S2", "2", all, `{"one", "Bp1"}`, "FALSE", "FALSE", "FALSE"),
				gen("gen:repl", "1", `{"none", "tiny"}`, `{"one", "Bp1"}`, "FALSE", "TRUE", "FALSE"),
			}
			if env.Tier == "thorough" {
				jobs = append(jobs, gen("gen:S1", "1", s1lims, cls, "TRUE", "FALSE", s1ext))
			} else {
				// quick: the faults on two size classes only (the plain scripts keep all five)
				jobs = append(jobs, gen("gen:S1", "1", s1lims, cls, "FALSE", "FALSE", s1ext),
					gen("gen:S1f", "1", s1lims, `{"one", "Bp1"}`, "TRUE", "FALSE", s1ext))
			}
			// the target through the packet path / from another node; tunnels that outlive the heartbeat timeout
			att := gen("gen:attach", map[bool]string{true: "2", false: "1"}[env.Tier == "thorough"], `{"none"}`, `{"one", "Bp1"}`, "FALSE", "FALSE", "FALSE")
			att.Consts["AK"], att.Consts["HOLD"], att.Consts["SK"] = `{"pkt", "xnode", "fwd"}`, "TRUE", `{"direct", "pkt"}`
			// the source through the packet path, the target attached directly
			spk := gen("gen:srcpkt", "1", `{"none"}`, `{"one", "Bp1"}`, "FALSE", "FALSE", "FALSE")
			spk.Consts["HOLD"], spk.Consts["SK"] = "TRUE", `{"pkt"}`
			// 1 KiB/s: an end goes away during the pacing of a chunk; 16383 B/s: both directions pace at once
			// (S: 64 KiB and T: 32 KiB or the reverse, ~4 s)
			paced := gen("gen:paced", "2", `{"tiny", "slow"}`, `{"B", "big"}`, "FALSE", "FALSE", "FALSE")
			paced.Consts["MAXSLOW"] = "9"
			att.Consts["EC"], spk.Consts["EC"] = `{"plain", "tmo", "tmp"}`, `{"plain", "tmo", "tmp"}`
			// an end fails for good with an error that says Timeout() / Temporary() about itself (the plain class is in every job)
			errc := gen("gen:errc", "1", map[bool]string{true: `{"none", "edge"}`, false: `{"none"}`}[env.Tier == "thorough"], `{"one", "Bp1"}`, "TRUE", "FALSE", "FALSE")
			errc.Consts["EC"] = `{"tmo", "tmp"}`
			jobs = append(jobs, att, spk, errc, paced)
			if env.Tier == "thorough" {
				return append(jobs, gen("gen:S2full", "2", all, cls, "FALSE", "FALSE", "FALSE"), sim(40))
			}
			return jobs // (random deep scripts: thorough tier)
		},
		ExtraBeh: func(env *fw.Env) []json.RawMessage {
			// thorough: tunnels that outlive the 30 s constants of the code (Start's ready timer, the routing
			// entry's TTL, the traffic-report tick), both ends talking all the while - every way the legs arrive
			if env.Tier != "thorough" {
				return nil
			}
			var out []json.RawMessage
			for i, c := range [][2]string{{"", ""}, {"", "pkt"}, {"pkt", "pkt"}, {"pkt", "xnode"}, {"", "fwd"}} {
				k := step{A: "attach", K: c[1]}
				out = append(out, fw.MustJSON(beh{Lim: "none", Mode: "free", Via: []string{"conn", "stream"}[i%2], Src: c[0], Long: true, Route: true,
					FinE: []string{"S", "T"}[i%2], FinK: "close", Drain: true, Big: 2 * copyBuf,
					Steps: []step{{A: "send", E: "S", C: "Bp1"}, k, {A: "hold"}, {A: "send", E: "T", C: "Bp1"}, {A: "send", E: "S", C: "one"}}}))
			}
			return out
		},
		Expand:      expand,
		Drive:       drive,
		Parallel:    16,
		JudgeModule: "BridgeTrace",
		JudgeCfg:    "BridgeTrace.cfg",
		SelfTest:    selfTest,
		PostDrive:   func(env *fw.Env, traces []*fw.Trace) error { stopWorkers(); return nil },
		NonTrivial: func(t *fw.Trace) bool {
			for _, e := range t.Events {
				if e["ev"] == "Deliver" || e["ev"] == "Closure" {
					return true
				}
			}
			return false
		},
		Rule: "transition coverage of the bridge model: one script per (state, step) of the model with <=1 write (all limit classes, size classes, " +
			"faults, third-party close), <=2 writes ({1, 32K+1}) and source replacement; the core set (every limit class x size class x direction, " +
			"attach before/after the first bytes, read and written gate by gate) always, a seeded share of the rest, plus random deep scripts (<=3 writes); " +
			"each gated script also free running for a share (free-running scripts in which an end is already closed or failed when the target attaches are executed 200 times: goroutine-start race); " +
			"the target attached directly (SetTargetConnection), through the packet path (Handshake, TunnelOpen -> handleExistingBridge), from another node (CrossNodeListener, free running) and " +
			"with this server as the target's node (forwardToSourceNode, free running), the source leg by startSourceBridge or through the packet path (handleSourceBridge): one script per (state, step) with <=1 write, " +
			"the scripts that outlive the heartbeat / idle timeouts always; the minimal scripts in which a chunk is written while the statistics backend does not answer, gated and free running with 1 MiB + 32 KiB + 1 bytes; " +
			"gen:errc: the scripts in which an end fails for good with an error that says Timeout() / Temporary() about itself - the minimal ones (other end idle / has sent / before the attach; <=5 steps, no other fault) always, gated and free running, a seeded share of the rest; " +
			"non-trivial = a trace with a delivery or closure observation",
		Assumptions: []string{
			"model buffer BUF=3 stands for the 32 KiB copy buffer; size classes map to {1, 32K-1, 32K, 32K+1, 64K (gated or paced) / 1 MiB (free, unpaced)} bytes",
			"limit classes map to {0, 16383 B/s (burst 32766 < 32767), 16384 B/s (burst = 32 KiB), 256 MiB/s, slow = 1024 B/s (burst 2 KiB: a 32 KiB chunk is paced out over 30 s; " +
				"only scripts in which an end without backlog of its own closes / fails 150 ms into that pacing are driven under it)}; at most 5 model units (~54 KiB) are sent under a pacing limit (limiter waits stay below ~1.5 s)",
			"bounded time = 5 s: closure/forgetting are measured from the first close/failure (or the attach, if later); a drain gives up after 5 s without any byte moving",
			"a behaviour during which a 5 ms sleeper woke more than 1.6 s late is discarded as inconclusive",
			"closed early is read from the trace: completeness is demanded at drains while both ends are open, and for a graceful close after the last write with a silent peer",
			"a fake connection preserves the write boundaries of its end; writes to a closed/failed end fail; a failed end drops unread bytes",
			"a fake connection can return bytes together with an error at a scripted read: (n, temporary timeout), (n, io.EOF) for the last bytes of a closed end, (n, connection error) for a failed end; such bytes count as read",
			"source replacement is outside the statement's wording: the pipe clauses are kept for the logical source end only after a clean handover (nothing unread on the old connection); closure/forgetting are judged as for any tunnel",
			"behaviours run in worker child processes; a worker that dies of a Go panic whose topmost frame is tunnox-core code is the observation Crash{fn} (clause Crash), any other worker death is a harness failure (exit 2)",
			"back-pressure: a stalled end does not drain (a Write to it parks); when the other end has gone the stalled end writes one byte in the finishing phase, closure/forgetting are measured from that byte (before it the bridge has had no occasion to notice)",
			"a quarter of the behaviours (and every one with routefail) run with a tunnel routing table over a storage double whose Delete of tunnox:tunnel_waiting:* fails once routefail was scripted",
			"bidirectional pacing: S 64 KiB + T 32 KiB (and the reverse) at 16383 B/s, free running, ~4 s each",
			"calls of the driver into the bridge that may hang (Close) run beside the script; a hang shows as Closure / Forgotten observations, not as a driver failure",
			"hold = the tunnel outlives HeartbeatTimeout 250 ms + CleanupInterval 80 ms (real: 60 s + 15 s) by 1.1 s; with this server as the target's node also the connection manager's IdleTimeout 400 ms (real: 5 min), " +
				"both ends writing a byte every 100 ms, then one tick of its 30 s sweep (cleanupIdleConnections, bound by go:linkname); a tunnel that is SILENT beyond the idle timeout is not demanded to survive; thorough: 31 s holds with traffic for every way the legs arrive",
			"this server as the target's node: the source end is the cross-node TCP connection (the driver plays the source's node: listener, TargetReady frame expected first), forgotten = TunnelConnectionManager.GetConnection(tunnel) is nil",
			"an end whose connection is TCP (xnode target, fwd source) observes closure when it reads end-of-stream or an error, and then closes its side (what a peer node / a client does); a fake connection that is half-closed by the server (CloseWrite) observes closure likewise",
			"error classes: a failed end returns its error on every further Read / Write; the error is a net.Error that says nothing (no Timeout/Temporary methods), Timeout() but not Temporary(), or Temporary() but not Timeout(); " +
				"a polling transport (glitch tp) returns (0, Timeout() and Temporary()) every 2 ms while idle (free running phases only); ends played over TCP (xnode target, fwd source) fail with a reset only",
			"Calls = Read / Write calls the server made on an end's connection after it had failed, counted until the end of the watch (a spinning caller is slowed to 1 call/ms after 200 calls); more than 4 is a busy loop (model: at most 2 per direction)",
			"once the target is attached a stalled statistics backend also stalls GetPortMapping (before that it would only delay the set-up of the tunnel, which is not judged)",
			"the generator follows the limiter variant (error / split waits on n > burst) that a probe on the real code shows; both variants are model-checked",
		},
		TrustedBase: []string{"TLC", "spec/BridgeTrace.tla as the reading of the statement", "fake connections and byte comparison in drivers/c02",
			"go:linkname binding to session.(*SessionManager).startSourceBridge, (*CrossNodeListener).handleConnection, (*TunnelConnectionManager).cleanupIdleConnections"},
	})
}
