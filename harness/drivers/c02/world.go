// world.go: the scripted environment of one tunnel (two ends with fake net.Conn connections whose
// Read / Write calls are gates, a scripted CloudControlAPI) and the execution of one behaviour on a
// real SessionManager / tunnel.Bridge.
package main

import (
	"context"
	"errors"
	"fmt"
	"io"
	"net"
	"strings"
	"sync"
	"sync/atomic"
	"time"

	"tunnox-core/internal/cloud/constants"
	"tunnox-core/internal/cloud/models"
	"tunnox-core/internal/cloud/stats"
	"tunnox-core/internal/core/idgen"
	"tunnox-core/internal/core/storage"
	"tunnox-core/internal/packet"
	"tunnox-core/internal/protocol/session"
	"tunnox-core/internal/protocol/session/tunnel"
	"tunnox-core/internal/stream"
	"tunnox-core/verifharness/doubles"
	"tunnox-core/verifharness/fw"
)

const (
	watchdog   = 5 * time.Second               // DESIGN.md Appendix B: "bounded time" = 5 s
	heartbeat  = 250 * time.Millisecond        // HeartbeatTimeout of scripts with a hold step (packet-path attach)
	sweepEvery = 80 * time.Millisecond         // CleanupInterval of those scripts
	holdFor    = 1100 * time.Millisecond       // a hold: more than 3 x (heartbeat + sweepEvery)
	gateWait   = 3 * time.Second               // a modelled copier step must arrive at its gate within this (limiter waits are <= 2 s)
	paceIn     = 150 * time.Millisecond        // under the "slow" limit: time given to a copier to enter the pacing of a chunk
	copyBuf    = int(constants.CopyBufferSize) // the bridge's copy buffer (32 KiB)
)

var (
	errReset  = errors.New("scripted: connection reset by peer")
	errPipe   = errors.New("scripted: broken pipe")
	errClosed = errors.New("scripted: use of closed network connection")
)

// timeoutErr is what a net.Conn returns when a read deadline fires: Timeout() and Temporary().
type timeoutErr struct{}

func (timeoutErr) Error() string   { return "scripted: i/o timeout" }
func (timeoutErr) Timeout() bool   { return true }
func (timeoutErr) Temporary() bool { return true }

// classErr is the error a connection that has failed for good returns on every further call, with what
// it says about itself (a net.Error): "tmo" = Timeout() but not Temporary() (quic-go's IdleTimeoutError:
// the peer vanished), "tmp" = Temporary() but not Timeout(). Neither is the expiry of a read deadline.
type classErr struct{ timeout, temporary bool }

func (e classErr) Error() string {
	return fmt.Sprintf("scripted: connection failed for good (Timeout()=%v Temporary()=%v)", e.timeout, e.temporary)
}
func (e classErr) Timeout() bool   { return e.timeout }
func (e classErr) Temporary() bool { return e.temporary }

func errOfClass(x string) error {
	switch x {
	case "tmo":
		return classErr{timeout: true}
	case "tmp":
		return classErr{temporary: true}
	}
	return errReset // says nothing about itself
}

const pollEvery = 2 * time.Millisecond // read deadline of a polling transport (glitch "tp")

// pat is the counter payload of a direction: byte i of the stream an end writes.
func pat(tag byte, i int64) byte { return byte((i*7 + (i>>8)*13 + (i>>16)*29 + int64(tag)) % 251) }

func tagOf(dir string) byte {
	if dir == "s2t" {
		return 17
	}
	return 101
}

func fill(tag byte, off int64, n int) []byte {
	b := make([]byte, n)
	for i := range b {
		b[i] = pat(tag, off+int64(i))
	}
	return b
}

func equal(p []byte, tag byte, off int64) bool {
	for i := range p {
		if p[i] != pat(tag, off+int64(i)) {
			return false
		}
	}
	return true
}

func other(e string) string {
	if e == "S" {
		return "T"
	}
	return "S"
}

func outOf(e string) string {
	if e == "S" {
		return "s2t"
	}
	return "t2s"
}

// world is one tunnel with its two scripted ends; everything mutable is guarded by mu.
type world struct {
	mu   sync.Mutex
	cond *sync.Cond
	ev   []fw.Event
	seal bool

	ends     map[string]*end
	ended    string // "none" or the kind of the first ending event
	ender    string
	endedAt  time.Time
	attachAt time.Time
	progress atomic.Int64 // bumped on every delivery and every consumed gate
}

type end struct {
	name     string
	conns    []*fakeConn // the last one is the end's current connection
	sendOff  int64       // bytes this end has written (all connections)
	recvOff  int64       // bytes the bridge has written to this end (all connections)
	gated    bool
	rPermits int
	wPermits int
	rTaken   int
	wTaken   int
	armed    bool
	stalled  bool   // the end does not drain: a Write to it parks until it drains again, goes away or is closed
	glitch   string // "" | "t0": the next Read returns (0, timeout) | "tn": the next Read with bytes returns (n, timeout)
}

func (e *end) cur() *fakeConn { return e.conns[len(e.conns)-1] }

func newWorld() *world {
	w := &world{ends: map[string]*end{}, ended: "none", ender: "-"}
	w.cond = sync.NewCond(&w.mu)
	for _, n := range []string{"S", "T"} {
		w.ends[n] = &end{name: n}
	}
	return w
}

// log appends an event; the caller holds w.mu.
func (w *world) log(e fw.Event) {
	if !w.seal {
		w.ev = append(w.ev, e)
	}
}

func (w *world) logL(e fw.Event) { w.mu.Lock(); w.log(e); w.mu.Unlock() }

// markEnded records the first ending event; the caller holds w.mu.
func (w *world) markEnded(e, kind string) {
	w.log(fw.Event{"ev": "CloseEnd", "e": e, "kind": kind})
	if w.ended == "none" {
		w.ended, w.ender, w.endedAt = kind, e, time.Now()
	}
}

// fakeConn is the server side of one client connection: the bridge reads what the end wrote and
// writes what the end shall receive. Chunk boundaries of the end's writes are preserved (a Read
// never merges two writes), Read/Write park at a gate while the end is in gated mode.
type fakeConn struct {
	w        *world
	e        *end
	gen      int
	in       [][]byte // written by the end, not yet read by the bridge
	inEOF    bool     // the end closed this connection (after `in` is drained: EOF; writes fail)
	failed   bool     // the connection broke: reads and writes fail, `in` is gone
	withData bool     // the read that takes the last bytes returns them together with io.EOF / the error
	closed   bool     // Close() was called on the server side (the bridge's doing): the end observes closure
	hs       bool     // packet phase of a tunnel connection (Handshake / TunnelOpen): no gates, replies go to hsOut
	hsOut    []byte
	rWait    int   // Read calls currently parked on this connection
	rSeen    bool  // the bridge has called Read on this connection at least once
	failErr  error // what every call returns once the connection has failed (nil: errReset)
	dead     int   // calls (Read / Write) the bridge has made on this connection after it had failed
	closeT   time.Time
}

type fakeAddr string

func (a fakeAddr) Network() string { return "fake" }
func (a fakeAddr) String() string  { return string(a) }

func (c *fakeConn) LocalAddr() net.Addr { return fakeAddr("server") }
func (c *fakeConn) RemoteAddr() net.Addr {
	if c == nil {
		nilConnCalls.Add(1)
		return fakeAddr("nil")
	}
	return fakeAddr(fmt.Sprintf("%s%d", c.e.name, c.gen))
}
func (c *fakeConn) SetDeadline(time.Time) error      { return nil }
func (c *fakeConn) SetReadDeadline(time.Time) error  { return nil }
func (c *fakeConn) SetWriteDeadline(time.Time) error { return nil }

// failure is the error of a call on a connection that has failed; the caller holds w.mu. A caller that
// keeps calling a dead connection (a busy loop in the code under test) is slowed down so that it does
// not eat the machine while the watchdog runs.
func (c *fakeConn) failure() error {
	c.dead++
	if c.dead > 200 {
		c.w.mu.Unlock()
		time.Sleep(time.Millisecond)
		c.w.mu.Lock()
	}
	if c.failErr != nil {
		return c.failErr
	}
	return errReset
}

func (c *fakeConn) Read(p []byte) (int, error) {
	if c == nil {
		nilConnCalls.Add(1)
		return 0, errNilConn
	}
	w, e := c.w, c.e
	w.mu.Lock()
	defer w.mu.Unlock()
	c.rSeen = true
	for {
		if c.closed {
			return 0, errClosed
		}
		if !e.gated || e.rPermits > 0 || c.hs {
			take := func() {
				if e.gated && !c.hs {
					e.rPermits--
				}
				e.rTaken++
				w.progress.Add(1)
				w.cond.Broadcast()
			}
			switch {
			case c == e.cur() && e.glitch == "t0":
				e.glitch = ""
				take()
				return 0, timeoutErr{}
			case c.failed && !(c.withData && len(c.in) > 0 && len(p) > 0):
				take()
				return 0, c.failure()
			case len(c.in) > 0 && len(p) > 0:
				take()
				n := copy(p, c.in[0])
				if n == len(c.in[0]) {
					c.in = c.in[1:]
				} else {
					c.in[0] = c.in[0][n:]
				}
				// bytes may come together with an error (io.Reader permits it): the broken
				// connection's last buffer-full, the last bytes before end-of-stream, a poll timeout
				switch {
				case c.failed:
					c.in = nil
					return n, c.failure()
				case c.inEOF && c.withData && len(c.in) == 0:
					return n, io.EOF
				case c == e.cur() && e.glitch == "tn":
					e.glitch = ""
					return n, timeoutErr{}
				}
				return n, nil
			case c.inEOF:
				take()
				return 0, io.EOF
			}
		}
		if e.glitch == "tp" && c == e.cur() && !e.gated && !c.hs {
			// a polling transport: the read deadline fires, (0, temporary timeout) - again and again while
			// nothing comes (not counted as progress: a drain must still be able to give up)
			c.rWait++
			w.mu.Unlock()
			time.Sleep(pollEvery)
			w.mu.Lock()
			c.rWait--
			if !c.closed && !c.failed && !c.inEOF && len(c.in) == 0 {
				return 0, timeoutErr{}
			}
			continue
		}
		c.rWait++
		w.cond.Wait()
		c.rWait--
	}
}

func (c *fakeConn) Write(p []byte) (int, error) {
	if c == nil {
		nilConnCalls.Add(1)
		return 0, errNilConn
	}
	w, e := c.w, c.e
	w.mu.Lock()
	defer w.mu.Unlock()
	if c.hs && !c.closed { // reply packets of the server during the packet phase
		c.hsOut = append(c.hsOut, p...)
		return len(p), nil
	}
	for {
		if c.closed {
			return 0, errClosed
		}
		if !e.gated || e.wPermits > 0 {
			break
		}
		w.cond.Wait()
	}
	if e.gated {
		e.wPermits--
	}
	e.wTaken++
	w.progress.Add(1)
	defer w.cond.Broadcast()
	for e.stalled && !c.failed && !c.inEOF && !c.closed { // back-pressure: the end's receive window is full
		w.cond.Wait()
	}
	if c.closed {
		return 0, errClosed
	}
	if c.failed {
		return 0, c.failure()
	}
	if c.inEOF {
		return 0, errPipe
	}
	if len(p) == 0 {
		return 0, nil
	}
	if e.armed && c == e.cur() {
		e.armed = false
		k := len(p) / 2
		if k > 0 {
			c.deliver(p[:k])
		}
		c.failed, c.in = true, nil
		w.markEnded(e.name, "short")
		return k, errReset
	}
	c.deliver(p)
	return len(p), nil
}

// deliver records that the end received p; the caller holds w.mu.
func (c *fakeConn) deliver(p []byte) {
	e := c.e
	dir := outOf(other(e.name))
	c.w.log(fw.Event{"ev": "Deliver", "dir": dir, "off": e.recvOff, "len": len(p), "eq": equal(p, tagOf(dir), e.recvOff), "gen": c.gen})
	e.recvOff += int64(len(p))
	c.w.progress.Add(1)
}

// CloseWrite: the bridge half-closes towards this end (cross-node forwarding does): the end sees
// end-of-stream - closure observed - and, like a client that gets EOF, closes its connection.
func (c *fakeConn) CloseWrite() error { return c.Close() }

func (c *fakeConn) Close() error {
	if c == nil {
		nilConnCalls.Add(1)
		return errNilConn
	}
	c.w.mu.Lock()
	if !c.closed {
		c.closed, c.closeT = true, time.Now()
	}
	c.w.cond.Broadcast()
	c.w.mu.Unlock()
	return nil
}

// ---- the server side: a real SessionManager with a scripted cloud control -------------------------

type fakeCloud struct {
	mapping *models.PortMapping
	mu      sync.Mutex
	stats   *stats.TrafficStats
	stalled atomic.Bool // the statistics backend does not answer
	live    atomic.Bool // both ends are attached (before that a stalled backend delays the tunnel's set-up, which is not judged)
}

func (f *fakeCloud) GetPortMapping(id string) (*models.PortMapping, error) {
	for f.stalled.Load() && f.live.Load() {
		time.Sleep(500 * time.Microsecond)
	}
	if id != f.mapping.ID {
		return nil, errors.New("mapping not found")
	}
	m := *f.mapping
	return &m, nil
}
func (f *fakeCloud) UpdatePortMappingStats(id string, s *stats.TrafficStats) error {
	for f.stalled.Load() {
		time.Sleep(500 * time.Microsecond)
	}
	f.mu.Lock()
	c := *s
	f.stats = &c
	f.mu.Unlock()
	return nil
}
func (f *fakeCloud) GetClientPortMappings(int64) ([]*models.PortMapping, error) { return nil, nil }
func (f *fakeCloud) TouchClient(int64)                                          {}
func (f *fakeCloud) DisconnectClient(int64) error                               { return nil }
func (f *fakeCloud) DisconnectClientIfMatch(int64, string, string) (bool, error) {
	return false, nil
}
func (f *fakeCloud) EnsureClientOnline(int64, string, string, string, string, string) error {
	return nil
}

const (
	mappingID = "pm-verif"
	tunnelID  = "tun-verif-0001"
	srcClient = int64(10000001)
	dstClient = int64(10000002)
)

func realLimit(lim string) int64 {
	switch lim {
	case "tiny":
		return 16383 // burst 32766 < 32767: every read above the class "one" exceeds it
	case "edge":
		return 16384 // burst 32768 = copy buffer: every read fits
	case "large":
		return 256 << 20
	case "slow":
		return 1024 // burst 2048: one 32 KiB read is paced out in 16 pieces over 30 s
	}
	return 0
}

func realSize(c string, big int) int {
	switch c {
	case "one":
		return 1
	case "Bm1":
		return copyBuf - 1
	case "B":
		return copyBuf
	case "Bp1":
		return copyBuf + 1
	case "big":
		return big
	}
	panic("size class " + c)
}

type step struct {
	A string `json:"a"`
	E string `json:"e,omitempty"`
	C string `json:"c,omitempty"`
	D string `json:"d,omitempty"`
	W string `json:"w,omitempty"` // close / error: "data" = the last bytes come together with EOF / the error
	K string `json:"k,omitempty"` // glitch: "t0" | "tn" | "tp" (every idle Read polls: persistent); attach: how
	X string `json:"x,omitempty"` // error: what the permanent error says about itself: "" (nothing) | "tmo" | "tmp"
}

type beh struct {
	Lim     string `json:"lim"`
	Steps   []step `json:"steps"`
	Mode    string `json:"mode"`  // gated | free
	Via     string `json:"via"`   // conn | stream
	FinE    string `json:"fin_e"` // ending chosen by the driver when the script has none
	FinK    string `json:"fin_k"`
	Drain   bool   `json:"drain"`              // free mode: wait for quiescence before the scripted ending
	Big     int    `json:"big"`                // real size of class "big"
	AttachK string `json:"attach_k,omitempty"` // how the finishing phase attaches a target the script did not attach
	Route   bool   `json:"route,omitempty"`    // the server has a tunnel routing table (cluster deployment)
	Loops   int    `json:"loops,omitempty"`    // a racy free-running script is executed this many times (the last run is recorded)
	Frag    bool   `json:"frag,omitempty"`     // xnode: the TargetReady frame arrives in two TCP segments (split inside its header)
	Long    bool   `json:"long,omitempty"`     // a hold lasts 31 s: longer than the 30 s constants of the code (ready timer, routing TTL, traffic-report tick)
	Src     string `json:"src,omitempty"`      // "pkt": the source's tunnel connection comes through the packet path too (Handshake, TunnelOpen -> handleSourceBridge)
}

type run struct {
	w          *world
	sm         *session.SessionManager
	bridge     *tunnel.Bridge
	cancel     context.CancelFunc
	ctx        context.Context
	b          *beh
	desync     string
	tc         *fakeConn
	tst        stream.PackageStreamer
	isAttached bool
	xn         *xnode
	cloud      *fakeCloud
	tcm        *session.TunnelConnectionManager // fwd: the server is the target's node
	skip       string                           // the script asks for something this way of attaching cannot do (=> unrealisable)
	late       string                           // a step of the harness's own protocol did not complete in time (=> inconclusive)
	lagMax     atomic.Int64                     // worst scheduling lag seen by the canary (ns)
}

func (r *run) newConn(e string) (*fakeConn, stream.PackageStreamer) {
	en := r.w.ends[e]
	r.w.mu.Lock()
	c := &fakeConn{w: r.w, e: en, gen: len(en.conns) + 1}
	en.conns = append(en.conns, c)
	r.w.mu.Unlock()
	if r.b.Via == "stream" {
		return c, stream.NewStreamProcessor(c, c, r.ctx)
	}
	return c, nil
}

// poll waits until pred holds (checked under the world lock) or d elapsed.
func (r *run) poll(d time.Duration, pred func() bool) bool {
	t0 := time.Now()
	for {
		r.w.mu.Lock()
		ok := pred()
		r.w.mu.Unlock()
		if ok {
			return true
		}
		if time.Since(t0) > d {
			return false
		}
		time.Sleep(200 * time.Microsecond)
	}
}

// bridgeGone: the bridge closed the current connection of an end (a replaced connection that gets
// closed does not count: that is not the end of the tunnel). The caller holds w.mu.
func (r *run) bridgeGone() bool {
	for _, e := range r.w.ends {
		if len(e.conns) > 0 && e.cur().closed {
			return true
		}
	}
	return false
}

// within runs f and waits for it at most d (a call into the code under test that hangs is left behind).
func within(d time.Duration, f func()) bool {
	done := make(chan struct{})
	go func() { defer close(done); f() }()
	select {
	case <-done:
		return true
	case <-time.After(d):
		return false
	}
}

func (r *run) anyStalled() bool {
	r.w.mu.Lock()
	defer r.w.mu.Unlock()
	return r.w.ends["S"].stalled || r.w.ends["T"].stalled
}

func (r *run) unstall() {
	r.w.mu.Lock()
	for _, e := range r.w.ends {
		if e.stalled {
			e.stalled = false
			r.w.log(fw.Event{"ev": "Env", "a": "unstall", "e": e.name})
		}
	}
	r.w.cond.Broadcast()
	r.w.mu.Unlock()
}

// stalledPeerOf returns the stalled end when the OTHER end is the one that closed or failed.
func (r *run) stalledPeerOf() string {
	r.w.mu.Lock()
	defer r.w.mu.Unlock()
	for n, e := range r.w.ends {
		if e.stalled && len(e.conns) > 0 && r.w.ender == other(n) {
			return n
		}
	}
	return ""
}

func (r *run) ungate() {
	r.w.mu.Lock()
	for _, e := range r.w.ends {
		e.gated = false
	}
	r.w.cond.Broadcast()
	r.w.mu.Unlock()
}

// targetConn is the target client's tunnel connection; it exists (and may already carry bytes)
// before the server attaches it to the bridge.
func (r *run) targetConn() (*fakeConn, stream.PackageStreamer) {
	if r.tc == nil {
		r.tc, r.tst = r.newConn("T")
	}
	return r.tc, r.tst
}

func (r *run) attach() {
	if k := r.b.kindOfAttach(); k == "pkt" || k == "xnode" || k == "fwd" {
		c, _ := r.targetConn()
		r.w.mu.Lock()
		dead := c.inEOF || c.failed || c.closed
		r.w.mu.Unlock()
		if dead {
			r.skip = "a target connection that is gone cannot open the tunnel (" + k + ")"
			return
		}
		r.isAttached = true
		var err error
		if k == "pkt" {
			err = r.attachPkt()
			r.awaitCopiers()
		} else if k == "fwd" {
			err = r.attachPkt()
		} else {
			err = r.attachXnode()
		}
		if err != nil {
			r.late = k + " attach did not complete: " + err.Error()
		}
		r.cloud.live.Store(true)
		return
	}
	c, st := r.targetConn()
	r.isAttached = true
	tc := session.CreateTunnelConnection("conn-T", c, st, dstClient, mappingID, tunnelID)
	r.w.mu.Lock()
	r.w.log(fw.Event{"ev": "Attach"})
	r.w.attachAt = time.Now()
	r.w.mu.Unlock()
	r.bridge.SetTargetConnection(tc) // what handleTargetBridge / handleExistingBridge do
	r.cloud.live.Store(true)
	r.awaitCopiers()
}

// awaitCopiers: gated scripts continue once both copiers sit in their first Read (the model's Attach
// step includes the start of the two goroutines).
func (r *run) awaitCopiers() {
	if r.b.Mode == "gated" && r.desync == "" {
		src, c := r.w.ends["S"].cur(), r.tc
		r.poll(2*time.Second, func() bool { return (src.rWait > 0 && c.rWait > 0) || r.bridgeGone() })
	}
}

// kindOfAttach: the attach step of the script says how the target gets attached ("" = local).
func (b *beh) kindOfAttach() string {
	for _, st := range b.Steps {
		if st.A == "attach" && st.K != "" {
			return st.K
		}
	}
	return b.AttachK
}

func (r *run) attached() bool { return r.isAttached }

func (r *run) registered() int {
	if r.tcm != nil { // fwd: no bridge on this node; the tunnel is the connection manager's entry
		if r.tcm.GetConnection(tunnelID) != nil {
			return 1
		}
		return 0
	}
	if r.sm.GetTunnelBridgeByMappingID(mappingID, 0) != nil {
		return 1
	}
	return 0
}

// drain waits until everything sent so far has been delivered; gives up when no byte moved for the
// watchdog time, when the bridge closed a connection or when an end failed meanwhile.
func (r *run) drain() {
	last, lastT := r.w.progress.Load(), time.Now()
	for {
		r.w.mu.Lock()
		s, t := r.w.ends["S"], r.w.ends["T"]
		done := s.recvOff == t.sendOff && t.recvOff == s.sendOff
		ended, gone := r.w.ended != "none", r.bridgeGone()
		r.w.mu.Unlock()
		why := ""
		switch {
		case done:
			why = "complete"
		case ended:
			why = "ended"
		case gone:
			why = "tunnel-closed"
		}
		if p := r.w.progress.Load(); p != last {
			last, lastT = p, time.Now()
		} else if why == "" && time.Since(lastT) > watchdog {
			why = "stalled"
		}
		if why == "tunnel-closed" && r.checkSpont() {
			return
		}
		if why != "" {
			r.w.logL(fw.Event{"ev": "Drain", "ok": why == "complete", "why": why})
			return
		}
		time.Sleep(300 * time.Microsecond)
	}
}

// checkSpont notices that the bridge closed a connection although no end closed or failed and nobody
// closed the bridge: the tunnel ended by itself. Recorded as a failed drain (the judge recounts what
// was outstanding) followed by the pseudo ending "spont", for which closure/forgetting are not judged.
func (r *run) checkSpont() bool {
	w := r.w
	w.mu.Lock()
	defer w.mu.Unlock()
	if w.ended != "none" || !r.attached() || !r.bridgeGone() {
		return false
	}
	w.log(fw.Event{"ev": "Drain", "ok": false, "why": "tunnel-closed"})
	w.markEnded("-", "spont")
	return true
}

func (r *run) closeEnd(e, kind string, withData bool, class ...string) {
	w := r.w
	if e == "T" {
		r.targetConn()
	}
	w.mu.Lock()
	en := w.ends[e]
	c := en.cur()
	w.markEnded(e, kind)
	if withData {
		w.ev[len(w.ev)-1]["w"] = "data"
	}
	if kind == "error" && len(class) > 0 && class[0] != "" && class[0] != "plain" {
		w.ev[len(w.ev)-1]["x"] = class[0]
		c.failErr = errOfClass(class[0])
	}
	c.withData = withData
	if kind == "close" {
		c.inEOF = true
	} else if c.failed = true; withData && len(c.in) > 0 {
		if len(c.in[0]) > copyBuf {
			c.in[0] = c.in[0][:copyBuf]
		}
		c.in = c.in[:1]
	} else {
		c.in = nil
	}
	w.cond.Broadcast()
	w.mu.Unlock()
}

// gate grants one permit and waits until the bridge consumed it.
func (r *run) gate(e string, read bool) {
	w := r.w
	w.mu.Lock()
	en := w.ends[e]
	var target int
	if read {
		en.rPermits++
		target = en.rTaken + en.rPermits
	} else {
		en.wPermits++
		target = en.wTaken + en.wPermits
	}
	w.cond.Broadcast()
	w.mu.Unlock()
	ok := r.poll(gateWait, func() bool {
		if r.bridgeGone() {
			return true
		}
		if read {
			return en.rTaken >= target
		}
		return en.wTaken >= target
	})
	if !ok && r.desync == "" {
		// the copier did not come to this gate: the code does not follow the model's step structure
		// here (e.g. a limiter that waits where the model's one fails). Continue free running.
		r.desync = fmt.Sprintf("gate %s read=%v not reached", e, read)
		r.ungate()
	}
}

func execute(env *fw.Env, b *beh) *fw.Trace {
	start := time.Now()
	for i := 1; i < b.Loops; i++ {
		t0 := time.Now()
		t := executeOnce(env, b)
		// a run that is not realised, or that took long (something did not happen within its watchdog),
		// is the one to be judged; the repetition only exists to catch a scheduling race of ~1 ms runs
		if t.Status != fw.Realised || time.Since(t0) > time.Second || time.Since(start) > 20*time.Second {
			return t
		}
	}
	return executeOnce(env, b)
}

func executeOnce(env *fw.Env, b *beh) *fw.Trace {
	w := newWorld()
	ctx, cancel := context.WithCancel(context.Background())
	r := &run{w: w, b: b, ctx: ctx, cancel: cancel}
	defer cancel()

	// canary: measures how late a 5 ms sleeper wakes up; a starved process makes timing verdicts void
	stop := make(chan struct{})
	go func() {
		for {
			t0 := time.Now()
			select {
			case <-stop:
				return
			case <-time.After(5 * time.Millisecond):
			}
			if lag := int64(time.Since(t0) - 5*time.Millisecond); lag > r.lagMax.Load() {
				r.lagMax.Store(lag)
			}
		}
	}()
	defer close(stop)

	nilConnCalls.Store(0)
	hasHold := false
	for _, st := range b.Steps {
		hasHold = hasHold || st.A == "hold"
	}
	kind := b.kindOfAttach()
	if kind == "pkt" || kind == "fwd" || b.Src == "pkt" {
		// the packet path needs connection ids and the two handlers the server installs; a script that
		// lets the tunnel outlive the heartbeat timeout runs with a short one (real: 60 s + 15 s sweep)
		cfg := session.DefaultSessionConfig()
		if hasHold {
			cfg.HeartbeatTimeout, cfg.CleanupInterval = heartbeat, sweepEvery
		}
		r.sm = session.NewSessionManagerWithConfig(idgen.NewIDManager(storage.NewMemoryStorage(ctx), ctx), ctx, cfg)
		r.sm.SetAuthHandler(stubAuth{})
		r.sm.SetTunnelHandler(stubTunnelHandler{})
	} else {
		r.sm = session.NewSessionManager(nil, ctx)
	}
	defer within(2*time.Second, func() { r.sm.Close() })
	defer func() { r.xn.shut() }()
	routeDown := &atomic.Bool{}
	if b.Route && kind != "fwd" {
		// the routing table lives in a shared store; its deletes can be made to fail (store unreachable)
		st := doubles.NewStore("route", nil)
		st.Fault = func(c *doubles.Call) error {
			if routeDown.Load() && c.Op == "Delete" && strings.HasPrefix(c.Key, "tunnox:tunnel_waiting:") {
				return doubles.ErrInjected
			}
			return nil
		}
		r.sm.SetTunnelRoutingTable(session.NewTunnelRoutingTable(st, 0))
	}
	cloud := &fakeCloud{mapping: &models.PortMapping{ID: mappingID, ListenClientID: srcClient, TargetClientID: dstClient}}
	cloud.mapping.Config.BandwidthLimit = realLimit(b.Lim)
	r.sm.SetCloudControl(cloud)
	r.cloud = cloud
	defer cloud.stalled.Store(false)

	cfgEv := fw.Event{"ev": "Cfg", "lim": b.Lim, "mode": b.Mode, "via": b.Via}
	if b.Src != "" {
		cfgEv["src"] = b.Src
	}
	w.logL(cfgEv)
	if b.Mode == "gated" {
		for _, e := range w.ends {
			e.gated = true
		}
	}
	var br *tunnel.Bridge
	if kind == "fwd" {
		// the bridge lives on the source's node (played by the driver); nothing exists here before the target comes
		if err := r.setupFwd(hasHold); err != nil {
			return &fw.Trace{Status: fw.DriverError, Note: "fwd setup: " + err.Error()}
		}
		defer r.tcm.Close()
	} else {
		// the source client's tunnel connection arrives: the server creates and registers the bridge
		sc, sst := r.newConn("S")
		if b.Src == "pkt" {
			if err := r.openPkt(sc, srcClient, nil); err != nil {
				return &fw.Trace{Status: fw.Inconclusive, Note: "source tunnel connection through the packet path: " + err.Error()}
			}
		} else {
			req := &packet.TunnelOpenRequest{TunnelID: tunnelID, MappingID: mappingID}
			if err := startSourceBridge(r.sm, req, sc, sst); err != nil {
				return &fw.Trace{Status: fw.DriverError, Note: "startSourceBridge: " + err.Error()}
			}
		}
		// (the packet path acknowledges the TunnelOpen before handleSourceBridge registers the bridge)
		for t0 := time.Now(); br == nil; time.Sleep(200 * time.Microsecond) {
			br, _ = r.sm.GetTunnelBridgeByMappingID(mappingID, 0).(*tunnel.Bridge)
			if br == nil && (b.Src != "pkt" || time.Since(t0) > gateWait) {
				return &fw.Trace{Status: fw.DriverError, Note: "bridge not registered after the source's tunnel open"}
			}
		}
		r.bridge = br
	}
	defer func() {
		// leave nothing behind: free every parked call, end the tunnel
		for i := 0; !w.mu.TryLock(); i++ { // (a panicking step may still hold the lock)
			if i > 2000 {
				return
			}
			time.Sleep(time.Millisecond)
		}
		w.seal = true
		for _, e := range w.ends {
			e.gated = false
			for _, c := range e.conns {
				c.failed = true
			}
		}
		w.cond.Broadcast()
		w.mu.Unlock()
		if br != nil {
			within(2*time.Second, func() { br.Close() }) // (a Close that hangs must not take the worker with it)
		}
	}()

	timedOut := false
	for i, st := range b.Steps {
		if st.A == "R" || st.A == "W" {
			if b.Mode != "gated" || r.desync != "" {
				continue
			}
			if st.A == "R" {
				r.gate(map[string]string{"s2t": "S", "t2s": "T"}[st.D], true)
				if b.Lim == "slow" {
					time.Sleep(paceIn) // the copier is now paying for the chunk piece by piece
				}
			} else {
				r.gate(map[string]string{"s2t": "T", "t2s": "S"}[st.D], false)
			}
			continue
		}
		r.checkSpont()
		switch st.A {
		case "send":
			en := w.ends[st.E]
			if st.E == "T" {
				r.targetConn()
			}
			n := realSize(st.C, b.Big)
			dir := outOf(st.E)
			w.mu.Lock()
			c := en.cur()
			if c.inEOF || c.failed || (c.closed && w.ended != "none") {
				w.mu.Unlock()
				continue // the end has seen its connection go away: it stops writing
			}
			if c.closed {
				// The server closed this connection although nobody ended the tunnel. The end's write
				// still goes out (a write into a socket the peer has just closed succeeds locally) -
				// these bytes are part of what the end sent, and they are gone.
				w.log(fw.Event{"ev": "Send", "e": st.E, "dir": dir, "n": n})
				en.sendOff += int64(n)
				w.mu.Unlock()
				continue
			}
			w.log(fw.Event{"ev": "Send", "e": st.E, "dir": dir, "n": n})
			c.in = append(c.in, fill(tagOf(dir), en.sendOff, n))
			en.sendOff += int64(n)
			w.cond.Broadcast()
			w.mu.Unlock()
		case "attach":
			r.attach()
		case "close", "error":
			if st.E == "T" {
				r.targetConn()
			}
			if b.Mode == "free" && b.Drain && r.attached() && b.Lim != "slow" && !r.anyStalled() {
				r.drain()
			}
			if b.Mode == "free" && b.Lim == "slow" {
				time.Sleep(paceIn) // let the copier get into the pacing of what it has read
			}
			r.closeEnd(st.E, st.A, st.W == "data", st.X)
		case "arm":
			w.mu.Lock()
			w.ends[st.E].armed = true
			w.log(fw.Event{"ev": "Env", "a": "arm", "e": st.E})
			w.mu.Unlock()
		case "glitch":
			w.mu.Lock()
			k := st.K
			if k == "" {
				k = "t0"
			}
			w.ends[st.E].glitch = k
			w.log(fw.Event{"ev": "Env", "a": "glitch", "e": st.E, "k": k})
			w.cond.Broadcast()
			w.mu.Unlock()
		case "stall", "unstall":
			if st.E == "T" {
				r.targetConn()
			}
			w.mu.Lock()
			w.ends[st.E].stalled = st.A == "stall"
			w.log(fw.Event{"ev": "Env", "a": st.A, "e": st.E})
			w.cond.Broadcast()
			w.mu.Unlock()
		case "statstall":
			cloud.stalled.Store(true)
			w.logL(fw.Event{"ev": "Env", "a": "statstall"})
		case "statresume":
			cloud.stalled.Store(false)
			w.logL(fw.Event{"ev": "Env", "a": "statresume"})
		case "hold":
			w.logL(fw.Event{"ev": "Env", "a": "hold"})
			if b.Long {
				r.busyHold(31 * time.Second)
			} else if kind == "fwd" {
				r.busyHold(holdFor)
			} else if kind == "pkt" || b.Src == "pkt" {
				time.Sleep(holdFor)
			} else {
				time.Sleep(20 * time.Millisecond)
			}
		case "routefail":
			routeDown.Store(true)
			w.logL(fw.Event{"ev": "Env", "a": "routefail"})
		case "replace":
			if br == nil {
				return &fw.Trace{Status: fw.Unrealisable, Note: "no bridge on this node"}
			}
			w.mu.Lock()
			// clean handover: nothing the source wrote on the old connection is still unread there
			// (bytes in flight on a connection that is given up are nobody's promise)
			clean := len(w.ends["S"].cur().in) == 0
			w.mu.Unlock()
			c, sst := r.newConn("S")
			tc := session.CreateTunnelConnection("conn-S2", c, sst, srcClient, mappingID, tunnelID)
			w.logL(fw.Event{"ev": "Env", "a": "replace", "clean": clean})
			br.SetSourceConnection(tc) // what handleExistingBridge does for the listen client
		case "closeold":
			w.mu.Lock()
			w.ends["S"].conns[0].inEOF = true
			w.log(fw.Event{"ev": "Env", "a": "closeold"})
			w.cond.Broadcast()
			w.mu.Unlock()
		case "extclose":
			if br == nil {
				return &fw.Trace{Status: fw.Unrealisable, Note: "no bridge on this node"}
			}
			w.mu.Lock()
			w.markEnded("-", "bridge")
			w.mu.Unlock()
			go br.Close() // a third party's call: whether it returns is not this script's business
		case "timeout":
			// Start's 30 s timer: only driven when the script ends here (thorough tier)
			if i != len(b.Steps)-1 {
				return &fw.Trace{Status: fw.Unrealisable, Note: "steps after the ready timeout"}
			}
			timedOut = true
		default:
			return &fw.Trace{Status: fw.DriverError, Note: "unknown step " + st.A}
		}
	}

	// ---- finish: free running from here on -----------------------------------------------------
	r.ungate()
	ungateAt := time.Now()
	if timedOut {
		ok := r.poll(30*time.Second+watchdog, func() bool { return r.registered() == 0 })
		w.logL(fw.Event{"ev": "Env", "a": "timeout", "forgot": ok})
		return r.result()
	}
	w.mu.Lock()
	gone := r.bridgeGone()
	w.mu.Unlock()
	if !r.attached() && !gone {
		r.attach()
	}
	w.mu.Lock()
	ended := w.ended
	w.mu.Unlock()
	nudgeAt := time.Time{}
	if ended == "none" {
		r.unstall() // the end resumes reading: what was parked must still arrive
	} else if e := r.stalledPeerOf(); e != "" {
		// An end does not drain and the other end is gone: the bridge sits in a Write and has had no
		// occasion to notice. The stalled end now writes one byte - the bridge touches the dead end.
		time.Sleep(20 * time.Millisecond)
		w.mu.Lock()
		en := w.ends[e]
		if c := en.cur(); !c.closed && !c.inEOF && !c.failed {
			dir := outOf(e)
			w.log(fw.Event{"ev": "Send", "e": e, "dir": dir, "n": 1})
			c.in = append(c.in, fill(tagOf(dir), en.sendOff, 1))
			en.sendOff++
			nudgeAt = time.Now()
			w.cond.Broadcast()
		}
		w.mu.Unlock()
	}
	if ended == "none" {
		r.drain()
		w.mu.Lock()
		ended = w.ended
		w.mu.Unlock()
		if ended == "none" && !r.checkSpont() {
			r.closeEnd(b.FinE, b.FinK, false)
		}
	}
	// closure and forgetting are measured from the ending event (or the attach, or the moment a gated
	// script let the copiers run freely, whichever came last)
	w.mu.Lock()
	t0 := w.endedAt
	if w.attachAt.After(t0) {
		t0 = w.attachAt
	}
	if b.Mode == "gated" && ungateAt.After(t0) {
		t0 = ungateAt
	}
	if nudgeAt.After(t0) {
		t0 = nudgeAt
	}
	w.mu.Unlock()
	deadline := t0.Add(watchdog)
	wait := func(pred func() bool) bool {
		d := time.Until(deadline)
		if d < 0 {
			d = 0
		}
		return r.poll(d, pred)
	}
	for _, e := range []string{"S", "T"} {
		en := w.ends[e]
		if len(en.conns) == 0 {
			continue
		}
		seen := wait(func() bool { return en.cur().closed })
		w.mu.Lock()
		ms := int64(-1)
		if seen {
			ms = en.cur().closeT.Sub(t0).Milliseconds()
		}
		w.log(fw.Event{"ev": "Closure", "e": e, "seen": seen, "ms": ms})
		w.mu.Unlock()
	}
	if r.cloud.stalled.Load() {
		// The statistics backend has not answered all the while: the ends had to see the closure
		// without it. It answers again now; the server may have waited for it before it forgets.
		r.cloud.stalled.Store(false)
		w.logL(fw.Event{"ev": "Env", "a": "statresume"})
		deadline = time.Now().Add(watchdog)
	}
	wait(func() bool { return r.registered() == 0 })
	w.logL(fw.Event{"ev": "Forgot", "n": r.registered()})
	w.mu.Lock()
	for _, e := range []string{"S", "T"} {
		if en := w.ends[e]; len(en.conns) > 0 && en.cur().failed && !w.seal {
			// how often the server has called a connection that had told it that it is dead
			w.log(fw.Event{"ev": "Calls", "e": e, "n": en.cur().dead})
		}
	}
	w.mu.Unlock()
	if br != nil {
		w.logL(fw.Event{"ev": "Counters", "sent": br.GetBytesSent(), "recv": br.GetBytesReceived()})
	}
	return r.result()
}

func (r *run) result() *fw.Trace {
	w := r.w
	w.mu.Lock()
	w.seal = true
	ev := w.ev
	late := r.late
	w.mu.Unlock()
	if n := nilConnCalls.Swap(0); n > 0 {
		// the code under test called a method on a typed-nil connection (torn read of an interface
		// field): in production that is a nil dereference inside net.Conn - the server dies
		ev = append(ev, fw.Event{"ev": "Crash", "fn": "typed-nil-conn"})
	}
	if r.skip != "" {
		return &fw.Trace{Status: fw.Unrealisable, Note: r.skip, Events: ev}
	}
	if late != "" {
		return &fw.Trace{Status: fw.Inconclusive, Note: late, Events: ev}
	}
	t := &fw.Trace{Status: fw.Realised, Events: ev, Note: r.desync}
	// a starved process makes the watchdog observations meaningless: do not judge them
	if lag := time.Duration(r.lagMax.Load()); lag > watchdog/3 {
		t.Status, t.Note = fw.Inconclusive, fmt.Sprintf("scheduling lag %v exceeded the timing margin", lag)
	}
	return t
}
