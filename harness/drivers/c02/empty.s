// intentionally empty: permits the body-less go:linkname declaration in forward_link.go
