package main

import (
	"bufio"
	"bytes"
	"encoding/json"
	"fmt"
	"io"
	"os"
	"os/exec"
	"regexp"
	"strings"
	"sync"
	"time"

	"tunnox-core/verifharness/fw"
)

// Behaviours are executed in worker child processes (one behaviour at a time per worker): a panic
// in a goroutine of the code under test cannot be recovered and would otherwise kill the check.
// A worker that dies with a Go panic whose stack is in tunnox-core is an observation of the server
// crashing (event Crash{fn}); any other death is a harness failure (driver error => exit 2).

type workerReq struct {
	Tier string `json:"tier"`
	Seed int64  `json:"seed"`
	Beh  beh    `json:"beh"`
}

type workerResp struct {
	Status string     `json:"status"`
	Note   string     `json:"note,omitempty"`
	Events []fw.Event `json:"events"`
}

func workerMain() {
	in := bufio.NewReaderSize(os.Stdin, 1<<20)
	out := bufio.NewWriter(os.Stdout)
	for {
		line, err := in.ReadBytes('\n')
		if len(bytes.TrimSpace(line)) > 0 {
			var rq workerReq
			if jerr := json.Unmarshal(line, &rq); jerr != nil {
				fmt.Fprintln(os.Stderr, "worker: bad request:", jerr)
				os.Exit(3)
			}
			t := execute(&fw.Env{Tier: rq.Tier, Seed: rq.Seed}, &rq.Beh)
			out.Write(fw.MustJSON(workerResp{Status: t.Status, Note: t.Note, Events: t.Events}))
			out.WriteByte('\n')
			out.Flush()
		}
		if err != nil {
			return
		}
	}
}

type worker struct {
	cmd    *exec.Cmd
	stdin  io.WriteCloser
	stdout *bufio.Reader
	stderr *bytes.Buffer
}

var (
	poolMu sync.Mutex
	idle   []*worker
)

func startWorker() (*worker, error) {
	exe, err := os.Executable()
	if err != nil {
		return nil, err
	}
	cmd := exec.Command(exe, "--worker")
	cmd.Env = append(os.Environ(), "GOTRACEBACK=single")
	w := &worker{cmd: cmd, stderr: &bytes.Buffer{}}
	if w.stdin, err = cmd.StdinPipe(); err != nil {
		return nil, err
	}
	so, err := cmd.StdoutPipe()
	if err != nil {
		return nil, err
	}
	w.stdout = bufio.NewReaderSize(so, 1<<20)
	cmd.Stderr = w.stderr
	if err := cmd.Start(); err != nil {
		return nil, err
	}
	return w, nil
}

func getWorker() (*worker, error) {
	poolMu.Lock()
	if n := len(idle); n > 0 {
		w := idle[n-1]
		idle = idle[:n-1]
		poolMu.Unlock()
		return w, nil
	}
	poolMu.Unlock()
	return startWorker()
}

func putWorker(w *worker) {
	poolMu.Lock()
	idle = append(idle, w)
	poolMu.Unlock()
}

func stopWorkers() {
	poolMu.Lock()
	ws := idle
	idle = nil
	poolMu.Unlock()
	for _, w := range ws {
		w.stdin.Close()
		done := make(chan struct{})
		go func() { w.cmd.Wait(); close(done) }()
		select {
		case <-done:
		case <-time.After(3 * time.Second):
			w.cmd.Process.Kill()
		}
	}
}

var reFrame = regexp.MustCompile(`(?m)^(tunnox-core/internal/[^\s(]+(?:\([^)]*\))?[^\s(]*)\(`)

// crashSite extracts the first tunnox-core frame of the panicking goroutine from a Go crash report.
func crashSite(stderr string) (string, bool) {
	i := strings.Index(stderr, "panic: ")
	if i < 0 {
		i = strings.Index(stderr, "fatal error: ")
	}
	if i < 0 {
		return "", false
	}
	rest := stderr[i:]
	j := strings.Index(rest, "goroutine ")
	if j < 0 {
		return "", false
	}
	body := rest[j:]
	if k := strings.Index(body, "\n\n"); k >= 0 {
		body = body[:k] // the panicking goroutine only
	}
	// the topmost frame must be code under test (not the harness, not a fake calling back)
	for _, line := range strings.Split(body, "\n")[1:] {
		if strings.HasPrefix(line, "\t") || strings.HasPrefix(line, "panic(") || strings.HasPrefix(line, "runtime.") ||
			strings.HasPrefix(line, "created by") || line == "" {
			continue
		}
		if m := reFrame.FindStringSubmatch(line); m != nil {
			fn := strings.TrimPrefix(m[1], "tunnox-core/internal/")
			return fn, true
		}
		return "", false
	}
	return "", false
}

func drive(env *fw.Env, b fw.Behaviour) *fw.Trace {
	var x beh
	if err := json.Unmarshal(b.Data, &x); err != nil {
		return &fw.Trace{Status: fw.DriverError, Note: err.Error()}
	}
	w, err := getWorker()
	if err != nil {
		return &fw.Trace{Status: fw.DriverError, Note: "worker: " + err.Error()}
	}
	if _, err := w.stdin.Write(append(fw.MustJSON(workerReq{Tier: env.Tier, Seed: env.Seed, Beh: x}), '\n')); err != nil {
		w.cmd.Process.Kill()
		w.cmd.Wait()
		return &fw.Trace{Status: fw.DriverError, Note: "worker write: " + err.Error()}
	}
	type res struct {
		line []byte
		err  error
	}
	ch := make(chan res, 1)
	go func() {
		line, err := w.stdout.ReadBytes('\n')
		ch <- res{line, err}
	}()
	limit := 90 * time.Second
	if n := len(x.Steps); n > 0 && x.Steps[n-1].A == "timeout" {
		limit += 40 * time.Second
	}
	select {
	case r := <-ch:
		if r.err == nil {
			var wr workerResp
			if err := json.Unmarshal(r.line, &wr); err != nil {
				w.cmd.Process.Kill()
				w.cmd.Wait()
				return &fw.Trace{Status: fw.DriverError, Note: "worker reply: " + err.Error()}
			}
			putWorker(w)
			normalise(wr.Events)
			return &fw.Trace{Status: wr.Status, Note: wr.Note, Events: wr.Events}
		}
		// the worker died while running this behaviour
		w.cmd.Wait()
		stderr := w.stderr.String()
		if fn, ok := crashSite(stderr); ok {
			return &fw.Trace{Status: fw.Realised, Note: "server code panicked: " + firstLine(stderr), Events: []fw.Event{
				{"ev": "Cfg", "lim": x.Lim, "mode": x.Mode, "via": x.Via},
				{"ev": "Crash", "fn": fn},
			}}
		}
		if len(stderr) > 1500 {
			stderr = stderr[:1500]
		}
		return &fw.Trace{Status: fw.DriverError, Note: "worker died: " + stderr}
	case <-time.After(limit):
		w.cmd.Process.Kill()
		w.cmd.Wait()
		return &fw.Trace{Status: fw.DriverError, Note: "worker did not answer (the endpoint script itself stalled)"}
	}
}

func firstLine(s string) string {
	if i := strings.Index(s, "panic: "); i >= 0 {
		s = s[i:]
	}
	if i := strings.IndexByte(s, '\n'); i >= 0 {
		s = s[:i]
	}
	return s
}

// normalise turns JSON numbers back into ints so that traces look the same as in-process ones.
func normalise(evs []fw.Event) {
	for _, e := range evs {
		for k, v := range e {
			if f, ok := v.(float64); ok && f == float64(int64(f)) {
				e[k] = int(f)
			}
		}
	}
}
