// intentionally empty: permits the body-less go:linkname declaration in dup.go
