// C09 driver, overlap mode: the write and read path of a routing record on the Redis-backed
// wirings, step by step (spec/RoutingSet.tla).
//
// Every node's redis.Storage gets a go-redis hook.  A SET of a routing record issued by a scheduled
// process is parked when the command has been built - redis.Storage.Set has turned the
// *WaitingState into bytes - and not yet been written to a connection (model step Enc; releasing it
// is Send).  A GET of a routing record issued by a scheduled process is parked when the reply has
// arrived and LookupWaitingTunnel has not decoded it yet (LkRecv; releasing it is LkDec).  So the
// registrations and lookups of different tunnels overlap exactly in the order TLC generated.
// Calls made by the driver's own goroutine (the final lookups) pass the hook ungated.
package main

import (
	"context"
	"fmt"
	"strings"

	"github.com/alicebob/miniredis/v2"
	goredis "github.com/redis/go-redis/v9"

	"tunnox-core/internal/core/storage"
	"tunnox-core/internal/protocol/session"
	"tunnox-core/verifharness/doubles"
	"tunnox-core/verifharness/drivers/c08/wire"
	"tunnox-core/verifharness/fw"
	"tunnox-core/verifharness/sched"
)

type recordHook struct{ s *sched.Sched }

func (h recordHook) DialHook(next goredis.DialHook) goredis.DialHook { return next }
func (h recordHook) ProcessPipelineHook(next goredis.ProcessPipelineHook) goredis.ProcessPipelineHook {
	return next
}
func (h recordHook) ProcessHook(next goredis.ProcessHook) goredis.ProcessHook {
	return func(ctx context.Context, cmd goredis.Cmder) error {
		args := cmd.Args()
		if len(args) < 2 {
			return next(ctx, cmd)
		}
		key, _ := args[1].(string)
		if !strings.HasPrefix(key, waitingPrefix) {
			return next(ctx, cmd)
		}
		name := strings.ToLower(cmd.Name())
		switch {
		case name == "get":
			err := next(ctx, cmd)
			h.s.Gate("redis.Recvd", map[string]any{"key": key})
			h.s.After()
			return err
		case strings.HasPrefix(name, "set") || strings.HasPrefix(name, "pset"): // set, setex, psetex, setnx
			h.s.Gate("redis.Send", map[string]any{"key": key})
			err := next(ctx, cmd)
			h.s.After()
			return err
		}
		return next(ctx, cmd)
	}
}

// overlapWiring builds the redis / tiered wiring as drivers/c08/wire does (createRedisStorage:
// hybrid{cache = shared = the node's Redis storage}; createRemoteStorage: hybrid{memory, Redis,
// persistent double}), keeping hold of each node's redis.Storage to install the hook.
func overlapWiring(ctx context.Context, be string, nodes []string, s *sched.Sched) (*wire.Wiring, []func(), error) {
	if be != "redis" && be != "tiered" {
		return nil, nil, fmt.Errorf("overlap mode needs a Redis-backed wiring, not %q", be)
	}
	mr, err := miniredis.Run()
	if err != nil {
		return nil, nil, err
	}
	closers := []func(){mr.Close}
	fail := func(err error) (*wire.Wiring, []func(), error) {
		for i := len(closers) - 1; i >= 0; i-- {
			closers[i]()
		}
		return nil, nil, err
	}
	w := &wire.Wiring{Name: be, Stores: map[string]storage.Storage{}, Redis: mr}
	if be == "tiered" {
		w.Pers = doubles.NewStore("pers", nil)
	}
	for _, n := range nodes {
		rs, err := storage.NewRedisStorage(ctx, &storage.RedisConfig{Addr: mr.Addr(), PoolSize: 10})
		if err != nil {
			return fail(err)
		}
		rs.Client().AddHook(recordHook{s: s})
		cfg := storage.DefaultHybridConfig()
		var st *storage.HybridStorage
		if be == "redis" {
			cfg.EnablePersistent = false
			st = storage.NewHybridStorageWithSharedCache(ctx, rs, rs, nil, cfg)
		} else {
			cfg.EnablePersistent = true
			local, ok := storage.NewMemoryStorage(ctx).(storage.CacheStorage)
			if !ok {
				return fail(fmt.Errorf("memory storage is not a CacheStorage"))
			}
			st = storage.NewHybridStorageWithSharedCache(ctx, local, rs, doubles.Pers{St: w.Pers}, cfg)
		}
		closers = append(closers, func() { st.Close() })
		w.Stores[n] = st
	}
	return w, closers, nil
}

// driveOverlap realises one history of spec/RoutingSet.tla.  Which node performs a step is the
// driver's choice (the pools and scratch areas in question belong to the process, not to a node):
// tunnel i registers on node bit i of Rep, looker l1 looks up from A, l2 from B (two lookups parked
// on one node's storage would meet on its per-key lock).  Events: Create (the record is encoded,
// its SET in flight), Set (sent; RegisterWaitingTunnel returned), Lookup (as it returned); what is
// still in flight at the end of the history is completed, then every tunnel is looked up from
// every node.
func (wd *world) driveOverlap(t *fw.Trace) *fw.Trace {
	ctx := context.Background()
	for i, n := range wd.nodes {
		addr := fmt.Sprintf("10.9.0.%d:50052", 1+i)
		err := wd.rt[n].RegisterNodeAddress("node-"+n, addr)
		wd.addrs[n] = addr
		t.Events = append(t.Events, fw.Event{"ev": "Announce", "n": n, "ok": err == nil})
	}
	cls := wd.beh.Cls + ":overlap"
	tix := map[string]int{"t1": 0, "t2": 1, "t3": 2}
	nodeOf := func(tn string) string { return wd.nodes[(wd.beh.Rep>>tix[tn])&1] }
	lookerNode := map[string]string{"l1": "A", "l2": "B"}
	pend := map[string]fields{}
	regOrder := []string{}
	lkProc := map[string]string{}
	nLk := 0
	bad := func(status, note string) *fw.Trace {
		return &fw.Trace{Status: status, Note: "overlap: " + note}
	}
	// finish releases a process and, should the code make further gated round trips inside the same
	// call (a design other than the as-is one), lets those pass as part of the same model step
	finish := func(proc string) string {
		st, _ := wd.sch.Step(proc)
		for i := 0; st == sched.Parked && i < 8; i++ {
			st, _ = wd.sch.Step(proc)
		}
		return st
	}
	// park runs a new process up to the gate `point`, letting other gated round trips of the call pass
	park := func(proc string, fn func() any, point string) (string, sched.GateInfo) {
		st := wd.sch.Start(proc, fn)
		_, gi := wd.sch.State(proc)
		for i := 0; st == sched.Parked && gi.Point != point && i < 8; i++ {
			st, _ = wd.sch.Step(proc)
			_, gi = wd.sch.State(proc)
		}
		return st, gi
	}
	send := func(tn string) *fw.Trace {
		st := finish("reg:" + tn)
		if st == sched.Blocked {
			return bad(fw.Unrealisable, "the SET of "+tn+" does not return (blocked)")
		}
		if st != sched.Done {
			return bad(fw.DriverError, "RegisterWaitingTunnel of "+tn+" is "+st+" after its SET was released")
		}
		ev := fw.Event{"ev": "Set", "n": nodeOf(tn), "t": tn}
		if err, _ := wd.sch.Result("reg:" + tn).(error); err != nil {
			// the registration failed: the source end is not told, it waits all the same
			ev["err"] = short(err.Error())
		}
		wd.want[tn] = pend[tn]
		delete(pend, tn)
		t.Events = append(t.Events, ev)
		return nil
	}
	dec := func(l string) *fw.Trace {
		st := finish(lkProc[l])
		if st == sched.Blocked {
			return bad(fw.Unrealisable, "lookup "+l+" does not return (blocked)")
		}
		if st != sched.Done {
			return bad(fw.DriverError, "lookup "+l+" is "+st+" after its reply was released")
		}
		ev, _ := wd.sch.Result(lkProc[l]).(fw.Event)
		delete(lkProc, l)
		t.Events = append(t.Events, ev)
		return nil
	}
	for _, s := range wd.beh.Steps {
		switch s.A {
		case "Enc":
			n := nodeOf(s.T)
			wd.ids[s.T] = wd.newID(s.T)
			f := genFields(wd.rng, wd.beh.Cls, wd.ids[s.T])
			state := &session.TunnelWaitingState{TunnelID: f.TunnelID, MappingID: f.MappingID, SecretKey: f.SecretKey, SourceNodeID: "node-" + n,
				SourceClientID: f.SourceClientID, TargetClientID: f.TargetClientID, TargetHost: f.TargetHost, TargetPort: f.TargetPort}
			rt := wd.rt[n]
			st, gi := park("reg:"+s.T, func() any { return rt.RegisterWaitingTunnel(ctx, state) }, "redis.Send")
			switch {
			case st == sched.Blocked:
				// another parked SET of this node holds the storage's lock stripe of this key
				return bad(fw.Unrealisable, "the registration of "+s.T+" does not reach its SET (blocked)")
			case st != sched.Parked || gi.Point != "redis.Send":
				return bad(fw.DriverError, fmt.Sprintf("RegisterWaitingTunnel of %s is %s at %q, expected parked at the record's SET (result %v)", s.T, st, gi.Point, wd.sch.Result("reg:"+s.T)))
			}
			pend[s.T] = f
			regOrder = append(regOrder, s.T)
			t.Events = append(t.Events, fw.Event{"ev": "Create", "n": n, "t": s.T, "cls": cls, "period": 1})
		case "Send":
			if _, ok := pend[s.T]; !ok {
				return bad(fw.DriverError, "no SET of "+s.T+" in flight")
			}
			if tr := send(s.T); tr != nil {
				return tr
			}
		case "LkRecv":
			m := lookerNode[s.P]
			if m == "" || lkProc[s.P] != "" {
				return bad(fw.DriverError, "looker "+s.P+" unknown or busy")
			}
			nLk++
			name := fmt.Sprintf("lk:%s:%d", s.P, nLk)
			tn := s.T
			st, gi := park(name, func() any { return wd.lookup(m, tn) }, "redis.Recvd")
			switch {
			case st == sched.Blocked:
				return bad(fw.Unrealisable, "the lookup of "+tn+" from "+m+" does not reach its GET (blocked)")
			case st != sched.Parked || gi.Point != "redis.Recvd":
				return bad(fw.DriverError, fmt.Sprintf("lookup of %s from %s is %s at %q, expected parked after its GET", tn, m, st, gi.Point))
			}
			lkProc[s.P] = name
		case "LkDec":
			if lkProc[s.P] == "" {
				return bad(fw.DriverError, "looker "+s.P+" has no lookup in flight")
			}
			if tr := dec(s.P); tr != nil {
				return tr
			}
		default:
			return bad(fw.DriverError, "unknown step "+s.A)
		}
	}
	for _, l := range []string{"l1", "l2"} {
		if lkProc[l] != "" {
			if tr := dec(l); tr != nil {
				return tr
			}
		}
	}
	for _, tn := range regOrder {
		if _, ok := pend[tn]; ok {
			if tr := send(tn); tr != nil {
				return tr
			}
		}
	}
	for _, tn := range regOrder {
		for _, m := range wd.nodes {
			t.Events = append(t.Events, wd.lookup(m, tn))
		}
	}
	return t
}
