// C09 driver, site mode: the duplicate / refused source-side open (spec/Routing.tla DupOpen).
//
// A second open for a tunnel id whose bridge exists on the node is made by calling the real
// SessionManager.startSourceBridge (bound by go:linkname - through handleTunnelOpen a TunnelOpen for
// an id with a bridge is a target connection, and StartServerTunnel invents its own id) with the
// waiting tunnel's id and either its own mapping ("same") or another mapping of the cloud stub
// ("other": other secret, client ids and target address).  The record is read before and after the
// call - fields, CreatedAt, ExpiresAt and, on the Redis-backed wirings, the remaining key lifetime
// in miniredis (virtual time: it does not move by itself) - and the comparison is logged.
package main

import (
	"context"
	"fmt"
	"net"
	"time"
	_ "unsafe" // go:linkname

	"tunnox-core/internal/cloud/models"
	coreerrors "tunnox-core/internal/core/errors"
	"tunnox-core/internal/packet"
	"tunnox-core/internal/protocol/session"
	"tunnox-core/internal/stream"
	"tunnox-core/verifharness/fw"
	"tunnox-core/verifharness/srvkit"
)

//go:linkname startSourceBridge tunnox-core/internal/protocol/session.(*SessionManager).startSourceBridge
func startSourceBridge(s *session.SessionManager, req *packet.TunnelOpenRequest, sourceConn net.Conn, sourceStream stream.PackageStreamer) error

type recSnap struct {
	found    bool
	f        fields
	node     string
	created  time.Time
	expires  time.Time
	storeTTL time.Duration // remaining key lifetime in miniredis (0 when not readable)
}

func (wd *world) snapRecord(n, t string) recSnap {
	var s recSnap
	st, err := wd.rt[n].LookupWaitingTunnel(context.Background(), wd.ids[t])
	if err == nil && st != nil {
		s.found, s.f, s.node, s.created, s.expires = true, fieldsOf(st), st.SourceNodeID, st.CreatedAt, st.ExpiresAt
	}
	if wd.w.Redis != nil {
		s.storeTTL = wd.w.Redis.TTL(waitingPrefix + wd.ids[t])
	}
	return s
}

// dupOpen: a second source-side open for t on node n, kind = same | other
func (wd *world) dupOpen(n, t, kind string) (fw.Event, *fw.Trace) {
	ev := fw.Event{"ev": "DupOpen", "n": n, "t": t, "k": kind}
	if wd.beh.Mode != "site" {
		return nil, &fw.Trace{Status: fw.DriverError, Note: "DupOpen outside site mode"}
	}
	id, ok := wd.ids[t]
	if !ok || wd.onNode[t] != n {
		return nil, &fw.Trace{Status: fw.Unrealisable, Note: "no source end of " + t + " on " + n}
	}
	mid := wd.mapOf[t]
	secret := wd.want[t].SecretKey
	if kind == "other" {
		f := genFields(wd.rng, wd.beh.Cls, "")
		f.MappingID = "dup-" + t + "-" + f.MappingID
		if f.SecretKey == wd.want[t].SecretKey {
			f.SecretKey += "x"
		}
		wd.cloud[n].mu.Lock()
		wd.cloud[n].m[f.MappingID] = &models.PortMapping{ID: f.MappingID, ListenClientID: f.SourceClientID + 1, TargetClientID: f.TargetClientID + 1,
			TargetHost: f.TargetHost + ".dup", TargetPort: f.TargetPort, SecretKey: f.SecretKey, Protocol: "udp"}
		wd.cloud[n].mu.Unlock()
		mid, secret = f.MappingID, f.SecretKey
	}
	before := wd.snapRecord(n, t)
	err := startSourceBridge(wd.srv[n].SM, &packet.TunnelOpenRequest{TunnelID: id, MappingID: mid, SecretKey: secret},
		srvkit.NewTransport("10.1.1.2", 30000+wd.rng.Intn(20000)), nil)
	after := wd.snapRecord(n, t)
	switch {
	case err == nil:
		ev["r"] = "accepted"
	case coreerrors.IsCode(err, coreerrors.CodeAlreadyExists):
		ev["r"] = "refused"
	default:
		ev["r"] = "refused"
		ev["err"] = short(err.Error())
	}
	ev["recSame"] = before.found == after.found && before.f == after.f && before.node == after.node
	ev["expSame"] = before.created.Equal(after.created) && before.expires.Equal(after.expires) && before.storeTTL == after.storeTTL
	if ev["recSame"] != true {
		ev["diff"] = fmt.Sprintf("found %v->%v %s", before.found, after.found, diff(after.f, before.f))
	}
	if ev["expSame"] != true {
		ev["expDiff"] = fmt.Sprintf("expires %+v storeTTL %v->%v", after.expires.Sub(before.expires), before.storeTTL, after.storeTTL)
	}
	return ev, nil
}
