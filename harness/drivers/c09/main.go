// C09 driver: replays TLC-generated register / lookup / remove / expire histories
// (spec/Routing.tla) on REAL tunnel.RoutingTable instances - one per node, short waiting period -
// over one shared store in the three wirings of internal/app/server/storage.go (package wire:
// memory, redis on miniredis, tiered).  Two realisations of the same behaviours:
//
//	direct  the driver calls RegisterWaitingTunnel / LookupWaitingTunnel / RemoveWaitingTunnel /
//	        RegisterNodeAddress / GetNodeAddress itself, with the record concretised by a seeded
//	        generator (unicode, empty, 64 KiB strings, integer extremes)
//	site    Register and Remove go through the real call sites: SessionManager.StartServerTunnel
//	        (startSourceBridge builds the record from the port mapping and registers it) and the
//	        end of the bridge (runBridgeLifecycle removes it); the port mapping comes from a
//	        cloud-control stub carrying the generated values.  Lookups as in direct mode.
//
//	gated   the call sites step by step (spec/Routing.tla Mode "split"): the SessionManager's
//	        RoutingTable sits on a gate-controlled wrapper of the node's storage (harness/sched), so
//	        the Set of tunnox:tunnel_waiting:<id> inside startSourceBridge is parked (Create), the
//	        tunnel can be ended through the real bridge while that write is in flight (TunnelEnd),
//	        the write is released (Set) and the lifecycle's RemoveWaitingTunnel is a step of its own
//	        (Removed).  If the code issues the removal while the write is still parked - which the
//	        as-is code cannot - it is let through at once (its own order), the run is marked
//	        fw.Diverged and judged.  Lookups go through ungated RoutingTables of every node.
//
//	overlap the record's write and read path on the Redis-backed wirings step by step
//	        (spec/RoutingSet.tla): a go-redis hook on every node's client parks the SET of a routing
//	        record after redis.Storage.Set has encoded it and before it is sent (Enc / Send), and the
//	        GET of a lookup after it was answered and before LookupWaitingTunnel decodes it
//	        (LkRecv / LkDec), so registrations and lookups of different tunnels overlap in the
//	        model's order (overlap.go).
//
// Gated mode also drives a node shutdown at the call sites (Shutdown: SessionManager.Close while
// bridges exist, also while a record's Set is in flight); a lifecycle that has taken the bridge out
// of the map and does not issue its removal is recorded as Removed{skipped} (Diverged, judged).
//
// Field values are compared in Go (fieldsEqual is logged as a boolean); spec/RoutingTrace.tla
// judges the recorded lookups.
package main

import (
	"context"
	"encoding/json"
	"errors"
	"fmt"
	"math"
	"math/rand"
	"net"
	"runtime"
	"strings"
	"sync"
	"sync/atomic"
	"time"

	"tunnox-core/internal/cloud/models"
	"tunnox-core/internal/cloud/stats"
	coreerrors "tunnox-core/internal/core/errors"
	"tunnox-core/internal/core/storage"
	"tunnox-core/internal/packet"
	"tunnox-core/internal/protocol/session"
	"tunnox-core/verifharness/drivers/c08/wire"
	"tunnox-core/verifharness/fw"
	"tunnox-core/verifharness/sched"
	"tunnox-core/verifharness/srvkit"
)

const waitingPrefix = "tunnox:tunnel_waiting:"

// gatedStore parks writes and deletes of routing records at a scheduler gate; everything else
// passes straight through to the node's storage.
// It embeds the concrete *hybrid.Storage so that optional interfaces stay visible through it.
type gatedStore struct {
	*storage.HybridStorage
	s *sched.Sched
}

func (g *gatedStore) Set(key string, v any, ttl time.Duration) error {
	if strings.HasPrefix(key, waitingPrefix) {
		g.s.Gate("rt.Set", map[string]any{"key": key})
		defer g.s.After()
	}
	return g.HybridStorage.Set(key, v, ttl)
}

func (g *gatedStore) Delete(key string) error {
	if strings.HasPrefix(key, waitingPrefix) {
		g.s.Gate("rt.Delete", map[string]any{"key": key})
		defer g.s.After()
	}
	return g.HybridStorage.Delete(key)
}

// Model tick -> real time.  Waiting period = 1 tick.
//
//	live side: everything between a tick (or the start) and the next tick must complete within
//	segBudget, a third of the period, so a record registered in a segment is at most 130 ms old
//	when it is looked up in that segment (period 400 ms); otherwise the behaviour is discarded.
//	dead side: a tick sleeps 600 ms (and fast-forwards miniredis by as much), 200 ms beyond the period.
const (
	period    = 400 * time.Millisecond
	tickSleep = 600 * time.Millisecond
	segBudget = 130 * time.Millisecond
)

type step struct {
	A string `json:"a"`
	N string `json:"n"`
	T string `json:"t"`
	// where the mapping's target client has its control connection when the source end registers
	// (site mode): same node | other node | none
	Loc string `json:"loc,omitempty"`
	// overlap mode (spec/RoutingSet.tla): the lookup process of an LkRecv / LkDec step
	P string `json:"p,omitempty"`
}

type behaviour struct {
	Be    string `json:"be"`
	Mode  string `json:"mode"` // direct | site | gated | race
	Cls   string `json:"cls"`  // value class used for every registration of this behaviour
	Steps []step `json:"steps,omitempty"`
	// PerMs > 0: waiting period in milliseconds of a "virtual time" behaviour (Redis-backed wirings
	// only): 2 model ticks; a tick fast-forwards miniredis by PerMs-100 and does not sleep, so the
	// first tick after a registration is a lookup shortly before the period ends
	PerMs int `json:"perMs,omitempty"`
	Rep   int `json:"rep,omitempty"`
}

// ---- value generator -------------------------------------------------------------------------

var classes = []string{"ascii", "unicode", "empty", "big", "intext", "mixed"}

var alphabets = map[string][]rune{
	"ascii":   []rune("abcdefghijklmnopqrstuvwxyzABCDEFGHIJKLMNOPQRSTUVWXYZ0123456789-_.:/"),
	"unicode": []rune("äöüßéèñçøłжщюяλπωΩ中文隧道映射日本語テスト한국어🙂🚀𝔘𝔫𝔦\u00a0\u2028\u2029\u200b\ufeff\u202e\ufffd abc<>&\"'\\/\t\n\r\x00\x01\x7f{}[]:,"),
}

func genString(r *rand.Rand, cls string, n int) string {
	a := alphabets["ascii"]
	if cls == "unicode" {
		a = alphabets["unicode"]
	}
	var b strings.Builder
	for i := 0; i < n; i++ {
		b.WriteRune(a[r.Intn(len(a))])
	}
	return b.String()
}

var int64Extremes = []int64{math.MaxInt64, math.MinInt64, 0, -1, 1, math.MaxInt32, math.MinInt32, 1 << 53, 1<<53 + 1, -(1<<53 + 1), math.MaxInt64 - 1}
var intExtremes = []int{math.MaxInt, math.MinInt, 0, -1, 65535, 65536, 1 << 53, 1<<53 + 1, math.MaxInt32}

// fields are the property-relevant contents of a routing record.
type fields struct {
	TunnelID       string
	MappingID      string
	SecretKey      string
	SourceClientID int64
	TargetClientID int64
	TargetHost     string
	TargetPort     int
}

func genFields(r *rand.Rand, cls string, tunnelID string) fields {
	pick := cls
	if cls == "mixed" {
		pick = classes[r.Intn(len(classes)-1)]
	}
	f := fields{TunnelID: tunnelID}
	str := func(n int) string {
		switch pick {
		case "empty":
			return ""
		case "big":
			return genString(r, []string{"ascii", "unicode"}[r.Intn(2)], 64*1024)
		case "unicode":
			return genString(r, "unicode", 1+r.Intn(n))
		default:
			return genString(r, "ascii", 1+r.Intn(n))
		}
	}
	f.MappingID, f.SecretKey, f.TargetHost = str(24), str(40), str(60)
	if cls == "mixed" { // each field from its own class
		for _, p := range []*string{&f.MappingID, &f.SecretKey, &f.TargetHost} {
			pick = classes[r.Intn(len(classes)-1)]
			*p = str(40)
		}
	}
	if pick == "intext" || cls == "intext" || cls == "mixed" {
		f.SourceClientID = int64Extremes[r.Intn(len(int64Extremes))]
		f.TargetClientID = int64Extremes[r.Intn(len(int64Extremes))]
		f.TargetPort = intExtremes[r.Intn(len(intExtremes))]
	} else if pick == "empty" {
		f.SourceClientID, f.TargetClientID, f.TargetPort = 0, 0, 0
	} else {
		f.SourceClientID = 10000000 + r.Int63n(89999999)
		f.TargetClientID = 10000000 + r.Int63n(89999999)
		f.TargetPort = 1 + r.Intn(65535)
	}
	return f
}

// tunnel ids are keys: never empty (RegisterWaitingTunnel refuses the empty id), otherwise from the class
func genTunnelID(r *rand.Rand, cls, t string) string {
	switch cls {
	case "unicode":
		return "隧道-" + t + "-" + genString(r, "unicode", 12)
	case "big":
		return t + "-" + genString(r, "ascii", 64*1024)
	case "mixed":
		if r.Intn(2) == 0 {
			return "tünnel " + t + " " + genString(r, "unicode", 8)
		}
	}
	return fmt.Sprintf("tcp-tunnel-%d-%d-%s", 1700000000000000000+r.Int63n(1e15), 1+r.Intn(65535), t)
}

func fieldsOf(s *session.TunnelWaitingState) fields {
	return fields{TunnelID: s.TunnelID, MappingID: s.MappingID, SecretKey: s.SecretKey, SourceClientID: s.SourceClientID,
		TargetClientID: s.TargetClientID, TargetHost: s.TargetHost, TargetPort: s.TargetPort}
}

// ---- cloud-control stub for site mode ---------------------------------------------------------

type cloudStub struct {
	mu sync.Mutex
	m  map[string]*models.PortMapping
}

func (c *cloudStub) GetPortMapping(id string) (*models.PortMapping, error) {
	c.mu.Lock()
	defer c.mu.Unlock()
	if m, ok := c.m[id]; ok {
		cp := *m
		return &cp, nil
	}
	return nil, errors.New("mapping not found")
}
func (c *cloudStub) UpdatePortMappingStats(string, *stats.TrafficStats) error { return nil }
func (c *cloudStub) GetClientPortMappings(int64) ([]*models.PortMapping, error) {
	return nil, nil
}
func (c *cloudStub) TouchClient(int64)            {}
func (c *cloudStub) DisconnectClient(int64) error { return nil }
func (c *cloudStub) DisconnectClientIfMatch(int64, string, string) (bool, error) {
	return false, nil
}
func (c *cloudStub) EnsureClientOnline(int64, string, string, string, string, string) error {
	return nil
}

// ---- one behaviour ------------------------------------------------------------------------------

type world struct {
	beh    behaviour
	w      *wire.Wiring
	nodes  []string
	rt     map[string]*session.TunnelRoutingTable
	srv    map[string]*srvkit.Server // site mode
	cloud  map[string]*cloudStub
	addrs  map[string]string // node -> announced address
	ids    map[string]string // model tunnel -> concrete id (direct mode: fixed per behaviour)
	want   map[string]fields // model tunnel -> values of its latest registration
	mapOf  map[string]string // site mode: model tunnel -> mapping id of its latest registration
	rng    *rand.Rand
	cancel context.CancelFunc
	period time.Duration
	nTgt   int
	onNode map[string]string       // model tunnel -> node its source end waits on
	regs   map[string]int          // model tunnel -> registrations so far
	peers  map[string]*peer        // arrive mode: stand-ins for the nodes' cross-node listeners
	tconn  map[string]*srvkit.Conn // arrive mode: "m/t" -> the forwarded target connection held at m

	// gated mode
	sch      *sched.Sched
	gmu      sync.Mutex
	keyT     map[string]string // routing key -> model tunnel
	regProc  map[string]string // model tunnel -> scheduler process of its StartServerTunnel call
	inFlight map[string]bool   // model tunnel -> its record's Set is parked
	pendWant map[string]fields
	nReg     map[string]int
	nLife    map[string]int // lifecycle removals of the tunnel id already let through
	diverged string
	skipped  map[string]string // model tunnel -> lifecycle process whose removal was not issued although the bridge left the map
	closers  []func()          // overlap mode: storages / miniredis built by the driver itself
}

func (wd *world) Close() {
	for _, p := range wd.peers {
		p.ln.Close()
	}
	if wd.sch != nil {
		wd.sch.Drain(2 * time.Second)
	}
	for _, s := range wd.srv {
		s.Close()
	}
	wd.w.Close()
	for i := len(wd.closers) - 1; i >= 0; i-- {
		wd.closers[i]()
	}
	wd.cancel()
}

func newWorld(env *fw.Env, b fw.Behaviour, beh behaviour) (*world, error) {
	ctx, cancel := context.WithCancel(context.Background())
	nodes := []string{"A", "B"}
	for _, s := range beh.Steps {
		if s.N == "C" && len(nodes) == 2 {
			nodes = append(nodes, "C")
		}
	}
	var w *wire.Wiring
	var err error
	var closers []func()
	var osch *sched.Sched
	if beh.Mode == "overlap" {
		osch = sched.New(false)
		osch.Watchdog = 2 * time.Second
		w, closers, err = overlapWiring(ctx, beh.Be, nodes, osch)
	} else {
		w, err = wire.New(ctx, beh.Be, nodes)
	}
	if err != nil {
		cancel()
		return nil, err
	}
	seed := env.Seed*1000003 + int64(len(beh.Steps))*7919
	for _, c := range string(b.Data) {
		seed = seed*31 + int64(c)
	}
	wd := &world{beh: beh, w: w, nodes: nodes, rt: map[string]*session.TunnelRoutingTable{}, srv: map[string]*srvkit.Server{}, cloud: map[string]*cloudStub{},
		addrs: map[string]string{}, ids: map[string]string{}, want: map[string]fields{}, mapOf: map[string]string{}, rng: rand.New(rand.NewSource(seed)), cancel: cancel,
		onNode: map[string]string{}, regs: map[string]int{}, peers: map[string]*peer{}, tconn: map[string]*srvkit.Conn{},
		skipped: map[string]string{}, closers: closers}
	if beh.Mode == "overlap" {
		wd.sch = osch
	}
	if beh.Mode == "gated" {
		wd.sch = sched.New(false)
		wd.sch.Watchdog = 2 * time.Second
		wd.keyT, wd.regProc, wd.inFlight = map[string]string{}, map[string]string{}, map[string]bool{}
		wd.pendWant, wd.nReg, wd.nLife = map[string]fields{}, map[string]int{}, map[string]int{}
		// goroutines the server spawns itself: the bridge lifecycle is adopted when it comes to
		// remove a routing record; anything else passes ungated
		wd.sch.Adopt = func(g sched.GateInfo) string {
			if g.Point != "rt.Delete" {
				return ""
			}
			key, _ := g.Info["key"].(string)
			wd.gmu.Lock()
			defer wd.gmu.Unlock()
			if t, ok := wd.keyT[key]; ok {
				return "life:" + t
			}
			return ""
		}
	}
	wd.period = period
	if beh.Mode == "overlap" {
		wd.period = time.Hour // no clock in these behaviours: nothing lapses
	}
	if beh.PerMs > 0 {
		wd.period = time.Duration(beh.PerMs) * time.Millisecond
	}
	for _, n := range nodes {
		wd.rt[n] = session.NewTunnelRoutingTable(w.Stores[n], wd.period)
		if beh.Mode == "arrive" {
			// real SessionManager per node for the target's arrival path: routing table, a tunnel handler
			// that lets authenticated connections through, a CrossNodePool that dials the address the
			// routing table holds for the source node - a peer listener standing in for its CrossNodeListener
			s, err := srvkit.NewServer(srvkit.Options{NodeID: "node-" + n, HeartbeatTimeout: time.Hour, CleanupInterval: time.Hour, NoConnState: true})
			if err != nil {
				wd.Close()
				return nil, err
			}
			wd.srv[n] = s
			s.SM.SetTunnelRoutingTable(wd.rt[n])
			s.SM.SetTunnelHandler(refuseTunnels{})
			pc := session.DefaultCrossNodePoolConfig()
			pc.MinConns, pc.MaxConns, pc.DialTimeout = 0, 4, 2*time.Second
			s.SM.SetCrossNodePool(session.NewCrossNodePool(s.Ctx, w.Stores[n], "node-"+n, pc))
			ln, err := net.Listen("tcp", "127.0.0.1:0")
			if err != nil {
				wd.Close()
				return nil, err
			}
			wd.peers[n] = &peer{node: n, ln: ln}
			go wd.peers[n].serve()
		}
		if beh.Mode == "site" || beh.Mode == "gated" {
			s, err := srvkit.NewServer(srvkit.Options{NodeID: "node-" + n, HeartbeatTimeout: time.Hour, CleanupInterval: time.Hour, NoConnState: true})
			if err != nil {
				wd.Close()
				return nil, err
			}
			wd.srv[n] = s
			wd.cloud[n] = &cloudStub{m: map[string]*models.PortMapping{}}
			s.SM.SetCloudControl(wd.cloud[n])
			if beh.Mode == "gated" {
				s.SM.SetTunnelRoutingTable(session.NewTunnelRoutingTable(&gatedStore{HybridStorage: w.Stores[n].(*storage.HybridStorage), s: wd.sch}, period))
			} else {
				s.SM.SetTunnelRoutingTable(wd.rt[n])
			}
		}
	}
	return wd, nil
}

func (wd *world) lookup(m, t string) fw.Event {
	ev := fw.Event{"ev": "Lookup", "m": m, "t": t, "node": "-", "fieldsEqual": false, "addrOk": false}
	id, ok := wd.ids[t]
	if !ok { // never registered in this behaviour: a replayed id nobody knows
		id = wd.newID(t)
		wd.ids[t] = id
	}
	st, err := wd.rt[m].LookupWaitingTunnel(context.Background(), id)
	switch {
	case err == nil && st != nil:
		ev["r"] = "found"
		ev["node"] = strings.TrimPrefix(st.SourceNodeID, "node-")
		got, want := fieldsOf(st), wd.want[t]
		ev["fieldsEqual"] = got == want
		if got != want {
			ev["diff"] = diff(got, want)
		}
		ev["life"] = st.ExpiresAt.Sub(st.CreatedAt) == wd.period
		a, aerr := wd.rt[m].GetNodeAddress(st.SourceNodeID)
		ev["addrOk"] = aerr == nil && a != "" && a == wd.addrs[strings.TrimPrefix(st.SourceNodeID, "node-")]
	case errors.Is(err, session.ErrTunnelNotFound):
		ev["r"] = "notfound"
	case errors.Is(err, session.ErrTunnelExpired):
		ev["r"] = "expired"
	default:
		ev["r"] = "error"
		ev["err"] = short(fmt.Sprint(err))
	}
	return ev
}

func diff(a, b fields) string {
	var d []string
	if a.TunnelID != b.TunnelID {
		d = append(d, "TunnelID")
	}
	if a.MappingID != b.MappingID {
		d = append(d, "MappingID")
	}
	if a.SecretKey != b.SecretKey {
		d = append(d, "SecretKey")
	}
	if a.SourceClientID != b.SourceClientID {
		d = append(d, "SourceClientID")
	}
	if a.TargetClientID != b.TargetClientID {
		d = append(d, "TargetClientID")
	}
	if a.TargetHost != b.TargetHost {
		d = append(d, "TargetHost")
	}
	if a.TargetPort != b.TargetPort {
		d = append(d, "TargetPort")
	}
	return strings.Join(d, ",")
}

func short(s string) string {
	if len(s) > 160 {
		return s[:160]
	}
	return s
}

func (wd *world) register(n, t, loc string) (fw.Event, *fw.Trace) {
	ev := fw.Event{"ev": "Register", "n": n, "t": t, "cls": wd.beh.Cls, "period": 1}
	if wd.beh.PerMs > 0 {
		ev["period"], ev["cls"] = 2, fmt.Sprintf("%s:period=%gs", wd.beh.Cls, float64(wd.beh.PerMs)/1000)
	}
	ctx := context.Background()
	if wd.beh.Mode == "site" {
		f := genFields(wd.rng, wd.beh.Cls, "")
		if f.MappingID == "" { // StartServerTunnel needs a mapping to look up; ids are never empty in the cloud
			f.MappingID = "m-" + t
		}
		var notified chan struct{}
		if loc == "same" || loc == "other" {
			// the mapping's target client holds an authenticated control connection on the source
			// node / on another node when the source end registers (a real first-connect handshake)
			tn := n
			if loc == "other" {
				for _, m := range wd.nodes {
					if m != n {
						tn = m
						break
					}
				}
			}
			wd.nTgt++
			c, err := wd.srv[tn].NewConn(fmt.Sprintf("10.7.%d.%d", wd.nTgt/250, 1+wd.nTgt%250))
			if err != nil {
				return nil, &fw.Trace{Status: fw.DriverError, Note: "target control connection: " + err.Error()}
			}
			id, _, _, err := c.FirstConnect("control")
			if err != nil || id == 0 || wd.srv[tn].SM.GetControlConnectionByClientID(id) == nil {
				return nil, &fw.Trace{Status: fw.DriverError, Note: fmt.Sprintf("target control connection on %s not established (id=%d err=%v)", tn, id, err)}
			}
			f.TargetClientID = id
			ev["cls"] = wd.beh.Cls + ":target=" + loc
			if loc == "same" {
				c.Drain()
				notified = make(chan struct{})
				c.T.AfterNextPacket(func() { close(notified) })
			}
		}
		wd.cloud[n].mu.Lock()
		wd.cloud[n].m[f.MappingID] = &models.PortMapping{ID: f.MappingID, ListenClientID: f.SourceClientID, TargetClientID: f.TargetClientID,
			TargetHost: f.TargetHost, TargetPort: f.TargetPort, SecretKey: f.SecretKey, Protocol: "udp"}
		wd.cloud[n].mu.Unlock()
		id, err := wd.srv[n].SM.StartServerTunnel(f.MappingID, srvkit.NewTransport("10.1.1.1", 40000+wd.rng.Intn(20000)))
		if err != nil {
			return nil, &fw.Trace{Status: fw.DriverError, Note: "StartServerTunnel: " + err.Error()}
		}
		f.TunnelID = id
		wd.ids[t], wd.want[t], wd.mapOf[t] = id, f, f.MappingID
		wd.onNode[t] = n
		ev["ok"] = true
		if notified != nil {
			// startSourceBridge notifies the local target client asynchronously (a command written to
			// its control connection): let that write finish, the teardown must not cut into it
			// (StreamProcessor.Close under a WritePacket in flight dereferences nil - C16's open finding
			// NoPanic/stream:pendingWrite - and would take the whole driver process down; on a loaded
			// machine the notifying goroutine may be scheduled late, so the wait is long.  A behaviour
			// that waited long is discarded by the segment budget anyway.)
			select {
			case <-notified:
			case <-time.After(20 * time.Second):
			}
		}
		return ev, nil
	}
	if _, ok := wd.ids[t]; !ok {
		wd.ids[t] = wd.newID(t)
	}
	if wd.regs[t]++; wd.regs[t] > 1 {
		ev["cls"] = fmt.Sprint(ev["cls"]) + ":reused-id"
	}
	wd.onNode[t] = n
	f := genFields(wd.rng, wd.beh.Cls, wd.ids[t])
	st := &session.TunnelWaitingState{TunnelID: f.TunnelID, MappingID: f.MappingID, SecretKey: f.SecretKey, SourceNodeID: "node-" + n,
		SourceClientID: f.SourceClientID, TargetClientID: f.TargetClientID, TargetHost: f.TargetHost, TargetPort: f.TargetPort}
	err := wd.rt[n].RegisterWaitingTunnel(ctx, st)
	wd.want[t] = f
	ev["ok"] = err == nil
	if err != nil {
		ev["err"] = short(err.Error())
	}
	return ev, nil
}

// newID concretises a model tunnel id.  In arrive mode ids stay within the 16 bytes the cross-node
// frame header carries (longer ids are C10's subject).
func (wd *world) newID(t string) string {
	if wd.beh.Mode == "arrive" {
		return fmt.Sprintf("tun-%s-%06x", t, wd.rng.Intn(1<<24))
	}
	return genTunnelID(wd.rng, wd.beh.Cls, t)
}

// shutdown closes node n's SessionManager (site mode) - its context is cancelled, its bridges end and
// runBridgeLifecycle removes their records with that cancelled context - or, at the RoutingTable API
// level (direct mode), removes the records of the tunnels waiting on n with a cancelled context, as
// that call site does.  One Remove event (why = shutdown) per tunnel that was waiting on n.
func (wd *world) shutdown(n string) []fw.Event {
	var mine []string
	for _, t := range []string{"t1", "t2", "t3"} {
		if wd.onNode[t] == n {
			mine = append(mine, t)
		}
	}
	if wd.beh.Mode == "site" {
		wd.srv[n].SM.Close()
		deadline := time.Now().Add(3 * time.Second)
		for _, t := range mine {
			for time.Now().Before(deadline) {
				if _, err := wd.w.Stores[n].Get(waitingPrefix + wd.ids[t]); err != nil {
					break
				}
				time.Sleep(time.Millisecond)
			}
		}
	} else {
		ctx, cancel := context.WithCancel(context.Background())
		cancel()
		for _, t := range mine {
			wd.rt[n].RemoveWaitingTunnel(ctx, wd.ids[t])
		}
	}
	var evs []fw.Event
	for _, t := range mine {
		delete(wd.onNode, t)
		evs = append(evs, fw.Event{"ev": "Remove", "n": n, "t": t, "why": "shutdown"})
	}
	return evs
}

// ---- arrive mode: the target's TunnelOpen through the session layer -----------------------------

// refuseTunnels is the tunnel handler of arrive mode.  handleTunnelOpen asks it to validate the
// request (authentication / credentials: C04's subject) before it consults bridges and the
// routing table; here every authenticated connection is let through.
type refuseTunnels struct{}

func (refuseTunnels) HandleTunnelOpen(c session.ControlConnectionInterface, _ *packet.TunnelOpenRequest) error {
	if c == nil || !c.IsAuthenticated() {
		return errors.New("not authenticated")
	}
	return nil
}

// peer accepts the dedicated connections another node's session layer dials when it forwards a
// target connection, records the TargetReady frames (tunnel ids) and keeps the connection open.
type peer struct {
	node string
	ln   net.Listener
	mu   sync.Mutex
	got  []string
}

func (p *peer) serve() {
	for {
		c, err := p.ln.Accept()
		if err != nil {
			return
		}
		go func(c net.Conn) {
			defer c.Close()
			for {
				_, ft, data, err := session.ReadFrameFromReader(c)
				if err != nil {
					return
				}
				if ft == session.FrameTypeTargetReady {
					id, _, _ := session.DecodeTargetReadyMessage(data)
					p.mu.Lock()
					p.got = append(p.got, id)
					p.mu.Unlock()
				}
			}
		}(c)
	}
}

func (p *peer) has(id string) bool {
	p.mu.Lock()
	defer p.mu.Unlock()
	for i, g := range p.got {
		if g == id {
			p.got = append(p.got[:i], p.got[i+1:]...)
			return true
		}
	}
	return false
}

func (wd *world) arrive(m, t string) (fw.Event, *fw.Trace) {
	ev := fw.Event{"ev": "Arrive", "m": m, "t": t, "node": "-"}
	id, ok := wd.ids[t]
	if !ok {
		id = wd.newID(t)
		wd.ids[t] = id
	}
	c, err := wd.srv[m].NewConn(fmt.Sprintf("10.8.0.%d", 1+len(wd.tconn)))
	if err != nil {
		return nil, &fw.Trace{Status: fw.DriverError, Note: "arrive: " + err.Error()}
	}
	// the target client's tunnel connection authenticates first (a real first-connect handshake of
	// connection type "tunnel"), as the client does before it sends TunnelOpen
	if id, _, _, err := c.FirstConnect("tunnel"); err != nil || id == 0 {
		return nil, &fw.Trace{Status: fw.DriverError, Note: fmt.Sprintf("arrive: tunnel-connection handshake refused (id=%d err=%v)", id, err)}
	}
	f := wd.want[t]
	body, _ := json.Marshal(&packet.TunnelOpenRequest{TunnelID: id, MappingID: f.MappingID, SecretKey: f.SecretKey})
	_, herr, err := c.Send(&packet.TransferPacket{PacketType: packet.TunnelOpen, Payload: body})
	if err != nil {
		return nil, &fw.Trace{Status: fw.DriverError, Note: "arrive: " + err.Error()}
	}
	if coreerrors.IsCode(herr, coreerrors.CodeTunnelModeSwitch) {
		// forwarded: the TargetReady frame has been written; find out which node's listener got it
		deadline := time.Now().Add(time.Second)
		for ev["node"] == "-" && time.Now().Before(deadline) {
			for n, p := range wd.peers {
				if p.has(id) {
					ev["node"] = n
				}
			}
			if ev["node"] == "-" {
				time.Sleep(200 * time.Microsecond)
			}
		}
		ev["r"] = "forward"
		wd.tconn[m+"/"+t] = c
		return ev, nil
	}
	ev["r"] = "refused"
	if herr != nil {
		ev["err"] = short(herr.Error())
	}
	c.Disconnect()
	return ev, nil
}

// targetGone: the forwarded target connection held at m goes away; the forwarding ends and m
// remembers the tunnel id as ended
func (wd *world) targetGone(m, t string) (fw.Event, *fw.Trace) {
	c := wd.tconn[m+"/"+t]
	if c == nil {
		return nil, &fw.Trace{Status: fw.Unrealisable, Note: "no forwarded target connection of " + t + " on " + m}
	}
	delete(wd.tconn, m+"/"+t)
	c.T.Close()
	for t0 := time.Now(); time.Since(t0) < time.Second && !wd.srv[m].SM.IsTunnelClosed(wd.ids[t]); {
		time.Sleep(200 * time.Microsecond)
	}
	return fw.Event{"ev": "TargetGone", "m": m, "t": t, "marked": wd.srv[m].SM.IsTunnelClosed(wd.ids[t])}, nil
}

func (wd *world) remove(n, t string) (fw.Event, *fw.Trace) {
	ev := fw.Event{"ev": "Remove", "n": n, "t": t}
	delete(wd.onNode, t)
	if wd.beh.Mode == "site" {
		sm := wd.srv[n].SM
		br := sm.GetTunnelBridgeByMappingID(wd.mapOf[t], 0)
		if br == nil {
			return nil, &fw.Trace{Status: fw.DriverError, Note: "site: no bridge for " + t}
		}
		br.Close()
		// runBridgeLifecycle removes the bridge from the map, then the routing record; wait for both
		deadline := time.Now().Add(3 * time.Second)
		for sm.GetTunnelBridgeByMappingID(wd.mapOf[t], 0) != nil && time.Now().Before(deadline) {
			time.Sleep(time.Millisecond)
		}
		for time.Now().Before(deadline) {
			if _, err := wd.w.Stores[n].Get("tunnox:tunnel_waiting:" + wd.ids[t]); err != nil {
				break
			}
			time.Sleep(time.Millisecond)
		}
		return ev, nil
	}
	if err := wd.rt[n].RemoveWaitingTunnel(context.Background(), wd.ids[t]); err != nil {
		ev["err"] = short(err.Error())
	}
	return ev, nil
}

// ---- race rounds: re-registration of an id against lookups that meet its lapsed record ----------

// raceRounds repeats, for a time box: (1) register the id with a waiting period of 100 us and let it
// lapse - the entry stays under the key (nothing sweeps it); (2) release together, by a spin
// barrier, three lookups of the id on node B and its re-registration on node A (period 1 h);
// (3) when all have returned, the id must resolve, from every node, to the new record; (4) remove.
// Lookups are read-only: whatever they saw, they must not take the new record away.  The trace is
// the last round (or the first failing one): Register, then a lookup from every node.
func (wd *world) raceRounds(env *fw.Env, t *fw.Trace) *fw.Trace {
	box := 250 * time.Millisecond
	if env.Tier == "thorough" {
		box = 1500 * time.Millisecond
	}
	ctx := context.Background()
	for _, n := range wd.nodes {
		addr := fmt.Sprintf("10.0.0.%d:50052", 1+len(wd.addrs))
		err := wd.rt[n].RegisterNodeAddress("node-"+n, addr)
		wd.addrs[n] = addr
		t.Events = append(t.Events, fw.Event{"ev": "Announce", "n": n, "ok": err == nil})
	}
	if wd.beh.Cls == "concurrent-registrations" {
		return wd.concurrentRegistrations(box, t)
	}
	short := session.NewTunnelRoutingTable(wd.w.Stores["A"], 100*time.Microsecond)
	long := session.NewTunnelRoutingTable(wd.w.Stores["A"], time.Hour)
	look := session.NewTunnelRoutingTable(wd.w.Stores["B"], time.Hour)
	id := genTunnelID(wd.rng, "ascii", "t1")
	wd.ids["t1"] = id
	mk := func(f fields) *session.TunnelWaitingState {
		return &session.TunnelWaitingState{TunnelID: f.TunnelID, MappingID: f.MappingID, SecretKey: f.SecretKey, SourceNodeID: "node-A",
			SourceClientID: f.SourceClientID, TargetClientID: f.TargetClientID, TargetHost: f.TargetHost, TargetPort: f.TargetPort}
	}
	// persistent racers released together by a generation counter (spin barrier): racer 0
	// re-registers (after a per-round delay of a few hundred nanoseconds, so that the lookups'
	// reads of the lapsed entry tend to come first), the others look the id up on node B
	const racers = 6
	var gen, done, spin atomic.Int64
	var cur atomic.Pointer[fields]
	var regErr error
	stop := false
	for i := 0; i < racers; i++ {
		go func(i int) {
			last := int64(0)
			for {
				for gen.Load() == last {
					runtime.Gosched()
				}
				last = gen.Load()
				if stop {
					return
				}
				if i == 0 {
					for j := 0; j < (int(last)%16)*30; j++ {
						spin.Add(1)
					}
					regErr = long.RegisterWaitingTunnel(ctx, mk(*cur.Load()))
				} else {
					look.LookupWaitingTunnel(ctx, id)
				}
				done.Add(1)
			}
		}(i)
	}
	deadline := time.Now().Add(box)
	rounds := 0
	var last []fw.Event
	for time.Now().Before(deadline) {
		rounds++
		if err := short.RegisterWaitingTunnel(ctx, mk(genFields(wd.rng, "ascii", id))); err != nil {
			return &fw.Trace{Status: fw.DriverError, Note: "race: " + err.Error()}
		}
		for t0 := time.Now(); time.Since(t0) < 300*time.Microsecond; {
		}
		f := genFields(wd.rng, "ascii", id)
		cur.Store(&f)
		done.Store(0)
		gen.Add(1)
		for done.Load() < racers {
			runtime.Gosched()
		}
		wd.want["t1"] = f
		reg := fw.Event{"ev": "Register", "n": "A", "t": "t1", "cls": "reregister-race", "period": 1, "ok": regErr == nil}
		la, lb := wd.lookup("A", "t1"), wd.lookup("B", "t1")
		last = []fw.Event{reg, la, lb}
		if la["r"] != "found" || lb["r"] != "found" || la["fieldsEqual"] != true || lb["fieldsEqual"] != true {
			break
		}
		long.RemoveWaitingTunnel(ctx, id)
	}
	stop = true
	gen.Add(1)
	t.Events[0]["rounds"] = rounds
	t.Events = append(t.Events, last...)
	return t
}

// concurrentRegistrations repeats, for a time box: 16 source ends register 16 DIFFERENT tunnel ids
// with different data at the same moment (spin barrier; more than the Redis client's pool of 10
// connections), alternating between the two nodes; when all have returned, every id must resolve
// from the other node to exactly its own data.  Tunnels must not interfere.  The trace is one
// registration (the first that does not resolve to its data, else the last) and its lookups.
func (wd *world) concurrentRegistrations(box time.Duration, t *fw.Trace) *fw.Trace {
	ctx := context.Background()
	const k = 16
	reg := map[string]*session.TunnelRoutingTable{"A": session.NewTunnelRoutingTable(wd.w.Stores["A"], time.Hour), "B": session.NewTunnelRoutingTable(wd.w.Stores["B"], time.Hour)}
	var gen, done atomic.Int64
	var fs [k]fields
	var errs [k]error
	stop := false
	for i := 0; i < k; i++ {
		go func(i int) {
			last := int64(0)
			for {
				for gen.Load() == last {
					runtime.Gosched()
				}
				last = gen.Load()
				if stop {
					return
				}
				n := []string{"A", "B"}[i%2]
				f := fs[i]
				errs[i] = reg[n].RegisterWaitingTunnel(ctx, &session.TunnelWaitingState{TunnelID: f.TunnelID, MappingID: f.MappingID, SecretKey: f.SecretKey,
					SourceNodeID: "node-" + n, SourceClientID: f.SourceClientID, TargetClientID: f.TargetClientID, TargetHost: f.TargetHost, TargetPort: f.TargetPort})
				done.Add(1)
			}
		}(i)
	}
	deadline := time.Now().Add(box)
	rounds := 0
	var last []fw.Event
	for time.Now().Before(deadline) {
		rounds++
		for i := range fs {
			cls := []string{"ascii", "unicode", "intext"}[wd.rng.Intn(3)]
			fs[i] = genFields(wd.rng, cls, fmt.Sprintf("cr-%d-%d-%s", rounds, i, genString(wd.rng, "ascii", 1+wd.rng.Intn(24))))
		}
		done.Store(0)
		gen.Add(1)
		for done.Load() < k {
			runtime.Gosched()
		}
		bad := k - 1
		for i := k - 1; i >= 0; i-- {
			n, m := []string{"A", "B"}[i%2], []string{"B", "A"}[i%2]
			st, err := reg[m].LookupWaitingTunnel(ctx, fs[i].TunnelID)
			if errs[i] != nil || err != nil || st == nil || fieldsOf(st) != fs[i] || st.SourceNodeID != "node-"+n {
				bad = i
			}
		}
		n := []string{"A", "B"}[bad%2]
		wd.ids["t1"], wd.want["t1"] = fs[bad].TunnelID, fs[bad]
		last = []fw.Event{{"ev": "Register", "n": n, "t": "t1", "cls": "concurrent-registrations", "period": 1, "ok": errs[bad] == nil},
			wd.lookup("A", "t1"), wd.lookup("B", "t1")}
		failed := last[1]["r"] != "found" || last[2]["r"] != "found" || last[1]["fieldsEqual"] != true || last[2]["fieldsEqual"] != true || last[1]["node"] != n
		for i := range fs {
			reg["A"].RemoveWaitingTunnel(ctx, fs[i].TunnelID)
		}
		if failed {
			break
		}
	}
	stop = true
	gen.Add(1)
	t.Events[0]["rounds"] = rounds
	t.Events = append(t.Events, last...)
	return t
}

// ---- gated mode: the call sites step by step --------------------------------------------------

func (wd *world) lifeName(t string) string { return fmt.Sprintf("life:%s#%d", t, wd.nLife[t]+1) }

// lifeParked reports whether the lifecycle of t's current bridge is parked at its routing-record removal.
func (wd *world) lifeParked(t string) bool {
	st, _ := wd.sch.State(wd.lifeName(t))
	return st == sched.Parked
}

func (wd *world) waitLife(t string, d time.Duration) bool {
	deadline := time.Now().Add(d)
	for {
		if wd.lifeParked(t) {
			return true
		}
		if time.Now().After(deadline) {
			return false
		}
		time.Sleep(200 * time.Microsecond)
	}
}

func (wd *world) letRemove(n, t string) fw.Event {
	wd.sch.Step(wd.lifeName(t))
	wd.nLife[t]++
	return fw.Event{"ev": "Removed", "n": n, "t": t}
}

// early returns the Removed events of removals the code issued while the record's write is still
// parked (the as-is code cannot: its lifecycle goroutine starts after the write returned).  The
// removal was issued first, so it is let through first; the run has left the model's schedule.
func (wd *world) early(n string, except string) []fw.Event {
	var out []fw.Event
	for t, fl := range wd.inFlight {
		if fl && t != except && wd.lifeParked(t) {
			out = append(out, wd.letRemove(n, t))
			wd.diverged = "the removal of " + t + "'s routing record was issued while its write was still in flight"
		}
	}
	return out
}

func (wd *world) gatedStep(s step, next *step) ([]fw.Event, time.Duration, *fw.Trace) {
	n, t := s.N, s.T
	sm := func() *session.SessionManager { return wd.srv[n].SM }
	switch s.A {
	case "Create":
		f := genFields(wd.rng, wd.beh.Cls, "")
		if f.MappingID == "" {
			f.MappingID = "m-" + t
		}
		wd.cloud[n].mu.Lock()
		wd.cloud[n].m[f.MappingID] = &models.PortMapping{ID: f.MappingID, ListenClientID: f.SourceClientID, TargetClientID: f.TargetClientID,
			TargetHost: f.TargetHost, TargetPort: f.TargetPort, SecretKey: f.SecretKey, Protocol: "udp"}
		wd.cloud[n].mu.Unlock()
		wd.nReg[t]++
		name := fmt.Sprintf("reg:%s:%d", t, wd.nReg[t])
		mid := f.MappingID
		st := wd.sch.Start(name, func() any {
			_, err := sm().StartServerTunnel(mid, srvkit.NewTransport("10.1.1.1", 40000+wd.nReg[t]))
			return err
		})
		_, gi := wd.sch.State(name)
		if st != sched.Parked || gi.Point != "rt.Set" {
			return nil, 0, &fw.Trace{Status: fw.DriverError, Note: fmt.Sprintf("gated: StartServerTunnel is %s at %q, expected parked at the routing record's Set (result %v)", st, gi.Point, wd.sch.Result(name))}
		}
		key, _ := gi.Info["key"].(string)
		f.TunnelID = strings.TrimPrefix(key, waitingPrefix)
		wd.gmu.Lock()
		wd.keyT[key] = t
		wd.gmu.Unlock()
		wd.regProc[t], wd.inFlight[t], wd.pendWant[t], wd.mapOf[t], wd.ids[t] = name, true, f, mid, f.TunnelID
		wd.onNode[t] = n
		// RegisterWaitingTunnel fixed ExpiresAt before issuing the Set: the waiting period runs from here
		return []fw.Event{{"ev": "Create", "n": n, "t": t, "cls": wd.beh.Cls, "period": 1}}, 0, nil
	case "Set":
		if !wd.inFlight[t] && wd.diverged != "" {
			return nil, 0, nil // already let through when the run left the schedule
		}
		if !wd.inFlight[t] {
			return nil, 0, &fw.Trace{Status: fw.DriverError, Note: "gated: no write of " + t + " in flight"}
		}
		if st, _ := wd.sch.Step(wd.regProc[t]); st != sched.Done {
			return nil, 0, &fw.Trace{Status: fw.DriverError, Note: "gated: StartServerTunnel did not return after its Set was released: " + st}
		}
		if err, _ := wd.sch.Result(wd.regProc[t]).(error); err != nil {
			return nil, 0, &fw.Trace{Status: fw.DriverError, Note: "gated: StartServerTunnel: " + err.Error()}
		}
		wd.inFlight[t] = false
		wd.want[t] = wd.pendWant[t]
		return []fw.Event{{"ev": "Set", "n": n, "t": t}}, 0, nil
	case "End":
		br := sm().GetTunnelBridgeByMappingID(wd.mapOf[t], 0)
		var evs []fw.Event
		if br == nil && wd.inFlight[t] {
			// the code has not put the bridge into the map although the record's write is issued (the
			// as-is code publishes the bridge first): the tunnel cannot be ended yet.  The write is let
			// through - the code's own order - and the tunnel ended then; the run has left the model's
			// schedule and is judged on what it did.
			pre, _, tr := wd.gatedStep(step{A: "Set", N: n, T: t}, nil)
			if tr != nil {
				return nil, 0, tr
			}
			evs = append(evs, pre...)
			wd.diverged = "the bridge of " + t + " was not published while its routing record's write was in flight"
			br = sm().GetTunnelBridgeByMappingID(wd.mapOf[t], 0)
		}
		if br == nil {
			return nil, 0, &fw.Trace{Status: fw.DriverError, Note: "gated: no bridge for " + t}
		}
		br.Close()
		delete(wd.onNode, t)
		evs = append(evs, fw.Event{"ev": "TunnelEnd", "n": n, "t": t})
		var waited time.Duration
		if wd.inFlight[t] && !(next != nil && next.A == "Removed" && next.T == t) {
			// give a removal that the code may issue right away (it should not) the time to arrive
			// (not when the schedule itself asks for that removal next)
			t0 := time.Now()
			if wd.waitLife(t, 30*time.Millisecond) {
				evs = append(evs, wd.early(n, "")...)
			}
			waited = time.Since(t0)
		}
		return evs, waited, nil
	case "Removed":
		// the lifecycle's RemoveWaitingTunnel: must arrive once the write has returned; while the
		// write is still parked it arrives only if the code starts the lifecycle first
		t0 := time.Now()
		limit := 2 * time.Second
		if wd.inFlight[t] {
			limit = 150 * time.Millisecond
		}
		var goneSince time.Time
		for !wd.lifeParked(t) {
			if !wd.inFlight[t] && sm().GetTunnelBridgeByMappingID(wd.mapOf[t], 0) == nil {
				// the lifecycle has taken the bridge out of the map: its next statement is the removal
				if goneSince.IsZero() {
					goneSince = time.Now()
				} else if time.Since(goneSince) > 40*time.Millisecond {
					// no removal of the record was issued.  Recorded as the lifecycle's (empty) removal
					// step; whether it really never comes is checked again at the end of the behaviour.
					wd.skipped[t] = "life:" + t
					return []fw.Event{{"ev": "Removed", "n": n, "t": t, "skipped": true}}, time.Since(t0), nil
				}
			}
			if time.Since(t0) > limit {
				return nil, 0, &fw.Trace{Status: fw.Unrealisable, Note: "the lifecycle's removal of " + t + "'s record has not been issued (write in flight: " + fmt.Sprint(wd.inFlight[t]) + ")"}
			}
			time.Sleep(200 * time.Microsecond)
		}
		return []fw.Event{wd.letRemove(n, t)}, time.Since(t0), nil
	case "Shutdown":
		// the node's SessionManager is closed: its context ends, every bridge on it ends with it
		var mine []string
		for _, x := range []string{"t1", "t2", "t3"} {
			if wd.onNode[x] == n {
				mine = append(mine, x)
			}
		}
		sm().Close()
		var evs []fw.Event
		for _, x := range mine {
			delete(wd.onNode, x)
			evs = append(evs, fw.Event{"ev": "TunnelEnd", "n": n, "t": x, "why": "shutdown"})
		}
		return evs, 0, nil
	}
	return nil, 0, &fw.Trace{Status: fw.DriverError, Note: "gated: unknown step " + s.A}
}

func drive(env *fw.Env, b fw.Behaviour) *fw.Trace {
	var beh behaviour
	if err := json.Unmarshal(b.Data, &beh); err != nil {
		return &fw.Trace{Status: fw.DriverError, Note: err.Error()}
	}
	wd, err := newWorld(env, b, beh)
	if err != nil {
		return &fw.Trace{Status: fw.DriverError, Note: "world: " + err.Error()}
	}
	defer wd.Close()
	t := &fw.Trace{Status: fw.Realised}
	t.Events = append(t.Events, fw.Event{"ev": "Cfg", "be": beh.Be, "mode": beh.Mode})
	if beh.Mode == "race" {
		return wd.raceRounds(env, t)
	}
	if beh.Mode == "overlap" {
		return wd.driveOverlap(t)
	}
	seg := time.Now()
	var waitedSeg time.Duration
	over := func() *fw.Trace {
		if d := time.Since(seg); d > segBudget {
			return &fw.Trace{Status: fw.Inconclusive, Note: fmt.Sprintf("segment took %v (> %v)", d.Round(time.Millisecond), segBudget)}
		}
		return nil
	}
	for si, s := range beh.Steps {
		var ev fw.Event
		var bad *fw.Trace
		var next *step
		if si+1 < len(beh.Steps) {
			next = &beh.Steps[si+1]
		}
		if beh.Mode == "gated" {
			// removals the code issued ahead of a parked write go first (Diverged)
			t.Events = append(t.Events, wd.early(s.N, map[bool]string{true: s.T}[s.A == "Removed"])...)
		}
		switch s.A {
		case "LkRecv", "LkDec", "Enc", "Send":
			return &fw.Trace{Status: fw.DriverError, Note: "write-path step outside overlap mode"}
		case "Create", "Set", "End", "Removed", "Shutdown":
			if s.A == "Shutdown" && beh.Mode != "gated" {
				t.Events = append(t.Events, wd.shutdown(s.N)...)
				continue
			}
			if beh.Mode != "gated" {
				return &fw.Trace{Status: fw.DriverError, Note: "call-site step outside gated mode"}
			}
			evs, waited, tr := wd.gatedStep(s, next)
			if tr != nil {
				return tr
			}
			// deliberate waiting is not the code's time, but it does use up the records' real
			// lifetime: only a little of it is tolerated per segment
			if waitedSeg += waited; waitedSeg > 100*time.Millisecond {
				return &fw.Trace{Status: fw.Inconclusive, Note: fmt.Sprintf("waited %v for scheduled steps in one segment", waitedSeg.Round(time.Millisecond))}
			}
			seg = seg.Add(waited)
			t.Events = append(t.Events, evs...)
			continue
		case "Tick":
			if beh.PerMs > 0 {
				// virtual time only: Redis key lifetimes move, the wall clock (ExpiresAt) practically does not
				wd.w.Advance(wd.period - 100*time.Millisecond)
				seg, waitedSeg = time.Now(), 0
				t.Events = append(t.Events, fw.Event{"ev": "Tick"})
				continue
			}
			if tr := over(); tr != nil {
				return tr
			}
			time.Sleep(tickSleep)
			wd.w.Advance(tickSleep)
			seg, waitedSeg = time.Now(), 0
			ev = fw.Event{"ev": "Tick"}
		case "Announce":
			addr := fmt.Sprintf("10.%d.%d.%d:50052", wd.rng.Intn(250), wd.rng.Intn(250), 1+wd.rng.Intn(250))
			if p := wd.peers[s.N]; p != nil {
				addr = p.ln.Addr().String()
			}
			err := wd.rt[s.N].RegisterNodeAddress("node-"+s.N, addr)
			wd.addrs[s.N] = addr
			ev = fw.Event{"ev": "Announce", "n": s.N, "ok": err == nil}
		case "Register":
			ev, bad = wd.register(s.N, s.T, s.Loc)
		case "Lookup":
			ev = wd.lookup(s.N, s.T)
		case "Remove":
			ev, bad = wd.remove(s.N, s.T)
		case "DupOpen":
			ev, bad = wd.dupOpen(s.N, s.T, s.Loc)
			if bad == nil && ev["r"] == "accepted" {
				// the code replaced the source end: two source ends for one id, nothing further is judged
				t.Events = append(t.Events, ev)
				if tr := over(); tr != nil {
					return tr
				}
				t.Status, t.Note = fw.Diverged, "a second source-side open for "+s.T+" was accepted on "+s.N
				return t
			}
		case "Arrive":
			ev, bad = wd.arrive(s.N, s.T)
		case "TargetGone":
			ev, bad = wd.targetGone(s.N, s.T)
		default:
			return &fw.Trace{Status: fw.DriverError, Note: "unknown step " + s.A}
		}
		if bad != nil {
			return bad
		}
		t.Events = append(t.Events, ev)
	}
	if tr := over(); tr != nil {
		return tr
	}
	for tn, base := range wd.skipped {
		// a removal that was merely late (a descheduled goroutine) is not a verdict
		deadline := time.Now().Add(2 * time.Second)
		for time.Now().Before(deadline) {
			for _, proc := range wd.sch.Procs() {
				if st, _ := wd.sch.State(proc); st == sched.Parked && strings.HasPrefix(proc, base+"#") {
					return &fw.Trace{Status: fw.Inconclusive, Note: "a lifecycle's removal of " + tn + "'s record arrived late"}
				}
			}
			time.Sleep(time.Millisecond)
		}
		wd.diverged = "the bridge lifecycle of " + tn + " ended without issuing the removal of its routing record"
	}
	if wd.diverged != "" {
		t.Status, t.Note = fw.Diverged, wd.diverged
	}
	return t
}

// ---- jobs ---------------------------------------------------------------------------------------

func mcJob(name, nodes, tunnels string, ttl, maxReg int, mode string, lifecycleFirst bool) fw.TLCJob {
	lf, invs := "FALSE", "LookupExact LookupGone NoDev LookupPure ArriveExact"
	if lifecycleFirst {
		lf, invs = "TRUE", "LookupExact LookupGoneOrDev"
	}
	return fw.TLCJob{Name: name, Module: "Routing", Cfg: "Routing_mc.cfg", Workers: 4, Consts: map[string]string{
		"NODES": nodes, "TUNNELS": tunnels, "TTL": fmt.Sprint(ttl), "MAXREG": fmt.Sprint(maxReg), "MODE": mode, "LF": lf,
		"SKIP": "FALSE", "EVICT": "FALSE", "HCTX": "FALSE", "REJSEEN": "FALSE", "REGFIRST": "FALSE", "MAXDUP": "0", "PROPS": "", "SHAPES": `{"identity", "jsonString", "jsonMap"}`, "INVS": invs}}
}

// altDesign checks one of the other designs: its only routes to a violation are its named deviation
func altDesign(name, which string) fw.TLCJob {
	j := mcJob(name, `{"A", "B"}`, `{"t1", "t2"}`, 1, 2, "atomic", false)
	j.Consts[which], j.Consts["INVS"] = "TRUE", "LookupExactOrDev LookupGoneOrDev ArriveExactOrDev"
	if which == "REJSEEN" {
		j.Consts["MODE"], j.Consts["NODES"], j.Consts["TUNNELS"], j.Consts["SHAPES"] = "arrive", `{"A", "B", "C"}`, `{"t1"}`, `{"jsonString"}`
	}
	return j
}

func genJob(name, nodes, tunnels string, maxReg, maxClock, maxHist int, mode string, lifecycleFirst bool, only string) fw.TLCJob {
	lf := "FALSE"
	if lifecycleFirst {
		lf = "TRUE"
	}
	ttl := "1"
	if name == "gen:ttl2" {
		ttl = "2"
	}
	return fw.TLCJob{Name: name, Module: "Routing", Cfg: "Routing_gen.cfg", Workers: 1, Consts: map[string]string{
		"NODES": nodes, "TUNNELS": tunnels, "MAXREG": fmt.Sprint(maxReg), "MAXCLOCK": fmt.Sprint(maxClock), "MAXHIST": fmt.Sprint(maxHist),
		"MODE": mode, "LF": lf, "ONLY": only, "TTL": ttl, "REGFIRST": "FALSE", "MAXDUP": map[bool]string{true: "1", false: "0"}[name == "gen:dup"]}}
}

// splitHonourContext: the context-honouring design at the call sites (shutdown while bridges exist,
// also while a record's Set is in flight): its only route to a violation is "notRemoved"
func splitHonourContext(name string) fw.TLCJob {
	j := mcJob(name, `{"A", "B"}`, `{"t1", "t2"}`, 1, 2, "split", false)
	j.Consts["HCTX"], j.Consts["INVS"], j.Consts["SHAPES"] = "TRUE", "LookupExactOrDev LookupGoneOrDev", `{"jsonString"}`
	return j
}

// setJob: the record's write / read path as-is (spec/RoutingSet.tla)
func setJob(name, tunnels, lookers string) fw.TLCJob {
	return fw.TLCJob{Name: name, Module: "RoutingSet", Cfg: "RoutingSet_mc.cfg", Workers: 2, Consts: map[string]string{
		"TUNNELS": tunnels, "LOOKERS": lookers, "POOLENC": "FALSE", "POOLDEC": "FALSE", "INVS": "StoredOwn LookupOwn Registered NoDev"}}
}

func setGenJob(name, tunnels, lookers string, maxHist int) fw.TLCJob {
	return fw.TLCJob{Name: name, Module: "RoutingSet", Cfg: "RoutingSet_gen.cfg", Workers: 1, Consts: map[string]string{
		"TUNNELS": tunnels, "LOOKERS": lookers, "MAXHIST": fmt.Sprint(maxHist)}}
}

// dupJob: refused duplicate source opens (DupOpen) in the atomic model.  regFirst = false: as-is, a refused
// open changes nothing (action property RefusedOpenInert); regFirst = true: the design that registers
// before the exists-check - its only route to a violation is "dupOverwrote"
func dupJob(name string, regFirst bool) fw.TLCJob {
	j := mcJob(name, `{"A", "B"}`, `{"t1", "t2"}`, 2, 2, "atomic", false)
	j.Consts["MAXDUP"], j.Consts["SHAPES"] = "1", `{"jsonString"}`
	if regFirst {
		j.Consts["REGFIRST"], j.Consts["INVS"] = "TRUE", "LookupExactOrDev LookupGoneOrDev"
	} else {
		j.Consts["PROPS"] = "RefusedOpenInert"
	}
	return j
}

func arriveJob(name, nodes, tunnels string) fw.TLCJob {
	j := mcJob(name, nodes, tunnels, 1, 2, "arrive", false)
	j.Consts["SHAPES"] = `{"jsonString"}`
	return j
}

// altSrc generates the schedules of the OTHER design - the bridge lifecycle started before the
// registration - that end in its deviation (a record written after its removal).  The as-is code
// cannot follow them (the removal is never issued while the write is in flight: unrealisable);
// a tree that can is judged on them.  The "legacy" prefix exempts the source from the
// realisable-share guard of the framework.
const altSrc = "legacy-alt:lifecycle-first"

var seenBeh = map[string]bool{}

func stripLoc(steps []step) []step {
	out := make([]step, len(steps))
	for i, s := range steps {
		s.Loc = ""
		out[i] = s
	}
	return out
}

var expandN int

func main() {
	fw.Main(&fw.Property{
		ID:        "C09",
		DesignRef: "DESIGN.md §5 C09",
		ModelJobs: func(env *fw.Env) []fw.TLCJob {
			ab, t2 := `{"A", "B"}`, `{"t1", "t2"}`
			jobs := []fw.TLCJob{
				mcJob("mc:atomic:2n2t", ab, t2, 1, 2, "atomic", false),
				mcJob("mc:split:2n2t", ab, t2, 1, 2, "split", false),
				mcJob("mc:split:lifecycle-first", ab, t2, 1, 2, "split", true),
				altDesign("mc:skip-local-target", "SKIP"),
				altDesign("mc:evicting-lookup", "EVICT"),
				altDesign("mc:honour-context", "HCTX"),
				altDesign("mc:reject-seen-ids", "REJSEEN"),
				arriveJob("mc:arrive:3n1t", `{"A", "B", "C"}`, `{"t1"}`),
				splitHonourContext("mc:split:honour-context"),
				dupJob("mc:dup-open", false),
				dupJob("mc:register-before-exists-check", true),
				setJob("mc:set:3t2l", `{"t1", "t2", "t3"}`, `{"l1", "l2"}`),
			}
			if env.Tier == "thorough" {
				jobs = append(jobs,
					mcJob("mc:atomic:2n2t:ttl2", ab, t2, 2, 3, "atomic", false),
					mcJob("mc:atomic:3n3t", `{"A", "B", "C"}`, `{"t1", "t2", "t3"}`, 2, 2, "atomic", false),
					mcJob("mc:split:2n2t:ttl2", ab, t2, 2, 3, "split", false),
					mcJob("mc:split:3n2t", `{"A", "B", "C"}`, t2, 2, 2, "split", false),
					arriveJob("mc:arrive:2n2t", ab, t2))
			}
			return jobs
		},
		GenJobs: func(env *fw.Env) []fw.TLCJob {
			ab, t1, t2 := `{"A", "B"}`, `{"t1"}`, `{"t1", "t2"}`
			if env.Tier == "thorough" {
				return []fw.TLCJob{
					genJob("gen:2n2t", ab, t2, 2, 2, 10, "atomic", false, "all"),
					genJob("gen:3n2t", `{"A", "B", "C"}`, t2, 2, 2, 9, "atomic", false, "all"),
					genJob("gen:split", ab, t2, 2, 2, 9, "split", false, "all"),
					genJob(altSrc, ab, t2, 2, 2, 9, "split", true, "dev"),
					genJob("gen:ttl2", ab, t2, 2, 3, 9, "atomic", false, "all"),
					genJob("gen:arrive", `{"A", "B", "C"}`, t1, 2, 2, 9, "arrive", false, "all"),
					setGenJob("gen:set:3t", `{"t1", "t2", "t3"}`, `{}`, 9),
					setGenJob("gen:set:3t2l", `{"t1", "t2", "t3"}`, `{"l1", "l2"}`, 12),
					genJob("gen:dup", ab, t2, 2, 2, 9, "atomic", false, "all"),
				}
			}
			return []fw.TLCJob{
				genJob("gen:2n2t", ab, t2, 2, 2, 9, "atomic", false, "all"),
				genJob("gen:split", ab, t1, 2, 2, 9, "split", false, "all"),
				genJob(altSrc, ab, t1, 2, 2, 9, "split", true, "dev"),
				genJob("gen:ttl2", ab, t1, 2, 3, 8, "atomic", false, "all"),
				genJob("gen:arrive", ab, t1, 2, 1, 9, "arrive", false, "all"),
				setGenJob("gen:set:3t", `{"t1", "t2", "t3"}`, `{}`, 9),
				setGenJob("gen:set:2t2l", t2, `{"l1", "l2"}`, 10),
				genJob("gen:dup", ab, t1, 2, 2, 9, "atomic", false, "all"),
			}
		},
		MaxBehSrc: func(env *fw.Env, src string) int {
			switch {
			case env.Tier == "thorough" && src == altSrc:
				return 300
			case env.Tier == "thorough":
				return 1000
			case src == "gen:split":
				return 90
			case src == "gen:ttl2":
				return 60
			case src == "gen:arrive":
				return 60
			case src == altSrc:
				return 54
			case src == "gen:dup":
				return 90
			case src == "gen:set:3t":
				return 120
			case src == "gen:set:2t2l":
				return 60
			}
			return 150
		},
		Expand: func(env *fw.Env, src string, raw json.RawMessage) []json.RawMessage {
			var steps []step
			if err := json.Unmarshal(raw, &steps); err != nil {
				panic(err)
			}
			key := string(fw.MustJSON(steps))
			if seenBeh[src+key] {
				return nil
			}
			seenBeh[src+key] = true
			if strings.HasPrefix(src, "gen:set") {
				// the record's write / read path: Redis-backed wirings, node assignment and value class rotating
				var out []json.RawMessage
				k := expandN
				expandN++
				for i, be := range []string{"redis", "tiered"} {
					cls := classes[(k+2*i)%len(classes)]
					if cls == "big" && k%4 != 0 { // the 64 KiB class now and then only (cost)
						cls = "unicode"
					}
					out = append(out, fw.MustJSON(behaviour{Be: be, Mode: "overlap", Cls: cls, Steps: steps, Rep: k + i}))
				}
				return out
			}
			if src == "gen:dup" {
				// refused duplicate opens exist at the call site only: site mode on every wiring; every
				// tunnel touched is looked up from every node at the end
				dup := false
				seenT := map[string]bool{}
				for i, s := range steps {
					dup = dup || s.A == "DupOpen"
					if s.A != "DupOpen" {
						steps[i].Loc = ""
					} else if i+1 < len(steps) {
						// both kinds lead to the same model state, so histories pass through "same" only:
						// the kind of a duplicate that is not the final event alternates
						steps[i].Loc = []string{"same", "other"}[(expandN+i)%2]
					}
					if s.T != "" && s.T != "-" {
						seenT[s.T] = true
					}
				}
				if !dup {
					return nil
				}
				for _, t := range []string{"t1", "t2", "t3"} {
					if seenT[t] {
						steps = append(steps, step{A: "Lookup", N: "A", T: t}, step{A: "Lookup", N: "B", T: t})
					}
				}
				var out []json.RawMessage
				k := expandN
				expandN++
				for i, be := range wire.Names {
					cls := classes[(k+2*i)%len(classes)]
					if cls == "big" {
						cls = "mixed"
					}
					out = append(out, fw.MustJSON(behaviour{Be: be, Mode: "site", Cls: cls, Steps: steps}))
				}
				return out
			}
			look := false
			for _, s := range steps {
				look = look || s.A == "Lookup" || s.A == "Arrive"
			}
			split := false
			for _, s := range steps {
				split = split || s.A == "Create"
			}
			if split {
				// call-site steps: realised through the gate on every wiring; every tunnel touched
				// is looked up from every node at the end
				seenT := map[string]bool{}
				for _, s := range steps {
					if s.T != "" && s.T != "-" && !seenT[s.T] {
						seenT[s.T] = true
					}
				}
				for _, t := range []string{"t1", "t2", "t3"} {
					if seenT[t] {
						steps = append(steps, step{A: "Lookup", N: "A", T: t}, step{A: "Lookup", N: "B", T: t})
					}
				}
				var out []json.RawMessage
				k := expandN
				expandN++
				for i, be := range wire.Names {
					cls := classes[(k+2*i)%len(classes)]
					if cls == "big" {
						cls = "unicode"
					}
					out = append(out, fw.MustJSON(behaviour{Be: be, Mode: "gated", Cls: cls, Steps: steps}))
				}
				return out
			}
			if !look { // nothing observed
				return nil
			}
			var out []json.RawMessage
			k := expandN // every wiring meets every value class as k runs over the behaviours
			expandN++
			if src == "gen:arrive" {
				arr := false
				for _, s := range steps {
					arr = arr || s.A == "Arrive"
				}
				if !arr {
					return nil
				}
				for i, be := range wire.Names {
					cls := classes[(k+2*i)%len(classes)]
					if cls == "big" {
						cls = "unicode"
					}
					out = append(out, fw.MustJSON(behaviour{Be: be, Mode: "arrive", Cls: cls, Steps: stripLoc(steps)}))
				}
				return out
			}
			if src == "gen:ttl2" {
				// waiting periods that are not whole seconds, in virtual time, on the Redis-backed wirings
				for i, be := range []string{"redis", "tiered"} {
					cls := classes[(k+2*i)%len(classes)]
					if cls == "big" {
						cls = "ascii"
					}
					out = append(out, fw.MustJSON(behaviour{Be: be, Mode: "direct", Cls: cls, Steps: stripLoc(steps), PerMs: []int{1500, 2500}[(k+i)%2]}))
				}
				return out
			}
			// the RoutingTable API does not know the target's whereabouts: one direct realisation per
			// history whatever the loc fields say
			if dk := "direct" + string(fw.MustJSON(stripLoc(steps))); !seenBeh[dk] {
				seenBeh[dk] = true
				for i, be := range wire.Names {
					out = append(out, fw.MustJSON(behaviour{Be: be, Mode: "direct", Cls: classes[(k+2*i)%len(classes)], Steps: stripLoc(steps)}))
				}
			}
			// one realisation through the real call sites, wiring rotating; the 64 KiB class is left to direct mode
			cls := classes[(k/len(wire.Names)+3)%len(classes)]
			if cls == "big" {
				cls = "mixed"
			}
			out = append(out, fw.MustJSON(behaviour{Be: wire.Names[k%len(wire.Names)], Mode: "site", Cls: cls, Steps: steps}))
			return out
		},
		ExtraBeh: func(env *fw.Env) []json.RawMessage {
			// re-registration races on the memory wiring (driver-made rounds, see raceRounds)
			n := 6
			if env.Tier == "thorough" {
				n = 16
			}
			var out []json.RawMessage
			for i := 0; i < n; i++ {
				out = append(out, fw.MustJSON(behaviour{Be: "memory", Mode: "race", Cls: "reregister-race", Rep: i + 1}))
			}
			// overlapping registrations of different tunnels (driver-made rounds, see concurrentRegistrations)
			for i := 0; i < n; i++ {
				out = append(out, fw.MustJSON(behaviour{Be: wire.Names[i%len(wire.Names)], Mode: "race", Cls: "concurrent-registrations", Rep: i + 1}))
			}
			return out
		},
		SelfTest:    selfTest,
		Drive:       drive,
		Parallel:    24,
		JudgeModule: "RoutingTrace",
		JudgeCfg:    "RoutingTrace.cfg",
		NonTrivial: func(t *fw.Trace) bool {
			reg, look := false, false
			for _, e := range t.Events {
				reg = reg || e["ev"] == "Register" || e["ev"] == "Set"
				look = look || (e["ev"] == "Lookup" && reg)
			}
			return look
		},
		Rule: "the record's write / read path on the Redis-backed wirings (spec/RoutingSet.tla: SET encoded / sent, GET answered / decoded, transition cover over 3 tunnels and 2 lookups, parked by a go-redis hook); call-site steps (bridge created / record set / tunnel ends / record removed, the write gated) as a second transition cover on every wiring, plus the schedules of the lifecycle-first design that end in a late write; and: one behaviour per transition (state, event) of the bounded Routing state graph (shortest history to the state + the event), each replayed on the memory, Redis and tiered wirings with a rotating value class, plus one realisation through StartServerTunnel / bridge end; non-trivial = a lookup after a registration",
		Assumptions: []string{
			"waiting period 400 ms = 1 model tick; a tick sleeps 600 ms; behaviours whose register..lookup segment took more than 130 ms are discarded as inconclusive",
			"miniredis stands in for Redis; its virtual clock is advanced together with the real sleep",
			"gated mode: the SessionManager's RoutingTable writes and deletes routing records through a scheduler gate in front of the node's storage; the tunnel is ended by closing the real bridge; a removal issued while the write is parked is let through first (Diverged, judged)",
			"gated mode, node shutdown: SessionManager.Close of the source node while bridges exist (also while a record's Set is parked); a lifecycle that has taken the bridge out of the map and issues no removal within 40 ms is recorded as Removed{skipped} and judged (Diverged) - unless the removal shows up within 2 s after the behaviour (then inconclusive)",
			"overlap mode: Redis-backed wirings built by the driver as drivers/c08/wire does, with a go-redis hook on every node's client: the SET of a routing record issued by a scheduled registration is parked before it is written to a connection, the GET of a scheduled lookup after its reply arrived; nodes of the steps are chosen by the driver (rotating); no clock (waiting period 1 h)",
			"site mode places the mapping's target client (a real first-connect control connection) on the source node, on another node or nowhere before the source end registers",
			"waiting periods of 1.5 s and 2.5 s run in virtual time on the Redis-backed wirings (miniredis fast-forward to 100 ms before the end, no sleep): the wall-clock ExpiresAt does not lapse there, only the store's own key lifetime is exercised",
			"re-registration races (memory wiring): time-boxed rounds of three lookups and one re-registration of an id whose previous record has lapsed unswept, released by a spin barrier; only the lookups made after all four returned are judged",
			"a node shutdown is SessionManager.Close of the source node (site mode) or, at the RoutingTable API level, RemoveWaitingTunnel with a cancelled context as runBridgeLifecycle passes it",
			"arrive mode: records are registered through the RoutingTable API with ids of at most 16 bytes; the target's TunnelOpen goes through a real SessionManager of another node (after a real tunnel-type handshake; permissive tunnel handler, CrossNodePool dialling a peer listener that stands in for the source node's CrossNodeListener); the forwarding decision is the TargetReady frame that listener receives; arrivals at the source node itself (local-bridge path) are not driven",
			"overlapping registrations: time-boxed rounds of 16 registrations of different ids released by a spin barrier, every id then read back from the other node",
			"nodes are RoutingTable instances (site mode: srvkit SessionManagers with a cloud-control stub supplying the port mapping) of one process over one shared store",
			"field values are generated (seeded), not exhaustive; strings are valid UTF-8 as every field arrives through JSON decoding in production",
		},
		TrustedBase: []string{"TLC", "spec/RoutingTrace.tla as the reading of the statement", "field comparison in drivers/c09", "miniredis", "srvkit"},
	})
}

func selfTest(env *fw.Env, acc []*fw.Trace) []*fw.Trace {
	// flip one lookup per trace: a resolving lookup into notfound / wrong node / unequal fields,
	// or a failing lookup after a removal/expiry into a stale hit
	var out []*fw.Trace
	id := 1 << 24
	for _, t := range acc {
		if len(out) >= 60 {
			break
		}
		idx := -1
		for i, e := range t.Events {
			if e["ev"] == "Lookup" {
				idx = i
			}
		}
		if idx < 0 {
			continue
		}
		id++
		c := &fw.Trace{Status: fw.Realised, Beh: t.Beh}
		c.Beh.ID = id
		for i, e := range t.Events {
			if i != idx {
				c.Events = append(c.Events, e)
				continue
			}
			ne := fw.Event{}
			for k, v := range e {
				ne[k] = v
			}
			if e["r"] == "found" {
				switch id % 3 {
				case 0:
					ne["r"], ne["node"], ne["fieldsEqual"], ne["addrOk"] = "notfound", "-", false, false
				case 1:
					ne["node"] = "Z"
				default:
					ne["fieldsEqual"] = false
				}
			} else {
				ne["r"], ne["node"], ne["fieldsEqual"], ne["addrOk"] = "found", "A", true, true
			}
			c.Events = append(c.Events, ne)
		}
		out = append(out, c)
	}
	// a refused duplicate open that changed the record (fields / expiry) must be rejected
	nd := 0
	for _, t := range acc {
		idx := -1
		for i, e := range t.Events {
			if e["ev"] == "DupOpen" && e["r"] == "refused" {
				idx = i
			}
		}
		if idx < 0 || nd >= 12 {
			continue
		}
		nd++
		id++
		c := &fw.Trace{Status: fw.Realised, Beh: t.Beh}
		c.Beh.ID = id
		for i, e := range t.Events {
			if i == idx {
				ne := fw.Event{}
				for k, v := range e {
					ne[k] = v
				}
				ne[[]string{"recSame", "expSame"}[nd%2]] = false
				e = ne
			}
			c.Events = append(c.Events, e)
		}
		out = append(out, c)
	}
	return out
}
