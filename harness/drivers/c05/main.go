// C05 driver: feeds hostile pre-authentication byte streams - one per input class enumerated by TLC
// from spec/Framing.tla (Mode = "hostile") plus seeded random strings and single-byte mutations of
// valid packets - to the real stream.StreamProcessor.ReadPacket of a fresh connection accepted by a
// real session.SessionManager (real ServerAuthHandler, ServerTunnelHandler, command executor with
// the server's command handlers, BuiltinCloudControl on memory storage) and hands every decoded
// packet to the real SessionManager.HandlePacket, exactly as adapter.connectionReadLoop does.
// Each call runs alone (one goroutine at a time) under recover(), a wall-clock watchdog and a
// runtime.MemStats.TotalAlloc delta; the judge is spec/FramingTrace.tla.
// Histories generated from spec/FramingRes.tla (what one call leaves behind for the next: buffer pool,
// read lock, request / connection tables) are driven as streams: several frames on one or two successive
// connections, the ReadPacket calls made by two goroutines that keep their P (reader-thread switches between
// packets), the three holders of the read lock called at the end of every stream, and as floods (N copies of
// a frame on one connection / on N connections) whose retained memory is measured.
package main

import (
	"bytes"
	"compress/gzip"
	"context"
	"encoding/base64"
	"encoding/binary"
	"encoding/hex"
	"encoding/json"
	"fmt"
	"hash/fnv"
	"io"
	"math/rand"
	"runtime"
	"sort"
	"strings"
	"sync"
	"sync/atomic"
	"time"

	"tunnox-core/internal/app/server"
	"tunnox-core/internal/cloud/factories"
	"tunnox-core/internal/cloud/managers"
	"tunnox-core/internal/cloud/repos"
	"tunnox-core/internal/cloud/services"
	"tunnox-core/internal/command"
	coreerrors "tunnox-core/internal/core/errors"
	"tunnox-core/internal/core/idgen"
	corelog "tunnox-core/internal/core/log"
	"tunnox-core/internal/core/storage"
	"tunnox-core/internal/core/types"
	"tunnox-core/internal/packet"
	"tunnox-core/internal/protocol/session"
	"tunnox-core/internal/security"
	"tunnox-core/internal/stream"
	"tunnox-core/internal/utils"
	"tunnox-core/verifharness/fw"
)

const maxBody = 16 * 1024 * 1024

// ---- server assembly (what app/server's Storage/CloudControl/Session/Security/Handlers components and
// setupConnectionCodeCommands do, without listeners) -------------------------------------------------

type srv struct {
	sm     *session.SessionManager
	reg    *command.CommandRegistry
	cancel context.CancelFunc
}

func newServer() (*srv, error) {
	ctx, cancel := context.WithCancel(context.Background())
	st, err := storage.NewStorageFactory(ctx).CreateStorage(&storage.HybridStorageConfig{
		CacheType: "memory", EnablePersistent: false, HybridConfig: storage.DefaultHybridConfig()})
	if err != nil {
		cancel()
		return nil, err
	}
	idm := idgen.NewIDManager(st, ctx)
	repo := repos.NewRepository(st)
	cfg := managers.DefaultConfig()
	cfg.NodeID = "node-verif"
	cc := factories.NewBuiltinCloudControlWithRepo(ctx, cfg, st, repo)
	sm := session.NewSessionManager(idm, ctx)
	bf := security.NewBruteForceProtector(nil, ctx)
	ipm := security.NewIPManager(st, ctx)
	rl := security.NewRateLimiter(nil, nil, ctx)
	skm, err := security.NewSecretKeyManager(&security.SecretKeyConfig{MasterKey: base64.StdEncoding.EncodeToString(bytes.Repeat([]byte{7}, 32))})
	if err != nil {
		cancel()
		return nil, err
	}
	cc.SetSecretKeyManager(skm)
	sm.SetReconnectTokenManager(security.NewReconnectTokenManager(&security.ReconnectTokenConfig{SecretKey: "verif-reconnect-secret-0123456789abcdef", TTL: 30 * time.Second}, st))
	connCodeSvc := services.NewConnectionCodeService(repos.NewConnectionCodeRepository(repo), cc.GetPortMappingService(),
		repos.NewPortMappingRepo(repo), nil, ctx)
	httpDomainRepo := repos.NewHTTPDomainMappingRepository(repo, []string{"tunnox.net", "tunnel.test.local"})
	auth := server.NewServerAuthHandler(cc, sm, bf, ipm, rl, skm)
	sm.SetAuthHandler(auth)
	sm.SetTunnelHandler(server.NewServerTunnelHandler(cc, connCodeSvc))
	sm.SetCloudControl(session.NewCloudControlAdapter(cc))
	sm.SetNodeID(cfg.NodeID)
	tsm := session.NewTunnelStateManager(st, "")
	sm.SetTunnelStateManager(tsm)
	sm.SetMigrationManager(session.NewTunnelMigrationManager(tsm, sm))
	sm.SetTunnelRoutingTable(session.NewTunnelRoutingTable(st, 30*time.Second))
	sm.SetConnectionStateStore(session.NewConnectionStateStore(st, cfg.NodeID, 5*time.Minute))
	reg := command.NewCommandRegistry(ctx)
	ex := command.NewCommandExecutor(reg, ctx)
	ex.SetSession(sm)
	if err := sm.SetCommandExecutor(ex); err != nil {
		cancel()
		return nil, err
	}
	for _, h := range []interface {
		RegisterHandlers(*command.CommandRegistry) error
	}{server.NewConnectionCodeCommandHandlers(connCodeSvc, sm), server.NewConfigCommandHandlers(auth, sm),
		server.NewMappingCommandHandlers(connCodeSvc, sm), server.NewHTTPDomainCommandHandlers(sm, httpDomainRepo)} {
		if err := h.RegisterHandlers(reg); err != nil {
			cancel()
			return nil, err
		}
	}
	return &srv{sm: sm, reg: reg, cancel: cancel}, nil
}

var (
	theSrv   *srv
	srvUses  int
	srvMutex sync.Mutex
)

// server returns the shared assembly; it is rebuilt every 150 cases so that state accumulated by
// earlier hostile inputs (failed-handshake counters, anonymous clients) stays small.
func getServer() (*srv, error) {
	srvMutex.Lock()
	defer srvMutex.Unlock()
	if theSrv == nil || srvUses >= 150 {
		if theSrv != nil {
			theSrv.cancel()
		}
		s, err := newServer()
		if err != nil {
			return nil, err
		}
		theSrv, srvUses = s, 0
	}
	srvUses++
	return theSrv, nil
}

// ---- hostile input classes -> bytes ----------------------------------------------------------------

type frame struct {
	K   string `json:"k"`
	Z   bool   `json:"z"`
	E   bool   `json:"e"`
	Hdr int    `json:"hdr"`
	Sc  string `json:"sc"`
	Av  int    `json:"av"`
	Gz  string `json:"gz"`
	Pay string `json:"pay"`
	Raw string `json:"raw,omitempty"` // pay = "short": the body content in hex (else picked seeded from shortBodies)
	Sub string `json:"sub,omitempty"` // streams: body size ON THE WIRE: "zero" | "nano" (1-3 bytes) | "tiny" (tens of bytes) | "mid" (2-4 KiB) | "big" (4.1-5.5 KiB) | "big2" (7-8 KiB)
	Cmd int    `json:"cmd,omitempty"` // command kinds, pay = "good": command type to use (0: seeded)
	H   string `json:"h,omitempty"`   // command kinds, pay = "good" (FramingRes): handler class "duplex" | "none" | "session" - a command type of that class is picked (seeded)
}

// streamClass names a frame inside a multi-frame stream.
func (f *frame) streamClass() string {
	s := fmt.Sprintf("k=%s:z=%v:e=%v:gz=%s:pay=%s:sub=%s", f.K, f.Z, f.E, f.Gz, f.Pay, f.Sub)
	if f.Sc == "OVER" || f.Av == 1 || (f.Hdr < 4 && f.K != "HB") {
		s += fmt.Sprintf(":hdr=%d:sc=%s:av=%d", f.Hdr, f.Sc, f.Av)
	}
	if f.H != "" && f.H != "na" {
		s += ":h=" + f.H
	}
	if f.Cmd != 0 {
		s += fmt.Sprintf(":cmd=%d", f.Cmd)
	}
	return s
}

type caseBeh struct {
	Frames []frame    `json:"frames,omitempty"` // stream: the frames, in order
	Thr    []int      `json:"thr,omitempty"`    // stream: reader thread of each ReadPacket call
	Conns  []connSpec `json:"conns,omitempty"`  // stream over several connections (then Frames / Thr are unused)
	Kind   string     `json:"kind"`             // frame | random | mutant | stream (several frames, calls from two threads) | flood (N copies of Frame)
	Frame  *frame     `json:"frame,omitempty"`
	Exp    string     `json:"exp,omitempty"` // outcome of ReadPacket predicted by the contract model
	Salt   int64      `json:"salt"`
	N      int        `json:"n,omitempty"`     // random: length; mutant: byte offset class
	Field  string     `json:"field,omitempty"` // mutant: type | len | body; flood: "conns" = every copy on a connection of its own
}

func (f *frame) class() string {
	s := fmt.Sprintf("k=%s:z=%v:e=%v:hdr=%d:sc=%s:av=%d:gz=%s:pay=%s", f.K, f.Z, f.E, f.Hdr, f.Sc, f.Av, f.Gz, f.Pay)
	if f.Raw != "" {
		s += "=" + f.Raw
	}
	return s
}

var (
	cacheMu sync.Mutex
	cache   = map[string][]byte{}
)

func cached(key string, mk func() []byte) []byte {
	cacheMu.Lock()
	b, ok := cache[key]
	cacheMu.Unlock()
	if ok {
		return b
	}
	b = mk() // may itself use the cache
	cacheMu.Lock()
	cache[key] = b
	cacheMu.Unlock()
	return b
}

var cmdTypes = []int{10, 11, 12, 13, 14, 15, 20, 23, 25, 30, 35, 36, 37, 38, 40, 43, 44, 50, 51, 52, 54, 60, 63, 70, 71, 72, 73, 74, 75, 76,
	80, 81, 82, 83, 84, 85, 86, 87, 90, 100, 101, 102, 110, 120, 121, 0, 7, 99, 200, 255}

var bodies = []string{``, `{}`, `null`, `[]`, `"x"`, `{"a":`, `{"mapping_id":"m1","tunnel_id":"t1","client_id":7,"target_client_id":8}`,
	`{"code":"abc-def-ghi","target_address":"tcp://127.0.0.1:80","duration":3600}`, `{"request_id":"r1","domain":"example.com","qtype":1}`,
	`{"subdomain":"a","base_domain":"tunnox.net","target_url":"http://127.0.0.1:1"}`, `{"tunnel_id":"t","mapping_id":"m","bytes_sent":-1,"bytes_received":99999999999}`,
	`{"request_id":"x","status_code":200,"headers":null,"body":"AAAA"}`, `{"target_client_id":1,"target_host":"h","target_port":70000,"mapping_id":"m"}`}

// goodJSON is a well-formed body of the shape the kind's handler expects.
func goodJSON(k string, r *rand.Rand) []byte {
	switch k {
	case "CMD", "RESP":
		b, _ := json.Marshal(packet.CommandPacket{CommandType: packet.CommandType(cmdTypes[r.Intn(len(cmdTypes))]), CommandId: fmt.Sprintf("c%d", r.Intn(1000)),
			Token: "t", SenderId: fmt.Sprint(r.Intn(3)), ReceiverId: fmt.Sprint(r.Intn(3)), CommandBody: bodies[r.Intn(len(bodies))]})
		return b
	case "HS":
		reqs := []packet.HandshakeRequest{{ClientID: 0, Token: "new-client", Version: "3", Protocol: "tcp"}, {ClientID: 12345678, Version: "3", Protocol: "tcp"},
			{ClientID: -1, Version: "x", Protocol: "quic", ConnectionType: "tunnel"}, {ClientID: 12345678, ChallengeResponse: "deadbeef", ConnectionType: "control"},
			{ClientID: 9223372036854775807, Token: "anonymous:x", ConnectionType: "tunnel", ChallengeResponse: strings.Repeat("f", 64)}}
		b, _ := json.Marshal(reqs[r.Intn(len(reqs))])
		return b
	case "TOPEN":
		reqs := []packet.TunnelOpenRequest{{MappingID: "m1", TunnelID: "t1"}, {TunnelID: "t2", SecretKey: "k"}, {ResumeToken: "garbage.token", TunnelID: "t3"},
			{MappingID: "", TunnelID: ""}, {MappingID: "m", TunnelID: "t", TargetHost: "h", TargetPort: -1, TargetNetwork: "udp"}}
		b, _ := json.Marshal(reqs[r.Intn(len(reqs))])
		return b
	}
	return []byte(`{"tunnel_id":"t1","success":true}`)
}

var wrongJSON = []string{`[1,2,3]`, `"just a string"`, `123`, `null`, `true`, `{"CommandType":"x","CommandBody":5}`, `{"client_id":"seven","version":3}`,
	`{"mapping_id":1,"tunnel_id":{},"target_port":"p"}`, `[[[[[[[[[[[[[[[[[[[[[[[[[[[[[[[[]]]]]]]]]]]]]]]]]]]]]]]]]]]]]]]]`, `{"CommandType":1e400}`, `{"client_id":1e30}`}

var wrongCmdJSON = []string{`[1,2,3]`, `"just a string"`, `123`, `true`, `{"CommandType":"x","CommandBody":5}`, `{"CommandType":1e400}`,
	`{"CommandId":7}`, `[[[[[[[[[[[[[[[[[[[[[[[[[[[[[[[[]]]]]]]]]]]]]]]]]]]]]]]]]]]]]]]]`}

// JSON edge forms (payload classes null, scalar, emptyobj, array, nested, dupkeys, bignum, badutf8)
var edgeForms = map[string][]string{
	"null":     {`null`, ` null `, "\n\tnull\r\n"},
	"scalar":   {`true`, `0`, `"str"`, `false`, `-1.5e3`, `""`},
	"emptyobj": {`{}`, ` { } `},
	"array":    {`[]`, `[{}]`, `[null]`, `[[],{}]`},
}

func edgeJSON(k, pay string, r *rand.Rand) []byte {
	if fs, ok := edgeForms[pay]; ok {
		return []byte(fs[r.Intn(len(fs))])
	}
	switch pay {
	case "nested": // deeper than encoding/json's limit of 10000, closed or not, arrays or objects
		n := 10001 + r.Intn(3000)
		switch r.Intn(3) {
		case 0:
			return []byte(strings.Repeat("[", n))
		case 1:
			return []byte(strings.Repeat("[", n) + strings.Repeat("]", n))
		default:
			return []byte(strings.Repeat(`{"a":`, n) + "1" + strings.Repeat("}", n))
		}
	case "dupkeys":
		switch k {
		case "CMD", "RESP":
			return []byte(`{"CommandType":10,"CommandType":11,"CommandBody":"{}","CommandBody":"x","CommandId":"a","CommandId":"b"}`)
		case "HS":
			return []byte(`{"client_id":1,"client_id":0,"token":"a","token":"new-client","connection_type":"tunnel","connection_type":"control"}`)
		default:
			return []byte(`{"tunnel_id":"a","tunnel_id":"b","mapping_id":"m","mapping_id":"n","resume_token":"x","resume_token":""}`)
		}
	case "bignum":
		switch k {
		case "CMD", "RESP":
			return []byte([]string{`{"CommandType":1e400}`, `{"CommandType":99999999999999999999}`, `{"CommandType":-1}`, `{"CommandType":256}`}[r.Intn(4)])
		case "HS":
			return []byte([]string{`{"client_id":1e400}`, `{"client_id":123456789012345678901234567890}`, `{"client_id":-9223372036854775809}`, `{"client_id":1.5}`}[r.Intn(4)])
		default:
			return []byte([]string{`{"tunnel_id":"t","target_port":1e400}`, `{"tunnel_id":"t","target_port":99999999999999999999}`, `{"mapping_id":"m","target_port":-2147483649}`}[r.Intn(3)])
		}
	case "badutf8":
		switch k {
		case "CMD", "RESP":
			return []byte("{\"CommandType\":10,\"CommandId\":\"\xff\xfe\",\"CommandBody\":\"\xc0\xaf\xed\xa0\x80\"}")
		case "HS":
			return []byte("{\"client_id\":0,\"token\":\"\xff\xfenew-client\",\"version\":\"\xc0\xaf\"}")
		default:
			return []byte("{\"tunnel_id\":\"\xff\xfe\",\"mapping_id\":\"\xc0\xaf\",\"resume_token\":\"\xed\xa0\x80\"}")
		}
	}
	return nil
}

// shortBodies: 1..5 byte bodies whose VALUES matter to decoders - prefixes of multi-byte markers
var shortBodies = []string{
	"ef", "efbb", "efbbbf", "efbbbf7b", "efbbbf7b7d", // UTF-8 BOM and its prefixes, BOM + "{", BOM + "{}"
	"feff", "fffe", "fffe0000", "0000feff", // UTF-16 / UTF-32 BOMs
	"c3", "e2", "e282", "f0", "f09f", "f09f98", "eda080", "c0af", "80", // truncated / invalid UTF-8 sequences
	"1f", "1f8b", "1f8b08", "1f8b0800", // gzip magic prefixes
	"7b", "5b", "22", "2d", "74", "6e", "66", "7b22", "5b5b", "2230", "6e75", "6e756c", "747275", "2d30", "7b7d00", // JSON openers and prefixes of literals
	"00", "0000", "000000", "ff", "ffff", "ffffff", "ffffffffff", "0a", "20", "2020", "5c", "225c", "225c75", // NUL, FF, white space, escapes
}

func (f *frame) short(r *rand.Rand) []byte {
	h := f.Raw
	if h == "" {
		h = shortBodies[r.Intn(len(shortBodies))]
	}
	b, err := hex.DecodeString(h)
	if err != nil {
		panic(err)
	}
	return b
}

// content builds the (uncompressed) body content of class pay at exactly n bytes (n < 0: natural size).
func content(k, pay string, n int, r *rand.Rand) []byte {
	var b []byte
	switch pay {
	case "empty":
		return nil
	case "null", "scalar", "emptyobj", "array", "nested", "dupkeys", "bignum", "badutf8":
		return edgeJSON(k, pay, r)
	case "bad":
		b = append([]byte{0x00, 0xff, '{', '{', '"'}, []byte("not json at all \x01\x02")...)
		if n > len(b) {
			fill := cached(fmt.Sprintf("rnd:%d", n), func() []byte { x := make([]byte, n); rand.New(rand.NewSource(int64(n))).Read(x); return x })
			out := make([]byte, n)
			copy(out, fill)
			copy(out, b)
			return out
		}
	case "wrong":
		b = []byte(wrongJSON[r.Intn(len(wrongJSON))])
		if k == "CMD" || k == "RESP" { // must not fit a CommandPacket (null and objects with foreign members would)
			b = []byte(wrongCmdJSON[r.Intn(len(wrongCmdJSON))])
		}
		if n > len(b) { // a long valid array of numbers
			out := bytes.Repeat([]byte("0,"), n/2+1)[:n]
			out[0] = '['
			out[n-2] = '0'
			out[n-1] = ']'
			return out
		}
	case "good":
		b = goodJSON(k, r)
		if n > len(b) { // JSON allows trailing white space
			out := bytes.Repeat([]byte(" "), n)
			copy(out, b)
			return out
		}
	case "huge": // one huge string member, right shape for the kind, no escapes
		var head string
		switch k {
		case "CMD", "RESP":
			head = fmt.Sprintf(`{"CommandType":%d,"CommandId":"h","CommandBody":"`, cmdTypes[r.Intn(len(cmdTypes))])
		case "HS":
			head = `{"client_id":0,"token":"new-client","version":"`
		default:
			head = `{"mapping_id":"m","tunnel_id":"`
		}
		if n < len(head)+2 {
			n = len(head) + 2
		}
		out := bytes.Repeat([]byte("a"), n)
		copy(out, head)
		out[n-2] = '"'
		out[n-1] = '}'
		return out
	}
	if n >= 0 && n < len(b) {
		b = b[:n]
	}
	return b
}

func gz(level int, data []byte) []byte {
	var buf bytes.Buffer
	w, _ := gzip.NewWriterLevel(&buf, level)
	w.Write(data)
	w.Close()
	return buf.Bytes()
}

// storedSize = size of gzip(level NoCompression) output for n input bytes
func storedSize(n int) int { return len(gz(gzip.NoCompression, make([]byte, n))) }

var inAtMax = sync.OnceValue(func() int { // input size whose stored-gzip encoding is exactly maxBody bytes (or just below)
	n := maxBody - 18 - 5*(maxBody/65535+1)
	for storedSize(n+1) <= maxBody {
		n++
	}
	for storedSize(n) > maxBody {
		n--
	}
	return n
})

// body returns the bytes that follow the length field and the declared length.
func (f *frame) body(r *rand.Rand) (body []byte, declared uint32) {
	f.resolve(r)
	switch f.Sc {
	case "0":
		return nil, 0
	case "OVER", "U32":
		declared = maxBody + 1
		if f.Sc == "U32" {
			declared = 0xFFFFFFFF
		}
		if f.Av == 1 {
			body = content(f.K, "bad", 1024, r)
		}
		return body, declared
	}
	var full []byte
	size := -1
	if f.Sc == "MAX" {
		size = maxBody
	}
	switch {
	case subRange[f.Sub][0] != 0 && f.Av == 2: // KiBs on the wire also when compressed: incompressible padding inside the content
		full = sizedBody(f, r)
	case f.Sub == "nano" && f.Av == 2:
		full = nanoBody(f, r)
	case f.Cmd != 0 && f.Av == 2:
		cp, _ := json.Marshal(packet.CommandPacket{CommandType: packet.CommandType(f.Cmd), CommandId: fmt.Sprintf("c%d", r.Intn(1000)), Token: "t",
			SenderId: "1", ReceiverId: "2", CommandBody: bodies[r.Intn(len(bodies))]})
		full = cp
		if f.Z {
			full = gz(gzip.BestSpeed, full)
		}
	case f.Pay == "short" && f.Av == 2:
		full = f.short(r)
		if f.Z {
			full = gz(gzip.BestSpeed, full)
		}
	case f.Av < 2: // truncated body: content does not matter
		if size < 0 {
			size = 600
		}
		full = content(f.K, "bad", size, r)
	case !f.Z:
		full = content(f.K, f.Pay, size, r)
		if len(full) == 0 {
			full = []byte{' '}
		}
	default:
		switch f.Gz {
		case "ok": // output about as large as the input
			if f.Sc == "MAX" {
				key := fmt.Sprintf("gzok:%s:%s", f.K, f.Pay)
				if f.Pay == "bad" || f.Pay == "wrong" {
					key = "gzok:" + f.Pay
				}
				full = cached(key, func() []byte { return gz(gzip.NoCompression, content(f.K, f.Pay, inAtMax(), r)) })
			} else {
				full = gz(gzip.BestSpeed, content(f.K, f.Pay, -1, r))
			}
		case "big": // small input, output just within the limit
			n := maxBody
			if f.Pay == "huge" {
				n = maxBody - 1000
			}
			full = cached(fmt.Sprintf("gzbig:%s:%s", f.K, f.Pay), func() []byte {
				c := content(f.K, f.Pay, n, r)
				if f.Pay == "bad" {
					c = make([]byte, n)
				}
				return gz(gzip.BestCompression, c)
			})
		case "bomb": // 10 x the limit of zero bytes from ~160 KB
			full = cached("gzbomb", func() []byte { return gz(gzip.BestCompression, make([]byte, 10*maxBody)) })
			if f.Sc == "MAX" { // the same member inside a maximum-size body (trailing garbage is never reached)
				full = cached("gzbomb:max", func() []byte {
					out := content(f.K, "bad", maxBody, r)
					out = append([]byte(nil), out...)
					copy(out, cached("gzbomb", nil))
					return out
				})
			}
		case "forged": // the bomb's deflate stream, but the ISIZE trailer claims 100 bytes
			full = cached("gzforged", func() []byte {
				out := append([]byte(nil), cached("gzbomb", func() []byte { return gz(gzip.BestCompression, make([]byte, 10*maxBody)) })...)
				binary.LittleEndian.PutUint32(out[len(out)-4:], 100)
				return out
			})
			if f.Sc == "MAX" { // padded in front with a stored-block member up to a maximum-size body
				full = cached("gzforged:max", func() []byte { return padFront(cached("gzforged", nil)) })
			}
		case "multi": // a member inflating to 10 x the limit followed by a tiny member (its ISIZE is the last trailer)
			full = cached("gzmulti", func() []byte {
				big := cached("gzbomb", func() []byte { return gz(gzip.BestCompression, make([]byte, 10*maxBody)) })
				return append(append([]byte(nil), big...), gz(gzip.BestCompression, []byte("tiny"))...)
			})
			if f.Sc == "MAX" { // padded in front with stored-block members up to a maximum-size body
				full = cached("gzmulti:max", func() []byte { return padFront(cached("gzmulti", nil)) })
			}
		case "corrupt":
			full = append([]byte(nil), gz(gzip.BestSpeed, content(f.K, "good", -1, r))...)
			switch r.Intn(3) {
			case 0:
				full[0] ^= 0xff // magic
			case 1:
				full[len(full)/2] ^= 0x5a // deflate data
			default:
				full[len(full)-6] ^= 0x01 // crc
			}
			if f.Sc == "MAX" {
				out := append([]byte(nil), content(f.K, "bad", maxBody, r)...)
				copy(out, full)
				full = out
			}
		case "trunc":
			g := gz(gzip.BestSpeed, content(f.K, "good", 300, r))
			full = g[:len(g)/2]
			if f.Sc == "MAX" {
				full = cached("gztrunc:max", func() []byte {
					g := gz(gzip.NoCompression, content(f.K, "bad", maxBody+70000, r))
					return append([]byte(nil), g[:maxBody]...)
				})
			}
		default:
			full = content(f.K, "bad", 600, r)
		}
	}
	declared = uint32(len(full))
	switch f.Av {
	case 0:
		return nil, declared
	case 1:
		return full[:len(full)/2], declared
	}
	return full, declared
}

// padFront returns a body of exactly maxBody bytes: one gzip member of stored zero blocks (its header
// name absorbs the rounding) followed by tail, i.e. a well-formed multi-member stream ending in tail.
func padFront(tail []byte) []byte {
	want := maxBody - len(tail)
	n := want - 18 - 5*(want/65535+1)
	for storedSize(n+1) <= want-2 {
		n++
	}
	for storedSize(n) > want-2 {
		n--
	}
	var buf bytes.Buffer
	w, _ := gzip.NewWriterLevel(&buf, gzip.NoCompression)
	w.Name = strings.Repeat("p", want-storedSize(n)-1)
	w.Write(make([]byte, n))
	w.Close()
	if buf.Len() != want {
		panic(fmt.Sprintf("padFront: %d != %d", buf.Len(), want))
	}
	return append(buf.Bytes(), tail...)
}

const alnum = "abcdefghijklmnopqrstuvwxyzABCDEFGHIJKLMNOPQRSTUVWXYZ0123456789"

func randAlnum(r *rand.Rand, n int) string {
	b := make([]byte, n)
	for i := range b {
		b[i] = alnum[r.Intn(len(alnum))]
	}
	return string(b)
}

// subRange: body size on the wire (bytes) of the size classes above "tiny"; all of "mid" lies in the first 4 KiB
// class of the buffer pool and above every tiny body, "big" and "big2" in the second class, big2 above every big body.
var subRange = map[string][2]int{"mid": {2100, 4000}, "big": {4200, 5500}, "big2": {7000, 8150}}

// padContent: content of class f.Pay for kind f.K of about n bytes that gzip cannot shrink by more than a quarter.
func padContent(f *frame, n int, r *rand.Rand) []byte {
	if f.Pay != "good" {
		b := make([]byte, n)
		r.Read(b)
		copy(b, []byte{0x00, 0xff, '{', '{'})
		return b
	}
	mk := func(pad string) []byte {
		switch f.K {
		case "CMD", "RESP":
			ct := f.Cmd
			if ct == 0 {
				ct = cmdTypes[r.Intn(len(cmdTypes))]
			}
			b, _ := json.Marshal(packet.CommandPacket{CommandType: packet.CommandType(ct), CommandId: "mid", Token: "t", SenderId: "1", ReceiverId: "2",
				CommandBody: `{"pad":"` + pad + `"}`})
			return b
		case "HS":
			b, _ := json.Marshal(packet.HandshakeRequest{ClientID: 12345678, Version: pad, Protocol: "tcp"})
			return b
		case "TOPEN":
			b, _ := json.Marshal(packet.TunnelOpenRequest{MappingID: "m", TunnelID: "t-" + pad[:40], SecretKey: pad})
			return b
		}
		return []byte(`{"tunnel_id":"t1","success":true,"pad":"` + pad + `"}`)
	}
	over := len(mk(strings.Repeat("p", 40))) - 40
	if n-over < 40 {
		n = over + 40
	}
	return mk(randAlnum(r, n-over))
}

// sizedBody: the body of a frame of size class mid / big / big2, compressed or not - its length ON THE WIRE is in the class's range.
func sizedBody(f *frame, r *rand.Rand) []byte {
	rg := subRange[f.Sub]
	target := rg[0] + (rg[1]-rg[0])/4 + r.Intn((rg[1]-rg[0])/2)
	n := target
	if f.Z {
		n = target * 4 / 3
	}
	var out []byte
	for i := 0; i < 60; i++ {
		out = padContent(f, n, r)
		if f.Z {
			out = gz(gzip.BestSpeed, out)
		}
		if len(out) >= rg[0] && len(out) <= rg[1] {
			break
		}
		n += target - len(out)
		if n < 64 {
			n = 64
		}
	}
	if len(out) < rg[0] || len(out) > rg[1] {
		panic(fmt.Sprintf("sizedBody %s: %d bytes outside %v", f.streamClass(), len(out), rg))
	}
	if f.Z && f.Gz == "corrupt" {
		out[len(out)/2] ^= 0x5a
	}
	return out
}

// nanoBody: a body of 1..3 bytes (shorter than the 4-byte length buffer): the first bytes of a gzip member, the two
// bytes {} (a well-formed, empty command), an unfinished JSON object, or random bytes.
func nanoBody(f *frame, r *rand.Rand) []byte {
	n := 1 + r.Intn(3)
	cmd := f.K == "CMD" || f.K == "RESP"
	switch {
	case f.Z:
		return []byte{0x1f, 0x8b, 0x08}[:n]
	case cmd && f.Pay == "good":
		return []byte("{}")
	case cmd:
		return []byte(`{"x`)[:n]
	}
	b := make([]byte, n)
	r.Read(b)
	return b
}

// command types by handler class, taken from the REAL registry of the assembled server: "duplex" = a registered
// duplex handler, "session" = answered by handleCommandPacket itself, "none" = everything else
var cmdClasses = sync.OnceValue(func() map[string][]int {
	out := map[string][]int{}
	s, err := getServer()
	if err != nil {
		panic(err)
	}
	special := map[int]bool{int(packet.Disconnect): true, int(packet.SOCKS5TunnelRequestCmd): true, int(packet.TunnelTrafficReport): true,
		int(packet.DNSResolve): true, int(packet.DNSQuery): true}
	for ct := 1; ct < 256; ct++ {
		h, ok := s.reg.GetHandler(packet.CommandType(ct))
		switch {
		case special[ct]:
			out["session"] = append(out["session"], ct)
		case ok && h.GetDirection() == command.DirectionDuplex:
			out["duplex"] = append(out["duplex"], ct)
		case ok:
			out["oneway"] = append(out["oneway"], ct)
		default:
			out["none"] = append(out["none"], ct)
		}
	}
	return out
})

// resolve picks the command type of a frame that only names a handler class.
func (f *frame) resolve(r *rand.Rand) {
	if f.Cmd != 0 || f.H == "" || f.H == "na" || f.Pay != "good" || (f.K != "CMD" && f.K != "RESP") || f.Sub == "nano" {
		return
	}
	if cs := cmdClasses()[f.H]; len(cs) > 0 {
		f.Cmd = cs[r.Intn(len(cs))]
	}
}

var unkTypes = []byte{0x00, 0x04, 0x0f, 0x12, 0x1f, 0x25, 0x30, 0x3f}
var otherPay = []byte{byte(packet.HandshakeResp), byte(packet.TunnelOpenAck), byte(packet.TunnelData), byte(packet.TunnelClose), byte(packet.DataStreamEOF)}

func (f *frame) typeByte(r *rand.Rand) byte {
	var t byte
	switch f.K {
	case "HB":
		t = byte(packet.Heartbeat)
	case "CMD":
		t = byte(packet.JsonCommand)
	case "RESP":
		t = byte(packet.CommandResp)
	case "HS":
		t = byte(packet.Handshake)
	case "TOPEN":
		t = byte(packet.TunnelOpen)
	case "PAY":
		t = otherPay[r.Intn(len(otherPay))]
	default:
		t = unkTypes[r.Intn(len(unkTypes))]
	}
	if f.Z {
		t |= byte(packet.Compressed)
	}
	if f.E {
		t |= byte(packet.Encrypted)
	}
	return t
}

func (f *frame) bytes(r *rand.Rand) []byte {
	out := []byte{f.typeByte(r)}
	if f.K == "HB" {
		return out
	}
	body, declared := f.body(r)
	var l [4]byte
	binary.BigEndian.PutUint32(l[:], declared)
	out = append(out, l[:f.Hdr]...)
	if f.Hdr < 4 {
		return out
	}
	return append(out, body...)
}

// validPacket encodes a well-formed packet with the real writer (basis for mutants).
func validPacket(r *rand.Rand) ([]byte, string) {
	kinds := []string{"CMD", "RESP", "HS", "TOPEN", "PAY"}
	k := kinds[r.Intn(len(kinds))]
	f := &frame{K: k}
	var buf bytes.Buffer
	ctx, cancel := context.WithCancel(context.Background())
	defer cancel()
	sp := stream.NewStreamProcessor(bytes.NewReader(nil), &buf, ctx)
	defer sp.Close()
	p := &packet.TransferPacket{PacketType: packet.Type(f.typeByte(r))}
	if k == "CMD" || k == "RESP" {
		var cp packet.CommandPacket
		json.Unmarshal(goodJSON(k, r), &cp)
		p.CommandPacket = &cp
	} else {
		p.Payload = goodJSON(k, r)
	}
	z := r.Intn(2) == 0
	sp.WritePacket(p, z, 0)
	return append([]byte(nil), buf.Bytes()...), fmt.Sprintf("%s:z=%v", k, z)
}

// ---- watchdogs under load ---------------------------------------------------------------------------

var (
	spinSink uint64
	unitMu   sync.Mutex
	unitMin  time.Duration // fastest burst seen so far = the unloaded cost of one burst
)

func burst(k int) time.Duration {
	t0 := time.Now()
	x := uint64(88172645463325252)
	for i := 0; i < k*300000; i++ {
		x = x*6364136223846793005 + 1442695040888963407
	}
	atomic.StoreUint64(&spinSink, x)
	return time.Since(t0)
}

// calibrate: the fastest of many short bursts ran without being descheduled - also on a loaded machine.
func calibrate(n int) {
	unitMu.Lock()
	defer unitMu.Unlock()
	for i := 0; i < n; i++ {
		if d := burst(1); unitMin == 0 || d < unitMin {
			unitMin = d
		}
	}
}

// slowdown: how many times slower than unloaded a CPU-bound goroutine of this process runs right now
// (median of three probes of 60 bursts each, i.e. much longer than a scheduler time slice).
func slowdown() float64 {
	calibrate(20)
	var d []time.Duration
	for i := 0; i < 3; i++ {
		d = append(d, burst(60))
	}
	sort.Slice(d, func(i, j int) bool { return d[i] < d[j] })
	unitMu.Lock()
	defer unitMu.Unlock()
	return float64(d[1]) / float64(60*unitMin)
}

// recvWithin receives from ch within the watchdog period wd. When the period has passed and nothing is there, the
// present slowdown of this process is probed: at a quarter of the unloaded speed or less the margin the watchdog was
// given (>= 3x the slowest legitimate call) is gone, and the wait goes on for up to three more periods - a call that
// returns then was slow, not stuck. "Blocks for ever" is only said of a call that is still out after that.
func recvWithin[T any](ch <-chan T, wd time.Duration) (v T, ok bool) {
	select {
	case v = <-ch:
		return v, true
	case <-time.After(wd):
	}
	select { // the timer and the result may have become ready together (a process that was not scheduled for a while)
	case v = <-ch:
		return v, true
	default:
	}
	if f := slowdown(); f >= 4 {
		fmt.Printf("[load] watchdog of %v expired while this process runs %.0fx slower than unloaded: waiting up to %v more\n", wd, f, 3*wd)
		select {
		case v = <-ch:
			return v, true
		case <-time.After(3 * wd):
		}
		select {
		case v = <-ch:
			return v, true
		default:
		}
	}
	return v, false
}

// ---- one measured call ------------------------------------------------------------------------------

type callResult struct {
	panicked bool
	timedOut bool
	allocKiB int64
	panicMsg string
	dur      time.Duration
}

func measured(wd time.Duration, f func()) callResult {
	var res callResult
	done := make(chan struct{})
	var before, after runtime.MemStats
	runtime.ReadMemStats(&before)
	start := time.Now()
	go func() {
		defer close(done)
		defer func() {
			if x := recover(); x != nil {
				res.panicked = true
				res.panicMsg = fmt.Sprint(x)
			}
		}()
		f()
	}()
	if _, ok := recvWithin(done, wd); !ok {
		res.timedOut = true
	}
	res.dur = time.Since(start)
	runtime.ReadMemStats(&after)
	res.allocKiB = int64((after.TotalAlloc - before.TotalAlloc) / 1024)
	return res
}

type sink struct{ n int }

func (s *sink) Write(p []byte) (int, error) { s.n += len(p); return len(p), nil }

func drive(env *fw.Env, b fw.Behaviour) *fw.Trace {
	var c caseBeh
	if err := json.Unmarshal(b.Data, &c); err != nil {
		return &fw.Trace{Status: fw.DriverError, Note: err.Error()}
	}
	if atomic.LoadInt32(&hangs) >= maxHangs {
		return &fw.Trace{Status: fw.Inconclusive, Note: "skipped: several calls already hung in this run (each costs a full watchdog)"}
	}
	r := rand.New(rand.NewSource(c.Salt))
	var data []byte
	var cls string
	switch c.Kind {
	case "stream":
		return driveStream(env, &c, r)
	case "flood":
		return driveFlood(env, &c, r)
	case "frame":
		data = c.Frame.bytes(r)
		cls = c.Frame.class()
	case "random":
		data = make([]byte, c.N)
		r.Read(data)
		cls = fmt.Sprintf("random:len=%d", c.N)
	case "mutant":
		var what string
		data, what = validPacket(r)
		off := 0
		switch c.Field {
		case "len":
			off = 1 + r.Intn(4)
		case "body":
			off = 5 + r.Intn(len(data)-5)
		}
		if off < len(data) {
			data[off] ^= byte(1 << uint(r.Intn(8)))
		}
		if c.N == 1 { // and cut the stream somewhere
			data = data[:r.Intn(len(data)+1)]
		}
		cls = fmt.Sprintf("mutant:%s:%s:cut=%d", what, c.Field, c.N)
	default:
		return &fw.Trace{Status: fw.DriverError, Note: "kind?"}
	}
	s, err := getServer()
	if err != nil {
		return &fw.Trace{Status: fw.DriverError, Note: "server assembly: " + err.Error()}
	}
	out := &sink{}
	sc, err := s.sm.AcceptConnection(bytes.NewReader(data), out)
	if err != nil {
		return &fw.Trace{Status: fw.DriverError, Note: "AcceptConnection: " + err.Error()}
	}
	defer func() { _ = s.sm.CloseConnection(sc.ID) }()
	wd := 40 * time.Second
	t := &fw.Trace{Status: fw.Realised}
	t.Events = append(t.Events, fw.Event{"ev": "Case", "cls": cls, "exp": c.Exp, "bytes": len(data)})
	runtime.GC()
	errs := 0
	for i := 0; i < 6; i++ { // adapter.connectionReadLoop - but a caller that reads on after an error must be served too
		var pkt *packet.TransferPacket
		var rerr error
		res := measured(wd, func() { pkt, _, rerr = sc.Stream.ReadPacket() })
		ev := fw.Event{"ev": "Read", "panicked": res.panicked, "timedOut": res.timedOut, "allocKiB": res.allocKiB, "ms": res.dur.Milliseconds(), "bodyKiB": 0}
		switch {
		case res.panicked:
			ev["outcome"], ev["msg"] = "None", res.panicMsg
		case res.timedOut:
			ev["outcome"] = "None"
		case rerr != nil:
			ev["outcome"], ev["msg"] = "Error", trunc(rerr.Error())
		default:
			ev["outcome"] = "Packet"
			ev["type"] = int(pkt.PacketType)
			n := len(pkt.Payload)
			if pkt.CommandPacket != nil {
				n += len(pkt.CommandPacket.CommandBody)
			}
			ev["bodyKiB"] = (n + 1023) / 1024
		}
		t.Events = append(t.Events, ev)
		if res.timedOut {
			atomic.AddInt32(&hangs, 1)
		}
		if res.panicked || res.timedOut {
			break
		}
		if rerr != nil {
			if errs++; errs >= 2 { // the second error in a row (normally: end of stream) ends the loop
				break
			}
			continue
		}
		errs = 0
		var herr error
		sp := &types.StreamPacket{ConnectionID: sc.ID, Packet: pkt, Timestamp: time.Now()}
		res = measured(wd, func() { herr = s.sm.HandlePacket(sp) })
		ev = fw.Event{"ev": "Dispatch", "panicked": res.panicked, "timedOut": res.timedOut, "allocKiB": res.allocKiB, "ms": res.dur.Milliseconds(), "replied": out.n}
		switch {
		case res.panicked:
			ev["outcome"], ev["msg"] = "None", res.panicMsg
		case res.timedOut:
			ev["outcome"] = "None"
		case herr != nil:
			ev["outcome"], ev["msg"] = "Error", trunc(herr.Error())
		default:
			ev["outcome"] = "Reply"
		}
		t.Events = append(t.Events, ev)
		if res.timedOut {
			atomic.AddInt32(&hangs, 1)
		}
		if res.panicked || res.timedOut || (herr != nil && coreerrors.IsCode(herr, coreerrors.CodeTunnelModeSwitch)) {
			break
		}
	}
	return t
}

// hangs counts calls that ran into the watchdog in this run; after maxHangs the remaining cases are skipped
// (the verdict is decided, and every further hang would cost a full watchdog period).
var hangs int32

const maxHangs = 4

type callOut struct {
	read, disp     string // outcome
	rmsg, dmsg     string
	rpanic, dpanic bool
	typ, bodyKiB   int
	dispatched     bool
	done           bool
}

// connSpec: the frames the peer sends on one connection and the reader thread of each ReadPacket call.
type connSpec struct {
	Frames []frame  `json:"frames"`
	Thr    []int    `json:"thr"`
	Exits  []string `json:"exits,omitempty"` // exit of each call predicted by the model (spec/FramingRes.tla), informational
}

// the calls made at the end of every connection's stream: the three holders of StreamProcessor.readLock, and ReadPacket once more
var finalOps = []string{"ReadPacket", "ReadExact", "ReadAvailable", "ReadPacket"}

// realExit names the exit of ReadPacket that a real outcome corresponds to (the vocabulary of spec/FramingRes.tla).
func realExit(o *callOut) string {
	switch {
	case o.read == "Packet" && packet.Type(o.typ).IsHeartbeat():
		return "hb"
	case o.read == "Packet":
		return "ok"
	case o.read != "Error":
		return "none"
	}
	for _, m := range [][2]string{{"read_packet_type", "eof"}, {"read_packet_body_size", "lenErr"}, {"exceeds maximum", "oversize"}, {"read_packet_body", "bodyErr"},
		{"encryption not supported", "enc"}, {"json_unmarshal", "jsonErr"}, {"decompress", "gzErr"}, {"gzip", "gzErr"}} {
		if strings.Contains(o.rmsg, m[0]) {
			return m[1]
		}
	}
	return "other"
}

// driveStream: one or several connections, one after the other; on each the peer's frames are read by ReadPacket
// (+ HandlePacket) calls made by two goroutines that take turns as the behaviour says and busy-wait in between, so
// that each keeps its own P - the situation of a connection's read goroutine that is rescheduled onto another P between
// two packets. At the end of each stream four more calls are made - ReadPacket, ReadExact, ReadAvailable, ReadPacket -
// alternating between the threads; then the connection is closed. Allocation is not measured here (two goroutines run).
func driveStream(env *fw.Env, c *caseBeh, r *rand.Rand) *fw.Trace {
	conns := c.Conns
	if len(conns) == 0 {
		conns = []connSpec{{Frames: c.Frames, Thr: c.Thr}}
	}
	s, err := getServer()
	if err != nil {
		return &fw.Trace{Status: fw.DriverError, Note: "server assembly: " + err.Error()}
	}
	t := &fw.Trace{Status: fw.Realised}
	prev := ""
	for ci := range conns {
		where := ""
		if len(conns) > 1 {
			where = fmt.Sprintf(":conn=%d", ci+1)
			if ci > 0 {
				where += ":prevconn=(" + prev + ")"
			}
		}
		ok, err := driveConn(s, &conns[ci], where, r, t)
		if err != nil {
			return &fw.Trace{Status: fw.DriverError, Note: err.Error()}
		}
		if !ok {
			break
		}
		if n := len(conns[ci].Frames); n > 0 {
			prev = conns[ci].Frames[n-1].streamClass()
		}
	}
	return t
}

// driveConn runs one connection of a stream behaviour and appends its events to t; false = a call hung or panicked.
func driveConn(s *srv, cs *connSpec, where string, r *rand.Rand, t *fw.Trace) (bool, error) {
	var data []byte
	for i := range cs.Frames {
		data = append(data, cs.Frames[i].bytes(r)...)
	}
	out := &sink{}
	sc, err := s.sm.AcceptConnection(bytes.NewReader(data), out)
	if err != nil {
		return false, fmt.Errorf("AcceptConnection: %v", err)
	}
	defer func() { _ = s.sm.CloseConnection(sc.ID) }()
	nf := len(cs.Frames)
	total := nf + len(finalOps)
	sched := make([]int, total)
	for i := range sched {
		sched[i] = 1
		if i < len(cs.Thr) && i < nf {
			sched[i] = cs.Thr[i]
		} else if i > 0 {
			sched[i] = 3 - sched[i-1] // the end-of-stream calls: each from the other thread
		}
	}
	res := make([]callOut, total)
	var turn, stop int64
	done := make(chan struct{}, 2)
	worker := func(id int) {
		defer func() { done <- struct{}{} }()
		for {
			cur := atomic.LoadInt64(&turn)
			if cur >= int64(total) || atomic.LoadInt64(&stop) != 0 {
				return
			}
			if sched[cur] != id {
				continue // busy-wait: this goroutine stays on its own P
			}
			o := &res[cur]
			op := "ReadPacket"
			if int(cur) >= nf {
				op = finalOps[int(cur)-nf]
			}
			var pkt *packet.TransferPacket
			func() {
				defer func() {
					if x := recover(); x != nil {
						o.rpanic, o.rmsg = true, fmt.Sprint(x)
					}
				}()
				switch op {
				case "ReadExact":
					if _, rerr := sc.Stream.ReadExact(4); rerr != nil {
						o.read, o.rmsg = "Error", trunc(rerr.Error())
					} else {
						o.read = "Data"
					}
					return
				case "ReadAvailable":
					ra, ok := sc.Stream.(interface {
						ReadAvailable(int) ([]byte, error)
					})
					if !ok {
						o.read, o.rmsg = "Error", "no ReadAvailable"
						return
					}
					if _, rerr := ra.ReadAvailable(0); rerr != nil {
						o.read, o.rmsg = "Error", trunc(rerr.Error())
					} else {
						o.read = "Data"
					}
					return
				}
				p, _, rerr := sc.Stream.ReadPacket()
				if rerr != nil {
					o.read, o.rmsg = "Error", trunc(rerr.Error())
					return
				}
				o.read, o.typ, pkt = "Packet", int(p.PacketType), p
				n := len(p.Payload)
				if p.CommandPacket != nil {
					n += len(p.CommandPacket.CommandBody)
				}
				o.bodyKiB = (n + 1023) / 1024
			}()
			if pkt != nil {
				o.dispatched = true
				func() {
					defer func() {
						if x := recover(); x != nil {
							o.dpanic, o.dmsg = true, fmt.Sprint(x)
						}
					}()
					if herr := s.sm.HandlePacket(&types.StreamPacket{ConnectionID: sc.ID, Packet: pkt, Timestamp: time.Now()}); herr != nil {
						o.disp, o.dmsg = "Error", trunc(herr.Error())
					} else {
						o.disp = "Reply"
					}
				}()
			}
			o.done = true
			atomic.StoreInt64(&turn, cur+1)
			if o.rpanic || o.dpanic { // a panic ends the read loop (in the server: the process)
				atomic.StoreInt64(&stop, 1)
				return
			}
		}
	}
	go worker(1)
	go worker(2)
	timedOut := false
	both := make(chan struct{})
	go func() {
		<-done
		<-done
		close(both)
	}()
	if _, ok := recvWithin(both, 20*time.Second); !ok {
		timedOut = true
		atomic.StoreInt64(&stop, 1)
		atomic.AddInt32(&hangs, 1)
	}
	upto := int(atomic.LoadInt64(&turn))
	good := !timedOut
	for i := 0; i < total && i <= upto; i++ {
		cls := "end-of-stream"
		if i < nf {
			cls = cs.Frames[i].streamClass()
		} else {
			cls += ":op=" + finalOps[i-nf]
		}
		switch {
		case i == 0:
			cls += ":first"
		default:
			if i <= nf {
				cls += ":after=(" + cs.Frames[i-1].streamClass() + ")"
			} else {
				cls += ":after=(end-of-stream)"
			}
			if sched[i] != sched[i-1] {
				cls += ":thr=switch"
			} else {
				cls += ":thr=same"
			}
		}
		cls += where
		o := res[i]
		hung := timedOut && i == upto && !o.done
		if i == upto && !hung && !o.done {
			break
		}
		t.Events = append(t.Events, fw.Event{"ev": "Case", "cls": cls, "call": i + 1})
		rd := fw.Event{"ev": "Read", "panicked": o.rpanic, "timedOut": hung && !o.dispatched, "allocKiB": 0, "bodyKiB": o.bodyKiB, "outcome": o.read, "msg": o.rmsg}
		if o.read == "" {
			rd["outcome"] = "None"
		}
		if i < nf && i < len(cs.Exits) && !hung && !o.rpanic {
			rd["mexit"], rd["exit"] = cs.Exits[i], realExit(&o)
		}
		t.Events = append(t.Events, rd)
		if o.dispatched {
			d := fw.Event{"ev": "Dispatch", "panicked": o.dpanic, "timedOut": hung, "allocKiB": 0, "outcome": o.disp, "msg": o.dmsg}
			if o.disp == "" {
				d["outcome"] = "None"
			}
			t.Events = append(t.Events, d)
		}
		if o.rpanic || o.dpanic {
			good = false
		}
	}
	return good, nil
}

// liveKiB: live heap plus goroutine stacks after two collections; goroutines spawned by the handlers of the packets
// handled so far are given up to a second to finish (base = goroutines before the flood started).
func liveKiB(base int) (int64, int) {
	for i := 0; i < 200 && runtime.NumGoroutine() > base; i++ {
		time.Sleep(5 * time.Millisecond)
	}
	g := runtime.NumGoroutine()
	runtime.GC()
	runtime.GC()
	var m runtime.MemStats
	runtime.ReadMemStats(&m)
	return int64((m.HeapAlloc + m.StackInuse) / 1024), g
}

// driveFlood: N copies of one small frame, read and dispatched in a loop by one goroutine - all on ONE connection
// (Field = "" / "conn"), or each on a connection of its own that is accepted, served and closed (Field = "conns").
// Live memory is taken after N/2 and after N packets: what the server keeps per handled packet / per closed
// connection shows as growth.
func driveFlood(env *fw.Env, c *caseBeh, r *rand.Rand) *fw.Trace {
	one := c.Frame.bytes(r)
	perConn := c.Field == "conns"
	s, err := getServer()
	if err != nil {
		return &fw.Trace{Status: fw.DriverError, Note: "server assembly: " + err.Error()}
	}
	out := &sink{}
	var sc *types.StreamConnection
	if !perConn {
		sc, err = s.sm.AcceptConnection(bytes.NewReader(bytes.Repeat(one, c.N)), out)
		if err != nil {
			return &fw.Trace{Status: fw.DriverError, Note: "AcceptConnection: " + err.Error()}
		}
		defer func() { _ = s.sm.CloseConnection(sc.ID) }()
	}
	var replies, refusals, readErrs int
	var h0, h1, h2 int64
	var g1, g2 int
	var pmsg, derr string
	fin := make(chan bool, 1)
	start := time.Now()
	base := runtime.NumGoroutine() + 1
	go func() {
		defer func() {
			if x := recover(); x != nil {
				pmsg = fmt.Sprint(x)
				fin <- true
			}
		}()
		h0, _ = liveKiB(base)
		for i := 0; i < c.N; i++ {
			if i == c.N/2 {
				h1, g1 = liveKiB(base)
			}
			conn := sc
			if perConn {
				var aerr error
				if conn, aerr = s.sm.AcceptConnection(bytes.NewReader(one), out); aerr != nil {
					derr = "AcceptConnection: " + aerr.Error()
					break
				}
			}
			pkt, _, rerr := conn.Stream.ReadPacket()
			switch {
			case rerr != nil:
				readErrs++
			case s.sm.HandlePacket(&types.StreamPacket{ConnectionID: conn.ID, Packet: pkt, Timestamp: time.Now()}) != nil:
				refusals++
			default:
				replies++
			}
			if perConn {
				_ = s.sm.CloseConnection(conn.ID)
			}
		}
		h2, g2 = liveKiB(base)
		fin <- false
	}()
	ev := fw.Event{"ev": "Flood", "n": c.N, "panicked": false, "timedOut": false, "growKiB": 0, "growG": 0, "replies": 0}
	if p, ok := recvWithin(fin, 120*time.Second); ok {
		ev["panicked"] = p
		ev["msg"] = pmsg
	} else {
		ev["timedOut"] = true
		atomic.AddInt32(&hangs, 1)
	}
	if derr != "" {
		return &fw.Trace{Status: fw.DriverError, Note: derr}
	}
	if ev["panicked"] == false && ev["timedOut"] == false {
		ev["growKiB"], ev["firstHalfKiB"], ev["growG"], ev["replies"], ev["refusals"], ev["readErrs"] = h2-h1, h1-h0, g2-g1, replies, refusals, readErrs
	}
	ev["ms"] = time.Since(start).Milliseconds()
	t := &fw.Trace{Status: fw.Realised}
	kind := "flood:"
	if perConn {
		kind = "flood-conns:"
	}
	t.Events = append(t.Events, fw.Event{"ev": "Case", "cls": kind + c.Frame.streamClass()}, ev)
	return t
}

func trunc(s string) string {
	if len(s) > 160 {
		return s[:160]
	}
	return s
}

// ---- wiring -----------------------------------------------------------------------------------------

func hashOf(b []byte) int64 {
	h := fnv.New64a()
	h.Write(b)
	return int64(h.Sum64() >> 1)
}

// command types that go through a registered handler or a special path of handleCommandPacket
var floodCmds = []int{50, 70, 71, 72, 73, 74, 75, 76, 82, 83, 84, 85, 86, 87, 11, 90, 110, 120, 121, 80, 81, 100, 102, 10, 99}

// expandStream turns a stream behaviour {frames, calls} generated from spec/Framing.tla (Framing_stream.cfg, thorough
// tier) into a stream case; floods are derived from the behaviours of spec/FramingRes.tla (expandRes).
func expandStream(env *fw.Env, raw json.RawMessage, h int64, keep func(int64) bool) []json.RawMessage {
	var g struct {
		Frames []frame `json:"frames"`
		Calls  []struct {
			Thr int `json:"thr"`
		} `json:"calls"`
	}
	if err := json.Unmarshal(raw, &g); err != nil {
		panic(err)
	}
	c := caseBeh{Kind: "stream", Frames: g.Frames, Salt: env.Seed*1000003 + h}
	for _, x := range g.Calls {
		if x.Thr != 0 {
			c.Thr = append(c.Thr, x.Thr)
		}
	}
	var out []json.RawMessage
	if keep(150) {
		out = append(out, fw.MustJSON(c))
	}
	return out
}

// expandRes turns a behaviour generated from spec/FramingRes.tla - {calls: [{conn, fr, thr, exit}]} - into a stream
// case. Kept: every behaviour that ends in a PROBE (a long uncompressed payload frame as the second frame of a
// connection: it asks the buffer pool for the longest buffer of its size class, on the same or on the other thread,
// after whatever the first frame left behind), every behaviour of two identical frames, and a seeded sample of the
// rest. Two identical frames additionally stand for "the same frame again and again": a flood of N copies on one
// connection (read by one thread), or - when the model put them on two connections - N connections with one copy each;
// N is to repetition what 16 MiB is to "MAX". Command frames: one flood per command type of the frame's handler class.
func expandRes(env *fw.Env, raw json.RawMessage, h int64, keep func(int64) bool) []json.RawMessage {
	var g struct {
		Calls []struct {
			Conn int    `json:"conn"`
			Fr   frame  `json:"fr"`
			Thr  int    `json:"thr"`
			Exit string `json:"exit"`
		} `json:"calls"`
	}
	if err := json.Unmarshal(raw, &g); err != nil {
		panic(err)
	}
	c := caseBeh{Kind: "stream", Salt: env.Seed*1000003 + h}
	for _, x := range g.Calls {
		for x.Conn > len(c.Conns) {
			c.Conns = append(c.Conns, connSpec{})
		}
		cs := &c.Conns[x.Conn-1]
		cs.Frames, cs.Thr, cs.Exits = append(cs.Frames, x.Fr), append(cs.Thr, x.Thr), append(cs.Exits, x.Exit)
	}
	if len(g.Calls) == 0 {
		return nil
	}
	last := g.Calls[len(g.Calls)-1].Fr
	probe := len(c.Conns) == 1 && len(g.Calls) >= 2 && last.K == "PAY" && !last.Z && !last.E && last.Sc == "S" && last.Av == 2 && (last.Sub == "mid" || last.Sub == "big2")
	same := len(g.Calls) == 2 && g.Calls[0].Fr == g.Calls[1].Fr && (len(c.Conns) == 2 || g.Calls[1].Thr == 1)
	var out []json.RawMessage
	per := int64(55)
	if env.Tier == "thorough" {
		per = 1000
	}
	if probe || same || keep(per) {
		out = append(out, fw.MustJSON(c))
	}
	if !same {
		return out
	}
	f := g.Calls[0].Fr
	n, field := 3000, "conn"
	if len(c.Conns) == 2 {
		n, field = 1500, "conns"
	}
	if env.Tier == "thorough" {
		n *= 3
	}
	if f.K == "HB" || subRange[f.Sub][0] != 0 { // heartbeats are answered; long frames cost too much for what they add
		return out
	}
	// quick tier, one connection per copy: every dispatched kind and every misaligning frame, a seeded half of the rest
	if field == "conns" && env.Tier != "thorough" && f.Sc == "S" && f.Av == 2 && (f.E || f.Z || f.K == "PAY" || f.K == "UNK") && !keep(500) {
		return out
	}
	if f.K == "CMD" && f.Pay == "good" && f.H != "" && f.H != "na" && f.Sub != "nano" {
		pick := floodCmds
		if env.Tier == "thorough" {
			pick = cmdTypes
		}
		var cmds []int
		for _, ct := range cmdClasses()[f.H] {
			for _, fc := range pick {
				if fc == ct {
					cmds = append(cmds, ct)
				}
			}
		}
		if env.Tier != "thorough" {
			if field == "conns" && len(cmds) > 4 { // seeded choice of four command types of the class
				rr := rand.New(rand.NewSource(env.Seed*131 + int64(len(f.H))))
				rr.Shuffle(len(cmds), func(i, j int) { cmds[i], cmds[j] = cmds[j], cmds[i] })
				cmds = cmds[:4]
			}
		}
		for _, ct := range cmds {
			ff := f
			ff.Cmd = ct
			out = append(out, fw.MustJSON(caseBeh{Kind: "flood", Field: field, Frame: &ff, N: n, Salt: env.Seed*31 + int64(ct)}))
		}
		return out
	}
	ff := f
	return append(out, fw.MustJSON(caseBeh{Kind: "flood", Field: field, Frame: &ff, N: n, Salt: env.Seed * 37}))
}

func extra(env *fw.Env) []json.RawMessage {
	var out []json.RawMessage
	add := func(c caseBeh) { out = append(out, fw.MustJSON(c)) }
	// classes every run must contain whatever the sampling picked
	for _, f := range []frame{
		{K: "PAY", Z: true, Hdr: 4, Sc: "S", Av: 2, Gz: "bomb", Pay: "bad"},
		{K: "CMD", Z: true, Hdr: 4, Sc: "S", Av: 2, Gz: "bomb", Pay: "bad"},
		{K: "HS", Z: true, Hdr: 4, Sc: "S", Av: 2, Gz: "big", Pay: "huge"},
		{K: "CMD", Z: true, Hdr: 4, Sc: "MAX", Av: 2, Gz: "ok", Pay: "huge"},
		{K: "CMD", Hdr: 4, Sc: "MAX", Av: 2, Gz: "na", Pay: "huge"},
		{K: "TOPEN", Hdr: 4, Sc: "U32", Av: 1, Gz: "na", Pay: "bad"},
		{K: "HS", Hdr: 4, Sc: "OVER", Av: 0, Gz: "na", Pay: "bad"},
		{K: "HS", Hdr: 2, Sc: "0", Gz: "na", Pay: "empty"},
		{K: "PAY", Z: true, Hdr: 4, Sc: "S", Av: 2, Gz: "forged", Pay: "bad"},
		{K: "CMD", Z: true, Hdr: 4, Sc: "S", Av: 2, Gz: "forged", Pay: "bad"},
		{K: "PAY", Z: true, Hdr: 4, Sc: "S", Av: 2, Gz: "multi", Pay: "bad"},
		{K: "HS", Z: true, Hdr: 4, Sc: "S", Av: 2, Gz: "multi", Pay: "bad"},
		{K: "TOPEN", Z: true, Hdr: 4, Sc: "MAX", Av: 2, Gz: "multi", Pay: "bad"},
	} {
		f := f
		add(caseBeh{Kind: "frame", Frame: &f, Salt: env.Seed})
	}
	// every JSON edge form for every dispatched kind (small, uncompressed; null also compressed), several seeds each
	for _, k := range []string{"HS", "TOPEN", "CMD", "RESP", "PAY"} {
		for _, pay := range []string{"null", "scalar", "emptyobj", "array", "nested", "dupkeys", "bignum", "badutf8"} {
			for v := 0; v < 3; v++ {
				f := frame{K: k, Hdr: 4, Sc: "S", Av: 2, Gz: "na", Pay: pay}
				if v == 2 && (pay == "null" || pay == "emptyobj") {
					f.Z, f.Gz = true, "ok"
				}
				add(caseBeh{Kind: "frame", Frame: &f, Salt: env.Seed*31 + int64(v)})
			}
		}
	}
	// every short body for every kind, raw and gzip-compressed
	for _, k := range []string{"CMD", "RESP", "HS", "TOPEN", "PAY", "UNK"} {
		for _, z := range []bool{false, true} {
			for _, h := range shortBodies {
				f := frame{K: k, Z: z, Hdr: 4, Sc: "S", Av: 2, Gz: "na", Pay: "short", Raw: h}
				if z {
					f.Gz = "ok"
				}
				add(caseBeh{Kind: "frame", Frame: &f, Salt: env.Seed})
			}
		}
	}
	nr, nm := 40, 90
	if env.Tier == "thorough" {
		nr, nm = 400, 1500
	}
	r := rand.New(rand.NewSource(env.Seed ^ 0x5eed))
	lens := []int{0, 1, 2, 4, 5, 6, 64, 1000, 4096, 70000}
	for i := 0; i < nr; i++ {
		add(caseBeh{Kind: "random", N: lens[i%len(lens)], Salt: r.Int63()})
	}
	fields := []string{"type", "len", "body"}
	for i := 0; i < nm; i++ {
		add(caseBeh{Kind: "mutant", Field: fields[i%3], N: (i / 3) % 2, Salt: r.Int63()})
	}
	return out
}

func selfTest(env *fw.Env, acc []*fw.Trace) []*fw.Trace {
	var out []*fw.Trace
	id := 9000000
	clone := func(t *fw.Trace) *fw.Trace {
		c := &fw.Trace{Status: t.Status, Beh: t.Beh}
		id++
		c.Beh.ID = id
		for _, e := range t.Events {
			ne := fw.Event{}
			for k, v := range e {
				ne[k] = v
			}
			c.Events = append(c.Events, ne)
		}
		return c
	}
	n := 0
	for _, t := range acc {
		if n >= 4 || len(t.Events) < 3 || t.Events[2]["ev"] != "Dispatch" || t.Events[0]["call"] != nil {
			continue
		}
		n++
		for _, m := range []func(c *fw.Trace){
			func(c *fw.Trace) { c.Events[1]["panicked"] = true },
			func(c *fw.Trace) { c.Events[2]["panicked"] = true },
			func(c *fw.Trace) { c.Events[1]["timedOut"] = true },
			func(c *fw.Trace) { c.Events[2]["timedOut"] = true },
			func(c *fw.Trace) { c.Events[1]["allocKiB"] = int64(6*16384 + 1024 + 1) },
			func(c *fw.Trace) { c.Events[2]["allocKiB"] = int64(12*16384 + 1024 + 1) },
			func(c *fw.Trace) { c.Events[1]["outcome"] = "Reply" },
			func(c *fw.Trace) { c.Events[1]["bodyKiB"] = 16385 },
			func(c *fw.Trace) { c.Events[2]["outcome"] = "Packet" },
			func(c *fw.Trace) { c.Events = c.Events[:1] }, // no report at all
		} {
			c := clone(t)
			m(c)
			out = append(out, c)
		}
	}
	// streams: a call that hung / panicked / whose report is missing; floods: retained memory, a hang
	ns, nfl := 0, 0
	for _, t := range acc {
		k := len(t.Events)
		switch {
		case k >= 4 && t.Events[0]["call"] != nil && ns < 3:
			ns++
			last := k - 1
			for t.Events[last]["ev"] != "Read" {
				last--
			}
			mid := 1 // the report of the first call
			for _, m := range []func(c *fw.Trace){
				func(c *fw.Trace) { c.Events[last]["timedOut"] = true },
				func(c *fw.Trace) { c.Events[last]["panicked"] = true },
				func(c *fw.Trace) { c.Events[mid]["outcome"] = "None" },
				func(c *fw.Trace) { c.Events = append(c.Events[:mid:mid], c.Events[mid+1:]...) },
			} {
				c := clone(t)
				m(c)
				out = append(out, c)
			}
		case k == 2 && t.Events[1]["ev"] == "Flood" && t.Events[1]["replies"] == 0 && nfl < 3:
			nfl++
			for _, m := range []func(c *fw.Trace){
				func(c *fw.Trace) { c.Events[1]["growKiB"] = int64(97) },
				func(c *fw.Trace) { c.Events[1]["timedOut"] = true },
				func(c *fw.Trace) { c.Events[1]["panicked"] = true },
				func(c *fw.Trace) { c.Events = c.Events[:1] },
			} {
				c := clone(t)
				m(c)
				out = append(out, c)
			}
		}
	}
	return out
}

// postDrive reports (informational, never a verdict) where the real ReadPacket outcome differs from
// the outcome the contract model (Framing.tla, Dev = {}) predicts for the class.
func postDrive(env *fw.Env, traces []*fw.Trace) error {
	total, same := 0, 0
	div := map[string]int{}
	for _, t := range traces {
		if t.Status != fw.Realised || len(t.Events) < 2 {
			continue
		}
		exp, _ := t.Events[0]["exp"].(string)
		if exp == "" {
			continue
		}
		total++
		if t.Events[1]["outcome"] == exp {
			same++
		} else {
			div[fmt.Sprintf("%v: model %s, code %v", t.Events[0]["cls"], exp, t.Events[1]["outcome"])]++
		}
	}
	fmt.Printf("[bind] ReadPacket outcome as predicted by the contract model for %d of %d frame classes\n", same, total)
	keys := make([]string, 0, len(div))
	for k := range div {
		keys = append(keys, k)
	}
	sort.Strings(keys)
	for i, k := range keys {
		if i >= 12 {
			fmt.Printf("[bind]   ... and %d more\n", len(keys)-i)
			break
		}
		fmt.Printf("[bind]   divergence %s\n", k)
	}
	// streams: the exit of every ReadPacket call as predicted by spec/FramingRes.tla
	total, same = 0, 0
	div = map[string]int{}
	for _, t := range traces {
		cls := ""
		for _, e := range t.Events {
			if e["ev"] == "Case" {
				cls, _ = e["cls"].(string)
			}
			m, ok := e["mexit"].(string)
			if e["ev"] != "Read" || !ok {
				continue
			}
			total++
			if e["exit"] == m {
				same++
			} else {
				if i := strings.Index(cls, ":after="); i > 0 {
					cls = cls[:i]
				}
				div[fmt.Sprintf("%s: model %s, code %v", strings.TrimSuffix(cls, ":first"), m, e["exit"])]++
			}
		}
	}
	fmt.Printf("[bind] exit of ReadPacket as predicted by the resource model for %d of %d calls of the stream behaviours\n", same, total)
	keys = keys[:0]
	for k := range div {
		keys = append(keys, k)
	}
	sort.Strings(keys)
	for i, k := range keys {
		if i >= 8 {
			fmt.Printf("[bind]   ... and %d more\n", len(keys)-i)
			break
		}
		fmt.Printf("[bind]   divergence %s\n", k)
	}
	if showResult == nil { // replay: the model jobs were not run
		return nil
	}
	return <-showResult
}

// started together with the model jobs, collected after the drive
var showResult chan error

// showDeviations: under each named deviation of spec/FramingRes.tla TLC must exhibit the violation of the clause it
// breaks (FramingRes_show_*.cfg) - the model really contains the mechanism and the invariants are not vacuous.
// Quick tier: the three seeded deviations; thorough: every site / exit / table.
func showDeviations(env *fw.Env) error {
	type show struct{ cfg, key, val, inv string }
	shows := []show{{"FramingRes_show_pool.cfg", "SITE", "gunzip", "NoPanic"}, {"FramingRes_show_lock.cfg", "EXIT", "enc", "NeverBlocked"},
		{"FramingRes_show_retain.cfg", "KEEP", "pending:refused", "NothingPending"}}
	if env.Tier == "thorough" {
		for _, v := range []string{"enc", "gunzipErr", "json", "jsonErr", "payload"} {
			shows = append(shows, show{"FramingRes_show_pool.cfg", "SITE", v, "NoPanic"}, show{"FramingRes_show_pool.cfg", "SITE", v, "PoolSound"})
		}
		for _, v := range []string{"eof", "hb", "lenErr", "oversize", "bodyErr", "gzErr", "jsonErr", "ok", "exactEof", "availEof"} {
			shows = append(shows, show{"FramingRes_show_lock.cfg", "EXIT", v, "NeverBlocked"}, show{"FramingRes_show_lock.cfg", "EXIT", v, "LockFree"})
		}
		for _, v := range []string{"pending:ok", "pending:timeout"} {
			shows = append(shows, show{"FramingRes_show_retain.cfg", "KEEP", v, "NothingPending"})
		}
		for _, v := range []string{"ctl:close", "conn:close", "stream:close"} {
			shows = append(shows, show{"FramingRes_show_retain.cfg", "KEEP", v, "NothingAfterClose"})
		}
	}
	errs := make([]error, len(shows))
	var wg sync.WaitGroup
	sem := make(chan struct{}, 4)
	for i, sh := range shows {
		wg.Add(1)
		go func(i int, sh show) {
			defer wg.Done()
			sem <- struct{}{}
			defer func() { <-sem }()
			r, err := fw.RunTLC(fw.TLCJob{Name: "show:" + sh.val, Module: "FramingRes", Cfg: sh.cfg, Workers: 2,
				Consts: map[string]string{sh.key: sh.val, "INV": sh.inv}})
			if err != nil {
				errs[i] = err
			} else if r.OK || !strings.Contains(r.Violation, sh.inv) {
				errs[i] = fmt.Errorf("deviation %s = %s of spec/FramingRes.tla no longer exhibits %s violated (ok=%v violation=%q)", sh.key, sh.val, sh.inv, r.OK, r.Violation)
			}
		}(i, sh)
	}
	wg.Wait()
	for _, err := range errs {
		if err != nil {
			return err
		}
	}
	fmt.Printf("[model] %d named deviations of spec/FramingRes.tla: TLC exhibits the violated clause for each (expected)\n", len(shows))
	return nil
}

// resFrames: frames per behaviour in the exhaustive run of spec/FramingRes.tla
func resFrames(env *fw.Env) string {
	if env.Tier == "thorough" {
		return "3"
	}
	return "2"
}

func main() {
	calibrate(60)
	corelog.SetDefault(corelog.NewNopLogger())
	if utils.Logger != nil {
		utils.Logger.SetOutput(io.Discard)
	}
	fw.Main(&fw.Property{
		ID:        "C05",
		DesignRef: "DESIGN.md §5 C05",
		ModelJobs: func(env *fw.Env) []fw.TLCJob {
			all := `{"shortHeader", "emptyNoLen", "unboundedInflate"}`
			showResult = make(chan error, 1)
			go func() { showResult <- showDeviations(env) }()
			frames := "2" // 3 frames are 5.1M states (7 min under load): the 3-frame streams are covered by simulation instead
			return []fw.TLCJob{
				{Name: "mc:hostile-contract", Module: "Framing", Cfg: "Framing_hostile.cfg", Consts: map[string]string{"DEV": "{}", "ALLOC": "AllocBound"}},
				{Name: "mc:hostile-as-found", Module: "Framing", Cfg: "Framing_hostile.cfg", Consts: map[string]string{"DEV": all, "ALLOC": "AllocBoundOrDev"}},
				{Name: "mc:streams", Module: "Framing", Cfg: "Framing_stream.cfg", Heap: "12g",
					Consts: map[string]string{"FRAMES": frames, "EMIT": "FALSE", "SPEC": "SPECIFICATION Spec\nPROPERTY Termination"}},
				// what a call leaves behind (buffer pool, read lock, request / connection tables), the code as it is
				{Name: "mc:resources", Module: "FramingRes", Cfg: "FramingRes_mc.cfg", Workers: 4, Consts: map[string]string{"FRAMES": resFrames(env)}},
			}
		},
		GenJobs: func(env *fw.Env) []fw.TLCJob {
			jobs := []fw.TLCJob{{Name: "gen:hostile-frames", Module: "Framing", Cfg: "Framing_genx.cfg", Workers: 4},
				{Name: "gen:resources", Module: "FramingRes", Cfg: "FramingRes_gen.cfg", Consts: map[string]string{"FRAMES": "2"}, Workers: 8}}
			if env.Tier == "thorough" {
				gen := map[string]string{"FRAMES": "2", "EMIT": "TRUE", "SPEC": "INIT Init\nNEXT Next"}
				jobs = append(jobs, fw.TLCJob{Name: "gen:streams", Module: "Framing", Cfg: "Framing_stream.cfg", Consts: gen, Workers: 8},
					fw.TLCJob{Name: "sim:streams3", Module: "Framing", Cfg: "Framing_stream.cfg", Workers: 4,
						Consts: map[string]string{"FRAMES": "3", "EMIT": "TRUE", "SPEC": "INIT Init\nNEXT Next"}, Simulate: "num=600", Depth: 60, Seed: env.Seed},
					fw.TLCJob{Name: "sim:resources3", Module: "FramingRes", Cfg: "FramingRes_gen.cfg", Workers: 4,
						Consts: map[string]string{"FRAMES": "3"}, Simulate: "num=600", Depth: 120, Seed: env.Seed})
			}
			return jobs
		},
		MaxBeh: func(env *fw.Env) int { return 0 }, // sampling is done per source in Expand
		Expand: func(env *fw.Env, src string, raw json.RawMessage) []json.RawMessage {
			h := hashOf(raw)
			keep := func(per1000 int64) bool { // seeded, deterministic sampling of one source
				return (h/7+env.Seed*7919)%1000 < per1000
			}
			if src == "gen:resources" || src == "sim:resources3" {
				return expandRes(env, raw, h, keep)
			}
			if src != "gen:hostile-frames" {
				return expandStream(env, raw, h, keep)
			}
			if env.Tier != "thorough" && !keep(300) {
				return nil
			}
			var g struct {
				Frame frame  `json:"frame"`
				Exp   string `json:"exp"`
			}
			if err := json.Unmarshal(raw, &g); err != nil {
				panic(err)
			}
			n := 1
			if env.Tier == "thorough" {
				n = 3
			}
			var out []json.RawMessage
			for i := 0; i < n; i++ {
				f := g.Frame
				out = append(out, fw.MustJSON(caseBeh{Kind: "frame", Frame: &f, Exp: g.Exp, Salt: env.Seed*1000003 + hashOf(raw) + int64(i)}))
			}
			return out
		},
		ExtraBeh:    extra,
		Drive:       drive,
		Parallel:    1,
		PostDrive:   postDrive,
		JudgeModule: "FramingTrace",
		JudgeCfg:    "FramingTraceX.cfg",
		SelfTest:    selfTest,
		NonTrivial:  func(t *fw.Trace) bool { return len(t.Events) >= 2 },
		Rule: "one case per hostile frame class of spec/Framing.tla (type/flag class x length-field truncation x declared-size class {0,small,16MiB,16MiB+1,2^32-1} x body availability x gzip class {ratio~1, small->just-within-limit, bomb 10x limit, bomb with forged ISIZE, bomb member + tiny member, corrupt, truncated} x payload class {empty, not JSON, JSON of another shape, well-formed, huge, 1-5 byte marker prefixes (BOMs, truncated UTF-8, gzip magic, JSON openers), null, scalar, {}, array, too deeply nested, duplicate keys, out-of-range numbers, invalid UTF-8}), concretised with seeded filler, plus seeded random byte strings and single-bit mutants of valid packets; each fed to the real ReadPacket and, when it decodes, to the real SessionManager.HandlePacket on a fresh connection. " +
			"Histories (spec/FramingRes.tla): every sequence of two frames (53 classes: body size on the wire zero / 1-3 bytes / tens of bytes / 2-4 KiB / 4-5.5 KiB / 7-8 KiB x compressed x encrypted flag x decodable or not x command handler class; frames that end in an oversize declaration or inside the length field / body) on one connection or on two successive connections, every ReadPacket call on either of two reader threads (goroutines that keep their P), followed on every connection by ReadPacket, ReadExact, ReadAvailable, ReadPacket at the end of the stream: all behaviours that end in a long probe frame or repeat a frame, a seeded sample of the rest; a repeated frame additionally as a flood of N copies on one connection or on N connections; non-trivial = ReadPacket was reached",
		Assumptions: []string{
			"allocation = runtime.MemStats.TotalAlloc delta around the call (process-wide; one call at a time, GC and background tickers covered by the 1 MiB slack); bound for ReadPacket 6 x 16 MiB + 1 MiB (DESIGN.md Appendix B), for HandlePacket 12 x 16 MiB + 1 MiB (spec/FramingTrace.tla)",
			"hang = the call has not returned after 40 s (single frames; largest legitimate case measured: well under 2 s) / the calls of one connection of a stream have not all returned after 20 s (legitimate: milliseconds) / a flood after 120 s; when a watchdog expires while a CPU probe shows this process running >= 4x slower than unloaded, the wait is extended by three more periods and a call that returns then is not a hang",
			"retained memory = live heap + goroutine stacks (HeapAlloc + StackInuse after two GCs, handler goroutines given up to 1 s to end) after the second half of a flood minus the same after the first half; judged only for floods in which every packet was refused; slack 96 KiB for 1500 (one connection: 750 connections) packets",
			"reader threads are two goroutines that take turns and busy-wait in between, so each keeps its P and its sync.Pool private slot; which P a goroutine runs on is not controlled beyond that",
			"the server is assembled in-process from the real components on memory storage, without listeners (connections = SessionManager.AcceptConnection on an in-memory reader ... CloseConnection); it is rebuilt every 150 cases"},
		TrustedBase: []string{"TLC", "spec/FramingTrace.tla as the reading of C05", "class -> bytes concretisation and MemStats measurement in drivers/c05"},
	})
}
