// C05 driver: feeds hostile pre-authentication byte streams - one per input class enumerated by TLC
// from spec/Framing.tla (Mode = "hostile") plus seeded random strings and single-byte mutations of
// valid packets - to the real stream.StreamProcessor.ReadPacket of a fresh connection accepted by a
// real session.SessionManager (real ServerAuthHandler, ServerTunnelHandler, command executor with
// the server's command handlers, BuiltinCloudControl on memory storage) and hands every decoded
// packet to the real SessionManager.HandlePacket, exactly as adapter.connectionReadLoop does.
// Each call runs alone (one goroutine at a time) under recover(), a wall-clock watchdog and a
// runtime.MemStats.TotalAlloc delta; the judge is spec/FramingTrace.tla.
package main

import (
	"bytes"
	"compress/gzip"
	"context"
	"encoding/base64"
	"encoding/binary"
	"encoding/hex"
	"encoding/json"
	"fmt"
	"hash/fnv"
	"io"
	"math/rand"
	"runtime"
	"sort"
	"strings"
	"sync"
	"time"

	"tunnox-core/internal/app/server"
	"tunnox-core/internal/cloud/factories"
	"tunnox-core/internal/cloud/managers"
	"tunnox-core/internal/cloud/repos"
	"tunnox-core/internal/cloud/services"
	"tunnox-core/internal/command"
	coreerrors "tunnox-core/internal/core/errors"
	"tunnox-core/internal/core/idgen"
	corelog "tunnox-core/internal/core/log"
	"tunnox-core/internal/core/storage"
	"tunnox-core/internal/core/types"
	"tunnox-core/internal/packet"
	"tunnox-core/internal/protocol/session"
	"tunnox-core/internal/security"
	"tunnox-core/internal/stream"
	"tunnox-core/internal/utils"
	"tunnox-core/verifharness/fw"
)

const maxBody = 16 * 1024 * 1024

// ---- server assembly (what app/server's Storage/CloudControl/Session/Security/Handlers components and
// setupConnectionCodeCommands do, without listeners) -------------------------------------------------

type srv struct {
	sm     *session.SessionManager
	cancel context.CancelFunc
}

func newServer() (*srv, error) {
	ctx, cancel := context.WithCancel(context.Background())
	st, err := storage.NewStorageFactory(ctx).CreateStorage(&storage.HybridStorageConfig{
		CacheType: "memory", EnablePersistent: false, HybridConfig: storage.DefaultHybridConfig()})
	if err != nil {
		cancel()
		return nil, err
	}
	idm := idgen.NewIDManager(st, ctx)
	repo := repos.NewRepository(st)
	cfg := managers.DefaultConfig()
	cfg.NodeID = "node-verif"
	cc := factories.NewBuiltinCloudControlWithRepo(ctx, cfg, st, repo)
	sm := session.NewSessionManager(idm, ctx)
	bf := security.NewBruteForceProtector(nil, ctx)
	ipm := security.NewIPManager(st, ctx)
	rl := security.NewRateLimiter(nil, nil, ctx)
	skm, err := security.NewSecretKeyManager(&security.SecretKeyConfig{MasterKey: base64.StdEncoding.EncodeToString(bytes.Repeat([]byte{7}, 32))})
	if err != nil {
		cancel()
		return nil, err
	}
	cc.SetSecretKeyManager(skm)
	sm.SetReconnectTokenManager(security.NewReconnectTokenManager(&security.ReconnectTokenConfig{SecretKey: "verif-reconnect-secret-0123456789abcdef", TTL: 30 * time.Second}, st))
	connCodeSvc := services.NewConnectionCodeService(repos.NewConnectionCodeRepository(repo), cc.GetPortMappingService(),
		repos.NewPortMappingRepo(repo), nil, ctx)
	httpDomainRepo := repos.NewHTTPDomainMappingRepository(repo, []string{"tunnox.net", "tunnel.test.local"})
	auth := server.NewServerAuthHandler(cc, sm, bf, ipm, rl, skm)
	sm.SetAuthHandler(auth)
	sm.SetTunnelHandler(server.NewServerTunnelHandler(cc, connCodeSvc))
	sm.SetCloudControl(session.NewCloudControlAdapter(cc))
	sm.SetNodeID(cfg.NodeID)
	tsm := session.NewTunnelStateManager(st, "")
	sm.SetTunnelStateManager(tsm)
	sm.SetMigrationManager(session.NewTunnelMigrationManager(tsm, sm))
	sm.SetTunnelRoutingTable(session.NewTunnelRoutingTable(st, 30*time.Second))
	sm.SetConnectionStateStore(session.NewConnectionStateStore(st, cfg.NodeID, 5*time.Minute))
	reg := command.NewCommandRegistry(ctx)
	ex := command.NewCommandExecutor(reg, ctx)
	ex.SetSession(sm)
	if err := sm.SetCommandExecutor(ex); err != nil {
		cancel()
		return nil, err
	}
	for _, h := range []interface {
		RegisterHandlers(*command.CommandRegistry) error
	}{server.NewConnectionCodeCommandHandlers(connCodeSvc, sm), server.NewConfigCommandHandlers(auth, sm),
		server.NewMappingCommandHandlers(connCodeSvc, sm), server.NewHTTPDomainCommandHandlers(sm, httpDomainRepo)} {
		if err := h.RegisterHandlers(reg); err != nil {
			cancel()
			return nil, err
		}
	}
	return &srv{sm: sm, cancel: cancel}, nil
}

var (
	theSrv   *srv
	srvUses  int
	srvMutex sync.Mutex
)

// server returns the shared assembly; it is rebuilt every 150 cases so that state accumulated by
// earlier hostile inputs (failed-handshake counters, anonymous clients) stays small.
func getServer() (*srv, error) {
	srvMutex.Lock()
	defer srvMutex.Unlock()
	if theSrv == nil || srvUses >= 150 {
		if theSrv != nil {
			theSrv.cancel()
		}
		s, err := newServer()
		if err != nil {
			return nil, err
		}
		theSrv, srvUses = s, 0
	}
	srvUses++
	return theSrv, nil
}

// ---- hostile input classes -> bytes ----------------------------------------------------------------

type frame struct {
	K   string `json:"k"`
	Z   bool   `json:"z"`
	E   bool   `json:"e"`
	Hdr int    `json:"hdr"`
	Sc  string `json:"sc"`
	Av  int    `json:"av"`
	Gz  string `json:"gz"`
	Pay string `json:"pay"`
	Raw string `json:"raw,omitempty"` // pay = "short": the body content in hex (else picked seeded from shortBodies)
}
type caseBeh struct {
	Kind  string `json:"kind"` // frame | random | mutant
	Frame *frame `json:"frame,omitempty"`
	Exp   string `json:"exp,omitempty"` // outcome of ReadPacket predicted by the contract model
	Salt  int64  `json:"salt"`
	N     int    `json:"n,omitempty"`     // random: length; mutant: byte offset class
	Field string `json:"field,omitempty"` // mutant: type | len | body
}

func (f *frame) class() string {
	s := fmt.Sprintf("k=%s:z=%v:e=%v:hdr=%d:sc=%s:av=%d:gz=%s:pay=%s", f.K, f.Z, f.E, f.Hdr, f.Sc, f.Av, f.Gz, f.Pay)
	if f.Raw != "" {
		s += "=" + f.Raw
	}
	return s
}

var (
	cacheMu sync.Mutex
	cache   = map[string][]byte{}
)

func cached(key string, mk func() []byte) []byte {
	cacheMu.Lock()
	b, ok := cache[key]
	cacheMu.Unlock()
	if ok {
		return b
	}
	b = mk() // may itself use the cache
	cacheMu.Lock()
	cache[key] = b
	cacheMu.Unlock()
	return b
}

var cmdTypes = []int{10, 11, 12, 13, 14, 15, 20, 23, 25, 30, 35, 36, 37, 38, 40, 43, 44, 50, 51, 52, 54, 60, 63, 70, 71, 72, 73, 74, 75, 76,
	80, 81, 82, 83, 84, 85, 86, 87, 90, 100, 101, 102, 110, 120, 121, 0, 7, 99, 200, 255}

var bodies = []string{``, `{}`, `null`, `[]`, `"x"`, `{"a":`, `{"mapping_id":"m1","tunnel_id":"t1","client_id":7,"target_client_id":8}`,
	`{"code":"abc-def-ghi","target_address":"tcp://127.0.0.1:80","duration":3600}`, `{"request_id":"r1","domain":"example.com","qtype":1}`,
	`{"subdomain":"a","base_domain":"tunnox.net","target_url":"http://127.0.0.1:1"}`, `{"tunnel_id":"t","mapping_id":"m","bytes_sent":-1,"bytes_received":99999999999}`,
	`{"request_id":"x","status_code":200,"headers":null,"body":"AAAA"}`, `{"target_client_id":1,"target_host":"h","target_port":70000,"mapping_id":"m"}`}

// goodJSON is a well-formed body of the shape the kind's handler expects.
func goodJSON(k string, r *rand.Rand) []byte {
	switch k {
	case "CMD", "RESP":
		b, _ := json.Marshal(packet.CommandPacket{CommandType: packet.CommandType(cmdTypes[r.Intn(len(cmdTypes))]), CommandId: fmt.Sprintf("c%d", r.Intn(1000)),
			Token: "t", SenderId: fmt.Sprint(r.Intn(3)), ReceiverId: fmt.Sprint(r.Intn(3)), CommandBody: bodies[r.Intn(len(bodies))]})
		return b
	case "HS":
		reqs := []packet.HandshakeRequest{{ClientID: 0, Token: "new-client", Version: "3", Protocol: "tcp"}, {ClientID: 12345678, Version: "3", Protocol: "tcp"},
			{ClientID: -1, Version: "x", Protocol: "quic", ConnectionType: "tunnel"}, {ClientID: 12345678, ChallengeResponse: "deadbeef", ConnectionType: "control"},
			{ClientID: 9223372036854775807, Token: "anonymous:x", ConnectionType: "tunnel", ChallengeResponse: strings.Repeat("f", 64)}}
		b, _ := json.Marshal(reqs[r.Intn(len(reqs))])
		return b
	case "TOPEN":
		reqs := []packet.TunnelOpenRequest{{MappingID: "m1", TunnelID: "t1"}, {TunnelID: "t2", SecretKey: "k"}, {ResumeToken: "garbage.token", TunnelID: "t3"},
			{MappingID: "", TunnelID: ""}, {MappingID: "m", TunnelID: "t", TargetHost: "h", TargetPort: -1, TargetNetwork: "udp"}}
		b, _ := json.Marshal(reqs[r.Intn(len(reqs))])
		return b
	}
	return []byte(`{"tunnel_id":"t1","success":true}`)
}

var wrongJSON = []string{`[1,2,3]`, `"just a string"`, `123`, `null`, `true`, `{"CommandType":"x","CommandBody":5}`, `{"client_id":"seven","version":3}`,
	`{"mapping_id":1,"tunnel_id":{},"target_port":"p"}`, `[[[[[[[[[[[[[[[[[[[[[[[[[[[[[[[[]]]]]]]]]]]]]]]]]]]]]]]]]]]]]]]]`, `{"CommandType":1e400}`, `{"client_id":1e30}`}

var wrongCmdJSON = []string{`[1,2,3]`, `"just a string"`, `123`, `true`, `{"CommandType":"x","CommandBody":5}`, `{"CommandType":1e400}`,
	`{"CommandId":7}`, `[[[[[[[[[[[[[[[[[[[[[[[[[[[[[[[[]]]]]]]]]]]]]]]]]]]]]]]]]]]]]]]]`}

// JSON edge forms (payload classes null, scalar, emptyobj, array, nested, dupkeys, bignum, badutf8)
var edgeForms = map[string][]string{
	"null":     {`null`, ` null `, "\n\tnull\r\n"},
	"scalar":   {`true`, `0`, `"str"`, `false`, `-1.5e3`, `""`},
	"emptyobj": {`{}`, ` { } `},
	"array":    {`[]`, `[{}]`, `[null]`, `[[],{}]`},
}

func edgeJSON(k, pay string, r *rand.Rand) []byte {
	if fs, ok := edgeForms[pay]; ok {
		return []byte(fs[r.Intn(len(fs))])
	}
	switch pay {
	case "nested": // deeper than encoding/json's limit of 10000, closed or not, arrays or objects
		n := 10001 + r.Intn(3000)
		switch r.Intn(3) {
		case 0:
			return []byte(strings.Repeat("[", n))
		case 1:
			return []byte(strings.Repeat("[", n) + strings.Repeat("]", n))
		default:
			return []byte(strings.Repeat(`{"a":`, n) + "1" + strings.Repeat("}", n))
		}
	case "dupkeys":
		switch k {
		case "CMD", "RESP":
			return []byte(`{"CommandType":10,"CommandType":11,"CommandBody":"{}","CommandBody":"x","CommandId":"a","CommandId":"b"}`)
		case "HS":
			return []byte(`{"client_id":1,"client_id":0,"token":"a","token":"new-client","connection_type":"tunnel","connection_type":"control"}`)
		default:
			return []byte(`{"tunnel_id":"a","tunnel_id":"b","mapping_id":"m","mapping_id":"n","resume_token":"x","resume_token":""}`)
		}
	case "bignum":
		switch k {
		case "CMD", "RESP":
			return []byte([]string{`{"CommandType":1e400}`, `{"CommandType":99999999999999999999}`, `{"CommandType":-1}`, `{"CommandType":256}`}[r.Intn(4)])
		case "HS":
			return []byte([]string{`{"client_id":1e400}`, `{"client_id":123456789012345678901234567890}`, `{"client_id":-9223372036854775809}`, `{"client_id":1.5}`}[r.Intn(4)])
		default:
			return []byte([]string{`{"tunnel_id":"t","target_port":1e400}`, `{"tunnel_id":"t","target_port":99999999999999999999}`, `{"mapping_id":"m","target_port":-2147483649}`}[r.Intn(3)])
		}
	case "badutf8":
		switch k {
		case "CMD", "RESP":
			return []byte("{\"CommandType\":10,\"CommandId\":\"\xff\xfe\",\"CommandBody\":\"\xc0\xaf\xed\xa0\x80\"}")
		case "HS":
			return []byte("{\"client_id\":0,\"token\":\"\xff\xfenew-client\",\"version\":\"\xc0\xaf\"}")
		default:
			return []byte("{\"tunnel_id\":\"\xff\xfe\",\"mapping_id\":\"\xc0\xaf\",\"resume_token\":\"\xed\xa0\x80\"}")
		}
	}
	return nil
}

// shortBodies: 1..5 byte bodies whose VALUES matter to decoders - prefixes of multi-byte markers
var shortBodies = []string{
	"ef", "efbb", "efbbbf", "efbbbf7b", "efbbbf7b7d", // UTF-8 BOM and its prefixes, BOM + "{", BOM + "{}"
	"feff", "fffe", "fffe0000", "0000feff", // UTF-16 / UTF-32 BOMs
	"c3", "e2", "e282", "f0", "f09f", "f09f98", "eda080", "c0af", "80", // truncated / invalid UTF-8 sequences
	"1f", "1f8b", "1f8b08", "1f8b0800", // gzip magic prefixes
	"7b", "5b", "22", "2d", "74", "6e", "66", "7b22", "5b5b", "2230", "6e75", "6e756c", "747275", "2d30", "7b7d00", // JSON openers and prefixes of literals
	"00", "0000", "000000", "ff", "ffff", "ffffff", "ffffffffff", "0a", "20", "2020", "5c", "225c", "225c75", // NUL, FF, white space, escapes
}

func (f *frame) short(r *rand.Rand) []byte {
	h := f.Raw
	if h == "" {
		h = shortBodies[r.Intn(len(shortBodies))]
	}
	b, err := hex.DecodeString(h)
	if err != nil {
		panic(err)
	}
	return b
}

// content builds the (uncompressed) body content of class pay at exactly n bytes (n < 0: natural size).
func content(k, pay string, n int, r *rand.Rand) []byte {
	var b []byte
	switch pay {
	case "empty":
		return nil
	case "null", "scalar", "emptyobj", "array", "nested", "dupkeys", "bignum", "badutf8":
		return edgeJSON(k, pay, r)
	case "bad":
		b = append([]byte{0x00, 0xff, '{', '{', '"'}, []byte("not json at all \x01\x02")...)
		if n > len(b) {
			fill := cached(fmt.Sprintf("rnd:%d", n), func() []byte { x := make([]byte, n); rand.New(rand.NewSource(int64(n))).Read(x); return x })
			out := make([]byte, n)
			copy(out, fill)
			copy(out, b)
			return out
		}
	case "wrong":
		b = []byte(wrongJSON[r.Intn(len(wrongJSON))])
		if k == "CMD" || k == "RESP" { // must not fit a CommandPacket (null and objects with foreign members would)
			b = []byte(wrongCmdJSON[r.Intn(len(wrongCmdJSON))])
		}
		if n > len(b) { // a long valid array of numbers
			out := bytes.Repeat([]byte("0,"), n/2+1)[:n]
			out[0] = '['
			out[n-2] = '0'
			out[n-1] = ']'
			return out
		}
	case "good":
		b = goodJSON(k, r)
		if n > len(b) { // JSON allows trailing white space
			out := bytes.Repeat([]byte(" "), n)
			copy(out, b)
			return out
		}
	case "huge": // one huge string member, right shape for the kind, no escapes
		var head string
		switch k {
		case "CMD", "RESP":
			head = fmt.Sprintf(`{"CommandType":%d,"CommandId":"h","CommandBody":"`, cmdTypes[r.Intn(len(cmdTypes))])
		case "HS":
			head = `{"client_id":0,"token":"new-client","version":"`
		default:
			head = `{"mapping_id":"m","tunnel_id":"`
		}
		if n < len(head)+2 {
			n = len(head) + 2
		}
		out := bytes.Repeat([]byte("a"), n)
		copy(out, head)
		out[n-2] = '"'
		out[n-1] = '}'
		return out
	}
	if n >= 0 && n < len(b) {
		b = b[:n]
	}
	return b
}

func gz(level int, data []byte) []byte {
	var buf bytes.Buffer
	w, _ := gzip.NewWriterLevel(&buf, level)
	w.Write(data)
	w.Close()
	return buf.Bytes()
}

// storedSize = size of gzip(level NoCompression) output for n input bytes
func storedSize(n int) int { return len(gz(gzip.NoCompression, make([]byte, n))) }

var inAtMax = sync.OnceValue(func() int { // input size whose stored-gzip encoding is exactly maxBody bytes (or just below)
	n := maxBody - 18 - 5*(maxBody/65535+1)
	for storedSize(n+1) <= maxBody {
		n++
	}
	for storedSize(n) > maxBody {
		n--
	}
	return n
})

// body returns the bytes that follow the length field and the declared length.
func (f *frame) body(r *rand.Rand) (body []byte, declared uint32) {
	switch f.Sc {
	case "0":
		return nil, 0
	case "OVER", "U32":
		declared = maxBody + 1
		if f.Sc == "U32" {
			declared = 0xFFFFFFFF
		}
		if f.Av == 1 {
			body = content(f.K, "bad", 1024, r)
		}
		return body, declared
	}
	var full []byte
	size := -1
	if f.Sc == "MAX" {
		size = maxBody
	}
	switch {
	case f.Pay == "short" && f.Av == 2:
		full = f.short(r)
		if f.Z {
			full = gz(gzip.BestSpeed, full)
		}
	case f.Av < 2: // truncated body: content does not matter
		if size < 0 {
			size = 600
		}
		full = content(f.K, "bad", size, r)
	case !f.Z:
		full = content(f.K, f.Pay, size, r)
		if len(full) == 0 {
			full = []byte{' '}
		}
	default:
		switch f.Gz {
		case "ok": // output about as large as the input
			if f.Sc == "MAX" {
				key := fmt.Sprintf("gzok:%s:%s", f.K, f.Pay)
				if f.Pay == "bad" || f.Pay == "wrong" {
					key = "gzok:" + f.Pay
				}
				full = cached(key, func() []byte { return gz(gzip.NoCompression, content(f.K, f.Pay, inAtMax(), r)) })
			} else {
				full = gz(gzip.BestSpeed, content(f.K, f.Pay, -1, r))
			}
		case "big": // small input, output just within the limit
			n := maxBody
			if f.Pay == "huge" {
				n = maxBody - 1000
			}
			full = cached(fmt.Sprintf("gzbig:%s:%s", f.K, f.Pay), func() []byte {
				c := content(f.K, f.Pay, n, r)
				if f.Pay == "bad" {
					c = make([]byte, n)
				}
				return gz(gzip.BestCompression, c)
			})
		case "bomb": // 10 x the limit of zero bytes from ~160 KB
			full = cached("gzbomb", func() []byte { return gz(gzip.BestCompression, make([]byte, 10*maxBody)) })
			if f.Sc == "MAX" { // the same member inside a maximum-size body (trailing garbage is never reached)
				full = cached("gzbomb:max", func() []byte {
					out := content(f.K, "bad", maxBody, r)
					out = append([]byte(nil), out...)
					copy(out, cached("gzbomb", nil))
					return out
				})
			}
		case "forged": // the bomb's deflate stream, but the ISIZE trailer claims 100 bytes
			full = cached("gzforged", func() []byte {
				out := append([]byte(nil), cached("gzbomb", func() []byte { return gz(gzip.BestCompression, make([]byte, 10*maxBody)) })...)
				binary.LittleEndian.PutUint32(out[len(out)-4:], 100)
				return out
			})
			if f.Sc == "MAX" { // padded in front with a stored-block member up to a maximum-size body
				full = cached("gzforged:max", func() []byte { return padFront(cached("gzforged", nil)) })
			}
		case "multi": // a member inflating to 10 x the limit followed by a tiny member (its ISIZE is the last trailer)
			full = cached("gzmulti", func() []byte {
				big := cached("gzbomb", func() []byte { return gz(gzip.BestCompression, make([]byte, 10*maxBody)) })
				return append(append([]byte(nil), big...), gz(gzip.BestCompression, []byte("tiny"))...)
			})
			if f.Sc == "MAX" { // padded in front with stored-block members up to a maximum-size body
				full = cached("gzmulti:max", func() []byte { return padFront(cached("gzmulti", nil)) })
			}
		case "corrupt":
			full = append([]byte(nil), gz(gzip.BestSpeed, content(f.K, "good", -1, r))...)
			switch r.Intn(3) {
			case 0:
				full[0] ^= 0xff // magic
			case 1:
				full[len(full)/2] ^= 0x5a // deflate data
			default:
				full[len(full)-6] ^= 0x01 // crc
			}
			if f.Sc == "MAX" {
				out := append([]byte(nil), content(f.K, "bad", maxBody, r)...)
				copy(out, full)
				full = out
			}
		case "trunc":
			g := gz(gzip.BestSpeed, content(f.K, "good", 300, r))
			full = g[:len(g)/2]
			if f.Sc == "MAX" {
				full = cached("gztrunc:max", func() []byte {
					g := gz(gzip.NoCompression, content(f.K, "bad", maxBody+70000, r))
					return append([]byte(nil), g[:maxBody]...)
				})
			}
		default:
			full = content(f.K, "bad", 600, r)
		}
	}
	declared = uint32(len(full))
	switch f.Av {
	case 0:
		return nil, declared
	case 1:
		return full[:len(full)/2], declared
	}
	return full, declared
}

// padFront returns a body of exactly maxBody bytes: one gzip member of stored zero blocks (its header
// name absorbs the rounding) followed by tail, i.e. a well-formed multi-member stream ending in tail.
func padFront(tail []byte) []byte {
	want := maxBody - len(tail)
	n := want - 18 - 5*(want/65535+1)
	for storedSize(n+1) <= want-2 {
		n++
	}
	for storedSize(n) > want-2 {
		n--
	}
	var buf bytes.Buffer
	w, _ := gzip.NewWriterLevel(&buf, gzip.NoCompression)
	w.Name = strings.Repeat("p", want-storedSize(n)-1)
	w.Write(make([]byte, n))
	w.Close()
	if buf.Len() != want {
		panic(fmt.Sprintf("padFront: %d != %d", buf.Len(), want))
	}
	return append(buf.Bytes(), tail...)
}

var unkTypes = []byte{0x00, 0x04, 0x0f, 0x12, 0x1f, 0x25, 0x30, 0x3f}
var otherPay = []byte{byte(packet.HandshakeResp), byte(packet.TunnelOpenAck), byte(packet.TunnelData), byte(packet.TunnelClose), byte(packet.DataStreamEOF)}

func (f *frame) typeByte(r *rand.Rand) byte {
	var t byte
	switch f.K {
	case "HB":
		t = byte(packet.Heartbeat)
	case "CMD":
		t = byte(packet.JsonCommand)
	case "RESP":
		t = byte(packet.CommandResp)
	case "HS":
		t = byte(packet.Handshake)
	case "TOPEN":
		t = byte(packet.TunnelOpen)
	case "PAY":
		t = otherPay[r.Intn(len(otherPay))]
	default:
		t = unkTypes[r.Intn(len(unkTypes))]
	}
	if f.Z {
		t |= byte(packet.Compressed)
	}
	if f.E {
		t |= byte(packet.Encrypted)
	}
	return t
}

func (f *frame) bytes(r *rand.Rand) []byte {
	out := []byte{f.typeByte(r)}
	if f.K == "HB" {
		return out
	}
	body, declared := f.body(r)
	var l [4]byte
	binary.BigEndian.PutUint32(l[:], declared)
	out = append(out, l[:f.Hdr]...)
	if f.Hdr < 4 {
		return out
	}
	return append(out, body...)
}

// validPacket encodes a well-formed packet with the real writer (basis for mutants).
func validPacket(r *rand.Rand) ([]byte, string) {
	kinds := []string{"CMD", "RESP", "HS", "TOPEN", "PAY"}
	k := kinds[r.Intn(len(kinds))]
	f := &frame{K: k}
	var buf bytes.Buffer
	ctx, cancel := context.WithCancel(context.Background())
	defer cancel()
	sp := stream.NewStreamProcessor(bytes.NewReader(nil), &buf, ctx)
	defer sp.Close()
	p := &packet.TransferPacket{PacketType: packet.Type(f.typeByte(r))}
	if k == "CMD" || k == "RESP" {
		var cp packet.CommandPacket
		json.Unmarshal(goodJSON(k, r), &cp)
		p.CommandPacket = &cp
	} else {
		p.Payload = goodJSON(k, r)
	}
	z := r.Intn(2) == 0
	sp.WritePacket(p, z, 0)
	return append([]byte(nil), buf.Bytes()...), fmt.Sprintf("%s:z=%v", k, z)
}

// ---- one measured call ------------------------------------------------------------------------------

type callResult struct {
	panicked bool
	timedOut bool
	allocKiB int64
	panicMsg string
	dur      time.Duration
}

func measured(wd time.Duration, f func()) callResult {
	var res callResult
	done := make(chan struct{})
	var before, after runtime.MemStats
	runtime.ReadMemStats(&before)
	start := time.Now()
	go func() {
		defer close(done)
		defer func() {
			if x := recover(); x != nil {
				res.panicked = true
				res.panicMsg = fmt.Sprint(x)
			}
		}()
		f()
	}()
	select {
	case <-done:
	case <-time.After(wd):
		res.timedOut = true
	}
	res.dur = time.Since(start)
	runtime.ReadMemStats(&after)
	res.allocKiB = int64((after.TotalAlloc - before.TotalAlloc) / 1024)
	return res
}

type sink struct{ n int }

func (s *sink) Write(p []byte) (int, error) { s.n += len(p); return len(p), nil }

func drive(env *fw.Env, b fw.Behaviour) *fw.Trace {
	var c caseBeh
	if err := json.Unmarshal(b.Data, &c); err != nil {
		return &fw.Trace{Status: fw.DriverError, Note: err.Error()}
	}
	r := rand.New(rand.NewSource(c.Salt))
	var data []byte
	var cls string
	switch c.Kind {
	case "frame":
		data = c.Frame.bytes(r)
		cls = c.Frame.class()
	case "random":
		data = make([]byte, c.N)
		r.Read(data)
		cls = fmt.Sprintf("random:len=%d", c.N)
	case "mutant":
		var what string
		data, what = validPacket(r)
		off := 0
		switch c.Field {
		case "len":
			off = 1 + r.Intn(4)
		case "body":
			off = 5 + r.Intn(len(data)-5)
		}
		if off < len(data) {
			data[off] ^= byte(1 << uint(r.Intn(8)))
		}
		if c.N == 1 { // and cut the stream somewhere
			data = data[:r.Intn(len(data)+1)]
		}
		cls = fmt.Sprintf("mutant:%s:%s:cut=%d", what, c.Field, c.N)
	default:
		return &fw.Trace{Status: fw.DriverError, Note: "kind?"}
	}
	s, err := getServer()
	if err != nil {
		return &fw.Trace{Status: fw.DriverError, Note: "server assembly: " + err.Error()}
	}
	out := &sink{}
	sc, err := s.sm.AcceptConnection(bytes.NewReader(data), out)
	if err != nil {
		return &fw.Trace{Status: fw.DriverError, Note: "AcceptConnection: " + err.Error()}
	}
	defer func() { _ = s.sm.CloseConnection(sc.ID) }()
	wd := 40 * time.Second
	t := &fw.Trace{Status: fw.Realised}
	t.Events = append(t.Events, fw.Event{"ev": "Case", "cls": cls, "exp": c.Exp, "bytes": len(data)})
	runtime.GC()
	for i := 0; i < 4; i++ { // adapter.connectionReadLoop
		var pkt *packet.TransferPacket
		var rerr error
		res := measured(wd, func() { pkt, _, rerr = sc.Stream.ReadPacket() })
		ev := fw.Event{"ev": "Read", "panicked": res.panicked, "timedOut": res.timedOut, "allocKiB": res.allocKiB, "ms": res.dur.Milliseconds(), "bodyKiB": 0}
		switch {
		case res.panicked:
			ev["outcome"], ev["msg"] = "None", res.panicMsg
		case res.timedOut:
			ev["outcome"] = "None"
		case rerr != nil:
			ev["outcome"], ev["msg"] = "Error", trunc(rerr.Error())
		default:
			ev["outcome"] = "Packet"
			ev["type"] = int(pkt.PacketType)
			n := len(pkt.Payload)
			if pkt.CommandPacket != nil {
				n += len(pkt.CommandPacket.CommandBody)
			}
			ev["bodyKiB"] = (n + 1023) / 1024
		}
		t.Events = append(t.Events, ev)
		if ev["outcome"] != "Packet" {
			break
		}
		var herr error
		sp := &types.StreamPacket{ConnectionID: sc.ID, Packet: pkt, Timestamp: time.Now()}
		res = measured(wd, func() { herr = s.sm.HandlePacket(sp) })
		ev = fw.Event{"ev": "Dispatch", "panicked": res.panicked, "timedOut": res.timedOut, "allocKiB": res.allocKiB, "ms": res.dur.Milliseconds(), "replied": out.n}
		switch {
		case res.panicked:
			ev["outcome"], ev["msg"] = "None", res.panicMsg
		case res.timedOut:
			ev["outcome"] = "None"
		case herr != nil:
			ev["outcome"], ev["msg"] = "Error", trunc(herr.Error())
		default:
			ev["outcome"] = "Reply"
		}
		t.Events = append(t.Events, ev)
		if res.panicked || res.timedOut || (herr != nil && coreerrors.IsCode(herr, coreerrors.CodeTunnelModeSwitch)) {
			break
		}
	}
	return t
}

func trunc(s string) string {
	if len(s) > 160 {
		return s[:160]
	}
	return s
}

// ---- wiring -----------------------------------------------------------------------------------------

func hashOf(b []byte) int64 {
	h := fnv.New64a()
	h.Write(b)
	return int64(h.Sum64() >> 1)
}

func extra(env *fw.Env) []json.RawMessage {
	var out []json.RawMessage
	add := func(c caseBeh) { out = append(out, fw.MustJSON(c)) }
	// classes every run must contain whatever the sampling picked
	for _, f := range []frame{
		{K: "PAY", Z: true, Hdr: 4, Sc: "S", Av: 2, Gz: "bomb", Pay: "bad"},
		{K: "CMD", Z: true, Hdr: 4, Sc: "S", Av: 2, Gz: "bomb", Pay: "bad"},
		{K: "HS", Z: true, Hdr: 4, Sc: "S", Av: 2, Gz: "big", Pay: "huge"},
		{K: "CMD", Z: true, Hdr: 4, Sc: "MAX", Av: 2, Gz: "ok", Pay: "huge"},
		{K: "CMD", Hdr: 4, Sc: "MAX", Av: 2, Gz: "na", Pay: "huge"},
		{K: "TOPEN", Hdr: 4, Sc: "U32", Av: 1, Gz: "na", Pay: "bad"},
		{K: "HS", Hdr: 4, Sc: "OVER", Av: 0, Gz: "na", Pay: "bad"},
		{K: "HS", Hdr: 2, Sc: "0", Gz: "na", Pay: "empty"},
		{K: "PAY", Z: true, Hdr: 4, Sc: "S", Av: 2, Gz: "forged", Pay: "bad"},
		{K: "CMD", Z: true, Hdr: 4, Sc: "S", Av: 2, Gz: "forged", Pay: "bad"},
		{K: "PAY", Z: true, Hdr: 4, Sc: "S", Av: 2, Gz: "multi", Pay: "bad"},
		{K: "HS", Z: true, Hdr: 4, Sc: "S", Av: 2, Gz: "multi", Pay: "bad"},
		{K: "TOPEN", Z: true, Hdr: 4, Sc: "MAX", Av: 2, Gz: "multi", Pay: "bad"},
	} {
		f := f
		add(caseBeh{Kind: "frame", Frame: &f, Salt: env.Seed})
	}
	// every JSON edge form for every dispatched kind (small, uncompressed; null also compressed), several seeds each
	for _, k := range []string{"HS", "TOPEN", "CMD", "RESP", "PAY"} {
		for _, pay := range []string{"null", "scalar", "emptyobj", "array", "nested", "dupkeys", "bignum", "badutf8"} {
			for v := 0; v < 3; v++ {
				f := frame{K: k, Hdr: 4, Sc: "S", Av: 2, Gz: "na", Pay: pay}
				if v == 2 && (pay == "null" || pay == "emptyobj") {
					f.Z, f.Gz = true, "ok"
				}
				add(caseBeh{Kind: "frame", Frame: &f, Salt: env.Seed*31 + int64(v)})
			}
		}
	}
	// every short body for every kind, raw and gzip-compressed
	for _, k := range []string{"CMD", "RESP", "HS", "TOPEN", "PAY", "UNK"} {
		for _, z := range []bool{false, true} {
			for _, h := range shortBodies {
				f := frame{K: k, Z: z, Hdr: 4, Sc: "S", Av: 2, Gz: "na", Pay: "short", Raw: h}
				if z {
					f.Gz = "ok"
				}
				add(caseBeh{Kind: "frame", Frame: &f, Salt: env.Seed})
			}
		}
	}
	nr, nm := 40, 90
	if env.Tier == "thorough" {
		nr, nm = 400, 1500
	}
	r := rand.New(rand.NewSource(env.Seed ^ 0x5eed))
	lens := []int{0, 1, 2, 4, 5, 6, 64, 1000, 4096, 70000}
	for i := 0; i < nr; i++ {
		add(caseBeh{Kind: "random", N: lens[i%len(lens)], Salt: r.Int63()})
	}
	fields := []string{"type", "len", "body"}
	for i := 0; i < nm; i++ {
		add(caseBeh{Kind: "mutant", Field: fields[i%3], N: (i / 3) % 2, Salt: r.Int63()})
	}
	return out
}

func selfTest(env *fw.Env, acc []*fw.Trace) []*fw.Trace {
	var out []*fw.Trace
	id := 9000000
	clone := func(t *fw.Trace) *fw.Trace {
		c := &fw.Trace{Status: t.Status, Beh: t.Beh}
		id++
		c.Beh.ID = id
		for _, e := range t.Events {
			ne := fw.Event{}
			for k, v := range e {
				ne[k] = v
			}
			c.Events = append(c.Events, ne)
		}
		return c
	}
	n := 0
	for _, t := range acc {
		if n >= 4 || len(t.Events) < 3 || t.Events[2]["ev"] != "Dispatch" {
			continue
		}
		n++
		for _, m := range []func(c *fw.Trace){
			func(c *fw.Trace) { c.Events[1]["panicked"] = true },
			func(c *fw.Trace) { c.Events[2]["panicked"] = true },
			func(c *fw.Trace) { c.Events[1]["timedOut"] = true },
			func(c *fw.Trace) { c.Events[2]["timedOut"] = true },
			func(c *fw.Trace) { c.Events[1]["allocKiB"] = int64(6*16384 + 1024 + 1) },
			func(c *fw.Trace) { c.Events[2]["allocKiB"] = int64(12*16384 + 1024 + 1) },
			func(c *fw.Trace) { c.Events[1]["outcome"] = "Reply" },
			func(c *fw.Trace) { c.Events[1]["bodyKiB"] = 16385 },
			func(c *fw.Trace) { c.Events[2]["outcome"] = "Packet" },
			func(c *fw.Trace) { c.Events = c.Events[:1] }, // no report at all
		} {
			c := clone(t)
			m(c)
			out = append(out, c)
		}
	}
	return out
}

// postDrive reports (informational, never a verdict) where the real ReadPacket outcome differs from
// the outcome the contract model (Framing.tla, Dev = {}) predicts for the class.
func postDrive(env *fw.Env, traces []*fw.Trace) error {
	total, same := 0, 0
	div := map[string]int{}
	for _, t := range traces {
		if t.Status != fw.Realised || len(t.Events) < 2 {
			continue
		}
		exp, _ := t.Events[0]["exp"].(string)
		if exp == "" {
			continue
		}
		total++
		if t.Events[1]["outcome"] == exp {
			same++
		} else {
			div[fmt.Sprintf("%v: model %s, code %v", t.Events[0]["cls"], exp, t.Events[1]["outcome"])]++
		}
	}
	fmt.Printf("[bind] ReadPacket outcome as predicted by the contract model for %d of %d frame classes\n", same, total)
	keys := make([]string, 0, len(div))
	for k := range div {
		keys = append(keys, k)
	}
	sort.Strings(keys)
	for i, k := range keys {
		if i >= 12 {
			fmt.Printf("[bind]   ... and %d more\n", len(keys)-i)
			break
		}
		fmt.Printf("[bind]   divergence %s\n", k)
	}
	return nil
}

func main() {
	corelog.SetDefault(corelog.NewNopLogger())
	if utils.Logger != nil {
		utils.Logger.SetOutput(io.Discard)
	}
	fw.Main(&fw.Property{
		ID:        "C05",
		DesignRef: "DESIGN.md §5 C05",
		ModelJobs: func(env *fw.Env) []fw.TLCJob {
			all := `{"shortHeader", "emptyNoLen", "unboundedInflate"}`
			return []fw.TLCJob{
				{Name: "mc:hostile-contract", Module: "Framing", Cfg: "Framing_hostile.cfg", Consts: map[string]string{"DEV": "{}", "ALLOC": "AllocBound"}},
				{Name: "mc:hostile-as-found", Module: "Framing", Cfg: "Framing_hostile.cfg", Consts: map[string]string{"DEV": all, "ALLOC": "AllocBoundOrDev"}},
			}
		},
		GenJobs: func(env *fw.Env) []fw.TLCJob {
			return []fw.TLCJob{{Name: "gen:hostile-frames", Module: "Framing", Cfg: "Framing_genx.cfg", Workers: 4}}
		},
		MaxBeh: func(env *fw.Env) int {
			if env.Tier == "thorough" {
				return 0
			}
			return 260
		},
		Expand: func(env *fw.Env, src string, raw json.RawMessage) []json.RawMessage {
			var g struct {
				Frame frame  `json:"frame"`
				Exp   string `json:"exp"`
			}
			if err := json.Unmarshal(raw, &g); err != nil {
				panic(err)
			}
			n := 1
			if env.Tier == "thorough" {
				n = 3
			}
			var out []json.RawMessage
			for i := 0; i < n; i++ {
				f := g.Frame
				out = append(out, fw.MustJSON(caseBeh{Kind: "frame", Frame: &f, Exp: g.Exp, Salt: env.Seed*1000003 + hashOf(raw) + int64(i)}))
			}
			return out
		},
		ExtraBeh:    extra,
		Drive:       drive,
		Parallel:    1,
		PostDrive:   postDrive,
		JudgeModule: "FramingTrace",
		JudgeCfg:    "FramingTraceX.cfg",
		SelfTest:    selfTest,
		NonTrivial:  func(t *fw.Trace) bool { return len(t.Events) >= 2 },
		Rule:        "one case per hostile frame class of spec/Framing.tla (type/flag class x length-field truncation x declared-size class {0,small,16MiB,16MiB+1,2^32-1} x body availability x gzip class {ratio~1, small->just-within-limit, bomb 10x limit, bomb with forged ISIZE, bomb member + tiny member, corrupt, truncated} x payload class {empty, not JSON, JSON of another shape, well-formed, huge, 1-5 byte marker prefixes (BOMs, truncated UTF-8, gzip magic, JSON openers), null, scalar, {}, array, too deeply nested, duplicate keys, out-of-range numbers, invalid UTF-8}), concretised with seeded filler, plus seeded random byte strings and single-bit mutants of valid packets; each fed to the real ReadPacket and, when it decodes, to the real SessionManager.HandlePacket on a fresh connection; non-trivial = ReadPacket was reached",
		Assumptions: []string{
			"allocation = runtime.MemStats.TotalAlloc delta around the call (process-wide; one call at a time, GC and background tickers covered by the 1 MiB slack); bound for ReadPacket 6 x 16 MiB + 1 MiB (DESIGN.md Appendix B), for HandlePacket 12 x 16 MiB + 1 MiB (spec/FramingTrace.tla)",
			"hang = the call has not returned after 40 s (largest legitimate case measured: well under 2 s)",
			"memory retained after the call is not measured; handlers' goroutines (config push) run outside the measured window",
			"the server is assembled in-process from the real components on memory storage, without listeners; it is rebuilt every 150 cases"},
		TrustedBase: []string{"TLC", "spec/FramingTrace.tla as the reading of C05", "class -> bytes concretisation and MemStats measurement in drivers/c05"},
	})
}
