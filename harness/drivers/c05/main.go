// C05 driver: feeds hostile pre-authentication byte streams - one per input class enumerated by TLC
// from spec/Framing.tla (Mode = "hostile") plus seeded random strings and single-byte mutations of
// valid packets - to the real stream.StreamProcessor.ReadPacket of a fresh connection accepted by a
// real session.SessionManager (real ServerAuthHandler, ServerTunnelHandler, command executor with
// the server's command handlers, BuiltinCloudControl on memory storage) and hands every decoded
// packet to the real SessionManager.HandlePacket, exactly as adapter.connectionReadLoop does.
// Each call runs alone (one goroutine at a time) under recover(), a wall-clock watchdog and a
// runtime.MemStats.TotalAlloc delta; the judge is spec/FramingTrace.tla.
package main

import (
	"bytes"
	"compress/gzip"
	"context"
	"encoding/base64"
	"encoding/binary"
	"encoding/hex"
	"encoding/json"
	"fmt"
	"hash/fnv"
	"io"
	"math/rand"
	"runtime"
	"sort"
	"strings"
	"sync"
	"sync/atomic"
	"time"

	"tunnox-core/internal/app/server"
	"tunnox-core/internal/cloud/factories"
	"tunnox-core/internal/cloud/managers"
	"tunnox-core/internal/cloud/repos"
	"tunnox-core/internal/cloud/services"
	"tunnox-core/internal/command"
	coreerrors "tunnox-core/internal/core/errors"
	"tunnox-core/internal/core/idgen"
	corelog "tunnox-core/internal/core/log"
	"tunnox-core/internal/core/storage"
	"tunnox-core/internal/core/types"
	"tunnox-core/internal/packet"
	"tunnox-core/internal/protocol/session"
	"tunnox-core/internal/security"
	"tunnox-core/internal/stream"
	"tunnox-core/internal/utils"
	"tunnox-core/verifharness/fw"
)

const maxBody = 16 * 1024 * 1024

// ---- server assembly (what app/server's Storage/CloudControl/Session/Security/Handlers components and
// setupConnectionCodeCommands do, without listeners) -------------------------------------------------

type srv struct {
	sm     *session.SessionManager
	cancel context.CancelFunc
}

func newServer() (*srv, error) {
	ctx, cancel := context.WithCancel(context.Background())
	st, err := storage.NewStorageFactory(ctx).CreateStorage(&storage.HybridStorageConfig{
		CacheType: "memory", EnablePersistent: false, HybridConfig: storage.DefaultHybridConfig()})
	if err != nil {
		cancel()
		return nil, err
	}
	idm := idgen.NewIDManager(st, ctx)
	repo := repos.NewRepository(st)
	cfg := managers.DefaultConfig()
	cfg.NodeID = "node-verif"
	cc := factories.NewBuiltinCloudControlWithRepo(ctx, cfg, st, repo)
	sm := session.NewSessionManager(idm, ctx)
	bf := security.NewBruteForceProtector(nil, ctx)
	ipm := security.NewIPManager(st, ctx)
	rl := security.NewRateLimiter(nil, nil, ctx)
	skm, err := security.NewSecretKeyManager(&security.SecretKeyConfig{MasterKey: base64.StdEncoding.EncodeToString(bytes.Repeat([]byte{7}, 32))})
	if err != nil {
		cancel()
		return nil, err
	}
	cc.SetSecretKeyManager(skm)
	sm.SetReconnectTokenManager(security.NewReconnectTokenManager(&security.ReconnectTokenConfig{SecretKey: "verif-reconnect-secret-0123456789abcdef", TTL: 30 * time.Second}, st))
	connCodeSvc := services.NewConnectionCodeService(repos.NewConnectionCodeRepository(repo), cc.GetPortMappingService(),
		repos.NewPortMappingRepo(repo), nil, ctx)
	httpDomainRepo := repos.NewHTTPDomainMappingRepository(repo, []string{"tunnox.net", "tunnel.test.local"})
	auth := server.NewServerAuthHandler(cc, sm, bf, ipm, rl, skm)
	sm.SetAuthHandler(auth)
	sm.SetTunnelHandler(server.NewServerTunnelHandler(cc, connCodeSvc))
	sm.SetCloudControl(session.NewCloudControlAdapter(cc))
	sm.SetNodeID(cfg.NodeID)
	tsm := session.NewTunnelStateManager(st, "")
	sm.SetTunnelStateManager(tsm)
	sm.SetMigrationManager(session.NewTunnelMigrationManager(tsm, sm))
	sm.SetTunnelRoutingTable(session.NewTunnelRoutingTable(st, 30*time.Second))
	sm.SetConnectionStateStore(session.NewConnectionStateStore(st, cfg.NodeID, 5*time.Minute))
	reg := command.NewCommandRegistry(ctx)
	ex := command.NewCommandExecutor(reg, ctx)
	ex.SetSession(sm)
	if err := sm.SetCommandExecutor(ex); err != nil {
		cancel()
		return nil, err
	}
	for _, h := range []interface {
		RegisterHandlers(*command.CommandRegistry) error
	}{server.NewConnectionCodeCommandHandlers(connCodeSvc, sm), server.NewConfigCommandHandlers(auth, sm),
		server.NewMappingCommandHandlers(connCodeSvc, sm), server.NewHTTPDomainCommandHandlers(sm, httpDomainRepo)} {
		if err := h.RegisterHandlers(reg); err != nil {
			cancel()
			return nil, err
		}
	}
	return &srv{sm: sm, cancel: cancel}, nil
}

var (
	theSrv   *srv
	srvUses  int
	srvMutex sync.Mutex
)

// server returns the shared assembly; it is rebuilt every 150 cases so that state accumulated by
// earlier hostile inputs (failed-handshake counters, anonymous clients) stays small.
func getServer() (*srv, error) {
	srvMutex.Lock()
	defer srvMutex.Unlock()
	if theSrv == nil || srvUses >= 150 {
		if theSrv != nil {
			theSrv.cancel()
		}
		s, err := newServer()
		if err != nil {
			return nil, err
		}
		theSrv, srvUses = s, 0
	}
	srvUses++
	return theSrv, nil
}

// ---- hostile input classes -> bytes ----------------------------------------------------------------

type frame struct {
	K   string `json:"k"`
	Z   bool   `json:"z"`
	E   bool   `json:"e"`
	Hdr int    `json:"hdr"`
	Sc  string `json:"sc"`
	Av  int    `json:"av"`
	Gz  string `json:"gz"`
	Pay string `json:"pay"`
	Raw string `json:"raw,omitempty"` // pay = "short": the body content in hex (else picked seeded from shortBodies)
	Sub string `json:"sub,omitempty"` // streams: "tiny" (tens of bytes on the wire) | "mid" (2-4 KiB on the wire)
	Cmd int    `json:"cmd,omitempty"` // command kinds, pay = "good": command type to use (0: seeded)
}

// streamClass names a frame inside a multi-frame stream.
func (f *frame) streamClass() string {
	s := fmt.Sprintf("k=%s:z=%v:e=%v:gz=%s:pay=%s:sub=%s", f.K, f.Z, f.E, f.Gz, f.Pay, f.Sub)
	if f.Cmd != 0 {
		s += fmt.Sprintf(":cmd=%d", f.Cmd)
	}
	return s
}

type caseBeh struct {
	Frames []frame `json:"frames,omitempty"` // stream: the frames, in order
	Thr    []int   `json:"thr,omitempty"`    // stream: reader thread of each ReadPacket call
	Kind   string  `json:"kind"`             // frame | random | mutant | stream (several frames, calls from two threads) | flood (N copies of Frame)
	Frame  *frame  `json:"frame,omitempty"`
	Exp    string  `json:"exp,omitempty"` // outcome of ReadPacket predicted by the contract model
	Salt   int64   `json:"salt"`
	N      int     `json:"n,omitempty"`     // random: length; mutant: byte offset class
	Field  string  `json:"field,omitempty"` // mutant: type | len | body
}

func (f *frame) class() string {
	s := fmt.Sprintf("k=%s:z=%v:e=%v:hdr=%d:sc=%s:av=%d:gz=%s:pay=%s", f.K, f.Z, f.E, f.Hdr, f.Sc, f.Av, f.Gz, f.Pay)
	if f.Raw != "" {
		s += "=" + f.Raw
	}
	return s
}

var (
	cacheMu sync.Mutex
	cache   = map[string][]byte{}
)

func cached(key string, mk func() []byte) []byte {
	cacheMu.Lock()
	b, ok := cache[key]
	cacheMu.Unlock()
	if ok {
		return b
	}
	b = mk() // may itself use the cache
	cacheMu.Lock()
	cache[key] = b
	cacheMu.Unlock()
	return b
}

var cmdTypes = []int{10, 11, 12, 13, 14, 15, 20, 23, 25, 30, 35, 36, 37, 38, 40, 43, 44, 50, 51, 52, 54, 60, 63, 70, 71, 72, 73, 74, 75, 76,
	80, 81, 82, 83, 84, 85, 86, 87, 90, 100, 101, 102, 110, 120, 121, 0, 7, 99, 200, 255}

var bodies = []string{``, `{}`, `null`, `[]`, `"x"`, `{"a":`, `{"mapping_id":"m1","tunnel_id":"t1","client_id":7,"target_client_id":8}`,
	`{"code":"abc-def-ghi","target_address":"tcp://127.0.0.1:80","duration":3600}`, `{"request_id":"r1","domain":"example.com","qtype":1}`,
	`{"subdomain":"a","base_domain":"tunnox.net","target_url":"http://127.0.0.1:1"}`, `{"tunnel_id":"t","mapping_id":"m","bytes_sent":-1,"bytes_received":99999999999}`,
	`{"request_id":"x","status_code":200,"headers":null,"body":"AAAA"}`, `{"target_client_id":1,"target_host":"h","target_port":70000,"mapping_id":"m"}`}

// goodJSON is a well-formed body of the shape the kind's handler expects.
func goodJSON(k string, r *rand.Rand) []byte {
	switch k {
	case "CMD", "RESP":
		b, _ := json.Marshal(packet.CommandPacket{CommandType: packet.CommandType(cmdTypes[r.Intn(len(cmdTypes))]), CommandId: fmt.Sprintf("c%d", r.Intn(1000)),
			Token: "t", SenderId: fmt.Sprint(r.Intn(3)), ReceiverId: fmt.Sprint(r.Intn(3)), CommandBody: bodies[r.Intn(len(bodies))]})
		return b
	case "HS":
		reqs := []packet.HandshakeRequest{{ClientID: 0, Token: "new-client", Version: "3", Protocol: "tcp"}, {ClientID: 12345678, Version: "3", Protocol: "tcp"},
			{ClientID: -1, Version: "x", Protocol: "quic", ConnectionType: "tunnel"}, {ClientID: 12345678, ChallengeResponse: "deadbeef", ConnectionType: "control"},
			{ClientID: 9223372036854775807, Token: "anonymous:x", ConnectionType: "tunnel", ChallengeResponse: strings.Repeat("f", 64)}}
		b, _ := json.Marshal(reqs[r.Intn(len(reqs))])
		return b
	case "TOPEN":
		reqs := []packet.TunnelOpenRequest{{MappingID: "m1", TunnelID: "t1"}, {TunnelID: "t2", SecretKey: "k"}, {ResumeToken: "garbage.token", TunnelID: "t3"},
			{MappingID: "", TunnelID: ""}, {MappingID: "m", TunnelID: "t", TargetHost: "h", TargetPort: -1, TargetNetwork: "udp"}}
		b, _ := json.Marshal(reqs[r.Intn(len(reqs))])
		return b
	}
	return []byte(`{"tunnel_id":"t1","success":true}`)
}

var wrongJSON = []string{`[1,2,3]`, `"just a string"`, `123`, `null`, `true`, `{"CommandType":"x","CommandBody":5}`, `{"client_id":"seven","version":3}`,
	`{"mapping_id":1,"tunnel_id":{},"target_port":"p"}`, `[[[[[[[[[[[[[[[[[[[[[[[[[[[[[[[[]]]]]]]]]]]]]]]]]]]]]]]]]]]]]]]]`, `{"CommandType":1e400}`, `{"client_id":1e30}`}

var wrongCmdJSON = []string{`[1,2,3]`, `"just a string"`, `123`, `true`, `{"CommandType":"x","CommandBody":5}`, `{"CommandType":1e400}`,
	`{"CommandId":7}`, `[[[[[[[[[[[[[[[[[[[[[[[[[[[[[[[[]]]]]]]]]]]]]]]]]]]]]]]]]]]]]]]]`}

// JSON edge forms (payload classes null, scalar, emptyobj, array, nested, dupkeys, bignum, badutf8)
var edgeForms = map[string][]string{
	"null":     {`null`, ` null `, "\n\tnull\r\n"},
	"scalar":   {`true`, `0`, `"str"`, `false`, `-1.5e3`, `""`},
	"emptyobj": {`{}`, ` { } `},
	"array":    {`[]`, `[{}]`, `[null]`, `[[],{}]`},
}

func edgeJSON(k, pay string, r *rand.Rand) []byte {
	if fs, ok := edgeForms[pay]; ok {
		return []byte(fs[r.Intn(len(fs))])
	}
	switch pay {
	case "nested": // deeper than encoding/json's limit of 10000, closed or not, arrays or objects
		n := 10001 + r.Intn(3000)
		switch r.Intn(3) {
		case 0:
			return []byte(strings.Repeat("[", n))
		case 1:
			return []byte(strings.Repeat("[", n) + strings.Repeat("]", n))
		default:
			return []byte(strings.Repeat(`{"a":`, n) + "1" + strings.Repeat("}", n))
		}
	case "dupkeys":
		switch k {
		case "CMD", "RESP":
			return []byte(`{"CommandType":10,"CommandType":11,"CommandBody":"{}","CommandBody":"x","CommandId":"a","CommandId":"b"}`)
		case "HS":
			return []byte(`{"client_id":1,"client_id":0,"token":"a","token":"new-client","connection_type":"tunnel","connection_type":"control"}`)
		default:
			return []byte(`{"tunnel_id":"a","tunnel_id":"b","mapping_id":"m","mapping_id":"n","resume_token":"x","resume_token":""}`)
		}
	case "bignum":
		switch k {
		case "CMD", "RESP":
			return []byte([]string{`{"CommandType":1e400}`, `{"CommandType":99999999999999999999}`, `{"CommandType":-1}`, `{"CommandType":256}`}[r.Intn(4)])
		case "HS":
			return []byte([]string{`{"client_id":1e400}`, `{"client_id":123456789012345678901234567890}`, `{"client_id":-9223372036854775809}`, `{"client_id":1.5}`}[r.Intn(4)])
		default:
			return []byte([]string{`{"tunnel_id":"t","target_port":1e400}`, `{"tunnel_id":"t","target_port":99999999999999999999}`, `{"mapping_id":"m","target_port":-2147483649}`}[r.Intn(3)])
		}
	case "badutf8":
		switch k {
		case "CMD", "RESP":
			return []byte("{\"CommandType\":10,\"CommandId\":\"\xff\xfe\",\"CommandBody\":\"\xc0\xaf\xed\xa0\x80\"}")
		case "HS":
			return []byte("{\"client_id\":0,\"token\":\"\xff\xfenew-client\",\"version\":\"\xc0\xaf\"}")
		default:
			return []byte("{\"tunnel_id\":\"\xff\xfe\",\"mapping_id\":\"\xc0\xaf\",\"resume_token\":\"\xed\xa0\x80\"}")
		}
	}
	return nil
}

// shortBodies: 1..5 byte bodies whose VALUES matter to decoders - prefixes of multi-byte markers
var shortBodies = []string{
	"ef", "efbb", "efbbbf", "efbbbf7b", "efbbbf7b7d", // UTF-8 BOM and its prefixes, BOM + "{", BOM + "{}"
	"feff", "fffe", "fffe0000", "0000feff", // UTF-16 / UTF-32 BOMs
	"c3", "e2", "e282", "f0", "f09f", "f09f98", "eda080", "c0af", "80", // truncated / invalid UTF-8 sequences
	"1f", "1f8b", "1f8b08", "1f8b0800", // gzip magic prefixes
	"7b", "5b", "22", "2d", "74", "6e", "66", "7b22", "5b5b", "2230", "6e75", "6e756c", "747275", "2d30", "7b7d00", // JSON openers and prefixes of literals
	"00", "0000", "000000", "ff", "ffff", "ffffff", "ffffffffff", "0a", "20", "2020", "5c", "225c", "225c75", // NUL, FF, white space, escapes
}

func (f *frame) short(r *rand.Rand) []byte {
	h := f.Raw
	if h == "" {
		h = shortBodies[r.Intn(len(shortBodies))]
	}
	b, err := hex.DecodeString(h)
	if err != nil {
		panic(err)
	}
	return b
}

// content builds the (uncompressed) body content of class pay at exactly n bytes (n < 0: natural size).
func content(k, pay string, n int, r *rand.Rand) []byte {
	var b []byte
	switch pay {
	case "empty":
		return nil
	case "null", "scalar", "emptyobj", "array", "nested", "dupkeys", "bignum", "badutf8":
		return edgeJSON(k, pay, r)
	case "bad":
		b = append([]byte{0x00, 0xff, '{', '{', '"'}, []byte("not json at all \x01\x02")...)
		if n > len(b) {
			fill := cached(fmt.Sprintf("rnd:%d", n), func() []byte { x := make([]byte, n); rand.New(rand.NewSource(int64(n))).Read(x); return x })
			out := make([]byte, n)
			copy(out, fill)
			copy(out, b)
			return out
		}
	case "wrong":
		b = []byte(wrongJSON[r.Intn(len(wrongJSON))])
		if k == "CMD" || k == "RESP" { // must not fit a CommandPacket (null and objects with foreign members would)
			b = []byte(wrongCmdJSON[r.Intn(len(wrongCmdJSON))])
		}
		if n > len(b) { // a long valid array of numbers
			out := bytes.Repeat([]byte("0,"), n/2+1)[:n]
			out[0] = '['
			out[n-2] = '0'
			out[n-1] = ']'
			return out
		}
	case "good":
		b = goodJSON(k, r)
		if n > len(b) { // JSON allows trailing white space
			out := bytes.Repeat([]byte(" "), n)
			copy(out, b)
			return out
		}
	case "huge": // one huge string member, right shape for the kind, no escapes
		var head string
		switch k {
		case "CMD", "RESP":
			head = fmt.Sprintf(`{"CommandType":%d,"CommandId":"h","CommandBody":"`, cmdTypes[r.Intn(len(cmdTypes))])
		case "HS":
			head = `{"client_id":0,"token":"new-client","version":"`
		default:
			head = `{"mapping_id":"m","tunnel_id":"`
		}
		if n < len(head)+2 {
			n = len(head) + 2
		}
		out := bytes.Repeat([]byte("a"), n)
		copy(out, head)
		out[n-2] = '"'
		out[n-1] = '}'
		return out
	}
	if n >= 0 && n < len(b) {
		b = b[:n]
	}
	return b
}

func gz(level int, data []byte) []byte {
	var buf bytes.Buffer
	w, _ := gzip.NewWriterLevel(&buf, level)
	w.Write(data)
	w.Close()
	return buf.Bytes()
}

// storedSize = size of gzip(level NoCompression) output for n input bytes
func storedSize(n int) int { return len(gz(gzip.NoCompression, make([]byte, n))) }

var inAtMax = sync.OnceValue(func() int { // input size whose stored-gzip encoding is exactly maxBody bytes (or just below)
	n := maxBody - 18 - 5*(maxBody/65535+1)
	for storedSize(n+1) <= maxBody {
		n++
	}
	for storedSize(n) > maxBody {
		n--
	}
	return n
})

// body returns the bytes that follow the length field and the declared length.
func (f *frame) body(r *rand.Rand) (body []byte, declared uint32) {
	switch f.Sc {
	case "0":
		return nil, 0
	case "OVER", "U32":
		declared = maxBody + 1
		if f.Sc == "U32" {
			declared = 0xFFFFFFFF
		}
		if f.Av == 1 {
			body = content(f.K, "bad", 1024, r)
		}
		return body, declared
	}
	var full []byte
	size := -1
	if f.Sc == "MAX" {
		size = maxBody
	}
	switch {
	case f.Sub == "mid" && f.Av == 2: // 2-4 KiB on the wire also when compressed: incompressible padding inside the content
		full = midContent(f, r)
		if f.Z {
			full = gz(gzip.BestSpeed, full)
			if f.Gz == "corrupt" {
				full[len(full)/2] ^= 0x5a
			}
		}
	case f.Cmd != 0 && f.Av == 2:
		cp, _ := json.Marshal(packet.CommandPacket{CommandType: packet.CommandType(f.Cmd), CommandId: fmt.Sprintf("c%d", r.Intn(1000)), Token: "t",
			SenderId: "1", ReceiverId: "2", CommandBody: bodies[r.Intn(len(bodies))]})
		full = cp
		if f.Z {
			full = gz(gzip.BestSpeed, full)
		}
	case f.Pay == "short" && f.Av == 2:
		full = f.short(r)
		if f.Z {
			full = gz(gzip.BestSpeed, full)
		}
	case f.Av < 2: // truncated body: content does not matter
		if size < 0 {
			size = 600
		}
		full = content(f.K, "bad", size, r)
	case !f.Z:
		full = content(f.K, f.Pay, size, r)
		if len(full) == 0 {
			full = []byte{' '}
		}
	default:
		switch f.Gz {
		case "ok": // output about as large as the input
			if f.Sc == "MAX" {
				key := fmt.Sprintf("gzok:%s:%s", f.K, f.Pay)
				if f.Pay == "bad" || f.Pay == "wrong" {
					key = "gzok:" + f.Pay
				}
				full = cached(key, func() []byte { return gz(gzip.NoCompression, content(f.K, f.Pay, inAtMax(), r)) })
			} else {
				full = gz(gzip.BestSpeed, content(f.K, f.Pay, -1, r))
			}
		case "big": // small input, output just within the limit
			n := maxBody
			if f.Pay == "huge" {
				n = maxBody - 1000
			}
			full = cached(fmt.Sprintf("gzbig:%s:%s", f.K, f.Pay), func() []byte {
				c := content(f.K, f.Pay, n, r)
				if f.Pay == "bad" {
					c = make([]byte, n)
				}
				return gz(gzip.BestCompression, c)
			})
		case "bomb": // 10 x the limit of zero bytes from ~160 KB
			full = cached("gzbomb", func() []byte { return gz(gzip.BestCompression, make([]byte, 10*maxBody)) })
			if f.Sc == "MAX" { // the same member inside a maximum-size body (trailing garbage is never reached)
				full = cached("gzbomb:max", func() []byte {
					out := content(f.K, "bad", maxBody, r)
					out = append([]byte(nil), out...)
					copy(out, cached("gzbomb", nil))
					return out
				})
			}
		case "forged": // the bomb's deflate stream, but the ISIZE trailer claims 100 bytes
			full = cached("gzforged", func() []byte {
				out := append([]byte(nil), cached("gzbomb", func() []byte { return gz(gzip.BestCompression, make([]byte, 10*maxBody)) })...)
				binary.LittleEndian.PutUint32(out[len(out)-4:], 100)
				return out
			})
			if f.Sc == "MAX" { // padded in front with a stored-block member up to a maximum-size body
				full = cached("gzforged:max", func() []byte { return padFront(cached("gzforged", nil)) })
			}
		case "multi": // a member inflating to 10 x the limit followed by a tiny member (its ISIZE is the last trailer)
			full = cached("gzmulti", func() []byte {
				big := cached("gzbomb", func() []byte { return gz(gzip.BestCompression, make([]byte, 10*maxBody)) })
				return append(append([]byte(nil), big...), gz(gzip.BestCompression, []byte("tiny"))...)
			})
			if f.Sc == "MAX" { // padded in front with stored-block members up to a maximum-size body
				full = cached("gzmulti:max", func() []byte { return padFront(cached("gzmulti", nil)) })
			}
		case "corrupt":
			full = append([]byte(nil), gz(gzip.BestSpeed, content(f.K, "good", -1, r))...)
			switch r.Intn(3) {
			case 0:
				full[0] ^= 0xff // magic
			case 1:
				full[len(full)/2] ^= 0x5a // deflate data
			default:
				full[len(full)-6] ^= 0x01 // crc
			}
			if f.Sc == "MAX" {
				out := append([]byte(nil), content(f.K, "bad", maxBody, r)...)
				copy(out, full)
				full = out
			}
		case "trunc":
			g := gz(gzip.BestSpeed, content(f.K, "good", 300, r))
			full = g[:len(g)/2]
			if f.Sc == "MAX" {
				full = cached("gztrunc:max", func() []byte {
					g := gz(gzip.NoCompression, content(f.K, "bad", maxBody+70000, r))
					return append([]byte(nil), g[:maxBody]...)
				})
			}
		default:
			full = content(f.K, "bad", 600, r)
		}
	}
	declared = uint32(len(full))
	switch f.Av {
	case 0:
		return nil, declared
	case 1:
		return full[:len(full)/2], declared
	}
	return full, declared
}

// padFront returns a body of exactly maxBody bytes: one gzip member of stored zero blocks (its header
// name absorbs the rounding) followed by tail, i.e. a well-formed multi-member stream ending in tail.
func padFront(tail []byte) []byte {
	want := maxBody - len(tail)
	n := want - 18 - 5*(want/65535+1)
	for storedSize(n+1) <= want-2 {
		n++
	}
	for storedSize(n) > want-2 {
		n--
	}
	var buf bytes.Buffer
	w, _ := gzip.NewWriterLevel(&buf, gzip.NoCompression)
	w.Name = strings.Repeat("p", want-storedSize(n)-1)
	w.Write(make([]byte, n))
	w.Close()
	if buf.Len() != want {
		panic(fmt.Sprintf("padFront: %d != %d", buf.Len(), want))
	}
	return append(buf.Bytes(), tail...)
}

const alnum = "abcdefghijklmnopqrstuvwxyzABCDEFGHIJKLMNOPQRSTUVWXYZ0123456789"

func randAlnum(r *rand.Rand, n int) string {
	b := make([]byte, n)
	for i := range b {
		b[i] = alnum[r.Intn(len(alnum))]
	}
	return string(b)
}

// midContent: content of class f.Pay of about 3000 bytes that gzip cannot shrink below 2 KiB.
func midContent(f *frame, r *rand.Rand) []byte {
	pad := randAlnum(r, 2850+r.Intn(100))
	if f.Pay != "good" {
		b := make([]byte, 3000)
		r.Read(b)
		copy(b, []byte{0x00, 0xff, '{', '{'})
		return b
	}
	switch f.K {
	case "CMD", "RESP":
		ct := f.Cmd
		if ct == 0 {
			ct = cmdTypes[r.Intn(len(cmdTypes))]
		}
		b, _ := json.Marshal(packet.CommandPacket{CommandType: packet.CommandType(ct), CommandId: "mid", Token: "t", SenderId: "1", ReceiverId: "2",
			CommandBody: `{"pad":"` + pad + `"}`})
		return b
	case "HS":
		b, _ := json.Marshal(packet.HandshakeRequest{ClientID: 12345678, Version: pad, Protocol: "tcp"})
		return b
	case "TOPEN":
		b, _ := json.Marshal(packet.TunnelOpenRequest{MappingID: "m", TunnelID: "t-" + pad[:40], SecretKey: pad})
		return b
	}
	return []byte(`{"tunnel_id":"t1","success":true,"pad":"` + pad + `"}`)
}

var unkTypes = []byte{0x00, 0x04, 0x0f, 0x12, 0x1f, 0x25, 0x30, 0x3f}
var otherPay = []byte{byte(packet.HandshakeResp), byte(packet.TunnelOpenAck), byte(packet.TunnelData), byte(packet.TunnelClose), byte(packet.DataStreamEOF)}

func (f *frame) typeByte(r *rand.Rand) byte {
	var t byte
	switch f.K {
	case "HB":
		t = byte(packet.Heartbeat)
	case "CMD":
		t = byte(packet.JsonCommand)
	case "RESP":
		t = byte(packet.CommandResp)
	case "HS":
		t = byte(packet.Handshake)
	case "TOPEN":
		t = byte(packet.TunnelOpen)
	case "PAY":
		t = otherPay[r.Intn(len(otherPay))]
	default:
		t = unkTypes[r.Intn(len(unkTypes))]
	}
	if f.Z {
		t |= byte(packet.Compressed)
	}
	if f.E {
		t |= byte(packet.Encrypted)
	}
	return t
}

func (f *frame) bytes(r *rand.Rand) []byte {
	out := []byte{f.typeByte(r)}
	if f.K == "HB" {
		return out
	}
	body, declared := f.body(r)
	var l [4]byte
	binary.BigEndian.PutUint32(l[:], declared)
	out = append(out, l[:f.Hdr]...)
	if f.Hdr < 4 {
		return out
	}
	return append(out, body...)
}

// validPacket encodes a well-formed packet with the real writer (basis for mutants).
func validPacket(r *rand.Rand) ([]byte, string) {
	kinds := []string{"CMD", "RESP", "HS", "TOPEN", "PAY"}
	k := kinds[r.Intn(len(kinds))]
	f := &frame{K: k}
	var buf bytes.Buffer
	ctx, cancel := context.WithCancel(context.Background())
	defer cancel()
	sp := stream.NewStreamProcessor(bytes.NewReader(nil), &buf, ctx)
	defer sp.Close()
	p := &packet.TransferPacket{PacketType: packet.Type(f.typeByte(r))}
	if k == "CMD" || k == "RESP" {
		var cp packet.CommandPacket
		json.Unmarshal(goodJSON(k, r), &cp)
		p.CommandPacket = &cp
	} else {
		p.Payload = goodJSON(k, r)
	}
	z := r.Intn(2) == 0
	sp.WritePacket(p, z, 0)
	return append([]byte(nil), buf.Bytes()...), fmt.Sprintf("%s:z=%v", k, z)
}

// ---- one measured call ------------------------------------------------------------------------------

type callResult struct {
	panicked bool
	timedOut bool
	allocKiB int64
	panicMsg string
	dur      time.Duration
}

func measured(wd time.Duration, f func()) callResult {
	var res callResult
	done := make(chan struct{})
	var before, after runtime.MemStats
	runtime.ReadMemStats(&before)
	start := time.Now()
	go func() {
		defer close(done)
		defer func() {
			if x := recover(); x != nil {
				res.panicked = true
				res.panicMsg = fmt.Sprint(x)
			}
		}()
		f()
	}()
	select {
	case <-done:
	case <-time.After(wd):
		res.timedOut = true
	}
	res.dur = time.Since(start)
	runtime.ReadMemStats(&after)
	res.allocKiB = int64((after.TotalAlloc - before.TotalAlloc) / 1024)
	return res
}

type sink struct{ n int }

func (s *sink) Write(p []byte) (int, error) { s.n += len(p); return len(p), nil }

func drive(env *fw.Env, b fw.Behaviour) *fw.Trace {
	var c caseBeh
	if err := json.Unmarshal(b.Data, &c); err != nil {
		return &fw.Trace{Status: fw.DriverError, Note: err.Error()}
	}
	if atomic.LoadInt32(&hangs) >= maxHangs {
		return &fw.Trace{Status: fw.Inconclusive, Note: "skipped: several calls already hung in this run (each costs a full watchdog)"}
	}
	r := rand.New(rand.NewSource(c.Salt))
	var data []byte
	var cls string
	switch c.Kind {
	case "stream":
		return driveStream(env, &c, r)
	case "flood":
		return driveFlood(env, &c, r)
	case "frame":
		data = c.Frame.bytes(r)
		cls = c.Frame.class()
	case "random":
		data = make([]byte, c.N)
		r.Read(data)
		cls = fmt.Sprintf("random:len=%d", c.N)
	case "mutant":
		var what string
		data, what = validPacket(r)
		off := 0
		switch c.Field {
		case "len":
			off = 1 + r.Intn(4)
		case "body":
			off = 5 + r.Intn(len(data)-5)
		}
		if off < len(data) {
			data[off] ^= byte(1 << uint(r.Intn(8)))
		}
		if c.N == 1 { // and cut the stream somewhere
			data = data[:r.Intn(len(data)+1)]
		}
		cls = fmt.Sprintf("mutant:%s:%s:cut=%d", what, c.Field, c.N)
	default:
		return &fw.Trace{Status: fw.DriverError, Note: "kind?"}
	}
	s, err := getServer()
	if err != nil {
		return &fw.Trace{Status: fw.DriverError, Note: "server assembly: " + err.Error()}
	}
	out := &sink{}
	sc, err := s.sm.AcceptConnection(bytes.NewReader(data), out)
	if err != nil {
		return &fw.Trace{Status: fw.DriverError, Note: "AcceptConnection: " + err.Error()}
	}
	defer func() { _ = s.sm.CloseConnection(sc.ID) }()
	wd := 40 * time.Second
	t := &fw.Trace{Status: fw.Realised}
	t.Events = append(t.Events, fw.Event{"ev": "Case", "cls": cls, "exp": c.Exp, "bytes": len(data)})
	runtime.GC()
	errs := 0
	for i := 0; i < 6; i++ { // adapter.connectionReadLoop - but a caller that reads on after an error must be served too
		var pkt *packet.TransferPacket
		var rerr error
		res := measured(wd, func() { pkt, _, rerr = sc.Stream.ReadPacket() })
		ev := fw.Event{"ev": "Read", "panicked": res.panicked, "timedOut": res.timedOut, "allocKiB": res.allocKiB, "ms": res.dur.Milliseconds(), "bodyKiB": 0}
		switch {
		case res.panicked:
			ev["outcome"], ev["msg"] = "None", res.panicMsg
		case res.timedOut:
			ev["outcome"] = "None"
		case rerr != nil:
			ev["outcome"], ev["msg"] = "Error", trunc(rerr.Error())
		default:
			ev["outcome"] = "Packet"
			ev["type"] = int(pkt.PacketType)
			n := len(pkt.Payload)
			if pkt.CommandPacket != nil {
				n += len(pkt.CommandPacket.CommandBody)
			}
			ev["bodyKiB"] = (n + 1023) / 1024
		}
		t.Events = append(t.Events, ev)
		if res.timedOut {
			atomic.AddInt32(&hangs, 1)
		}
		if res.panicked || res.timedOut {
			break
		}
		if rerr != nil {
			if errs++; errs >= 2 { // the second error in a row (normally: end of stream) ends the loop
				break
			}
			continue
		}
		errs = 0
		var herr error
		sp := &types.StreamPacket{ConnectionID: sc.ID, Packet: pkt, Timestamp: time.Now()}
		res = measured(wd, func() { herr = s.sm.HandlePacket(sp) })
		ev = fw.Event{"ev": "Dispatch", "panicked": res.panicked, "timedOut": res.timedOut, "allocKiB": res.allocKiB, "ms": res.dur.Milliseconds(), "replied": out.n}
		switch {
		case res.panicked:
			ev["outcome"], ev["msg"] = "None", res.panicMsg
		case res.timedOut:
			ev["outcome"] = "None"
		case herr != nil:
			ev["outcome"], ev["msg"] = "Error", trunc(herr.Error())
		default:
			ev["outcome"] = "Reply"
		}
		t.Events = append(t.Events, ev)
		if res.timedOut {
			atomic.AddInt32(&hangs, 1)
		}
		if res.panicked || res.timedOut || (herr != nil && coreerrors.IsCode(herr, coreerrors.CodeTunnelModeSwitch)) {
			break
		}
	}
	return t
}

// hangs counts calls that ran into the watchdog in this run; after maxHangs the remaining cases are skipped
// (the verdict is decided, and every further hang would cost a full watchdog period).
var hangs int32

const maxHangs = 4

type callOut struct {
	read, disp     string // outcome
	rmsg, dmsg     string
	rpanic, dpanic bool
	typ, bodyKiB   int
	dispatched     bool
	done           bool
}

// driveStream: several frames on one connection; the ReadPacket (+HandlePacket) calls are made by two goroutines
// that take turns as the behaviour says and busy-wait in between, so that each keeps its own P - the situation of a
// connection's read goroutine that is rescheduled onto another P between two packets. One more call is made after
// the last frame (end of stream). Allocation is not measured here (two goroutines run).
func driveStream(env *fw.Env, c *caseBeh, r *rand.Rand) *fw.Trace {
	var data []byte
	for i := range c.Frames {
		data = append(data, c.Frames[i].bytes(r)...)
	}
	s, err := getServer()
	if err != nil {
		return &fw.Trace{Status: fw.DriverError, Note: "server assembly: " + err.Error()}
	}
	out := &sink{}
	sc, err := s.sm.AcceptConnection(bytes.NewReader(data), out)
	if err != nil {
		return &fw.Trace{Status: fw.DriverError, Note: "AcceptConnection: " + err.Error()}
	}
	defer func() { _ = s.sm.CloseConnection(sc.ID) }()
	total := len(c.Frames) + 1
	sched := make([]int, total)
	for i := range sched {
		sched[i] = 1
		if i < len(c.Thr) {
			sched[i] = c.Thr[i]
		} else if i > 0 {
			sched[i] = 3 - sched[i-1] // the end-of-stream call: from the other thread
		}
	}
	res := make([]callOut, total)
	var turn, stop int64
	done := make(chan struct{}, 2)
	worker := func(id int) {
		defer func() { done <- struct{}{} }()
		for {
			cur := atomic.LoadInt64(&turn)
			if cur >= int64(total) || atomic.LoadInt64(&stop) != 0 {
				return
			}
			if sched[cur] != id {
				continue // busy-wait: this goroutine stays on its own P
			}
			o := &res[cur]
			var pkt *packet.TransferPacket
			func() {
				defer func() {
					if x := recover(); x != nil {
						o.rpanic, o.rmsg = true, fmt.Sprint(x)
					}
				}()
				p, _, rerr := sc.Stream.ReadPacket()
				if rerr != nil {
					o.read, o.rmsg = "Error", trunc(rerr.Error())
					return
				}
				o.read, o.typ, pkt = "Packet", int(p.PacketType), p
				n := len(p.Payload)
				if p.CommandPacket != nil {
					n += len(p.CommandPacket.CommandBody)
				}
				o.bodyKiB = (n + 1023) / 1024
			}()
			if pkt != nil {
				o.dispatched = true
				func() {
					defer func() {
						if x := recover(); x != nil {
							o.dpanic, o.dmsg = true, fmt.Sprint(x)
						}
					}()
					if herr := s.sm.HandlePacket(&types.StreamPacket{ConnectionID: sc.ID, Packet: pkt, Timestamp: time.Now()}); herr != nil {
						o.disp, o.dmsg = "Error", trunc(herr.Error())
					} else {
						o.disp = "Reply"
					}
				}()
			}
			o.done = true
			atomic.StoreInt64(&turn, cur+1)
		}
	}
	go worker(1)
	go worker(2)
	timedOut := false
	deadline := time.After(20 * time.Second)
	for k := 0; k < 2 && !timedOut; k++ {
		select {
		case <-done:
		case <-deadline:
			timedOut = true
			atomic.StoreInt64(&stop, 1)
			atomic.AddInt32(&hangs, 1)
		}
	}
	t := &fw.Trace{Status: fw.Realised}
	upto := int(atomic.LoadInt64(&turn))
	for i := 0; i < total && i <= upto; i++ {
		cls := "end-of-stream"
		if i < len(c.Frames) {
			cls = c.Frames[i].streamClass()
		}
		switch {
		case i == 0:
			cls += ":first"
		default:
			cls += ":after=(" + c.Frames[i-1].streamClass() + ")"
			if sched[i] != sched[i-1] {
				cls += ":thr=switch"
			} else {
				cls += ":thr=same"
			}
		}
		o := res[i]
		hung := timedOut && i == upto && !o.done
		if i == upto && !hung && !o.done {
			break
		}
		t.Events = append(t.Events, fw.Event{"ev": "Case", "cls": cls, "call": i + 1})
		rd := fw.Event{"ev": "Read", "panicked": o.rpanic, "timedOut": hung && !o.dispatched, "allocKiB": 0, "bodyKiB": o.bodyKiB, "outcome": o.read, "msg": o.rmsg}
		if o.read == "" {
			rd["outcome"] = "None"
		}
		t.Events = append(t.Events, rd)
		if o.dispatched {
			d := fw.Event{"ev": "Dispatch", "panicked": o.dpanic, "timedOut": hung, "allocKiB": 0, "outcome": o.disp, "msg": o.dmsg}
			if o.disp == "" {
				d["outcome"] = "None"
			}
			t.Events = append(t.Events, d)
		}
	}
	return t
}

func liveHeapKiB() int64 {
	runtime.GC()
	runtime.GC()
	var m runtime.MemStats
	runtime.ReadMemStats(&m)
	return int64(m.HeapAlloc / 1024)
}

// driveFlood: N copies of one small frame on one connection, read and dispatched in a loop by one goroutine; the
// live heap is taken after N/2 and after N packets: what the server keeps per handled packet shows as growth.
func driveFlood(env *fw.Env, c *caseBeh, r *rand.Rand) *fw.Trace {
	one := c.Frame.bytes(r)
	data := bytes.Repeat(one, c.N)
	s, err := getServer()
	if err != nil {
		return &fw.Trace{Status: fw.DriverError, Note: "server assembly: " + err.Error()}
	}
	out := &sink{}
	sc, err := s.sm.AcceptConnection(bytes.NewReader(data), out)
	if err != nil {
		return &fw.Trace{Status: fw.DriverError, Note: "AcceptConnection: " + err.Error()}
	}
	defer func() { _ = s.sm.CloseConnection(sc.ID) }()
	var replies, refusals, readErrs int
	var h0, h1, h2 int64
	var pmsg string
	fin := make(chan bool, 1)
	start := time.Now()
	go func() {
		defer func() {
			if x := recover(); x != nil {
				pmsg = fmt.Sprint(x)
				fin <- true
			}
		}()
		h0 = liveHeapKiB()
		for i := 0; i < c.N; i++ {
			if i == c.N/2 {
				h1 = liveHeapKiB()
			}
			pkt, _, rerr := sc.Stream.ReadPacket()
			if rerr != nil {
				readErrs++
				continue
			}
			if herr := s.sm.HandlePacket(&types.StreamPacket{ConnectionID: sc.ID, Packet: pkt, Timestamp: time.Now()}); herr != nil {
				refusals++
			} else {
				replies++
			}
		}
		h2 = liveHeapKiB()
		fin <- false
	}()
	ev := fw.Event{"ev": "Flood", "n": c.N, "panicked": false, "timedOut": false, "growKiB": 0, "replies": 0}
	select {
	case p := <-fin:
		ev["panicked"] = p
		ev["msg"] = pmsg
	case <-time.After(120 * time.Second):
		ev["timedOut"] = true
		atomic.AddInt32(&hangs, 1)
	}
	if ev["panicked"] == false && ev["timedOut"] == false {
		ev["growKiB"], ev["firstHalfKiB"], ev["replies"], ev["refusals"], ev["readErrs"] = h2-h1, h1-h0, replies, refusals, readErrs
	}
	ev["ms"] = time.Since(start).Milliseconds()
	t := &fw.Trace{Status: fw.Realised}
	t.Events = append(t.Events, fw.Event{"ev": "Case", "cls": "flood:" + c.Frame.streamClass()}, ev)
	return t
}

func trunc(s string) string {
	if len(s) > 160 {
		return s[:160]
	}
	return s
}

// ---- wiring -----------------------------------------------------------------------------------------

func hashOf(b []byte) int64 {
	h := fnv.New64a()
	h.Write(b)
	return int64(h.Sum64() >> 1)
}

// command types that go through a registered handler or a special path of handleCommandPacket
var floodCmds = []int{50, 70, 71, 72, 73, 74, 75, 76, 82, 83, 84, 85, 86, 87, 11, 90, 110, 120, 121, 80, 81, 100, 102, 10, 99}

// expandStream turns a generated stream behaviour {frames, calls} into a stream case; a stream of two identical
// frames read by one thread additionally stands for "the same frame again and again": a flood of N copies
// (command frames: one flood per command type), the size of N being to repetition what 16 MiB is to "MAX".
func expandStream(env *fw.Env, raw json.RawMessage, h int64, keep func(int64) bool) []json.RawMessage {
	var g struct {
		Frames []frame `json:"frames"`
		Calls  []struct {
			Thr int `json:"thr"`
		} `json:"calls"`
	}
	if err := json.Unmarshal(raw, &g); err != nil {
		panic(err)
	}
	c := caseBeh{Kind: "stream", Frames: g.Frames, Salt: env.Seed*1000003 + h}
	for _, x := range g.Calls {
		if x.Thr != 0 {
			c.Thr = append(c.Thr, x.Thr)
		}
	}
	var out []json.RawMessage
	per := int64(70)
	if env.Tier == "thorough" {
		per = 1000
	}
	if keep(per) {
		out = append(out, fw.MustJSON(c))
	}
	if len(g.Frames) == 2 && g.Frames[0] == g.Frames[1] && len(c.Thr) == 2 && c.Thr[0] == 1 && c.Thr[1] == 1 {
		f := g.Frames[0]
		n := 2500
		if env.Tier == "thorough" {
			n = 6000
		}
		switch {
		case f.K == "HB" || f.Sub == "mid":
		case f.K == "CMD" && f.Pay == "good" && !f.E:
			cmds := floodCmds
			if env.Tier == "thorough" {
				cmds = cmdTypes
			}
			for _, ct := range cmds {
				if ct == 0 {
					continue
				}
				ff := f
				ff.Cmd = ct
				out = append(out, fw.MustJSON(caseBeh{Kind: "flood", Frame: &ff, N: n, Salt: env.Seed*31 + int64(ct)}))
			}
		default:
			ff := f
			out = append(out, fw.MustJSON(caseBeh{Kind: "flood", Frame: &ff, N: n, Salt: env.Seed * 37}))
		}
	}
	return out
}

func extra(env *fw.Env) []json.RawMessage {
	var out []json.RawMessage
	add := func(c caseBeh) { out = append(out, fw.MustJSON(c)) }
	// classes every run must contain whatever the sampling picked
	for _, f := range []frame{
		{K: "PAY", Z: true, Hdr: 4, Sc: "S", Av: 2, Gz: "bomb", Pay: "bad"},
		{K: "CMD", Z: true, Hdr: 4, Sc: "S", Av: 2, Gz: "bomb", Pay: "bad"},
		{K: "HS", Z: true, Hdr: 4, Sc: "S", Av: 2, Gz: "big", Pay: "huge"},
		{K: "CMD", Z: true, Hdr: 4, Sc: "MAX", Av: 2, Gz: "ok", Pay: "huge"},
		{K: "CMD", Hdr: 4, Sc: "MAX", Av: 2, Gz: "na", Pay: "huge"},
		{K: "TOPEN", Hdr: 4, Sc: "U32", Av: 1, Gz: "na", Pay: "bad"},
		{K: "HS", Hdr: 4, Sc: "OVER", Av: 0, Gz: "na", Pay: "bad"},
		{K: "HS", Hdr: 2, Sc: "0", Gz: "na", Pay: "empty"},
		{K: "PAY", Z: true, Hdr: 4, Sc: "S", Av: 2, Gz: "forged", Pay: "bad"},
		{K: "CMD", Z: true, Hdr: 4, Sc: "S", Av: 2, Gz: "forged", Pay: "bad"},
		{K: "PAY", Z: true, Hdr: 4, Sc: "S", Av: 2, Gz: "multi", Pay: "bad"},
		{K: "HS", Z: true, Hdr: 4, Sc: "S", Av: 2, Gz: "multi", Pay: "bad"},
		{K: "TOPEN", Z: true, Hdr: 4, Sc: "MAX", Av: 2, Gz: "multi", Pay: "bad"},
	} {
		f := f
		add(caseBeh{Kind: "frame", Frame: &f, Salt: env.Seed})
	}
	// every JSON edge form for every dispatched kind (small, uncompressed; null also compressed), several seeds each
	for _, k := range []string{"HS", "TOPEN", "CMD", "RESP", "PAY"} {
		for _, pay := range []string{"null", "scalar", "emptyobj", "array", "nested", "dupkeys", "bignum", "badutf8"} {
			for v := 0; v < 3; v++ {
				f := frame{K: k, Hdr: 4, Sc: "S", Av: 2, Gz: "na", Pay: pay}
				if v == 2 && (pay == "null" || pay == "emptyobj") {
					f.Z, f.Gz = true, "ok"
				}
				add(caseBeh{Kind: "frame", Frame: &f, Salt: env.Seed*31 + int64(v)})
			}
		}
	}
	// every short body for every kind, raw and gzip-compressed
	for _, k := range []string{"CMD", "RESP", "HS", "TOPEN", "PAY", "UNK"} {
		for _, z := range []bool{false, true} {
			for _, h := range shortBodies {
				f := frame{K: k, Z: z, Hdr: 4, Sc: "S", Av: 2, Gz: "na", Pay: "short", Raw: h}
				if z {
					f.Gz = "ok"
				}
				add(caseBeh{Kind: "frame", Frame: &f, Salt: env.Seed})
			}
		}
	}
	nr, nm := 40, 90
	if env.Tier == "thorough" {
		nr, nm = 400, 1500
	}
	r := rand.New(rand.NewSource(env.Seed ^ 0x5eed))
	lens := []int{0, 1, 2, 4, 5, 6, 64, 1000, 4096, 70000}
	for i := 0; i < nr; i++ {
		add(caseBeh{Kind: "random", N: lens[i%len(lens)], Salt: r.Int63()})
	}
	fields := []string{"type", "len", "body"}
	for i := 0; i < nm; i++ {
		add(caseBeh{Kind: "mutant", Field: fields[i%3], N: (i / 3) % 2, Salt: r.Int63()})
	}
	return out
}

func selfTest(env *fw.Env, acc []*fw.Trace) []*fw.Trace {
	var out []*fw.Trace
	id := 9000000
	clone := func(t *fw.Trace) *fw.Trace {
		c := &fw.Trace{Status: t.Status, Beh: t.Beh}
		id++
		c.Beh.ID = id
		for _, e := range t.Events {
			ne := fw.Event{}
			for k, v := range e {
				ne[k] = v
			}
			c.Events = append(c.Events, ne)
		}
		return c
	}
	n := 0
	for _, t := range acc {
		if n >= 4 || len(t.Events) < 3 || t.Events[2]["ev"] != "Dispatch" {
			continue
		}
		n++
		for _, m := range []func(c *fw.Trace){
			func(c *fw.Trace) { c.Events[1]["panicked"] = true },
			func(c *fw.Trace) { c.Events[2]["panicked"] = true },
			func(c *fw.Trace) { c.Events[1]["timedOut"] = true },
			func(c *fw.Trace) { c.Events[2]["timedOut"] = true },
			func(c *fw.Trace) { c.Events[1]["allocKiB"] = int64(6*16384 + 1024 + 1) },
			func(c *fw.Trace) { c.Events[2]["allocKiB"] = int64(12*16384 + 1024 + 1) },
			func(c *fw.Trace) { c.Events[1]["outcome"] = "Reply" },
			func(c *fw.Trace) { c.Events[1]["bodyKiB"] = 16385 },
			func(c *fw.Trace) { c.Events[2]["outcome"] = "Packet" },
			func(c *fw.Trace) { c.Events = c.Events[:1] }, // no report at all
		} {
			c := clone(t)
			m(c)
			out = append(out, c)
		}
	}
	return out
}

// postDrive reports (informational, never a verdict) where the real ReadPacket outcome differs from
// the outcome the contract model (Framing.tla, Dev = {}) predicts for the class.
func postDrive(env *fw.Env, traces []*fw.Trace) error {
	total, same := 0, 0
	div := map[string]int{}
	for _, t := range traces {
		if t.Status != fw.Realised || len(t.Events) < 2 {
			continue
		}
		exp, _ := t.Events[0]["exp"].(string)
		if exp == "" {
			continue
		}
		total++
		if t.Events[1]["outcome"] == exp {
			same++
		} else {
			div[fmt.Sprintf("%v: model %s, code %v", t.Events[0]["cls"], exp, t.Events[1]["outcome"])]++
		}
	}
	fmt.Printf("[bind] ReadPacket outcome as predicted by the contract model for %d of %d frame classes\n", same, total)
	keys := make([]string, 0, len(div))
	for k := range div {
		keys = append(keys, k)
	}
	sort.Strings(keys)
	for i, k := range keys {
		if i >= 12 {
			fmt.Printf("[bind]   ... and %d more\n", len(keys)-i)
			break
		}
		fmt.Printf("[bind]   divergence %s\n", k)
	}
	return nil
}

func main() {
	corelog.SetDefault(corelog.NewNopLogger())
	if utils.Logger != nil {
		utils.Logger.SetOutput(io.Discard)
	}
	fw.Main(&fw.Property{
		ID:        "C05",
		DesignRef: "DESIGN.md §5 C05",
		ModelJobs: func(env *fw.Env) []fw.TLCJob {
			all := `{"shortHeader", "emptyNoLen", "unboundedInflate"}`
			frames := "2" // 3 frames are 5.1M states (7 min under load): the 3-frame streams are covered by simulation instead
			return []fw.TLCJob{
				{Name: "mc:hostile-contract", Module: "Framing", Cfg: "Framing_hostile.cfg", Consts: map[string]string{"DEV": "{}", "ALLOC": "AllocBound"}},
				{Name: "mc:hostile-as-found", Module: "Framing", Cfg: "Framing_hostile.cfg", Consts: map[string]string{"DEV": all, "ALLOC": "AllocBoundOrDev"}},
				{Name: "mc:streams", Module: "Framing", Cfg: "Framing_stream.cfg", Heap: "12g",
					Consts: map[string]string{"FRAMES": frames, "EMIT": "FALSE", "SPEC": "SPECIFICATION Spec\nPROPERTY Termination"}},
			}
		},
		GenJobs: func(env *fw.Env) []fw.TLCJob {
			gen := map[string]string{"FRAMES": "2", "EMIT": "TRUE", "SPEC": "INIT Init\nNEXT Next"}
			jobs := []fw.TLCJob{{Name: "gen:hostile-frames", Module: "Framing", Cfg: "Framing_genx.cfg", Workers: 4},
				{Name: "gen:streams", Module: "Framing", Cfg: "Framing_stream.cfg", Consts: gen, Workers: 8}}
			if env.Tier == "thorough" {
				jobs = append(jobs, fw.TLCJob{Name: "sim:streams3", Module: "Framing", Cfg: "Framing_stream.cfg", Workers: 4,
					Consts: map[string]string{"FRAMES": "3", "EMIT": "TRUE", "SPEC": "INIT Init\nNEXT Next"}, Simulate: "num=1500", Depth: 60, Seed: env.Seed})
			}
			return jobs
		},
		MaxBeh: func(env *fw.Env) int { return 0 }, // sampling is done per source in Expand
		Expand: func(env *fw.Env, src string, raw json.RawMessage) []json.RawMessage {
			h := hashOf(raw)
			keep := func(per1000 int64) bool { // seeded, deterministic sampling of one source
				return (h/7+env.Seed*7919)%1000 < per1000
			}
			if src != "gen:hostile-frames" {
				return expandStream(env, raw, h, keep)
			}
			if env.Tier != "thorough" && !keep(300) {
				return nil
			}
			var g struct {
				Frame frame  `json:"frame"`
				Exp   string `json:"exp"`
			}
			if err := json.Unmarshal(raw, &g); err != nil {
				panic(err)
			}
			n := 1
			if env.Tier == "thorough" {
				n = 3
			}
			var out []json.RawMessage
			for i := 0; i < n; i++ {
				f := g.Frame
				out = append(out, fw.MustJSON(caseBeh{Kind: "frame", Frame: &f, Exp: g.Exp, Salt: env.Seed*1000003 + hashOf(raw) + int64(i)}))
			}
			return out
		},
		ExtraBeh:    extra,
		Drive:       drive,
		Parallel:    1,
		PostDrive:   postDrive,
		JudgeModule: "FramingTrace",
		JudgeCfg:    "FramingTraceX.cfg",
		SelfTest:    selfTest,
		NonTrivial:  func(t *fw.Trace) bool { return len(t.Events) >= 2 },
		Rule:        "one case per hostile frame class of spec/Framing.tla (type/flag class x length-field truncation x declared-size class {0,small,16MiB,16MiB+1,2^32-1} x body availability x gzip class {ratio~1, small->just-within-limit, bomb 10x limit, bomb with forged ISIZE, bomb member + tiny member, corrupt, truncated} x payload class {empty, not JSON, JSON of another shape, well-formed, huge, 1-5 byte marker prefixes (BOMs, truncated UTF-8, gzip magic, JSON openers), null, scalar, {}, array, too deeply nested, duplicate keys, out-of-range numbers, invalid UTF-8}), concretised with seeded filler, plus seeded random byte strings and single-bit mutants of valid packets; each fed to the real ReadPacket and, when it decodes, to the real SessionManager.HandlePacket on a fresh connection; non-trivial = ReadPacket was reached",
		Assumptions: []string{
			"allocation = runtime.MemStats.TotalAlloc delta around the call (process-wide; one call at a time, GC and background tickers covered by the 1 MiB slack); bound for ReadPacket 6 x 16 MiB + 1 MiB (DESIGN.md Appendix B), for HandlePacket 12 x 16 MiB + 1 MiB (spec/FramingTrace.tla)",
			"hang = the call has not returned after 40 s (largest legitimate case measured: well under 2 s)",
			"memory retained after the call is not measured; handlers' goroutines (config push) run outside the measured window",
			"the server is assembled in-process from the real components on memory storage, without listeners; it is rebuilt every 150 cases"},
		TrustedBase: []string{"TLC", "spec/FramingTrace.tla as the reading of C05", "class -> bytes concretisation and MemStats measurement in drivers/c05"},
	})
}
