package main

// deploy.go: clause 3 of C14 at deployment level. Two nodes are built by the real
// server.createStorage (bound by go:linkname) from the same configuration flags; what node A writes to a
// key of each category is read at node B. spec/HybridDeploy.tla says which deployments are multi-node and
// must therefore keep shared-category keys visible to every node; spec/HybridTrace.tla (TrVis) judges.

import (
	"context"
	"fmt"
	"os"
	"path/filepath"
	"strings"
	_ "unsafe" // go:linkname

	"github.com/alicebob/miniredis/v2"

	"tunnox-core/internal/app/server"
	"tunnox-core/internal/core/storage"
	"tunnox-core/internal/core/storage/types"
	"tunnox-core/verifharness/fw"
)

//go:linkname createStorage tunnox-core/internal/app/server.createStorage
func createStorage(factory *storage.StorageFactory, config *server.Config) (storage.Storage, error)

func driveDeploy(beh behaviour) *fw.Trace {
	t := &fw.Trace{Status: fw.Realised}
	flags := fmt.Sprintf("redis=%d,persist=%d", btoi(beh.Redis), btoi(beh.Persist))
	t.Events = append(t.Events, fw.Event{"ev": "Cfg", "cat": "deploy", "mode": "deploy", "scope": flags})
	var mr *miniredis.Miniredis
	if beh.Redis {
		var err error
		if mr, err = miniredis.Run(); err != nil {
			return &fw.Trace{Status: fw.DriverError, Note: "miniredis: " + err.Error()}
		}
		defer mr.Close()
	}
	dir, err := os.MkdirTemp("", "c14deploy")
	if err != nil {
		return &fw.Trace{Status: fw.DriverError, Note: err.Error()}
	}
	defer os.RemoveAll(dir)
	ctx, cancel := context.WithCancel(context.Background())
	defer cancel()
	var nodes []storage.Storage
	for i := 0; i < 2; i++ {
		cfg := &server.Config{}
		if beh.Redis {
			cfg.Redis.Enabled, cfg.Redis.Addr = true, mr.Addr()
		}
		if beh.Persist {
			cfg.Persistence.Enabled = true
			cfg.Persistence.File = filepath.Join(dir, fmt.Sprintf("node%d.json", i))
		}
		st, err := createStorage(storage.NewStorageFactory(ctx), cfg)
		if err != nil || st == nil {
			return &fw.Trace{Status: fw.DriverError, Note: fmt.Sprintf("createStorage(%s): %v", flags, err)}
		}
		defer st.Close()
		nodes = append(nodes, st)
	}
	a, b := nodes[0], nodes[1]
	vis := func(cat, op string, seen bool) {
		t.Events = append(t.Events, fw.Event{"ev": "Vis", "cat": cat, "op": op, "st": false, "rd": beh.Redis, "ps": beh.Persist, "flags": flags, "vis": seen})
	}
	for _, cat := range []string{"runtime", "persistent", "shared", "sharedPersistent"} {
		key := keyOf[cat] + ":dep"
		// kv: written at A, read at B
		seen := false
		if err := a.Set(key, "v1", 0); err == nil {
			if v, err := b.Get(key); err == nil && strings.Contains(fmt.Sprint(v), "v1") {
				seen = true
			}
		}
		vis(cat, "Set", seen)
		// list: one append from each node, all members visible at both
		la, okA := a.(types.ListStore)
		lb, okB := b.(types.ListStore)
		if !okA || !okB {
			continue
		}
		lkey := keyOf[cat] + ":deplist"
		seen = false
		if la.AppendToList(lkey, "e1") == nil && lb.AppendToList(lkey, "e2") == nil {
			has := func(s types.ListStore) bool {
				l, err := s.GetList(lkey)
				if err != nil {
					return false
				}
				j := fmt.Sprint(l)
				return strings.Contains(j, "e1") && strings.Contains(j, "e2")
			}
			seen = has(la) && has(lb)
		}
		vis(cat, "App", seen)
	}
	return t
}
