// C14 driver: forces TLC-generated interleavings (spec/Hybrid.tla, tier-operation granularity,
// including the asynchronous cache write-back) on the real hybrid.Storage running over
// gate-controlled tier doubles, and records facade call/return events plus the tier classes each
// call touched for the judge (spec/HybridTrace.tla).
package main

import (
	"context"
	"encoding/json"
	"errors"
	"fmt"
	"runtime"
	"strconv"
	"strings"
	"sync"
	"time"
	"tunnox-core/internal/core/storage/types"

	"tunnox-core/internal/core/storage/hybrid"
	"tunnox-core/verifharness/doubles"
	"tunnox-core/verifharness/fw"
	"tunnox-core/verifharness/sched"
)

type hstep struct {
	P string `json:"p"`
	A string `json:"a"`
	W bool   `json:"w"` // model: after this step the process is blocked on the key lock
	G string `json:"g"` // model: process that obtained the key lock in this step ("" = nobody)
}

type behaviour struct {
	Cat    string  `json:"cat"`  // runtime | persistent | shared | sharedPersistent
	Mode   string  `json:"mode"` // kv | list | tier
	Shared bool    `json:"shared"`
	Free   bool    `json:"free"` // free-running variant (no gates)
	Procs  int     `json:"procs,omitempty"`
	Ops    int     `json:"ops,omitempty"`
	Seed   int     `json:"seed,omitempty"`
	Legacy bool    `json:"legacy"`
	Op     string  `json:"op,omitempty"`      // fault mode: Set | Del | App
	FailAt string  `json:"fail_at,omitempty"` // fault mode: "<store>.<Op>" whose first call fails once
	Cached bool    `json:"cached,omitempty"`
	Redis   bool   `json:"rd,omitempty"` // deploy mode: redis.enabled
	Persist bool   `json:"ps,omitempty"` // deploy mode: persistence.enabled
	Key    string  `json:"key,omitempty"` // tier mode: the exact key to classify (default: the category's sample key)  // fault mode: the old value is already in the front cache // generated from the model of the code before the per-key lock repair
	Steps  []hstep `json:"steps"`
}

var keyOf = map[string]string{
	"runtime":          "tunnox:session:k1",
	"persistent":       "tunnox:user:k1",
	"shared":           "tunnox:conn_state:k1",
	"sharedPersistent": "tunnox:port_mapping:k1",
}

type rig struct {
	s                   *sched.Sched
	cache, shared, pers *doubles.Store
	h                   *hybrid.Storage
	front               *doubles.Store
	hasBack             bool
	key                 string
	cancel              context.CancelFunc
}

func newRig(cat string, withShared bool, free bool) *rig {
	r := &rig{s: sched.New(free)}
	r.s.Watchdog = 500 * time.Millisecond
	r.cache = doubles.NewStore("cache", r.s)
	r.pers = doubles.NewStore("pers", r.s)
	var sharedC *doubles.Store
	if withShared {
		sharedC = doubles.NewStore("shared", r.s)
		r.shared = sharedC
	}
	cfg := hybrid.DefaultConfig()
	cfg.EnablePersistent = true
	ctx, cancel := context.WithCancel(context.Background())
	r.cancel = cancel
	if withShared {
		r.h = hybrid.NewWithSharedCache(ctx, r.cache, sharedC, doubles.Pers{St: r.pers}, cfg)
	} else {
		r.h = hybrid.New(ctx, r.cache, doubles.Pers{St: r.pers}, cfg)
	}
	r.key = keyOf[cat]
	r.front = r.cache
	if withShared && (cat == "shared" || cat == "sharedPersistent") {
		r.front = r.shared
	}
	r.hasBack = cat == "persistent" || cat == "sharedPersistent"
	// adopted goroutines: the asynchronous write-back parks inside <front>.Set
	r.s.Adopt = func(g sched.GateInfo) string { return "wb" }
	return r
}

func parseID(v any) (int, bool) {
	s, ok := v.(string)
	if !ok || len(s) < 2 {
		return 0, false
	}
	n, err := strconv.Atoi(s[1:])
	return n, err == nil
}

type activeCall struct {
	name string
	op   string
	id   int
}

type callRes struct {
	ok  bool
	t   string
	v   any
	err string
}

func (r *rig) doCall(op string, id int) callRes {
	switch op {
	case "Get":
		v, err := r.h.Get(r.key)
		if err != nil {
			if !errors.Is(err, types.ErrKeyNotFound) {
				return callRes{ok: true, t: "err", v: 0, err: err.Error()} // a failed read answers nothing
			}
			return callRes{ok: true, t: "nf", v: 0, err: err.Error()}
		}
		n, ok := parseID(v)
		if !ok {
			return callRes{ok: true, t: "val", v: -1, err: fmt.Sprintf("unparsable %v", v)}
		}
		return callRes{ok: true, t: "val", v: n}
	case "Set":
		err := r.h.Set(r.key, "v"+strconv.Itoa(id), 0)
		return callRes{ok: err == nil, t: "unit", v: 0, err: errStr(err)}
	case "Del":
		err := r.h.Delete(r.key)
		return callRes{ok: err == nil, t: "unit", v: 0, err: errStr(err)}
	case "App":
		err := r.h.AppendToList(r.key, "e"+strconv.Itoa(id))
		return callRes{ok: err == nil, t: "unit", v: 0, err: errStr(err)}
	case "Rem":
		err := r.h.RemoveFromList(r.key, "e0")
		return callRes{ok: err == nil, t: "unit", v: 0, err: errStr(err)}
	case "GetL":
		l, err := r.h.GetList(r.key)
		out := []any{}
		if err != nil && !errors.Is(err, types.ErrKeyNotFound) {
			return callRes{ok: true, t: "err", v: 0, err: err.Error()}
		}
		if err == nil {
			for _, x := range l {
				if n, ok := parseID(x); ok {
					out = append(out, n)
				}
			}
		}
		return callRes{ok: true, t: "list", v: out, err: errStr(err)}
	}
	panic("op " + op)
}

func errStr(err error) string {
	if err == nil {
		return ""
	}
	return err.Error()
}

func gateFor(r *rig, a string) string {
	switch a {
	case "FrontGet":
		return r.front.Name + ".Get"
	case "FrontSet", "FrontSetFail":
		return r.front.Name + ".Set"
	case "FrontInval":
		return r.front.Name + ".Delete"
	case "FrontDel":
		return r.front.Name + ".Delete"
	case "BackGet":
		return "pers.Get"
	case "BackSet":
		return "pers.Set"
	case "BackDel":
		return "pers.Delete"
	}
	return "?"
}

func drive(env *fw.Env, b fw.Behaviour) *fw.Trace {
	var beh behaviour
	if err := json.Unmarshal(b.Data, &beh); err != nil {
		return &fw.Trace{Status: fw.DriverError, Note: err.Error()}
	}
	if beh.Mode == "tier" {
		return driveTier(beh)
	}
	if beh.Mode == "fault" {
		return driveFault(beh)
	}
	if beh.Mode == "xnode" {
		return driveXNode(env, beh)
	}
	if beh.Mode == "deploy" {
		return driveDeploy(beh)
	}
	if beh.Free {
		return driveFree(env, beh)
	}
	r := newRig(beh.Cat, beh.Shared, false)
	defer r.cancel()
	if beh.Legacy {
		r.s.Watchdog = 40 * time.Millisecond // these mostly end in "blocked on the key lock" on the repaired code
	}
	// initial contents: an old value / list lives in the persistent tier (or in the only tier)
	var init any = "v0"
	if beh.Mode == "list" {
		init = []any{"e0"}
	}
	if r.hasBack {
		r.pers.Poke(r.key, init, 0)
	} else {
		r.front.Poke(r.key, init, 0)
	}
	t := &fw.Trace{Status: fw.Realised}
	t.Events = append(t.Events, fw.Event{"ev": "Cfg", "cat": beh.Cat, "mode": beh.Mode})
	wd := r.s.Watchdog
	nid := 0
	cur := map[string]*activeCall{}
	nCalls := map[string]int{}
	nwb := 0
	var started []*activeCall
	finished := map[string]bool{}
	logRet := func(p string, a *activeCall) {
		res, _ := r.s.Result(a.name).(callRes)
		t.Events = append(t.Events, fw.Event{"ev": "Ret", "p": p, "op": a.op, "id": a.id, "ok": res.ok, "t": res.t, "v": res.v, "probe": false, "err": res.err})
		finished[a.name] = true
	}
	finish := func(status, note string) *fw.Trace {
		return finishScheduled(r, beh, t, started, finished, logRet, status, note)
	}
	unreal := func(note string) *fw.Trace {
		// the real code left the model's schedule: let everything finish free-running and still hand
		// the observable trace to the judge (status diverged)
		return finish(fw.Diverged, note)
	}
	for i, st := range beh.Steps {
		if strings.HasPrefix(st.A, "Call") {
			op := strings.TrimPrefix(st.A, "Call")
			id := 0
			if op == "Set" || op == "Del" || op == "App" || op == "Rem" {
				nid++
				id = nid
			}
			nCalls[st.P]++
			a := &activeCall{name: fmt.Sprintf("%s.%d", st.P, nCalls[st.P]), op: op, id: id}
			cur[st.P] = a
			started = append(started, a)
			t.Events = append(t.Events, fw.Event{"ev": "Call", "p": st.P, "op": op, "id": id})
			if st.W {
				r.s.Watchdog = 3 * time.Millisecond // expected to block: do not wait long for it to park
			}
			state := r.s.Start(a.name, func() any { return r.doCall(a.op, a.id) })
			r.s.Watchdog = wd
			if state == sched.Done {
				return unreal(fmt.Sprintf("step %d: call %s finished without reaching a tier gate", i, a.name))
			}
			if state == sched.Blocked && beh.Legacy {
				return unreal(fmt.Sprintf("step %d: call %s blocked (key lock)", i, a.name))
			}
			if !st.W && state != sched.Parked {
				return unreal(fmt.Sprintf("step %d: call %s did not reach its first tier gate (%s)", i, a.name, state))
			}
			continue // Parked at its first tier gate, or waiting for the key lock (model: pc = "W")
		}
		name := ""
		if st.P == "wb" {
			nwb++
			name = fmt.Sprintf("wb#%d", nwb)
			if !r.s.WaitAdopted(name) {
				return unreal(fmt.Sprintf("step %d: no write-back goroutine parked", i))
			}
		} else {
			if cur[st.P] == nil {
				return &fw.Trace{Status: fw.DriverError, Note: "step before call"}
			}
			name = cur[st.P].name
		}
		stt, at := r.s.State(name)
		if stt != sched.Parked || at.Point != gateFor(r, st.A) {
			return unreal(fmt.Sprintf("step %d: %s is at %q (%s), model expects %s", i, name, at.Point, stt, gateFor(r, st.A)))
		}
		if st.W {
			r.s.Watchdog = 3 * time.Millisecond
		}
		if st.A == "FrontSetFail" {
			armed := true
			r.front.Fault = func(c *doubles.Call) error {
				if armed && c.Op == "Set" {
					armed = false
					return doubles.ErrInjected
				}
				return nil
			}
		}
		ns, _ := r.s.Step(name)
		r.s.Watchdog = wd
		if ns == sched.Blocked && !st.W {
			return unreal(fmt.Sprintf("step %d: %s blocked after %s", i, name, st.A))
		}
		if ns != sched.Blocked && st.W {
			return unreal(fmt.Sprintf("step %d: %s did not wait for the key lock after %s as the model of the repaired code expects", i, name, st.A))
		}
		if st.P != "wb" && ns == sched.Done {
			logRet(st.P, cur[st.P])
		}
		if st.G != "" && st.G != st.P {
			// unlocking handed the key lock to a waiter: it now runs to its first tier gate
			if cur[st.G] == nil || r.s.Await(cur[st.G].name) != sched.Parked {
				return unreal(fmt.Sprintf("step %d: %s did not obtain the key lock", i, st.G))
			}
		}
		if st.A == "BackGet" {
			// a hit spawns the write-back goroutine: let it reach its gate so arrival order = spawn order
			time.Sleep(300 * time.Microsecond)
		}
	}
	return finish(fw.Realised, "")
}

// (continued) the tail of a gate-scheduled behaviour, shared by the realised and the diverged case
func finishScheduled(r *rig, beh behaviour, t *fw.Trace, started []*activeCall, finished map[string]bool, logRet func(string, *activeCall), status, note string) *fw.Trace {
	// finish everything in free-running mode, then observe the quiescent state
	if !r.s.Drain(3 * time.Second) {
		if status == fw.Diverged {
			return &fw.Trace{Status: fw.Unrealisable, Note: note + " (and the processes did not finish after drain)"}
		}
		return &fw.Trace{Status: fw.DriverError, Note: "processes did not finish after drain"}
	}
	t.Status, t.Note = status, note
	for _, a := range started {
		if !finished[a.name] {
			logRet(strings.SplitN(a.name, ".", 2)[0], a)
		}
	}
	settle(r)
	probeOp := "Get"
	if beh.Mode == "list" {
		probeOp = "GetL"
	}
	t.Events = append(t.Events, fw.Event{"ev": "Call", "p": "probe", "op": probeOp, "id": 0})
	res := r.doCall(probeOp, 0)
	t.Events = append(t.Events, fw.Event{"ev": "Ret", "p": "probe", "op": probeOp, "id": 0, "ok": true, "t": res.t, "v": res.v, "probe": true, "err": res.err})
	return t
}

// driveFree: seeded free-running stress of the same facade over the same doubles: Procs goroutines
// each issue Ops calls; every tier gate injects a small random delay. Call/Ret events are logged
// under one mutex (Call before invoking, Ret after returning), so file order is sound real-time order.
func driveFree(env *fw.Env, beh behaviour) *fw.Trace {
	r := newRig(beh.Cat, beh.Shared, true)
	defer r.cancel()
	rnd := fw.NewRand(env.Seed*1000 + int64(beh.Seed))
	var rmu sync.Mutex
	r.s.FreeDelay = func(name string, g sched.GateInfo) {
		rmu.Lock()
		k := rnd.Intn(10)
		rmu.Unlock()
		switch {
		case k < 4:
			runtime.Gosched()
		case k < 6:
			time.Sleep(time.Duration(20+k*10) * time.Microsecond)
		}
	}
	var init any = "v0"
	if beh.Mode == "list" {
		init = []any{"e0"}
	}
	if r.hasBack {
		r.pers.Poke(r.key, init, 0)
	} else {
		r.front.Poke(r.key, init, 0)
	}
	t := &fw.Trace{Status: fw.Realised}
	t.Events = append(t.Events, fw.Event{"ev": "Cfg", "cat": beh.Cat, "mode": beh.Mode})
	var mu sync.Mutex
	nid := 0
	kinds := []string{"Get", "Set", "Del"}
	if beh.Mode == "list" {
		kinds = []string{"App", "App", "Rem", "GetL"}
	}
	// pre-draw the scripts so they depend on the seed only
	scripts := make([][]string, beh.Procs)
	for p := range scripts {
		for o := 0; o < beh.Ops; o++ {
			scripts[p] = append(scripts[p], kinds[rnd.Intn(len(kinds))])
		}
	}
	var wg sync.WaitGroup
	for p := 0; p < beh.Procs; p++ {
		wg.Add(1)
		go func(p int) {
			defer wg.Done()
			name := fmt.Sprintf("p%d", p+1)
			for _, op := range scripts[p] {
				mu.Lock()
				id := 0
				if op == "Set" || op == "Del" || op == "App" || op == "Rem" {
					nid++
					id = nid
				}
				t.Events = append(t.Events, fw.Event{"ev": "Call", "p": name, "op": op, "id": id})
				mu.Unlock()
				res := r.doCall(op, id)
				mu.Lock()
				t.Events = append(t.Events, fw.Event{"ev": "Ret", "p": name, "op": op, "id": id, "ok": res.ok, "t": res.t, "v": res.v, "probe": false, "err": res.err})
				mu.Unlock()
			}
		}(p)
	}
	done := make(chan struct{})
	go func() { wg.Wait(); close(done) }()
	select {
	case <-done:
	case <-time.After(10 * time.Second):
		return &fw.Trace{Status: fw.DriverError, Note: "free-running processes did not finish"}
	}
	settle(r)
	probeOp := "Get"
	if beh.Mode == "list" {
		probeOp = "GetL"
	}
	t.Events = append(t.Events, fw.Event{"ev": "Call", "p": "probe", "op": probeOp, "id": 0})
	res := r.doCall(probeOp, 0)
	t.Events = append(t.Events, fw.Event{"ev": "Ret", "p": "probe", "op": probeOp, "id": 0, "ok": true, "t": res.t, "v": res.v, "probe": true, "err": res.err})
	return t
}

// driveFault: clause "single tier failures". Sequential: an old value exists (in the back tier, and
// in the front cache too when Cached); one facade write is issued while exactly one tier operation
// fails once; then the key is read. An acknowledged write (returned nil) must be what later reads
// see; a refused write (error) carries no demand.
func driveFault(beh behaviour) *fw.Trace {
	r := newRig(beh.Cat, beh.Shared, true)
	defer r.cancel()
	var init any = "v0"
	if beh.Op == "App" {
		init = []any{"e0"}
	}
	if beh.Op == "Rem" {
		init = []any{"e0", "e7", "e8"} // the removed member is not the last: a filter must not disturb the others
	}
	if r.hasBack {
		r.pers.Poke(r.key, init, 0)
		if beh.Cached {
			r.front.Poke(r.key, init, time.Hour)
		}
	} else {
		r.front.Poke(r.key, init, time.Hour)
	}
	failed := false
	fault := func(c *doubles.Call) error {
		if !failed && c.Store+"."+c.Op == beh.FailAt {
			failed = true
			return doubles.ErrInjected
		}
		return nil
	}
	for _, st := range []*doubles.Store{r.cache, r.shared, r.pers} {
		if st != nil {
			st.Fault = fault
		}
	}
	mode := "kv"
	if beh.Op == "App" || beh.Op == "Rem" {
		mode = "list"
	}
	t := &fw.Trace{Status: fw.Realised}
	t.Events = append(t.Events, fw.Event{"ev": "Cfg", "cat": beh.Cat, "mode": mode, "scope": "fault=" + beh.FailAt + ":" + beh.Op})
	t.Events = append(t.Events, fw.Event{"ev": "Call", "p": "p1", "op": beh.Op, "id": 1})
	res := r.doCall(beh.Op, 1)
	if !failed {
		return &fw.Trace{Status: fw.Unrealisable, Note: "the write does not perform " + beh.FailAt}
	}
	t.Events = append(t.Events, fw.Event{"ev": "Ret", "p": "p1", "op": beh.Op, "id": 1, "ok": res.ok, "t": res.t, "v": res.v, "probe": false, "err": res.err, "fault_hit": failed})
	settle(r)
	probeOp := "Get"
	if mode == "list" {
		probeOp = "GetL"
	}
	for i := 0; i < 2; i++ { // twice: the first read may itself refill the cache
		t.Events = append(t.Events, fw.Event{"ev": "Call", "p": "probe", "op": probeOp, "id": 0})
		pr := r.doCall(probeOp, 0)
		t.Events = append(t.Events, fw.Event{"ev": "Ret", "p": "probe", "op": probeOp, "id": 0, "ok": true, "t": pr.t, "v": pr.v, "probe": true, "err": pr.err})
		settle(r)
	}
	return t
}

// driveXNode: two facade instances (nodes) with their own local cache over one shared cache and one
// persistent tier. For the two shared categories: what node A wrote must be what node B reads
// ("shared cross-node keys are visible to every node"), and appends issued from both nodes at the
// same time must all take effect.
func driveXNode(env *fw.Env, beh behaviour) *fw.Trace {
	a := newRig(beh.Cat, true, true)
	defer a.cancel()
	b := newRig(beh.Cat, true, true)
	defer b.cancel()
	// node B shares A's shared cache and persistent tier, keeps its own local cache
	cfg := hybrid.DefaultConfig()
	cfg.EnablePersistent = true
	ctx, cancel := context.WithCancel(context.Background())
	defer cancel()
	b.shared, b.pers = a.shared, a.pers
	b.h = hybrid.NewWithSharedCache(ctx, b.cache, a.shared, doubles.Pers{St: a.pers}, cfg)
	b.front = a.shared
	mode := "kv"
	if beh.Op == "App" || beh.Op == "Rem" {
		mode = "list"
	}
	t := &fw.Trace{Status: fw.Realised}
	t.Events = append(t.Events, fw.Event{"ev": "Cfg", "cat": beh.Cat, "mode": mode, "scope": "xnode"})
	if mode == "kv" {
		a.pers.Poke(a.key, "v0", 0)
		if a.hasBack {
			// both nodes have read the old value once (their caches are warm)
			a.doCall("Get", 0)
			b.doCall("Get", 0)
			settle(a)
		} else {
			a.front.Poke(a.key, "v0", time.Hour)
		}
		seq := []struct {
			n  *rig
			p  string
			op string
			id int
		}{{a, "a", "Set", 1}, {b, "b", "Get", 0}, {b, "b", "Set", 2}, {a, "a", "Get", 0}, {a, "a", "Del", 3}, {b, "b", "Get", 0}}
		for _, s := range seq {
			t.Events = append(t.Events, fw.Event{"ev": "Call", "p": s.p, "op": s.op, "id": s.id})
			res := s.n.doCall(s.op, s.id)
			t.Events = append(t.Events, fw.Event{"ev": "Ret", "p": s.p, "op": s.op, "id": s.id, "ok": res.ok, "t": res.t, "v": res.v, "probe": s.op == "Get", "err": res.err})
			settle(a)
		}
		return t
	}
	// list mode: appends from both nodes released together, repeated; a probe on each node at the end
	if a.hasBack {
		a.pers.Poke(a.key, []any{"e0"}, 0)
	} else {
		a.front.Poke(a.key, []any{"e0"}, time.Hour)
	}
	rnd := fw.NewRand(env.Seed*977 + int64(beh.Seed))
	var rmu sync.Mutex
	delay := func(name string, g sched.GateInfo) {
		rmu.Lock()
		k := rnd.Intn(8)
		rmu.Unlock()
		if k < 5 {
			runtime.Gosched()
		} else {
			time.Sleep(time.Duration(k*15) * time.Microsecond)
		}
	}
	a.s.FreeDelay, b.s.FreeDelay = delay, delay
	var mu sync.Mutex
	var wg sync.WaitGroup
	nid := 0
	start := make(chan struct{})
	for i, n := range []*rig{a, b, a, b} {
		wg.Add(1)
		go func(i int, n *rig) {
			defer wg.Done()
			<-start
			mu.Lock()
			nid++
			id := nid
			t.Events = append(t.Events, fw.Event{"ev": "Call", "p": fmt.Sprintf("n%d", i), "op": "App", "id": id})
			mu.Unlock()
			res := n.doCall("App", id)
			mu.Lock()
			t.Events = append(t.Events, fw.Event{"ev": "Ret", "p": fmt.Sprintf("n%d", i), "op": "App", "id": id, "ok": res.ok, "t": res.t, "v": res.v, "probe": false, "err": res.err})
			mu.Unlock()
		}(i, n)
	}
	close(start)
	wg.Wait()
	settle(a)
	for _, n := range []*rig{a, b} {
		t.Events = append(t.Events, fw.Event{"ev": "Call", "p": "probe", "op": "GetL", "id": 0})
		pr := n.doCall("GetL", 0)
		t.Events = append(t.Events, fw.Event{"ev": "Ret", "p": "probe", "op": "GetL", "id": 0, "ok": true, "t": pr.t, "v": pr.v, "probe": true, "err": pr.err})
	}
	return t
}

// settle waits until no tier operation has been logged for a few milliseconds (pending
// asynchronous write-backs have landed).
func settle(r *rig) {
	count := func() int {
		n := len(r.cache.Log()) + len(r.pers.Log())
		if r.shared != nil {
			n += len(r.shared.Log())
		}
		return n
	}
	last := count()
	stable := 0
	for i := 0; i < 400 && stable < 4; i++ {
		time.Sleep(time.Millisecond)
		if c := count(); c == last {
			stable++
		} else {
			last, stable = c, 0
		}
	}
}

// driveTier: clause 3 - every facade operation on a key of each category must touch only the
// tier classes of that category. Sequential; the tier doubles' logs say what was touched.
func driveTier(beh behaviour) *fw.Trace {
	t := &fw.Trace{Status: fw.Realised}
	t.Events = append(t.Events, fw.Event{"ev": "Cfg", "cat": beh.Cat, "mode": "tier"})
	ops := []string{"Set", "Get", "Exists", "SetList", "GetList", "AppendToList", "RemoveFromList", "SetNX", "Incr", "IncrBy", "SetHash", "GetHash", "DeleteHash", "SetExpiration", "Delete"}
	for _, op := range ops {
		r := newRig(beh.Cat, true, true)
		key := r.key + ":" + op
		if beh.Key != "" {
			key = beh.Key // the configured prefix itself, or the prefix plus a suffix
		}
		before := func() int { return len(r.cache.Log()) + len(r.pers.Log()) + len(r.shared.Log()) }
		_ = before
		switch op {
		case "Set":
			r.h.Set(key, "x", 0)
		case "Get":
			r.h.Get(key)
		case "Exists":
			r.h.Exists(key)
		case "SetList":
			r.h.SetList(key, []any{"a"}, 0)
		case "GetList":
			r.h.GetList(key)
		case "AppendToList":
			r.h.AppendToList(key, "a")
		case "RemoveFromList":
			r.h.SetList(key, []any{"a"}, 0)
			r.cache.S, r.pers.S, r.shared.S = nil, nil, nil
			r.h.RemoveFromList(key, "a")
		case "SetNX":
			r.h.SetNX(key, "x", 0)
		case "Incr":
			r.h.Incr(key)
		case "IncrBy":
			r.h.IncrBy(key, 2)
		case "SetHash":
			r.h.SetHash(key, "f", "x")
		case "GetHash":
			r.h.GetHash(key, "f")
		case "DeleteHash":
			r.h.DeleteHash(key, "f")
		case "SetExpiration":
			r.h.Set(key, "x", 0)
			r.h.SetExpiration(key, time.Hour)
		case "Delete":
			r.h.Delete(key)
		}
		time.Sleep(2 * time.Millisecond) // let a possible write-back land so it is attributed too
		touched := map[string]bool{}
		for _, st := range []*doubles.Store{r.cache, r.shared, r.pers} {
			if len(st.Log()) > 0 {
				touched[st.Name] = true
			}
		}
		stores := []any{}
		for _, n := range []string{"cache", "shared", "pers"} {
			if touched[n] {
				stores = append(stores, n)
			}
		}
		t.Events = append(t.Events, fw.Event{"ev": "Tier", "cat": beh.Cat, "op": op, "stores": stores})
		r.cancel()
	}
	return t
}

func btoi(b bool) int {
	if b {
		return 1
	}
	return 0
}

func main() {
	cfgJob := func(name, mode string, hasBack bool, maxOps int, emit bool, sync bool, invs string) fw.TLCJob {
		hb := "FALSE"
		if hasBack {
			hb = "TRUE"
		}
		em, sy := "FALSE", "FALSE"
		if emit {
			em = "TRUE"
		}
		if sync {
			sy = "TRUE"
		}
		return fw.TLCJob{Name: name, Module: "Hybrid", Cfg: "Hybrid_kv.cfg", Workers: 8,
			Consts: map[string]string{"MAXOPS": strconv.Itoa(maxOps), "HASBACK": hb, "MODE": mode, "SYNC": sy, "EMIT": em, "INVS": invs,
				"FAULTPROC": "none", "INVAL": "TRUE"}}
	}
	fw.Main(&fw.Property{
		ID:        "C14",
		DesignRef: "DESIGN.md §5 C14",
		ModelJobs: func(env *fw.Env) []fw.TLCJob {
			n := 2
			var jobs []fw.TLCJob
			for _, mode := range []string{"kv", "list"} {
				for _, hb := range []bool{true, false} {
					jobs = append(jobs, cfgJob(fmt.Sprintf("mc:%s:back=%v", mode, hb), mode, hb, n, false, true, "NoStaleRead NoLostUpdate"))
				}
				// single tier failure: the cache write of a persisted Set / list write fails once
				j := cfgJob(fmt.Sprintf("mc:%s:fault", mode), mode, true, n, false, true, "NoStaleRead NoLostUpdate")
				j.Consts["FAULTPROC"] = "p1"
				jobs = append(jobs, j)
			}
			jobs = append(jobs, fw.TLCJob{Name: "mc:deploy", Module: "HybridDeploy", Cfg: "HybridDeploy.cfg", Workers: 1})
			return jobs
		},
		GenJobs: func(env *fw.Env) []fw.TLCJob {
			var jobs []fw.TLCJob
			for _, mode := range []string{"kv", "list"} {
				for _, hb := range []bool{true, false} {
					n := 2
					if mode == "list" && hb && env.Tier == "quick" {
						n = 1 // two racing list calls are the essence; 2x2 list calls on two tiers is ~10^6 transitions
					}
					jobs = append(jobs, cfgJob(fmt.Sprintf("gen:%s:back=%v", mode, hb), mode, hb, n, true, true, ""))
					// behaviours of the code as it was before the per-key lock repair: unrealisable on the
					// repaired code (they block on the lock), realisable again if the lock is lost
					jobs = append(jobs, cfgJob(fmt.Sprintf("legacy:%s:back=%v", mode, hb), mode, hb, 1+btoi(mode == "kv"), true, false, ""))
				}
				nf := 2
				if mode == "list" {
					nf = 1
				}
				j := cfgJob(fmt.Sprintf("gen:%s:fault:back=true", mode), mode, true, nf, true, true, "")
				j.Consts["FAULTPROC"] = "p1"
				jobs = append(jobs, j)
				// the code before the cache-invalidation repair: acknowledged Set, older value stays cached
				jl := cfgJob(fmt.Sprintf("legacy:%s:fault:back=true", mode), mode, true, nf, true, true, "")
				jl.Consts["FAULTPROC"], jl.Consts["INVAL"] = "p1", "FALSE"
				jobs = append(jobs, jl)
			}
			return jobs
		},
		Expand: func(env *fw.Env, src string, raw json.RawMessage) []json.RawMessage {
			var steps []hstep
			if err := json.Unmarshal(raw, &steps); err != nil {
				panic(err)
			}
			mode := "kv"
			if strings.Contains(src, ":list:") {
				mode = "list"
			}
			legacy := strings.HasPrefix(src, "legacy:") && !strings.Contains(src, ":fault") // fault-legacy behaviours follow the repaired lock structure
			var out []json.RawMessage
			if strings.Contains(src, "back=true") {
				out = append(out, fw.MustJSON(behaviour{Cat: "persistent", Mode: mode, Shared: false, Legacy: legacy, Steps: steps}))
				out = append(out, fw.MustJSON(behaviour{Cat: "sharedPersistent", Mode: mode, Shared: true, Legacy: legacy, Steps: steps}))
			} else {
				out = append(out, fw.MustJSON(behaviour{Cat: "runtime", Mode: mode, Shared: true, Legacy: legacy, Steps: steps}))
				out = append(out, fw.MustJSON(behaviour{Cat: "shared", Mode: mode, Shared: true, Legacy: legacy, Steps: steps}))
			}
			return out
		},
		ExtraBeh: func(env *fw.Env) []json.RawMessage {
			var out []json.RawMessage
			nfree := 25
			if env.Tier == "thorough" {
				nfree = 400
			}
			// single tier failures: every tier operation of a facade write fails once
			for _, c := range []string{"runtime", "persistent", "shared", "sharedPersistent"} {
				front := "cache"
				if c == "shared" || c == "sharedPersistent" {
					front = "shared"
				}
				for _, op := range []string{"Set", "Del", "App", "Rem"} {
					fails := []string{front + ".Set", front + ".Delete", front + ".Get"}
					if c == "persistent" || c == "sharedPersistent" {
						fails = append(fails, "pers.Set", "pers.Delete", "pers.Get")
					}
					for _, f := range fails {
						for _, cached := range []bool{false, true} {
							out = append(out, fw.MustJSON(behaviour{Cat: c, Mode: "fault", Shared: true, Op: op, FailAt: f, Cached: cached}))
						}
					}
				}
			}
			// two nodes over one shared cache + persistent tier
			nx := 10
			if env.Tier == "thorough" {
				nx = 150
			}
			for _, c := range []string{"shared", "sharedPersistent"} {
				out = append(out, fw.MustJSON(behaviour{Cat: c, Mode: "xnode", Op: "Set"}))
				for i := 0; i < nx; i++ {
					out = append(out, fw.MustJSON(behaviour{Cat: c, Mode: "xnode", Op: "App", Seed: i}))
				}
			}
			// the store each deployment builds (real createStorage), two nodes per flag combination
			for _, rd := range []bool{false, true} {
				for _, ps := range []bool{false, true} {
					out = append(out, fw.MustJSON(behaviour{Mode: "deploy", Redis: rd, Persist: ps}))
				}
			}
			// every configured key prefix: the prefix itself as a whole key (several entries ARE whole keys,
			// e.g. tunnox:mappings:list) and the prefix with a suffix must land in the category's tiers
			dc := hybrid.DefaultConfig()
			for cat, list := range map[string][]string{"persistent": dc.PersistentPrefixes, "shared": dc.SharedPrefixes, "sharedPersistent": dc.SharedPersistentPrefixes, "runtime": {"tunnox:session:", "tunnox:jwt:", "tunnox:temp:"}} {
				for _, pre := range list {
					out = append(out, fw.MustJSON(behaviour{Cat: cat, Mode: "tier", Key: pre}))
					out = append(out, fw.MustJSON(behaviour{Cat: cat, Mode: "tier", Key: pre + "x1"}))
				}
			}
			for _, c := range []string{"runtime", "persistent", "shared", "sharedPersistent"} {
				out = append(out, fw.MustJSON(behaviour{Cat: c, Mode: "tier"}))
				for i := 0; i < nfree; i++ {
					for _, m := range []string{"kv", "list"} {
						out = append(out, fw.MustJSON(behaviour{Cat: c, Mode: m, Shared: c != "persistent", Free: true, Procs: 4, Ops: 3, Seed: i}))
					}
				}
			}
			return out
		},
		MaxBehSrc: func(env *fw.Env, src string) int {
			if strings.HasPrefix(src, "legacy:") {
				if env.Tier == "quick" {
					return 150
				}
				return 1500
			}
			if env.Tier == "quick" {
				return 1500
			}
			return 0
		},
		Drive:    drive,
		Parallel: 16,
		SelfTest: func(env *fw.Env, acc []*fw.Trace) []*fw.Trace {
			// corrupt accepted traces: (a) a read that returned a fresh value now returns the initial one after a
			// Set had returned; (b) the final list probe loses an appended element
			var out []*fw.Trace
			nextID := 1 << 20
			for _, t := range acc {
				if len(out) >= 40 {
					break
				}
				var setRet, appRet = -1, -1
				for i, e := range t.Events {
					if e["ev"] == "Ret" && e["op"] == "Set" && e["ok"] == true && setRet < 0 {
						setRet = i
					}
					if e["ev"] == "Ret" && e["op"] == "App" && e["ok"] == true && appRet < 0 {
						appRet = i
					}
				}
				last := t.Events[len(t.Events)-1]
				cp := func() *fw.Trace {
					c := &fw.Trace{Status: fw.Realised, Beh: t.Beh}
					nextID++
					c.Beh.ID = nextID
					for _, e := range t.Events {
						ne := fw.Event{}
						for k, v := range e {
							ne[k] = v
						}
						c.Events = append(c.Events, ne)
					}
					return c
				}
				if setRet >= 0 && last["t"] == "val" && last["probe"] == true {
					c := cp()
					c.Events[len(c.Events)-1]["v"] = 0 // the probe reads the initial value again
					out = append(out, c)
				} else if appRet >= 0 && last["t"] == "list" {
					c := cp()
					c.Events[len(c.Events)-1]["v"] = []any{}
					out = append(out, c)
				}
			}
			return out
		},
		JudgeModule: "HybridTrace",
		JudgeCfg:    "HybridTrace.cfg",
		Rule:        "one behaviour per (state, tier-step) transition of Hybrid.tla (2 processes x 2 facade calls, write-back as its own process), forced on the real hybrid.Storage through gate-controlled tier doubles, for each key category; non-trivial = realised with at least one tier step by each of two processes",
		Assumptions: []string{"single facade instance (callers are goroutines of one node); cache TTL expiry is outside the behaviours", "tier doubles are correct maps"},
		TrustedBase: []string{"TLC", "spec/HybridTrace.tla as the reading of C14", "harness/sched gate scheduler", "harness/doubles store double"},
	})
}
