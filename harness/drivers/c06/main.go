// C06 driver: forces TLC-generated interleavings (spec/ConnCode.tla, storage-operation granularity,
// with expiry and single write faults) of concurrent ActivateConnectionCode / RevokeConnectionCode
// calls on ONE connection code on the real conncode.Service + PortMappingService + repositories +
// IDManager, and records call/return events, Expire and Fault events and the final store contents
// for the judge (spec/ConnCodeTrace.tla).
//
// Every generated behaviour is driven on two rigs:
//
//   - "double": ONE service over a gate-controlled store double (one gate per storage call of the
//     repositories). Nothing in the activation path relies on hybrid.Storage for atomicity on one node.
//   - "nodes2": TWO nodes = two conncode.Service instances, each over its OWN real hybrid.Storage
//     (own local-cache double; the shared-cache double and the persistent double in common;
//     hybrid.DefaultConfig key classification with persistence enabled). The processes listed in
//     Node2 call through node n2. The gate is the storage facade call of the node (a thin wrapper
//     around the node's hybrid.Storage parks the caller, then forwards to the real hybrid, which
//     routes the key to whichever tier its configuration says); a model step = one facade call, as on
//     the single store. An injected write fault makes the first tier write of that facade call fail.
//     Whether the claim is cluster-wide is therefore decided by the real hybrid routing of the real
//     claim key - a claim that lands in the node-local cache lets both nodes win (model: ClaimLocal).
//
// The free-running stress variant runs on the double, through one hybrid.Storage, and on two nodes.
package main

import (
	"context"
	"encoding/json"
	"fmt"
	"runtime"
	"sort"
	"strings"
	"sync"
	"sync/atomic"
	"time"

	"tunnox-core/internal/cloud/models"
	"tunnox-core/internal/cloud/repos"
	"tunnox-core/internal/cloud/services"
	"tunnox-core/internal/core/idgen"
	corelog "tunnox-core/internal/core/log"
	"tunnox-core/internal/core/storage"
	"tunnox-core/internal/core/storage/hybrid"
	"tunnox-core/verifharness/doubles"
	"tunnox-core/verifharness/fw"
	"tunnox-core/verifharness/sched"
)

const (
	targetClient = int64(77777777)
	targetAddr   = "tcp://10.0.0.5:8080"
	otherTarget  = int64(88888888) // target of the pre-existing mappings (not this code's)
	codeStr      = "vrf-c06-001"
	codeID       = "conncode_vrfc06"
	expireTTL    = 150 * time.Millisecond // activation TTL of behaviours that contain an Expire step
	codeTTL      = time.Hour              // activation TTL of all other behaviours
	tickJump     = 30 * time.Minute       // a Tick: this much time passes - less than the code can still be activated
	probeProc    = "a5"                   // the quiescent probe activation (a client of its own)

	kCode   = "tunnox:runtime:conncode:code:"
	kCodeID = "tunnox:runtime:conncode:id:"
	kIDMark = "tunnox:id:used:pmap:"
	kMap    = "tunnox:port_mapping:"
	kGList  = "tunnox:mappings:list"
	kCList  = "tunnox:client_mappings:"
)

var clientOf = map[string]int64{"a1": 11111111, "a2": 22222222, "a3": 33333333, "a4": 44444444, "a5": 55555555}

type step struct {
	P string `json:"p"`
	A string `json:"a"`
	F bool   `json:"f"` // this storage write fails
	W bool   `json:"w"` // model: after this step the process waits for the per-client quota lock
	G string `json:"g"` // model: waiter that is handed the quota lock in this step ("" = nobody)
}

type behaviour struct {
	Steps   []step   `json:"steps,omitempty"`
	Legacy  bool     `json:"legacy"`  // generated from a model of a design the code no longer has
	Pre     []string `json:"pre"`     // activators whose client already owns one active mapping
	Quota   int      `json:"quota"`   // max active mappings per client
	Backend string   `json:"backend"` // "double" | "hybrid" (free-running only) | "nodes2"
	Node2   []string `json:"node2"`   // backend nodes2: processes that call through node n2
	SameAs  []string `json:"sameAs"`  // activators that submit with a1's listen client (double submit)
	// free-running variant
	Free   bool `json:"free,omitempty"`
	Procs  int  `json:"procs,omitempty"`
	Rev    bool `json:"rev,omitempty"`
	Expire bool `json:"expire,omitempty"`
	Fault  int  `json:"fault,omitempty"` // n-th storage write of the calls fails (0 = none)
	Seed   int  `json:"seed,omitempty"`
}

type node struct {
	name string
	svc  *services.ConnectionCodeService
	cc   *repos.ConnectionCodeRepository
	pm   *repos.PortMappingRepo
}

type rig struct {
	s         *sched.Sched
	stores    []*doubles.Store // every store / tier double of the rig
	nodes     map[string]*node
	node2     map[string]bool
	sameAs    map[string]bool
	cancel    context.CancelFunc
	expiresAt time.Time
	pre       []string // ids of the pre-existing mappings
	armed     atomic.Bool
	nWrites   atomic.Int64
	faultAt   int64
	mu        sync.Mutex
	hits      []string // labels of the writes that were made to fail
}

func preID(a string) string { return "pmap_pre_" + a }

// client: the listen client process p submits as.
func (r *rig) client(p string) int64 {
	if r.sameAs[p] {
		return clientOf["a1"]
	}
	return clientOf[p]
}

func (r *rig) nodeOf(p string) string {
	if r.node2[p] && r.nodes["n2"] != nil {
		return "n2"
	}
	return "n1"
}

// facade is the storage a node's repositories see: the node's real hybrid.Storage behind a gate per call.
type facade struct {
	*hybrid.Storage
	s    *sched.Sched
	name string
}

func (f *facade) gate(op, key string) { f.s.Gate(f.name+"."+op, map[string]any{"key": key}) }
func (f *facade) Set(k string, v any, ttl time.Duration) error {
	f.gate("Set", k)
	defer f.s.After()
	return f.Storage.Set(k, v, ttl)
}
func (f *facade) Get(k string) (any, error) {
	f.gate("Get", k)
	defer f.s.After()
	return f.Storage.Get(k)
}
func (f *facade) Delete(k string) error {
	f.gate("Delete", k)
	defer f.s.After()
	return f.Storage.Delete(k)
}
func (f *facade) Exists(k string) (bool, error) {
	f.gate("Exists", k)
	defer f.s.After()
	return f.Storage.Exists(k)
}
func (f *facade) SetList(k string, v []any, ttl time.Duration) error {
	f.gate("SetList", k)
	defer f.s.After()
	return f.Storage.SetList(k, v, ttl)
}
func (f *facade) GetList(k string) ([]any, error) {
	f.gate("GetList", k)
	defer f.s.After()
	return f.Storage.GetList(k)
}
func (f *facade) AppendToList(k string, v any) error {
	f.gate("AppendToList", k)
	defer f.s.After()
	return f.Storage.AppendToList(k, v)
}
func (f *facade) RemoveFromList(k string, v any) error {
	f.gate("RemoveFromList", k)
	defer f.s.After()
	return f.Storage.RemoveFromList(k, v)
}
func (f *facade) SetNX(k string, v any, ttl time.Duration) (bool, error) {
	f.gate("SetNX", k)
	defer f.s.After()
	return f.Storage.SetNX(k, v, ttl)
}

func (r *rig) addNode(ctx context.Context, name string, stor storage.Storage, quota int) {
	repo := repos.NewRepository(stor)
	n := &node{name: name, cc: repos.NewConnectionCodeRepository(repo), pm: repos.NewPortMappingRepo(repo)}
	idm := idgen.NewIDManager(stor, ctx)
	pms := services.NewPortMappingService(n.pm, idm, nil, ctx)
	n.svc = services.NewConnectionCodeService(n.cc, pms, n.pm,
		&services.ConnectionCodeServiceConfig{MaxActiveCodesPerClient: 10, MaxActiveMappingsPerClient: quota}, ctx)
	r.nodes[name] = n
}

func newRig(free bool, backend string, node2, sameAs []string, ttl time.Duration, pre []string, quota int) (*rig, error) {
	r := &rig{s: sched.New(free), nodes: map[string]*node{}, node2: map[string]bool{}, sameAs: map[string]bool{}}
	for _, p := range sameAs {
		r.sameAs[p] = true
	}
	r.s.Watchdog = 2 * time.Second
	ctx, cancel := context.WithCancel(context.Background())
	r.cancel = cancel
	if quota <= 0 {
		quota = 50
	}
	mk := func(name string, gated bool) *doubles.Store {
		var s *sched.Sched
		if gated {
			s = r.s
		}
		st := doubles.NewStore(name, s)
		r.stores = append(r.stores, st)
		return st
	}
	switch backend {
	case "", "double":
		r.addNode(ctx, "n1", mk("sd", true), quota)
	case "hybrid": // one node through the real hybrid.Storage; the tier doubles carry the (free-running) gates
		r.addNode(ctx, "n1", hybrid.NewWithSharedCache(ctx, mk("sd", true), mk("sh", true), nil, hybrid.DefaultConfig()), quota)
	case "nodes2":
		// scheduled: the gate is the facade call, the tier doubles run ungated; free-running: jitter at both levels
		sh, ps := mk("sh", free), mk("ps", free)
		for _, name := range []string{"n1", "n2"} {
			cfg := hybrid.DefaultConfig()
			cfg.EnablePersistent = true
			h := hybrid.NewWithSharedCache(ctx, mk("l"+name[1:], free), sh, doubles.Pers{St: ps}, cfg)
			r.addNode(ctx, name, &facade{Storage: h, s: r.s, name: name}, quota)
		}
		for _, p := range node2 {
			r.node2[p] = true
		}
		r.node2[probeProc] = true
	default:
		cancel()
		return nil, fmt.Errorf("unknown backend %q", backend)
	}
	n1 := r.nodes["n1"]
	// the code, as CreateConnectionCode stores it (driver goroutine: passes the gates unparked)
	now := time.Now()
	// wall-clock reading only (Round(0) strips the monotonic part): the code under test compares
	// time.Now() with the deadline it parsed back from JSON, i.e. by wall clock - the driver must too
	r.expiresAt = now.Add(ttl).Round(0)
	code := &models.TunnelConnectionCode{ID: codeID, Code: codeStr, TargetClientID: targetClient, TargetAddress: targetAddr,
		ActivationTTL: ttl, MappingDuration: 24 * time.Hour, CreatedAt: now, ActivationExpiresAt: r.expiresAt, CreatedBy: "verif"}
	if err := n1.cc.Create(code); err != nil {
		cancel()
		return nil, fmt.Errorf("create code: %w", err)
	}
	// pre-existing active mappings (quota reads then contain one Get through singleflight)
	for _, a := range pre {
		m := &models.PortMapping{ID: preID(a), ListenClientID: clientOf[a], TargetClientID: otherTarget, Protocol: models.ProtocolTCP,
			SourcePort: 7000, TargetHost: "10.9.9.9", TargetPort: 7001, ListenAddress: "0.0.0.0:7000", TargetAddress: "tcp://10.9.9.9:7001",
			Status: models.MappingStatusActive, CreatedAt: now, UpdatedAt: now, Type: models.MappingTypeAnonymous}
		if err := n1.pm.CreatePortMapping(m); err != nil {
			cancel()
			return nil, fmt.Errorf("create pre mapping: %w", err)
		}
		if err := n1.pm.AddMappingToClient(fmt.Sprint(clientOf[a]), m); err != nil {
			cancel()
			return nil, fmt.Errorf("index pre mapping: %w", err)
		}
		r.pre = append(r.pre, preID(a))
	}
	fault := func(c *doubles.Call) error {
		if !c.Write {
			return nil
		}
		n := r.nWrites.Add(1)
		if r.armed.CompareAndSwap(true, false) || (r.faultAt > 0 && n == r.faultAt) {
			r.mu.Lock()
			r.hits = append(r.hits, classify(c.Op, c.Key))
			r.mu.Unlock()
			return doubles.ErrInjected
		}
		return nil
	}
	for _, st := range r.stores {
		st.Fault = fault
	}
	return r, nil
}

// keyClass names the kind of record a storage key holds. The claim key is recognised by what it is
// (a key of this code that is not the code record), not by its exact prefix.
func keyClass(key string) string {
	switch {
	case strings.HasPrefix(key, kCodeID):
		return "code_by_id"
	case strings.HasPrefix(key, kCode):
		return "code_by_code"
	case strings.HasPrefix(key, kIDMark):
		return "id_mark"
	case strings.HasPrefix(key, kMap):
		return "port_mapping"
	case key == kGList:
		return "mappings_list"
	case strings.HasPrefix(key, kCList):
		return "client_list"
	case strings.HasSuffix(key, ":"+codeStr) && !strings.HasPrefix(key, "tunnox:index:"):
		return "claim"
	}
	return "other"
}

// classify names a storage write by operation and key class (the Fault event label).
func classify(op, key string) string {
	return strings.TrimSuffix(strings.TrimSuffix(op, "ToList"), "FromList") + ":" + keyClass(key)
}

// gate: the storage call a process must be parked in front of: operation + key class (+ the identity
// the driver itself chose: client id of a list, id of a pre-existing mapping).
type gate struct{ op, class, ident string }

func (g gate) String() string { return g.op + " " + g.class + " " + g.ident }

// gateOf maps a model step of process p to its storage call.
func (r *rig) gateOf(p, a string) (gate, bool) {
	listen := fmt.Sprint(r.client(p))
	target := fmt.Sprint(targetClient)
	switch a {
	case "Read", "RRead":
		return gate{"Get", "code_by_code", ""}, true
	case "QList":
		return gate{"GetList", "client_list", listen}, true
	case "QGet":
		return gate{"Get", "port_mapping", ""}, true // a pre-existing mapping or the same client's other one
	case "Claim":
		return gate{"SetNX", "claim", ""}, true
	case "ClaimGet":
		return gate{"Get", "claim", ""}, true
	case "GenId":
		return gate{"SetNX", "id_mark", ""}, true
	case "CGet", "RbGet":
		return gate{"Get", "port_mapping", ""}, true
	case "CSet":
		return gate{"Set", "port_mapping", ""}, true
	case "CApp":
		return gate{"AppendToList", "mappings_list", ""}, true
	case "CDel", "RbDel":
		return gate{"Delete", "port_mapping", ""}, true
	case "RelId", "RbRelId":
		return gate{"Delete", "id_mark", ""}, true
	case "IdxL":
		return gate{"AppendToList", "client_list", listen}, true
	case "IdxT":
		return gate{"AppendToList", "client_list", target}, true
	case "UpdC", "RUpdC":
		return gate{"Set", "code_by_code", ""}, true
	case "UpdI", "RUpdI":
		return gate{"Set", "code_by_id", ""}, true
	case "RbRemL":
		return gate{"RemoveFromList", "client_list", listen}, true
	case "RbRemT":
		return gate{"RemoveFromList", "client_list", target}, true
	case "RbRemG":
		return gate{"RemoveFromList", "mappings_list", ""}, true
	case "RelClaim":
		return gate{"Delete", "claim", ""}, true
	case "RstC":
		return gate{"Set", "code_by_code", ""}, true
	case "RstI":
		return gate{"Set", "code_by_id", ""}, true
	}
	return gate{}, false
}

func (g gate) matches(at sched.GateInfo) bool {
	if !strings.HasSuffix(at.Point, "."+g.op) {
		return false
	}
	k, _ := at.Info["key"].(string)
	return keyClass(k) == g.class && strings.HasSuffix(k, g.ident)
}

type callRes struct {
	ok      bool
	id      string
	listen  int64
	tclient int64
	taddr   string
	err     string
}

func (r *rig) activate(p string) callRes {
	svc := r.nodes[r.nodeOf(p)].svc
	m, err := svc.ActivateConnectionCode(&services.ActivateConnectionCodeRequest{Code: codeStr, ListenClientID: r.client(p), ListenAddress: "0.0.0.0:9" + p[1:] + "00"})
	if err != nil || m == nil {
		return callRes{err: fmt.Sprint(err)}
	}
	return callRes{ok: true, id: m.ID, listen: m.ListenClientID, tclient: m.TargetClientID, taddr: m.TargetAddress}
}

func (r *rig) revoke(p string) callRes {
	if err := r.nodes[r.nodeOf(p)].svc.RevokeConnectionCode(codeStr, "verif"); err != nil {
		return callRes{err: err.Error()}
	}
	return callRes{ok: true}
}

func (r *rig) callEvent(p string) fw.Event {
	if p == "r" {
		return fw.Event{"ev": "Call", "p": p, "op": "Rev", "client": 0, "node": r.nodeOf(p)}
	}
	return fw.Event{"ev": "Call", "p": p, "op": "Act", "client": r.client(p), "node": r.nodeOf(p)}
}

func retEvent(p string, res callRes) fw.Event {
	op := "Act"
	if p == "r" {
		op = "Rev"
	}
	return fw.Event{"ev": "Ret", "p": p, "op": op, "ok": res.ok, "id": res.id, "listen": res.listen, "tclient": res.tclient, "taddr": res.taddr, "err": res.err}
}

func (r *rig) codeEvent() fw.Event {
	pre := []any{}
	for _, id := range r.pre {
		pre = append(pre, id)
	}
	return fw.Event{"ev": "Code", "target": targetClient, "addr": targetAddr, "pre": pre}
}

// dropCodeKeys: the activation TTL elapsed - the two code keys and the claim key (same TTL) are gone,
// in whichever tier they live.
func (r *rig) dropCodeKeys() {
	for _, st := range r.stores {
		st.ExpireWhere(func(k string, ttl time.Duration) bool {
			c := keyClass(k)
			return c == "code_by_code" || c == "code_by_id" || c == "claim"
		})
	}
}

// timeJump realises the model's Tick on the store doubles: tickJump passes, i.e. every key that was written with
// a lifetime of at most tickJump is gone (all writes of a behaviour happen within milliseconds). The code itself
// (lifetime codeTTL, checked by wall clock) can still be activated, and so must its claim.
func (r *rig) timeJump() {
	for _, st := range r.stores {
		st.ExpireWhere(func(k string, ttl time.Duration) bool { return ttl <= tickJump })
	}
}

// probe: once everything has returned, one more activation by a client of its own (through node n2 where there
// is one). Whatever happened before, it must not succeed on a code that was used, revoked or has expired.
func (r *rig) probe(log func(fw.Event)) {
	log(r.callEvent(probeProc))
	res := r.activate(probeProc)
	r.mu.Lock()
	hits := r.hits
	r.hits = nil
	r.mu.Unlock()
	for _, h := range hits {
		log(fw.Event{"ev": "Fault", "at": h})
	}
	log(retEvent(probeProc, res))
}

// finalEvent: every port-mapping record in any tier (what a Get through a node would find), and the
// state of the code record.
func (r *rig) finalEvent() (fw.Event, error) {
	maps := []any{}
	snap := map[string]any{}
	code := map[string]any{"present": false, "activated": false, "revoked": false, "claimed": false}
	for _, st := range r.stores {
		for k, v := range st.Snapshot(kMap) {
			snap[k] = v
		}
		if v, ok := st.Peek(kCode + codeStr); ok {
			var c models.TunnelConnectionCode
			if s, isStr := v.(string); isStr && json.Unmarshal([]byte(s), &c) == nil {
				code["present"], code["activated"], code["revoked"] = true, c.IsActivated, c.IsRevoked
			}
		}
		for k := range st.Snapshot("tunnox:runtime:") {
			if keyClass(k) == "claim" {
				code["claimed"] = true
			}
		}
	}
	keys := make([]string, 0, len(snap))
	for k := range snap {
		keys = append(keys, k)
	}
	sort.Strings(keys)
	for _, k := range keys {
		s, ok := snap[k].(string)
		if !ok {
			return nil, fmt.Errorf("mapping record %s is not a string: %T", k, snap[k])
		}
		var m models.PortMapping
		if err := json.Unmarshal([]byte(s), &m); err != nil {
			return nil, fmt.Errorf("mapping record %s: %v", k, err)
		}
		maps = append(maps, map[string]any{"id": m.ID, "listen": m.ListenClientID, "tclient": m.TargetClientID, "taddr": m.TargetAddress, "status": string(m.Status)})
	}
	return fw.Event{"ev": "Final", "maps": maps, "code": code}, nil
}

func (r *rig) close() { r.cancel() }

func drive(env *fw.Env, b fw.Behaviour) *fw.Trace {
	var beh behaviour
	if err := json.Unmarshal(b.Data, &beh); err != nil {
		return &fw.Trace{Status: fw.DriverError, Note: err.Error()}
	}
	if beh.Free {
		return driveFree(env, beh)
	}
	hasExpire := false
	for _, st := range beh.Steps {
		if st.A == "Expire" {
			hasExpire = true
		}
	}
	ttl := codeTTL
	if hasExpire {
		ttl = expireTTL
	}
	r, err := newRig(false, beh.Backend, beh.Node2, beh.SameAs, ttl, beh.Pre, beh.Quota)
	if err != nil {
		return &fw.Trace{Status: fw.DriverError, Note: err.Error()}
	}
	defer r.close()
	wd := r.s.Watchdog
	t := &fw.Trace{Status: fw.Realised}
	t.Events = append(t.Events, r.codeEvent())
	started := map[string]bool{}
	var order []string
	returned := map[string]bool{}
	expired := false
	logRet := func(p string) {
		res, _ := r.s.Result(p).(callRes)
		t.Events = append(t.Events, retEvent(p, res))
		returned[p] = true
	}
	flushFaults := func() {
		r.mu.Lock()
		for _, h := range r.hits {
			t.Events = append(t.Events, fw.Event{"ev": "Fault", "at": h})
		}
		r.hits = nil
		r.mu.Unlock()
	}
	// the deadline passed by the real clock although the schedule has not reached (or has no) Expire step:
	// say so - an Expire event is sound whenever it is logged after the deadline
	lateExpire := func() {
		if hasExpire && !expired && time.Now().After(r.expiresAt) {
			r.dropCodeKeys()
			expired = true
			t.Events = append(t.Events, fw.Event{"ev": "Expire"})
		}
	}
	// finish: let every call still in flight run to completion free-running, record returns and the final
	// store. Used at the end of a behaviour (a prefix of a run) and when the code left the model's schedule
	// (status Diverged): either way it is a real execution and it is judged.
	finish := func(status, note string) *fw.Trace {
		lateExpire()
		if !r.s.Drain(5 * time.Second) {
			return &fw.Trace{Status: fw.DriverError, Note: "calls did not finish after drain (" + note + ")"}
		}
		flushFaults()
		for _, p := range order {
			if !returned[p] && r.s.Await(p) == sched.Done {
				logRet(p)
			}
		}
		lateExpire()
		r.probe(func(e fw.Event) { t.Events = append(t.Events, e) })
		fe, err := r.finalEvent()
		if err != nil {
			return &fw.Trace{Status: fw.DriverError, Note: err.Error()}
		}
		t.Events = append(t.Events, fe)
		t.Status, t.Note = status, note
		return t
	}
	diverged := func(format string, a ...any) *fw.Trace { return finish(fw.Diverged, fmt.Sprintf(format, a...)) }
	// after a step: the process is parked at its next storage call, has returned, or (w) waits for the quota lock
	settle := func(i int, st step, ns string) (string, bool) {
		switch {
		case st.W && ns == sched.Blocked:
		case st.W:
			return fmt.Sprintf("step %d: %s is %s after %s, model expects it to wait for the quota lock", i, st.P, ns, st.A), false
		case ns == sched.Done:
			logRet(st.P)
		case ns == sched.Parked:
		default:
			return fmt.Sprintf("step %d: %s is %s after %s", i, st.P, ns, st.A), false
		}
		if st.G != "" {
			// the returning call released the quota lock: the waiter runs on to its next storage call
			if !started[st.G] || r.s.Await(st.G) != sched.Parked {
				return fmt.Sprintf("step %d: %s was not handed the quota lock after %s of %s", i, st.G, st.A, st.P), false
			}
		}
		return "", true
	}
	for i, st := range beh.Steps {
		switch {
		case st.A == "Expire":
			// every earlier step ran (with all its wall-clock validity checks) before the deadline?
			if time.Now().After(r.expiresAt.Add(-expireTTL / 3)) {
				r.s.Drain(3 * time.Second)
				return &fw.Trace{Status: fw.Inconclusive, Note: fmt.Sprintf("step %d: steps before Expire overran the timing margin", i)}
			}
			time.Sleep(time.Until(r.expiresAt) + 2*time.Millisecond)
			for !time.Now().After(r.expiresAt) {
				time.Sleep(time.Millisecond)
			}
			r.dropCodeKeys()
			expired = true
			t.Events = append(t.Events, fw.Event{"ev": "Expire"})
			continue
		case st.A == "Tick":
			if hasExpire {
				return &fw.Trace{Status: fw.DriverError, Note: "Tick in a behaviour with a short activation TTL"}
			}
			r.timeJump()
			t.Events = append(t.Events, fw.Event{"ev": "Tick"})
			continue
		case st.A == "Call":
			if started[st.P] {
				return &fw.Trace{Status: fw.DriverError, Note: "second call of " + st.P}
			}
			started[st.P] = true
			order = append(order, st.P)
			p := st.P
			t.Events = append(t.Events, r.callEvent(p))
			var state string
			if p == "r" {
				state = r.s.Start(p, func() any { return r.revoke(p) })
			} else {
				state = r.s.Start(p, func() any { return r.activate(p) })
			}
			if state != sched.Parked {
				if state == sched.Done {
					logRet(p)
				}
				return diverged("step %d: call of %s did not park at its first storage call (%s)", i, p, state)
			}
			continue
		}
		g, ok := r.gateOf(st.P, st.A)
		if !ok || !started[st.P] {
			return &fw.Trace{Status: fw.DriverError, Note: fmt.Sprintf("step %d: unknown step %s of %s", i, st.A, st.P)}
		}
		stt, at := r.s.State(st.P)
		if stt != sched.Parked || !g.matches(at) {
			return diverged("step %d: %s is %s at %s %v, model expects %s (%s)", i, st.P, stt, at.Point, at.Info["key"], st.A, g)
		}
		if st.F {
			r.armed.Store(true)
		}
		if st.W {
			r.s.Watchdog = 15 * time.Millisecond // expected to block on the quota lock: do not wait long for a gate
		}
		ns, _ := r.s.Step(st.P)
		r.s.Watchdog = wd
		if st.F && r.armed.Load() {
			r.armed.Store(false)
			return &fw.Trace{Status: fw.DriverError, Note: fmt.Sprintf("step %d: fault on %s of %s was not consumed", i, st.A, st.P)}
		}
		flushFaults()
		if expired {
			r.dropCodeKeys() // whatever is written to the code keys after the deadline lapses at once
		}
		if note, ok := settle(i, st, ns); !ok {
			return diverged("%s", note)
		}
	}
	// the behaviour is a prefix: let every call still in flight run to completion, then observe
	return finish(fw.Realised, "")
}

// driveFree: seeded free-running stress of the same calls over the same doubles (optionally through the
// real hybrid.Storage): Procs activators (+ a revoker) start at random offsets, every storage gate
// injects a small random delay, optionally the n-th storage write fails and the (short) activation
// TTL elapses by the real clock in the middle of the run. Call is logged before a call starts, Ret
// after it returned, Expire only once the wall clock is past the deadline - all under one mutex, so
// file order is sound real-time order.
func driveFree(env *fw.Env, beh behaviour) *fw.Trace {
	rnd := fw.NewRand(env.Seed*100003 + int64(beh.Seed))
	ttl := codeTTL
	if beh.Expire {
		ttl = time.Duration(2+rnd.Intn(6)) * time.Millisecond
	}
	var node2 []string
	for i := 2; i <= beh.Procs; i += 2 {
		node2 = append(node2, fmt.Sprintf("a%d", i)) // backend nodes2: activators alternate between the nodes
	}
	if beh.Seed%2 == 0 {
		node2 = append(node2, "r")
	}
	r, err := newRig(true, beh.Backend, node2, beh.SameAs, ttl, beh.Pre, beh.Quota)
	if err != nil {
		return &fw.Trace{Status: fw.DriverError, Note: err.Error()}
	}
	defer r.close()
	for _, st := range r.stores {
		st.RealTTL = true
	}
	var rmu sync.Mutex
	r.s.FreeDelay = func(name string, g sched.GateInfo) {
		rmu.Lock()
		k := rnd.Intn(10)
		rmu.Unlock()
		switch {
		case k < 4:
			runtime.Gosched()
		case k < 7:
			time.Sleep(time.Duration(10+k*15) * time.Microsecond)
		}
	}
	r.nWrites.Store(0)
	r.faultAt = int64(beh.Fault)
	t := &fw.Trace{Status: fw.Realised}
	var mu sync.Mutex
	log := func(e fw.Event) {
		mu.Lock()
		t.Events = append(t.Events, e)
		mu.Unlock()
	}
	log(r.codeEvent())
	var procs []string
	for i := 1; i <= beh.Procs; i++ {
		procs = append(procs, fmt.Sprintf("a%d", i))
	}
	if beh.Rev {
		procs = append(procs, "r")
	}
	span := 300
	if beh.Expire {
		span = int(ttl/time.Microsecond) * 2 // calls start before and after the deadline
	}
	offsets := map[string]time.Duration{}
	for _, p := range procs {
		offsets[p] = time.Duration(rnd.Intn(span)) * time.Microsecond
	}
	stopExp := make(chan struct{})
	var wgExp sync.WaitGroup
	if beh.Expire {
		wgExp.Add(1)
		go func() {
			defer wgExp.Done()
			select {
			case <-stopExp:
				return
			case <-time.After(time.Until(r.expiresAt) + 200*time.Microsecond):
			}
			for !time.Now().After(r.expiresAt) {
				time.Sleep(50 * time.Microsecond)
			}
			log(fw.Event{"ev": "Expire"})
		}()
	}
	var wg sync.WaitGroup
	for _, p := range procs {
		p := p
		wg.Add(1)
		r.s.Start(p, func() any {
			defer wg.Done()
			time.Sleep(offsets[p])
			log(r.callEvent(p))
			var res callRes
			if p == "r" {
				res = r.revoke(p)
			} else {
				res = r.activate(p)
			}
			// Fault events of this call are logged before its Ret
			r.mu.Lock()
			hits := r.hits
			r.hits = nil
			r.mu.Unlock()
			for _, h := range hits {
				log(fw.Event{"ev": "Fault", "at": h})
			}
			log(retEvent(p, res))
			return res
		})
	}
	done := make(chan struct{})
	go func() { wg.Wait(); close(done) }()
	select {
	case <-done:
	case <-time.After(15 * time.Second):
		close(stopExp)
		return &fw.Trace{Status: fw.DriverError, Note: "free-running calls did not finish"}
	}
	// the Expire event is logged in every run with a short TTL (a call may already have seen the deadline pass
	// by its own clock reading): wait for the logger - at most the few milliseconds of the TTL
	wgExp.Wait()
	close(stopExp)
	r.probe(log)
	fe, err := r.finalEvent()
	if err != nil {
		return &fw.Trace{Status: fw.DriverError, Note: err.Error()}
	}
	log(fe)
	return t
}

// ---- wiring ----------------------------------------------------------------------------------

type genCfg struct {
	name     string
	acts     int
	rev, exp bool
	fault    int
	pre      string
	quota    int
	repaired bool
	node2    string // TLA+ set of the processes that call through node n2 (default {"a2","r"})
	clocal   bool   // model variant: the claim key lives in each node's local cache tier
	same     string // TLA+ set of the activators that submit as a1's listen client (default {})
	reclaim  bool   // model variant: idempotent re-claim by the same client
	reset    bool   // model variant: a failed final Update also writes the stale record back as not activated
	tick     bool   // time may pass (Tick) by less than the code's remaining lifetime
	short    bool   // model variant: the claim key's TTL is shorter than the code's remaining lifetime
	rig      string // "" = drive on both rigs, else only on "double" / "nodes2"
	emit     bool
	invs     string
	workers  int
	timeout  time.Duration
}

func actsSet(n int) string {
	var s []string
	for i := 1; i <= n; i++ {
		s = append(s, fmt.Sprintf("\"a%d\"", i))
	}
	return "{" + strings.Join(s, ",") + "}"
}

func tf(b bool) string {
	if b {
		return "TRUE"
	}
	return "FALSE"
}

func (c genCfg) job() fw.TLCJob {
	view := "view"
	if c.emit {
		view = "gview"
	}
	w := c.workers
	if w == 0 {
		w = 8
	}
	if c.emit {
		w = 1 // deterministic breadth-first order: the same behaviours on every run
	}
	if c.node2 == "" {
		c.node2 = `{"a2","r"}`
	}
	if c.same == "" {
		c.same = `{}`
	}
	return fw.TLCJob{Name: c.name, Module: "ConnCode", Cfg: "ConnCode_mc.cfg", Workers: w, Timeout: c.timeout,
		Consts: map[string]string{"ACTS": actsSet(c.acts), "REV": tf(c.rev), "EXP": tf(c.exp), "FAULT": fmt.Sprint(c.fault),
			"PRE": c.pre, "QUOTA": fmt.Sprint(c.quota), "CLAIM": tf(c.repaired), "CRB": tf(c.repaired), "EMIT": tf(c.emit),
			"NODE2": c.node2, "CLOCAL": tf(c.clocal), "SAME": c.same, "RECLAIM": tf(c.reclaim),
			"RESET": tf(c.reset), "TICK": tf(c.tick), "SHORT": tf(c.short),
			"VIEW": view, "INVS": c.invs}}
}

const (
	invStrict   = "AtMostOneMapping AtMostOneSuccess SuccessWasValid FailedLeavesNone FieldsOK NoLegacyDev ClaimExcludes LockOK NoActivationAfterDeath"
	invRepaired = "AtMostOneMappingR AtMostOneSuccess SuccessWasValid FailedLeavesNoneR FieldsOK NoLegacyDev ClaimExcludes NoActivationAfterDeath"
	invAsIs     = "AtMostOneMappingD AtMostOneSuccessD SuccessWasValid FailedLeavesNoneD FieldsOK NoActivationAfterDeath"
	invLocal    = "AtMostOneMappingL AtMostOneSuccessL SuccessWasValid FailedLeavesNone FieldsOK NoActivationAfterDeath"
	invReset    = "AtMostOneMapping AtMostOneSuccess SuccessWasValid NoActivationAfterDeathZ FailedLeavesNone FieldsOK LockOK"
	invShort    = "AtMostOneMappingT AtMostOneSuccessT SuccessWasValid NoActivationAfterDeath FailedLeavesNone FieldsOK LockOK"
	invReclaim  = "AtMostOneMappingQ AtMostOneSuccessQ SuccessWasValid FailedLeavesNone FieldsOK LockOK NoActivationAfterDeath"
)

var genTable = map[string]genCfg{}

func genJobs(tier string) []genCfg {
	p1 := `{"a1"}`
	// quick: the primary sources (the step structure of the code as it is)
	jobs := []genCfg{
		{name: "gen:race", acts: 2, rev: true, pre: p1, quota: 2, repaired: true},
		{name: "gen:fault", acts: 2, fault: 1, pre: p1, quota: 2, repaired: true},
		{name: "gen:expire", acts: 2, rev: true, exp: true, pre: p1, quota: 2, repaired: true},
		{name: "gen:expfault", acts: 1, exp: true, fault: 1, pre: `{}`, quota: 2, repaired: true},
		// the SAME listen client submits twice (a1, a2) while a third client (a3) races: on one node the second
		// submit waits on the per-client quota lock; through two nodes the two submits interleave freely
		{name: "gen:twin1", acts: 3, pre: `{}`, quota: 3, repaired: true, same: `{"a2"}`, node2: `{}`, rig: "double"},
		{name: "gen:twin2", acts: 3, pre: `{}`, quota: 3, repaired: true, same: `{"a2"}`, node2: `{"a2"}`, rig: "nodes2"},
		{name: "gen:twinfault", acts: 2, fault: 1, pre: `{}`, quota: 3, repaired: true, same: `{"a2"}`, node2: `{}`, rig: "double"},
		// a revoke interleaved with an activation that suffers a write fault (the quiescent probe is the later activator)
		{name: "gen:revfault", acts: 1, rev: true, fault: 1, pre: `{}`, quota: 2, repaired: true},
		// time passes (less than the code's remaining lifetime) at any point of two racing activations
		{name: "gen:tick", acts: 2, tick: true, pre: `{}`, quota: 2, repaired: true},
	}
	if tier == "thorough" {
		jobs = append(jobs,
			genCfg{name: "gen:quota", acts: 2, pre: `{"a2"}`, quota: 1, repaired: true},
			genCfg{name: "gen:race3", acts: 3, rev: true, pre: p1, quota: 2, repaired: true},
			genCfg{name: "gen:all2", acts: 2, rev: true, exp: true, fault: 1, pre: p1, quota: 2, repaired: true},
			genCfg{name: "gen:revfault2", acts: 2, rev: true, fault: 1, pre: `{}`, quota: 2, repaired: true},
			genCfg{name: "gen:revtick", acts: 2, rev: true, tick: true, pre: p1, quota: 2, repaired: true},
			// behaviours of designs the code does not (or no longer) have: they leave the real code's schedule at the
			// first difference (and are then finished free-running and judged like everything else)
			// - the code before the repair: read-check-create-update without a claim
			genCfg{name: "legacy:race", acts: 2, rev: true, pre: p1, quota: 2},
			genCfg{name: "legacy:fault", acts: 1, fault: 1, pre: `{}`, quota: 2},
			genCfg{name: "legacy:race3", acts: 3, pre: p1, quota: 2},
			genCfg{name: "legacy:expfault", acts: 1, exp: true, fault: 1, pre: `{}`, quota: 2},
			// - a node-local claim key (each node's SetNX wins in its own cache)
			genCfg{name: "legacy:localclaim", acts: 2, pre: `{}`, quota: 2, repaired: true, clocal: true, node2: `{"a2"}`, rig: "nodes2"},
			// - "idempotent re-claim" (a lost SetNX counts as won when the key holds the caller's client id)
			genCfg{name: "legacy:reclaim", acts: 2, pre: `{}`, quota: 3, repaired: true, same: `{"a2"}`, node2: `{}`, reclaim: true, rig: "double"},
			// - a rollback that writes the stale record back after a failed final Update (erasing a revoke)
			genCfg{name: "legacy:reset", acts: 2, rev: true, fault: 1, pre: `{}`, quota: 2, repaired: true, reset: true},
			// - a claim key that lives shorter than the code
			genCfg{name: "legacy:shortclaim", acts: 2, tick: true, short: true, pre: `{}`, quota: 2, repaired: true},
		)
	}
	for i := range jobs {
		jobs[i].emit = true
		genTable[jobs[i].name] = jobs[i]
	}
	return jobs
}

func cloneTrace(t *fw.Trace, id int) *fw.Trace {
	c := &fw.Trace{Status: fw.Realised, Beh: t.Beh}
	c.Beh.ID = id
	for _, e := range t.Events {
		ne := fw.Event{}
		for k, v := range e {
			ne[k] = v
		}
		c.Events = append(c.Events, ne)
	}
	return c
}

func selfTest(env *fw.Env, acc []*fw.Trace) []*fw.Trace {
	var out []*fw.Trace
	nextID := 1 << 20
	kinds := map[string]int{}
	const perKind = 12
	for _, t := range acc {
		okRet, failRet, callOfOk, final := -1, -1, -1, -1
		for i, e := range t.Events {
			switch {
			case e["ev"] == "Ret" && e["op"] == "Act" && e["ok"] == true && okRet < 0:
				okRet = i
			case e["ev"] == "Ret" && e["op"] == "Act" && e["ok"] == false && failRet < 0:
				failRet = i
			case e["ev"] == "Final":
				final = i
			}
		}
		if okRet >= 0 {
			for i, e := range t.Events[:okRet] {
				if e["ev"] == "Call" && e["p"] == t.Events[okRet]["p"] {
					callOfOk = i
				}
			}
		}
		if okRet < 0 || final < 0 || callOfOk < 0 {
			continue
		}
		okEv := t.Events[okRet]
		// (a) a failed activation is reported as a second success
		if failRet >= 0 && kinds["double"] < perKind {
			kinds["double"]++
			nextID++
			c := cloneTrace(t, nextID)
			e := c.Events[failRet]
			e["ok"], e["id"], e["tclient"], e["taddr"] = true, "pmap_forged", okEv["tclient"], okEv["taddr"]
			for _, ce := range c.Events[:failRet] {
				if ce["ev"] == "Call" && ce["p"] == e["p"] {
					e["listen"] = ce["client"]
				}
			}
			out = append(out, c)
		}
		// (b) a mapping nobody returned appears in the final store
		if kinds["orphan"] < perKind {
			kinds["orphan"]++
			nextID++
			c := cloneTrace(t, nextID)
			f := c.Events[final]
			ms, _ := f["maps"].([]any)
			f["maps"] = append(append([]any{}, ms...), map[string]any{"id": "pmap_ghost", "listen": okEv["listen"], "tclient": okEv["tclient"], "taddr": okEv["taddr"], "status": "active"})
			out = append(out, c)
		}
		// (c) the returned mapping listens for somebody else
		if kinds["listen"] < perKind {
			kinds["listen"]++
			nextID++
			c := cloneTrace(t, nextID)
			c.Events[okRet]["listen"] = int64(99999999)
			out = append(out, c)
		}
		// (d) the stored mapping targets another address
		if kinds["stored"] < perKind {
			nextID++
			c := cloneTrace(t, nextID)
			f := c.Events[final]
			ms, _ := f["maps"].([]any)
			var nm []any
			changed := false
			for _, m := range ms {
				mm, _ := m.(map[string]any)
				cp := map[string]any{}
				for k, v := range mm {
					cp[k] = v
				}
				if cp["id"] == okEv["id"] {
					cp["taddr"] = "tcp://10.6.6.6:1"
					changed = true
				}
				nm = append(nm, cp)
			}
			if changed {
				kinds["stored"]++
				f["maps"] = nm
				out = append(out, c)
			}
		}
		// (e) the code had expired / been revoked before the successful activation was even called
		if kinds["expired"] < perKind {
			kinds["expired"]++
			nextID++
			c := cloneTrace(t, nextID)
			ev := append([]fw.Event{}, c.Events[:callOfOk]...)
			ev = append(ev, fw.Event{"ev": "Expire"})
			c.Events = append(ev, c.Events[callOfOk:]...)
			out = append(out, c)
		}
		if kinds["revoked"] < perKind {
			kinds["revoked"]++
			nextID++
			c := cloneTrace(t, nextID)
			ev := append([]fw.Event{}, c.Events[:callOfOk]...)
			ev = append(ev, fw.Event{"ev": "Call", "p": "rx", "op": "Rev", "client": 0, "node": "n1"}, fw.Event{"ev": "Ret", "p": "rx", "op": "Rev", "ok": true, "id": "", "listen": 0, "tclient": 0, "taddr": "", "err": ""})
			c.Events = append(ev, c.Events[callOfOk:]...)
			out = append(out, c)
		}
	}
	return out
}

func main() {
	corelog.SetDefault(corelog.NewNopLogger())
	fw.Main(&fw.Property{
		ID:        "C06",
		DesignRef: "DESIGN.md §5 C06",
		ModelJobs: func(env *fw.Env) []fw.TLCJob {
			p1 := `{"a1"}`
			jobs := []genCfg{
				// the design the code has, every invariant strict: races + revoke + expiry + time passing; races + single write fault
				{name: "mc:repaired:race+revoke+expire+tick", acts: 2, rev: true, exp: true, tick: true, pre: p1, quota: 2, repaired: true, invs: invStrict},
				{name: "mc:repaired:race+revoke+fault", acts: 2, rev: true, fault: 1, pre: p1, quota: 2, repaired: true, invs: invStrict},
				// expiry AND a write fault: holds modulo the residual deviation "rbLost"
				{name: "mc:repaired:all", acts: 2, rev: true, exp: true, fault: 1, pre: p1, quota: 2, repaired: true, invs: invRepaired},
				// the same client submits twice (+ a third client, + revoker): strict, on one node and on two
				{name: "mc:twin:1node", acts: 3, rev: true, pre: `{}`, quota: 3, repaired: true, same: `{"a2"}`, node2: `{}`, invs: invStrict},
				{name: "mc:twin:2nodes", acts: 3, rev: true, pre: `{}`, quota: 3, repaired: true, same: `{"a2"}`, node2: `{"a2"}`, invs: invStrict},
			}
			if env.Tier == "thorough" {
				jobs = append(jobs,
					// designs the code does not (or no longer) have: the properties hold only modulo their named deviations
					genCfg{name: "mc:asis:all", acts: 2, rev: true, exp: true, fault: 1, pre: p1, quota: 2, invs: invAsIs},
					genCfg{name: "mc:localclaim", acts: 2, rev: true, pre: p1, quota: 2, repaired: true, clocal: true, node2: `{"a2"}`, invs: invLocal},
					genCfg{name: "mc:shortclaim", acts: 2, rev: true, tick: true, short: true, pre: p1, quota: 2, repaired: true, invs: invShort},
					genCfg{name: "mc:reset", acts: 2, rev: true, fault: 1, pre: `{}`, quota: 2, repaired: true, reset: true, invs: invReset},
					genCfg{name: "mc:reclaim", acts: 2, rev: true, pre: `{}`, quota: 3, repaired: true, same: `{"a2"}`, node2: `{}`, reclaim: true, invs: invReclaim},
					genCfg{name: "mc:twin:1node:expire", acts: 3, rev: true, exp: true, pre: `{}`, quota: 3, repaired: true, same: `{"a2"}`, node2: `{}`, invs: invStrict, workers: 16},
					genCfg{name: "mc:twin:2nodes:expire+fault", acts: 3, rev: true, exp: true, fault: 1, pre: `{}`, quota: 3, repaired: true, same: `{"a2"}`, node2: `{"a2"}`, invs: invRepaired + " LockOK", workers: 16, timeout: 20 * time.Minute},
					genCfg{name: "mc:repaired:3act:race+revoke+expire", acts: 3, rev: true, exp: true, pre: p1, quota: 2, repaired: true, invs: invStrict, workers: 16},
					genCfg{name: "mc:repaired:3act:all", acts: 3, rev: true, exp: true, fault: 1, pre: p1, quota: 2, repaired: true, invs: invRepaired, workers: 16, timeout: 20 * time.Minute},
					genCfg{name: "mc:asis:3act:all", acts: 3, rev: true, exp: true, fault: 1, pre: p1, quota: 2, invs: invAsIs, workers: 16, timeout: 20 * time.Minute},
				)
			}
			var out []fw.TLCJob
			for _, j := range jobs {
				out = append(out, j.job())
			}
			return out
		},
		GenJobs: func(env *fw.Env) []fw.TLCJob {
			var out []fw.TLCJob
			for _, j := range genJobs(env.Tier) {
				out = append(out, j.job())
			}
			return out
		},
		Expand: func(env *fw.Env, src string, raw json.RawMessage) []json.RawMessage {
			var steps []step
			if err := json.Unmarshal(raw, &steps); err != nil {
				panic(err)
			}
			c := genTable[src]
			var pre []string
			_ = json.Unmarshal([]byte("["+strings.Trim(c.pre, "{}")+"]"), &pre)
			n2 := c.node2
			if n2 == "" {
				n2 = `{"a2","r"}`
			}
			var node2 []string
			_ = json.Unmarshal([]byte("["+strings.Trim(n2, "{}")+"]"), &node2)
			legacy := strings.HasPrefix(src, "legacy")
			var same []string
			if c.same != "" {
				_ = json.Unmarshal([]byte("["+strings.Trim(c.same, "{}")+"]"), &same)
			}
			one := fw.MustJSON(behaviour{Steps: steps, Legacy: legacy, Pre: pre, Quota: c.quota, Backend: "double", SameAs: same})
			two := fw.MustJSON(behaviour{Steps: steps, Legacy: legacy, Pre: pre, Quota: c.quota, Backend: "nodes2", Node2: node2, SameAs: same})
			switch {
			case c.rig == "nodes2":
				return []json.RawMessage{two} // the model's node assignment matters (node-local claim, per-node quota lock)
			case c.rig == "double" || legacy:
				return []json.RawMessage{one}
			}
			return []json.RawMessage{one, two} // the same interleaving on one store and through two nodes
		},
		// fail safe: a behaviour the code leaves part-way is finished free-running and judged (fw.Diverged); when fewer
		// than 3/4 of a primary source's behaviours follow the model to the end the framework ends with exit 2 after
		// the verdict ("the model no longer matches the code") - never OK. 3/4 because every source is driven on two
		// rigs: one rig going completely off-model must trip the guard too.
		RealisableFloor: 0.75,
		ExtraBeh: func(env *fw.Env) []json.RawMessage {
			n := 60
			if env.Tier == "thorough" {
				n = 1500
			}
			var out []json.RawMessage
			for i := 0; i < n; i++ {
				b := behaviour{Free: true, Backend: []string{"double", "nodes2", "hybrid", "nodes2"}[i%4], Procs: 3 + i%2, Rev: i%3 == 0, Seed: i, Quota: 50}
				if i%7 >= 4 {
					b.SameAs = []string{"a2"} // a2 submits with a1's listen client (double submit)
				}
				switch i % 5 {
				case 1, 2:
					b.Fault = 1 + (i/5)%24
				case 3:
					b.Expire = true
				case 4:
					b.Expire = true
					b.Fault = 1 + (i/5)%24
				}
				out = append(out, fw.MustJSON(b))
			}
			return out
		},
		MaxBehSrc: func(env *fw.Env, src string) int {
			if env.Tier == "quick" {
				switch src {
				case "gen:expire":
					return 600
				case "legacy:race":
					return 600
				}
				return 0
			}
			switch src {
			case "gen:expire":
				return 14000
			case "gen:all2":
				return 10000
			case "legacy:race3":
				return 6000
			case "gen:revfault2", "legacy:reset":
				return 6000
			}
			return 0
		},
		Drive:    drive,
		Parallel: 16,
		SelfTest: selfTest,
		NonTrivial: func(t *fw.Trace) bool {
			n := 0
			for _, e := range t.Events {
				if e["ev"] == "Call" {
					n++
				}
			}
			return n >= 2
		},
		JudgeModule: "ConnCodeTrace",
		JudgeCfg:    "ConnCodeTrace.cfg",
		Rule:        "one behaviour per (state, storage-step) transition of ConnCode.tla (2-3 activators + revoker on one code, expiry at every position, every single write-fault position), each forced on the real conncode.Service/PortMappingService/repositories/IDManager (a) on one gate-controlled store double and (b) through two nodes, each with its own real hybrid.Storage (own local cache, shared cache and persistent tier in common); plus seeded free-running runs on the double, one hybrid.Storage and two nodes; non-trivial = at least two calls",
		Assumptions: []string{"one code; activators are distinct listen clients different from the target client (no singleflight coalescing)", "expiry = the wall clock passes ActivationExpiresAt and the code/claim keys (same TTL) vanish; realised by a short activation TTL and sleeping", "the store double is a correct map with atomic SetNX and list operations (hybrid's own tier steps: C14)"},
		TrustedBase: []string{"TLC", "spec/ConnCodeTrace.tla as the reading of C06", "harness/sched gate scheduler", "harness/doubles store double"},
	})
}
